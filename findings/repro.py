"""Reproductions of the genuine defects found in python-graphslam (each prints what fails).
Run: PYTHONPATH=/repo /venv/bin/python findings/repro.py"""
import os, tempfile, sys
import numpy as np
from graphslam.graph import Graph
from graphslam.vertex import Vertex
from graphslam.edge.edge_odometry import EdgeOdometry
from graphslam.edge.edge_landmark import EdgeLandmark
from graphslam.pose.r2 import PoseR2
from graphslam.pose.r3 import PoseR3
from graphslam.pose.se2 import PoseSE2
from graphslam.pose.se3 import PoseSE3

def attempt(name, f):
    try:
        print('%-14s %s' % (name, f()))
    except Exception as ex:
        print('%-14s RAISED %s: %s' % (name, type(ex).__name__, ex))

def c06_isolated_fixed():
    vs = [Vertex(0, PoseR2([0, 0])), Vertex(1, PoseR2([1, 0])), Vertex(2, PoseR2([5, 5]), fixed=True)]
    es = [EdgeOdometry([0, 1], np.eye(2), PoseR2([1.5, 0]))]
    g = Graph(es, vs)
    g.optimize(verbose=False, fix_first_pose=True, max_iter=3)
    return [v.pose.tolist() for v in vs]

def c06_singular_moves_fixed():
    vs = [Vertex(0, PoseR2([0, 0]), fixed=True), Vertex(1, PoseR2([1, 0])), Vertex(2, PoseR2([2, 0])), Vertex(3, PoseR2([9, 9]))]
    es = [EdgeOdometry([0, 1], np.eye(2), PoseR2([1.5, 0]))]   # vertices 2,3 unconstrained -> singular
    g = Graph(es, vs)
    g.optimize(verbose=False, fix_first_pose=False, max_iter=2)
    return 'fixed vertex 0 now at %s' % vs[0].pose.tolist()

def c13_se2_landmark_offset():
    vs = [Vertex(0, PoseSE2([0, 0], 0.3)), Vertex(1, PoseR2([2, 1]))]
    es = [EdgeLandmark([0, 1], np.eye(2), PoseR2([1.7, 0.4]), offset=PoseSE2([0.5, -0.2], 0.4), offset_id=0)]
    g = Graph(es, vs)
    c0 = g.calc_chi2()
    p = os.path.join(tempfile.mkdtemp(), 'g.g2o'); g.to_g2o(p)
    g2 = Graph.from_g2o(p)
    return 'chi2 before %.6f after export/import %.6f' % (c0, g2.calc_chi2())

def c13_se3_landmark_params():
    vs = [Vertex(0, PoseSE3([0, 0, 0], [0, 0, 0, 1])), Vertex(1, PoseR3([2, 1, 0]))]
    es = [EdgeLandmark([0, 1], np.eye(3), PoseR3([1.7, 0.4, 0]), offset=PoseSE3([0.5, -0.2, 0], [0, 0, 0, 1]), offset_id=3)]
    g = Graph(es, vs)
    p = os.path.join(tempfile.mkdtemp(), 'g.g2o'); g.to_g2o(p)
    g2 = Graph.from_g2o(p)
    return 'chi2 %.6f -> %.6f' % (g.calc_chi2(), g2.calc_chi2())

def c17():
    out = []
    for nm, f in [('PoseR3.equals(PoseSE2) same numbers', lambda: PoseR3([1, 2, .5]).equals(PoseSE2([1, 2], .5))),
                  ('PoseR2.equals(PoseSE2)', lambda: PoseR2([1, 2]).equals(PoseSE2([1, 2], .5))),
                  ('EdgeLandmark.equals(EdgeOdometry)', lambda: EdgeLandmark([0, 1], np.eye(2), PoseR2([1, 2]), PoseSE2.identity()).equals(EdgeOdometry([0, 1], np.eye(2), PoseR2([1, 2])))),
                  ('EdgeOdometry(SE2 est).equals(EdgeOdometry(R3 est))', lambda: EdgeOdometry([0, 1], np.eye(3), PoseSE2([1, 2], .5)).equals(EdgeOdometry([0, 1], np.eye(3), PoseR3([1, 2, .5]))))]:
        try:
            out.append('%s -> %r' % (nm, f()))
        except Exception as ex:
            out.append('%s -> RAISED %s' % (nm, type(ex).__name__))
    return '; '.join(out)

def c18():
    out = []
    for (pk, lk, mk_off, mk_est, n) in [('SE2', 'R3', PoseSE2.identity(), PoseR3([1, 2, 3]), 3), ('SE3', 'SE2', PoseSE3.identity(), PoseSE2([1, 2], .1), 3),
                                        ('SE3', 'R2', PoseSE3.identity(), PoseR2([1, 2]), 2), ('SE2', 'SE2', PoseSE2.identity(), PoseSE2([1, 2], .1), 3)]:
        P = {'SE2': PoseSE2.identity(), 'SE3': PoseSE3.identity()}[pk]
        L = {'R3': PoseR3([1, 1, 1]), 'SE2': PoseSE2([1, 1], .2), 'R2': PoseR2([1, 1])}[lk]
        try:
            g = Graph([EdgeLandmark([0, 1], np.eye(n), mk_est, mk_off)], [Vertex(0, P), Vertex(1, L)])
            try:
                g.optimize(verbose=False, max_iter=1)
                out.append('landmark(%s->%s) accepted, optimize ran' % (pk, lk))
            except Exception as ex:
                out.append('landmark(%s->%s) accepted, optimize RAISED %s' % (pk, lk, type(ex).__name__))
        except AssertionError:
            out.append('landmark(%s->%s) rejected' % (pk, lk))
    return '; '.join(out)

import warnings; warnings.simplefilter('ignore')
for nm, f in [('C06 isolated', c06_isolated_fixed), ('C06 singular', c06_singular_moves_fixed), ('C13 se2 offs', c13_se2_landmark_offset),
              ('C13 se3 parm', c13_se3_landmark_params), ('C17', c17), ('C18', c18)]:
    attempt(nm, f)


def c18_single_information_number():
    """fixed by b914dcc: a one-number information block used to be broadcast to the whole matrix"""
    import tempfile, os
    from graphslam.graph import Graph
    p = os.path.join(tempfile.gettempdir(), 'verif_repro_c18.g2o')
    open(p, 'w').write('VERTEX_SE2 1 0 0 0\nVERTEX_SE2 2 1 0 0\nEDGE_SE2 1 2 1 0 0 1\n')
    try:
        g = Graph.from_g2o(p)
        print('C18 g2o 1x1    ACCEPTED, information =', g._edges[0].information.tolist())
    except Exception as ex:  # noqa
        print('C18 g2o 1x1    RAISED %s: %s' % (type(ex).__name__, ex))
    finally:
        os.remove(p)


if __name__ == '__main__':
    c18_single_information_number()
