(* C11: manifold invariants — SE(2) angles stay in [-pi,pi) and congruent to the exact angle;
   SE(3) operations preserve the quaternion norm; normalize() (statements about GenSE2/GenSE3). *)
From Coq Require Import Reals List Lra ZArith Lia.
From GS Require Import ExprR LinAlg Meth MethR Wrap Spec GenSE2 GenSE3 C10_SE3 C10_SE3_boxplus C10_SE2 C09_SE3 C09_SE2.
Import ListNotations.
Open Scope R_scope.

Ltac cb := cbv - [Rplus Rmult Rminus Ropp Rdiv Rinv sqrt IZR pow sin cos PI rmod].
Ltac fold_wrap :=
  repeat match goal with
  | |- context [rmod (?x + PI) (2 * PI) - PI] => change (rmod (x + PI) (2 * PI) - PI) with (wrap x)
  end.

(* ---------------- SE(2) ---------------- *)
(* constructor: the stored angle is wrap(argument) *)
Lemma SE2_new_angle x y th : evl [x; y; th] (vec_of SE2_new) = [x; y; wrap th].
Proof. reflexivity. Qed.
Lemma SE2_angles a b : length a = 3%nat -> length b = 3%nat ->
  nth 2 (evl (a ++ b) SE2_oplus) 0 = wrap (nth 2 a 0 + nth 2 b 0) /\
  nth 2 (evl (a ++ b) SE2_ominus) 0 = wrap (nth 2 a 0 - nth 2 b 0) /\
  nth 2 (evl a SE2_inv) 0 = wrap (- nth 2 a 0) /\
  nth 2 (evl (a ++ b) SE2_boxplus) 0 = wrap (nth 2 a 0 + nth 2 b 0) /\
  nth 2 (evl a (vec_of SE2_copy)) 0 = wrap (nth 2 a 0).
Proof. intros Ha Hb. list_len a Ha. list_len b Hb. repeat split; reflexivity. Qed.
Lemma wrap_is_congruent_in_range x : (- PI <= wrap x < PI) /\ exists k : Z, wrap x = x + 2 * PI * IZR k.
Proof. split; [apply wrap_range | apply wrap_congr]. Qed.
(* copy is the identity on constructed poses *)
Lemma SE2_copy_id a : length a = 3%nat -> in_range a -> evl a (vec_of SE2_copy) = a.
Proof. intros Ha Hr. list_len a Ha. unfold in_range in Hr. simpl in Hr. cb. fold_wrap. rewrite wrap_id; auto. Qed.

(* ---------------- SE(3) ---------------- *)
Definition qn2 (p : list R) : R := qnorm2 (quat3 p).
Lemma SE3_norm_mul a b : length a = 7%nat -> length b = 7%nat ->
  qn2 (evl (a ++ b) SE3_oplus) = qn2 a * qn2 b /\
  qn2 (evl (a ++ b) SE3_ominus) = qn2 a * qn2 b /\
  qn2 (evl a SE3_inv) = qn2 a.
Proof. intros Ha Hb. list_len a Ha. list_len b Hb. repeat split; cb; ring. Qed.

Lemma SE3_boxplus_unit s d : length s = 7%nat -> length d = 6%nat -> qn2 (SE3_boxplus_fun s d) = qn2 s.
Proof.
  intros Hs Hd.
  destruct (Rle_dec ((nth 3 d 0)^2 + (nth 4 d 0)^2 + (nth 5 d 0)^2) 1) as [Hle|Hgt].
  - rewrite SE3_boxplus_def; auto.
    destruct (SE3_norm_mul s (from_compact3 d)) as [E _]; auto.
    { unfold from_compact3. rewrite app_length. simpl. lia. }
    rewrite E. list_len s Hs. list_len d Hd. simpl in Hle.
    replace (qn2 (from_compact3 [x6; x7; x8; x9; x10; x11])) with 1; [ring|].
    unfold qn2, from_compact3. cbv - [Rplus Rmult Rminus Ropp Rdiv Rinv sqrt IZR pow].
    rewrite sqrt_sqrt; [ring | lra].
  - rewrite SE3_boxplus_def_large; auto; [|lra].
    destruct (SE3_norm_mul s (firstn 3 d ++ [0;0;0;1])) as [E _]; auto.
    { list_len d Hd. reflexivity. }
    rewrite E. list_len d Hd. unfold qn2. cbv - [Rplus Rmult Rminus Ropp Rdiv Rinv sqrt IZR pow]. ring.
Qed.

(* any chain of operations with unit operands keeps a unit quaternion *)
Inductive pose_op :=
| OpOplusR (p : list R)   (* x := x (+) p *)
| OpOplusL (p : list R)   (* x := p (+) x *)
| OpOminusR (p : list R)  (* x := x (-) p *)
| OpOminusL (p : list R)  (* x := p (-) x *)
| OpInv
| OpBox (d : list R).     (* x := x [+] d : the optimizer's update *)
Definition op_ok (o : pose_op) : Prop :=
  match o with
  | OpOplusR p | OpOplusL p | OpOminusR p | OpOminusL p => length p = 7%nat /\ qn2 p = 1
  | OpInv => True
  | OpBox d => length d = 6%nat
  end.
Definition apply_op (x : list R) (o : pose_op) : list R :=
  match o with
  | OpOplusR p => evl (x ++ p) SE3_oplus
  | OpOplusL p => evl (p ++ x) SE3_oplus
  | OpOminusR p => evl (x ++ p) SE3_ominus
  | OpOminusL p => evl (p ++ x) SE3_ominus
  | OpInv => evl x SE3_inv
  | OpBox d => SE3_boxplus_fun x d
  end.
Lemma apply_op_inv x o : length x = 7%nat -> qn2 x = 1 -> op_ok o ->
  length (apply_op x o) = 7%nat /\ qn2 (apply_op x o) = 1.
Proof.
  intros Hx Hq Ho. destruct o as [p|p|p|p| |d]; unfold apply_op, op_ok in *;
    try match type of Ho with _ /\ _ => destruct Ho as [Hp Hpq] end.
  - split; [reflexivity|]. destruct (SE3_norm_mul x p Hx Hp) as (E & _ & _). rewrite E, Hq, Hpq. ring.
  - split; [reflexivity|]. destruct (SE3_norm_mul p x Hp Hx) as (E & _ & _). rewrite E, Hq, Hpq. ring.
  - split; [reflexivity|]. destruct (SE3_norm_mul x p Hx Hp) as (_ & E & _). rewrite E, Hq, Hpq. ring.
  - split; [reflexivity|]. destruct (SE3_norm_mul p x Hp Hx) as (_ & E & _). rewrite E, Hq, Hpq. ring.
  - split; [reflexivity|]. destruct (SE3_norm_mul x x Hx Hx) as (_ & _ & E). rewrite E. exact Hq.
  - split; [apply SE3_boxplus_len; auto|]. rewrite SE3_boxplus_unit; auto.
Qed.
Theorem SE3_unit_preserved_chain (ops : list pose_op) x :
  length x = 7%nat -> qn2 x = 1 -> List.Forall op_ok ops ->
  length (fold_left apply_op ops x) = 7%nat /\ qn2 (fold_left apply_op ops x) = 1.
Proof.
  revert x. induction ops as [|o ops IH]; intros x Hx Hq Hok; simpl; [split; auto|].
  inversion Hok as [|? ? Ho Hrest]; subst.
  destruct (apply_op_inv x o Hx Hq Ho) as [Hl Hn]. apply IH; auto.
Qed.
(* the optimizer applies one boxplus per iteration to every vertex: any number of iterations,
   whatever increments the linear solver returned *)
Corollary SE3_unit_preserved_updates (ds : list (list R)) x :
  length x = 7%nat -> qn2 x = 1 -> List.Forall (fun d => length d = 6%nat) ds ->
  qn2 (fold_left SE3_boxplus_fun ds x) = 1.
Proof.
  intros Hx Hq Hd.
  assert (E : fold_left SE3_boxplus_fun ds x = fold_left apply_op (map OpBox ds) x).
  { clear. revert x. induction ds as [|d ds IH]; intros x; simpl; auto. }
  rewrite E. apply SE3_unit_preserved_chain; auto.
  clear - Hd. induction Hd; simpl; constructor; auto.
Qed.
Example chain_hypotheses_satisfiable :
  length ident3 = 7%nat /\ qn2 ident3 = 1 /\ List.Forall op_ok [OpOplusR ident3; OpInv; OpBox [0;0;0;0;0;0]].
Proof. repeat split; try reflexivity; try (cbv; ring). repeat constructor; cbv; ring. Qed.

(* ---------------- normalize() ---------------- *)
Definition SE3_normalize_fun (p : list R) : list R := run_methR p SE3_normalize.
Lemma normalize_alg (x2 x3 x4 x5 k S : R) : 0 < S -> S*S = x2^2+x3^2+x4^2+x5^2 -> k*k = 1 ->
  x2/(k*S)*(x2/(k*S)) + (x3/(k*S)*(x3/(k*S)) + (x4/(k*S)*(x4/(k*S)) + (x5/(k*S)*(x5/(k*S)) + 0))) = 1.
Proof.
  intros HS Hss Hk. assert (Hk0 : k <> 0) by nra.
  assert (E : forall y, y/(k*S)*(y/(k*S)) = y^2 / (S*S)).
  { intros y. replace (y/(k*S)*(y/(k*S))) with (y^2 / ((k*k)*(S*S))) by (field; split; lra). rewrite Hk. f_equal. ring. }
  rewrite !E. rewrite Hss.
  assert (Hp : x2^2+x3^2+x4^2+x5^2 <> 0) by (rewrite <- Hss; nra).
  field. exact Hp.
Qed.
(* which path normalize() takes, and what it computes: every quaternion component divided by sgn * |q| *)
Lemma SE3_normalize_paths p : length p = 7%nat ->
  SE3_normalize_fun p =
    let k := if Rle_dec 0 (nth 6 p 0) then 1 else - (1) in
    let S := sqrt ((nth 3 p 0)^2 + (nth 4 p 0)^2 + (nth 5 p 0)^2 + (nth 6 p 0)^2) in
    firstn 3 p ++ map (fun x => x / (k * S)) (quat3 p).
Proof.
  intros Hp. list_len p Hp.
  unfold SE3_normalize_fun, SE3_normalize. rewrite run_two_paths. unfold cmpR, Rleb. cbn [evalR nth].
  destruct (Rle_dec 0 x5) as [Hw|Hw]; reflexivity.
Qed.
Lemma SE3_normalize_spec p : length p = 7%nat -> qn2 p <> 0 ->
  let r := SE3_normalize_fun p in
  length r = 7%nat /\ firstn 3 r = firstn 3 p /\ qn2 r = 1 /\ (0 <= nth 6 r 0) /\
  (exists c, c <> 0 /\ quat3 r = map (fun x => x / c) (quat3 p)).
Proof.
  intros Hp Hn. cbv zeta. rewrite (SE3_normalize_paths p Hp). list_len p Hp.
  assert (Hq : qn2 [x; x0; x1; x2; x3; x4; x5] = x2^2 + x3^2 + x4^2 + x5^2) by (cbv; ring).
  assert (Hpos : 0 < x2^2 + x3^2 + x4^2 + x5^2).
  { rewrite Hq in Hn. assert (0 <= x2^2 + x3^2 + x4^2 + x5^2) by nra. lra. }
  cbn [nth]. set (S := sqrt (x2 ^ 2 + x3 ^ 2 + x4 ^ 2 + x5 ^ 2)).
  assert (Hs : 0 < S) by (apply sqrt_lt_R0; auto).
  assert (Hss : S * S = x2^2 + x3^2 + x4^2 + x5^2) by (apply sqrt_sqrt; lra).
  set (k := if Rle_dec 0 x5 then 1 else - (1)).
  assert (Hk : k * k = 1) by (unfold k; destruct (Rle_dec 0 x5); ring).
  assert (Hkw : 0 <= x5 / (k * S)).
  { unfold k. destruct (Rle_dec 0 x5) as [Hw|Hw].
    - unfold Rdiv. apply Rmult_le_pos; [lra|]. apply Rlt_le, Rinv_0_lt_compat. lra.
    - replace (x5 / (- (1) * S)) with ((- x5) * / S) by (field; lra).
      apply Rmult_le_pos; [lra|]. apply Rlt_le, Rinv_0_lt_compat. lra. }
  cbv zeta. repeat split.
  - unfold qn2, quat3, qnorm2. cbn [skipn firstn app map fold_right]. apply normalize_alg; auto.
  - exact Hkw.
  - exists (k * S). split; [nra | reflexivity].
Qed.
(* same rotation: q v conj(q) is homogeneous of degree 2, so scaling q to unit norm divides it by |q|^2 *)
Lemma qrot_scale c q v : length q = 4%nat -> length v = 3%nat ->
  qrot (map (fun x => c * x) q) v = map (fun x => c * c * x) (qrot q v).
Proof. intros Hq Hv. list_len q Hq. list_len v Hv. cb. repeat (f_equal; try ring). Qed.
