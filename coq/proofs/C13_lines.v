(* C13_lines.v -- every line the writer emits is read back as the canonical form of the object it came from. *)
From Coq Require Import List ZArith String Ascii Bool Arith Lia.
From GS Require Import G2OModel G2OSpec C14_text C14_import C14_fields.
Import ListNotations.
Open Scope string_scope.
Open Scope list_scope.
Open Scope nat_scope.

Lemma kind_eqb_eq : forall a b, kind_eqb a b = true -> a = b.
Proof. intros [] []; simpl; congruence. Qed.
Lemma pkind_eqb_eq : forall a b, pkind_eqb a b = true <-> a = b.
Proof. intros [] []; simpl; split; congruence. Qed.

Section Lines.
  Variable num : Type.
  Variable print : num -> string.
  Variable parse : string -> option num.
  Variable print_id : Z -> string.
  Variable parse_id : string -> option Z.
  Variable wrap : num -> num.
  Variable normq : list num -> list num.
  Variable zero : num.
  Variable eq0 : num -> bool.
  Variable eqn : num -> num -> bool.

  (* the oracle about Python's str()/float()/int() *)
  Hypothesis parse_print : forall x, parse (print x) = Some x.
  Hypothesis parse_print_id : forall z, parse_id (print_id z) = Some z.
  Hypothesis print_good : forall x, good_tok (print x).
  Hypothesis print_id_good : forall z, good_tok (print_id z).

  Notation parse_line := (parse_line num parse parse_id wrap normq zero).
  Notation imp := (imp num parse parse_id wrap normq zero).
  Notation builtin_parser := (builtin_parser num parse parse_id wrap normq zero).
  Notation vertex_line := (vertex_line num print print_id).
  Notation param_line := (param_line num print print_id).
  Notation edge_line := (edge_line num print print_id eq0).
  Notation edge_lines := (edge_lines num print print_id eq0).
  Notation wf_edge := (wf_edge num).
  Notation canon_vertex := (canon_vertex num wrap).
  Notation canon_param := (canon_param num wrap).
  Notation canon_edge := (canon_edge num wrap normq zero).

  Lemma map_parse_print : forall xs, map parse (map print xs) = map Some xs.
  Proof. induction xs as [|x r IH]; simpl; [reflexivity|]. now rewrite parse_print, IH. Qed.
  Lemma map_parse_print_id : forall xs, map parse_id (map print_id xs) = map Some xs.
  Proof. induction xs as [|x r IH]; simpl; [reflexivity|]. now rewrite parse_print_id, IH. Qed.
  Lemma good_prints : forall xs, Forall good_tok (map print xs).
  Proof. induction xs; simpl; constructor; auto. Qed.
  Lemma good_print_ids : forall xs, Forall good_tok (map print_id xs).
  Proof. induction xs; simpl; constructor; auto. Qed.

  Lemma parse_render : forall cts ps t f ts, cts_ok cts -> builtin_parser ps t = Some f -> Forall good_tok ts ->
    parse_line cts ps (render (t, ts)) = f ts.
  Proof.
    intros cts ps t f ts Hc Hb Hg. unfold render. simpl fst. simpl snd.
    rewrite (dispatch_builtin num parse parse_id wrap normq zero cts ps t f _ Hc Hb).
    now rewrite split_join.
  Qed.

  Lemma vertex_roundtrip : forall cts ps v, cts_ok cts -> wf_vertex num v ->
    parse_line cts ps (render (vertex_line v)) = Ok (IVert (canon_vertex v)).
  Proof.
    intros cts ps v Hc Hw. unfold G2OModel.vertex_line.
    rewrite (parse_render cts ps (vtag (v_kind v)) (parse_vertex num parse parse_id wrap (v_kind v)));
      [| exact Hc | destruct (v_kind v); reflexivity | constructor; [apply print_id_good | apply good_prints]].
    apply fields_vertex; [apply parse_print_id | apply map_parse_print | exact Hw].
  Qed.

  Lemma param_roundtrip : forall cts ps p, cts_ok cts -> wf_param num p ->
    parse_line cts ps (render (param_line p)) = Ok (IParam (fst p) (snd (canon_param p))).
  Proof.
    intros cts ps [[pk i] val] Hc Hw. unfold G2OModel.param_line, wf_param in *. simpl in *.
    rewrite (parse_render cts ps (ptag pk) (parse_param num parse parse_id wrap pk));
      [| exact Hc | destruct pk; reflexivity | constructor; [apply print_id_good | apply good_prints]].
    rewrite (fields_param num parse parse_id wrap pk (print_id i) (map print val) i val);
      [reflexivity | apply parse_print_id | apply map_parse_print | exact Hw].
  Qed.

  (* for an SE(3) landmark edge: it names an id and the dictionary (as of the edge's line) has it *)
  Definition offs_resolved (ps : params num) (e : edge num) : Prop :=
    match e with
    | ELmk KSE3 _ _ _ _ _ _ oid => exists o v, oid = Some o /\ plookup num ps (PSE3, o) = Some v
    | _ => True
    end.

  Lemma edge_roundtrip : forall cts ps vs e l, cts_ok cts ->
    wf_edge e -> edge_valid num vs e = true -> offs_resolved ps e -> is_custom num e = false ->
    edge_line vs e = Ok (Some l) ->
    parse_line cts ps (render l) = Ok (IEdge (canon_edge ps e)).
  Proof.
    intros cts ps vs e l Hc Hw Hv Hr Hcus Hl.
    destruct e as [k i j est info | ko ke i j est info off oid | ct ids est info]; [| |discriminate].
    - (* odometry *)
      simpl in Hw, Hv, Hl. destruct Hw as [Le Hs].
      destruct (vkind num vs i) as [k0|] eqn:E0; [|discriminate].
      destruct (vkind num vs j) as [k1|]; [|discriminate].
      apply andb_prop in Hv. destruct Hv as [Hv _]. apply andb_prop in Hv. destruct Hv as [_ Hk].
      apply kind_eqb_eq in Hk. subst k0.
      destruct k; try discriminate; inversion Hl; subst l; clear Hl; cbn [app].
      + rewrite (parse_render cts ps tag_odo_se2 (parse_odo_se2 num parse parse_id wrap)); [| exact Hc | reflexivity |].
        2:{ constructor; [apply print_id_good|]. constructor; [apply print_id_good|].
            apply Forall_app; split; apply good_prints. }
        rewrite (fields_odo_se2 num parse parse_id wrap _ _ _ _ i j est (pack info));
          try apply parse_print_id; try apply map_parse_print; try exact Le.
        * simpl canon_edge. now rewrite (unpack_pack 3 info Hs).
        * apply (pack_length 3 info Hs).
      + rewrite (parse_render cts ps tag_odo_se3 (parse_odo_se3 num parse parse_id normq)); [| exact Hc | reflexivity |].
        2:{ constructor; [apply print_id_good|]. constructor; [apply print_id_good|].
            apply Forall_app; split; apply good_prints. }
        rewrite (fields_odo_se3 num parse parse_id normq _ _ _ _ i j est (pack info));
          try apply parse_print_id; try apply map_parse_print; try exact Le.
        * simpl canon_edge. now rewrite (unpack_pack 6 info Hs).
        * apply (pack_length 6 info Hs).
    - (* landmark *)
      simpl in Hw, Hv, Hl. destruct Hw as (Le & Lo & Hs).
      destruct (vkind num vs i) as [k0|] eqn:E0; [|discriminate].
      destruct (vkind num vs j) as [k1|]; [|discriminate].
      apply andb_prop in Hv. destruct Hv as [Hv _]. apply andb_prop in Hv. destruct Hv as [Hv Hp].
      apply andb_prop in Hv. destruct Hv as [Hko Hke].
      apply kind_eqb_eq in Hko. apply kind_eqb_eq in Hke. subst k0 k1.
      destruct ko; try discriminate.
      + (* SE(2) -> R^2 *)
        destruct ke; try discriminate.
        destruct (is_ident_se2 num eq0 off); [|discriminate].
        inversion Hl; subst l; clear Hl; cbn [app].
        rewrite (parse_render cts ps tag_lmk_se2 (parse_lmk_se2 num parse parse_id zero)); [| exact Hc | reflexivity |].
        2:{ constructor; [apply print_id_good|]. constructor; [apply print_id_good|].
            apply Forall_app; split; apply good_prints. }
        rewrite (fields_lmk_se2 num parse parse_id zero _ _ _ _ i j est (pack info));
          try apply parse_print_id; try apply map_parse_print; try exact Le.
        * simpl canon_edge. now rewrite (unpack_pack 2 info Hs).
        * apply (pack_length 2 info Hs).
      + (* SE(3) -> R^3 *)
        destruct ke; try discriminate.
        simpl in Hr. destruct Hr as (o & v & -> & Hlk).
        inversion Hl; subst l; clear Hl; cbn [app print_oid].
        rewrite (parse_render cts ps tag_lmk_se3 (parse_lmk_se3 num parse parse_id ps)); [| exact Hc | reflexivity |].
        2:{ constructor; [apply print_id_good|]. constructor; [apply print_id_good|]. constructor; [apply print_id_good|].
            apply Forall_app; split; apply good_prints. }
        rewrite (fields_lmk_se3 num parse parse_id ps _ _ _ _ _ i j o est (pack info));
          try apply parse_print_id; try apply map_parse_print; try exact Le.
        * simpl canon_edge. rewrite Hlk. now rewrite (unpack_pack 3 info Hs).
        * apply (pack_length 3 info Hs).
  Qed.

  (* ---------------- blocks of lines ---------------- *)
  Lemma imp_vertices : forall cts ps vs, cts_ok cts -> Forall (wf_vertex num) vs ->
    imp cts ps (map render (map vertex_line vs)) = Ok (ps, (map canon_vertex vs, [], [])).
  Proof.
    intros cts ps vs Hc. induction vs as [|v r IH]; intros H; [reflexivity|].
    inversion H; subst. simpl map. cbn [G2OModel.imp].
    rewrite vertex_roundtrip by assumption. cbn [step_params]. now rewrite IH.
  Qed.

  Lemma imp_params : forall cts qs ps, cts_ok cts -> Forall (wf_param num) qs ->
    imp cts ps (map render (map param_line qs))
    = Ok (fold_left (fun a p => pset num a (fst p) (snd (canon_param p))) qs ps, ([], [], [])).
  Proof.
    intros cts qs. induction qs as [|q r IH]; intros ps Hc H; [reflexivity|].
    inversion H; subst. simpl map. cbn [G2OModel.imp].
    rewrite param_roundtrip by assumption. cbn [step_params]. rewrite IH by assumption. reflexivity.
  Qed.

  Lemma imp_edges : forall cts ps vs es els, cts_ok cts ->
    Forall wf_edge es -> Forall (fun e => edge_valid num vs e = true) es -> Forall (offs_resolved ps) es ->
    Forall (fun e => match e with ECus ct _ _ _ => ct_writes ct = false | _ => True end) es ->
    edge_lines vs es = Ok els ->
    imp cts ps (map render els)
    = Ok (ps, ([], map (canon_edge ps) (filter (fun e => negb (is_unwritten num e)) es), [])).
  Proof.
    intros cts ps vs es. induction es as [|e r IH]; intros els Hc Hw Hv Hr Hn Hl.
    - simpl in Hl. inversion Hl. reflexivity.
    - apply Forall_cons_iff in Hw. destruct Hw as [Hw1 Hw2].
      apply Forall_cons_iff in Hv. destruct Hv as [Hv1 Hv2].
      apply Forall_cons_iff in Hr. destruct Hr as [Hr1 Hr2].
      apply Forall_cons_iff in Hn. destruct Hn as [Hn1 Hn2].
      cbn [G2OModel.edge_lines] in Hl.
      destruct (edge_line vs e) as [ol|] eqn:El; [|discriminate].
      destruct (edge_lines vs r) as [ls|] eqn:Er; [|discriminate].
      inversion Hl; subst els; clear Hl.
      specialize (IH ls Hc Hw2 Hv2 Hr2 Hn2 eq_refl).
      destruct e as [k i j est info | ko ke i j est info off oid | ct ids est info].
      + destruct ol as [l|]; [| simpl in El; destruct (vkind num vs i) as [[]|]; discriminate].
        cbn [map G2OModel.imp filter is_unwritten negb].
        rewrite (edge_roundtrip cts ps vs _ l Hc Hw1 Hv1 Hr1 eq_refl El). cbn [step_params]. now rewrite IH.
      + destruct ol as [l|].
        2:{ simpl in El. destruct (vkind num vs i) as [[]|]; try discriminate.
            destruct (is_ident_se2 num eq0 off); discriminate. }
        cbn [map G2OModel.imp filter is_unwritten negb].
        rewrite (edge_roundtrip cts ps vs _ l Hc Hw1 Hv1 Hr1 eq_refl El). cbn [step_params]. now rewrite IH.
      + simpl in El. rewrite Hn1 in El. inversion El; subst ol.
        cbn [filter is_unwritten]. rewrite Hn1. cbn [negb]. exact IH.
  Qed.
End Lines.
