(* Assembly of the C03 obligations into the statement of props/C03.v. *)
From Coq Require Import Reals List Arith Bool Lia Lra.
From GS Require Import GraphModel GNSpec C03_sums C03_index C03_assembly C06_main C03_extra.
Import ListNotations.
Open Scope R_scope.

Lemma C03_all :
  (* ---- the assembled gradient, Hessian and chi2 are the Gauss-Newton system of lib/GNSpec.v, for every
          well-formed graph: any number of edges, parallel edges, slots in either order, 1..n slots,
          mixed dimensions, any set of fixed vertices ---- *)
  assembly_statement /\
  (* ---- one iteration: every free vertex moves by boxplus of its own slice of dx, fixed ones stay ---- *)
  (forall (P : Type) (bp : nat -> P -> list R -> P) vs (poses : list P) dx k d, (k < length poses)%nat ->
     nth k (apply_update R bp vs poses dx) d =
     if fixed_at vs k then nth k poses d else bp k (nth k poses d) (dx_slice R vs dx k)) /\
  (forall (P : Type) (bp : nat -> P -> list R -> P) vs (poses : list P) dx, length (apply_update R bp vs poses dx) = length poses) /\
  (* ---- the hypothesis "slots distinct" cannot be dropped ---- *)
  (assemble_hessian R 0 1 Rplus Rmult selfloop_vs [selfloop_e] 0 0 = 7 /\ spec_H selfloop_vs [selfloop_e] 0 0 = 9) /\
  (* ---- and the hypotheses are satisfiable (mixed dims 2,3,2, a fixed vertex, slots in decreasing order) ---- *)
  wf_graph ex_vs [ex_e1; ex_e2].
Proof.
  repeat match goal with |- _ /\ _ => split end.
  - exact assembly_correct.
  - intros P bp vs poses dx k d Hk. apply apply_update_nth; auto.
  - intros. apply apply_update_length.
  - apply selfloop_refuted.
  - apply selfloop_refuted.
  - exact wf_graph_example.
Qed.
