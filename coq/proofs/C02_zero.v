(* C02: what a vanishing error means -- the measurement agrees with the current vertex estimates. *)
From Coq Require Import Reals List Lra ZArith Lia.
From GS Require Import ExprR LinAlg Meth MethR Prog Chain Wrap Spec Chi2 GenR2 GenR3 GenSE2 GenSE3 GenEdges
  C10_SE3 C10_SE3_boxplus C10_SE2 C10_Rn C09_SE3 C09_SE2 C11_main C01_SE3 C01_Rn C01_SE2 C02_odo3 C02_model.
Import ListNotations.
Open Scope R_scope.
Ltac cb0 := cbv - [Rplus Rmult Rminus Ropp Rdiv Rinv sqrt IZR pow sin cos PI rmod].

(* SE(3) odometry: zero error => the measurement and the relative pose p2 (-) p1 are the same rigid motion *)
Lemma odo3_zero_agree p1 p2 z : length p1 = 7%nat -> length p2 = 7%nat -> length z = 7%nat ->
  unitq p1 -> unitq p2 -> unitq z ->
  err_odo3 p1 p2 z = zeros 6 -> hom3 z = hom3 (evl (p2 ++ p1) SE3_ominus).
Proof.
  intros H1 H2 H3 U1 U2 U3 Hz.
  destruct (odo3_model p1 p2 z H1 H2 H3 U1 U2 U3) as (E1 & _ & E3). cbv zeta in E1, E3.
  assert (UD : unitq (evl (p2 ++ p1) SE3_ominus)) by (apply unitq_ominus; auto).
  set (D := evl (p2 ++ p1) SE3_ominus) in *.
  assert (HD : length D = 7%nat) by reflexivity.
  assert (UE : unitq (evl (z ++ D) SE3_ominus)) by (apply unitq_ominus; auto).
  set (E := evl (z ++ D) SE3_ominus) in *.
  assert (HE : length E = 7%nat) by reflexivity.
  rewrite E1 in Hz. rewrite <- E3. clear E1 E3. clearbody E. clearbody D.
  list_len E HE. simpl in Hz. injection Hz as -> -> -> -> -> ->.
  unfold unitq in UE. cbv in UE. assert (W : x5 * x5 = 1) by lra.
  list_len D HD. cbv - [Rplus Rmult Rminus Ropp Rdiv Rinv sqrt IZR pow]. repeat (f_equal; try ring [W]).
Qed.
(* conversely, a measurement equal to the relative pose (either sign of its quaternion) has zero error *)
Definition negq (p : list R) : list R := firstn 3 p ++ map Ropp (skipn 3 p).
Lemma odo3_agree_zero p1 p2 z : length p1 = 7%nat -> length p2 = 7%nat -> unitq p1 -> unitq p2 ->
  (z = evl (p2 ++ p1) SE3_ominus \/ z = negq (evl (p2 ++ p1) SE3_ominus)) -> err_odo3 p1 p2 z = zeros 6.
Proof.
  intros H1 H2 U1 U2 Hz.
  assert (UD : unitq (evl (p2 ++ p1) SE3_ominus)) by (apply unitq_ominus; auto).
  set (D := evl (p2 ++ p1) SE3_ominus) in *.
  assert (HD : length D = 7%nat) by reflexivity.
  assert (Hzl : length z = 7%nat) by (destruct Hz as [-> | ->]; [exact HD | clearbody D; list_len D HD; reflexivity]).
  rewrite err_odo3_unfold by auto. fold D. clearbody D. list_len D HD.
  unfold unitq in UD. cbv in UD.
  assert (W : x5 * x5 = 1 - x2 * x2 - x3 * x3 - x4 * x4) by lra.
  destruct Hz as [-> | ->]; cbv - [Rplus Rmult Rminus Ropp Rdiv Rinv sqrt IZR pow]; repeat (f_equal; try ring [W]).
Qed.

(* SE(3) landmark: zero error <=> the offset pose maps the measurement onto the landmark *)
Lemma inv_act3 q v : length q = 7%nat -> length v = 3%nat -> unitq q ->
  spec_act3 (spec_inv3 q) (spec_act3 q v) = v.
Proof.
  intros Hq Hx Hu. list_len q Hq. list_len v Hx. unfold unitq in Hu. cbv in Hu.
  assert (W : x5 * x5 = 1 - x2 * x2 - x3 * x3 - x4 * x4) by lra.
  cbv - [Rplus Rmult Rminus Ropp Rdiv Rinv sqrt IZR pow]. repeat (f_equal; try ring [W]).
Qed.
Lemma vadd_zeros_l z : length z = 3%nat -> vadd (zeros 3) z = z.
Proof. intros H. list_len z H. cb0. repeat (f_equal; try ring). Qed.
Lemma lmk3_zero_iff p l z off : length p = 7%nat -> length l = 3%nat -> length z = 3%nat -> length off = 7%nat ->
  unitq p -> unitq off ->
  (err_lmk3 p l z off = zeros 3 <-> spec_act3 (evl (p ++ off) SE3_oplus) z = l).
Proof.
  intros H1 H2 H3 H4 U1 U4. pose proof (lmk3_model p l z off H1 H2 H3 H4 U1 U4) as M. cbv zeta in M. split.
  - intros Hz. rewrite Hz, vadd_zeros_l in M by auto. exact M.
  - intros Hq. rewrite err_lmk3_unfold by auto.
    assert (UQ : unitq (evl (p ++ off) SE3_oplus)) by (apply unitq_oplus; auto).
    set (Q := evl (p ++ off) SE3_oplus) in *. assert (HQ : length Q = 7%nat) by reflexivity.
    assert (UQi : unitq (evl Q SE3_inv)) by (apply unitq_inv; auto).
    rewrite (SE3_point_action (evl Q SE3_inv) l eq_refl H2 UQi), SE3_inverse_spec by auto.
    rewrite <- Hq, inv_act3 by auto. list_len z H3. cb0. repeat (f_equal; try ring).
Qed.

(* SE(2) *)
Lemma odo2_zero_agree p1 p2 z : length p1 = 3%nat -> length p2 = 3%nat -> length z = 3%nat ->
  err_odo2 p1 p2 z = zeros 3 -> hom2 z = hom2 (evl (p2 ++ p1) SE2_ominus).
Proof.
  intros H1 H2 H3 Hz. destruct (odo2_model p1 p2 z H1 H2 H3) as (E1 & _ & E3). cbv zeta in E1, E3.
  rewrite <- E1, Hz in E3. rewrite <- E3.
  set (D := evl (p2 ++ p1) SE2_ominus). assert (HD : length D = 3%nat) by reflexivity. clearbody D. list_len D HD.
  cb0. rewrite cos_0, sin_0. repeat (f_equal; try ring).
Qed.
Lemma odo2_agree_zero p1 p2 : length p1 = 3%nat -> length p2 = 3%nat ->
  err_odo2 p1 p2 (evl (p2 ++ p1) SE2_ominus) = zeros 3.
Proof.
  intros H1 H2. rewrite err_odo2_unfold by auto.
  set (D := evl (p2 ++ p1) SE2_ominus). assert (HD : length D = 3%nat) by reflexivity. clearbody D. list_len D HD.
  cb0. repeat (f_equal; try ring). replace (x1 - x1) with 0 by ring. fold (wrap 0). apply wrap_id. pose proof PI_RGT_0; lra.
Qed.
Lemma lmk2_zero_agree p l z off : length p = 3%nat -> length l = 2%nat -> length z = 2%nat -> length off = 3%nat ->
  err_lmk2 p l z off = zeros 2 -> spec_act2 (evl (p ++ off) SE2_oplus) z = l.
Proof.
  intros H1 H2 H3 H4 Hz. pose proof (lmk2_model p l z off H1 H2 H3 H4) as M. cbv zeta in M. rewrite Hz in M.
  replace (vadd (zeros 2) z) with z in M; auto. list_len z H3. cb0. repeat (f_equal; try ring).
Qed.
