(* C07: every edge error is unchanged when all vertices are left-composed with one rigid transform T
   (a translation for R^n); landmark points are transformed by the action of T. *)
From Coq Require Import Reals List Lra ZArith Lia.
From GS Require Import ExprR LinAlg Meth MethR Prog Chain Wrap Spec GenR2 GenR3 GenSE2 GenSE3 GenEdges
  C10_SE3 C10_SE3_boxplus C10_SE2 C10_Rn C09_SE3 C09_SE2 C11_main C01_SE3 C01_Rn C01_SE2 C02_model.
Import ListNotations.
Open Scope R_scope.
Ltac cb0 := cbv - [Rplus Rmult Rminus Ropp Rdiv Rinv sqrt IZR pow sin cos PI rmod].

(* relative pose of two transformed poses *)
Lemma SE3_ominus_left_invariant T a b : length T = 7%nat -> length a = 7%nat -> length b = 7%nat ->
  unitq T -> unitq b ->
  evl (evl (T ++ a) SE3_oplus ++ evl (T ++ b) SE3_oplus) SE3_ominus = evl (a ++ b) SE3_ominus.
Proof.
  intros HT Ha Hb UT Ub. list_len T HT. list_len a Ha. list_len b Hb. unfold unitq in *. cbv in UT, Ub.
  assert (WT : x5 * x5 = 1 - x2 * x2 - x3 * x3 - x4 * x4) by lra.
  assert (Wb : x19 * x19 = 1 - x16 * x16 - x17 * x17 - x18 * x18) by lra.
  cbv - [Rplus Rmult Rminus Ropp Rdiv Rinv sqrt IZR pow]. repeat (f_equal; try ring [WT Wb]).
Qed.

Definition act3 (T x : list R) : list R := evl (T ++ x) SE3_oplus_point.     (* T applied to a point *)
Definition comp3 (T p : list R) : list R := evl (T ++ p) SE3_oplus.           (* T (+) p *)

Theorem C07_odo_SE3 T p1 p2 z : length T = 7%nat -> length p1 = 7%nat -> length p2 = 7%nat -> length z = 7%nat ->
  unitq T -> unitq p1 ->
  err_odo3 (comp3 T p1) (comp3 T p2) z = err_odo3 p1 p2 z.
Proof.
  intros HT H1 H2 H3 UT U1. rewrite !err_odo3_unfold by (auto; reflexivity).
  unfold comp3. rewrite SE3_ominus_left_invariant; auto.
Qed.

Lemma lmk3_inner_invariant T p l off : length T = 7%nat -> length p = 7%nat -> length l = 3%nat -> length off = 7%nat ->
  unitq T -> unitq p -> unitq off ->
  evl (evl (evl (comp3 T p ++ off) SE3_oplus) SE3_inv ++ act3 T l) SE3_oplus_point
  = evl (evl (evl (p ++ off) SE3_oplus) SE3_inv ++ l) SE3_oplus_point.
Proof.
  intros HT Hp Hl Ho UT Up Uo. list_len T HT. list_len p Hp. list_len l Hl. list_len off Ho.
  unfold unitq in *. cbv in UT, Up, Uo.
  assert (WT : x5 * x5 = 1 - x2 * x2 - x3 * x3 - x4 * x4) by lra.
  assert (Wp : x12 * x12 = 1 - x9 * x9 - x10 * x10 - x11 * x11) by lra.
  assert (Wo : x22 * x22 = 1 - x19 * x19 - x20 * x20 - x21 * x21) by lra.
  cbv - [Rplus Rmult Rminus Ropp Rdiv Rinv sqrt IZR pow]. repeat (f_equal; try ring [WT Wp Wo]).
Qed.
Theorem C07_lmk_SE3 T p l z off : length T = 7%nat -> length p = 7%nat -> length l = 3%nat -> length z = 3%nat -> length off = 7%nat ->
  unitq T -> unitq p -> unitq off ->
  err_lmk3 (comp3 T p) (act3 T l) z off = err_lmk3 p l z off.
Proof.
  intros HT Hp Hl Hz Ho UT Up Uo. rewrite !err_lmk3_unfold by (auto; reflexivity).
  rewrite lmk3_inner_invariant; auto.
Qed.

(* ---- SE(2) ---- *)
Ltac fold_wrap :=
  repeat match goal with
  | |- context [rmod (?x + PI) (2 * PI) - PI] => change (rmod (x + PI) (2 * PI) - PI) with (wrap x)
  end.
Ltac trig_norm :=
  repeat rewrite ?cos_wrap, ?sin_wrap, ?cos_plus, ?sin_plus, ?cos_minus, ?sin_minus, ?cos_neg, ?sin_neg.
Definition act2 (T x : list R) : list R := evl (T ++ x) SE2_oplus_point.
Definition comp2 (T p : list R) : list R := evl (T ++ p) SE2_oplus.

Lemma SE2_ominus_left_invariant T a b : length T = 3%nat -> length a = 3%nat -> length b = 3%nat ->
  evl (comp2 T a ++ comp2 T b) SE2_ominus = evl (a ++ b) SE2_ominus.
Proof.
  intros HT Ha Hb. list_len T HT. list_len a Ha. list_len b Hb.
  cb0. fold_wrap. trig_norm. pose proof (sc1 x1) as CT.
  f_equal; [ring [CT] | f_equal; [ring [CT] | f_equal]].
  rewrite wrap_absorb_l, wrap_absorb_r. f_equal. ring.
Qed.
Theorem C07_odo_SE2 T p1 p2 z : length T = 3%nat -> length p1 = 3%nat -> length p2 = 3%nat -> length z = 3%nat ->
  err_odo2 (comp2 T p1) (comp2 T p2) z = err_odo2 p1 p2 z.
Proof.
  intros HT H1 H2 H3. rewrite !err_odo2_unfold by (auto; reflexivity).
  rewrite (SE2_ominus_left_invariant T p2 p1); auto.
Qed.
Theorem C07_lmk_SE2 T p l z off : length T = 3%nat -> length p = 3%nat -> length l = 2%nat -> length z = 2%nat -> length off = 3%nat ->
  err_lmk2 (comp2 T p) (act2 T l) z off = err_lmk2 p l z off.
Proof.
  intros HT Hp Hl Hz Ho. rewrite !err_lmk2_unfold by (auto; reflexivity).
  list_len T HT. list_len p Hp. list_len l Hl. list_len z Hz. list_len off Ho.
  cb0. fold_wrap. trig_norm. pose proof (sc1 x1) as CT.
  repeat (f_equal; try ring [CT]).
Qed.

(* ---- R^n: translation of every vertex ---- *)
Theorem C07_Rn :
  (forall T p1 p2 z, length T = 2%nat -> length p1 = 2%nat -> length p2 = 2%nat -> length z = 2%nat ->
     err_odoR2 (vadd T p1) (vadd T p2) z = err_odoR2 p1 p2 z) /\
  (forall T p1 p2 z, length T = 3%nat -> length p1 = 3%nat -> length p2 = 3%nat -> length z = 3%nat ->
     err_odoR3 (vadd T p1) (vadd T p2) z = err_odoR3 p1 p2 z) /\
  (forall T p l z off, length T = 2%nat -> length p = 2%nat -> length l = 2%nat -> length z = 2%nat -> length off = 2%nat ->
     err_lmkR2 (vadd T p) (vadd T l) z off = err_lmkR2 p l z off) /\
  (forall T p l z off, length T = 3%nat -> length p = 3%nat -> length l = 3%nat -> length z = 3%nat -> length off = 3%nat ->
     err_lmkR3 (vadd T p) (vadd T l) z off = err_lmkR3 p l z off).
Proof.
  repeat split; intros.
  - list_len T H. list_len p1 H0. list_len p2 H1. list_len z H2. cb0. repeat (f_equal; try ring).
  - list_len T H. list_len p1 H0. list_len p2 H1. list_len z H2. cb0. repeat (f_equal; try ring).
  - list_len T H. list_len p H0. list_len l H1. list_len z H2. list_len off H3. cb0. repeat (f_equal; try ring).
  - list_len T H. list_len p H0. list_len l H1. list_len z H2. list_len off H3. cb0. repeat (f_equal; try ring).
Qed.
