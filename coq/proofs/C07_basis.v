(* C07_basis.v — change of tangent basis at graph level.

   Under a world-frame transform T the pose vertices keep their increments (right-multiplicative
   update) but a landmark vertex l' = T.l moves by d' = R_T d.  For the linearised system this is a
   per-vertex change of basis of the tangent space:  J'_{e,s} = J_{e,s} Q_{slot s}  and  d_k = Q_k d'_k.
   This file proves, for EVERY graph of lib/GNSpec.v and every family Q of blocks:

     [basis_change]      if  Q d'  solves the normal equations of the graph, d' solves those of the
                         graph whose Jacobians are J Q;
     [basis_change_inv]  hence, when P_k inverts Q_k, every solution d of the original system gives
                         the solution P d of the transformed system.

   No matrix algebra on the Hessian is needed: solving the normal equations is the same as the
   gradient of the moved (affine) graph vanishing (spec_b_shift, C04), and moving commutes with the
   change of basis. *)
From Coq Require Import Reals List Arith Bool Lia Lra FunctionalExtensionality.
From GS Require Import GraphModel GNSpec LinearSpec C03_sums C03_index C03_accumulate C03_assembly C06_main C04_blocks C04_shift.
Import ListNotations.
Open Scope R_scope.

Definition blocks := nat -> nat -> nat -> R.          (* Q k i j : entry (i,j) of the block of vertex position k *)

Definition tb_mat (vs : list vertex) (Q : blocks) (e : Redge) (s : nat) : Rmat :=
  mkmat R (rows R (jacR e s)) (dim_at vs (slotR e s))
        (fun a j => sumnR (dim_at vs (slotR e s)) (fun m => ent R (jacR e s) a m * Q (slotR e s) m j)).
Definition tb_edge (vs : list vertex) (Q : blocks) (e : Redge) : Redge :=
  mkedge R (e_slots R e) (e_err R e) (e_om R e) (map (tb_mat vs Q e) (seq 0 (length (e_slots R e)))).
(* the flat vector  r = (k,i) |->  sum_j Q_k[i,j] d[(k,j)] *)
Definition bmul (vs : list vertex) (Q : blocks) (d : nat -> R) (r : nat) : R :=
  match locate vs r with
  | Some (k, i) => sumnR (dim_at vs k) (fun j => Q k i j * d (gi vs k + j)%nat)
  | None => 0
  end.

Lemma jac_tb vs Q e s : (s < length (e_slots R e))%nat -> jacR (tb_edge vs Q e) s = tb_mat vs Q e s.
Proof.
  intros Hs. unfold jac_at, tb_edge. cbn [e_jac].
  rewrite (nth_indep _ (mzero R 0 0 0) (tb_mat vs Q e 0)) by (rewrite map_length, seq_length; exact Hs).
  rewrite (map_nth (tb_mat vs Q e)). rewrite seq_nth by exact Hs. reflexivity.
Qed.

Lemma wf_tb vs Q e : wf_edge vs e -> wf_edge vs (tb_edge vs Q e).
Proof.
  intros (Hl & Hnd & Hrng & Hor & Hoc & Hsym & Hjac).
  unfold wf_edge. cbn [tb_edge e_jac e_slots e_om e_err].
  repeat match goal with |- _ /\ _ => split end; auto.
  - rewrite map_length, seq_length. reflexivity.
  - intros s Hs. change (jacR (tb_edge vs Q e) s) with (jac_at R 0 (tb_edge vs Q e) s).
    rewrite (jac_tb vs Q e s Hs). unfold tb_mat. cbn [rows cols].
    destruct (Hjac s Hs) as [Hr _]. split; [exact Hr|reflexivity].
Qed.
Lemma wf_graph_tb vs Q es : wf_graph vs es -> wf_graph vs (map (tb_edge vs Q) es).
Proof.
  intros [Hp He]. split; [exact Hp|]. rewrite Forall_forall in *. intros e' Hin.
  apply in_map_iff in Hin. destruct Hin as (e & <- & Hin). apply wf_tb. apply He. exact Hin.
Qed.

(* gradient block of the re-based edge:  g'_s = Q^T g_s *)
Lemma gblock_tb vs Q e s i : wf_edge vs e -> (s < length (e_slots R e))%nat ->
  snd (gblock (tb_edge vs Q e) s) i = sumnR (dim_at vs (slotR e s)) (fun m => Q (slotR e s) m i * snd (gblock e s) m).
Proof.
  intros Hwf Hs. unfold gblock. rewrite (jac_tb vs Q e s Hs).
  unfold vdotm, tb_mat. cbn [e_om e_err tb_edge ent rows cols fst snd].
  set (w := fun b => sumnR (fst (e_err R e)) (fun k => snd (e_err R e) k * ent R (e_om R e) k b)).
  transitivity (sumnR (cols R (e_om R e)) (fun b => sumnR (dim_at vs (slotR e s)) (fun m => Q (slotR e s) m i * (w b * ent R (jacR e s) b m)))).
  - apply sumn_ext. intros b _. fold (w b). rewrite <- sumn_scal_l. apply sumn_ext. intros m _. ring.
  - rewrite sumn_swap. apply sumn_ext. intros m _. rewrite sumn_scal_l. reflexivity.
Qed.

Lemma spec_b_tb vs Q es k i : wf_graph vs es -> (k < length vs)%nat -> (i < dim_at vs k)%nat ->
  spec_b vs (map (tb_edge vs Q) es) (gi vs k + i) = sumnR (dim_at vs k) (fun m => Q k m i * spec_b vs es (gi vs k + m)).
Proof.
  intros Hwf Hk Hi. unfold spec_b at 1. rewrite (locate_gi vs k i Hk Hi).
  destruct (fixed_at vs k) eqn:Fk.
  - symmetry. apply sumn_zero. intros m Hm. unfold spec_b. rewrite (locate_gi vs k m Hk Hm), Fk. ring.
  - transitivity (sumnR (dim_at vs k) (fun m => Q k m i *
        sumlist es (fun e => sumnR (length (e_slots R e)) (fun s => ind (Nat.eqb (slotR e s) k) * snd (gblock e s) m)))).
    2:{ apply sumn_ext. intros m Hm. unfold spec_b. rewrite (locate_gi vs k m Hk Hm), Fk. reflexivity. }
    rewrite sumlist_map.
    transitivity (sumlist es (fun e => sumnR (dim_at vs k) (fun m => Q k m i *
        sumnR (length (e_slots R e)) (fun s => ind (Nat.eqb (slotR e s) k) * snd (gblock e s) m)))).
    2:{ rewrite sumlist_sumn. apply sumn_ext. intros m _. rewrite sumlist_scal_l. reflexivity. }
    apply sumlist_ext. intros e Hin. pose proof (wf_graph_edge vs es e Hwf Hin) as He.
    change (e_slots R (tb_edge vs Q e)) with (e_slots R e).
    transitivity (sumnR (length (e_slots R e)) (fun s => sumnR (dim_at vs k) (fun m =>
        Q k m i * (ind (Nat.eqb (slotR e s) k) * snd (gblock e s) m)))).
    2:{ rewrite sumn_swap. apply sumn_ext. intros m _. rewrite sumn_scal_l. reflexivity. }
    apply sumn_ext. intros s Hs.
    change (slotR (tb_edge vs Q e) s) with (slotR e s).
    destruct (Nat.eqb_spec (slotR e s) k) as [E|E].
    + rewrite (gblock_tb vs Q e s i He Hs). rewrite E. rewrite ind_true.
      rewrite Rmult_1_l. apply sumn_ext. intros m _. ring.
    + rewrite ind_false. rewrite Rmult_0_l. symmetry. apply sumn_zero. intros m _. ring.
Qed.

(* moving the re-based graph by d' = re-basing the graph moved by Q d' *)
Lemma shift_tb vs Q d e : wf_edge vs e ->
  shift_edge vs d (tb_edge vs Q e) = tb_edge vs Q (shift_edge vs (bmul vs Q d) e).
Proof.
  intros Hwf.
  assert (Ej : map (tb_mat vs Q (shift_edge vs (bmul vs Q d) e)) (seq 0 (length (e_slots R e)))
               = map (tb_mat vs Q e) (seq 0 (length (e_slots R e)))) by reflexivity.
  unfold tb_edge at 2. cbn [shift_edge e_slots e_om e_err]. rewrite Ej.
  unfold shift_edge at 1. cbn [tb_edge e_slots e_om e_jac].
  f_equal.
  unfold shift_err. cbn [e_err e_slots tb_edge fst snd]. f_equal.
  apply functional_extensionality. intros a. f_equal.
  apply sumn_ext. intros s Hs.
  change (slot_at R (tb_edge vs Q e) s) with (slotR e s).
  change (jac_at R 0 (tb_edge vs Q e) s) with (jacR (tb_edge vs Q e) s).
  rewrite (jac_tb vs Q e s Hs). unfold tb_mat. cbn [ent].
  set (k := slotR e s). set (n := dim_at vs k).
  assert (Hk : (k < length vs)%nat) by (apply (slot_in_range vs e s Hwf Hs)).
  transitivity (sumnR n (fun m => ent R (jacR e s) a m * sumnR n (fun j => Q k m j * d (gi vs k + j)%nat))).
  - transitivity (sumnR n (fun j => sumnR n (fun m => ent R (jacR e s) a m * (Q k m j * d (gi vs k + j)%nat)))).
    + apply sumn_ext. intros j _. rewrite <- sumn_scal_r. apply sumn_ext. intros m _. ring.
    + rewrite sumn_swap. apply sumn_ext. intros m _. rewrite sumn_scal_l. reflexivity.
  - apply sumn_ext. intros m Hm. f_equal. unfold bmul. rewrite (locate_gi vs k m Hk Hm). reflexivity.
Qed.

Lemma bmul_zero_on_fixed vs Q d : zero_on_fixed vs d -> zero_on_fixed vs (bmul vs Q d).
Proof.
  intros Hz r Hr Hf. unfold bmul. destruct (locate_total vs r Hr) as (k & i & Lr). rewrite Lr.
  unfold is_fixed_index in Hf. rewrite Lr in Hf.
  destruct (locate_sound vs r k i Lr) as (Hk & Hi & _).
  apply sumn_zero. intros j Hj. rewrite (Hz (gi vs k + j)%nat).
  - ring.
  - apply gi_block_lt; assumption.
  - rewrite is_fixed_index_gi by assumption. exact Hf.
Qed.

(* solving the normal equations <-> the gradient of the moved graph vanishes (free rows) *)
Lemma solves_iff_moved vs es d : wf_graph vs es -> zero_on_fixed vs d ->
  (solves (glen vs) (spec_H vs es) (spec_b vs es) d <->
   forall r, (r < glen vs)%nat -> is_fixed_index vs r = false -> spec_b vs (map (shift_edge vs d) es) r = 0).
Proof.
  intros Hwf Hz. split.
  - intros Hs r Hr Hf. rewrite (spec_b_shift vs es d r Hwf Hz Hr Hf). rewrite (Hs r Hr). ring.
  - intros Hm r Hr. destruct (is_fixed_index vs r) eqn:Hf.
    + assert (E : sumnR (glen vs) (fun c => spec_H vs es r c * d c) = d r).
      { rewrite <- (sumn_ind_pick (glen vs) r d Hr). apply sumn_ext. intros c Hc.
        destruct (spec_fixed_rows vs es r c Hr Hc Hf) as (_ & E & _). rewrite E. reflexivity. }
      destruct (spec_fixed_rows vs es r r Hr Hr Hf) as (B & _ & _). rewrite E, B, (Hz r Hr Hf). ring.
    + pose proof (Hm r Hr Hf) as H0. rewrite (spec_b_shift vs es d r Hwf Hz Hr Hf) in H0. lra.
Qed.

Theorem basis_change vs es Q d' : wf_graph vs es -> zero_on_fixed vs d' ->
  solves (glen vs) (spec_H vs es) (spec_b vs es) (bmul vs Q d') ->
  solves (glen vs) (spec_H vs (map (tb_edge vs Q) es)) (spec_b vs (map (tb_edge vs Q) es)) d'.
Proof.
  intros Hwf Hz Hs.
  apply (solves_iff_moved vs _ d' (wf_graph_tb vs Q es Hwf) Hz).
  intros r Hr Hf.
  pose proof (proj1 (solves_iff_moved vs es (bmul vs Q d') Hwf (bmul_zero_on_fixed vs Q d' Hz)) Hs) as Hm.
  destruct (locate_total vs r Hr) as (k & i & Lr).
  destruct (locate_sound vs r k i Lr) as (Hk & Hi & Er).
  rewrite map_map.
  rewrite (map_ext_in (fun e => shift_edge vs d' (tb_edge vs Q e)) (fun e => tb_edge vs Q (shift_edge vs (bmul vs Q d') e))).
  2:{ intros e Hin. apply shift_tb. apply (wf_graph_edge vs es e Hwf Hin). }
  rewrite <- (map_map (shift_edge vs (bmul vs Q d')) (tb_edge vs Q)).
  rewrite Er.
  assert (Hwf2 : wf_graph vs (map (shift_edge vs (bmul vs Q d')) es)).
  { destruct Hwf as [Hp He]. split; [exact Hp|]. rewrite Forall_forall in *. intros e' Hin.
    apply in_map_iff in Hin. destruct Hin as (e & <- & Hin). exact (He e Hin). }
  rewrite (spec_b_tb vs Q _ k i Hwf2 Hk Hi).
  apply sumn_zero. intros m Hm'.
  rewrite Hm.
  - ring.
  - apply gi_block_lt; assumption.
  - rewrite is_fixed_index_gi by assumption. unfold is_fixed_index in Hf. rewrite Lr in Hf. exact Hf.
Qed.

(* solutions only matter on the indices of the system *)
Lemma solves_ext N H b d1 d2 : (forall c, (c < N)%nat -> d1 c = d2 c) -> solves N H b d1 -> solves N H b d2.
Proof.
  intros E Hs r Hr. rewrite <- (Hs r Hr). apply sumn_ext. intros c Hc. rewrite (E c Hc). reflexivity.
Qed.

Definition inverse_blocks (vs : list vertex) (Q P : blocks) : Prop :=
  forall k i m, (k < length vs)%nat -> (i < dim_at vs k)%nat -> (m < dim_at vs k)%nat ->
    sumnR (dim_at vs k) (fun j => Q k i j * P k j m) = ind (Nat.eqb i m).

Lemma bmul_inverse vs Q P d : inverse_blocks vs Q P -> forall r, (r < glen vs)%nat -> bmul vs Q (bmul vs P d) r = d r.
Proof.
  intros Hinv r Hr. destruct (locate_total vs r Hr) as (k & i & Lr).
  destruct (locate_sound vs r k i Lr) as (Hk & Hi & Er).
  unfold bmul at 1. rewrite Lr.
  transitivity (sumnR (dim_at vs k) (fun m => ind (Nat.eqb i m) * d (gi vs k + m)%nat)).
  - transitivity (sumnR (dim_at vs k) (fun j => sumnR (dim_at vs k) (fun m => Q k i j * P k j m * d (gi vs k + m)%nat))).
    + apply sumn_ext. intros j Hj. unfold bmul. rewrite (locate_gi vs k j Hk Hj).
      rewrite <- sumn_scal_l. apply sumn_ext. intros m _. ring.
    + rewrite sumn_swap. apply sumn_ext. intros m Hm. rewrite <- (Hinv k i m Hk Hi Hm).
      rewrite <- sumn_scal_r. reflexivity.
  - rewrite (sumn_ind_pick (dim_at vs k) i (fun m => d (gi vs k + m)%nat) Hi). rewrite Er. reflexivity.
Qed.

Theorem basis_change_inv vs es Q P d : wf_graph vs es -> inverse_blocks vs Q P ->
  solves (glen vs) (spec_H vs es) (spec_b vs es) d ->
  solves (glen vs) (spec_H vs (map (tb_edge vs Q) es)) (spec_b vs (map (tb_edge vs Q) es)) (bmul vs P d).
Proof.
  intros Hwf Hinv Hs. apply basis_change; auto.
  - apply bmul_zero_on_fixed. intros r Hr Hf. apply (C06_dx_zero vs es d r Hr Hf Hs).
  - apply (solves_ext _ _ _ d); [|exact Hs]. intros c Hc. symmetry. apply bmul_inverse; assumption.
Qed.

(* chi2 does not see the Jacobians *)
Lemma chi2_tb vs Q es : spec_chi2 (map (tb_edge vs Q) es) = spec_chi2 es.
Proof. unfold spec_chi2. rewrite sumlist_map. reflexivity. Qed.

(* the hypotheses of basis_change_inv are satisfiable: identity blocks, and a rotation block with its transpose *)
Example inverse_blocks_identity vs : inverse_blocks vs (fun _ i j => ind (Nat.eqb i j)) (fun _ i j => ind (Nat.eqb i j)).
Proof.
  intros k i m Hk Hi Hm. rewrite (sumn_ind_pick (dim_at vs k) i (fun j => ind (Nat.eqb j m)) Hi). reflexivity.
Qed.
Example inverse_blocks_rotation (c s : R) : c * c + s * s = 1 ->
  inverse_blocks [mkvertex 2 false]
    (fun _ i j => match i, j with O, O => c | O, S O => - s | S O, O => s | S O, S O => c | _, _ => 0 end)
    (fun _ i j => match i, j with O, O => c | O, S O => s | S O, O => - s | S O, S O => c | _, _ => 0 end).
Proof.
  intros H k i m Hk Hi Hm. simpl in Hk. assert (k = 0%nat) by lia. subst k. unfold dim_at in *. simpl in *.
  destruct i as [|[|i]]; destruct m as [|[|m]]; try lia; simpl; unfold ind; simpl; nra.
Qed.
