(* C06: fixed vertices never move; the free vertices solve the reduced problem; fixing vertices
   keeps a well-posed problem well-posed.  Statements about lib/GraphModel.v through lib/GNSpec.v
   and the assembly theorem. *)
From Coq Require Import Reals List Arith Bool Lia Lra.
From GS Require Import GraphModel GNSpec C03_sums C03_index C03_assembly.
Import ListNotations.
Open Scope R_scope.

(* rows and columns of a fixed vertex: zero gradient, identity pattern in the Hessian *)
Lemma spec_fixed_rows vs es r c : (r < glen vs)%nat -> (c < glen vs)%nat -> is_fixed_index vs r = true ->
  spec_b vs es r = 0 /\ spec_H vs es r c = ind (Nat.eqb r c) /\ spec_H vs es c r = ind (Nat.eqb c r).
Proof.
  intros Hr Hc Hf. unfold is_fixed_index in Hf.
  destruct (locate_total vs r Hr) as (k & i & Lr). destruct (locate_total vs c Hc) as (l & j & Lc).
  rewrite Lr in Hf. unfold spec_b, spec_H. rewrite Lr, Lc, Hf. cbn [orb].
  repeat split; auto. rewrite orb_true_r. reflexivity.
Qed.

Lemma sumn_ind_pick n r (f : nat -> R) : (r < n)%nat -> sumnR n (fun c => ind (Nat.eqb r c) * f c) = f r.
Proof.
  intros Hr. rewrite <- (sumn_pick n r f Hr). apply sumn_ext. intros c _. rewrite Nat.eqb_sym. reflexivity.
Qed.

(* any solution of the assembled system has a zero increment on every fixed vertex *)
Theorem C06_dx_zero vs es dx r : (r < glen vs)%nat -> is_fixed_index vs r = true ->
  solves (glen vs) (spec_H vs es) (spec_b vs es) dx -> dx r = 0.
Proof.
  intros Hr Hf Hs. specialize (Hs r Hr).
  assert (E : sumnR (glen vs) (fun c => spec_H vs es r c * dx c) = dx r).
  { rewrite <- (sumn_ind_pick (glen vs) r dx Hr). apply sumn_ext. intros c Hc.
    destruct (spec_fixed_rows vs es r c Hr Hc Hf) as (_ & E & _). rewrite E. reflexivity. }
  destruct (spec_fixed_rows vs es r r Hr Hr Hf) as (B & _ & _). rewrite E, B in Hs. lra.
Qed.

(* the free part of a solution solves the reduced system (fixed poses enter only as constants
   inside errors and Jacobians): columns of fixed vertices drop out of the free rows *)
Theorem C06_reduced vs es dx r : (r < glen vs)%nat -> is_fixed_index vs r = false ->
  solves (glen vs) (spec_H vs es) (spec_b vs es) dx ->
  sumnR (glen vs) (fun c => ind (negb (is_fixed_index vs c)) * (spec_H vs es r c * dx c)) = - spec_b vs es r.
Proof.
  intros Hr Hf Hs.
  transitivity (sumnR (glen vs) (fun c => spec_H vs es r c * dx c)); [|apply Hs; auto].
  apply sumn_ext. intros c Hc.
  destruct (is_fixed_index vs c) eqn:Fc; cbn [negb ind]; [|ring].
  rewrite (C06_dx_zero vs es dx c Hc Fc Hs). ring.
Qed.

(* fixing vertices never makes a well-posed problem unsolvable: if the reduced matrix (free rows and
   columns) is injective, so is the assembled matrix *)
Theorem C06_wellposed_preserved vs es :
  (forall x, (forall r, (r < glen vs)%nat -> is_fixed_index vs r = false ->
                sumnR (glen vs) (fun c => ind (negb (is_fixed_index vs c)) * (spec_H vs es r c * x c)) = 0) ->
             forall c, (c < glen vs)%nat -> is_fixed_index vs c = false -> x c = 0) ->
  forall x, (forall r, (r < glen vs)%nat -> sumnR (glen vs) (fun c => spec_H vs es r c * x c) = 0) ->
            forall c, (c < glen vs)%nat -> x c = 0.
Proof.
  intros Hred x Hx.
  assert (Hfix : forall c, (c < glen vs)%nat -> is_fixed_index vs c = true -> x c = 0).
  { intros c Hc Fc. specialize (Hx c Hc).
    assert (E : sumnR (glen vs) (fun c' => spec_H vs es c c' * x c') = x c).
    { rewrite <- (sumn_ind_pick (glen vs) c x Hc). apply sumn_ext. intros c' Hc'.
      destruct (spec_fixed_rows vs es c c' Hc Hc' Fc) as (_ & E & _). rewrite E. reflexivity. }
    rewrite <- E. exact Hx. }
  intros c Hc. destruct (is_fixed_index vs c) eqn:Fc; [apply Hfix; auto|].
  apply (Hred x); auto. intros r Hr Fr.
  transitivity (sumnR (glen vs) (fun c' => spec_H vs es r c' * x c')); [|apply Hx; auto].
  apply sumn_ext. intros c' Hc'.
  destruct (is_fixed_index vs c') eqn:Fc'; cbn [negb ind]; [|ring]. rewrite (Hfix c' Hc' Fc'). ring.
Qed.

(* the update step never touches a fixed vertex, whatever increment the solver returned, for any
   number of iterations (any sequence of increments) *)
Lemma apply_update_nth {P} (bp : nat -> P -> list R -> P) vs (poses : list P) dx k d :
  (k < length poses)%nat ->
  nth k (apply_update R bp vs poses dx) d =
  if fixed_at vs k then nth k poses d else bp k (nth k poses d) (dx_slice R vs dx k).
Proof.
  intros Hk. unfold apply_update.
  assert (G : forall (l : list P) s k, (k < length l)%nat ->
     nth k (map (fun kp => if fixed_at vs (fst kp) then snd kp else bp (fst kp) (snd kp) (dx_slice R vs dx (fst kp)))
               (combine (seq s (length l)) l)) d
     = if fixed_at vs (s + k) then nth k l d else bp (s + k)%nat (nth k l d) (dx_slice R vs dx (s + k))).
  { induction l as [|p l IH]; intros s k0 Hk0; simpl in Hk0; [lia|].
    destruct k0 as [|k0]; simpl.
    - rewrite Nat.add_0_r. reflexivity.
    - rewrite IH by lia. replace (S s + k0)%nat with (s + S k0)%nat by lia. reflexivity. }
  apply (G poses 0%nat k Hk).
Qed.
Lemma apply_update_length {P} (bp : nat -> P -> list R -> P) vs (poses : list P) dx :
  length (apply_update R bp vs poses dx) = length poses.
Proof. unfold apply_update. rewrite map_length, combine_length, seq_length. apply Nat.min_id. Qed.
Theorem C06_never_moves {P} (bp : nat -> P -> list R -> P) vs (dxs : list (nat -> R)) (poses : list P) k d :
  (k < length poses)%nat -> fixed_at vs k = true ->
  nth k (fold_left (fun ps dx => apply_update R bp vs ps dx) dxs poses) d = nth k poses d.
Proof.
  revert poses. induction dxs as [|dx dxs IH]; intros poses Hk Hf; simpl; [reflexivity|].
  rewrite IH; [| rewrite apply_update_length; auto | auto].
  rewrite apply_update_nth by auto. rewrite Hf. reflexivity.
Qed.
(* and a free vertex moves by boxplus of its own slice of dx *)
Theorem C03_step {P} (bp : nat -> P -> list R -> P) vs (poses : list P) dx k d :
  (k < length poses)%nat -> fixed_at vs k = false ->
  nth k (apply_update R bp vs poses dx) d = bp k (nth k poses d) (dx_slice R vs dx k).
Proof. intros Hk Hf. rewrite apply_update_nth by auto. rewrite Hf. reflexivity. Qed.

(* fix_first_pose: exactly the first listed vertex becomes fixed; False changes nothing *)
Definition prep_fixed (ffp : bool) (vs : list vertex) : list vertex :=
  if ffp then match vs with v :: r => mkvertex (v_dim v) true :: r | [] => [] end else vs.
Theorem C06_first_pose vs : vs <> [] ->
  fixed_at (prep_fixed true vs) 0 = true /\
  (forall k, (0 < k)%nat -> fixed_at (prep_fixed true vs) k = fixed_at vs k) /\
  (forall k, dim_at (prep_fixed true vs) k = dim_at vs k) /\
  prep_fixed false vs = vs.
Proof.
  intros Hne. destruct vs as [|v r]; [contradiction|]. repeat split.
  - intros k Hk. destruct k; [lia|reflexivity].
  - intros k. destruct k; reflexivity.
Qed.
Example fixed_hypotheses_satisfiable :
  let vs := [mkvertex 2 false; mkvertex 3 true] in is_fixed_index vs 3 = true /\ is_fixed_index vs 1 = false /\ (3 < glen vs)%nat.
Proof. cbv. repeat split; lia. Qed.
