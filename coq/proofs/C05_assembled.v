(* C05_assembled.v — end to end: the gradient vector that the ALGORITHM of graph.py assembles (lib/GraphModel.v: per-edge contributions, dictionary
   accumulation in insertion order, slice writes, fixed vertices zeroed; exact integer correspondence with graph.py on every run) from what the
   regenerated error / Jacobian programs return, is half the gradient of the graph's chi^2 along the update curve of every free vertex.
   = C05_gradient_SE3 / C05_gradient_SE2 (calculus)  +  assembly_correct (C03)  +  well-formedness from the description. *)
From Coq Require Import Reals List Arith Bool Lra ZArith Lia.
From Coquelicot Require Import Coquelicot.
From GS Require Import ExprR LinAlg Chi2 GraphModel GNSpec C03_sums C03_index C03_accumulate C03_assembly C07_glue C07_whole C05_grad C05_grad2.
Import ListNotations.
Open Scope R_scope.

Lemma flat_index_in_range vs k i : allpos vs -> (k < length vs)%nat -> (i < dim_at vs k)%nat -> (gi vs k + i < glen vs)%nat.
Proof.
  intros Hpos Hk Hi. unfold gi, glen.
  pose proof (goff_mono_S vs k (length vs) Hpos Hk (le_n _)) as H. rewrite goff_S in H by exact Hk. lia.
Qed.

Theorem C05_assembled_gradient_SE3 vs lm poses gs k i :
  length poses = length vs -> List.Forall (fun v => (0 < v_dim v)%nat) vs -> List.Forall (okg vs lm poses) gs ->
  (k < length vs)%nat -> (i < dim_at vs k)%nat -> fixed_at vs k = false ->
  is_derive (fun t => chi2_graph (upd poses k (bp3 (lm k) (nth k poses []) (vscale t (basis (dim_at vs k) i)))) gs) 0
            (2 * assemble_gradient R 0 Rplus Rmult vs (map rec3 (map (descr poses) gs)) (gi vs k + i))
  /\ assemble_chi2 R 0 Rplus Rmult vs (map rec3 (map (descr poses) gs)) = chi2_graph poses gs.
Proof.
  intros HL Hv Hok Hk Hi Hf.
  assert (Hwf : wf_graph vs (map rec3 (map (descr poses) gs))).
  { apply (wf_graph_of_descr3 vs lm); [exact Hv | |]; rewrite Forall_forall in *; intros d Hd; apply in_map_iff in Hd; destruct Hd as (g & <- & Hg);
      destruct (Hok g Hg) as (A & B & _); assumption. }
  destruct (assembly_correct vs _ Hwf) as (Eb & _ & Ec).
  split.
  - rewrite (Eb (gi vs k + i)%nat (flat_index_in_range vs k i Hv Hk Hi)). apply (C05_gradient_SE3 vs lm); assumption.
  - rewrite Ec. symmetry. apply (chi2_graph_is_spec_chi2 vs lm). exact Hok.
Qed.

Theorem C05_assembled_gradient_SE2 vs lm poses gs k i :
  length poses = length vs -> List.Forall (fun v => (0 < v_dim v)%nat) vs -> List.Forall (okg2 vs lm poses) gs ->
  (k < length vs)%nat -> (i < dim_at vs k)%nat -> fixed_at vs k = false ->
  is_derive (fun t => chi2_graph2 (upd poses k (bp2 (lm k) (nth k poses []) (vscale t (basis (dim_at vs k) i)))) gs) 0
            (2 * assemble_gradient R 0 Rplus Rmult vs (map rec2 (map (descr2 poses) gs)) (gi vs k + i)).
Proof.
  intros HL Hv Hok Hk Hi Hf.
  assert (Hwf : wf_graph vs (map rec2 (map (descr2 poses) gs))).
  { apply (wf_graph_of_descr2 vs lm); [exact Hv | |]; rewrite Forall_forall in *; intros d Hd; apply in_map_iff in Hd; destruct Hd as (g & <- & Hg);
      destruct (Hok g Hg) as (A & B & _); assumption. }
  destruct (assembly_correct vs _ Hwf) as (Eb & _ & _).
  rewrite (Eb (gi vs k + i)%nat (flat_index_in_range vs k i Hv Hk Hi)). apply (C05_gradient_SE2 vs lm); assumption.
Qed.
