(* C07_lmk.v — the landmark slot under a world-frame transform.  The transformed landmark T.l moves by
   d' = R_T d (C07_boxplus_point3 and C07_boxplus_point2), so its Jacobian satisfies  J'_l (R_T u) = J_l u  for every u; R_T is
   invertible with inverse R_{T^-1}, hence J'_l u = J_l (R_{T^-1} u): the per-vertex change of tangent
   basis of proofs/C07_basis.v. *)
From Coq Require Import Reals List Lra ZArith Lia.
From Coquelicot Require Import Coquelicot.
From GS Require Import ExprR LinAlg Meth MethR Prog Chain Wrap Spec GenR2 GenR3 GenSE2 GenSE3 GenEdges
  C10_SE3 C10_SE3_boxplus C10_SE2 C10_Rn C09_SE3 C09_SE2 C11_main C01_SE3 C01_Rn C01_SE2 C02_model C07_errors C07_equiv.
Import ListNotations.
Open Scope R_scope.

Lemma rot3_linear T u t : length T = 7%nat -> length u = 3%nat -> vscale t (rot3 T u) = rot3 T (vscale t u).
Proof. intros HT Hu. list_len T HT. list_len u Hu. cb0. repeat (f_equal; try ring). Qed.
Lemma rot2_linear T u t : length T = 3%nat -> length u = 2%nat -> vscale t (rot2 T u) = rot2 T (vscale t u).
Proof. intros HT Hu. list_len T HT. list_len u Hu. cb0. repeat (f_equal; try ring). Qed.

Theorem C07_jac_lmk_SE3_point T p l z off u : length T = 7%nat -> length p = 7%nat -> length l = 3%nat -> length z = 3%nat ->
  length off = 7%nat -> length u = 3%nat -> unitq T -> unitq p -> unitq off ->
  forall i, nth i (matvec (nth 1 (jac_lmk3 (comp3 T p) (act3 T l) z off) []) (rot3 T u)) 0
          = nth i (matvec (nth 1 (jac_lmk3 p l z off) []) u) 0.
Proof.
  intros HT Hp Hl Hz Ho Hu UT Up Uo i.
  assert (L1 : length (comp3 T p) = 7%nat) by reflexivity.
  assert (L2 : length (act3 T l) = 3%nat) by reflexivity.
  assert (L3 : length (rot3 T u) = 3%nat) by (list_len T HT; list_len u Hu; reflexivity).
  assert (Lv : forall t, length (vscale t u) = 3%nat) by (intros t; unfold vscale; rewrite map_length; auto).
  pose proof (C01_lmk_SE3_v1 (comp3 T p) (act3 T l) z off (rot3 T u) L1 L2 Hz Ho L3 i) as D'.
  pose proof (C01_lmk_SE3_v1 p l z off u Hp Hl Hz Ho Hu i) as D.
  transitivity (Derive (fun t => nth i (err_lmk3 p (R3_boxplus_fun l (vscale t u)) z off) 0) 0); [symmetry|]; apply is_derive_unique; [|exact D].
  eapply is_derive_ext; [|exact D']. intros t. cbn beta.
  rewrite (rot3_linear T u t HT Hu). rewrite <- (C07_boxplus_point3 T l (vscale t u)) by auto.
  rewrite C07_lmk_SE3; auto.
Qed.
Theorem C07_jac_lmk_SE2_point T p l z off u : length T = 3%nat -> length p = 3%nat -> length l = 2%nat -> length z = 2%nat ->
  length off = 3%nat -> length u = 2%nat ->
  forall i, nth i (matvec (nth 1 (jac_lmk2 (comp2 T p) (act2 T l) z off) []) (rot2 T u)) 0
          = nth i (matvec (nth 1 (jac_lmk2 p l z off) []) u) 0.
Proof.
  intros HT Hp Hl Hz Ho Hu i.
  assert (L1 : length (comp2 T p) = 3%nat) by reflexivity.
  assert (L2 : length (act2 T l) = 2%nat) by reflexivity.
  assert (L3 : length (rot2 T u) = 2%nat) by (list_len T HT; list_len u Hu; reflexivity).
  assert (Lv : forall t, length (vscale t u) = 2%nat) by (intros t; unfold vscale; rewrite map_length; auto).
  pose proof (C01_lmk_SE2_v1 (comp2 T p) (act2 T l) z off (rot2 T u) L1 L2 Hz Ho L3 i) as D'.
  pose proof (C01_lmk_SE2_v1 p l z off u Hp Hl Hz Ho Hu i) as D.
  transitivity (Derive (fun t => nth i (err_lmk2 p (R2_boxplus_fun l (vscale t u)) z off) 0) 0); [symmetry|]; apply is_derive_unique; [|exact D].
  eapply is_derive_ext; [|exact D']. intros t. cbn beta.
  rewrite (rot2_linear T u t HT Hu). rewrite <- (C07_boxplus_point2 T l (vscale t u)) by auto.
  rewrite C07_lmk_SE2; auto.
Qed.

(* R_T is invertible: the rotation of T^-1 undoes it (unit quaternion for SE(3); always for SE(2)) *)
Theorem rot3_inverse T u : length T = 7%nat -> length u = 3%nat -> unitq T ->
  rot3 T (rot3 (evl T SE3_inv) u) = u /\ rot3 (evl T SE3_inv) (rot3 T u) = u.
Proof.
  intros HT Hu UT. list_len T HT. list_len u Hu. unfold unitq in UT. cbv in UT.
  assert (WT : x5 * x5 = 1 - x2 * x2 - x3 * x3 - x4 * x4) by lra.
  split; cbv - [Rplus Rmult Rminus Ropp Rdiv Rinv sqrt IZR pow]; repeat (f_equal; try ring [WT]).
Qed.
Theorem rot2_inverse T u : length T = 3%nat -> length u = 2%nat ->
  rot2 T (rot2 (evl T SE2_inv) u) = u /\ rot2 (evl T SE2_inv) (rot2 T u) = u.
Proof.
  intros HT Hu. list_len T HT. list_len u Hu.
  pose proof (sc1 x1) as SC.
  split; cb0; fold_wrap; rewrite ?cos_wrap, ?sin_wrap, ?cos_neg, ?sin_neg;
  repeat (f_equal; try ring [SC]).
Qed.
(* hence the Jacobian of the transformed landmark, applied to any u *)
Corollary C07_jac_lmk_SE3_point_inv T p l z off u : length T = 7%nat -> length p = 7%nat -> length l = 3%nat -> length z = 3%nat ->
  length off = 7%nat -> length u = 3%nat -> unitq T -> unitq p -> unitq off ->
  forall i, nth i (matvec (nth 1 (jac_lmk3 (comp3 T p) (act3 T l) z off) []) u) 0
          = nth i (matvec (nth 1 (jac_lmk3 p l z off) []) (rot3 (evl T SE3_inv) u)) 0.
Proof.
  intros HT Hp Hl Hz Ho Hu UT Up Uo i.
  rewrite <- (C07_jac_lmk_SE3_point T p l z off (rot3 (evl T SE3_inv) u)) by (auto; list_len T HT; list_len u Hu; reflexivity).
  destruct (rot3_inverse T u HT Hu UT) as [E _]. rewrite E. reflexivity.
Qed.
Corollary C07_jac_lmk_SE2_point_inv T p l z off u : length T = 3%nat -> length p = 3%nat -> length l = 2%nat -> length z = 2%nat ->
  length off = 3%nat -> length u = 2%nat ->
  forall i, nth i (matvec (nth 1 (jac_lmk2 (comp2 T p) (act2 T l) z off) []) u) 0
          = nth i (matvec (nth 1 (jac_lmk2 p l z off) []) (rot2 (evl T SE2_inv) u)) 0.
Proof.
  intros HT Hp Hl Hz Ho Hu i.
  rewrite <- (C07_jac_lmk_SE2_point T p l z off (rot2 (evl T SE2_inv) u)) by (auto; list_len T HT; list_len u Hu; reflexivity).
  destruct (rot2_inverse T u HT Hu) as [E _]. rewrite E. reflexivity.
Qed.
