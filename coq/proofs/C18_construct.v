(* C18_construct.v — lemmas about ValidModel.construct (Graph._initialize): the id dictionary
   binds every slot to the LAST vertex carrying the named id, an unknown id gives KeyError, and
   construction succeeds iff all ids are known and every edge satisfies the declarative
   specification [consistent] (written here independently of is_valid).  Axiom-free. *)
From Coq Require Import List ZArith Bool Lia Permutation.
From GS Require Import PyBase ValidModel ValidSpec.
Import ListNotations.

(* ------------------------------------------------------------------ the dictionary *)
Lemma dict_get_set d k k' i : dict_get (dict_set d k' i) k = if Z.eqb k' k then Some i else dict_get d k.
Proof.
  induction d as [|[k0 j] d IH]; simpl.
  - destruct (Z.eqb k' k); reflexivity.
  - destruct (Z.eqb k0 k') eqn:E0; simpl.
    + apply Z.eqb_eq in E0. subst k0. destruct (Z.eqb k' k); reflexivity.
    + destruct (Z.eqb k0 k) eqn:E1.
      * destruct (Z.eqb k' k) eqn:E2; [|reflexivity].
        apply Z.eqb_eq in E1. apply Z.eqb_eq in E2. apply Z.eqb_neq in E0. congruence.
      * exact IH.
Qed.

(* index of the last vertex with id k, scanning from position i with accumulator acc *)
Fixpoint last_idx (i : nat) (vs : list vertex) (k : Z) (acc : option nat) : option nat :=
  match vs with
  | [] => acc
  | v :: r => last_idx (S i) r k (if Z.eqb (v_id v) k then Some i else acc)
  end.

Lemma mkdict_from_get vs : forall i d k, dict_get (mkdict_from i vs d) k = last_idx i vs k (dict_get d k).
Proof.
  induction vs as [|v r IH]; intros i d k; simpl; [reflexivity|].
  rewrite IH, dict_get_set. reflexivity.
Qed.

Lemma last_idx_spec vs : forall i k acc j,
  last_idx i vs k acc = Some j ->
  (acc = Some j /\ forall w, In w vs -> v_id w <> k) \/
  (exists l1 v l2, vs = l1 ++ v :: l2 /\ j = (i + length l1)%nat /\ v_id v = k /\ forall w, In w l2 -> v_id w <> k).
Proof.
  induction vs as [|v r IH]; intros i k acc j H; simpl in H.
  - left. split; [exact H|]. intros w [].
  - destruct (IH _ _ _ _ H) as [[Ha Hn]|[l1 [v' [l2 [E [Hj [Hk Hn]]]]]]].
    + destruct (Z.eqb (v_id v) k) eqn:Ek.
      * right. exists [], v, r. simpl. inversion Ha. subst j. apply Z.eqb_eq in Ek. repeat split; auto; lia.
      * left. split; [exact Ha|]. intros w [Hw|Hw]; [subst w; apply Z.eqb_neq; exact Ek|auto].
    + right. exists (v :: l1), v', l2. subst r. simpl. repeat split; auto; lia.
Qed.

Lemma last_idx_some vs : forall i k a, last_idx i vs k (Some a) <> None.
Proof.
  induction vs as [|x r IH]; intros i k a; simpl; [discriminate|].
  destruct (Z.eqb (v_id x) k); apply IH.
Qed.
Lemma last_idx_none vs : forall i k, last_idx i vs k None = None -> forall w, In w vs -> v_id w <> k.
Proof.
  induction vs as [|v r IH]; intros i k H w Hw; simpl in *; [contradiction|].
  destruct (Z.eqb (v_id v) k) eqn:Ek.
  - exfalso. exact (last_idx_some _ _ _ _ H).
  - destruct Hw as [Hw|Hw]; [subst w; apply Z.eqb_neq; exact Ek | eapply IH; eauto].
Qed.

(* ------------------------------------------------------------------ gradient indices *)
Lemma assign_app l1 : forall g l2, assign g (l1 ++ l2) = assign g l1 ++ assign (g + dims l1) l2.
Proof.
  induction l1 as [|v r IH]; intros g l2; simpl.
  - f_equal. lia.
  - f_equal. rewrite IH. f_equal. f_equal. lia.
Qed.
Lemma assign_length vs : forall g, length (assign g vs) = length vs.
Proof. induction vs; intros; simpl; auto. Qed.
Lemma assign_vertices vs : forall g, map b_v (assign g vs) = vs.
Proof. induction vs as [|v r IH]; intros; simpl; [reflexivity|]. rewrite IH. reflexivity. Qed.

Lemma nth_assign l1 v l2 : nth_error (assign 0 (l1 ++ v :: l2)) (length l1) = Some (mkbvertex v (dims l1)).
Proof.
  rewrite assign_app. rewrite nth_error_app2 by (rewrite assign_length; lia).
  rewrite assign_length, Nat.sub_diag. reflexivity.
Qed.

(* ------------------------------------------------------------------ binding one id *)
Lemma lookup_binds vs k i :
  dict_get (mkdict vs) k = Some i -> exists b, nth_error (assign 0 vs) i = Some b /\ binds vs k b.
Proof.
  unfold mkdict. rewrite mkdict_from_get. simpl. intros H.
  destruct (last_idx_spec _ _ _ _ _ H) as [[Ha _]|[l1 [v [l2 [E [Hj [Hk Hn]]]]]]]; [discriminate|].
  subst vs i. simpl. exists (mkbvertex v (dims l1)). split; [apply nth_assign|].
  exists l1, l2. simpl. auto.
Qed.
Lemma lookup_unknown vs k : dict_get (mkdict vs) k = None -> ~ known vs k.
Proof.
  unfold mkdict. rewrite mkdict_from_get. simpl. intros H [v [Hin Hk]].
  exact (last_idx_none _ _ _ H v Hin Hk).
Qed.
Lemma known_lookup vs k : known vs k -> exists i, dict_get (mkdict vs) k = Some i.
Proof.
  intros Hk. destruct (dict_get (mkdict vs) k) eqn:E; [eauto|]. exfalso. exact (lookup_unknown _ _ E Hk).
Qed.

Lemma binds_fun vs k b b' : binds vs k b -> binds vs k b' -> b = b'.
Proof.
  intros [l1 [l2 [E [Hk [Hn Hg]]]]] [l1' [l2' [E' [Hk' [Hn' Hg']]]]].
  assert (Hl : l1 = l1' /\ b_v b = b_v b' /\ l2 = l2').
  { rewrite E in E'. clear E Hg Hg'. revert l1' E'. induction l1 as [|x l1 IH]; intros [|y l1'] E'; simpl in E'.
    - injection E' as E1 E2. auto.
    - injection E' as E1 E2. exfalso. apply (Hn (b_v b')); [rewrite E2; apply in_or_app; right; left; reflexivity|exact Hk'].
    - injection E' as E1 E2. exfalso. apply (Hn' (b_v b)); [rewrite <- E2; apply in_or_app; right; left; reflexivity|exact Hk].
    - injection E' as E1 E2. destruct (IH _ E2) as [Ha [Hb Hc]]. rewrite E1, Ha. auto. }
  destruct Hl as [Hl1 [Hv Hl2]]. rewrite <- Hl1 in Hg'. destruct b as [bv bg], b' as [bv' bg']. simpl in *. rewrite Hv, Hg, Hg'. reflexivity.
Qed.

Lemma binds_known vs k b : binds vs k b -> known vs k.
Proof. intros [l1 [l2 [E [Hk _]]]]. exists (b_v b). split; [subst vs; apply in_or_app; right; left; reflexivity|exact Hk]. Qed.

(* ------------------------------------------------------------------ binding an edge *)
Lemma bind_ids_ok vs ids : forall bl,
  bind_ids (assign 0 vs) (mkdict vs) ids = Ok bl -> Forall2 (binds vs) ids bl.
Proof.
  induction ids as [|k r IH]; intros bl H; simpl in H.
  - inversion H. constructor.
  - destruct (dict_get (mkdict vs) k) as [i|] eqn:Ek; [|discriminate].
    destruct (lookup_binds _ _ _ Ek) as [b [Hn Hb]]. rewrite Hn in H.
    destruct (bind_ids (assign 0 vs) (mkdict vs) r) as [l|] eqn:Er; [|discriminate].
    inversion H. subst bl. constructor; [exact Hb|apply IH; reflexivity].
Qed.
Lemma bind_ids_err vs ids e :
  bind_ids (assign 0 vs) (mkdict vs) ids = Err e -> e = KeyError /\ exists k, In k ids /\ ~ known vs k.
Proof.
  induction ids as [|k r IH]; intros H; simpl in H; [discriminate|].
  destruct (dict_get (mkdict vs) k) as [i|] eqn:Ek.
  - destruct (lookup_binds _ _ _ Ek) as [b [Hn Hb]]. rewrite Hn in H.
    destruct (bind_ids (assign 0 vs) (mkdict vs) r) as [l|e'] eqn:Er; [discriminate|].
    inversion H. subst e'. destruct (IH eq_refl) as [He [k' [Hin Hk']]]. split; [exact He|]. exists k'. split; [right; exact Hin|exact Hk'].
  - inversion H. split; [reflexivity|]. exists k. split; [left; reflexivity|apply lookup_unknown; exact Ek].
Qed.
Lemma bind_ids_total vs ids :
  (forall k, In k ids -> known vs k) -> exists bl, bind_ids (assign 0 vs) (mkdict vs) ids = Ok bl.
Proof.
  intros H. destruct (bind_ids (assign 0 vs) (mkdict vs) ids) as [bl|e] eqn:E; [eauto|].
  destruct (bind_ids_err _ _ _ E) as [_ [k [Hin Hk]]]. exfalso. exact (Hk (H k Hin)).
Qed.

Lemma bind_all_ok vs es : forall bes,
  bind_all (assign 0 vs) (mkdict vs) es = Ok bes ->
  Forall2 (fun e b => be_e b = e /\ exists bl, be_vs b = Some bl /\ Forall2 (binds vs) (e_ids e) bl) es bes.
Proof.
  induction es as [|e r IH]; intros bes H; simpl in H.
  - inversion H. constructor.
  - destruct (bind_ids (assign 0 vs) (mkdict vs) (e_ids e)) as [bl|] eqn:Eb; [|discriminate].
    destruct (bind_all (assign 0 vs) (mkdict vs) r) as [l|] eqn:Er; [|discriminate].
    inversion H. subst bes. constructor; [|apply IH; reflexivity].
    simpl. split; [reflexivity|]. exists bl. split; [reflexivity|apply bind_ids_ok; exact Eb].
Qed.
Lemma bind_all_err vs es x :
  bind_all (assign 0 vs) (mkdict vs) es = Err x -> x = KeyError /\ exists e k, In e es /\ In k (e_ids e) /\ ~ known vs k.
Proof.
  induction es as [|e r IH]; intros H; simpl in H; [discriminate|].
  destruct (bind_ids (assign 0 vs) (mkdict vs) (e_ids e)) as [bl|y] eqn:Eb.
  - destruct (bind_all (assign 0 vs) (mkdict vs) r) as [l|y] eqn:Er; [discriminate|].
    inversion H. subst y. destruct (IH eq_refl) as [Hx [e' [k [He [Hk Hn]]]]]. split; [exact Hx|].
    exists e', k. split; [right; exact He|auto].
  - inversion H. subst y. destruct (bind_ids_err _ _ _ Eb) as [Hx [k [Hk Hn]]]. split; [exact Hx|].
    exists e, k. split; [left; reflexivity|auto].
Qed.
Lemma bind_all_total vs es :
  (forall e k, In e es -> In k (e_ids e) -> known vs k) -> exists bes, bind_all (assign 0 vs) (mkdict vs) es = Ok bes.
Proof.
  intros H. destruct (bind_all (assign 0 vs) (mkdict vs) es) as [bes|x] eqn:E; [eauto|].
  destruct (bind_all_err _ _ _ E) as [_ [e [k [He [Hk Hn]]]]]. exfalso. exact (Hn (H e k He Hk)).
Qed.

(* ------------------------------------------------------------------ is_valid vs. consistent *)
Lemma Forall2_len {A B} (R : A -> B -> Prop) l1 l2 : Forall2 R l1 l2 -> length l1 = length l2.
Proof. induction 1; simpl; auto. Qed.
Lemma base_valid_of_binds vs e bl :
  Forall2 (binds vs) (e_ids e) bl -> base_is_valid (mkbedge e (Some bl)) = true.
Proof.
  intros H. unfold base_is_valid. simpl.
  assert (Hl : length bl = length (e_ids e)) by (symmetry; eapply Forall2_len; eauto).
  rewrite Hl, Nat.eqb_refl. simpl. clear Hl.
  induction H as [|k b ids bl' Hb _ IH]; simpl; [reflexivity|].
  destruct Hb as [_ [_ [_ [Hk _]]]]. rewrite Hk, Z.eqb_refl. simpl.
  exact IH.
Qed.

Lemma pkind_eqb_eq a b : pkind_eqb a b = true <-> a = b.
Proof. destruct a, b; simpl; split; intros H; try reflexivity; try discriminate. Qed.
Lemma pkind_eqb_refl a : pkind_eqb a a = true.
Proof. apply pkind_eqb_eq. reflexivity. Qed.
Lemma isinstance_eq x k : isinstance x k = true <-> x = OPose k.
Proof.
  destruct x as [k'| | |]; simpl; split; intros H; try discriminate.
  - apply pkind_eqb_eq in H. subst. reflexivity.
  - inversion H. apply pkind_eqb_refl.
Qed.
Lemma shape_square_eq s n : shape_is_square s n = true <-> s = [n; n].
Proof.
  unfold shape_is_square. destruct s as [|r [|c [|x s]]]; split; intros H; try discriminate.
  - apply andb_true_iff in H. destruct H as [H1 H2]. apply Nat.eqb_eq in H1. apply Nat.eqb_eq in H2. subst. reflexivity.
  - inversion H. rewrite !Nat.eqb_refl. reflexivity.
Qed.
Lemma pair_in_landmark K0 K1 : pair_in (K0, K1) landmark_pairs = true <-> admissible_landmark K0 K1.
Proof.
  unfold admissible_landmark. destruct K0, K1; simpl; split; intros H; try discriminate; try reflexivity; auto;
    repeat (destruct H as [[? ?]|H]; try discriminate); try (destruct H; discriminate).
Qed.

Lemma Forall2_two_l {A B} (R : A -> B -> Prop) a b bl :
  Forall2 R [a; b] bl -> exists x y, bl = [x; y] /\ R a x /\ R b y.
Proof.
  intros H. inversion H as [|a' x l1 l2 Ha Hr]. inversion Hr as [|b' y l3 l4 Hb0 Hr']. inversion Hr'.
  exists x, y. auto.
Qed.
Lemma Forall2_two_r {A B} (R : A -> B -> Prop) ids x y :
  Forall2 R ids [x; y] -> exists a b, ids = [a; b] /\ R a x /\ R b y.
Proof.
  intros H. inversion H as [|a x' l1 l2 Ha Hr]. inversion Hr as [|b y' l3 l4 Hb0 Hr']. inversion Hr'.
  exists a, b. auto.
Qed.

Section Valid.
  Opaque pair_in shape_is_square.
  Variable custom_ok : nat -> edge -> list bvertex -> bool.

  Lemma is_valid_iff vs e bl :
    Forall2 (binds vs) (e_ids e) bl ->
    (is_valid custom_ok (mkbedge e (Some bl)) = true <-> consistent custom_ok vs e).
  Proof.
    intros Hb. pose proof (base_valid_of_binds _ _ _ Hb) as Hbase.
    unfold is_valid, consistent. simpl. destruct (e_class e).
    - (* odometry *)
      unfold odometry_is_valid. simpl. rewrite Hbase. simpl.
      split.
      + intros H. destruct bl as [|v0 [|v1 [|v2 bl]]]; simpl in H; try discriminate.
        destruct (pkind_eqb (v_kind (b_v v1)) (v_kind (b_v v0))) eqn:E1; simpl in H; [|discriminate].
        destruct (isinstance (e_est e) (v_kind (b_v v0))) eqn:E2; simpl in H; [|discriminate].
        apply pkind_eqb_eq in E1. apply isinstance_eq in E2. apply shape_square_eq in H.
        destruct (Forall2_two_r _ _ _ _ Hb) as [a [b [Hi [Ha Hb1]]]].
        exists a, b, v0, v1, (v_kind (b_v v0)). repeat split; auto.
      + intros [a [b [va [vb [K [Hi [Ha [Hb' [Hka [Hkb [He Hs]]]]]]]]]]].
        rewrite Hi in Hb. destruct (Forall2_two_l _ _ _ _ Hb) as [v0 [v1 [Hbl [Hv0 Hv1]]]].
        rewrite Hbl. rewrite (binds_fun _ _ _ _ Hv0 Ha), (binds_fun _ _ _ _ Hv1 Hb'). simpl.
        rewrite Hka, Hkb, pkind_eqb_refl. simpl.
        rewrite (proj2 (isinstance_eq _ _) He). simpl. apply shape_square_eq. exact Hs.
    - (* landmark *)
      unfold landmark_is_valid. simpl. rewrite Hbase. simpl.
      split.
      + intros H. destruct bl as [|v0 [|v1 [|v2 bl]]]; simpl in H; try discriminate.
        destruct (isinstance (e_off e) (v_kind (b_v v0))) eqn:E1; simpl in H; [|discriminate].
        destruct (isinstance (e_est e) (v_kind (b_v v1))) eqn:E2; simpl in H; [|discriminate].
        destruct (pair_in (v_kind (b_v v0), v_kind (b_v v1)) landmark_pairs) eqn:E3; simpl in H; [|discriminate].
        apply isinstance_eq in E1. apply isinstance_eq in E2. apply pair_in_landmark in E3. apply shape_square_eq in H.
        destruct (Forall2_two_r _ _ _ _ Hb) as [a [b [Hi [Ha Hb1]]]].
        exists a, b, v0, v1, (v_kind (b_v v0)), (v_kind (b_v v1)). repeat split; auto.
      + intros [a [b [va [vb [K0 [K1 [Hi [Ha [Hb' [Hka [Hkb [Hadm [Ho [He Hs]]]]]]]]]]]]]].
        rewrite Hi in Hb. destruct (Forall2_two_l _ _ _ _ Hb) as [v0 [v1 [Hbl [Hv0 Hv1]]]].
        rewrite Hbl. rewrite (binds_fun _ _ _ _ Hv0 Ha), (binds_fun _ _ _ _ Hv1 Hb'). simpl.
        rewrite Hka, Hkb.
        rewrite (proj2 (isinstance_eq _ _) Ho), (proj2 (isinstance_eq _ _) He). simpl.
        rewrite (proj2 (pair_in_landmark _ _) Hadm). simpl. apply shape_square_eq. exact Hs.
    - (* custom *)
      rewrite Hbase. simpl. split.
      + intros H. exists bl. split; assumption.
      + intros [bl' [Hb' H]]. assert (bl' = bl).
        { clear H Hbase. revert bl' Hb'. induction Hb as [|k b ids bl0 Hkb _ IH]; intros bl' Hb'; inversion Hb'; subst; [reflexivity|].
          f_equal; [eapply binds_fun; eauto|apply IH; assumption]. }
        subst. exact H.
  Qed.

  (* ---------------------------------------------------------------- the theorems *)
  Theorem construct_binding es vs bes bvs :
    construct custom_ok es vs = Ok (bes, bvs) ->
    bvs = assign 0 vs /\
    Forall2 (fun e b => be_e b = e /\ exists bl, be_vs b = Some bl /\ Forall2 (binds vs) (e_ids e) bl) es bes.
  Proof.
    unfold construct. intros H.
    destruct (bind_all (assign 0 vs) (mkdict vs) es) as [l|x] eqn:E; [|discriminate].
    destruct (forallb (is_valid custom_ok) l); [|discriminate].
    inversion H. subst. split; [reflexivity|]. apply bind_all_ok. exact E.
  Qed.

  Theorem construct_unknown_id es vs :
    ~ all_known es vs -> construct custom_ok es vs = Err KeyError.
  Proof.
    intros Hn. unfold construct.
    destruct (bind_all (assign 0 vs) (mkdict vs) es) as [l|x] eqn:E.
    - exfalso. apply Hn. intros e k He Hk. pose proof (bind_all_ok _ _ _ E) as HF.
      clear E Hn. induction HF as [|e' b es' bes' [_ [bl [_ Hbl]]] _ IH]; [contradiction|].
      destruct He as [He|He]; [subst e'|exact (IH He)].
      clear IH. induction Hbl as [|k' b' ids bl' Hb' _ IH2]; [contradiction|].
      destruct Hk as [Hk|Hk]; [subst k'; eapply binds_known; eauto|exact (IH2 Hk)].
    - destruct (bind_all_err _ _ _ E) as [Hx _]. subst. reflexivity.
  Qed.

  Theorem construct_iff es vs :
    (exists g, construct custom_ok es vs = Ok g) <->
    (all_known es vs /\ forall e, In e es -> consistent custom_ok vs e).
  Proof.
    unfold construct. split.
    - intros [g H].
      destruct (bind_all (assign 0 vs) (mkdict vs) es) as [l|x] eqn:E; [|discriminate].
      destruct (forallb (is_valid custom_ok) l) eqn:Ev; [|discriminate].
      pose proof (bind_all_ok _ _ _ E) as HF. rewrite forallb_forall in Ev.
      split.
      + intros e k He Hk. clear E H Ev. induction HF as [|e' b es' bes' [_ [bl [_ Hbl]]] _ IH]; [contradiction|].
        destruct He as [He|He]; [subst e'|exact (IH He)].
        clear IH. induction Hbl as [|k' b' ids bl' Hb' _ IH2]; [contradiction|].
        destruct Hk as [Hk|Hk]; [subst k'; eapply binds_known; eauto|exact (IH2 Hk)].
      + intros e He. clear E H. induction HF as [|e' b es' bes' [Hbe [bl [Hvs Hbl]]] _ IH]; [contradiction|].
        destruct He as [He|He].
        * specialize (Ev b (or_introl eq_refl)). destruct b as [e0 v0]. simpl in *. subst.
          apply (is_valid_iff vs e bl Hbl). exact Ev.
        * apply IH; [|exact He]. intros x Hx. apply Ev. right. exact Hx.
    - intros [Hk Hc]. destruct (bind_all_total vs es Hk) as [l E]. rewrite E.
      pose proof (bind_all_ok _ _ _ E) as HF.
      assert (Hv : forallb (is_valid custom_ok) l = true).
      { clear E Hk. induction HF as [|e b es' bes' [Hbe [bl [Hvs Hbl]]] _ IH]; [reflexivity|].
        simpl. apply andb_true_iff. split.
        - destruct b as [e0 v0]. simpl in *. subst. apply (is_valid_iff vs e bl Hbl). apply Hc. left. reflexivity.
        - apply IH. intros x Hx. apply Hc. right. exact Hx. }
      rewrite Hv. eauto.
  Qed.

  (* the three outcomes are the only ones *)
  Theorem construct_outcomes es vs :
    (exists g, construct custom_ok es vs = Ok g) \/ construct custom_ok es vs = Err KeyError \/
    construct custom_ok es vs = Err AssertionError.
  Proof.
    unfold construct. destruct (bind_all (assign 0 vs) (mkdict vs) es) as [l|x] eqn:E.
    - destruct (forallb (is_valid custom_ok) l); eauto.
    - destruct (bind_all_err _ _ _ E) as [Hx _]. subst. auto.
  Qed.

  (* an edge that is inconsistent while all ids are known is rejected with AssertionError *)
  Theorem construct_inconsistent es vs e :
    all_known es vs -> In e es -> ~ consistent custom_ok vs e -> construct custom_ok es vs = Err AssertionError.
  Proof.
    intros Hk He Hn. destruct (construct_outcomes es vs) as [H|[H|H]]; [| |exact H].
    - exfalso. apply construct_iff in H. destruct H as [_ Hc]. exact (Hn (Hc e He)).
    - exfalso. unfold construct in H. destruct (bind_all_total vs es Hk) as [l E]. rewrite E in H.
      destruct (forallb (is_valid custom_ok) l); discriminate.
  Qed.
End Valid.

(* ------------------------------------------------------------------ independence of the list order *)
Lemma in_split_last (vs : list vertex) v :
  In v vs -> NoDup (map v_id vs) -> exists l1 l2, vs = l1 ++ v :: l2 /\ forall w, In w l2 -> v_id w <> v_id v.
Proof.
  intros Hin Hnd. destruct (in_split _ _ Hin) as [l1 [l2 E]]. exists l1, l2. split; [exact E|].
  subst vs. rewrite map_app in Hnd. simpl in Hnd. apply NoDup_remove_2 in Hnd.
  intros w Hw Heq. apply Hnd. apply in_or_app. right. rewrite <- Heq. apply in_map. exact Hw.
Qed.

Theorem binding_order_independent vs vs' k b :
  NoDup (map v_id vs) -> Permutation vs vs' -> binds vs k b ->
  exists b', binds vs' k b' /\ b_v b' = b_v b.
Proof.
  intros Hnd Hp [l1 [l2 [E [Hk [Hn Hg]]]]].
  assert (Hin : In (b_v b) vs') by (eapply Permutation_in; [exact Hp|subst vs; apply in_or_app; right; left; reflexivity]).
  assert (Hnd' : NoDup (map v_id vs')) by (eapply Permutation_NoDup; [apply Permutation_map; exact Hp|exact Hnd]).
  destruct (in_split_last _ _ Hin Hnd') as [m1 [m2 [E' Hn']]].
  exists (mkbvertex (b_v b) (dims m1)). split; [|reflexivity].
  exists m1, m2. simpl. rewrite Hk in Hn'. auto.
Qed.

(* duplicates: the last one wins (a witness that it is not the first) *)
Example duplicate_ids_last_wins :
  construct (fun _ _ _ => true) [mkedge (Custom 0) [7%Z] [1%nat; 1%nat] OFloat ONone]
            [mkvertex 7 PR2; mkvertex 7 PSE3] =
  Ok ([mkbedge (mkedge (Custom 0) [7%Z] [1%nat; 1%nat] OFloat ONone) (Some [mkbvertex (mkvertex 7 PSE3) 2])],
      [mkbvertex (mkvertex 7 PR2) 0; mkbvertex (mkvertex 7 PSE3) 2]).
Proof. reflexivity. Qed.

(* the hypotheses are satisfiable *)
Example consistent_example :
  consistent (fun _ _ _ => true) [mkvertex 1 PSE2; mkvertex 2 PR2]
             (mkedge Landmark [1%Z; 2%Z] [2%nat; 2%nat] (OPose PR2) (OPose PSE2)).
Proof.
  simpl. exists 1%Z, 2%Z, (mkbvertex (mkvertex 1 PSE2) 0), (mkbvertex (mkvertex 2 PR2) 3), PSE2, PR2.
  repeat split.
  - exists [], [mkvertex 2 PR2]. simpl. repeat split. intros w [H|[]]. subst w. simpl. discriminate.
  - exists [mkvertex 1 PSE2], []. simpl. repeat split. intros w [].
  - left. split; reflexivity.
Qed.
