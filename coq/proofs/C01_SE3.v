(* C01 for SE(3): the analytic Jacobians of the odometry and landmark edges (programs regenerated
   from edge_odometry.py / edge_landmark.py) are the derivative of the edge error with respect to
   the boxplus perturbation of each vertex, at every pose, measurement and offset. *)
From Coq Require Import Reals List Lra ZArith Lia.
From Coquelicot Require Import Coquelicot.
From GS Require Import ExprR LinAlg Jac Meth MethR Prog Chain Spec GenR3 GenSE3 GenEdges
  C10_SE3 C10_SE3_boxplus C10_Rn C09_SE3.
Import ListNotations.
Open Scope R_scope.

(* ---- the perturbed pose  t |-> p [+] (t u)  as an environment of functions ---- *)
Definition bp3 (s u : list R) : list (R -> R) :=
  map (fun i t => nth i (SE3_boxplus_fun s (vscale t u)) 0) (seq 0 7).

Lemma Forall2_map_l {A B C} (P : B -> C -> Prop) (F : A -> B) l w :
  Forall2 (fun i dv => P (F i) dv) l w -> Forall2 P (map F l) w.
Proof. induction 1; simpl; constructor; auto. Qed.

Lemma SE3_boxplus_at_0 s u : length s = 7%nat -> length u = 6%nat -> SE3_boxplus_fun s (vscale 0 u) = s.
Proof.
  intros Hs Hu. rewrite SE3_boxplus_def; auto.
  - list_len s Hs. list_len u Hu. unfold from_compact3, vscale. cbn [map nth app].
    replace (1 - ((0 * x9) ^ 2 + (0 * x10) ^ 2 + (0 * x11) ^ 2)) with 1 by ring. rewrite sqrt_1.
    cbv - [Rplus Rmult Rminus Ropp Rdiv Rinv sqrt IZR pow]. repeat (f_equal; try ring).
  - unfold vscale. rewrite map_length. exact Hu.
  - list_len u Hu. unfold vscale. cbn [map nth]. nra.
Qed.

Lemma bp3_derives s u : length s = 7%nat -> length u = 6%nat ->
  env_derives (bp3 s u) 0 (combine s (matvec (evm s (mat_of SE3_jacobian_boxplus)) u)).
Proof.
  intros Hs Hu. pose proof (SE3_boxplus_jacobian s u Hs Hu) as HJ.
  pose proof (SE3_boxplus_at_0 s u Hs Hu) as H0.
  set (w := matvec (evm s (mat_of SE3_jacobian_boxplus)) u) in *.
  assert (Hw : length w = 7%nat) by (unfold w, matvec; rewrite map_length; reflexivity).
  unfold bp3. list_len s Hs. list_len w Hw. simpl seq in *. simpl map.
  repeat match goal with H : Forall2 _ (_ :: _) _ |- _ => inversion H; subst; clear H end.
  simpl combine.
  repeat (constructor; [split; [cbn [fst]; rewrite H0; reflexivity | cbn [snd]; assumption] | ]).
  constructor.
Qed.
Lemma envR_bp3 s u t : length s = 7%nat -> length u = 6%nat -> envR (bp3 s u) t = SE3_boxplus_fun s (vscale t u).
Proof.
  intros Hs Hu. unfold envR, bp3. rewrite map_map.
  assert (Hl : length (SE3_boxplus_fun s (vscale t u)) = 7%nat).
  { apply SE3_boxplus_len; auto. unfold vscale. rewrite map_length. auto. }
  set (B := SE3_boxplus_fun s (vscale t u)) in *. list_len B Hl. reflexivity.
Qed.

(* ---- what the generated programs compute ---- *)
Definition err_odo3 (p1 p2 z : list R) : list R := run_progR [p1; p2; z; []] odo_SE3_error.
Definition jac_odo3 (p1 p2 z : list R) : list (list (list R)) := run_jprogR [p1; p2; z; []] odo_SE3_jacobians.
Lemma err_odo3_unfold p1 p2 z : length p1 = 7%nat -> length p2 = 7%nat -> length z = 7%nat ->
  err_odo3 p1 p2 z = firstn 6 (evl (z ++ evl (p2 ++ p1) SE3_ominus) SE3_ominus).
Proof.
  intros H1 H2 H3. list_len p1 H1. list_len p2 H2. list_len z H3.
  cbv - [Rplus Rmult Rminus Ropp Rdiv Rinv sqrt IZR pow]. reflexivity.
Qed.
Definition Jbox3 (p : list R) := evm p (mat_of SE3_jacobian_boxplus).
Definition Jom_other (a b : list R) := evm (a ++ b) (mat_of SE3_jacobian_self_ominus_other_wrt_other__SE3).
Definition Jom_self (a b : list R) := evm (a ++ b) (mat_of SE3_jacobian_self_ominus_other_wrt_self__SE3).
Lemma jac_odo3_unfold p1 p2 z : length p1 = 7%nat -> length p2 = 7%nat -> length z = 7%nat ->
  jac_odo3 p1 p2 z =
  [ mmul (mmul (firstn 6 (Jom_other z (evl (p2 ++ p1) SE3_ominus))) (Jom_other p2 p1)) (Jbox3 p1);
    mmul (mmul (firstn 6 (Jom_other z (evl (p2 ++ p1) SE3_ominus))) (Jom_self p2 p1)) (Jbox3 p2) ].
Proof.
  intros H1 H2 H3. list_len p1 H1. list_len p2 H2. list_len z H3.
  cbv - [Rplus Rmult Rminus Ropp Rdiv Rinv sqrt IZR pow]. reflexivity.
Qed.

Lemma ws_evm env (m : list (list expr)) n : List.Forall (fun r => length r = n) m -> well_shaped n (evm env m).
Proof. unfold well_shaped, evm. intros H. induction H; simpl; constructor; auto. rewrite map_length; auto. Qed.

(* ---- odometry edge, first vertex ---- *)
Theorem C01_odo_SE3_v0 p1 p2 z u :
  length p1 = 7%nat -> length p2 = 7%nat -> length z = 7%nat -> length u = 6%nat ->
  forall i, is_derive (fun t => nth i (err_odo3 (SE3_boxplus_fun p1 (vscale t u)) p2 z) 0) 0
                      (nth i (matvec (nth 0 (jac_odo3 p1 p2 z) []) u) 0).
Proof.
  intros H1 H2 H3 Hu i.
  pose proof (bp3_derives p1 u H1 Hu) as D0.
  set (w0 := matvec (Jbox3 p1) u) in *.
  assert (Hw0 : length w0 = 7%nat) by (unfold w0, matvec; rewrite map_length; reflexivity).
  (* stage 1:  p2 (-) X *)
  pose proof (chain_stage (bp3 p1 u) 0 p2 [] p1 w0 SE3_ominus _ 14 7 7 D0 H1 Hw0 H2 ltac:(simpl; lia)
                SE3_ominus_wrt_other_tan (poly_all _ SE3_ominus eq_refl)) as D1.
  rewrite !app_nil_r in D1.
  set (d := evl (p2 ++ p1) SE3_ominus) in *.
  set (w1 := matvec (evm (p2 ++ p1) (mat_of SE3_jacobian_self_ominus_other_wrt_other__SE3)) w0) in *.
  assert (Hd : length d = 7%nat) by reflexivity.
  assert (Hw1 : length w1 = 7%nat) by (unfold w1, matvec; rewrite map_length; reflexivity).
  (* stage 2:  z (-) Y *)
  pose proof (chain_stage _ 0 z [] d w1 SE3_ominus _ 14 7 7 D1 Hd Hw1 H3 ltac:(simpl; lia)
                SE3_ominus_wrt_other_tan (poly_all _ SE3_ominus eq_refl)) as D2.
  rewrite !app_nil_r in D2.
  (* stage 3: to_compact keeps the first six components *)
  apply (env_derives_firstn _ _ _ 6) in D2. rewrite firstn_combine, firstn_matvec in D2.
  pose proof (derives_components _ _ _ _ D2) as D3.
  assert (Hl : length (firstn 6 (evl (z ++ d) SE3_ominus)) = length (matvec (firstn 6 (evm (z ++ d) (mat_of SE3_jacobian_self_ominus_other_wrt_other__SE3))) w1)) by reflexivity.
  specialize (D3 Hl i).
  (* the Jacobian the code computes *)
  rewrite jac_odo3_unfold by auto. cbn [nth].
  rewrite (matvec_mmul _ (Jbox3 p1) u 6) by (try discriminate; apply ws_evm; repeat constructor).
  rewrite (matvec_mmul _ (Jom_other p2 p1) _ 7) by (try discriminate; apply ws_evm; repeat constructor).
  fold w0. unfold Jom_other at 2. fold w1. unfold Jom_other. fold d.
  (* the function the theorem talks about *)
  eapply is_derive_ext; [|exact D3].
  intros t. cbn beta.
  rewrite err_odo3_unfold; auto.
  2:{ apply SE3_boxplus_len; auto. unfold vscale. rewrite map_length. auto. }
  rewrite <- firstn_map_envR.
  repeat rewrite ?envR_stage, ?envR_app, ?envR_cst. rewrite envR_bp3 by auto. reflexivity.
Qed.

(* ---- odometry edge, second vertex ---- *)
Theorem C01_odo_SE3_v1 p1 p2 z u :
  length p1 = 7%nat -> length p2 = 7%nat -> length z = 7%nat -> length u = 6%nat ->
  forall i, is_derive (fun t => nth i (err_odo3 p1 (SE3_boxplus_fun p2 (vscale t u)) z) 0) 0
                      (nth i (matvec (nth 1 (jac_odo3 p1 p2 z) []) u) 0).
Proof.
  intros H1 H2 H3 Hu i.
  pose proof (bp3_derives p2 u H2 Hu) as D0.
  set (w0 := matvec (Jbox3 p2) u) in *.
  assert (Hw0 : length w0 = 7%nat) by (unfold w0, matvec; rewrite map_length; reflexivity).
  (* stage 1:  X (-) p1 *)
  pose proof (chain_stage (bp3 p2 u) 0 [] p1 p2 w0 SE3_ominus _ 14 0 7 D0 H2 Hw0 eq_refl ltac:(simpl; lia)
                SE3_ominus_wrt_self_tan (poly_all _ SE3_ominus eq_refl)) as D1.
  cbn [app] in D1.
  set (d := evl (p2 ++ p1) SE3_ominus) in *.
  set (w1 := matvec (evm (p2 ++ p1) (mat_of SE3_jacobian_self_ominus_other_wrt_self__SE3)) w0) in *.
  assert (Hd : length d = 7%nat) by reflexivity.
  assert (Hw1 : length w1 = 7%nat) by (unfold w1, matvec; rewrite map_length; reflexivity).
  (* stage 2:  z (-) Y *)
  pose proof (chain_stage _ 0 z [] d w1 SE3_ominus _ 14 7 7 D1 Hd Hw1 H3 ltac:(simpl; lia)
                SE3_ominus_wrt_other_tan (poly_all _ SE3_ominus eq_refl)) as D2.
  rewrite !app_nil_r in D2.
  apply (env_derives_firstn _ _ _ 6) in D2. rewrite firstn_combine, firstn_matvec in D2.
  pose proof (derives_components _ _ _ _ D2) as D3.
  assert (Hl : length (firstn 6 (evl (z ++ d) SE3_ominus)) = length (matvec (firstn 6 (evm (z ++ d) (mat_of SE3_jacobian_self_ominus_other_wrt_other__SE3))) w1)) by reflexivity.
  specialize (D3 Hl i).
  rewrite jac_odo3_unfold by auto. cbn [nth].
  rewrite (matvec_mmul _ (Jbox3 p2) u 6) by (try discriminate; apply ws_evm; repeat constructor).
  rewrite (matvec_mmul _ (Jom_self p2 p1) _ 7) by (try discriminate; apply ws_evm; repeat constructor).
  fold w0. unfold Jom_self. fold w1. unfold Jom_other. fold d.
  eapply is_derive_ext; [|exact D3].
  intros t. cbn beta.
  rewrite err_odo3_unfold; auto.
  2:{ apply SE3_boxplus_len; auto. unfold vscale. rewrite map_length. auto. }
  rewrite <- firstn_map_envR.
  repeat rewrite ?envR_stage, ?envR_app, ?envR_cst. rewrite envR_bp3 by auto. reflexivity.
Qed.

(* ---- landmark edge SE(3) -> R^3 with an arbitrary sensor offset ---- *)
Definition err_lmk3 (p l z off : list R) : list R := run_progR [p; l; z; off] lmk_SE3_R3_error.
Definition jac_lmk3 (p l z off : list R) : list (list (list R)) := run_jprogR [p; l; z; off] lmk_SE3_R3_jacobians.
Lemma err_lmk3_unfold p l z off : length p = 7%nat -> length l = 3%nat -> length z = 3%nat -> length off = 7%nat ->
  err_lmk3 p l z off = evl (evl (evl (evl (p ++ off) SE3_oplus) SE3_inv ++ l) SE3_oplus_point ++ z) R3_ominus.
Proof.
  intros H1 H2 H3 H4. list_len p H1. list_len l H2. list_len z H3. list_len off H4.
  cbv - [Rplus Rmult Rminus Ropp Rdiv Rinv sqrt IZR pow]. reflexivity.
Qed.
Definition Jop_self (a b : list R) := evm (a ++ b) (mat_of SE3_jacobian_self_oplus_other_wrt_self__SE3).
Definition Jinv3 (a : list R) := evm a (mat_of SE3_jacobian_inverse).
Definition Jpt_self (a x : list R) := evm (a ++ x) (mat_of SE3_jacobian_self_oplus_point_wrt_self__R3).
Definition Jpt_point (a x : list R) := evm (a ++ x) (mat_of SE3_jacobian_self_oplus_point_wrt_point__R3).
Definition JboxR3 (l : list R) := evm l (mat_of R3_jacobian_boxplus).
Lemma jac_lmk3_unfold p l z off : length p = 7%nat -> length l = 3%nat -> length z = 3%nat -> length off = 7%nat ->
  jac_lmk3 p l z off =
  let q := evl (p ++ off) SE3_oplus in
  let qi := evl q SE3_inv in
  [ mmul (mmul (mmul (Jpt_self qi l) (Jinv3 q)) (Jop_self p off)) (Jbox3 p);
    mmul (Jpt_point qi l) (JboxR3 l) ].
Proof.
  intros H1 H2 H3 H4. list_len p H1. list_len l H2. list_len z H3. list_len off H4.
  cbv - [Rplus Rmult Rminus Ropp Rdiv Rinv sqrt IZR pow]. reflexivity.
Qed.
Lemma matvec_eye3 env w : length w = 3%nat ->
  matvec (evm env (mat_of R3_jacobian_self_ominus_other_wrt_self__R3)) w = w.
Proof. intros Hw. list_len w Hw. cbv - [Rplus Rmult Rminus Ropp Rdiv Rinv sqrt IZR pow]. repeat (f_equal; try ring). Qed.

Theorem C01_lmk_SE3_v0 p l z off u :
  length p = 7%nat -> length l = 3%nat -> length z = 3%nat -> length off = 7%nat -> length u = 6%nat ->
  forall i, is_derive (fun t => nth i (err_lmk3 (SE3_boxplus_fun p (vscale t u)) l z off) 0) 0
                      (nth i (matvec (nth 0 (jac_lmk3 p l z off) []) u) 0).
Proof.
  intros H1 H2 H3 H4 Hu i.
  pose proof (bp3_derives p u H1 Hu) as D0.
  set (w0 := matvec (Jbox3 p) u) in *.
  assert (Hw0 : length w0 = 7%nat) by (unfold w0, matvec; rewrite map_length; reflexivity).
  (* q(t) = X (+) off *)
  pose proof (chain_stage (bp3 p u) 0 [] off p w0 SE3_oplus _ 14 0 7 D0 H1 Hw0 eq_refl ltac:(simpl; lia)
                SE3_oplus_wrt_self_tan (poly_all _ SE3_oplus eq_refl)) as D1.
  cbn [app] in D1.
  set (q := evl (p ++ off) SE3_oplus) in *.
  set (w1 := matvec (evm (p ++ off) (mat_of SE3_jacobian_self_oplus_other_wrt_self__SE3)) w0) in *.
  assert (Hq : length q = 7%nat) by reflexivity.
  assert (Hw1 : length w1 = 7%nat) by (unfold w1, matvec; rewrite map_length; reflexivity).
  (* inverse *)
  pose proof (chain_stage _ 0 [] [] q w1 SE3_inv _ 7 0 7 D1 Hq Hw1 eq_refl ltac:(simpl; lia)
                SE3_inverse_jac_tan (poly_all _ SE3_inv eq_refl)) as D2.
  cbn [app] in D2. rewrite !app_nil_r in D2.
  set (qi := evl q SE3_inv) in *.
  set (w2 := matvec (evm q (mat_of SE3_jacobian_inverse)) w1) in *.
  assert (Hqi : length qi = 7%nat) by reflexivity.
  assert (Hw2 : length w2 = 7%nat) by (unfold w2, matvec; rewrite map_length; reflexivity).
  (* (.) (+) landmark point *)
  pose proof (chain_stage _ 0 [] l qi w2 SE3_oplus_point _ 10 0 7 D2 Hqi Hw2 eq_refl ltac:(simpl; lia)
                SE3_point_wrt_self_tan (poly_all _ SE3_oplus_point eq_refl)) as D3.
  cbn [app] in D3.
  set (x := evl (qi ++ l) SE3_oplus_point) in *.
  set (w3 := matvec (evm (qi ++ l) (mat_of SE3_jacobian_self_oplus_point_wrt_self__R3)) w2) in *.
  assert (Hx : length x = 3%nat) by reflexivity.
  assert (Hw3 : length w3 = 3%nat) by (unfold w3, matvec; rewrite map_length; reflexivity).
  (* (.) - measurement *)
  pose proof (chain_stage _ 0 [] z x w3 R3_ominus _ 6 0 3 D3 Hx Hw3 eq_refl ltac:(simpl; lia)
                R3_ominus_wrt_self_tan (poly_all _ R3_ominus eq_refl)) as D4.
  cbn [app] in D4. rewrite matvec_eye3 in D4 by auto.
  pose proof (derives_components _ _ _ _ D4) as D5.
  assert (Hl : length (evl (x ++ z) R3_ominus) = length w3) by (rewrite Hw3; reflexivity).
  specialize (D5 Hl i).
  rewrite jac_lmk3_unfold by auto. cbv zeta. cbn [nth]. fold q. fold qi.
  rewrite (matvec_mmul _ (Jbox3 p) u 6) by (try discriminate; apply ws_evm; repeat constructor).
  rewrite (matvec_mmul _ (Jop_self p off) _ 7) by (try discriminate; apply ws_evm; repeat constructor).
  rewrite (matvec_mmul _ (Jinv3 q) _ 7) by (try discriminate; apply ws_evm; repeat constructor).
  fold w0. unfold Jop_self. fold w1. unfold Jinv3. fold w2. unfold Jpt_self. fold w3.
  eapply is_derive_ext; [|exact D5].
  intros t. cbn beta.
  rewrite err_lmk3_unfold; auto.
  2:{ apply SE3_boxplus_len; auto. unfold vscale. rewrite map_length. auto. }
  repeat rewrite ?envR_stage, ?envR_app, ?envR_cst. rewrite envR_bp3 by auto. rewrite ?app_nil_r. reflexivity.
Qed.

(* the landmark vertex: R^3 boxplus is  l + d  (no branch) *)
Definition incr (u : list R) : list (R -> R) := map (fun c (t : R) => t * c) u.
Lemma incr_derives u : env_derives (incr u) 0 (combine (zeros (length u)) u).
Proof.
  induction u as [|c u IH]; simpl; constructor; auto. split; simpl; [ring|].
  assert (H : is_derive (fun t : R => t * c) 0 (1 * c + 0 * 0)).
  { apply (Derive.is_derive_mult (fun t => t) (fun _ => c) 0 1 0).
    - apply (is_derive_id (K:=R_AbsRing)).
    - apply (is_derive_const (K:=R_AbsRing) (V:=R_NormedModule)). }
  replace (1 * c + 0 * 0) with c in H by ring. exact H.
Qed.
Lemma envR_incr u t : envR (incr u) t = vscale t u.
Proof. unfold envR, incr, vscale. rewrite map_map. reflexivity. Qed.
Definition R3_boxplus_fun (l d : list R) : list R := evl (l ++ d) R3_boxplus.

Theorem C01_lmk_SE3_v1 p l z off u :
  length p = 7%nat -> length l = 3%nat -> length z = 3%nat -> length off = 7%nat -> length u = 3%nat ->
  forall i, is_derive (fun t => nth i (err_lmk3 p (R3_boxplus_fun l (vscale t u)) z off) 0) 0
                      (nth i (matvec (nth 1 (jac_lmk3 p l z off) []) u) 0).
Proof.
  intros H1 H2 H3 H4 Hu i.
  pose proof (incr_derives u) as D0. rewrite Hu in D0.
  assert (Hz3 : length (zeros 3) = 3%nat) by reflexivity.
  (* the perturbed landmark  l [+] (t u) *)
  pose proof (chain_stage (incr u) 0 l [] (zeros 3) u R3_boxplus _ 6 3 3 D0 Hz3 Hu H2 ltac:(simpl; lia)
                R3_boxplus_tan (poly_all _ R3_boxplus eq_refl)) as D1.
  rewrite !app_nil_r in D1.
  assert (El : evl (l ++ zeros 3) R3_boxplus = l).
  { list_len l H2. cbv - [Rplus Rmult Rminus Ropp Rdiv Rinv sqrt IZR pow]. repeat (f_equal; try ring). }
  assert (EJ : evm (l ++ zeros 3) (mat_of R3_jacobian_boxplus) = JboxR3 l) by (list_len l H2; reflexivity).
  rewrite El, EJ in D1.
  set (w0 := matvec (JboxR3 l) u) in *.
  assert (Hw0 : length w0 = 3%nat) by (unfold w0, matvec; rewrite map_length; reflexivity).
  set (q := evl (p ++ off) SE3_oplus). set (qi := evl q SE3_inv).
  assert (Hqi : length qi = 7%nat) by reflexivity.
  (* qi (+) X *)
  pose proof (chain_stage _ 0 qi [] l w0 SE3_oplus_point _ 10 7 3 D1 H2 Hw0 Hqi ltac:(simpl; lia)
                SE3_point_wrt_point_tan (poly_all _ SE3_oplus_point eq_refl)) as D2.
  rewrite !app_nil_r in D2.
  set (x := evl (qi ++ l) SE3_oplus_point) in *.
  set (w1 := matvec (evm (qi ++ l) (mat_of SE3_jacobian_self_oplus_point_wrt_point__R3)) w0) in *.
  assert (Hx : length x = 3%nat) by reflexivity.
  assert (Hw1 : length w1 = 3%nat) by (unfold w1, matvec; rewrite map_length; reflexivity).
  pose proof (chain_stage _ 0 [] z x w1 R3_ominus _ 6 0 3 D2 Hx Hw1 eq_refl ltac:(simpl; lia)
                R3_ominus_wrt_self_tan (poly_all _ R3_ominus eq_refl)) as D3.
  cbn [app] in D3. rewrite matvec_eye3 in D3 by auto.
  pose proof (derives_components _ _ _ _ D3) as D4.
  assert (Hl : length (evl (x ++ z) R3_ominus) = length w1) by (rewrite Hw1; reflexivity).
  specialize (D4 Hl i).
  rewrite jac_lmk3_unfold by auto. cbv zeta. cbn [nth]. fold q. fold qi.
  rewrite (matvec_mmul _ (JboxR3 l) u 3) by (try discriminate; apply ws_evm; repeat constructor).
  fold w0. unfold Jpt_point. fold w1.
  eapply is_derive_ext; [|exact D4].
  intros t. cbn beta.
  rewrite err_lmk3_unfold; auto.
  repeat rewrite ?envR_stage, ?envR_app, ?envR_cst. rewrite envR_incr. rewrite ?app_nil_r. reflexivity.
Qed.
