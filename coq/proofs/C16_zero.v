(* C16_zero.v — a state in which every edge error is the zero vector has a zero right-hand side and a zero
   chi2 in the Gauss-Newton system of lib/GNSpec.v WHATEVER Jacobians the edges carry (numerically
   differentiated or analytic): both kinds of run share this fixed point; with an injective H the only
   solution of the normal equations is dx = 0. *)
From Coq Require Import Reals List Arith Bool Lia Lra.
From GS Require Import GraphModel GNSpec C03_sums.
Import ListNotations.
Open Scope R_scope.

Definition zero_error (e : Redge) : Prop := forall i, snd (e_err R e) i = 0.

Lemma gblock_zero e s j : zero_error e -> snd (gblock e s) j = 0.
Proof.
  intros Hz. unfold gblock, vdotm. cbn [snd fst]. apply sumn_zero. intros k _.
  rewrite (sumn_zero (fst (e_err R e))); [ring|]. intros k' _. rewrite Hz. ring.
Qed.

Lemma sumlist_zero {A} (l : list A) f : (forall x, In x l -> f x = 0) -> sumlist l f = 0.
Proof.
  induction l as [|a l IH]; intros H; [reflexivity|]. rewrite sumlist_cons.
  rewrite H by (left; reflexivity). rewrite IH; [ring|]. intros x Hx. apply H. right. exact Hx.
Qed.

Theorem spec_b_zero vs es : (forall e, In e es -> zero_error e) -> forall r, spec_b vs es r = 0.
Proof.
  intros Hz r. unfold spec_b. destruct (locate vs r) as [[k i]|]; [|reflexivity].
  destruct (fixed_at vs k); [reflexivity|].
  apply sumlist_zero. intros e He. apply sumn_zero. intros s _. rewrite gblock_zero by auto. ring.
Qed.

Theorem spec_chi2_zero es : (forall e, In e es -> zero_error e) -> spec_chi2 es = 0.
Proof.
  intros Hz. unfold spec_chi2. apply sumlist_zero. intros e He.
  unfold edge_chi2, vdotv, vdotm. cbn [fst snd]. apply sumn_zero. intros k _. rewrite (Hz e He). ring.
Qed.

(* with an injective system matrix the zero increment is the only solution: the state is a fixed point *)
Theorem zero_residual_fixed_point vs es dx :
  (forall e, In e es -> zero_error e) ->
  (forall x, (forall r, (r < glen vs)%nat -> sumnR (glen vs) (fun c => spec_H vs es r c * x c) = 0) ->
             forall c, (c < glen vs)%nat -> x c = 0) ->
  solves (glen vs) (spec_H vs es) (spec_b vs es) dx ->
  forall c, (c < glen vs)%nat -> dx c = 0.
Proof.
  intros Hz Hinj Hs. apply Hinj. intros r Hr. rewrite (Hs r Hr). rewrite spec_b_zero by auto. ring.
Qed.

(* the hypotheses are satisfiable: one free 1-dimensional vertex, one unary edge with zero error,
   Jacobian [3] (any value), Omega = [1]: H = [9], injective *)
Definition zr_vs : list vertex := [mkvertex 1 false].
Definition zr_e : Redge := mkedge R [0%nat] (1%nat, fun _ => 0) (mkmat R 1 1 (fun _ _ => 1)) [mkmat R 1 1 (fun _ _ => 3)].
Example zero_residual_hypotheses_satisfiable :
  (forall e, In e [zr_e] -> zero_error e) /\
  (forall x, (forall r, (r < glen zr_vs)%nat -> sumnR (glen zr_vs) (fun c => spec_H zr_vs [zr_e] r c * x c) = 0) ->
             forall c, (c < glen zr_vs)%nat -> x c = 0).
Proof.
  split.
  - intros e [<-|[]] i. reflexivity.
  - intros x H c Hc. change (glen zr_vs) with 1%nat in *. assert (c = 0%nat) by lia. subst c.
    specialize (H 0%nat Hc). cbv in H. lra.
Qed.
