(* C03_fill.v — the dense fill: slice writes hit exactly one block; replaying a dictionary with
   well-shaped, distinct, normalised keys yields the looked-up values; fill_fixed. *)
From Coq Require Import Reals List Arith Bool Lia Lra.
From GS Require Import GraphModel GNSpec C03_sums C03_index C03_dict C03_accumulate.
Import ListNotations.
Open Scope R_scope.

Notation gwriteR := (gwrite R Rplus).
Notation hwriteR := (hwrite R).
Notation meyeR := (meye R 0 1).

(* ================= gradient ================= *)
Definition gfstep (vs : list vertex) (g : nat -> R) (kv : nat * Rvec) : nat -> R :=
  if fixed_index vs (fst kv) then g else gwriteR g (fst kv) (snd kv).

Lemma fill_gradient_fold : forall vs d r, fill_gradient R 0 Rplus vs d r = fold_left (gfstep vs) d (fun _ => 0) r.
Proof. intros. reflexivity. Qed.

Lemma gfill_gen : forall vs d g0 k i, allpos vs -> Forall (Ggood vs) d ->
  (k < length vs)%nat -> (i < dim_at vs k)%nat ->
  fold_left (gfstep vs) d g0 (gi vs k + i)%nat
  = if fixed_at vs k then g0 (gi vs k + i)%nat else g0 (gi vs k + i)%nat + gsum d (gi vs k) i.
Proof.
  intros vs d. induction d as [|[key v] d IH]; intros g0 k i Hpos Hd Hk Hi.
  - simpl. destruct (fixed_at vs k); ring.
  - inversion Hd as [|x l Hx Hl]; subst. cbn [fold_left]. rewrite IH by assumption.
    destruct Hx as [p [Hp [Ekey Ev]]]. cbn [fst snd] in Ekey, Ev. subst key.
    unfold gfstep. cbn [fst snd gsum]. rewrite fixed_index_gi by assumption.
    rewrite gi_eqb by (assumption || lia).
    destruct (fixed_at vs p) eqn:Fp.
    + destruct (Nat.eqb_spec p k) as [E|E].
      * subst p. rewrite Fp. reflexivity.
      * destruct (fixed_at vs k); ring.
    + unfold gwrite. rewrite Ev. rewrite in_range_block by assumption.
      destruct (Nat.eqb_spec p k) as [E|E].
      * subst p. rewrite Fp. replace (gi vs k + i - gi vs k)%nat with i by lia. ring.
      * destruct (fixed_at vs k); ring.
Qed.

(* ================= Hessian: one slice write ================= *)
Lemma hwrite_block : forall vs h p q m k l i j, allpos vs ->
  (p < length vs)%nat -> (q < length vs)%nat -> (k < length vs)%nat -> (l < length vs)%nat ->
  (i < dim_at vs k)%nat -> (j < dim_at vs l)%nat ->
  rows R m = dim_at vs p -> cols R m = dim_at vs q ->
  hwriteR h (gi vs p) (gi vs q) m (gi vs k + i)%nat (gi vs l + j)%nat
  = if andb (Nat.eqb p k) (Nat.eqb q l) then ent R m i j else h (gi vs k + i)%nat (gi vs l + j)%nat.
Proof.
  intros vs h p q m k l i j Hpos Hp Hq Hk Hl Hi Hj Hr Hc.
  unfold hwrite. rewrite Hr, Hc, !in_range_block by assumption.
  destruct (Nat.eqb_spec p k) as [E1|E1]; destruct (Nat.eqb_spec q l) as [E2|E2]; cbn [andb]; try reflexivity.
  subst. replace (gi vs k + i - gi vs k)%nat with i by lia. replace (gi vs l + j - gi vs l)%nat with j by lia.
  reflexivity.
Qed.

Definition hfstep (vs : list vertex) (h : nat -> nat -> R) (km : hkey * Rmat) : nat -> nat -> R :=
  let '((r0, c0), m) := km in
  if orb (fixed_index vs r0) (fixed_index vs c0)
  then (if Nat.eqb r0 c0 then hwriteR h r0 c0 (meyeR (rows R m) (cols R m)) else h)
  else let h1 := hwriteR h r0 c0 m in
       if Nat.eqb r0 c0 then h1 else hwriteR h1 c0 r0 (mtrR m).

Lemma fill_hessian_fold : forall vs d r c,
  fill_hessian_dict R 0 1 vs d r c = fold_left (hfstep vs) d (fun _ _ => 0) r c.
Proof. intros. reflexivity. Qed.

Section Step.
Variable vs : list vertex.
Hypothesis Hpos : allpos vs.
Variables (p q k l i j : nat) (m : Rmat) (h : nat -> nat -> R).
Hypothesis Hp : (p < length vs)%nat.
Hypothesis Hq : (q < length vs)%nat.
Hypothesis Hk : (k < length vs)%nat.
Hypothesis Hl : (l < length vs)%nat.
Hypothesis Hi : (i < dim_at vs k)%nat.
Hypothesis Hj : (j < dim_at vs l)%nat.
Hypothesis Hr : rows R m = dim_at vs p.
Hypothesis Hc : cols R m = dim_at vs q.

(* the general shape of one replay step on the point (gi k + i, gi l + j) *)
Lemma hfstep_block :
  hfstep vs h ((gi vs p, gi vs q), m) (gi vs k + i)%nat (gi vs l + j)%nat
  = if orb (fixed_at vs p) (fixed_at vs q)
    then (if andb (Nat.eqb p q) (andb (Nat.eqb p k) (Nat.eqb q l)) then ind (Nat.eqb i j) else h (gi vs k + i)%nat (gi vs l + j)%nat)
    else if andb (Nat.eqb p q) (andb (Nat.eqb p k) (Nat.eqb q l)) then ent R m i j
    else if Nat.eqb p q then h (gi vs k + i)%nat (gi vs l + j)%nat
    else if andb (Nat.eqb q k) (Nat.eqb p l) then ent R m j i
    else if andb (Nat.eqb p k) (Nat.eqb q l) then ent R m i j
    else h (gi vs k + i)%nat (gi vs l + j)%nat.
Proof.
  unfold hfstep. rewrite !fixed_index_gi by assumption. rewrite gi_eqb by (assumption || lia).
  destruct (orb (fixed_at vs p) (fixed_at vs q)).
  - destruct (Nat.eqb_spec p q) as [E|E]; cbn [andb]; [|reflexivity].
    rewrite (hwrite_block vs h p q) by (assumption || reflexivity || (cbn [meye rows cols]; assumption)).
    destruct (andb (Nat.eqb p k) (Nat.eqb q l)); [|reflexivity].
    cbn [meye ent]. unfold ind. reflexivity.
  - destruct (Nat.eqb_spec p q) as [E|E]; cbn [andb].
    + rewrite (hwrite_block vs h p q) by assumption.
      destruct (andb (Nat.eqb p k) (Nat.eqb q l)); reflexivity.
    + rewrite (hwrite_block vs _ q p) by (assumption || (cbn [mtr rows cols]; assumption)).
      rewrite (hwrite_block vs h p q) by assumption.
      destruct (andb (Nat.eqb q k) (Nat.eqb p l)); reflexivity.
Qed.
End Step.

(* ================= Hessian: replaying the dictionary ================= *)
Lemma hlook_notmem : forall d key a b, hmem d key = false -> hlook d key a b = 0.
Proof.
  induction d as [|[k0 m0] d IH]; intros key a b H.
  - reflexivity.
  - simpl in *. destruct (key_eqb k0 key); [discriminate H|]. apply IH. exact H.
Qed.

Lemma gikey_eqb : forall vs p q k l, allpos vs ->
  (p < length vs)%nat -> (q < length vs)%nat -> (k < length vs)%nat -> (l < length vs)%nat ->
  key_eqb (gi vs p, gi vs q) (gi vs k, gi vs l) = andb (Nat.eqb p k) (Nat.eqb q l).
Proof.
  intros vs p q k l Hpos Hp Hq Hk Hl. unfold key_eqb. cbn [fst snd].
  rewrite !gi_eqb by (assumption || lia). reflexivity.
Qed.

(* brute-force case analysis on position equalities and fixed flags *)
Ltac crunch :=
  repeat (match goal with
          | |- context [Nat.eqb ?a ?b] => destruct (Nat.eqb_spec a b); try subst
          end; cbn [andb orb]; try (exfalso; lia));
  repeat (match goal with
          | |- context [fixed_at ?vs ?a] => let F := fresh "F" in destruct (fixed_at vs a) eqn:F
          end; cbn [andb orb] in * );
  try reflexivity; try congruence; try discriminate.

(* both vertices free, k <= l: the point (gi k + i, gi l + j) of the upper block *)
Lemma hfill_upper : forall vs d h0 k l i j, allpos vs -> Forall (Hgood vs) d -> hnodup d ->
  (k <= l)%nat -> (l < length vs)%nat -> (i < dim_at vs k)%nat -> (j < dim_at vs l)%nat ->
  fixed_at vs k = false -> fixed_at vs l = false ->
  fold_left (hfstep vs) d h0 (gi vs k + i)%nat (gi vs l + j)%nat
  = if hmem d (gi vs k, gi vs l) then hlook d (gi vs k, gi vs l) i j else h0 (gi vs k + i)%nat (gi vs l + j)%nat.
Proof.
  intros vs d. induction d as [|[key m] d IH]; intros h0 k l i j Hpos Hd Hnd Hkl Hl Hi Hj Fk Fl.
  - reflexivity.
  - inversion Hd as [|x y Hx Hy]; subst. destruct Hnd as [Hnm Hnd].
    cbn [fold_left]. rewrite IH by assumption.
    destruct Hx as [p [q [Hpq [Hq [Ekey [Hr Hc]]]]]]. cbn [fst snd] in Ekey, Hr, Hc. subst key.
    cbn [hmem hlook]. rewrite gikey_eqb by (assumption || lia).
    rewrite (hfstep_block vs Hpos p q k l i j m h0) by (assumption || lia).
    destruct (Nat.eqb_spec p k) as [E1|E1]; destruct (Nat.eqb_spec q l) as [E2|E2]; cbn [andb].
    + subst p q. rewrite Hnm. crunch.
    + destruct (hmem d (gi vs k, gi vs l)); [reflexivity|]. crunch.
    + destruct (hmem d (gi vs k, gi vs l)); [reflexivity|]. crunch.
    + destruct (hmem d (gi vs k, gi vs l)); [reflexivity|]. crunch.
Qed.

(* both vertices free, k < l: the point (gi l + j, gi k + i) of the mirrored (lower) block *)
Lemma hfill_lower : forall vs d h0 k l i j, allpos vs -> Forall (Hgood vs) d -> hnodup d ->
  (k < l)%nat -> (l < length vs)%nat -> (i < dim_at vs k)%nat -> (j < dim_at vs l)%nat ->
  fixed_at vs k = false -> fixed_at vs l = false ->
  fold_left (hfstep vs) d h0 (gi vs l + j)%nat (gi vs k + i)%nat
  = if hmem d (gi vs k, gi vs l) then hlook d (gi vs k, gi vs l) i j else h0 (gi vs l + j)%nat (gi vs k + i)%nat.
Proof.
  intros vs d. induction d as [|[key m] d IH]; intros h0 k l i j Hpos Hd Hnd Hkl Hl Hi Hj Fk Fl.
  - reflexivity.
  - inversion Hd as [|x y Hx Hy]; subst. destruct Hnd as [Hnm Hnd].
    cbn [fold_left]. rewrite IH by assumption.
    destruct Hx as [p [q [Hpq [Hq [Ekey [Hr Hc]]]]]]. cbn [fst snd] in Ekey, Hr, Hc. subst key.
    cbn [hmem hlook]. rewrite gikey_eqb by (assumption || lia).
    rewrite (hfstep_block vs Hpos p q l k j i m h0) by (assumption || lia).
    destruct (Nat.eqb_spec p k) as [E1|E1]; destruct (Nat.eqb_spec q l) as [E2|E2]; cbn [andb].
    + subst p q. rewrite Hnm. crunch.
    + destruct (hmem d (gi vs k, gi vs l)); [reflexivity|]. crunch.
    + destruct (hmem d (gi vs k, gi vs l)); [reflexivity|]. crunch.
    + destruct (hmem d (gi vs k, gi vs l)); [reflexivity|]. crunch.
Qed.

(* off-diagonal block with a fixed vertex: never written *)
Lemma hfill_fixed_off : forall vs d h0 k l i j, allpos vs -> Forall (Hgood vs) d ->
  k <> l -> (k < length vs)%nat -> (l < length vs)%nat -> (i < dim_at vs k)%nat -> (j < dim_at vs l)%nat ->
  orb (fixed_at vs k) (fixed_at vs l) = true ->
  fold_left (hfstep vs) d h0 (gi vs k + i)%nat (gi vs l + j)%nat = h0 (gi vs k + i)%nat (gi vs l + j)%nat.
Proof.
  intros vs d. induction d as [|[key m] d IH]; intros h0 k l i j Hpos Hd Hkl Hk Hl Hi Hj F.
  - reflexivity.
  - inversion Hd as [|x y Hx Hy]; subst.
    cbn [fold_left]. rewrite IH by assumption.
    destruct Hx as [p [q [Hpq [Hq [Ekey [Hr Hc]]]]]]. cbn [fst snd] in Ekey, Hr, Hc. subst key.
    rewrite (hfstep_block vs Hpos p q k l i j m h0) by (assumption || lia).
    destruct (fixed_at vs k) eqn:Fk; destruct (fixed_at vs l) eqn:Fl; try discriminate F; crunch.
Qed.

(* ================= fill_fixed ================= *)
Definition ffstep (vs : list vertex) (h : nat -> nat -> R) (k : nat) : nat -> nat -> R :=
  if fixed_index vs (gi vs k) then hwriteR h (gi vs k) (gi vs k) (meyeR (dim_at vs k) (dim_at vs k)) else h.

Lemma fill_fixed_fold : forall vs h r c,
  fill_fixed R 0 1 vs h r c = fold_left (ffstep vs) (seq 0 (length vs)) h r c.
Proof. intros. reflexivity. Qed.

Lemma ffstep_block : forall vs h k' k l i j, allpos vs ->
  (k' < length vs)%nat -> (k < length vs)%nat -> (l < length vs)%nat -> (i < dim_at vs k)%nat -> (j < dim_at vs l)%nat ->
  ffstep vs h k' (gi vs k + i)%nat (gi vs l + j)%nat
  = if andb (fixed_at vs k') (andb (Nat.eqb k' k) (Nat.eqb k' l)) then ind (Nat.eqb i j) else h (gi vs k + i)%nat (gi vs l + j)%nat.
Proof.
  intros vs h k' k l i j Hpos Hk' Hk Hl Hi Hj. unfold ffstep. rewrite fixed_index_gi by assumption.
  destruct (fixed_at vs k'); cbn [andb]; [|reflexivity].
  rewrite (hwrite_block vs h k' k') by (assumption || reflexivity).
  destruct (andb (Nat.eqb k' k) (Nat.eqb k' l)); reflexivity.
Qed.

Lemma ffill_gen : forall vs ks h k l i j, allpos vs -> (forall x, In x ks -> (x < length vs)%nat) ->
  (k < length vs)%nat -> (l < length vs)%nat -> (i < dim_at vs k)%nat -> (j < dim_at vs l)%nat ->
  fold_left (ffstep vs) ks h (gi vs k + i)%nat (gi vs l + j)%nat
  = if andb (Nat.eqb k l) (andb (fixed_at vs k) (existsb (Nat.eqb k) ks)) then ind (Nat.eqb i j)
    else h (gi vs k + i)%nat (gi vs l + j)%nat.
Proof.
  intros vs ks. induction ks as [|k' ks IH]; intros h k l i j Hpos Hks Hk Hl Hi Hj.
  - cbn [fold_left existsb]. rewrite !andb_false_r. reflexivity.
  - cbn [fold_left existsb]. rewrite IH; try assumption; [|intros x Hx; apply Hks; right; exact Hx].
    rewrite ffstep_block; try assumption; [|apply Hks; left; reflexivity].
    destruct (Nat.eqb_spec k l) as [E|E]; cbn [andb].
    + subst l. destruct (Nat.eqb_spec k k') as [E'|E'].
      * subst k'. rewrite Nat.eqb_refl. cbn [andb orb]. destruct (fixed_at vs k); cbn [andb]; [|reflexivity].
        destruct (existsb (Nat.eqb k) ks); reflexivity.
      * destruct (Nat.eqb_spec k' k) as [E''|E'']; [congruence|]. cbn [andb orb]. rewrite andb_false_r. reflexivity.
    + destruct (Nat.eqb_spec k' k) as [E1|E1]; destruct (Nat.eqb_spec k' l) as [E2|E2]; cbn [andb];
        try (exfalso; congruence); rewrite ?andb_false_r; reflexivity.
Qed.

Lemma existsb_seq_self : forall n k, (k < n)%nat -> existsb (Nat.eqb k) (seq 0 n) = true.
Proof.
  intros n k H. apply existsb_exists. exists k. split; [apply in_seq; lia|apply Nat.eqb_refl].
Qed.

Lemma fill_fixed_block : forall vs h k l i j, allpos vs ->
  (k < length vs)%nat -> (l < length vs)%nat -> (i < dim_at vs k)%nat -> (j < dim_at vs l)%nat ->
  fill_fixed R 0 1 vs h (gi vs k + i)%nat (gi vs l + j)%nat
  = if andb (Nat.eqb k l) (fixed_at vs k) then ind (Nat.eqb i j) else h (gi vs k + i)%nat (gi vs l + j)%nat.
Proof.
  intros vs h k l i j Hpos Hk Hl Hi Hj. rewrite fill_fixed_fold.
  rewrite ffill_gen; try assumption.
  - rewrite existsb_seq_self by assumption. rewrite andb_true_r. reflexivity.
  - intros x Hx. apply in_seq in Hx. lia.
Qed.
