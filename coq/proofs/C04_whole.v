(* C04_whole.v — C04 for WHOLE R^n graphs built from the regenerated edge programs.

   A graph over one point per vertex position ([poses]: 2 or 3 numbers) with R^2 / R^3 odometry and landmark edges that look their vertices up.
   Moving the state by the flat increment dx (every vertex k by its slice, through the code's boxplus) turns the GraphModel record of every edge
   into -- entry by entry inside the bounds -- the [shift_edge] of lib/LinearSpec.v: the error becomes e + sum_s J_s dx_s, information and
   Jacobians stay (C04_affine_edges).  Hence, with the congruence of the normal equations (C07_ext.v) and the abstract theory (C04_linear.v):
   from ANY start, ANY solution dx of the normal equations leads to a state whose assembled gradient is zero, and the Hessian there is the same. *)
From Coq Require Import Reals List Arith Bool Lra ZArith Lia.
From Coquelicot Require Import Coquelicot.
From GS Require Import ExprR LinAlg Meth MethR Prog Chain Wrap Spec GenR2 GenR3 GenSE2 GenSE3 GenEdges
  C10_SE3 C10_SE3_boxplus C10_SE2 C10_Rn C09_SE3 C09_SE2 C11_main C01_SE3 C01_Rn C01_SE2 C02_model C07_errors C07_equiv C07_RnJac
  GraphModel GNSpec LinearSpec C03_sums C03_index C03_accumulate C04_affine C04_linear C07_basis C07_glue C07_ext C07_whole C07_wholeRn C05_grad.
Import ListNotations.
Open Scope R_scope.

Inductive gedgeR : Type :=
| GOdoR2 (ka kb : nat) (Om : list (list R)) (z : list R)
| GOdoR3 (ka kb : nat) (Om : list (list R)) (z : list R)
| GLmkR2 (kp kl : nat) (Om : list (list R)) (z off : list R)
| GLmkR3 (kp kl : nat) (Om : list (list R)) (z off : list R).
Definition descrR (poses : list (list R)) (g : gedgeR) : edescR :=
  match g with
  | GOdoR2 ka kb Om z => OdoR2 ka kb Om (nth ka poses []) (nth kb poses []) z
  | GOdoR3 ka kb Om z => OdoR3 ka kb Om (nth ka poses []) (nth kb poses []) z
  | GLmkR2 kp kl Om z off => LmkR2 kp kl Om (nth kp poses []) (nth kl poses []) z off
  | GLmkR3 kp kl Om z off => LmkR3 kp kl Om (nth kp poses []) (nth kl poses []) z off
  end.
Definition slotsR (g : gedgeR) : nat * nat :=
  match g with GOdoR2 a b _ _ | GOdoR3 a b _ _ | GLmkR2 a b _ _ _ | GLmkR3 a b _ _ _ => (a, b) end.
Definition dimR (g : gedgeR) : nat := match g with GOdoR2 _ _ _ _ | GLmkR2 _ _ _ _ _ => 2%nat | _ => 3%nat end.
Definition omR (g : gedgeR) : list (list R) := match g with GOdoR2 _ _ Om _ | GOdoR3 _ _ Om _ | GLmkR2 _ _ Om _ _ | GLmkR3 _ _ Om _ _ => Om end.
Definition zoffR (g : gedgeR) : Prop :=
  match g with
  | GOdoR2 _ _ _ z => length z = 2%nat | GOdoR3 _ _ _ z => length z = 3%nat
  | GLmkR2 _ _ _ z off => length z = 2%nat /\ length off = 2%nat | GLmkR3 _ _ _ z off => length z = 3%nat /\ length off = 3%nat
  end.
Definition okgR (vs : list vertex) (poses : list (list R)) (g : gedgeR) : Prop :=
  let '(a, b) := slotsR g in
  (a < length vs)%nat /\ (b < length vs)%nat /\ a <> b /\ dim_at vs a = dimR g /\ dim_at vs b = dimR g /\
  length (nth a poses []) = dimR g /\ length (nth b poses []) = dimR g /\ zoffR g /\ squareL (dimR g) (omR g) /\ symL (omR g).

(* the code's update of a point: boxplus of the regenerated R^2 / R^3 classes *)
Definition bpR (n : nat) (p d : list R) : list R := if Nat.eqb n 2 then R2_boxplus_fun p d else R3_boxplus_fun' p d.
Definition move_poses (vs : list vertex) (poses : list (list R)) (dx : nat -> R) : list (list R) :=
  map (fun k => bpR (dim_at vs k) (nth k poses []) (dx_slice R vs dx k)) (seq 0 (length poses)).
Lemma nth_move_poses vs poses dx k : (k < length poses)%nat ->
  nth k (move_poses vs poses dx) [] = bpR (dim_at vs k) (nth k poses []) (dx_slice R vs dx k).
Proof.
  intros Hk. unfold move_poses.
  rewrite (nth_indep _ [] ((fun k => bpR (dim_at vs k) (nth k poses []) (dx_slice R vs dx k)) 0%nat)) by (rewrite map_length, seq_length; exact Hk).
  rewrite (map_nth (fun k => bpR (dim_at vs k) (nth k poses []) (dx_slice R vs dx k))). rewrite seq_nth by exact Hk. reflexivity.
Qed.

Ltac cbR := cbv - [Rplus Rmult Rminus Ropp Rdiv Rinv sqrt IZR pow gi Nat.add].

Lemma recR_moved_sim vs poses dx g : length poses = length vs -> okgR vs poses g ->
  edge_sim (shift_edge vs dx (recR (descrR poses g))) (recR (descrR (move_poses vs poses dx) g)).
Proof.
  intros HL Hok. destruct C04_affine_edges as (A1 & A2 & A3 & A4).
  destruct g as [ka kb Om z | ka kb Om z | ka kb Om z off | ka kb Om z off]; unfold okgR in Hok; cbn [slotsR dimR omR zoffR] in Hok;
    destruct Hok as (Ka & Kb & Hne & Da & Db & La & Lb & Hz & Hsq & Hsym);
    cbn [descrR recR]; rewrite !(nth_move_poses vs poses dx) by (rewrite HL; assumption).
  all: rewrite Da, Db.
  all: cbn [bpR Nat.eqb].
  all: unfold dx_slice.
  all: rewrite ?Da, ?Db.
  all: cbn [seq map].
  - set (d1 := [dx (gi vs ka + 0)%nat; dx (gi vs ka + 1)%nat]). set (d2 := [dx (gi vs kb + 0)%nat; dx (gi vs kb + 1)%nat]).
    destruct (A1 (nth ka poses []) (nth kb poses []) z d1 d2 La Lb Hz eq_refl eq_refl) as (Ee & EJ). rewrite Ee, EJ.
    remember (nth ka poses []) as p1. remember (nth kb poses []) as p2. clear Heqp1 Heqp2.
    list_len p1 La. list_len p2 Lb. list_len z Hz.
    unfold edge_sim, shift_edge, mkrec. cbn [e_slots e_err e_om e_jac].
    split; [reflexivity|]. split; [reflexivity|].
    split; [intros a Ha; unfold shift_err, jac_at, slot_at; cbn [e_slots e_err e_jac length fst snd]; rewrite sum2; cbn [nth]; rewrite Da, Db;
            assert (Ha' : (a < 2)%nat) by exact Ha; clear Ha;
            destruct a as [|[|a]]; [subst d1 d2; cbR; ring | subst d1 d2; cbR; ring | lia]|].
    split; [reflexivity|]. split; [reflexivity|]. split; [intros; reflexivity|].
    intros s Hs. split; [reflexivity|]. split; [reflexivity|]. intros; reflexivity.
  - set (d1 := [dx (gi vs ka + 0)%nat; dx (gi vs ka + 1)%nat; dx (gi vs ka + 2)%nat]). set (d2 := [dx (gi vs kb + 0)%nat; dx (gi vs kb + 1)%nat; dx (gi vs kb + 2)%nat]).
    destruct (A2 (nth ka poses []) (nth kb poses []) z d1 d2 La Lb Hz eq_refl eq_refl) as (Ee & EJ). rewrite Ee, EJ.
    remember (nth ka poses []) as p1. remember (nth kb poses []) as p2. clear Heqp1 Heqp2.
    list_len p1 La. list_len p2 Lb. list_len z Hz.
    unfold edge_sim, shift_edge, mkrec. cbn [e_slots e_err e_om e_jac].
    split; [reflexivity|]. split; [reflexivity|].
    split; [intros a Ha; unfold shift_err, jac_at, slot_at; cbn [e_slots e_err e_jac length fst snd]; rewrite sum2; cbn [nth]; rewrite Da, Db;
            assert (Ha' : (a < 3)%nat) by exact Ha; clear Ha;
            destruct a as [|[|[|a]]]; [subst d1 d2; cbR; ring | subst d1 d2; cbR; ring | subst d1 d2; cbR; ring | lia]|].
    split; [reflexivity|]. split; [reflexivity|]. split; [intros; reflexivity|].
    intros s Hs. split; [reflexivity|]. split; [reflexivity|]. intros; reflexivity.
  - destruct Hz as (Hz & Ho).
    set (d1 := [dx (gi vs ka + 0)%nat; dx (gi vs ka + 1)%nat]). set (d2 := [dx (gi vs kb + 0)%nat; dx (gi vs kb + 1)%nat]).
    destruct (A3 (nth ka poses []) (nth kb poses []) z off d1 d2 La Lb Hz Ho eq_refl eq_refl) as (Ee & EJ). rewrite Ee, EJ.
    remember (nth ka poses []) as p1. remember (nth kb poses []) as p2. clear Heqp1 Heqp2.
    list_len p1 La. list_len p2 Lb. list_len z Hz. list_len off Ho.
    unfold edge_sim, shift_edge, mkrec. cbn [e_slots e_err e_om e_jac].
    split; [reflexivity|]. split; [reflexivity|].
    split; [intros a Ha; unfold shift_err, jac_at, slot_at; cbn [e_slots e_err e_jac length fst snd]; rewrite sum2; cbn [nth]; rewrite Da, Db;
            assert (Ha' : (a < 2)%nat) by exact Ha; clear Ha;
            destruct a as [|[|a]]; [subst d1 d2; cbR; ring | subst d1 d2; cbR; ring | lia]|].
    split; [reflexivity|]. split; [reflexivity|]. split; [intros; reflexivity|].
    intros s Hs. split; [reflexivity|]. split; [reflexivity|]. intros; reflexivity.
  - destruct Hz as (Hz & Ho).
    set (d1 := [dx (gi vs ka + 0)%nat; dx (gi vs ka + 1)%nat; dx (gi vs ka + 2)%nat]). set (d2 := [dx (gi vs kb + 0)%nat; dx (gi vs kb + 1)%nat; dx (gi vs kb + 2)%nat]).
    destruct (A4 (nth ka poses []) (nth kb poses []) z off d1 d2 La Lb Hz Ho eq_refl eq_refl) as (Ee & EJ). rewrite Ee, EJ.
    remember (nth ka poses []) as p1. remember (nth kb poses []) as p2. clear Heqp1 Heqp2.
    list_len p1 La. list_len p2 Lb. list_len z Hz. list_len off Ho.
    unfold edge_sim, shift_edge, mkrec. cbn [e_slots e_err e_om e_jac].
    split; [reflexivity|]. split; [reflexivity|].
    split; [intros a Ha; unfold shift_err, jac_at, slot_at; cbn [e_slots e_err e_jac length fst snd]; rewrite sum2; cbn [nth]; rewrite Da, Db;
            assert (Ha' : (a < 3)%nat) by exact Ha; clear Ha;
            destruct a as [|[|[|a]]]; [subst d1 d2; cbR; ring | subst d1 d2; cbR; ring | subst d1 d2; cbR; ring | lia]|].
    split; [reflexivity|]. split; [reflexivity|]. split; [intros; reflexivity|].
    intros s Hs. split; [reflexivity|]. split; [reflexivity|]. intros; reflexivity.
Qed.

Lemma wf_shift vs d e : wf_edge vs e -> wf_edge vs (shift_edge vs d e).
Proof. unfold wf_edge, shift_edge, shift_err, jac_at, slot_at. cbn [e_jac e_slots e_err e_om fst]. exact (fun H => H). Qed.

Lemma wf_recR vs poses g : okgR vs poses g -> wf_edge vs (recR (descrR poses g)).
Proof.
  intros Hok. destruct g as [ka kb Om z | ka kb Om z | ka kb Om z off | ka kb Om z off]; unfold okgR in Hok; cbn [slotsR dimR omR zoffR] in Hok;
    destruct Hok as (Ka & Kb & Hne & Da & Db & La & Lb & Hz & (HO & HOr) & Hsym); cbn [descrR recR];
    remember (nth ka poses []) as p1; remember (nth kb poses []) as p2; clear Heqp1 Heqp2.
  - list_len p1 La. list_len p2 Lb. list_len z Hz.
    unfold wf_edge, mkrec. cbn [e_jac e_slots e_err e_om]. unfold jac_at, slot_at. cbn [e_jac e_slots].
    split; [reflexivity|]. split; [constructor; [intros [E|[]]; apply Hne; symmetry; exact E | constructor; [intros [] | constructor]]|].
    split; [constructor; [exact Ka | constructor; [exact Kb | constructor]]|].
    split; [reflexivity|]. split; [reflexivity|]. split; [exact Hsym|].
    intros s Hs. cbn [length] in Hs. destruct s as [|[|s]]; [| |lia]; cbn [nth]; (split; [reflexivity|]); cbn [cols mat_of_list]; [rewrite Da | rewrite Db]; reflexivity.
  - list_len p1 La. list_len p2 Lb. list_len z Hz.
    unfold wf_edge, mkrec. cbn [e_jac e_slots e_err e_om]. unfold jac_at, slot_at. cbn [e_jac e_slots].
    split; [reflexivity|]. split; [constructor; [intros [E|[]]; apply Hne; symmetry; exact E | constructor; [intros [] | constructor]]|].
    split; [constructor; [exact Ka | constructor; [exact Kb | constructor]]|].
    split; [reflexivity|]. split; [reflexivity|]. split; [exact Hsym|].
    intros s Hs. cbn [length] in Hs. destruct s as [|[|s]]; [| |lia]; cbn [nth]; (split; [reflexivity|]); cbn [cols mat_of_list]; [rewrite Da | rewrite Db]; reflexivity.
  - destruct Hz as (Hz & Ho). list_len p1 La. list_len p2 Lb. list_len z Hz. list_len off Ho.
    unfold wf_edge, mkrec. cbn [e_jac e_slots e_err e_om]. unfold jac_at, slot_at. cbn [e_jac e_slots].
    split; [reflexivity|]. split; [constructor; [intros [E|[]]; apply Hne; symmetry; exact E | constructor; [intros [] | constructor]]|].
    split; [constructor; [exact Ka | constructor; [exact Kb | constructor]]|].
    split; [reflexivity|]. split; [reflexivity|]. split; [exact Hsym|].
    intros s Hs. cbn [length] in Hs. destruct s as [|[|s]]; [| |lia]; cbn [nth]; (split; [reflexivity|]); cbn [cols mat_of_list]; [rewrite Da | rewrite Db]; reflexivity.
  - destruct Hz as (Hz & Ho). list_len p1 La. list_len p2 Lb. list_len z Hz. list_len off Ho.
    unfold wf_edge, mkrec. cbn [e_jac e_slots e_err e_om]. unfold jac_at, slot_at. cbn [e_jac e_slots].
    split; [reflexivity|]. split; [constructor; [intros [E|[]]; apply Hne; symmetry; exact E | constructor; [intros [] | constructor]]|].
    split; [constructor; [exact Ka | constructor; [exact Kb | constructor]]|].
    split; [reflexivity|]. split; [reflexivity|]. split; [exact Hsym|].
    intros s Hs. cbn [length] in Hs. destruct s as [|[|s]]; [| |lia]; cbn [nth]; (split; [reflexivity|]); cbn [cols mat_of_list]; [rewrite Da | rewrite Db]; reflexivity.
Qed.

Definition recsR (poses : list (list R)) (gs : list gedgeR) : list Redge := map recR (map (descrR poses) gs).

Lemma wf_recsR vs poses gs : List.Forall (fun v => (0 < v_dim v)%nat) vs -> List.Forall (okgR vs poses) gs -> wf_graph vs (recsR poses gs).
Proof.
  intros Hv Hok. split; [exact Hv|]. unfold recsR. rewrite Forall_forall in *. intros e Hin.
  apply in_map_iff in Hin. destruct Hin as (d & <- & Hd). apply in_map_iff in Hd. destruct Hd as (g & <- & Hg). apply wf_recR. apply Hok. exact Hg.
Qed.

Lemma moved_sim vs poses dx gs : length poses = length vs -> List.Forall (okgR vs poses) gs ->
  Forall2 edge_sim (map (shift_edge vs dx) (recsR poses gs)) (recsR (move_poses vs poses dx) gs).
Proof.
  intros HL Hok. unfold recsR. induction Hok as [|g gs Hg Hgs IH]; cbn [map]; constructor; [|exact IH].
  apply recR_moved_sim; assumption.
Qed.

(* C04 for the real programs: from ANY start, after moving every free point by ANY solution dx of the normal equations (through the code's boxplus),
   the gradient assembled at the new state vanishes, and the Hessian assembled there is the one assembled at the start *)
Theorem C04_one_step_Rn vs poses gs dx :
  length poses = length vs -> List.Forall (fun v => (0 < v_dim v)%nat) vs -> List.Forall (okgR vs poses) gs ->
  solves (glen vs) (spec_H vs (recsR poses gs)) (spec_b vs (recsR poses gs)) dx ->
  (forall r, (r < glen vs)%nat -> spec_b vs (recsR (move_poses vs poses dx) gs) r = 0) /\
  (forall r c, spec_H vs (recsR (move_poses vs poses dx) gs) r c = spec_H vs (recsR poses gs) r c).
Proof.
  intros HL Hv Hok Hs. destruct linear_all as (L1 & L2 & _).
  pose proof (wf_recsR vs poses gs Hv Hok) as Hwf.
  assert (Hwf' : List.Forall (wf_edge vs) (map (shift_edge vs dx) (recsR poses gs))).
  { destruct Hwf as (_ & H). rewrite Forall_forall in *. intros e Hin. apply in_map_iff in Hin. destruct Hin as (e0 & <- & He0). apply wf_shift. apply H. exact He0. }
  pose proof (moved_sim vs poses dx gs HL Hok) as Hsim.
  split.
  - intros r Hr. rewrite (spec_b_sim vs _ _ Hwf' Hsim r). apply (L1 vs (recsR poses gs) dx Hwf Hs r Hr).
  - intros r c. rewrite (spec_H_sim vs _ _ Hwf' Hsim r c). apply L2.
Qed.

(* non-vacuity: three points in the plane, the first fixed, two odometry edges and one landmark-style edge *)
Definition I2 : list (list R) := [[2; 1]; [1; 3]].
Definition exR_vs : list vertex := [mkvertex 2 true; mkvertex 2 false; mkvertex 2 false].
Definition exR_poses : list (list R) := [[0; 0]; [1; 1/2]; [3; -1]].
Definition exR_gs : list gedgeR := [GOdoR2 0 1 I2 [1; 0]; GOdoR2 1 2 I2 [2; -1]; GLmkR2 0 2 I2 [3; 0] [1/10; 0]].
Lemma symL_I2 : symL I2.
Proof. intros a b. do 3 (destruct a as [|a]; [do 3 (destruct b as [|b]; [reflexivity|]); destruct b; reflexivity|]). do 3 (destruct b as [|b]; [destruct a; reflexivity|]). destruct a, b; reflexivity. Qed.
Example C04_one_step_Rn_premises :
  length exR_poses = length exR_vs /\ List.Forall (fun v => (0 < v_dim v)%nat) exR_vs /\ List.Forall (okgR exR_vs exR_poses) exR_gs.
Proof.
  assert (S2 : squareL 2 I2) by (split; [reflexivity | intros a Ha; do 2 (destruct a as [|a]; [reflexivity|]); lia]).
  split; [reflexivity|]. split; [repeat constructor|].
  repeat constructor; try reflexivity; try (cbn; lia); try (intros E; discriminate E); try exact symL_I2; try (destruct S2; assumption).
Qed.
