(* C12_R.v -- the theorems of C12_OptLoop.v read over the real numbers: the boolean test of the model
   is the documented inequality pair, and for tol = 0 no early stop can occur while chi^2 > -eps. *)
From Coq Require Import Reals Lra Lia List Arith Bool.
From GS Require Import OptLoop OptLoopR C12_OptLoop.
Import ListNotations.
Open Scope R_scope.

Lemma eps_R_pos : 0 < eps_R.
Proof. unfold eps_R. apply Rinv_0_lt_compat. apply pow_lt. lra. Qed.

Lemma eps_R_lt_1 : eps_R < 1.
Proof.
  unfold eps_R. assert (H : 1 < 2 ^ 52) by (apply Rlt_pow_R1; [lra|lia]).
  apply (Rmult_lt_reg_r (2 ^ 52)); [lra|]. rewrite Rinv_l by lra. lra.
Qed.

Lemma div_lt_iff : forall a b c, 0 < c -> (a / c < b <-> a < b * c).
Proof.
  intros a b c Hc. unfold Rdiv. split; intros H.
  - apply (Rmult_lt_compat_r c) in H; [|exact Hc].
    rewrite Rmult_assoc, Rinv_l in H by lra. lra.
  - apply (Rmult_lt_reg_r c); [exact Hc|].
    rewrite Rmult_assoc, Rinv_l by lra. lra.
Qed.

Lemma stop_test_R : forall tol prev c,
  stop_test R R_scalar tol prev c = true <-> documented_stop tol prev c.
Proof.
  intros tol prev c. unfold stop_test, documented_stop, rel_diff. simpl.
  destruct (Rle_dec c prev) as [Hle|Hle]; destruct (Rlt_dec ((prev - c) / (prev + eps_R)) tol) as [Hlt|Hlt];
    simpl; split; intros H; try discriminate H; try reflexivity; try (split; assumption);
    destruct H as [H1 H2]; contradiction.
Qed.

Lemma stop_test_R_false : forall tol prev c,
  stop_test R R_scalar tol prev c = false <-> ~ documented_stop tol prev c.
Proof.
  intros tol prev c. rewrite <- stop_test_R.
  destruct (stop_test R R_scalar tol prev c); split; intros H; try discriminate H; try reflexivity.
  - exfalso. apply H. reflexivity.
  - intros H'. discriminate H'.
Qed.

Section OverR.
  Variable St : Type.
  Variable chi2_of : St -> R.
  Variable step prep : St -> St.

  Notation optimize := (optimize R R_scalar St chi2_of step prep).
  Notation cseq := (cseq R St chi2_of step prep).
  Notation stops := (stops R R_scalar St chi2_of step prep).
  Notation first_stop := (first_stop R R_scalar St chi2_of step prep).
  Notation no_stop := (no_stop R R_scalar St chi2_of step prep).

  Lemma stops_R : forall tol s k,
    stops tol s k = true <-> documented_stop tol (cseq s (k - 1)) (cseq s k).
  Proof. intros tol s k. unfold OptLoop.stops. rewrite Nat.sub_1_r. apply stop_test_R. Qed.

  Lemma stops_R_false : forall tol s k,
    stops tol s k = false <-> ~ documented_stop tol (cseq s (k - 1)) (cseq s k).
  Proof. intros tol s k. unfold OptLoop.stops. rewrite Nat.sub_1_r. apply stop_test_R_false. Qed.

  Lemma first_stop_of_R : forall tol s n K, first_stop_R tol (cseq s) n K -> first_stop tol s n K.
  Proof.
    intros tol s n K (H1 & H2 & H3 & H4).
    split; [exact H1|]. split; [exact H2|]. split.
    - apply stops_R. exact H3.
    - intros k Ha Hb. apply stops_R_false. apply H4; assumption.
  Qed.

  Lemma no_stop_of_R : forall tol s n, no_stop_R tol (cseq s) n -> no_stop tol s n.
  Proof. intros tol s n H k Ha Hb. apply stops_R_false. apply H; assumption. Qed.

  Lemma stop_cases_R : forall tol s n, (exists K, first_stop_R tol (cseq s) n K) \/ no_stop_R tol (cseq s) n.
  Proof.
    intros tol s n. destruct (stop_cases R R_scalar St chi2_of step prep tol s n) as [[K (H1 & H2 & H3 & H4)]|Hno].
    - left. exists K. split; [exact H1|]. split; [exact H2|]. split.
      + apply stops_R. exact H3.
      + intros k Ha Hb. apply stops_R_false. apply H4; assumption.
    - right. intros k Ha Hb. apply stops_R_false. apply Hno; assumption.
  Qed.

  Theorem C12_stop_R_thm : forall (tol : R) (max_iter : nat) (vb : bool) (s : St),
    (forall K, first_stop_R tol (cseq s) max_iter K ->
       converged (out_report (optimize tol max_iter vb s)) = true /\
       num_iterations (out_report (optimize tol max_iter vb s)) = Some K /\
       length (iters (out_report (optimize tol max_iter vb s))) = S K /\
       out_state (optimize tol max_iter vb s) = stepn step K (prep s)) /\
    ((0 < max_iter)%nat -> no_stop_R tol (cseq s) max_iter ->
       (converged (out_report (optimize tol max_iter vb s)) = true <->
          documented_stop tol (cseq s (max_iter - 1)) (cseq s max_iter)) /\
       num_iterations (out_report (optimize tol max_iter vb s)) = Some max_iter /\
       length (iters (out_report (optimize tol max_iter vb s))) = max_iter /\
       out_state (optimize tol max_iter vb s) = stepn step max_iter (prep s)) /\
    ((exists K, first_stop_R tol (cseq s) max_iter K) \/ no_stop_R tol (cseq s) max_iter).
  Proof.
    intros tol max_iter vb s.
    destruct (C12_stop_thm R R_scalar St chi2_of step prep tol max_iter vb s) as (Hearly & Hfull & _ & _).
    split; [|split].
    - intros K HK. destruct (Hearly K (first_stop_of_R tol s max_iter K HK)) as (Ha & Hb & Hc & Hd & _).
      repeat split; assumption.
    - intros Hpos Hno. destruct (Hfull Hpos (no_stop_of_R tol s max_iter Hno)) as (Ha & Hb & Hc & Hd & _).
      split; [|repeat split; assumption].
      rewrite Ha. apply stops_R.
    - apply stop_cases_R.
  Qed.

  (* tol = 0: while chi^2 stays above -eps (in particular when it is non-negative, as it is for a
     positive semi-definite information matrix) the documented test can never hold *)
  Lemma no_stop_tol0 : forall s n, (forall k, - eps_R < cseq s k) -> no_stop_R 0 (cseq s) n.
  Proof.
    intros s n Hc k Ha Hb [Hle Hlt].
    pose proof (Hc (k - 1)%nat) as Hden.
    apply div_lt_iff in Hlt; [|lra]. lra.
  Qed.

  Theorem C12_split_tol0_R_thm : forall (k1 k2 : nat) (vb : bool) (s : St),
    (forall x, prep (prep x) = prep x) -> (forall x, prep (step (prep x)) = step (prep x)) ->
    (0 < k1)%nat -> (0 < k2)%nat -> (forall k, 0 <= cseq s k) ->
    let A := optimize 0 (k1 + k2) vb s in
    let B1 := optimize 0 k1 vb s in
    let B2 := optimize 0 k2 vb (out_state B1) in
    out_state A = out_state B2 /\
    iters (out_report A) = iters (out_report B1) ++ iters (out_report B2) /\
    initial_chi2 (out_report A) = initial_chi2 (out_report B1) /\
    final_chi2 (out_report B1) = initial_chi2 (out_report B2) /\
    final_chi2 (out_report A) = final_chi2 (out_report B2) /\
    converged (out_report A) = converged (out_report B2) /\
    num_iterations (out_report A) = Some (k1 + k2)%nat /\
    num_iterations (out_report B1) = Some k1 /\ num_iterations (out_report B2) = Some k2.
  Proof.
    intros k1 k2 vb s Hidem Hstep H1 H2 Hc.
    apply (C12_split_thm R R_scalar St chi2_of step prep Hidem Hstep 0 k1 k2 vb s H1 H2).
    apply no_stop_of_R. apply no_stop_tol0. intros k. pose proof (Hc k). pose proof eps_R_pos. lra.
  Qed.
End OverR.

(* ---- satisfiability of the hypotheses: a concrete chi^2 sequence 4, 2, 2, 2, ... with tol = 1/4
        does not stop at k = 1 (relative decrease about 1/2) and stops at K = 2 ---- *)
Definition ex_chi (k : nat) : R := match k with O => 4 | _ => 2 end.

Lemma stepn_S : forall k x, stepn S k x = (k + x)%nat.
Proof. induction k as [|k IH]; intros x; simpl; [reflexivity|]. rewrite IH. lia. Qed.

Lemma ex_cseq : forall k, cseq R nat ex_chi S (fun x => x) O k = ex_chi k.
Proof. intros k. unfold cseq. rewrite stepn_S. f_equal. lia. Qed.

Lemma ex_chi_nonneg : forall k, 0 <= ex_chi k.
Proof. intros k. destruct k; simpl; lra. Qed.

(* hypothesis of the first part of C12_stop_R: an early stop exists *)
Example C12_stop_R_example : first_stop_R (/ 4) (cseq R nat ex_chi S (fun x => x) O) 5 2.
Proof.
  pose proof eps_R_pos as Hp. pose proof eps_R_lt_1 as Hl.
  split; [lia|]. split; [lia|]. split.
  - rewrite !ex_cseq. simpl. split; [lra|].
    apply div_lt_iff; lra.
  - intros k Ha Hb. assert (Hk : k = 1%nat) by lia. subst k.
    rewrite !ex_cseq. simpl. intros [_ Hlt].
    apply div_lt_iff in Hlt; lra.
Qed.

(* hypothesis of the second part of C12_stop_R, and of C12_split_tol0_R: no early stop (tol = 0) *)
Example C12_no_stop_R_example : forall n, no_stop_R 0 (cseq R nat ex_chi S (fun x => x) O) n.
Proof.
  intros n. apply no_stop_tol0. intros k. rewrite ex_cseq.
  pose proof (ex_chi_nonneg k). pose proof eps_R_pos. lra.
Qed.

Example C12_split_hyps_example :
  (forall x : nat, (fun y => y) ((fun y => y) x) = (fun y => y) x) /\
  (forall x : nat, (fun y => y) (S ((fun y => y) x)) = S ((fun y => y) x)) /\
  (forall k, 0 <= cseq R nat ex_chi S (fun x => x) O k).
Proof.
  split; [reflexivity|]. split; [reflexivity|]. intros k. rewrite ex_cseq. apply ex_chi_nonneg.
Qed.

(* the generic hypotheses [first_stop] / [no_stop] of C12_stop are satisfiable as well (same instance) *)
Example C12_stop_example :
  first_stop R R_scalar nat ex_chi S (fun x => x) (/ 4) O 5 2 /\
  no_stop R R_scalar nat ex_chi S (fun x => x) 0 O 5.
Proof.
  split.
  - apply first_stop_of_R. exact C12_stop_R_example.
  - apply no_stop_of_R. apply C12_no_stop_R_example.
Qed.

(* the condition of C12_split is exact at the boundary: if the documented test holds exactly at the
   cut k1 (and nowhere else) the single run stops there while the split run goes on.  Witness:
   chi^2 = 4, 2, 2, 1, 1, ... ; tol = 1/4; k1 = 2, k2 = 2: the single run returns the state after 2
   updates, the split run the state after 4. *)
Definition ex_chi2 (k : nat) : R := match k with O => 4 | 1%nat => 2 | 2%nat => 2 | _ => 1 end.

Lemma ex_cseq2 : forall x k, cseq R nat ex_chi2 S (fun y => y) x k = ex_chi2 (k + x).
Proof. intros x k. unfold cseq. rewrite stepn_S. reflexivity. Qed.

Theorem C12_split_boundary_refuted_thm :
  exists (St : Type) (chi2_of : St -> R) (step prep : St -> St) (tol : R) (k1 k2 : nat) (s : St),
    (forall x, prep (prep x) = prep x) /\ (forall x, prep (step (prep x)) = step (prep x)) /\
    (0 < k1)%nat /\ (0 < k2)%nat /\
    no_stop_R tol (cseq R St chi2_of step prep s) k1 /\
    no_stop_R tol (cseq R St chi2_of step prep (stepn step k1 (prep s))) k2 /\
    out_state (optimize R R_scalar St chi2_of step prep tol (k1 + k2) false s) <>
    out_state (optimize R R_scalar St chi2_of step prep tol k2 false
                 (out_state (optimize R R_scalar St chi2_of step prep tol k1 false s))).
Proof.
  pose proof eps_R_pos as Hp. pose proof eps_R_lt_1 as Hl.
  exists nat, ex_chi2, S, (fun y => y), (/ 4), 2%nat, 2%nat, O.
  assert (Hn1 : no_stop_R (/ 4) (cseq R nat ex_chi2 S (fun y => y) O) 2).
  { intros k Ha Hb. assert (Hk : k = 1%nat) by lia. subst k. rewrite !ex_cseq2. simpl.
    intros [_ Hlt]. apply div_lt_iff in Hlt; lra. }
  assert (Hn2 : no_stop_R (/ 4) (cseq R nat ex_chi2 S (fun y => y) 2%nat) 2).
  { intros k Ha Hb. assert (Hk : k = 1%nat) by lia. subst k. rewrite !ex_cseq2. simpl.
    intros [_ Hlt]. apply div_lt_iff in Hlt; lra. }
  assert (Hf : first_stop_R (/ 4) (cseq R nat ex_chi2 S (fun y => y) O) 4 2).
  { split; [lia|]. split; [lia|]. split.
    - rewrite !ex_cseq2. simpl. split; [lra|]. apply div_lt_iff; lra.
    - intros k Ha Hb. apply Hn1; lia. }
  split; [reflexivity|]. split; [reflexivity|]. split; [lia|]. split; [lia|].
  split; [exact Hn1|]. split; [exact Hn2|].
  destruct (C12_stop_R_thm nat ex_chi2 S (fun y => y) (/ 4) 4 false O) as (HA & _ & _).
  destruct (HA 2%nat Hf) as (_ & _ & _ & EA).
  destruct (C12_stop_R_thm nat ex_chi2 S (fun y => y) (/ 4) 2 false O) as (_ & HB1 & _).
  destruct (HB1 ltac:(lia) Hn1) as (_ & _ & _ & EB1).
  simpl Nat.add. rewrite EA, EB1.
  destruct (C12_stop_R_thm nat ex_chi2 S (fun y => y) (/ 4) 2 false (stepn S 2 O)) as (_ & HB2 & _).
  simpl stepn in HB2 |- *.
  destruct (HB2 ltac:(lia) Hn2) as (_ & _ & _ & EB2).
  rewrite EB2. simpl. discriminate.
Qed.
