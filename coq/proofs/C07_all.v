(* Assembly of the C07 obligations into the statement of props/C07.v. *)
From Coq Require Import Reals List.
From Coquelicot Require Import Coquelicot.
From GS Require Import ExprR LinAlg Meth MethR Prog Chain Wrap Spec GenR2 GenR3 GenSE2 GenSE3 GenEdges
  C10_SE3 C10_SE3_boxplus C10_SE2 C10_Rn C09_SE3 C09_SE2 C11_main C01_SE3 C01_Rn C01_SE2 C02_model C07_errors C07_equiv C07_traj.
Import ListNotations.
Open Scope R_scope.

Lemma C07_all :
  (* ---- errors (hence chi^2) are unchanged: SE(3) (unit T and unit vertex quaternions), SE(2), R^n ---- *)
  (forall T p1 p2 z, length T = 7%nat -> length p1 = 7%nat -> length p2 = 7%nat -> length z = 7%nat -> unitq T -> unitq p1 ->
     err_odo3 (comp3 T p1) (comp3 T p2) z = err_odo3 p1 p2 z) /\
  (forall T p l z off, length T = 7%nat -> length p = 7%nat -> length l = 3%nat -> length z = 3%nat -> length off = 7%nat ->
     unitq T -> unitq p -> unitq off -> err_lmk3 (comp3 T p) (act3 T l) z off = err_lmk3 p l z off) /\
  (forall T p1 p2 z, length T = 3%nat -> length p1 = 3%nat -> length p2 = 3%nat -> length z = 3%nat ->
     err_odo2 (comp2 T p1) (comp2 T p2) z = err_odo2 p1 p2 z) /\
  (forall T p l z off, length T = 3%nat -> length p = 3%nat -> length l = 2%nat -> length z = 2%nat -> length off = 3%nat ->
     err_lmk2 (comp2 T p) (act2 T l) z off = err_lmk2 p l z off) /\
  ( (forall T p1 p2 z, length T = 2%nat -> length p1 = 2%nat -> length p2 = 2%nat -> length z = 2%nat ->
       err_odoR2 (vadd T p1) (vadd T p2) z = err_odoR2 p1 p2 z) /\
    (forall T p1 p2 z, length T = 3%nat -> length p1 = 3%nat -> length p2 = 3%nat -> length z = 3%nat ->
       err_odoR3 (vadd T p1) (vadd T p2) z = err_odoR3 p1 p2 z) /\
    (forall T p l z off, length T = 2%nat -> length p = 2%nat -> length l = 2%nat -> length z = 2%nat -> length off = 2%nat ->
       err_lmkR2 (vadd T p) (vadd T l) z off = err_lmkR2 p l z off) /\
    (forall T p l z off, length T = 3%nat -> length p = 3%nat -> length l = 3%nat -> length z = 3%nat -> length off = 3%nat ->
       err_lmkR3 (vadd T p) (vadd T l) z off = err_lmkR3 p l z off) ) /\
  (* ---- the update commutes with the transform ---- *)
  (forall T p d, length T = 7%nat -> length p = 7%nat -> length d = 6%nat -> unitq T -> unitq p ->
     SE3_boxplus_fun (comp3 T p) d = comp3 T (SE3_boxplus_fun p d)) /\
  (forall T p d, length T = 3%nat -> length p = 3%nat -> length d = 3%nat ->
     SE2_boxplus_fun (comp2 T p) d = comp2 T (SE2_boxplus_fun p d)) /\
  (forall T l d, length T = 7%nat -> length l = 3%nat -> length d = 3%nat ->
     act3 T (R3_boxplus_fun l d) = R3_boxplus_fun (act3 T l) (rot3 T d)) /\
  (forall T l d, length T = 3%nat -> length l = 2%nat -> length d = 2%nat ->
     act2 T (R2_boxplus_fun l d) = R2_boxplus_fun (act2 T l) (rot2 T d)) /\
  (* ---- the Jacobians of the transformed edges are those of the original edges (pose slots) ---- *)
  (forall T p1 p2 z u, length T = 7%nat -> length p1 = 7%nat -> length p2 = 7%nat -> length z = 7%nat ->
     length u = 6%nat -> unitq T -> unitq p1 -> unitq p2 -> forall i,
     nth i (matvec (nth 0 (jac_odo3 (comp3 T p1) (comp3 T p2) z) []) u) 0 = nth i (matvec (nth 0 (jac_odo3 p1 p2 z) []) u) 0 /\
     nth i (matvec (nth 1 (jac_odo3 (comp3 T p1) (comp3 T p2) z) []) u) 0 = nth i (matvec (nth 1 (jac_odo3 p1 p2 z) []) u) 0) /\
  (forall T p l z off u, length T = 7%nat -> length p = 7%nat -> length l = 3%nat -> length z = 3%nat ->
     length off = 7%nat -> length u = 6%nat -> unitq T -> unitq p -> unitq off -> forall i,
     nth i (matvec (nth 0 (jac_lmk3 (comp3 T p) (act3 T l) z off) []) u) 0 = nth i (matvec (nth 0 (jac_lmk3 p l z off) []) u) 0) /\
  (* ---- hence the whole trajectory: for ANY solver (a function of the linearised system) ---- *)
  (forall (P L : Type) (tr : P -> P) (good : list P -> Prop) (linearize : list P -> L) (solve : L -> nat -> list R) (bp : P -> list R -> P),
     (forall ps, good ps -> linearize (map tr ps) = linearize ps) ->
     (forall ps, good ps -> forall p d, List.In p ps -> bp (tr p) d = tr (bp p d)) ->
     (forall ps, good ps -> good (step P L linearize solve bp ps)) ->
     forall n ps, good ps -> Nat.iter n (step P L linearize solve bp) (map tr ps) = map tr (Nat.iter n (step P L linearize solve bp) ps)).
Proof.
  repeat match goal with |- _ /\ _ => split end;
  first [ exact C07_odo_SE3 | exact C07_lmk_SE3 | exact C07_odo_SE2 | exact C07_lmk_SE2 | apply C07_Rn
        | exact C07_boxplus_SE3 | exact C07_boxplus_SE2 | exact C07_boxplus_point3 | exact C07_boxplus_point2
        | exact C07_jac_odo_SE3 | exact C07_jac_lmk_SE3_pose | exact trajectory_equivariant ].
Qed.
