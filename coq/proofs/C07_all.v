(* Assembly of the C07 obligations into the statement of props/C07.v. *)
From Coq Require Import Reals List.
From Coquelicot Require Import Coquelicot.
From GS Require Import ExprR LinAlg Meth MethR Prog Chain Wrap Spec GenR2 GenR3 GenSE2 GenSE3 GenEdges
  C10_SE3 C10_SE3_boxplus C10_SE2 C10_Rn C09_SE3 C09_SE2 C11_main C01_SE3 C01_Rn C01_SE2 C02_model C07_errors C07_equiv C07_traj
  GraphModel GNSpec C07_jac2 C07_lmk C07_basis C07_traj2 C07_RnJac C03_sums C07_glue C07_ext C07_inst C07_whole C07_wholeRn Assembled.
Import ListNotations.
Open Scope R_scope.

Lemma C07_all :
  (* ---- errors (hence chi^2) are unchanged: SE(3) (unit T and unit vertex quaternions), SE(2), R^n ---- *)
  (forall T p1 p2 z, length T = 7%nat -> length p1 = 7%nat -> length p2 = 7%nat -> length z = 7%nat -> unitq T -> unitq p1 ->
     err_odo3 (comp3 T p1) (comp3 T p2) z = err_odo3 p1 p2 z) /\
  (forall T p l z off, length T = 7%nat -> length p = 7%nat -> length l = 3%nat -> length z = 3%nat -> length off = 7%nat ->
     unitq T -> unitq p -> unitq off -> err_lmk3 (comp3 T p) (act3 T l) z off = err_lmk3 p l z off) /\
  (forall T p1 p2 z, length T = 3%nat -> length p1 = 3%nat -> length p2 = 3%nat -> length z = 3%nat ->
     err_odo2 (comp2 T p1) (comp2 T p2) z = err_odo2 p1 p2 z) /\
  (forall T p l z off, length T = 3%nat -> length p = 3%nat -> length l = 2%nat -> length z = 2%nat -> length off = 3%nat ->
     err_lmk2 (comp2 T p) (act2 T l) z off = err_lmk2 p l z off) /\
  ( (forall T p1 p2 z, length T = 2%nat -> length p1 = 2%nat -> length p2 = 2%nat -> length z = 2%nat ->
       err_odoR2 (vadd T p1) (vadd T p2) z = err_odoR2 p1 p2 z) /\
    (forall T p1 p2 z, length T = 3%nat -> length p1 = 3%nat -> length p2 = 3%nat -> length z = 3%nat ->
       err_odoR3 (vadd T p1) (vadd T p2) z = err_odoR3 p1 p2 z) /\
    (forall T p l z off, length T = 2%nat -> length p = 2%nat -> length l = 2%nat -> length z = 2%nat -> length off = 2%nat ->
       err_lmkR2 (vadd T p) (vadd T l) z off = err_lmkR2 p l z off) /\
    (forall T p l z off, length T = 3%nat -> length p = 3%nat -> length l = 3%nat -> length z = 3%nat -> length off = 3%nat ->
       err_lmkR3 (vadd T p) (vadd T l) z off = err_lmkR3 p l z off) ) /\
  (* ---- the update commutes with the transform ---- *)
  (forall T p d, length T = 7%nat -> length p = 7%nat -> length d = 6%nat -> unitq T -> unitq p ->
     SE3_boxplus_fun (comp3 T p) d = comp3 T (SE3_boxplus_fun p d)) /\
  (forall T p d, length T = 3%nat -> length p = 3%nat -> length d = 3%nat ->
     SE2_boxplus_fun (comp2 T p) d = comp2 T (SE2_boxplus_fun p d)) /\
  (forall T l d, length T = 7%nat -> length l = 3%nat -> length d = 3%nat ->
     act3 T (R3_boxplus_fun l d) = R3_boxplus_fun (act3 T l) (rot3 T d)) /\
  (forall T l d, length T = 3%nat -> length l = 2%nat -> length d = 2%nat ->
     act2 T (R2_boxplus_fun l d) = R2_boxplus_fun (act2 T l) (rot2 T d)) /\
  (* ---- the Jacobians of the transformed edges are those of the original edges (pose slots) ---- *)
  (forall T p1 p2 z u, length T = 7%nat -> length p1 = 7%nat -> length p2 = 7%nat -> length z = 7%nat ->
     length u = 6%nat -> unitq T -> unitq p1 -> unitq p2 -> forall i,
     nth i (matvec (nth 0 (jac_odo3 (comp3 T p1) (comp3 T p2) z) []) u) 0 = nth i (matvec (nth 0 (jac_odo3 p1 p2 z) []) u) 0 /\
     nth i (matvec (nth 1 (jac_odo3 (comp3 T p1) (comp3 T p2) z) []) u) 0 = nth i (matvec (nth 1 (jac_odo3 p1 p2 z) []) u) 0) /\
  (forall T p l z off u, length T = 7%nat -> length p = 7%nat -> length l = 3%nat -> length z = 3%nat ->
     length off = 7%nat -> length u = 6%nat -> unitq T -> unitq p -> unitq off -> forall i,
     nth i (matvec (nth 0 (jac_lmk3 (comp3 T p) (act3 T l) z off) []) u) 0 = nth i (matvec (nth 0 (jac_lmk3 p l z off) []) u) 0) /\
  (* SE(2): the Jacobian matrices themselves coincide, no side condition *)
  (forall T p1 p2 z, length T = 3%nat -> length p1 = 3%nat -> length p2 = 3%nat -> length z = 3%nat ->
     jac_odo2 (comp2 T p1) (comp2 T p2) z = jac_odo2 p1 p2 z) /\
  (forall T p l z off, length T = 3%nat -> length p = 3%nat -> length l = 2%nat -> length z = 2%nat -> length off = 3%nat ->
     nth 0 (jac_lmk2 (comp2 T p) (act2 T l) z off) [] = nth 0 (jac_lmk2 p l z off) []) /\
  (* R^n graphs under a translation: the Jacobians do not depend on the coordinates at all *)
  ( (forall T p1 p2 z, length T = 2%nat -> length p1 = 2%nat -> length p2 = 2%nat -> length z = 2%nat ->
       jac_odoR2 (vadd T p1) (vadd T p2) z = jac_odoR2 p1 p2 z) /\
    (forall T p1 p2 z, length T = 3%nat -> length p1 = 3%nat -> length p2 = 3%nat -> length z = 3%nat ->
       jac_odoR3 (vadd T p1) (vadd T p2) z = jac_odoR3 p1 p2 z) /\
    (forall T p l z off, length T = 2%nat -> length p = 2%nat -> length l = 2%nat -> length z = 2%nat -> length off = 2%nat ->
       jac_lmkR2 (vadd T p) (vadd T l) z off = jac_lmkR2 p l z off) /\
    (forall T p l z off, length T = 3%nat -> length p = 3%nat -> length l = 3%nat -> length z = 3%nat -> length off = 3%nat ->
       jac_lmkR3 (vadd T p) (vadd T l) z off = jac_lmkR3 p l z off) ) /\
  (* ---- landmark slots: the transformed landmark moves by d' = R_T d, its Jacobian is J'_l = J_l R_T^-1 ---- *)
  (forall T p l z off u, length T = 7%nat -> length p = 7%nat -> length l = 3%nat -> length z = 3%nat ->
     length off = 7%nat -> length u = 3%nat -> unitq T -> unitq p -> unitq off -> forall i,
     nth i (matvec (nth 1 (jac_lmk3 (comp3 T p) (act3 T l) z off) []) (rot3 T u)) 0 = nth i (matvec (nth 1 (jac_lmk3 p l z off) []) u) 0 /\
     nth i (matvec (nth 1 (jac_lmk3 (comp3 T p) (act3 T l) z off) []) u) 0 = nth i (matvec (nth 1 (jac_lmk3 p l z off) []) (rot3 (evl T SE3_inv) u)) 0) /\
  (forall T p l z off u, length T = 3%nat -> length p = 3%nat -> length l = 2%nat -> length z = 2%nat ->
     length off = 3%nat -> length u = 2%nat -> forall i,
     nth i (matvec (nth 1 (jac_lmk2 (comp2 T p) (act2 T l) z off) []) (rot2 T u)) 0 = nth i (matvec (nth 1 (jac_lmk2 p l z off) []) u) 0 /\
     nth i (matvec (nth 1 (jac_lmk2 (comp2 T p) (act2 T l) z off) []) u) 0 = nth i (matvec (nth 1 (jac_lmk2 p l z off) []) (rot2 (evl T SE2_inv) u)) 0) /\
  (forall T u, length T = 7%nat -> length u = 3%nat -> unitq T -> rot3 T (rot3 (evl T SE3_inv) u) = u /\ rot3 (evl T SE3_inv) (rot3 T u) = u) /\
  (forall T u, length T = 3%nat -> length u = 2%nat -> rot2 T (rot2 (evl T SE2_inv) u) = u /\ rot2 (evl T SE2_inv) (rot2 T u) = u) /\
  (* ---- glue between the two levels: entry by entry, the landmark-slot Jacobian of the transformed edge is  sum_m J[a][m] * M[m][j]
          with M the matrix of the rotation of T^-1 -- literally the body of [tb_mat] (proofs/C07_basis.v) with Q_landmark = M: the transformed
          landmark edge IS the re-based edge ---- *)
  (forall T p l z off, length T = 7%nat -> length p = 7%nat -> length l = 3%nat -> length z = 3%nat ->
     length off = 7%nat -> unitq T -> unitq p -> unitq off ->
     forall a j, (a < 3)%nat -> (j < 3)%nat ->
       nth j (nth a (nth 1 (jac_lmk3 (comp3 T p) (act3 T l) z off) []) []) 0
       = sumnR 3 (fun m => nth m (nth a (nth 1 (jac_lmk3 p l z off) []) []) 0 * nth j (nth m (Rm3 (evl T SE3_inv)) []) 0)) /\
  (forall T p l z off, length T = 3%nat -> length p = 3%nat -> length l = 2%nat -> length z = 2%nat -> length off = 3%nat ->
     forall a j, (a < 2)%nat -> (j < 2)%nat ->
       nth j (nth a (nth 1 (jac_lmk2 (comp2 T p) (act2 T l) z off) []) []) 0
       = sumnR 2 (fun m => nth m (nth a (nth 1 (jac_lmk2 p l z off) []) []) 0 * nth j (nth m (Rm2 (evl T SE2_inv)) []) 0)) /\
  (forall T u, length T = 7%nat -> length u = 3%nat -> matvec (Rm3 T) u = rot3 T u) /\
  (forall T u, length T = 3%nat -> length u = 2%nat -> matvec (Rm2 T) u = rot2 T u) /\
  (* ---- graph level (lib/GNSpec.v): a per-vertex change of tangent basis  J' = J Q,  Q_k P_k = I  maps every solution d of
          the normal equations to the solution P d of the re-based system, and leaves chi^2 alone ---- *)
  (forall vs es Q P d, wf_graph vs es -> inverse_blocks vs Q P ->
     solves (glen vs) (spec_H vs es) (spec_b vs es) d ->
     solves (glen vs) (spec_H vs (map (tb_edge vs Q) es)) (spec_b vs (map (tb_edge vs Q) es)) (bmul vs P d)) /\
  (forall vs Q es, spec_chi2 (map (tb_edge vs Q) es) = spec_chi2 es) /\
  (* ---- the two levels joined, for WHOLE graphs of odometry and landmark edges (proofs/C07_whole.v): [ds] describes the graph (vertex positions,
          information matrices, and the numbers the regenerated edge programs are run on), [rec3 d] / [rec2 d] is the GraphModel record built from
          what the regenerated error / Jacobian programs RETURN, [move3 T] / [move2 T] replaces every pose p by T (+) p and every landmark l by T.l.
          For every graph, every fixed set, every T and every solution d of the normal equations of the graph, P d solves the normal equations of the
          transformed graph, where P leaves pose increments alone and rotates landmark increments by R_T.  (The normal equations only read
          matrix entries inside their bounds: [edge_sim], proofs/C07_ext.v.)  The premises are met by a concrete three-vertex graph. ---- *)
  (forall vs lm T ds d, length T = 7%nat -> unitq T -> List.Forall (fun v => (0 < v_dim v)%nat) vs ->
     (forall k, (k < length vs)%nat -> lm k = true -> dim_at vs k = 3%nat) ->
     List.Forall (ok3 vs lm) ds -> List.Forall (shape3 vs) ds ->
     solves (glen vs) (spec_H vs (map rec3 ds)) (spec_b vs (map rec3 ds)) d ->
     solves (glen vs) (spec_H vs (map rec3 (map (move3 T) ds))) (spec_b vs (map rec3 (map (move3 T) ds))) (bmul vs (P3 lm T) d)) /\
  (forall vs lm T ds d, length T = 3%nat -> List.Forall (fun v => (0 < v_dim v)%nat) vs ->
     (forall k, (k < length vs)%nat -> lm k = true -> dim_at vs k = 2%nat) ->
     List.Forall (ok2 vs lm) ds -> List.Forall (shape2 vs) ds ->
     solves (glen vs) (spec_H vs (map rec2 ds)) (spec_b vs (map rec2 ds)) d ->
     solves (glen vs) (spec_H vs (map rec2 (map (move2 T) ds))) (spec_b vs (map rec2 (map (move2 T) ds))) (bmul vs (P2 lm T) d)) /\
  (* ... and for the system that the ASSEMBLY ALGORITHM of lib/GraphModel.v produces (assemble_hessian / assemble_gradient: the model of graph.py's
     dictionaries and slice writes), through assembly_correct of C03; the transformed description is again well-formed (unit quaternions stay unit) *)
  (forall vs lm T ds d, length T = 7%nat -> unitq T -> List.Forall (fun v => (0 < v_dim v)%nat) vs ->
     (forall k, (k < length vs)%nat -> lm k = true -> dim_at vs k = 3%nat) ->
     List.Forall (ok3 vs lm) ds -> List.Forall (shape3 vs) ds ->
     solves (glen vs) (assemble_hessian R 0 1 Rplus Rmult vs (map rec3 ds)) (assemble_gradient R 0 Rplus Rmult vs (map rec3 ds)) d ->
     solves (glen vs) (assemble_hessian R 0 1 Rplus Rmult vs (map rec3 (map (move3 T) ds)))
            (assemble_gradient R 0 Rplus Rmult vs (map rec3 (map (move3 T) ds))) (bmul vs (P3 lm T) d)) /\
  (* R^n graphs under a translation: the records (hence gradient, Hessian, chi^2, solutions) are literally the same *)
  (forall T2 T3 ds, length T2 = 2%nat -> length T3 = 3%nat -> List.Forall okR ds -> map recR (map (moveR T2 T3) ds) = map recR ds) /\
  (length ex_T = 7%nat /\ unitq ex_T /\ List.Forall (fun v => (0 < v_dim v)%nat) ex_vs /\
   (forall k, (k < length ex_vs)%nat -> ex_lm k = true -> dim_at ex_vs k = 3%nat) /\
   List.Forall (ok3 ex_vs ex_lm) ex_ds /\ List.Forall (shape3 ex_vs) ex_ds) /\
  (* ---- trajectory when increments are transformed too (landmarks): any solver returning A solution, the
          transformed system having at most one ---- *)
  (forall (P : Type) (tr : nat -> P -> P) (dmap : nat -> list R -> list R) (good : list P -> Prop)
          (sol : list P -> (nat -> list R) -> Prop) (solve : list P -> nat -> list R) (bp : nat -> P -> list R -> P),
     (forall ps, sol ps (solve ps)) ->
     (forall ps dx, good ps -> sol ps dx -> sol (trs P tr ps) (fun k => dmap k (dx k))) ->
     (forall ps d1 d2, good ps -> sol (trs P tr ps) d1 -> sol (trs P tr ps) d2 -> forall k, (k < length ps)%nat -> d1 k = d2 k) ->
     (forall k p d, bp k (tr k p) (dmap k d) = tr k (bp k p d)) ->
     (forall ps, good ps -> good (step2 P solve bp ps)) ->
     forall n ps, good ps -> Nat.iter n (step2 P solve bp) (trs P tr ps) = trs P tr (Nat.iter n (step2 P solve bp) ps)) /\
  (* ---- hence the whole trajectory: for ANY solver (a function of the linearised system) ---- *)
  (forall (P L : Type) (tr : P -> P) (good : list P -> Prop) (linearize : list P -> L) (solve : L -> nat -> list R) (bp : P -> list R -> P),
     (forall ps, good ps -> linearize (map tr ps) = linearize ps) ->
     (forall ps, good ps -> forall p d, List.In p ps -> bp (tr p) d = tr (bp p d)) ->
     (forall ps, good ps -> good (step P L linearize solve bp ps)) ->
     forall n ps, good ps -> Nat.iter n (step P L linearize solve bp) (map tr ps) = map tr (Nat.iter n (step P L linearize solve bp) ps)).
Proof.
  split; [exact C07_odo_SE3|]. split; [exact C07_lmk_SE3|]. split; [exact C07_odo_SE2|]. split; [exact C07_lmk_SE2|].
  split; [exact C07_Rn|].
  split; [exact C07_boxplus_SE3|]. split; [exact C07_boxplus_SE2|]. split; [exact C07_boxplus_point3|]. split; [exact C07_boxplus_point2|].
  split; [exact C07_jac_odo_SE3|]. split; [exact C07_jac_lmk_SE3_pose|].
  split; [exact C07_jac_odo_SE2|]. split; [exact C07_jac_lmk_SE2_pose|].
  split; [exact C07_jac_Rn|].
  split; [intros; split; [apply C07_jac_lmk_SE3_point | apply C07_jac_lmk_SE3_point_inv]; assumption|].
  split; [intros; split; [apply C07_jac_lmk_SE2_point | apply C07_jac_lmk_SE2_point_inv]; assumption|].
  split; [exact rot3_inverse|]. split; [exact rot2_inverse|].
  split; [exact C07_lmk3_is_rebased|]. split; [exact C07_lmk2_is_rebased|]. split; [exact Rm3_spec|]. split; [exact Rm2_spec|].
  split; [exact basis_change_inv|]. split; [exact chi2_tb|].
  split; [exact C07_graph_SE3_descr|]. split; [exact C07_graph_SE2_descr|]. split; [exact C07_graph_SE3_assembled|]. split; [exact C07_graph_Rn|]. split; [exact C07_graph_SE3_premises|].
  split; [exact trajectory2_equivariant|].
  exact trajectory_equivariant.
Qed.
