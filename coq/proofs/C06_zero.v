(* C06: a zero increment does not move an SE(2) pose whose angle is in range. *)
From Coq Require Import Reals List Arith Bool Lia Lra.
From GS Require Import ExprR LinAlg Meth MethR GenSE2 C10_SE2 C09_SE2 C01_SE3 C01_SE2.
Import ListNotations.
Open Scope R_scope.

Lemma SE2_boxplus_zero p : length p = 3%nat -> in_range p -> SE2_boxplus_fun p (zeros 3) = p.
Proof.
  intros Hp Hr. unfold SE2_boxplus_fun. list_len p Hp. unfold in_range in Hr. simpl in Hr.
  cbv - [Rplus Rmult Rminus Ropp Rdiv Rinv sqrt IZR pow sin cos PI rmod].
  repeat (f_equal; try ring). replace (x1 + 0) with x1 by ring. fold (Wrap.wrap x1). apply Wrap.wrap_id; auto.
Qed.

