(* C07_wholeRn.v — R^2 / R^3 graphs under a translation of the world: the GraphModel records built from what the regenerated programs return
   are LITERALLY the same records, hence the same normal equations, the same solutions, the same chi^2 -- for every graph. *)
From Coq Require Import Reals List Arith Bool Lra ZArith Lia.
From Coquelicot Require Import Coquelicot.
From GS Require Import ExprR LinAlg Meth MethR Prog Chain Wrap Spec GenR2 GenR3 GenSE2 GenSE3 GenEdges
  C10_SE3 C10_SE3_boxplus C10_SE2 C10_Rn C09_SE3 C09_SE2 C11_main C01_SE3 C01_Rn C01_SE2 C02_model C07_errors C07_equiv C07_RnJac
  GraphModel GNSpec.
Import ListNotations.
Open Scope R_scope.

Inductive edescR : Type :=
| OdoR2 (ka kb : nat) (Om : list (list R)) (p1 p2 z : list R)
| OdoR3 (ka kb : nat) (Om : list (list R)) (p1 p2 z : list R)
| LmkR2 (kp kl : nat) (Om : list (list R)) (p l z off : list R)
| LmkR3 (kp kl : nat) (Om : list (list R)) (p l z off : list R).
Definition mkrec (n : nat) (ka kb : nat) (Om : list (list R)) (err : list R) (jacs : list (list (list R))) : Redge :=
  mkedge R [ka; kb] (vec_of_list R 0 err) (mat_of_list R 0 n n Om) [mat_of_list R 0 n n (nth 0 jacs []); mat_of_list R 0 n n (nth 1 jacs [])].
Definition recR (d : edescR) : Redge :=
  match d with
  | OdoR2 ka kb Om p1 p2 z => mkrec 2 ka kb Om (err_odoR2 p1 p2 z) (jac_odoR2 p1 p2 z)
  | OdoR3 ka kb Om p1 p2 z => mkrec 3 ka kb Om (err_odoR3 p1 p2 z) (jac_odoR3 p1 p2 z)
  | LmkR2 kp kl Om p l z off => mkrec 2 kp kl Om (err_lmkR2 p l z off) (jac_lmkR2 p l z off)
  | LmkR3 kp kl Om p l z off => mkrec 3 kp kl Om (err_lmkR3 p l z off) (jac_lmkR3 p l z off)
  end.
Definition moveR (T2 T3 : list R) (d : edescR) : edescR :=
  match d with
  | OdoR2 ka kb Om p1 p2 z => OdoR2 ka kb Om (vadd T2 p1) (vadd T2 p2) z
  | OdoR3 ka kb Om p1 p2 z => OdoR3 ka kb Om (vadd T3 p1) (vadd T3 p2) z
  | LmkR2 kp kl Om p l z off => LmkR2 kp kl Om (vadd T2 p) (vadd T2 l) z off
  | LmkR3 kp kl Om p l z off => LmkR3 kp kl Om (vadd T3 p) (vadd T3 l) z off
  end.
Definition okR (d : edescR) : Prop :=
  match d with
  | OdoR2 _ _ _ p1 p2 z => length p1 = 2%nat /\ length p2 = 2%nat /\ length z = 2%nat
  | OdoR3 _ _ _ p1 p2 z => length p1 = 3%nat /\ length p2 = 3%nat /\ length z = 3%nat
  | LmkR2 _ _ _ p l z off => length p = 2%nat /\ length l = 2%nat /\ length z = 2%nat /\ length off = 2%nat
  | LmkR3 _ _ _ p l z off => length p = 3%nat /\ length l = 3%nat /\ length z = 3%nat /\ length off = 3%nat
  end.

Lemma recR_moved T2 T3 d : length T2 = 2%nat -> length T3 = 3%nat -> okR d -> recR (moveR T2 T3 d) = recR d.
Proof.
  intros H2 H3 Hok. destruct C07_Rn as (E1 & E2 & E3 & E4). destruct C07_jac_Rn as (J1 & J2 & J3 & J4).
  destruct d as [ka kb Om p1 p2 z | ka kb Om p1 p2 z | kp kl Om p l z off | kp kl Om p l z off]; cbn [recR moveR okR] in *.
  - destruct Hok as (A & B & C). rewrite (E1 T2 p1 p2 z H2 A B C), (J1 T2 p1 p2 z H2 A B C). reflexivity.
  - destruct Hok as (A & B & C). rewrite (E2 T3 p1 p2 z H3 A B C), (J2 T3 p1 p2 z H3 A B C). reflexivity.
  - destruct Hok as (A & B & C & D). rewrite (E3 T2 p l z off H2 A B C D), (J3 T2 p l z off H2 A B C D). reflexivity.
  - destruct Hok as (A & B & C & D). rewrite (E4 T3 p l z off H3 A B C D), (J4 T3 p l z off H3 A B C D). reflexivity.
Qed.

Theorem C07_graph_Rn T2 T3 ds : length T2 = 2%nat -> length T3 = 3%nat -> List.Forall okR ds ->
  map recR (map (moveR T2 T3) ds) = map recR ds.
Proof.
  intros H2 H3 Hok. induction Hok as [|d ds Hd Hds IH]; cbn [map]; [reflexivity|].
  rewrite IH, (recR_moved T2 T3 d H2 H3 Hd). reflexivity.
Qed.

(* hence: the same gradient, Hessian, chi^2 and the same solutions, whatever the vertex list and the fixed set *)
Corollary C07_graph_Rn_solves vs T2 T3 ds d : length T2 = 2%nat -> length T3 = 3%nat -> List.Forall okR ds ->
  (solves (glen vs) (spec_H vs (map recR ds)) (spec_b vs (map recR ds)) d <->
   solves (glen vs) (spec_H vs (map recR (map (moveR T2 T3) ds))) (spec_b vs (map recR (map (moveR T2 T3) ds))) d) /\
  spec_chi2 (map recR (map (moveR T2 T3) ds)) = spec_chi2 (map recR ds).
Proof. intros H2 H3 Hok. rewrite (C07_graph_Rn T2 T3 ds H2 H3 Hok). split; [tauto | reflexivity]. Qed.
