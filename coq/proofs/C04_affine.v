(* C04: the regenerated R^2 / R^3 edge programs are affine with the constant Jacobians they report:
   err(p1 + d1, p2 + d2) = err(p1, p2) + J_0 d1 + J_1 d2   (boxplus on R^n is addition). *)
From Coq Require Import Reals List Lra ZArith Lia.
From GS Require Import ExprR LinAlg Meth Prog Chain GenR2 GenR3 GenEdges C10_Rn C01_Rn.
Import ListNotations.
Open Scope R_scope.
Ltac cbz := cbv - [Rplus Rmult Rminus Ropp Rdiv Rinv sqrt IZR pow].

Theorem C04_affine_edges :
  (forall p1 p2 z d1 d2, length p1 = 2%nat -> length p2 = 2%nat -> length z = 2%nat -> length d1 = 2%nat -> length d2 = 2%nat ->
     err_odoR2 (R2_boxplus_fun p1 d1) (R2_boxplus_fun p2 d2) z =
     vadd (err_odoR2 p1 p2 z) (vadd (matvec (nth 0 (jac_odoR2 p1 p2 z) []) d1) (matvec (nth 1 (jac_odoR2 p1 p2 z) []) d2)) /\
     jac_odoR2 (R2_boxplus_fun p1 d1) (R2_boxplus_fun p2 d2) z = jac_odoR2 p1 p2 z) /\
  (forall p1 p2 z d1 d2, length p1 = 3%nat -> length p2 = 3%nat -> length z = 3%nat -> length d1 = 3%nat -> length d2 = 3%nat ->
     err_odoR3 (R3_boxplus_fun' p1 d1) (R3_boxplus_fun' p2 d2) z =
     vadd (err_odoR3 p1 p2 z) (vadd (matvec (nth 0 (jac_odoR3 p1 p2 z) []) d1) (matvec (nth 1 (jac_odoR3 p1 p2 z) []) d2)) /\
     jac_odoR3 (R3_boxplus_fun' p1 d1) (R3_boxplus_fun' p2 d2) z = jac_odoR3 p1 p2 z) /\
  (forall p l z off d1 d2, length p = 2%nat -> length l = 2%nat -> length z = 2%nat -> length off = 2%nat -> length d1 = 2%nat -> length d2 = 2%nat ->
     err_lmkR2 (R2_boxplus_fun p d1) (R2_boxplus_fun l d2) z off =
     vadd (err_lmkR2 p l z off) (vadd (matvec (nth 0 (jac_lmkR2 p l z off) []) d1) (matvec (nth 1 (jac_lmkR2 p l z off) []) d2)) /\
     jac_lmkR2 (R2_boxplus_fun p d1) (R2_boxplus_fun l d2) z off = jac_lmkR2 p l z off) /\
  (forall p l z off d1 d2, length p = 3%nat -> length l = 3%nat -> length z = 3%nat -> length off = 3%nat -> length d1 = 3%nat -> length d2 = 3%nat ->
     err_lmkR3 (R3_boxplus_fun' p d1) (R3_boxplus_fun' l d2) z off =
     vadd (err_lmkR3 p l z off) (vadd (matvec (nth 0 (jac_lmkR3 p l z off) []) d1) (matvec (nth 1 (jac_lmkR3 p l z off) []) d2)) /\
     jac_lmkR3 (R3_boxplus_fun' p d1) (R3_boxplus_fun' l d2) z off = jac_lmkR3 p l z off).
Proof.
  split; [|split; [|split]].
  - intros p1 p2 z d1 d2 H H0 H1 H2 H3. list_len p1 H. list_len p2 H0. list_len z H1. list_len d1 H2. list_len d2 H3.
    split; [cbz; repeat (f_equal; try ring) | cbz; reflexivity].
  - intros p1 p2 z d1 d2 H H0 H1 H2 H3. list_len p1 H. list_len p2 H0. list_len z H1. list_len d1 H2. list_len d2 H3.
    split; [cbz; repeat (f_equal; try ring) | cbz; reflexivity].
  - intros p l z off d1 d2 H H0 H1 H2 H3 H4. list_len p H. list_len l H0. list_len z H1. list_len off H2. list_len d1 H3. list_len d2 H4.
    split; [cbz; repeat (f_equal; try ring) | cbz; reflexivity].
  - intros p l z off d1 d2 H H0 H1 H2 H3 H4. list_len p H. list_len l H0. list_len z H1. list_len off H2. list_len d1 H3. list_len d2 H4.
    split; [cbz; repeat (f_equal; try ring) | cbz; reflexivity].
Qed.
