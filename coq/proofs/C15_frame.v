(* C15: frame conditions decided on the effect table regenerated from the source (coq/gen/GenEffects.v):
   queries never store to protected state, pose operators never write into their operands,
   optimize() stores only to vertex poses, the fixed flag and private caches.  The space is finite
   (the methods of the package), so these are proofs by computation. *)
From Coq Require Import List String Bool.
From GS Require Import EffectModel GenEffects.
Import ListNotations.
Open Scope string_scope.

Definition Q_pure : list string :=
  ["BaseEdge.calc_chi2"; "BaseEdge.equals"; "BaseEdge.to_g2o"; "BaseEdge._is_valid";
   "EdgeOdometry.calc_error"; "EdgeOdometry.calc_jacobians"; "EdgeOdometry.to_g2o"; "EdgeOdometry.is_valid";
   "EdgeLandmark.calc_error"; "EdgeLandmark.calc_jacobians"; "EdgeLandmark.to_g2o"; "EdgeLandmark.is_valid"; "EdgeLandmark.equals";
   "Vertex.equals"; "Vertex.to_g2o"; "Graph.calc_chi2"; "Graph.to_g2o"; "Graph.equals";
   "G2OParameterSE2Offset.to_g2o"; "G2OParameterSE3Offset.to_g2o"].
(* queries that may run the numerical differentiation (vertex.pose perturbed and restored) *)
Definition Q_numjac : list string :=
  ["BaseEdge.calc_jacobians"; "BaseEdge._calc_jacobian"; "BaseEdge.calc_chi2_gradient_hessian"].
Definition pose_ops (c : string) : list string :=
  map (fun m => c ++ "." ++ m)
    ["__add__"; "__sub__"; "inverse"; "copy"; "to_array"; "to_compact"; "identity"; "position"; "orientation";
     "jacobian_self_oplus_other_wrt_self"; "jacobian_self_oplus_other_wrt_self_compact";
     "jacobian_self_oplus_other_wrt_other"; "jacobian_self_oplus_other_wrt_other_compact";
     "jacobian_self_ominus_other_wrt_self"; "jacobian_self_ominus_other_wrt_self_compact";
     "jacobian_self_ominus_other_wrt_other"; "jacobian_self_ominus_other_wrt_other_compact";
     "jacobian_boxplus"; "jacobian_self_oplus_point_wrt_self"; "jacobian_self_oplus_point_wrt_point"; "jacobian_inverse"].
Definition P_ops : list string :=
  pose_ops "PoseR2" ++ pose_ops "PoseR3" ++ pose_ops "PoseSE2" ++ pose_ops "PoseSE3" ++
  ["PoseSE2.to_matrix"; "PoseSE3.to_matrix"; "BasePose.__iadd__"; "BasePose.equals"].

Definition all_defined (t : table) (l : list string) : bool := forallb (fun q => existsb (fun p => String.eqb (fst p) q) t) l.

Lemma frame_queries : all_defined effects_table Q_pure = true /\ forallb (query_pure effects_table) Q_pure = true.
Proof. split; vm_compute; reflexivity. Qed.
Lemma frame_numjac : all_defined effects_table Q_numjac = true /\
  forallb (fun q => forallb numjac_ok (closure effects_table FUEL (direct effects_table q))) Q_numjac = true.
Proof. split; vm_compute; reflexivity. Qed.
Lemma frame_pose_ops : all_defined effects_table P_ops = true /\ forallb (pose_op_pure effects_table) P_ops = true.
Proof. split; vm_compute; reflexivity. Qed.
Lemma frame_optimize : forallb allowed_optimize (closure effects_table FUEL (direct effects_table "Graph.optimize")) = true.
Proof. vm_compute. reflexivity. Qed.
(* the analysis is not vacuous: these synthetic bodies are rejected *)
Example rejects_normalizing_export :
  query_pure [("X.to_g2o", [ECallMut "self.estimate" "normalize"])] "X.to_g2o" = false /\
  pose_op_pure [("P.__iadd__", [EWriteInto "self"])] "P.__iadd__" = false /\
  query_pure [("G.calc_chi2", [ECall "helper"]); ("E.helper", [EWriteAttr "self.vertices[*]" "pose"])] "G.calc_chi2" = false /\
  forallb allowed_optimize [EWriteAttr "self._edges[*]" "information"] = false /\
  forallb allowed_optimize [EWriteAttr "self._vertices[*]" "fixed"] = false.
Proof. repeat split; vm_compute; reflexivity. Qed.
