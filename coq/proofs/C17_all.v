(* C17_all.v — the theorems of C17 over the reals, assembled from the structural half
   (C17_struct.v, any numeric test) and the numeric half (C17_num.v). *)
From Coq Require Import Reals List ZArith Lra.
From GS Require Import PyBase EqualsModel EqualsSpec C17_struct C17_num.
Import ListNotations.
Open Scope R_scope.

(* the abstract test of C17_struct instantiated at (Rminus, smallR tol) is closeR tol *)
Lemma cl_is_closeR tol x y : cl R Rminus (smallR tol) x y <-> closeR tol x y.
Proof. unfold cl, closeR, diffR. tauto. Qed.

Section Tol.
  Variable tol : R.

  (* ---- total: never raises on well-formed objects (any tol, even <= 0) ---- *)
  Theorem total_all :
    (forall a b, wf_pose a -> wf_pose b -> forall e, equalsR_pose tol a b <> VRaise e) /\
    (forall a b, wf_vertex a -> wf_vertex b -> forall e, equalsR_vertex tol a b <> VRaise e) /\
    (forall a b, wf_edge a -> wf_edge b -> forall e, equalsR_edge tol a b <> VRaise e) /\
    (forall a b, wf_graph a -> wf_graph b -> forall e, equalsR_graph tol a b <> VRaise e).
  Proof.
    split; [|split; [|split]]; intros a b Ha Hb.
    - exact (pose_total R Rminus (smallR tol) a b Ha Hb).
    - exact (vertex_total R Rminus (smallR tol) a b Ha Hb).
    - exact (edge_total R Rminus (smallR tol) a b Ha Hb).
    - exact (graph_total R Rminus (smallR tol) a b Ha Hb).
  Qed.

  (* ---- characterisation ---- *)
  Theorem iff_all :
    (forall a b, wf_pose a -> wf_pose b -> (equalsR_pose tol a b = VTrue <-> pose_rel (closeR tol) a b)) /\
    (forall a b, wf_vertex a -> wf_vertex b -> (equalsR_vertex tol a b = VTrue <-> vertex_rel (closeR tol) a b)) /\
    (forall a b, wf_edge a -> wf_edge b -> (equalsR_edge tol a b = VTrue <-> edge_rel (closeR tol) a b)) /\
    (forall a b, wf_graph a -> wf_graph b -> (equalsR_graph tol a b = VTrue <-> graph_rel (closeR tol) a b)).
  Proof.
    split; [|split; [|split]]; intros a b Ha Hb.
    - exact (pose_iff R Rminus (smallR tol) a b Ha Hb).
    - exact (vertex_iff R Rminus (smallR tol) a b Ha Hb).
    - exact (edge_iff R Rminus (smallR tol) a b Ha Hb).
    - exact (graph_iff R Rminus (smallR tol) a b Ha Hb).
  Qed.

  Lemma false_graph a b : wf_graph a -> wf_graph b -> (equalsR_graph tol a b = VFalse <-> ~ graph_rel (closeR tol) a b).
  Proof. intros Ha Hb. exact (graph_false_iff R Rminus (smallR tol) a b Ha Hb). Qed.
  Lemma false_edge a b : wf_edge a -> wf_edge b -> (equalsR_edge tol a b = VFalse <-> ~ edge_rel (closeR tol) a b).
  Proof. intros Ha Hb. exact (edge_false_iff R Rminus (smallR tol) a b Ha Hb). Qed.
  Lemma false_vertex a b : wf_vertex a -> wf_vertex b -> (equalsR_vertex tol a b = VFalse <-> ~ vertex_rel (closeR tol) a b).
  Proof. intros Ha Hb. exact (vertex_false_iff R Rminus (smallR tol) a b Ha Hb). Qed.
  Lemma false_pose a b : wf_pose a -> wf_pose b -> (equalsR_pose tol a b = VFalse <-> ~ pose_rel (closeR tol) a b).
  Proof. intros Ha Hb. exact (pose_false_iff R Rminus (smallR tol) a b Ha Hb). Qed.

  Hypothesis tol_pos : 0 < tol.

  (* ---- an object equals itself; a copy is the same value in the model ---- *)
  Theorem refl_all :
    (forall a, wf_pose a -> equalsR_pose tol a a = VTrue) /\
    (forall a, wf_vertex a -> equalsR_vertex tol a a = VTrue) /\
    (forall a, wf_edge a -> equalsR_edge tol a a = VTrue) /\
    (forall a, wf_graph a -> equalsR_graph tol a a = VTrue).
  Proof.
    destruct iff_all as [Hp [Hv [He Hg]]]. split; [|split; [|split]]; intros a Ha.
    - apply Hp; auto. apply pose_rel_refl. intros x. apply closeR_refl. exact tol_pos.
    - apply Hv; auto. split; [reflexivity|]. apply pose_rel_refl. intros x. apply closeR_refl. exact tol_pos.
    - apply He; auto. apply edge_rel_refl; auto. intros x. apply closeR_refl. exact tol_pos.
    - apply Hg; auto. apply graph_rel_refl; auto. intros x. apply closeR_refl. exact tol_pos.
  Qed.

  (* ---- far below the band: True, in both directions ---- *)
  Theorem near_all :
    (forall a b, wf_pose a -> wf_pose b -> pose_rel (nearR tol) a b -> equalsR_pose tol a b = VTrue /\ equalsR_pose tol b a = VTrue) /\
    (forall a b, wf_vertex a -> wf_vertex b -> vertex_rel (nearR tol) a b -> equalsR_vertex tol a b = VTrue /\ equalsR_vertex tol b a = VTrue) /\
    (forall a b, wf_edge a -> wf_edge b -> edge_rel (nearR tol) a b -> equalsR_edge tol a b = VTrue /\ equalsR_edge tol b a = VTrue) /\
    (forall a b, wf_graph a -> wf_graph b -> graph_rel (nearR tol) a b -> equalsR_graph tol a b = VTrue /\ equalsR_graph tol b a = VTrue).
  Proof.
    destruct iff_all as [Hp [Hv [He Hg]]].
    assert (NC : forall x y, nearR tol x y -> closeR tol x y) by (intros x y; apply near_close; exact tol_pos).
    assert (NS : forall x y, nearR tol x y -> nearR tol y x) by (intros x y; apply nearR_sym).
    split; [|split; [|split]]; intros a b Ha Hb H1; split.
    - apply Hp; auto. exact (pose_rel_mono R (nearR tol) (closeR tol) NC _ _ H1).
    - apply Hp; auto. apply (pose_rel_mono R (nearR tol) (closeR tol) NC). exact (pose_rel_sym R (nearR tol) NS _ _ H1).
    - apply Hv; auto. exact (vertex_rel_mono R (nearR tol) (closeR tol) NC _ _ H1).
    - apply Hv; auto. apply (vertex_rel_mono R (nearR tol) (closeR tol) NC). exact (vertex_rel_sym R (nearR tol) NS _ _ H1).
    - apply He; auto. exact (edge_rel_mono R (nearR tol) (closeR tol) NC _ _ H1).
    - apply He; auto. apply (edge_rel_mono R (nearR tol) (closeR tol) NC). exact (edge_rel_sym R (nearR tol) NS _ _ H1).
    - apply Hg; auto. exact (graph_rel_mono R (nearR tol) (closeR tol) NC _ _ H1).
    - apply Hg; auto. apply (graph_rel_mono R (nearR tol) (closeR tol) NC). exact (graph_rel_sym R (nearR tol) NS _ _ H1).
  Qed.

  (* ---- far above the band in some component (or a structural difference): False, both directions.
     [rel (notfarR tol) a b] says: same structure and NO pair of corresponding arrays is far apart *)
  Theorem far_all :
    (forall a b, wf_pose a -> wf_pose b -> ~ pose_rel (notfarR tol) a b -> equalsR_pose tol a b = VFalse /\ equalsR_pose tol b a = VFalse) /\
    (forall a b, wf_vertex a -> wf_vertex b -> ~ vertex_rel (notfarR tol) a b -> equalsR_vertex tol a b = VFalse /\ equalsR_vertex tol b a = VFalse) /\
    (forall a b, wf_edge a -> wf_edge b -> ~ edge_rel (notfarR tol) a b -> equalsR_edge tol a b = VFalse /\ equalsR_edge tol b a = VFalse) /\
    (forall a b, wf_graph a -> wf_graph b -> ~ graph_rel (notfarR tol) a b -> equalsR_graph tol a b = VFalse /\ equalsR_graph tol b a = VFalse).
  Proof.
    assert (CN : forall x y, closeR tol x y -> notfarR tol x y) by (intros x y; apply close_not_far; exact tol_pos).
    assert (NS : forall x y, notfarR tol x y -> notfarR tol y x) by (intros x y H Hf; apply H; apply farR_sym; exact Hf).
    split; [|split; [|split]]; intros a b Ha Hb H1; split.
    - apply false_pose; auto. intros Hr. apply H1. exact (pose_rel_mono R (closeR tol) (notfarR tol) CN _ _ Hr).
    - apply false_pose; auto. intros Hr. apply H1. apply (pose_rel_sym R (notfarR tol) NS). exact (pose_rel_mono R (closeR tol) (notfarR tol) CN _ _ Hr).
    - apply false_vertex; auto. intros Hr. apply H1. exact (vertex_rel_mono R (closeR tol) (notfarR tol) CN _ _ Hr).
    - apply false_vertex; auto. intros Hr. apply H1. apply (vertex_rel_sym R (notfarR tol) NS). exact (vertex_rel_mono R (closeR tol) (notfarR tol) CN _ _ Hr).
    - apply false_edge; auto. intros Hr. apply H1. exact (edge_rel_mono R (closeR tol) (notfarR tol) CN _ _ Hr).
    - apply false_edge; auto. intros Hr. apply H1. apply (edge_rel_sym R (notfarR tol) NS). exact (edge_rel_mono R (closeR tol) (notfarR tol) CN _ _ Hr).
    - apply false_graph; auto. intros Hr. apply H1. exact (graph_rel_mono R (closeR tol) (notfarR tol) CN _ _ Hr).
    - apply false_graph; auto. intros Hr. apply H1. apply (graph_rel_sym R (notfarR tol) NS). exact (graph_rel_mono R (closeR tol) (notfarR tol) CN _ _ Hr).
  Qed.
End Tol.

(* ---- any structural difference: False, in both directions, whatever the numbers and tol ---- *)
Theorem structural_all tol :
  (forall a b, wf_pose a -> wf_pose b -> ~ pose_rel anyP a b -> equalsR_pose tol a b = VFalse /\ equalsR_pose tol b a = VFalse) /\
  (forall a b, wf_vertex a -> wf_vertex b -> ~ vertex_rel anyP a b -> equalsR_vertex tol a b = VFalse /\ equalsR_vertex tol b a = VFalse) /\
  (forall a b, wf_edge a -> wf_edge b -> ~ edge_rel anyP a b -> equalsR_edge tol a b = VFalse /\ equalsR_edge tol b a = VFalse) /\
  (forall a b, wf_graph a -> wf_graph b -> ~ graph_rel anyP a b -> equalsR_graph tol a b = VFalse /\ equalsR_graph tol b a = VFalse).
Proof.
  assert (CA : forall x y : list R, closeR tol x y -> anyP x y) by (intros; exact I).
  assert (AS : forall x y : list R, anyP x y -> anyP y x) by (intros; exact I).
  split; [|split; [|split]]; intros a b Ha Hb H1; split.
  - apply false_pose; auto. intros Hr. apply H1. exact (pose_rel_mono R (closeR tol) anyP CA _ _ Hr).
  - apply false_pose; auto. intros Hr. apply H1. apply (pose_rel_sym R anyP AS). exact (pose_rel_mono R (closeR tol) anyP CA _ _ Hr).
  - apply false_vertex; auto. intros Hr. apply H1. exact (vertex_rel_mono R (closeR tol) anyP CA _ _ Hr).
  - apply false_vertex; auto. intros Hr. apply H1. apply (vertex_rel_sym R anyP AS). exact (vertex_rel_mono R (closeR tol) anyP CA _ _ Hr).
  - apply false_edge; auto. intros Hr. apply H1. exact (edge_rel_mono R (closeR tol) anyP CA _ _ Hr).
  - apply false_edge; auto. intros Hr. apply H1. apply (edge_rel_sym R anyP AS). exact (edge_rel_mono R (closeR tol) anyP CA _ _ Hr).
  - apply false_graph; auto. intros Hr. apply H1. exact (graph_rel_mono R (closeR tol) anyP CA _ _ Hr).
  - apply false_graph; auto. intros Hr. apply H1. apply (graph_rel_sym R anyP AS). exact (graph_rel_mono R (closeR tol) anyP CA _ _ Hr).
Qed.

(* what "same structure" unfolds to, so that the reader sees which differences are covered *)
Theorem structure_meaning :
  (forall a b : pose R, pose_rel anyP a b <-> p_kind a = p_kind b /\ length (p_num a) = length (p_num b)) /\
  (forall a b : vertex R, vertex_rel anyP a b <-> v_id a = v_id b /\ p_kind (v_pose a) = p_kind (v_pose b) /\
                                               length (p_num (v_pose a)) = length (p_num (v_pose b))) /\
  (forall a b : edge R, edge_rel anyP a b ->
     e_class a = e_class b /\ e_ids a = e_ids b /\ a_shape (e_info a) = a_shape (e_info b) /\
     match e_est a, e_est b with
     | EPose p, EPose q => p_kind p = p_kind q
     | EArr x, EArr y => a_shape x = a_shape y
     | _, _ => False
     end /\
     (e_class a = Landmark -> e_offid a = e_offid b /\
        exists p q, e_off a = Some p /\ e_off b = Some q /\ p_kind p = p_kind q)) /\
  (forall a b : graph R, graph_rel anyP a b ->
     length (g_edges a) = length (g_edges b) /\ length (g_vertices a) = length (g_vertices b) /\
     (forall i ea eb, nth_error (g_edges a) i = Some ea -> nth_error (g_edges b) i = Some eb -> edge_rel anyP ea eb) /\
     (forall i va vb, nth_error (g_vertices a) i = Some va -> nth_error (g_vertices b) i = Some vb -> vertex_rel anyP va vb)).
Proof.
  split; [|split; [|split]].
  - intros a b. unfold pose_rel, anyP. tauto.
  - intros a b. unfold vertex_rel, pose_rel, anyP. tauto.
  - intros a b [H1 [H2 [[H3 _] [H4 H5]]]]. repeat split; auto.
    + destruct (e_est a), (e_est b); simpl in *; try contradiction; [destruct H4; auto|destruct H4; auto].
    + destruct (H5 H) as [_ Ho]. exact Ho.
    + destruct (H5 H) as [[p [q [Hp [Hq [Hk _]]]]] _]. exists p, q. auto.
  - intros a b [He Hv]. split; [eapply Forall2_len; eauto|]. split; [eapply Forall2_len; eauto|]. split.
    + clear Hv. induction He as [|x y la lb Hxy _ IH]; intros i ea eb Ha Hb; destruct i; simpl in *; try discriminate.
      * inversion Ha. inversion Hb. subst. exact Hxy.
      * eapply IH; eauto.
    + clear He. induction Hv as [|x y la lb Hxy _ IH]; intros i ea eb Ha Hb; destruct i; simpl in *; try discriminate.
      * inversion Ha. inversion Hb. subst. exact Hxy.
      * eapply IH; eauto.
Qed.

(* ---- the hypotheses are satisfiable: a well-formed graph with a landmark edge ---- *)
Example wf_example :
  wf_graph (mkgraph [mkedge Landmark [1%Z; 2%Z] (mkarr [2%nat; 2%nat] [1; 0; 0; 1]) (EPose (mkpose PR2 [1; 2]))
                            (Some (mkpose PSE2 [0; 0; 0])) None]
                    [mkvertex 1 (mkpose PSE2 [0; 0; 0]); mkvertex 2 (mkpose PR2 [1; 2])]).
Proof.
  split.
  - constructor; [|constructor]. split; [reflexivity|]. intros _. eexists. split; reflexivity.
  - repeat constructor.
Qed.

(* ---- without well-formedness the full statement is false: a landmark edge whose offset is None
   (the documented default-less parameter `offset : BasePose, None`) makes equals raise ---- *)
Theorem total_refuted_offset_none :
  exists a : edge R, equalsR_edge 1 a a = VRaise AttributeError.
Proof.
  exists (mkedge Landmark [1%Z; 2%Z] (mkarr [2%nat; 2%nat] [1; 0; 0; 1]) (EPose (mkpose PR2 [1; 2])) None None).
  reflexivity.
Qed.
