(* C14_import.v -- the reader: one item per line, fields, skipping, dispatch. *)
From Coq Require Import List ZArith String Ascii Bool Arith Lia.
From GS Require Import G2OModel G2OSpec C14_text.
Import ListNotations.
Open Scope string_scope.
Open Scope list_scope.
Open Scope nat_scope.

Section Import.
  Variable num : Type.
  Variable parse : string -> option num.
  Variable parse_id : string -> option Z.
  Variable wrap : num -> num.
  Variable normq : list num -> list num.
  Variable zero : num.

  Notation parse_line := (parse_line num parse parse_id wrap normq zero).
  Notation imp := (imp num parse parse_id wrap normq zero).
  Notation import := (import num parse parse_id wrap normq zero).
  Notation trace := (trace num parse parse_id wrap normq zero).
  Notation unrecognised := (unrecognised num parse parse_id wrap normq zero).
  Notation parse_fields := (parse_fields num parse parse_id).
  Notation parse_nums := (parse_nums num parse).
  Notation parse_ids := (parse_ids parse_id).

  (* ---------- imp over a concatenation ---------- *)
  Lemma imp_app : forall cts l1 l2 ps,
    imp cts ps (l1 ++ l2) =
    match imp cts ps l1 with
    | Error e => Error e
    | Ok (ps1, (v1, e1, w1)) =>
        match imp cts ps1 l2 with
        | Error e => Error e
        | Ok (ps2, (v2, e2, w2)) => Ok (ps2, (v1 ++ v2, e1 ++ e2, w1 ++ w2))
        end
    end.
  Proof.
    intros cts. induction l1 as [|l r IH]; intros l2 ps.
    - simpl. destruct (imp cts ps l2) as [[ps2 [[v2 e2] w2]]|e]; reflexivity.
    - simpl. destruct (parse_line cts ps l) as [it|e]; [|reflexivity].
      rewrite IH. destruct (imp cts (step_params num ps it) r) as [[ps1 [[v1 e1] w1]]|e]; [|reflexivity].
      destruct (imp cts ps1 l2) as [[ps2 [[v2 e2] w2]]|e]; destruct it; reflexivity.
  Qed.

  (* ---------- C14_one_object_per_line ---------- *)
  Lemma imp_trace : forall cts ls ps ps' vs es ws,
    imp cts ps ls = Ok (ps', (vs, es, ws)) ->
    exists its, trace cts ps ls its ps' /\
                List.length its = List.length ls /\
                vs = flat_map (verts_of num) its /\
                es = flat_map (edges_of num) its /\
                ws = flat_map (warns_of num) (combine ls its).
  Proof.
    intros cts. induction ls as [|l r IH]; intros ps ps' vs es ws H; simpl in H.
    - inversion H; subst. exists []. split; [constructor|]. repeat split.
    - destruct (parse_line cts ps l) as [it|e] eqn:E; [|discriminate].
      destruct (imp cts (step_params num ps it) r) as [[ps1 [[v1 e1] w1]]|e] eqn:E2; [|discriminate].
      destruct (IH _ _ _ _ _ E2) as (its & Ht & Hl & Hv & He & Hw).
      assert (Hps : ps1 = ps') by (destruct it; inversion H; reflexivity). subst ps1.
      exists (it :: its). split; [econstructor; eassumption|].
      split; [simpl; now rewrite Hl|].
      destruct it; inversion H; subst; simpl; repeat split; reflexivity.
  Qed.

  Lemma trace_imp : forall cts ls ps its ps',
    trace cts ps ls its ps' ->
    imp cts ps ls = Ok (ps', (flat_map (verts_of num) its, flat_map (edges_of num) its,
                              flat_map (warns_of num) (combine ls its))).
  Proof.
    intros cts ls ps its ps' H. induction H as [ps | ps l r it its ps' Hp Ht IH]; [reflexivity|].
    simpl. rewrite Hp, IH. destruct it; reflexivity.
  Qed.

  (* ---------- C14_skip ---------- *)
  Lemma parse_line_blank : forall cts ps l, blank l = true -> parse_line cts ps l = Ok IBlank.
  Proof. intros cts ps l H. unfold G2OModel.parse_line. now rewrite H. Qed.

  Lemma imp_skip_blank : forall cts l1 l l2 ps, blank l = true ->
    imp cts ps (l1 ++ l :: l2) = imp cts ps (l1 ++ l2).
  Proof.
    intros cts l1 l l2 ps Hb. rewrite !imp_app.
    destruct (imp cts ps l1) as [[ps1 [[v1 e1] w1]]|e]; [|reflexivity].
    simpl. rewrite parse_line_blank by exact Hb. simpl.
    destruct (imp cts ps1 l2) as [[ps2 [[v2 e2] w2]]|e]; reflexivity.
  Qed.

  Lemma imp_skip_junk : forall cts l1 l l2 ps, unrecognised cts l ->
    imp cts ps (l1 ++ l :: l2) =
    match imp cts ps l1 with
    | Error e => Error e
    | Ok (ps1, (v1, e1, w1)) =>
        match imp cts ps1 l2 with
        | Error e => Error e
        | Ok (ps2, (v2, e2, w2)) => Ok (ps2, (v1 ++ v2, e1 ++ e2, w1 ++ l :: w2))
        end
    end.
  Proof.
    intros cts l1 l l2 ps Hu. rewrite imp_app.
    destruct (imp cts ps l1) as [[ps1 [[v1 e1] w1]]|e]; [|reflexivity].
    simpl. rewrite (Hu ps1). simpl.
    destruct (imp cts ps1 l2) as [[ps2 [[v2 e2] w2]]|e]; reflexivity.
  Qed.

  (* lifted to import: a blank line anywhere changes nothing; an unrecognised line anywhere adds exactly
     one warning (that line, at its place) and changes nothing else -- same graph, same errors *)
  Lemma import_skip_blank : forall cts l1 l l2, blank l = true ->
    import cts (l1 ++ l :: l2) = import cts (l1 ++ l2).
  Proof. intros. unfold G2OModel.import. now rewrite imp_skip_blank. Qed.

  Lemma import_skip_junk : forall cts l1 l l2, unrecognised cts l ->
    match import cts (l1 ++ l2) with
    | Error e => import cts (l1 ++ l :: l2) = Error e
    | Ok (g, ws) => exists w1 w2, ws = w1 ++ w2 /\ import cts (l1 ++ l :: l2) = Ok (g, w1 ++ l :: w2)
    end.
  Proof.
    intros cts l1 l l2 Hu. unfold G2OModel.import. rewrite imp_skip_junk by exact Hu. rewrite imp_app.
    destruct (imp cts [] l1) as [[ps1 [[v1 e1] w1]]|e]; [|reflexivity].
    destruct (imp cts ps1 l2) as [[ps2 [[v2 e2] w2]]|e]; [|reflexivity].
    destruct (check_graph num (v1 ++ v2) (e1 ++ e2)); [|reflexivity].
    exists w1, w2. split; reflexivity.
  Qed.

  (* a sufficient, checkable condition for "unrecognised": not blank and no tag (built-in or registered) starts it *)
  Definition no_tag_starts (cts : list ctype) (l : string) : Prop :=
    (forall t, In t builtin_tags -> starts_with (t ++ " ")%string l = false) /\
    Forall (fun ct => ct_reads ct = true -> starts_with (ct_tag ct ++ " ")%string l = false) cts.

  Lemma try_tag_none : forall (A : Type) t l (f : list string -> A),
    starts_with (t ++ " ")%string l = false -> try_tag t l f = None.
  Proof. intros. unfold try_tag. now rewrite H. Qed.

  Lemma custom_of_none : forall cts l,
    Forall (fun ct => ct_reads ct = true -> starts_with (ct_tag ct ++ " ")%string l = false) cts ->
    custom_of num parse parse_id cts l = None.
  Proof.
    induction cts as [|ct r IH]; intros l H; [reflexivity|]. inversion H; subst. simpl.
    destruct (ct_reads ct) eqn:E; [|now apply IH].
    rewrite try_tag_none by auto. simpl. now apply IH.
  Qed.

  Lemma unrecognised_suff : forall cts l, blank l = false -> no_tag_starts cts l -> unrecognised cts l.
  Proof.
    intros cts l Hb [Ht Hc] ps. unfold G2OModel.parse_line. rewrite Hb.
    unfold vertex_of, odo_of, lmk_of, param_of.
    rewrite !try_tag_none by (apply Ht; simpl; tauto). simpl.
    rewrite custom_of_none by exact Hc. reflexivity.
  Qed.

  (* ---------- C14_fields: tokens -> fields ---------- *)
  Lemma parse_nums_ok : forall ts xs, map parse ts = map Some xs -> parse_nums ts = Ok xs.
  Proof.
    induction ts as [|t r IH]; intros [|x xs] H; simpl in *; try discriminate; [reflexivity|].
    inversion H as [[H1 H2]]. rewrite H1, (IH _ H2). reflexivity.
  Qed.
  Lemma parse_ids_ok : forall ts xs, map parse_id ts = map Some xs -> parse_ids ts = Ok xs.
  Proof.
    induction ts as [|t r IH]; intros [|x xs] H; simpl in *; try discriminate; [reflexivity|].
    inversion H as [[H1 H2]]. rewrite H1, (IH _ H2). reflexivity.
  Qed.
  Lemma parse_nums_inv : forall ts xs, parse_nums ts = Ok xs -> map parse ts = map Some xs.
  Proof.
    induction ts as [|t r IH]; intros xs H; simpl in *.
    - now inversion H.
    - destruct (parse t) eqn:E; [|discriminate]. destruct (parse_nums r) eqn:E2; [|discriminate].
      inversion H; subst. simpl. now rewrite (IH _ eq_refl).
  Qed.
  Lemma parse_ids_inv : forall ts xs, parse_ids ts = Ok xs -> map parse_id ts = map Some xs.
  Proof.
    induction ts as [|t r IH]; intros xs H; simpl in *.
    - now inversion H.
    - destruct (parse_id t) eqn:E; [|discriminate]. destruct (parse_ids r) eqn:E2; [|discriminate].
      inversion H; subst. simpl. now rewrite (IH _ eq_refl).
  Qed.

  (* the first nids tokens are the ids, the rest the numbers, in order, nothing else *)
  Lemma parse_fields_ok : forall nids nnum itoks ntoks ids xs,
    map parse_id itoks = map Some ids -> map parse ntoks = map Some xs ->
    List.length ids = nids -> List.length xs = nnum ->
    parse_fields nids nnum (itoks ++ ntoks) = Ok (ids, xs).
  Proof.
    intros nids nnum itoks ntoks ids xs Hi Hn Li Ln. unfold G2OModel.parse_fields.
    assert (Li' : List.length itoks = nids) by (rewrite <- Li, <- (map_length parse_id), Hi, map_length; reflexivity).
    assert (Ln' : List.length ntoks = nnum) by (rewrite <- Ln, <- (map_length parse), Hn, map_length; reflexivity).
    rewrite app_length, Li', Ln', Nat.eqb_refl.
    rewrite <- Li' at 1. rewrite skipn_app, Nat.sub_diag, skipn_all. simpl.
    rewrite (parse_nums_ok _ _ Hn).
    rewrite <- Li'. rewrite firstn_app, Nat.sub_diag, firstn_all. simpl. rewrite app_nil_r.
    now rewrite (parse_ids_ok _ _ Hi).
  Qed.
  Lemma parse_fields_inv : forall nids nnum ts ids xs,
    parse_fields nids nnum ts = Ok (ids, xs) ->
    List.length ts = nids + nnum /\
    map parse_id (firstn nids ts) = map Some ids /\ map parse (skipn nids ts) = map Some xs.
  Proof.
    intros nids nnum ts ids xs H. unfold G2OModel.parse_fields in H.
    destruct (List.length ts =? nids + nnum) eqn:E; [|discriminate]. apply Nat.eqb_eq in E.
    destruct (parse_nums (skipn nids ts)) eqn:E1; [|discriminate].
    destruct (parse_ids (firstn nids ts)) eqn:E2; [|discriminate].
    inversion H; subst. repeat split; [exact E | now apply parse_ids_inv | now apply parse_nums_inv].
  Qed.
End Import.
