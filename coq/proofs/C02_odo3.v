(* C02: the edge errors computed by the regenerated programs implement the documented measurement
   model, stated against the independent specification lib/Spec.v (homogeneous matrices). *)
From Coq Require Import Reals List Lra ZArith Lia.
From GS Require Import ExprR LinAlg Meth MethR Prog Chain Wrap Spec GenR2 GenR3 GenSE2 GenSE3 GenEdges
  C10_SE3 C10_SE3_boxplus C10_SE2 C10_Rn C09_SE3 C09_SE2 C01_SE3 C01_Rn C01_SE2.
Import ListNotations.
Open Scope R_scope.

Ltac cb0 := cbv - [Rplus Rmult Rminus Ropp Rdiv Rinv sqrt IZR pow sin cos PI rmod].

(* ---------- SE(3) odometry: with D := p2 (-) p1 and E := z (-) D the code returns compact(E), and
   M(p1) M(D) = M(p2),  M(D) M(E) = M(z)   i.e.  E = (p1^-1 p2)^-1 z  as rigid motions ---------- *)
Lemma odo3_model p1 p2 z : length p1 = 7%nat -> length p2 = 7%nat -> length z = 7%nat ->
  unitq p1 -> unitq p2 -> unitq z ->
  let D := evl (p2 ++ p1) SE3_ominus in
  let E := evl (z ++ D) SE3_ominus in
  err_odo3 p1 p2 z = firstn 6 E /\
  mmul (hom3 p1) (hom3 D) = hom3 p2 /\
  mmul (hom3 D) (hom3 E) = hom3 z.
Proof.
  intros H1 H2 H3 U1 U2 U3. cbv zeta. split; [apply err_odo3_unfold; auto|].
  list_len p1 H1. list_len p2 H2. list_len z H3. unfold unitq in *. cbv in U1, U2, U3.
  assert (W1 : x5 * x5 = 1 - x2 * x2 - x3 * x3 - x4 * x4) by lra.
  assert (W2 : x12 * x12 = 1 - x9 * x9 - x10 * x10 - x11 * x11) by lra.
  assert (W3 : x19 * x19 = 1 - x16 * x16 - x17 * x17 - x18 * x18) by lra.
  split; cbv - [Rplus Rmult Rminus Ropp Rdiv Rinv sqrt IZR pow]; repeat (f_equal; try ring [W1 W2 W3]).
Qed.

