(* C07: trajectory equivariance for an abstract optimizer iteration. *)
From Coq Require Import Reals List.
Import ListNotations.
Open Scope R_scope.

(* an abstract optimizer iteration: poses are updated by  p_k [+] dx_k  where dx is ANY function of the
   linearised system; if the linearisation is invariant under the transform and boxplus commutes with
   it, every iterate of the transformed graph is the transform of the iterate of the original graph *)
Section Trajectory.
  Variables (P L : Type).
  Variable tr : P -> P.                          (* T (+) .  on one pose *)
  Variable good : list P -> Prop.                (* e.g. all quaternions unit; preserved by the step *)
  Variable linearize : list P -> L.              (* errors and Jacobians, hence b, H *)
  Variable solve : L -> nat -> list R.           (* the increment of vertex k, any function of the linearisation *)
  Variable bp : P -> list R -> P.                (* boxplus *)
  Definition step (ps : list P) : list P :=
    map (fun kp => bp (snd kp) (solve (linearize ps) (fst kp))) (combine (seq 0 (length ps)) ps).
  Hypothesis lin_inv : forall ps, good ps -> linearize (map tr ps) = linearize ps.
  Hypothesis bp_equiv : forall ps, good ps -> forall p d, List.In p ps -> bp (tr p) d = tr (bp p d).
  Hypothesis good_step : forall ps, good ps -> good (step ps).
  Lemma step_equivariant ps : good ps -> step (map tr ps) = map tr (step ps).
  Proof.
    intros Hg. unfold step. rewrite lin_inv by auto. rewrite map_length.
    generalize (solve (linearize ps)). intros sv.
    assert (G : forall (l : list P) k, (forall p, List.In p l -> List.In p ps) ->
               map (fun kp => bp (snd kp) (sv (fst kp))) (combine (seq k (length l)) (map tr l))
               = map tr (map (fun kp => bp (snd kp) (sv (fst kp))) (combine (seq k (length l)) l))).
    { induction l as [|p l IH]; intros k Hin; [reflexivity|]. simpl. f_equal.
      - apply (bp_equiv ps Hg). apply Hin. left. reflexivity.
      - apply IH. intros q Hq. apply Hin. right. exact Hq. }
    apply G. auto.
  Qed.
  Theorem trajectory_equivariant n ps : good ps -> Nat.iter n step (map tr ps) = map tr (Nat.iter n step ps).
  Proof.
    intros Hg. induction n as [|n IH]; [reflexivity|]. simpl. rewrite IH. apply step_equivariant.
    clear IH. induction n as [|n IHn]; simpl; auto.
  Qed.
End Trajectory.

