(* C05_grad2.v — the SE(2) counterpart of C05_grad.v: the gradient vector assembled by the normal equations is half the gradient of chi^2 on the
   manifold for whole SE(2) graphs of odometry and landmark edges.  Side conditions are exactly those of C01 / C05 for SE(2): every pose vertex
   stores an angle in [-pi, pi) (every constructed pose does, C11) and no odometry edge sits on the jump set of its own error. *)
From Coq Require Import Reals List Arith Bool Lra ZArith Lia.
From Coquelicot Require Import Coquelicot.
From GS Require Import ExprR LinAlg Chi2 Meth MethR Prog Chain Wrap Spec GenR2 GenR3 GenSE2 GenSE3 GenEdges
  C10_SE3 C10_SE3_boxplus C10_SE2 C10_Rn C09_SE3 C09_SE2 C11_main C01_SE3 C01_Rn C01_SE2 C01_SE2_full C02_model C05_main C05_chi2 C07_errors C07_equiv C07_lmk
  GraphModel GNSpec C03_sums C03_index C03_accumulate C04_blocks C06_main C07_jac2 C07_basis C07_glue C07_ext C07_inst C07_whole C05_grad.
Import ListNotations.
Open Scope R_scope.

Lemma R2_boxplus_at_0 l u : length l = 2%nat -> length u = 2%nat -> R2_boxplus_fun l (vscale 0 u) = l.
Proof. intros Hl Hu. list_len l Hl. list_len u Hu. cbv - [Rplus Rmult Rminus Ropp Rdiv Rinv sqrt IZR pow]. repeat (f_equal; try ring). Qed.

Theorem C05_chi2_lmk2_v1 om p l z off u : length p = 3%nat -> length l = 2%nat -> length z = 2%nat -> length off = 3%nat -> length u = 2%nat ->
  let e0 := err_lmk2 p l z off in let Ju := matvec (nth 1 (jac_lmk2 p l z off) []) u in
  is_derive (fun t => quad (err_lmk2 p (R2_boxplus_fun l (vscale t u)) z off) om) 0 (dotR Ju (matvec om e0) + dotR e0 (matvec om Ju)).
Proof.
  intros H1 H2 H3 H4 Hu. cbv zeta.
  pose proof (quad_derive_curve om (fun t => err_lmk2 p (R2_boxplus_fun l (vscale t u)) z off) (matvec (nth 1 (jac_lmk2 p l z off) []) u) 2) as Q.
  cbn beta in Q. rewrite (R2_boxplus_at_0 l u H2 Hu) in Q.
  apply Q; [ intros t; rewrite err_lmk2_unfold; auto; try reflexivity | rewrite len_matvec; rewrite jac_lmk2_unfold by auto; reflexivity
           | exact (C01_lmk_SE2_v1 p l z off u H1 H2 H3 H4 Hu) ].
Qed.

Definition wrap_ok (p1 p2 z : list R) : Prop := not_at_wrap (nth 2 z 0 - (nth 2 p2 0 - nth 2 p1 0)).

Theorem grad_odo2_first ka kb Om p1 p2 z i : length p1 = 3%nat -> length p2 = 3%nat -> length z = 3%nat ->
  wrap_ok p1 p2 z -> C09_SE2.in_range p1 -> squareL 3 Om -> symL Om -> (i < 3)%nat ->
  is_derive (fun t => quad (err_odo2 (SE2_boxplus_fun p1 (vscale t (basis 3 i))) p2 z) Om) 0 (2 * snd (gblock (odo2_rec ka kb Om p1 p2 z) 0) i).
Proof.
  intros H1 H2 Hz Hw Hr (HO & HOr) Hsym Hi.
  destruct (C05_chi2_odo2 Om p1 p2 z (basis 3 i) H1 H2 Hz (basis_len 3 i) Hw) as (D & _). specialize (D Hr). cbv zeta in D.
  assert (Le : length (err_odo2 p1 p2 z) = 3%nat) by (rewrite err_odo2_unfold by assumption; reflexivity).
  assert (LJ : length (nth 0 (jac_odo2 p1 p2 z) []) = 3%nat) by (rewrite jac_odo2_unfold by auto; reflexivity).
  assert (LJr : forall a, (a < 3)%nat -> length (nth a (nth 0 (jac_odo2 p1 p2 z) []) []) = 3%nat).
  { intros a Ha. rewrite jac_odo2_unfold by auto. cbn [nth]. destruct a as [|[|[|a]]]; [reflexivity | reflexivity | reflexivity | lia]. }
  rewrite (half_gradient_entry 3 3 _ Om _ i Le HO HOr Hsym LJ LJr Hi) in D. exact D.
Qed.
Theorem grad_odo2_second ka kb Om p1 p2 z i : length p1 = 3%nat -> length p2 = 3%nat -> length z = 3%nat ->
  wrap_ok p1 p2 z -> C09_SE2.in_range p2 -> squareL 3 Om -> symL Om -> (i < 3)%nat ->
  is_derive (fun t => quad (err_odo2 p1 (SE2_boxplus_fun p2 (vscale t (basis 3 i))) z) Om) 0 (2 * snd (gblock (odo2_rec ka kb Om p1 p2 z) 1) i).
Proof.
  intros H1 H2 Hz Hw Hr (HO & HOr) Hsym Hi.
  destruct (C05_chi2_odo2 Om p1 p2 z (basis 3 i) H1 H2 Hz (basis_len 3 i) Hw) as (_ & D). specialize (D Hr). cbv zeta in D.
  assert (Le : length (err_odo2 p1 p2 z) = 3%nat) by (rewrite err_odo2_unfold by assumption; reflexivity).
  assert (LJ : length (nth 1 (jac_odo2 p1 p2 z) []) = 3%nat) by (rewrite jac_odo2_unfold by auto; reflexivity).
  assert (LJr : forall a, (a < 3)%nat -> length (nth a (nth 1 (jac_odo2 p1 p2 z) []) []) = 3%nat).
  { intros a Ha. rewrite jac_odo2_unfold by auto. cbn [nth]. destruct a as [|[|[|a]]]; [reflexivity | reflexivity | reflexivity | lia]. }
  rewrite (half_gradient_entry 3 3 _ Om _ i Le HO HOr Hsym LJ LJr Hi) in D. exact D.
Qed.
Theorem grad_lmk2_pose kp kl Om p l z off i : length p = 3%nat -> length l = 2%nat -> length z = 2%nat -> length off = 3%nat ->
  C09_SE2.in_range p -> squareL 2 Om -> symL Om -> (i < 3)%nat ->
  is_derive (fun t => quad (err_lmk2 (SE2_boxplus_fun p (vscale t (basis 3 i))) l z off) Om) 0 (2 * snd (gblock (lmk2_rec kp kl Om p l z off) 0) i).
Proof.
  intros Hp Hl Hz Ho Hr (HO & HOr) Hsym Hi.
  pose proof (C05_chi2_lmk2_v0 Om p l z off (basis 3 i) Hp Hl Hz Ho (basis_len 3 i) Hr) as D. cbv zeta in D.
  assert (Le : length (err_lmk2 p l z off) = 2%nat) by (rewrite err_lmk2_unfold by assumption; reflexivity).
  assert (LJ : length (nth 0 (jac_lmk2 p l z off) []) = 2%nat) by (rewrite jac_lmk2_unfold by auto; reflexivity).
  assert (LJr : forall a, (a < 2)%nat -> length (nth a (nth 0 (jac_lmk2 p l z off) []) []) = 3%nat).
  { intros a Ha. rewrite jac_lmk2_unfold by auto. cbv zeta. cbn [nth]. destruct a as [|[|a]]; [reflexivity | reflexivity | lia]. }
  rewrite (half_gradient_entry 2 3 _ Om _ i Le HO HOr Hsym LJ LJr Hi) in D. exact D.
Qed.
Theorem grad_lmk2_point kp kl Om p l z off i : length p = 3%nat -> length l = 2%nat -> length z = 2%nat -> length off = 3%nat ->
  squareL 2 Om -> symL Om -> (i < 2)%nat ->
  is_derive (fun t => quad (err_lmk2 p (R2_boxplus_fun l (vscale t (basis 2 i))) z off) Om) 0 (2 * snd (gblock (lmk2_rec kp kl Om p l z off) 1) i).
Proof.
  intros Hp Hl Hz Ho (HO & HOr) Hsym Hi.
  pose proof (C05_chi2_lmk2_v1 Om p l z off (basis 2 i) Hp Hl Hz Ho (basis_len 2 i)) as D. cbv zeta in D.
  assert (Le : length (err_lmk2 p l z off) = 2%nat) by (rewrite err_lmk2_unfold by assumption; reflexivity).
  assert (LJ : length (nth 1 (jac_lmk2 p l z off) []) = 2%nat) by (rewrite jac_lmk2_unfold by auto; reflexivity).
  assert (LJr : forall a, (a < 2)%nat -> length (nth a (nth 1 (jac_lmk2 p l z off) []) []) = 2%nat).
  { intros a Ha. rewrite jac_lmk2_unfold by auto. cbv zeta. cbn [nth]. destruct a as [|[|a]]; [reflexivity | reflexivity | lia]. }
  rewrite (half_gradient_entry 2 2 _ Om _ i Le HO HOr Hsym LJ LJr Hi) in D. exact D.
Qed.

(* ================================================================ whole SE(2) graphs =============================================== *)
Inductive gedge2 : Type :=
| GOdo2 (ka kb : nat) (Om : list (list R)) (z : list R)
| GLmk2 (kp kl : nat) (Om : list (list R)) (z off : list R).
Definition descr2 (poses : list (list R)) (g : gedge2) : edesc2 :=
  match g with
  | GOdo2 ka kb Om z => Odo2 ka kb Om (nth ka poses []) (nth kb poses []) z
  | GLmk2 kp kl Om z off => Lmk2 kp kl Om (nth kp poses []) (nth kl poses []) z off
  end.
Definition chi2_edge2 (d : edesc2) : R :=
  match d with Odo2 _ _ Om p1 p2 z => quad (err_odo2 p1 p2 z) Om | Lmk2 _ _ Om p l z off => quad (err_lmk2 p l z off) Om end.
Definition chi2_graph2 (poses : list (list R)) (gs : list gedge2) : R := sumlist gs (fun g => chi2_edge2 (descr2 poses g)).
Definition bp2 (lm : bool) (p d : list R) : list R := if lm then R2_boxplus_fun p d else SE2_boxplus_fun p d.
(* the SE(2) side conditions: stored angles in [-pi, pi), odometry edges off the jump set of their own error *)
Definition side2 (d : edesc2) : Prop :=
  match d with
  | Odo2 _ _ _ p1 p2 z => wrap_ok p1 p2 z /\ C09_SE2.in_range p1 /\ C09_SE2.in_range p2
  | Lmk2 _ _ _ p _ _ _ => C09_SE2.in_range p
  end.
Definition okg2 (vs : list vertex) (lm : nat -> bool) (poses : list (list R)) (g : gedge2) : Prop :=
  ok2 vs lm (descr2 poses g) /\ shape2 vs (descr2 poses g) /\ side2 (descr2 poses g) /\
  match g with GOdo2 _ _ Om _ => squareL 3 Om | GLmk2 _ _ Om _ _ => squareL 2 Om end.

Lemma edge_gradient2 vs lm poses g k i :
  length poses = length vs -> okg2 vs lm poses g -> (k < length vs)%nat -> (i < dim_at vs k)%nat ->
  is_derive (fun t => chi2_edge2 (descr2 (upd poses k (bp2 (lm k) (nth k poses []) (vscale t (basis (dim_at vs k) i)))) g)) 0
            (2 * sumnR (length (e_slots R (rec2 (descr2 poses g))))
                       (fun s => ind (Nat.eqb (slotR (rec2 (descr2 poses g)) s) k) * snd (gblock (rec2 (descr2 poses g)) s) i)).
Proof.
  intros HL (Hok & Hsh & Hsd & Hsq) Hk Hi. assert (Hkp : (k < length poses)%nat) by (rewrite HL; exact Hk).
  destruct g as [ka kb Om z | kp kl Om z off]; cbn [descr2 rec2 chi2_edge2 ok2 shape2 side2] in *.
  - destruct Hok as (H1 & H2 & Hz & Da & Db & La & Lb). destruct Hsh as (Ka & Kb & Hne & Hsym). destruct Hsd as (Hw & R1 & R2).
    change (length (e_slots R (odo2_rec ka kb Om (nth ka poses []) (nth kb poses []) z))) with 2%nat. rewrite sum2.
    unfold slot_at. cbn [e_slots odo2_rec nth].
    destruct (Nat.eqb_spec ka k) as [Ea|Ea]; destruct (Nat.eqb_spec kb k) as [Eb|Eb]; cbn [ind].
    + exfalso. apply Hne. congruence.
    + subst ka. rewrite La, Da in *. cbn [bp2].
      eapply is_derive_ext; [intros t; rewrite (nth_upd_same poses k _ Hkp), (nth_upd_other poses k kb _ Eb); reflexivity|].
      replace (2 * (1 * snd (gblock (odo2_rec k kb Om (nth k poses []) (nth kb poses []) z) 0) i + 0 * snd (gblock (odo2_rec k kb Om (nth k poses []) (nth kb poses []) z) 1) i))
        with (2 * snd (gblock (odo2_rec k kb Om (nth k poses []) (nth kb poses []) z) 0) i) by ring.
      apply grad_odo2_first; assumption.
    + subst kb. rewrite Lb, Db in *. cbn [bp2].
      eapply is_derive_ext; [intros t; rewrite (nth_upd_same poses k _ Hkp), (nth_upd_other poses k ka _ Ea); reflexivity|].
      replace (2 * (0 * snd (gblock (odo2_rec ka k Om (nth ka poses []) (nth k poses []) z) 0) i + 1 * snd (gblock (odo2_rec ka k Om (nth ka poses []) (nth k poses []) z) 1) i))
        with (2 * snd (gblock (odo2_rec ka k Om (nth ka poses []) (nth k poses []) z) 1) i) by ring.
      apply grad_odo2_second; assumption.
    + eapply is_derive_ext; [intros t; rewrite (nth_upd_other poses k ka _ Ea), (nth_upd_other poses k kb _ Eb); reflexivity|].
      match goal with |- is_derive _ _ ?v => replace v with 0 by ring end.
      apply (is_derive_const (K:=R_AbsRing) (V:=R_NormedModule)).
  - destruct Hok as (Hp & Hl & Hz & Ho & Dp & Dl & Lp & Ll). destruct Hsh as (Kp & Kl & Hsym).
    assert (Hne : kp <> kl) by (intros E; rewrite E in Lp; rewrite Lp in Ll; discriminate).
    change (length (e_slots R (lmk2_rec kp kl Om (nth kp poses []) (nth kl poses []) z off))) with 2%nat. rewrite sum2.
    unfold slot_at. cbn [e_slots lmk2_rec nth].
    destruct (Nat.eqb_spec kp k) as [Ea|Ea]; destruct (Nat.eqb_spec kl k) as [Eb|Eb]; cbn [ind].
    + exfalso. apply Hne. congruence.
    + subst kp. rewrite Lp, Dp in *. cbn [bp2].
      eapply is_derive_ext; [intros t; rewrite (nth_upd_same poses k _ Hkp), (nth_upd_other poses k kl _ Eb); reflexivity|].
      replace (2 * (1 * snd (gblock (lmk2_rec k kl Om (nth k poses []) (nth kl poses []) z off) 0) i + 0 * snd (gblock (lmk2_rec k kl Om (nth k poses []) (nth kl poses []) z off) 1) i))
        with (2 * snd (gblock (lmk2_rec k kl Om (nth k poses []) (nth kl poses []) z off) 0) i) by ring.
      apply grad_lmk2_pose; assumption.
    + subst kl. rewrite Ll, Dl in *. cbn [bp2].
      eapply is_derive_ext; [intros t; rewrite (nth_upd_same poses k _ Hkp), (nth_upd_other poses k kp _ Ea); reflexivity|].
      replace (2 * (0 * snd (gblock (lmk2_rec kp k Om (nth kp poses []) (nth k poses []) z off) 0) i + 1 * snd (gblock (lmk2_rec kp k Om (nth kp poses []) (nth k poses []) z off) 1) i))
        with (2 * snd (gblock (lmk2_rec kp k Om (nth kp poses []) (nth k poses []) z off) 1) i) by ring.
      apply grad_lmk2_point; assumption.
    + eapply is_derive_ext; [intros t; rewrite (nth_upd_other poses k kp _ Ea), (nth_upd_other poses k kl _ Eb); reflexivity|].
      match goal with |- is_derive _ _ ?v => replace v with 0 by ring end.
      apply (is_derive_const (K:=R_AbsRing) (V:=R_NormedModule)).
Qed.

Theorem C05_gradient_SE2 vs lm poses gs k i :
  length poses = length vs -> List.Forall (okg2 vs lm poses) gs -> (k < length vs)%nat -> (i < dim_at vs k)%nat -> fixed_at vs k = false ->
  is_derive (fun t => chi2_graph2 (upd poses k (bp2 (lm k) (nth k poses []) (vscale t (basis (dim_at vs k) i)))) gs) 0
            (2 * spec_b vs (map rec2 (map (descr2 poses) gs)) (gi vs k + i)).
Proof.
  intros HL Hok Hk Hi Hfree.
  unfold spec_b. rewrite (locate_gi vs k i Hk Hi), Hfree.
  rewrite !sumlist_map. rewrite <- sumlist_scal. unfold chi2_graph2.
  apply (is_derive_sumlist gedge2 gs
           (fun g t => chi2_edge2 (descr2 (upd poses k (bp2 (lm k) (nth k poses []) (vscale t (basis (dim_at vs k) i)))) g))
           (fun g => 2 * sumnR (length (e_slots R (rec2 (descr2 poses g))))
                               (fun s => ind (Nat.eqb (slotR (rec2 (descr2 poses g)) s) k) * snd (gblock (rec2 (descr2 poses g)) s) i))).
  intros g Hg. rewrite Forall_forall in Hok. apply edge_gradient2; try assumption. apply Hok. exact Hg.
Qed.

Lemma not_at_wrap_inside x : - PI < x < PI -> not_at_wrap x.
Proof. intros (H1 & H2) E. pose proof (wrap_id x (conj (Rlt_le _ _ H1) H2)) as W. unfold wrap in W. rewrite E in W. lra. Qed.

(* non-vacuity: two SE(2) poses (the first fixed) and a landmark; one odometry edge, two observations *)
Definition J3 : list (list R) := [[2; 1; 0]; [1; 3; 0]; [0; 0; 5]].
Definition J2 : list (list R) := [[2; 1]; [1; 3]].
Definition ex2_vs : list vertex := [mkvertex 3 true; mkvertex 3 false; mkvertex 2 false].
Definition ex2_lm (k : nat) : bool := Nat.eqb k 2.
Definition ex2_poses : list (list R) := [[0; 0; 0]; [1; 1/2; 0]; [2; 1]].
Definition ex2_gs : list gedge2 := [GOdo2 0 1 J3 [1; 1/2; 0]; GLmk2 0 2 J2 [2; 1] [0; 0; 0]; GLmk2 1 2 J2 [1; 0] [1/10; 0; 1/5]].
Lemma symL_J3 : symL J3.
Proof. intros a b. do 4 (destruct a as [|a]; [do 4 (destruct b as [|b]; [reflexivity|]); destruct b; reflexivity|]). do 4 (destruct b as [|b]; [destruct a; reflexivity|]). destruct a, b; reflexivity. Qed.
Lemma symL_J2 : symL J2.
Proof. intros a b. do 3 (destruct a as [|a]; [do 3 (destruct b as [|b]; [reflexivity|]); destruct b; reflexivity|]). do 3 (destruct b as [|b]; [destruct a; reflexivity|]). destruct a, b; reflexivity. Qed.
Example C05_gradient_SE2_premises :
  length ex2_poses = length ex2_vs /\ List.Forall (okg2 ex2_vs ex2_lm ex2_poses) ex2_gs /\
  (1 < length ex2_vs)%nat /\ (2 < dim_at ex2_vs 1)%nat /\ fixed_at ex2_vs 1 = false.
Proof.
  pose proof PI_RGT_0 as P0.
  assert (S3 : squareL 3 J3) by (split; [reflexivity | intros a Ha; do 3 (destruct a as [|a]; [reflexivity|]); lia]).
  assert (S2 : squareL 2 J2) by (split; [reflexivity | intros a Ha; do 2 (destruct a as [|a]; [reflexivity|]); lia]).
  assert (R0 : C09_SE2.in_range [0; 0; 0]) by (unfold C09_SE2.in_range; cbn [nth]; lra).
  assert (R1 : C09_SE2.in_range [1; 1/2; 0]) by (unfold C09_SE2.in_range; cbn [nth]; lra).
  split; [reflexivity|]. split.
  - constructor; [|constructor; [|constructor; [|constructor]]].
    + split; [repeat split; try reflexivity|]. split; [repeat split; try (cbn; lia); try (intros E; discriminate E); exact symL_J3|].
      split; [|exact S3]. cbn [descr2 side2 ex2_poses nth]. split; [|split; assumption].
      unfold wrap_ok. cbn [nth]. apply not_at_wrap_inside. lra.
    + split; [repeat split; try reflexivity|]. split; [repeat split; try (cbn; lia); exact symL_J2|]. split; [exact R0 | exact S2].
    + split; [repeat split; try reflexivity|]. split; [repeat split; try (cbn; lia); exact symL_J2|]. split; [exact R1 | exact S2].
  - repeat split; try reflexivity; cbn; lia.
Qed.
