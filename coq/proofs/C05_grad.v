(* C05_grad.v — the gradient vector that the code assembles is HALF THE GRADIENT OF chi^2 on the manifold.

   Edge level: for each SE(3) edge kind and each of its vertices, the derivative at t = 0 of the edge's chi^2 along the boxplus curve
   t |-> p [+] t e_i  is  2 * (e^T Omega J_s)_i  -- twice entry i of the block [gblock] that lib/GNSpec.v sums into spec_b -- computed on the
   GraphModel record built from what the regenerated error / Jacobian programs return.  (C01: J is the derivative; C05_chi2: chain rule
   through the quadratic form; here: the list-level expression equals the function-matrix expression, using the symmetry of Omega.) *)
From Coq Require Import Reals List Arith Bool Lra ZArith Lia.
From Coquelicot Require Import Coquelicot.
From GS Require Import ExprR LinAlg Chi2 Meth MethR Prog Chain Wrap Spec GenR2 GenR3 GenSE2 GenSE3 GenEdges
  C10_SE3 C10_SE3_boxplus C10_SE2 C10_Rn C09_SE3 C09_SE2 C11_main C01_SE3 C01_Rn C01_SE2 C02_model C05_main C05_chi2 C07_errors C07_equiv C07_lmk
  GraphModel GNSpec C03_sums C03_index C03_accumulate C04_blocks C06_main C07_jac2 C07_basis C07_glue C07_ext C07_inst C07_whole.
Import ListNotations.
Open Scope R_scope.

Lemma dotR_sumn (a b : list R) n : length a = n -> length b = n -> dotR a b = sumnR n (fun k => nth k a 0 * nth k b 0).
Proof. intros Ha Hb. rewrite dotR_sumn_from by (rewrite Ha, Hb; reflexivity). rewrite Ha. reflexivity. Qed.

Lemma half_gradient_entry (n m : nat) (e : list R) (Om J : list (list R)) (i : nat) :
  length e = n -> length Om = n -> (forall a, (a < n)%nat -> length (nth a Om []) = n) -> symL Om ->
  length J = n -> (forall a, (a < n)%nat -> length (nth a J []) = m) -> (i < m)%nat ->
  dotR (matvec J (basis m i)) (matvec Om e) + dotR e (matvec Om (matvec J (basis m i)))
  = 2 * snd (vdotmR (vdotmR (vec_of_list R 0 e) (mat_of_list R 0 n n Om)) (mat_of_list R 0 n m J)) i.
Proof.
  intros He HO HOr Hsym HJ HJr Hi.
  assert (Lu : length (matvec J (basis m i)) = n) by (rewrite len_matvec; exact HJ).
  assert (Nu : forall a, (a < n)%nat -> nth a (matvec J (basis m i)) 0 = nth i (nth a J []) 0).
  { intros a Ha. rewrite nth_matvec. rewrite <- (HJr a Ha) at 1. apply dotR_basis. rewrite (HJr a Ha). exact Hi. }
  assert (NO : forall (v : list R) a, length v = n -> (a < n)%nat -> nth a (matvec Om v) 0 = sumnR n (fun b => nth b (nth a Om []) 0 * nth b v 0)).
  { intros v a Hv Ha. rewrite nth_matvec. apply dotR_sumn; [apply HOr; exact Ha | exact Hv]. }
  rewrite (dotR_sumn _ _ n Lu) by (rewrite len_matvec; exact HO).
  rewrite (dotR_sumn e _ n He) by (rewrite len_matvec; exact HO).
  unfold vdotm, vec_of_list, mat_of_list. cbn [fst snd rows cols ent]. rewrite He.
  (* both halves equal  S := sum_k (sum_a e_a Om[a][k]) J[k][i] *)
  set (S := sumnR n (fun k => sumnR n (fun a => nth a e 0 * nth k (nth a Om []) 0) * nth i (nth k J []) 0)).
  assert (H1 : sumnR n (fun k => nth k (matvec J (basis m i)) 0 * nth k (matvec Om e) 0) = S).
  { unfold S. apply sumn_ext. intros k Hk. rewrite (Nu k Hk), (NO e k He Hk). rewrite Rmult_comm. f_equal.
    apply sumn_ext. intros a Ha. rewrite (Hsym k a). ring. }
  assert (H2 : sumnR n (fun k => nth k e 0 * nth k (matvec Om (matvec J (basis m i))) 0) = S).
  { unfold S.
    rewrite (sumn_ext n _ (fun k => sumnR n (fun b => nth k e 0 * nth b (nth k Om []) 0 * nth i (nth b J []) 0))).
    2:{ intros k Hk. rewrite (NO _ k Lu Hk). rewrite <- sumn_scal_l. apply sumn_ext. intros b Hb. rewrite (Nu b Hb). ring. }
    rewrite sumn_swap. apply sumn_ext. intros b Hb. rewrite <- sumn_scal_r. reflexivity. }
  rewrite H1, H2. fold S. ring.
Qed.

Definition squareL (n : nat) (Om : list (list R)) : Prop := length Om = n /\ (forall a, (a < n)%nat -> length (nth a Om []) = n).

(* ---- SE(3) landmark edge, pose slot and landmark slot; SE(3) odometry edge, both slots ---- *)
Theorem grad_lmk3_pose kp kl Om p l z off i : length p = 7%nat -> length l = 3%nat -> length z = 3%nat -> length off = 7%nat ->
  squareL 3 Om -> symL Om -> (i < 6)%nat ->
  is_derive (fun t => quad (err_lmk3 (SE3_boxplus_fun p (vscale t (basis 6 i))) l z off) Om) 0
            (2 * snd (gblock (lmk3_rec kp kl Om p l z off) 0) i).
Proof.
  intros Hp Hl Hz Ho (HO & HOr) Hsym Hi.
  pose proof (C05_chi2_lmk3_v0 Om p l z off (basis 6 i) Hp Hl Hz Ho (basis_len 6 i)) as D. cbv zeta in D.
  assert (Le : length (err_lmk3 p l z off) = 3%nat) by (rewrite err_lmk3_unfold by assumption; reflexivity).
  assert (LJ : length (nth 0 (jac_lmk3 p l z off) []) = 3%nat) by (rewrite jac_lmk3_unfold by auto; reflexivity).
  assert (LJr : forall a, (a < 3)%nat -> length (nth a (nth 0 (jac_lmk3 p l z off) []) []) = 6%nat).
  { intros a Ha. rewrite jac_lmk3_unfold by auto. cbv zeta. cbn [nth]. destruct a as [|[|[|a]]]; [reflexivity | reflexivity | reflexivity | lia]. }
  rewrite (half_gradient_entry 3 6 _ Om _ i Le HO HOr Hsym LJ LJr Hi) in D. exact D.
Qed.
Theorem grad_lmk3_point kp kl Om p l z off i : length p = 7%nat -> length l = 3%nat -> length z = 3%nat -> length off = 7%nat ->
  squareL 3 Om -> symL Om -> (i < 3)%nat ->
  is_derive (fun t => quad (err_lmk3 p (R3_boxplus_fun l (vscale t (basis 3 i))) z off) Om) 0
            (2 * snd (gblock (lmk3_rec kp kl Om p l z off) 1) i).
Proof.
  intros Hp Hl Hz Ho (HO & HOr) Hsym Hi.
  pose proof (C05_chi2_lmk3_v1 Om p l z off (basis 3 i) Hp Hl Hz Ho (basis_len 3 i)) as D. cbv zeta in D.
  assert (Le : length (err_lmk3 p l z off) = 3%nat) by (rewrite err_lmk3_unfold by assumption; reflexivity).
  assert (LJ : length (nth 1 (jac_lmk3 p l z off) []) = 3%nat) by (rewrite jac_lmk3_unfold by auto; reflexivity).
  assert (LJr : forall a, (a < 3)%nat -> length (nth a (nth 1 (jac_lmk3 p l z off) []) []) = 3%nat).
  { intros a Ha. rewrite jac_lmk3_unfold by auto. cbv zeta. cbn [nth]. destruct a as [|[|[|a]]]; [reflexivity | reflexivity | reflexivity | lia]. }
  rewrite (half_gradient_entry 3 3 _ Om _ i Le HO HOr Hsym LJ LJr Hi) in D. exact D.
Qed.
Theorem grad_odo3_first ka kb Om p1 p2 z i : length p1 = 7%nat -> length p2 = 7%nat -> length z = 7%nat ->
  squareL 6 Om -> symL Om -> (i < 6)%nat ->
  is_derive (fun t => quad (err_odo3 (SE3_boxplus_fun p1 (vscale t (basis 6 i))) p2 z) Om) 0
            (2 * snd (gblock (odo3_rec ka kb Om p1 p2 z) 0) i).
Proof.
  intros H1 H2 Hz (HO & HOr) Hsym Hi.
  pose proof (C05_chi2_derivative_odo3 Om p1 p2 z (basis 6 i) H1 H2 Hz (basis_len 6 i)) as D. cbv zeta in D.
  assert (Le : length (err_odo3 p1 p2 z) = 6%nat) by (rewrite err_odo3_unfold by assumption; reflexivity).
  assert (LJ : length (nth 0 (jac_odo3 p1 p2 z) []) = 6%nat) by (rewrite jac_odo3_unfold by auto; reflexivity).
  assert (LJr : forall a, (a < 6)%nat -> length (nth a (nth 0 (jac_odo3 p1 p2 z) []) []) = 6%nat).
  { intros a Ha. rewrite jac_odo3_unfold by auto. cbn [nth].
    destruct a as [|[|[|[|[|[|a]]]]]]; [reflexivity | reflexivity | reflexivity | reflexivity | reflexivity | reflexivity | lia]. }
  rewrite (half_gradient_entry 6 6 _ Om _ i Le HO HOr Hsym LJ LJr Hi) in D. exact D.
Qed.
Theorem grad_odo3_second ka kb Om p1 p2 z i : length p1 = 7%nat -> length p2 = 7%nat -> length z = 7%nat ->
  squareL 6 Om -> symL Om -> (i < 6)%nat ->
  is_derive (fun t => quad (err_odo3 p1 (SE3_boxplus_fun p2 (vscale t (basis 6 i))) z) Om) 0
            (2 * snd (gblock (odo3_rec ka kb Om p1 p2 z) 1) i).
Proof.
  intros H1 H2 Hz (HO & HOr) Hsym Hi.
  pose proof (C05_chi2_odo3_v1 Om p1 p2 z (basis 6 i) H1 H2 Hz (basis_len 6 i)) as D. cbv zeta in D.
  assert (Le : length (err_odo3 p1 p2 z) = 6%nat) by (rewrite err_odo3_unfold by assumption; reflexivity).
  assert (LJ : length (nth 1 (jac_odo3 p1 p2 z) []) = 6%nat) by (rewrite jac_odo3_unfold by auto; reflexivity).
  assert (LJr : forall a, (a < 6)%nat -> length (nth a (nth 1 (jac_odo3 p1 p2 z) []) []) = 6%nat).
  { intros a Ha. rewrite jac_odo3_unfold by auto. cbn [nth].
    destruct a as [|[|[|[|[|[|a]]]]]]; [reflexivity | reflexivity | reflexivity | reflexivity | reflexivity | reflexivity | lia]. }
  rewrite (half_gradient_entry 6 6 _ Om _ i Le HO HOr Hsym LJ LJr Hi) in D. exact D.
Qed.

(* ================================================================ whole SE(3) graphs =============================================== *)
(* A graph given by ONE pose per vertex position (7 numbers for a pose vertex, 3 for a landmark) and edges that look their vertices up. *)
Inductive gedge3 : Type :=
| GOdo (ka kb : nat) (Om : list (list R)) (z : list R)
| GLmk (kp kl : nat) (Om : list (list R)) (z off : list R).
Definition descr (poses : list (list R)) (g : gedge3) : edesc3 :=
  match g with
  | GOdo ka kb Om z => Odo3 ka kb Om (nth ka poses []) (nth kb poses []) z
  | GLmk kp kl Om z off => Lmk3 kp kl Om (nth kp poses []) (nth kl poses []) z off
  end.
Definition chi2_edge (d : edesc3) : R :=
  match d with Odo3 _ _ Om p1 p2 z => quad (err_odo3 p1 p2 z) Om | Lmk3 _ _ Om p l z off => quad (err_lmk3 p l z off) Om end.
Definition chi2_graph (poses : list (list R)) (gs : list gedge3) : R := sumlist gs (fun g => chi2_edge (descr poses g)).
Fixpoint upd (l : list (list R)) (k : nat) (q : list R) : list (list R) :=
  match l, k with
  | [], _ => []
  | _ :: r, O => q :: r
  | x :: r, S k' => x :: upd r k' q
  end.
Lemma nth_upd_same l k q : (k < length l)%nat -> nth k (upd l k q) [] = q.
Proof. revert k. induction l as [|x l IH]; intros [|k] H; simpl in *; try lia; [reflexivity | apply IH; lia]. Qed.
Lemma nth_upd_other l k j q : j <> k -> nth j (upd l k q) [] = nth j l [].
Proof. revert k j. induction l as [|x l IH]; intros [|k] [|j] H; simpl; try reflexivity; try congruence. apply IH. congruence. Qed.
Lemma locate_gi vs k i : (k < length vs)%nat -> (i < dim_at vs k)%nat -> locate vs (gi vs k + i) = Some (k, i).
Proof.
  revert k. induction vs as [|v vs IH]; intros k Hk Hi; [simpl in Hk; lia|].
  destruct k as [|k].
  - unfold gi, dim_at in *. simpl in *. destruct (Nat.ltb_spec i (v_dim v)); [reflexivity | lia].
  - unfold gi, dim_at in *. simpl in *. destruct (Nat.ltb_spec (v_dim v + goff vs k + i) (v_dim v)) as [L|L]; [lia|].
    replace (v_dim v + goff vs k + i - v_dim v)%nat with (goff vs k + i)%nat by lia.
    rewrite (IH k) by (try lia; exact Hi). reflexivity.
Qed.

(* the increment of vertex k: a pose moves by the SE(3) boxplus, a landmark by the R^3 one *)
Definition bp3 (lm : bool) (p d : list R) : list R := if lm then R3_boxplus_fun p d else SE3_boxplus_fun p d.
Definition okg (vs : list vertex) (lm : nat -> bool) (poses : list (list R)) (g : gedge3) : Prop :=
  ok3 vs lm (descr poses g) /\ shape3 vs (descr poses g) /\
  match g with GOdo _ _ Om _ => squareL 6 Om | GLmk _ _ Om _ _ => squareL 3 Om end.

Lemma sum2 (f : nat -> R) : sumnR 2 f = f 0%nat + f 1%nat.
Proof. cbn [sumn]. ring. Qed.

(* one edge: the derivative of its chi^2 when vertex k moves along e_i is  2 * sum over the slots that ARE vertex k of the block entry *)
Lemma edge_gradient vs lm poses g k i :
  length poses = length vs -> okg vs lm poses g -> (k < length vs)%nat -> (i < dim_at vs k)%nat ->
  is_derive (fun t => chi2_edge (descr (upd poses k (bp3 (lm k) (nth k poses []) (vscale t (basis (dim_at vs k) i)))) g)) 0
            (2 * sumnR (length (e_slots R (rec3 (descr poses g))))
                       (fun s => ind (Nat.eqb (slotR (rec3 (descr poses g)) s) k) * snd (gblock (rec3 (descr poses g)) s) i)).
Proof.
  intros HL (Hok & Hsh & Hsq) Hk Hi. assert (Hkp : (k < length poses)%nat) by (rewrite HL; exact Hk).
  destruct g as [ka kb Om z | kp kl Om z off]; cbn [descr rec3 chi2_edge ok3 shape3] in *.
  - destruct Hok as (H1 & H2 & Hz & U1 & U2 & Da & Db & La & Lb). destruct Hsh as (Ka & Kb & Hne & Hsym).
    change (length (e_slots R (odo3_rec ka kb Om (nth ka poses []) (nth kb poses []) z))) with 2%nat. rewrite sum2.
    unfold slot_at. cbn [e_slots odo3_rec nth].
    destruct (Nat.eqb_spec ka k) as [Ea|Ea]; destruct (Nat.eqb_spec kb k) as [Eb|Eb]; cbn [ind].
    + exfalso. apply Hne. congruence.
    + subst ka. rewrite La, Da in *. cbn [bp3].
      eapply is_derive_ext; [intros t; rewrite (nth_upd_same poses k _ Hkp), (nth_upd_other poses k kb _ Eb); reflexivity|].
      replace (2 * (1 * snd (gblock (odo3_rec k kb Om (nth k poses []) (nth kb poses []) z) 0) i + 0 * snd (gblock (odo3_rec k kb Om (nth k poses []) (nth kb poses []) z) 1) i))
        with (2 * snd (gblock (odo3_rec k kb Om (nth k poses []) (nth kb poses []) z) 0) i) by ring.
      apply grad_odo3_first; assumption.
    + subst kb. rewrite Lb, Db in *. cbn [bp3].
      eapply is_derive_ext; [intros t; rewrite (nth_upd_same poses k _ Hkp), (nth_upd_other poses k ka _ Ea); reflexivity|].
      replace (2 * (0 * snd (gblock (odo3_rec ka k Om (nth ka poses []) (nth k poses []) z) 0) i + 1 * snd (gblock (odo3_rec ka k Om (nth ka poses []) (nth k poses []) z) 1) i))
        with (2 * snd (gblock (odo3_rec ka k Om (nth ka poses []) (nth k poses []) z) 1) i) by ring.
      apply grad_odo3_second; assumption.
    + eapply is_derive_ext; [intros t; rewrite (nth_upd_other poses k ka _ Ea), (nth_upd_other poses k kb _ Eb); reflexivity|].
      match goal with |- is_derive _ _ ?v => replace v with 0 by ring end.
      apply (is_derive_const (K:=R_AbsRing) (V:=R_NormedModule)).
  - destruct Hok as (Hp & Hl & Hz & Ho & Up & Uo & Dp & Dl & Lp & Ll). destruct Hsh as (Kp & Kl & Hsym).
    assert (Hne : kp <> kl) by (intros E; rewrite E in Lp; rewrite Lp in Ll; discriminate).
    change (length (e_slots R (lmk3_rec kp kl Om (nth kp poses []) (nth kl poses []) z off))) with 2%nat. rewrite sum2.
    unfold slot_at. cbn [e_slots lmk3_rec nth].
    destruct (Nat.eqb_spec kp k) as [Ea|Ea]; destruct (Nat.eqb_spec kl k) as [Eb|Eb]; cbn [ind].
    + exfalso. apply Hne. congruence.
    + subst kp. rewrite Lp, Dp in *. cbn [bp3].
      eapply is_derive_ext; [intros t; rewrite (nth_upd_same poses k _ Hkp), (nth_upd_other poses k kl _ Eb); reflexivity|].
      replace (2 * (1 * snd (gblock (lmk3_rec k kl Om (nth k poses []) (nth kl poses []) z off) 0) i + 0 * snd (gblock (lmk3_rec k kl Om (nth k poses []) (nth kl poses []) z off) 1) i))
        with (2 * snd (gblock (lmk3_rec k kl Om (nth k poses []) (nth kl poses []) z off) 0) i) by ring.
      apply grad_lmk3_pose; assumption.
    + subst kl. rewrite Ll, Dl in *. cbn [bp3].
      eapply is_derive_ext; [intros t; rewrite (nth_upd_same poses k _ Hkp), (nth_upd_other poses k kp _ Ea); reflexivity|].
      replace (2 * (0 * snd (gblock (lmk3_rec kp k Om (nth kp poses []) (nth k poses []) z off) 0) i + 1 * snd (gblock (lmk3_rec kp k Om (nth kp poses []) (nth k poses []) z off) 1) i))
        with (2 * snd (gblock (lmk3_rec kp k Om (nth kp poses []) (nth k poses []) z off) 1) i) by ring.
      apply grad_lmk3_point; assumption.
    + eapply is_derive_ext; [intros t; rewrite (nth_upd_other poses k kp _ Ea), (nth_upd_other poses k kl _ Eb); reflexivity|].
      match goal with |- is_derive _ _ ?v => replace v with 0 by ring end.
      apply (is_derive_const (K:=R_AbsRing) (V:=R_NormedModule)).
Qed.

Lemma is_derive_sumlist (A : Type) (l : list A) (F : A -> R -> R) (D : A -> R) :
  (forall x, List.In x l -> is_derive (F x) 0 (D x)) -> is_derive (fun t => sumlist l (fun x => F x t)) 0 (sumlist l D).
Proof.
  induction l as [|x l IH]; intros H.
  - unfold sumlist. cbn [fold_right]. apply (is_derive_const (K:=R_AbsRing) (V:=R_NormedModule)).
  - apply (is_derive_ext (fun t => F x t + sumlist l (fun y => F y t))); [intros t; reflexivity|].
    change (sumlist (x :: l) D) with (D x + sumlist l D).
    apply (is_derive_plus (K:=R_AbsRing) (V:=R_NormedModule) (F x) (fun t => sumlist l (fun y => F y t))).
    + apply H. left. reflexivity.
    + apply IH. intros y Hy. apply H. right. exact Hy.
Qed.

Lemma sumlist_scal (A : Type) (l : list A) (c : R) (f : A -> R) : sumlist l (fun x => c * f x) = c * sumlist l f.
Proof. induction l as [|x l IH]; unfold sumlist in *; cbn [fold_right]; [ring | rewrite IH; ring]. Qed.

(* THE GRADIENT: for every SE(3) graph of odometry and landmark edges over ONE pose per vertex, every free vertex k and every tangent coordinate i,
   chi^2 of the graph is differentiable along  pose_k [+] t e_i  and its derivative at 0 is TWICE the entry of the gradient vector assembled by the
   normal equations (lib/GNSpec.v spec_b = what graph.py assembles, theorem C03) from the records of the regenerated programs *)
Theorem C05_gradient_SE3 vs lm poses gs k i :
  length poses = length vs -> List.Forall (okg vs lm poses) gs -> (k < length vs)%nat -> (i < dim_at vs k)%nat -> fixed_at vs k = false ->
  is_derive (fun t => chi2_graph (upd poses k (bp3 (lm k) (nth k poses []) (vscale t (basis (dim_at vs k) i)))) gs) 0
            (2 * spec_b vs (map rec3 (map (descr poses) gs)) (gi vs k + i)).
Proof.
  intros HL Hok Hk Hi Hfree.
  unfold spec_b. rewrite (locate_gi vs k i Hk Hi), Hfree.
  rewrite !sumlist_map. rewrite <- sumlist_scal. unfold chi2_graph.
  apply (is_derive_sumlist gedge3 gs
           (fun g t => chi2_edge (descr (upd poses k (bp3 (lm k) (nth k poses []) (vscale t (basis (dim_at vs k) i)))) g))
           (fun g => 2 * sumnR (length (e_slots R (rec3 (descr poses g))))
                               (fun s => ind (Nat.eqb (slotR (rec3 (descr poses g)) s) k) * snd (gblock (rec3 (descr poses g)) s) i))).
  intros g Hg. rewrite Forall_forall in Hok. apply edge_gradient; try assumption. apply Hok. exact Hg.
Qed.

(* a fixed vertex contributes nothing to the assembled gradient, whatever the derivative is *)
Lemma C05_gradient_fixed vs es k i : (k < length vs)%nat -> (i < dim_at vs k)%nat -> fixed_at vs k = true -> spec_b vs es (gi vs k + i) = 0.
Proof. intros Hk Hi Hf. unfold spec_b. rewrite (locate_gi vs k i Hk Hi), Hf. reflexivity. Qed.

(* chi^2 of the description = chi^2 of the record (the quantity C02/C03 speak about) *)
Lemma quad_is_edge_chi2 n (e : list R) (Om : list (list R)) : length e = n -> squareL n Om ->
  quad e Om = vdotv R 0 Rplus Rmult (vdotmR (vec_of_list R 0 e) (mat_of_list R 0 n n Om)) (vec_of_list R 0 e).
Proof.
  intros He (HO & HOr). unfold quad, vdotv, vdotm, vec_of_list, mat_of_list. cbn [fst snd rows cols ent]. rewrite He.
  rewrite (dotR_sumn e _ n He) by (rewrite len_matvec; exact HO).
  rewrite (sumn_ext n _ (fun a => sumnR n (fun b => nth a e 0 * nth b (nth a Om []) 0 * nth b e 0))).
  2:{ intros a Ha. rewrite nth_matvec. rewrite (dotR_sumn _ e n (HOr a Ha) He). rewrite <- sumn_scal_l. apply sumn_ext. intros b _. ring. }
  rewrite sumn_swap. apply sumn_ext. intros b _. rewrite <- sumn_scal_r. reflexivity.
Qed.
Theorem chi2_graph_is_spec_chi2 vs lm poses gs : List.Forall (okg vs lm poses) gs ->
  chi2_graph poses gs = spec_chi2 (map rec3 (map (descr poses) gs)).
Proof.
  intros Hok. unfold chi2_graph, spec_chi2. rewrite !sumlist_map. apply sumlist_ext. intros g Hg.
  rewrite Forall_forall in Hok. destruct (Hok g Hg) as (Ho & _ & Hsq).
  destruct g as [ka kb Om z | kp kl Om z off]; cbn [descr rec3 chi2_edge ok3] in *.
  - destruct Ho as (H1 & H2 & Hz & _).
    assert (Le : length (err_odo3 (nth ka poses []) (nth kb poses []) z) = 6%nat) by (rewrite err_odo3_unfold by assumption; reflexivity).
    exact (quad_is_edge_chi2 6 _ Om Le Hsq).
  - destruct Ho as (Hp & Hl & Hz & Hof & _).
    assert (Le : length (err_lmk3 (nth kp poses []) (nth kl poses []) z off) = 3%nat) by (rewrite err_lmk3_unfold by assumption; reflexivity).
    exact (quad_is_edge_chi2 3 _ Om Le Hsq).
Qed.

(* non-vacuity: the three-vertex graph of C07_whole.v (first pose fixed), seen as a graph over one pose per vertex *)
Definition ex_poses : list (list R) := [ex_p0; ex_p1; [2; 1; 1]].
Definition ex_gs : list gedge3 :=
  [GOdo 0 1 I6 [1; 2; 0; 0; 0; 0; 1]; GLmk 0 2 I3 [2; 1; 1/2] [0; 0; 0; 0; 0; 0; 1]; GLmk 1 2 I3 [1; 0; 1] [0; 0; 1/10; 0; 3/5; 0; 4/5]].
Example C05_gradient_premises :
  length ex_poses = length ex_vs /\ List.Forall (okg ex_vs ex_lm ex_poses) ex_gs /\
  (1 < length ex_vs)%nat /\ (4 < dim_at ex_vs 1)%nat /\ fixed_at ex_vs 1 = false /\
  (2 < length ex_vs)%nat /\ (2 < dim_at ex_vs 2)%nat /\ fixed_at ex_vs 2 = false.
Proof.
  assert (U' : forall a b c x y z w, x * x + y * y + z * z + w * w = 1 -> unitq [a; b; c; x; y; z; w]).
  { intros a b c x y z w H. unfold unitq. cbv - [Rplus Rmult Rminus Ropp Rdiv Rinv sqrt IZR pow]. lra. }
  assert (S6 : squareL 6 I6) by (split; [reflexivity | intros a Ha; do 6 (destruct a as [|a]; [reflexivity|]); lia]).
  assert (S3 : squareL 3 I3) by (split; [reflexivity | intros a Ha; do 3 (destruct a as [|a]; [reflexivity|]); lia]).
  split; [reflexivity|]. split.
  - repeat constructor; try reflexivity; try (apply U'; lra); try (cbn; lia); try (intros E; discriminate E);
      try exact symL_I6; try exact symL_I3; try (destruct S6; assumption); try (destruct S3; assumption).
  - repeat split; try reflexivity; cbn; lia.
Qed.
