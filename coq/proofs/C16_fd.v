(* C16_fd.v — what the numerical-differentiation loop of lib/FDModel.v returns and what it leaves
   behind.  Generic in the scalar type (no law of arithmetic is used: the statement is about WHICH
   quotient is formed from WHICH states), in the pose type, in copy / boxplus / the error function /
   the dimension; induction over range(dim) and over the slot list, no bound on sizes.  Axiom-free. *)
From Coq Require Import List Arith Bool Lia.
From GS Require Import GraphModel FDModel.
Import ListNotations.

Section FDProofs.
Variables T P : Type.
Variable zero : T.
Variables sub div : T -> T -> T.
Variable h : T.
Variable copy : P -> P.
Variable boxplus : P -> list T -> P.
Variable err : list P -> list T.
Variable dim : P -> nat.

Notation set_nth := (set_nth P).
Notation unit_vec := (unit_vec T zero).
Notation fd_col := (fd_col T sub div h).
Notation fd_step := (fd_step T P zero sub div h copy boxplus err).
Notation calc_jacobian := (calc_jacobian T P zero sub div h copy boxplus err dim).
Notation calc_jacobians := (calc_jacobians T P zero sub div h copy boxplus err dim).

(* ---- list surgery ---- *)
Lemma set_nth_length k x (l : list P) : length (set_nth k x l) = length l.
Proof. revert k; induction l as [|y l IH]; intros [|k]; simpl; auto. Qed.
Lemma set_nth_set_nth k x y (l : list P) : set_nth k x (set_nth k y l) = set_nth k x l.
Proof. revert k; induction l as [|z l IH]; intros [|k]; simpl; auto. f_equal; auto. Qed.
Lemma nth_error_set_nth_same k x (l : list P) : k < length l -> nth_error (set_nth k x l) k = Some x.
Proof. revert k; induction l as [|z l IH]; intros [|k]; simpl; intros H; try lia; auto; try (apply IH; lia). Qed.
Lemma nth_error_set_nth_other k j x (l : list P) : j <> k -> nth_error (set_nth k x l) j = nth_error l j.
Proof. revert k j; induction l as [|z l IH]; intros [|k] [|j]; simpl; intros H; try lia; auto; try (apply IH; lia). Qed.
Lemma set_nth_same k x (l : list P) : nth_error l k = Some x -> set_nth k x l = l.
Proof. revert k; induction l as [|z l IH]; intros [|k]; simpl; intros H; try discriminate; auto.
  - inversion H; reflexivity.
  - f_equal; auto. Qed.
Lemma nth_error_lt {A} (l : list A) k x : nth_error l k = Some x -> k < length l.
Proof. intros H. apply nth_error_Some. rewrite H. discriminate. Qed.

(* ---- the inner loop: for d in range(a, a+m) ----
   [cur0] is the pose object the first perturbation is applied to; after the first pass the current
   object is [copy p0]. *)
Lemma fd_loop k n p0 err0 : forall m a cols s cur0,
  nth_error s k = Some cur0 ->
  fold_left (fd_step k n p0 err0) (seq a m) (cols, s) =
  (cols ++ map (fun d => fd_col (err (set_nth k (boxplus (if Nat.eqb d a then cur0 else copy p0) (unit_vec h n d)) s)) err0) (seq a m),
   match m with O => s | S _ => set_nth k (copy p0) s end).
Proof.
  induction m as [|m IH]; intros a cols s cur0 Hk; simpl.
  - rewrite app_nil_r. reflexivity.
  - unfold fd_step at 2. cbn [fst snd]. rewrite Hk.
    rewrite set_nth_set_nth.
    assert (Hlt : k < length s) by (eapply nth_error_lt; eauto).
    rewrite (IH (S a) _ _ (copy p0)) by (apply nth_error_set_nth_same; auto).
    rewrite Nat.eqb_refl. rewrite <- app_assoc. cbn [app]. f_equal.
    + f_equal. f_equal. apply map_ext_in. intros d Hd. apply in_seq in Hd.
      rewrite set_nth_set_nth.
      destruct (Nat.eqb d (S a)) eqn:E1; destruct (Nat.eqb d a) eqn:E2; try reflexivity;
        apply Nat.eqb_eq in E2; lia.
    + destruct m; [reflexivity|]. apply set_nth_set_nth.
Qed.

(* the pose object the d-th perturbation starts from, and the pose left behind *)
Definition cur_obj (pk : P) (d : nat) : P := if Nat.eqb d 0 then pk else copy (copy pk).
Definition restored (p : P) : P := if Nat.eqb (dim p) 0 then p else copy (copy p).
Definition fd_columns (err0 : list T) (s : list P) (k : nat) (pk : P) : list (list T) :=
  map (fun d => fd_col (err (set_nth k (boxplus (cur_obj pk d) (unit_vec h (dim pk) d)) s)) err0) (seq 0 (dim pk)).

Lemma calc_jacobian_spec err0 s k pk : nth_error s k = Some pk ->
  calc_jacobian err0 s k = (fd_columns err0 s k pk, set_nth k (restored pk) s).
Proof.
  intros Hk. unfold calc_jacobian. rewrite Hk. cbv zeta.
  rewrite (fd_loop k (dim pk) (copy pk) err0 (dim pk) 0 [] s pk Hk). cbn [app]. f_equal.
  unfold restored. destruct (dim pk) eqn:E; cbn [Nat.eqb].
  - symmetry. apply set_nth_same. exact Hk.
  - reflexivity.
Qed.

(* ---- the outer loop over the slots ---- *)
(* the poses when slot k is about to be differentiated: slots before k already went through
   save/restore, slots from k on are untouched *)
Fixpoint state_before (s : list P) (k : nat) {struct k} : list P :=
  match k, s with
  | O, _ => s
  | S k', p :: r => restored p :: state_before r k'
  | S _, [] => []
  end.
Lemma state_before_nth_ge s : forall k j, k <= j -> nth_error (state_before s k) j = nth_error s j.
Proof.
  induction s as [|p s IH]; intros [|k] [|j] H; simpl; auto; try lia. apply IH; lia.
Qed.
Lemma state_before_nth_lt s : forall k j, j < k -> nth_error (state_before s k) j = option_map restored (nth_error s j).
Proof.
  induction s as [|p s IH]; intros [|k] [|j] H; simpl; auto; try lia. apply IH; lia.
Qed.
Lemma state_before_length s k : length (state_before s k) = length s.
Proof. revert k; induction s as [|p s IH]; intros [|k]; simpl; auto. Qed.
Lemma state_before_step s : forall k pk, nth_error s k = Some pk ->
  set_nth k (restored pk) (state_before s k) = state_before s (S k).
Proof.
  induction s as [|p s IH]; intros [|k] pk H; simpl in *; try discriminate.
  - inversion H; subst. destruct s; reflexivity.
  - f_equal. apply IH. exact H.
Qed.
Lemma state_before_all s : state_before s (length s) = map restored s.
Proof. induction s as [|p s IH]; simpl; auto. f_equal; auto. Qed.

Definition jac_spec (s : list P) (k : nat) : list (list T) :=
  match nth_error s k with
  | Some pk => fd_columns (err s) (state_before s k) k pk
  | None => []
  end.

Lemma outer_loop s : forall m a js, a + m <= length s ->
  fold_left (fun acc k => let r := calc_jacobian (err s) (snd acc) k in (fst acc ++ [fst r], snd r))
            (seq a m) (js, state_before s a)
  = (js ++ map (jac_spec s) (seq a m), state_before s (a + m)).
Proof.
  induction m as [|m IH]; intros a js H; simpl.
  - rewrite app_nil_r, Nat.add_0_r. reflexivity.
  - destruct (nth_error s a) as [pk|] eqn:Hk.
    2:{ apply nth_error_None in Hk. lia. }
    assert (Hk' : nth_error (state_before s a) a = Some pk) by (rewrite state_before_nth_ge; auto).
    rewrite (calc_jacobian_spec _ _ _ _ Hk'). cbn [fst snd].
    rewrite (state_before_step s a pk Hk).
    rewrite IH by lia. rewrite <- app_assoc. cbn [app].
    unfold jac_spec at 2. rewrite Hk. replace (S a + m) with (a + S m) by lia. reflexivity.
Qed.

Theorem calc_jacobians_spec s :
  calc_jacobians s = (map (jac_spec s) (seq 0 (length s)), map restored s).
Proof.
  unfold calc_jacobians. cbv zeta.
  change (@nil (list (list T)), s) with (@nil (list (list T)), state_before s 0).
  rewrite outer_loop by lia. cbn [app plus]. rewrite state_before_all. reflexivity.
Qed.

(* component of a difference-quotient column *)
Lemma fd_col_nth (e1 e0 : list T) i z : i < length e1 -> i < length e0 ->
  nth i (fd_col e1 e0) z = div (sub (nth i e1 z) (nth i e0 z)) h.
Proof.
  unfold FDModel.fd_col. revert e0 i. induction e1 as [|a e1 IH]; intros [|b e0] [|i] H1 H0; simpl in *; try lia; auto.
  apply IH; lia.
Qed.
Lemma fd_col_length (e1 e0 : list T) : length e1 = length e0 -> length (fd_col e1 e0) = length e0.
Proof. intros H. unfold FDModel.fd_col. rewrite map_length, combine_length, H. apply Nat.min_id. Qed.

Lemma nth_map_seq_gen {A} (f : nat -> A) dflt : forall n a d, d < n -> nth d (map f (seq a n)) dflt = f (a + d).
Proof.
  induction n as [|n IH]; intros a [|d] H; simpl; try lia.
  - rewrite Nat.add_0_r. reflexivity.
  - rewrite IH by lia. f_equal. lia.
Qed.
Lemma nth_map_seq {A} (f : nat -> A) dflt n d : d < n -> nth d (map f (seq 0 n)) dflt = f d.
Proof. intros H. rewrite nth_map_seq_gen by auto. reflexivity. Qed.

(* ==== C16_fd_matrix ==== *)
Theorem fd_matrix s k pk :
  nth_error s k = Some pk ->
  let r := calc_jacobians s in
  (* one Jacobian per slot, dim columns for slot k *)
  length (fst r) = length s /\
  (exists Jk, nth_error (fst r) k = Some Jk /\ length Jk = dim pk /\
     (* column d is the difference quotient between the error with slot k perturbed and the error
        computed once at the start; the perturbation is applied to the CURRENT pose object (the
        original for d = 0, copy (copy p_k) afterwards), slots before k having been saved/restored *)
     forall d, d < dim pk ->
       nth d Jk [] = fd_col (err (set_nth k (boxplus (cur_obj pk d) (unit_vec h (dim pk) d)) (state_before s k))) (err s) /\
       forall i z, i < length (err s) ->
         i < length (err (set_nth k (boxplus (cur_obj pk d) (unit_vec h (dim pk) d)) (state_before s k))) ->
         nth i (nth d Jk []) z =
         div (sub (nth i (err (set_nth k (boxplus (cur_obj pk d) (unit_vec h (dim pk) d)) (state_before s k))) z) (nth i (err s) z)) h) /\
  (* what the poses are when slot k is differentiated, and what is left behind at the end *)
  (forall j, nth_error (state_before s k) j = if Nat.ltb j k then option_map restored (nth_error s j) else nth_error s j) /\
  snd r = map restored s.
Proof.
  intros Hk r. subst r. rewrite calc_jacobians_spec. cbn [fst snd].
  assert (Hlt : k < length s) by (eapply nth_error_lt; eauto).
  split; [rewrite map_length, seq_length; reflexivity|]. split; [|split; [|reflexivity]].
  - exists (jac_spec s k). split.
    + rewrite nth_error_map. rewrite nth_error_nth' with (d := 0) by (rewrite seq_length; auto).
      rewrite seq_nth by auto. reflexivity.
    + unfold jac_spec. rewrite Hk. unfold fd_columns. split; [rewrite map_length, seq_length; reflexivity|].
      intros d Hd.
      set (f := fun d0 => fd_col (err (set_nth k (boxplus (cur_obj pk d0) (unit_vec h (dim pk) d0)) (state_before s k))) (err s)).
      assert (E : nth d (map f (seq 0 (dim pk))) [] = f d) by (apply nth_map_seq; exact Hd).
      split; [exact E|]. intros i z Hi Hi'. rewrite E. unfold f. apply fd_col_nth; auto.
  - intros j. destruct (Nat.ltb j k) eqn:E.
    + apply Nat.ltb_lt in E. apply state_before_nth_lt; auto.
    + apply Nat.ltb_ge in E. apply state_before_nth_ge; auto.
Qed.

(* when copy is the identity on the poses at hand (constructed poses: theorem C11) the loop differentiates
   around the unchanged poses and leaves them unchanged *)
Lemma state_before_id s : (forall p, copy p = p) -> forall k, state_before s k = s.
Proof.
  intros Hc. induction s as [|p s IH]; intros [|k]; simpl; auto. f_equal; auto.
  unfold restored. destruct (Nat.eqb (dim p) 0); auto. rewrite !Hc. reflexivity.
Qed.
Theorem fd_matrix_copy_id s k pk :
  (forall p, copy p = p) ->
  nth_error s k = Some pk ->
  let r := calc_jacobians s in
  snd r = s /\
  exists Jk, nth_error (fst r) k = Some Jk /\ length Jk = dim pk /\
    forall d, d < dim pk ->
      nth d Jk [] = fd_col (err (set_nth k (boxplus pk (unit_vec h (dim pk) d)) s)) (err s) /\
      forall i z, i < length (err s) -> i < length (err (set_nth k (boxplus pk (unit_vec h (dim pk) d)) s)) ->
        nth i (nth d Jk []) z = div (sub (nth i (err (set_nth k (boxplus pk (unit_vec h (dim pk) d)) s)) z) (nth i (err s) z)) h.
Proof.
  intros Hc Hk r. destruct (fd_matrix s k pk Hk) as (_ & (Jk & HJ & HL & Hcol) & _ & Hfin). fold r in HJ, Hfin.
  split.
  - rewrite Hfin. rewrite <- (map_id s) at 2. apply map_ext. intros p. unfold restored.
    destruct (Nat.eqb (dim p) 0); auto. rewrite !Hc. reflexivity.
  - exists Jk. split; [exact HJ|]. split; [exact HL|]. intros d Hd.
    specialize (Hcol d Hd). rewrite (state_before_id s Hc k) in Hcol.
    assert (Ec : cur_obj pk d = pk) by (unfold cur_obj; destruct (Nat.eqb d 0); auto; rewrite !Hc; reflexivity).
    rewrite Ec in Hcol. exact Hcol.
Qed.
End FDProofs.

(* the hypotheses are satisfiable and the loop computes: nat "poses", error = the poses themselves *)
Example fd_matrix_example :
  fst (FDModel.calc_jacobians nat nat 0 Nat.sub Nat.div 1 (fun p => p) (fun p d => p + hd 0 d) (fun s => s) (fun _ => 1) [5; 7])
  = [[[1; 0]]; [[0; 1]]].
Proof. reflexivity. Qed.
