(* C05_chi2.v — the chi2 of ANY edge kind along a boxplus perturbation of either vertex is differentiable,
   with derivative  (J u)^T Omega e + e^T Omega (J u)  built from the error e and the code's Jacobian J (C01).
   Generic lemma over an arbitrary curve of error vectors, then one instance per edge kind and vertex. *)
From Coq Require Import Reals List Arith Bool Lia Lra.
From Coquelicot Require Import Coquelicot.
From GS Require Import ExprR LinAlg Chi2 Meth MethR Prog Chain Wrap GenR2 GenR3 GenSE2 GenSE3 GenEdges
  C10_SE3 C10_SE3_boxplus C10_SE2 C10_Rn C09_SE2 C01_SE3 C01_Rn C01_SE2 C01_SE2_full C06_zero C05_main.
Import ListNotations.
Open Scope R_scope.

Lemma map_nth_seqR (l : list R) : map (fun i => nth i l 0) (seq 0 (length l)) = l.
Proof.
  apply (nth_ext _ _ 0 0).
  - rewrite map_length, seq_length. reflexivity.
  - intros k Hk. rewrite map_length, seq_length in Hk.
    rewrite (nth_indep _ 0 ((fun i => nth i l 0) 0%nat)) by (rewrite map_length, seq_length; exact Hk).
    rewrite (map_nth (fun i => nth i l 0)). rewrite seq_nth by exact Hk. reflexivity.
Qed.
Lemma Forall2_map_seq (P : nat -> Prop) (A B : Type) (R2 : A -> B -> Prop) (f : nat -> A) (g : nat -> B) a m :
  (forall i, R2 (f i) (g i)) -> Forall2 R2 (map f (seq a m)) (map g (seq a m)).
Proof. intros H. revert a. induction m as [|m IH]; intros a; simpl; constructor; auto. Qed.

Theorem quad_derive_curve (om : list (list R)) (F : R -> list R) (Ju : list R) (m : nat) :
  (forall t, length (F t) = m) -> length Ju = m ->
  (forall i, is_derive (fun t => nth i (F t) 0) 0 (nth i Ju 0)) ->
  is_derive (fun t => quad (F t) om) 0 (dotR Ju (matvec om (F 0)) + dotR (F 0) (matvec om Ju)).
Proof.
  intros LF LJ HD.
  set (fs := map (fun i t => nth i (F t) 0) (seq 0 m)).
  assert (Hf : Forall2 (fun f v => is_derive f 0 v) fs (map (fun i => nth i Ju 0) (seq 0 m))).
  { unfold fs. apply (Forall2_map_seq (fun _ => True)). exact HD. }
  assert (EF : forall t, evalfs fs t = F t).
  { intros t. unfold evalfs, fs. rewrite map_map. rewrite <- (LF t). apply map_nth_seqR. }
  assert (EJ : map (fun i => nth i Ju 0) (seq 0 m) = Ju) by (rewrite <- LJ; apply map_nth_seqR).
  rewrite EJ in Hf.
  pose proof (quad_derive om fs Ju 0 Hf) as D. rewrite EF in D.
  eapply is_derive_ext; [|exact D]. intros t. cbn beta. rewrite (EF t). reflexivity.
Qed.

Lemma len_matvec (M : list (list R)) u : length (matvec M u) = length M.
Proof. unfold matvec. apply map_length. Qed.
Lemma vscale_len t (u : list R) : length (vscale t u) = length u.
Proof. unfold vscale. apply map_length. Qed.

(* ---- SE(3) ---- *)
Theorem C05_chi2_odo3_v1 om p1 p2 z u : length p1 = 7%nat -> length p2 = 7%nat -> length z = 7%nat -> length u = 6%nat ->
  let e0 := err_odo3 p1 p2 z in let Ju := matvec (nth 1 (jac_odo3 p1 p2 z) []) u in
  is_derive (fun t => quad (err_odo3 p1 (SE3_boxplus_fun p2 (vscale t u)) z) om) 0 (dotR Ju (matvec om e0) + dotR e0 (matvec om Ju)).
Proof.
  intros H1 H2 H3 Hu. cbv zeta.
  pose proof (quad_derive_curve om (fun t => err_odo3 p1 (SE3_boxplus_fun p2 (vscale t u)) z) (matvec (nth 1 (jac_odo3 p1 p2 z) []) u) 6) as Q.
  cbn beta in Q. rewrite (SE3_boxplus_at_0 p2 u H2 Hu) in Q. apply Q; [ intros t; rewrite err_odo3_unfold; auto; apply SE3_boxplus_len; auto; rewrite vscale_len; auto; try reflexivity | rewrite len_matvec; rewrite jac_odo3_unfold by auto; reflexivity | exact (C01_odo_SE3_v1 p1 p2 z u H1 H2 H3 Hu) ].
Qed.
Theorem C05_chi2_lmk3_v0 om p l z off u : length p = 7%nat -> length l = 3%nat -> length z = 3%nat -> length off = 7%nat -> length u = 6%nat ->
  let e0 := err_lmk3 p l z off in let Ju := matvec (nth 0 (jac_lmk3 p l z off) []) u in
  is_derive (fun t => quad (err_lmk3 (SE3_boxplus_fun p (vscale t u)) l z off) om) 0 (dotR Ju (matvec om e0) + dotR e0 (matvec om Ju)).
Proof.
  intros H1 H2 H3 H4 Hu. cbv zeta.
  pose proof (quad_derive_curve om (fun t => err_lmk3 (SE3_boxplus_fun p (vscale t u)) l z off) (matvec (nth 0 (jac_lmk3 p l z off) []) u) 3) as Q.
  cbn beta in Q. rewrite (SE3_boxplus_at_0 p u H1 Hu) in Q. apply Q; [ intros t; rewrite err_lmk3_unfold; auto; apply SE3_boxplus_len; auto; rewrite vscale_len; auto; try reflexivity | rewrite len_matvec; rewrite jac_lmk3_unfold by auto; reflexivity | exact (C01_lmk_SE3_v0 p l z off u H1 H2 H3 H4 Hu) ].
Qed.
Lemma R3_boxplus_at_0 l u : length l = 3%nat -> length u = 3%nat -> R3_boxplus_fun l (vscale 0 u) = l.
Proof. intros Hl Hu. list_len l Hl. list_len u Hu. cbv - [Rplus Rmult Rminus Ropp Rdiv Rinv sqrt IZR pow]. repeat (f_equal; try ring). Qed.
Theorem C05_chi2_lmk3_v1 om p l z off u : length p = 7%nat -> length l = 3%nat -> length z = 3%nat -> length off = 7%nat -> length u = 3%nat ->
  let e0 := err_lmk3 p l z off in let Ju := matvec (nth 1 (jac_lmk3 p l z off) []) u in
  is_derive (fun t => quad (err_lmk3 p (R3_boxplus_fun l (vscale t u)) z off) om) 0 (dotR Ju (matvec om e0) + dotR e0 (matvec om Ju)).
Proof.
  intros H1 H2 H3 H4 Hu. cbv zeta.
  pose proof (quad_derive_curve om (fun t => err_lmk3 p (R3_boxplus_fun l (vscale t u)) z off) (matvec (nth 1 (jac_lmk3 p l z off) []) u) 3) as Q.
  cbn beta in Q. rewrite (R3_boxplus_at_0 l u H2 Hu) in Q. apply Q; [ intros t; rewrite err_lmk3_unfold; auto; try reflexivity | rewrite len_matvec; rewrite jac_lmk3_unfold by auto; reflexivity | exact (C01_lmk_SE3_v1 p l z off u H1 H2 H3 H4 Hu) ].
Qed.

(* ---- SE(2): the base pose in range (every constructed pose, C11); odometry off the jump set of the error ---- *)
Lemma SE2_boxplus_at_0 p u : length p = 3%nat -> length u = 3%nat -> in_range p -> SE2_boxplus_fun p (vscale 0 u) = p.
Proof.
  intros Hp Hu Hr. replace (vscale 0 u) with (zeros 3); [apply SE2_boxplus_zero; auto|].
  list_len u Hu. unfold vscale, zeros. simpl. repeat (f_equal; try ring).
Qed.
Theorem C05_chi2_odo2 om p1 p2 z u : length p1 = 3%nat -> length p2 = 3%nat -> length z = 3%nat -> length u = 3%nat ->
  not_at_wrap (nth 2 z 0 - (nth 2 p2 0 - nth 2 p1 0)) ->
  let e0 := err_odo2 p1 p2 z in
  (in_range p1 -> let Ju := matvec (nth 0 (jac_odo2 p1 p2 z) []) u in
     is_derive (fun t => quad (err_odo2 (SE2_boxplus_fun p1 (vscale t u)) p2 z) om) 0 (dotR Ju (matvec om e0) + dotR e0 (matvec om Ju))) /\
  (in_range p2 -> let Ju := matvec (nth 1 (jac_odo2 p1 p2 z) []) u in
     is_derive (fun t => quad (err_odo2 p1 (SE2_boxplus_fun p2 (vscale t u)) z) om) 0 (dotR Ju (matvec om e0) + dotR e0 (matvec om Ju))).
Proof.
  intros H1 H2 H3 Hu Hn. cbv zeta. split; intros Hr.
  - pose proof (quad_derive_curve om (fun t => err_odo2 (SE2_boxplus_fun p1 (vscale t u)) p2 z) (matvec (nth 0 (jac_odo2 p1 p2 z) []) u) 3) as Q.
    cbn beta in Q. rewrite (SE2_boxplus_at_0 p1 u H1 Hu Hr) in Q. apply Q; [ intros t; rewrite err_odo2_unfold; auto; try reflexivity | rewrite len_matvec; rewrite jac_odo2_unfold by auto; reflexivity | exact (C01_odo_SE2_v0_full p1 p2 z u H1 H2 H3 Hu Hn) ].
  - pose proof (quad_derive_curve om (fun t => err_odo2 p1 (SE2_boxplus_fun p2 (vscale t u)) z) (matvec (nth 1 (jac_odo2 p1 p2 z) []) u) 3) as Q.
    cbn beta in Q. rewrite (SE2_boxplus_at_0 p2 u H2 Hu Hr) in Q. apply Q; [ intros t; rewrite err_odo2_unfold; auto; try reflexivity | rewrite len_matvec; rewrite jac_odo2_unfold by auto; reflexivity | exact (C01_odo_SE2_v1_full p1 p2 z u H1 H2 H3 Hu Hn) ].
Qed.
Theorem C05_chi2_lmk2_v0 om p l z off u : length p = 3%nat -> length l = 2%nat -> length z = 2%nat -> length off = 3%nat -> length u = 3%nat ->
  in_range p ->
  let e0 := err_lmk2 p l z off in let Ju := matvec (nth 0 (jac_lmk2 p l z off) []) u in
  is_derive (fun t => quad (err_lmk2 (SE2_boxplus_fun p (vscale t u)) l z off) om) 0 (dotR Ju (matvec om e0) + dotR e0 (matvec om Ju)).
Proof.
  intros H1 H2 H3 H4 Hu Hr. cbv zeta.
  pose proof (quad_derive_curve om (fun t => err_lmk2 (SE2_boxplus_fun p (vscale t u)) l z off) (matvec (nth 0 (jac_lmk2 p l z off) []) u) 2) as Q.
  cbn beta in Q. rewrite (SE2_boxplus_at_0 p u H1 Hu Hr) in Q. apply Q; [ intros t; rewrite err_lmk2_unfold; auto; try reflexivity | rewrite len_matvec; rewrite jac_lmk2_unfold by auto; reflexivity | exact (C01_lmk_SE2_v0_full p l z off u H1 H2 H3 H4 Hu) ].
Qed.
