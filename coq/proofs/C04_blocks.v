(* C04_blocks.v — flat index <-> (vertex position, offset): the flat sum over glen vs as a sum over
   blocks, the converse of locate_sound, double sums over (slot, offset) and the indicator pick that
   turns a sum over vertex positions into a sum over an edge's slots. *)
From Coq Require Import Reals List Arith Bool Lia Lra.
From GS Require Import GraphModel GNSpec C03_sums C03_index C06_main.
Import ListNotations.
Open Scope R_scope.

(* ---------- sumn over a concatenated range ---------- *)
Lemma sumn_app : forall a b f, sumnR (a + b) f = sumnR a f + sumnR b (fun j => f (a + j)%nat).
Proof.
  intros a b f. induction b as [|b IH].
  - rewrite Nat.add_0_r. cbn [sumn]. ring.
  - replace (a + S b)%nat with (S (a + b)) by lia. cbn [sumn]. rewrite IH. ring.
Qed.

Lemma sumn_nonneg : forall n f, (forall i, (i < n)%nat -> 0 <= f i) -> 0 <= sumnR n f.
Proof.
  induction n as [|n IH]; intros f Hf; cbn [sumn].
  - lra.
  - assert (H1 : 0 <= sumnR n f) by (apply IH; intros i Hi; apply Hf; lia).
    assert (H2 : 0 <= f n) by (apply Hf; lia). lra.
Qed.

(* ---------- sumlist ---------- *)
Lemma sumlist_plus : forall A (l : list A) f g, sumlist l (fun x => f x + g x) = sumlist l f + sumlist l g.
Proof.
  induction l as [|x l IH]; intros f g.
  - rewrite !sumlist_nil. ring.
  - rewrite !sumlist_cons, IH. ring.
Qed.
Lemma sumlist_scal_l : forall A (l : list A) c f, sumlist l (fun x => c * f x) = c * sumlist l f.
Proof.
  induction l as [|x l IH]; intros c f.
  - rewrite !sumlist_nil. ring.
  - rewrite !sumlist_cons, IH. ring.
Qed.
Lemma sumlist_scal_r : forall A (l : list A) c f, sumlist l (fun x => f x * c) = sumlist l f * c.
Proof.
  induction l as [|x l IH]; intros c f.
  - rewrite !sumlist_nil. ring.
  - rewrite !sumlist_cons, IH. ring.
Qed.
Lemma sumlist_sumn : forall A (l : list A) n (g : A -> nat -> R),
  sumlist l (fun x => sumnR n (fun i => g x i)) = sumnR n (fun i => sumlist l (fun x => g x i)).
Proof.
  induction l as [|x l IH]; intros n g.
  - rewrite sumlist_nil. symmetry. apply sumn_zero. intros i _. apply sumlist_nil.
  - rewrite sumlist_cons, IH. rewrite <- sumn_plus. apply sumn_ext. intros i _. rewrite sumlist_cons. reflexivity.
Qed.
Lemma sumlist_nonneg : forall A (l : list A) f, (forall x, In x l -> 0 <= f x) -> 0 <= sumlist l f.
Proof.
  induction l as [|x l IH]; intros f Hf.
  - rewrite sumlist_nil. lra.
  - rewrite sumlist_cons.
    assert (H1 : 0 <= f x) by (apply Hf; left; reflexivity).
    assert (H2 : 0 <= sumlist l f) by (apply IH; intros y Hy; apply Hf; right; exact Hy). lra.
Qed.

(* ---------- block offsets ---------- *)
Lemma goff_mono : forall vs k l, (k <= l)%nat -> (l <= length vs)%nat -> (goff vs k <= goff vs l)%nat.
Proof.
  intros vs k l Hkl. induction l as [|l IH]; intros Hl.
  - assert (E : k = 0%nat) by lia. subst k. lia.
  - destruct (Nat.eq_dec k (S l)) as [E|E]; [subst k; lia|].
    assert (H1 : (goff vs k <= goff vs l)%nat) by (apply IH; lia).
    rewrite goff_S by lia. lia.
Qed.

Lemma gi_block_lt : forall vs l j, (l < length vs)%nat -> (j < dim_at vs l)%nat -> (gi vs l + j < glen vs)%nat.
Proof.
  intros vs l j Hl Hj. unfold gi, glen.
  pose proof (goff_mono vs (S l) (length vs) ltac:(lia) ltac:(lia)) as H1.
  rewrite goff_S in H1 by lia. lia.
Qed.

(* converse of locate_sound *)
Lemma locate_gi : forall vs l j, (l < length vs)%nat -> (j < dim_at vs l)%nat ->
  locate vs (gi vs l + j) = Some (l, j).
Proof.
  induction vs as [|v vs IH]; intros l j Hl Hj.
  - simpl in Hl. lia.
  - destruct l as [|l].
    + unfold dim_at in Hj. cbn [nth] in Hj. unfold gi. rewrite goff_0. cbn [locate Nat.add].
      destruct (Nat.ltb_spec j (v_dim v)) as [L|L]; [reflexivity|lia].
    + assert (Hd : dim_at (v :: vs) (S l) = dim_at vs l) by reflexivity.
      rewrite Hd in Hj. simpl in Hl.
      assert (Eg : (gi (v :: vs) (S l) + j = v_dim v + (gi vs l + j))%nat).
      { unfold gi. change (goff (v :: vs) (S l)) with (v_dim v + goff vs l)%nat. lia. }
      rewrite Eg. cbn [locate].
      destruct (Nat.ltb_spec (v_dim v + (gi vs l + j)) (v_dim v)) as [L|L]; [lia|].
      replace (v_dim v + (gi vs l + j) - v_dim v)%nat with (gi vs l + j)%nat by lia.
      rewrite (IH l j) by lia. reflexivity.
Qed.

Lemma is_fixed_index_gi : forall vs l j, (l < length vs)%nat -> (j < dim_at vs l)%nat ->
  is_fixed_index vs (gi vs l + j) = fixed_at vs l.
Proof. intros vs l j Hl Hj. unfold is_fixed_index. rewrite locate_gi by assumption. reflexivity. Qed.

(* ---------- double sums: position (or slot) t, offset j < dm t ---------- *)
Definition sum2 (n : nat) (dm : nat -> nat) (g : nat -> nat -> R) : R :=
  sumnR n (fun t => sumnR (dm t) (fun j => g t j)).

Lemma sum2_ext : forall n dm g h, (forall t j, (t < n)%nat -> (j < dm t)%nat -> g t j = h t j) ->
  sum2 n dm g = sum2 n dm h.
Proof.
  intros n dm g h Hgh. unfold sum2. apply sumn_ext. intros t Ht. apply sumn_ext. intros j Hj. apply Hgh; assumption.
Qed.
Lemma sum2_plus : forall n dm g h, sum2 n dm (fun t j => g t j + h t j) = sum2 n dm g + sum2 n dm h.
Proof.
  intros n dm g h. unfold sum2. rewrite <- sumn_plus. apply sumn_ext. intros t _. rewrite <- sumn_plus. reflexivity.
Qed.
Lemma sum2_scal_l : forall n dm c g, sum2 n dm (fun t j => c * g t j) = c * sum2 n dm g.
Proof.
  intros n dm c g. unfold sum2. rewrite <- sumn_scal_l. apply sumn_ext. intros t _. rewrite <- sumn_scal_l. reflexivity.
Qed.
Lemma sum2_scal_r : forall n dm c g, sum2 n dm (fun t j => g t j * c) = sum2 n dm g * c.
Proof.
  intros n dm c g. unfold sum2. rewrite <- sumn_scal_r. apply sumn_ext. intros t _. rewrite <- sumn_scal_r. reflexivity.
Qed.
Lemma sum2_sumn : forall n dm m (g : nat -> nat -> nat -> R),
  sumnR m (fun a => sum2 n dm (g a)) = sum2 n dm (fun t j => sumnR m (fun a => g a t j)).
Proof.
  intros n dm m g. unfold sum2. rewrite sumn_swap. apply sumn_ext. intros t _. rewrite sumn_swap. reflexivity.
Qed.
Lemma sum2_sumlist : forall A (l : list A) n dm (g : A -> nat -> nat -> R),
  sumlist l (fun x => sum2 n dm (g x)) = sum2 n dm (fun t j => sumlist l (fun x => g x t j)).
Proof.
  intros A l n dm g. unfold sum2. rewrite sumlist_sumn. apply sumn_ext. intros t _. rewrite sumlist_sumn. reflexivity.
Qed.

(* the flat sum is the sum over blocks *)
Lemma sumn_goff : forall vs n f, (n <= length vs)%nat ->
  sumnR (goff vs n) f = sumnR n (fun l => sumnR (dim_at vs l) (fun j => f (gi vs l + j)%nat)).
Proof.
  intros vs n f. induction n as [|n IH]; intros Hn.
  - rewrite goff_0. reflexivity.
  - rewrite goff_S by lia. rewrite sumn_app. rewrite IH by lia. cbn [sumn]. reflexivity.
Qed.
Lemma sumn_blocks : forall vs f,
  sumnR (glen vs) f = sum2 (length vs) (dim_at vs) (fun l j => f (gi vs l + j)%nat).
Proof. intros vs f. unfold glen, sum2. apply sumn_goff. lia. Qed.

(* a sum over all vertex positions of terms carrying the indicator "slot t sits at position l"
   is the sum over the slots *)
Lemma sum2_pick : forall vs nt (sl : nat -> nat) (G : nat -> nat -> nat -> R),
  (forall t, (t < nt)%nat -> (sl t < length vs)%nat) ->
  sum2 (length vs) (dim_at vs) (fun l j => sumnR nt (fun t => ind (Nat.eqb (sl t) l) * G t l j))
  = sum2 nt (fun t => dim_at vs (sl t)) (fun t j => G t (sl t) j).
Proof.
  intros vs nt sl G Hsl. unfold sum2.
  transitivity (sumnR (length vs) (fun l => sumnR nt (fun t => ind (Nat.eqb (sl t) l) * sumnR (dim_at vs l) (fun j => G t l j)))).
  { apply sumn_ext. intros l _. rewrite sumn_swap. apply sumn_ext. intros t _. rewrite sumn_scal_l. reflexivity. }
  rewrite sumn_swap. apply sumn_ext. intros t Ht.
  apply (sumn_ind_pick (length vs) (sl t) (fun l => sumnR (dim_at vs l) (fun j => G t l j))).
  apply Hsl. exact Ht.
Qed.

(* ---------- the quadratic form of a sum, symmetric weight ---------- *)
Lemma quad_expand : forall n (E V : nat -> R) (Om : nat -> nat -> R), (forall a b, Om a b = Om b a) ->
  sumnR n (fun k => sumnR n (fun k0 => (E k0 + V k0) * Om k0 k) * (E k + V k)) =
  sumnR n (fun k => sumnR n (fun k0 => E k0 * Om k0 k) * E k)
  + 2 * sumnR n (fun b => sumnR n (fun a => E a * Om a b) * V b)
  + sumnR n (fun a => sumnR n (fun b => V a * Om a b * V b)).
Proof.
  intros n E V Om Hsym.
  set (S1 := fun k => sumnR n (fun k0 => E k0 * Om k0 k)).
  set (S2 := fun k => sumnR n (fun k0 => V k0 * Om k0 k)).
  transitivity (sumnR n (fun k => (S1 k * E k + S1 k * V k) + (S2 k * E k + S2 k * V k))).
  { apply sumn_ext. intros k _.
    assert (E1 : sumnR n (fun k0 => (E k0 + V k0) * Om k0 k) = S1 k + S2 k).
    { unfold S1, S2. rewrite <- sumn_plus. apply sumn_ext. intros k0 _. ring. }
    rewrite E1. ring. }
  rewrite !sumn_plus.
  assert (EC : sumnR n (fun k => S2 k * E k) = sumnR n (fun b => S1 b * V b)).
  { unfold S1, S2.
    transitivity (sumnR n (fun k => sumnR n (fun k0 => V k0 * Om k0 k * E k))).
    { apply sumn_ext. intros k _. rewrite <- sumn_scal_r. reflexivity. }
    rewrite sumn_swap. apply sumn_ext. intros b _. rewrite <- sumn_scal_r. apply sumn_ext. intros a _.
    rewrite (Hsym b a). ring. }
  assert (ED : sumnR n (fun k => S2 k * V k) = sumnR n (fun a => sumnR n (fun b => V a * Om a b * V b))).
  { unfold S2.
    transitivity (sumnR n (fun k => sumnR n (fun k0 => V k0 * Om k0 k * V k))).
    { apply sumn_ext. intros k _. rewrite <- sumn_scal_r. reflexivity. }
    rewrite sumn_swap. reflexivity. }
  rewrite EC, ED. unfold S1. ring.
Qed.
