(* Assembly of the C15 obligations into the statement of props/C15.v. *)
From Coq Require Import List String Bool.
From GS Require Import EffectModel GenEffects C15_frame.
Import ListNotations.
Open Scope string_scope.

(* effects_table (coq/gen/GenEffects.v) is the syntactic store-effect table regenerated from the source on every run;
   closure follows calls by method name across all classes (conservative); see lib/EffectModel.v for what counts
   as protected state.  The method space is finite, so these are proofs by computation. *)
Lemma C15_all :
  (* every query method exists and, transitively, never stores to a pose, measurement, information matrix,
     offset, fixed flag, id or edge/vertex binding *)
  (forall q, List.In q Q_pure -> existsb (fun p => String.eqb (fst p) q) effects_table = true /\ query_pure effects_table q = true) /\
  (* the numerical-Jacobian path stores only to the pose attribute of the edge's vertices (perturb / restore:
     restoration is theorem C16_fd_matrix) *)
  (forall q, List.In q Q_numjac -> forallb numjac_ok (closure effects_table FUEL (direct effects_table q)) = true) /\
  (* pose operators (+, -, +=, inverse, copy, to_*, Jacobians, equals) never write into their operands *)
  (forall q, List.In q P_ops -> existsb (fun p => String.eqb (fst p) q) effects_table = true /\ pose_op_pure effects_table q = true) /\
  (* optimize() stores only to vertex poses, the fixed flag of vertices, private caches of the graph and fresh objects *)
  forallb allowed_optimize (closure effects_table FUEL (direct effects_table "Graph.optimize")) = true /\
  (* non-vacuity: bodies that normalise a measurement in an export, write into self in +=, store to a pose from a
     helper reached through a call, store to an information matrix during optimize, or set the fixed flag of a vertex other than the first one during optimize are rejected *)
  (query_pure [("X.to_g2o", [ECallMut "self.estimate" "normalize"])] "X.to_g2o" = false /\
   pose_op_pure [("P.__iadd__", [EWriteInto "self"])] "P.__iadd__" = false /\
   query_pure [("G.calc_chi2", [ECall "helper"]); ("E.helper", [EWriteAttr "self.vertices[*]" "pose"])] "G.calc_chi2" = false /\
   forallb allowed_optimize [EWriteAttr "self._edges[*]" "information"] = false /\
   forallb allowed_optimize [EWriteAttr "self._vertices[*]" "fixed"] = false).
Proof.
  destruct frame_queries as [D1 F1]. destruct frame_numjac as [D2 F2]. destruct frame_pose_ops as [D3 F3].
  repeat match goal with |- _ /\ _ => split end.
  - intros q Hq. split.
    + unfold all_defined in D1. rewrite forallb_forall in D1. apply D1; auto.
    + rewrite forallb_forall in F1. apply F1; auto.
  - intros q Hq. rewrite forallb_forall in F2. apply F2; auto.
  - intros q Hq. split.
    + unfold all_defined in D3. rewrite forallb_forall in D3. apply D3; auto.
    + rewrite forallb_forall in F3. apply F3; auto.
  - exact frame_optimize.
  - apply rejects_normalizing_export.
  - apply rejects_normalizing_export.
  - apply rejects_normalizing_export.
  - apply rejects_normalizing_export.
  - apply rejects_normalizing_export.
Qed.
