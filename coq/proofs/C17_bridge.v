(* C17_bridge.v — the rational, sqrt-free instance of the equals model that the correspondence
   EXECUTES (smallQ, lib/EqualsModel.v) returns, for tol > 0, exactly the verdict of the real
   instance the theorems are about, on the image of the rational objects under Q2R.
   Part 1: the model is parametric in the number type (any map commuting with sub and small).
   Part 2: smallQ tol = smallR (Q2R tol) through Q2R. *)
From Coq Require Import Reals List ZArith Bool QArith Qreals Lra Psatz.
From GS Require Import PyBase EqualsModel EqualsSpec C17_num.
Import ListNotations.

Section Param.
  Variables A B : Type.
  Variable f : A -> B.
  Variable subA : A -> A -> A.
  Variable subB : B -> B -> B.
  Variable smA : list A -> list A -> bool.
  Variable smB : list B -> list B -> bool.
  Hypothesis Hsub : forall x y, f (subA x y) = subB (f x) (f y).
  Hypothesis Hsm : forall d a, smB (map f d) (map f a) = smA d a.

  Lemma map2_map a : forall b, map2 subB (map f a) (map f b) = map f (map2 subA a b).
  Proof.
    unfold map2. induction a as [|x a IH]; intros [|y b]; simpl; try reflexivity.
    rewrite IH, Hsub. reflexivity.
  Qed.
  Lemma bsub_map a b : bsub subB (map f a) (map f b) = option_map (map f) (bsub subA a b).
  Proof.
    unfold bsub. rewrite !map_length. destruct (Nat.eqb (length a) (length b)).
    - simpl. rewrite map2_map. reflexivity.
    - destruct a as [|x [|x' a]]; destruct b as [|y [|y' b]]; simpl; try reflexivity.
      all: rewrite ?Hsub; try reflexivity.
      all: f_equal; f_equal; f_equal; rewrite !map_map; apply map_ext; intros z; symmetry; apply Hsub.
  Qed.
  Lemma pose_param a b : pose_equals subB smB (map_pose f a) (map_pose f b) = pose_equals subA smA a b.
  Proof.
    unfold pose_equals, map_pose. simpl. destruct (negb (pkind_eqb (p_kind a) (p_kind b))); [reflexivity|].
    rewrite bsub_map. destruct (bsub subA (p_num a) (p_num b)); simpl; [|reflexivity]. rewrite Hsm. reflexivity.
  Qed.
  Lemma vertex_param a b : vertex_equals subB smB (map_vertex f a) (map_vertex f b) = vertex_equals subA smA a b.
  Proof.
    unfold vertex_equals. simpl. destruct (Z.eqb (v_id a) (v_id b)); [|reflexivity].
    destruct (pkind_eqb (p_kind (v_pose a)) (p_kind (v_pose b))); [|reflexivity]. apply pose_param.
  Qed.
  Lemma arr_close_param a b : arr_close subB smB (map_arr f a) (map_arr f b) = arr_close subA smA a b.
  Proof. unfold arr_close, map_arr. simpl. rewrite map2_map, Hsm. reflexivity. Qed.
  Lemma base_param a b : base_equals subB smB (map_edge f a) (map_edge f b) = base_equals subA smA a b.
  Proof.
    unfold base_equals. simpl. rewrite arr_close_param.
    destruct (negb (eclass_eqb (e_class a) (e_class b))); [reflexivity|].
    destruct (negb (Nat.eqb (length (e_ids a)) (length (e_ids b)))); [reflexivity|].
    destruct (existsb _ _); [reflexivity|].
    destruct (_ || _); [reflexivity|].
    destruct (e_est a) as [pa|xa], (e_est b) as [pb|xb]; simpl; try reflexivity.
    - apply pose_param.
    - destruct (negb (list_nat_eqb (a_shape xa) (a_shape xb))); [reflexivity|]. rewrite arr_close_param. reflexivity.
  Qed.
  Lemma edge_param a b : edge_equals subB smB (map_edge f a) (map_edge f b) = edge_equals subA smA a b.
  Proof.
    unfold edge_equals. simpl. destruct (e_class a) eqn:Ca; try apply base_param.
    unfold landmark_equals. simpl. rewrite Ca.
    destruct (negb (eclass_eqb Landmark (e_class b))); [reflexivity|].
    destruct (e_off a) as [pa|], (e_off b) as [pb|]; simpl; try reflexivity.
    destruct (negb (pkind_eqb (p_kind pa) (p_kind pb))); [reflexivity|].
    rewrite pose_param. destruct (pose_equals subA smA pa pb); try reflexivity.
    destruct (_ || _); [reflexivity|]. apply base_param.
  Qed.
  Lemma vall_param {X Y} (h : X -> Y) (F : Y -> Y -> verdict) (G : X -> X -> verdict) :
    (forall x y, F (h x) (h y) = G x y) -> forall a b, vall (map2 F (map h a) (map h b)) = vall (map2 G a b).
  Proof.
    intros H. unfold map2. induction a as [|x a IH]; intros [|y b]; simpl; try reflexivity.
    rewrite H, IH. reflexivity.
  Qed.
  Lemma graph_param a b : graph_equals subB smB (map_graph f a) (map_graph f b) = graph_equals subA smA a b.
  Proof.
    unfold graph_equals. simpl. rewrite !map_length.
    destruct (_ || _); [reflexivity|].
    rewrite (vall_param (map_edge f) _ (edge_equals subA smA) edge_param).
    rewrite (vall_param (map_vertex f) _ (vertex_equals subA smA) vertex_param). reflexivity.
  Qed.
End Param.

(* ------------------------------------------------------------------ Q -> R *)
Open Scope R_scope.

Lemma sumsq_Q2R l : sumsqR (map Q2R l) = Q2R (sumsqQ l).
Proof.
  induction l as [|x l IH]; simpl; [unfold Q2R; simpl; lra|].
  rewrite IH, Q2R_plus, Q2R_mult. reflexivity.
Qed.
Lemma qltb_Rlt x y : qltb x y = true <-> Q2R x < Q2R y.
Proof.
  unfold qltb. rewrite negb_true_iff. split.
  - intros H. apply Qlt_Rlt. apply Qnot_le_lt. intros Hle. apply Qle_bool_iff in Hle. congruence.
  - intros H. destruct (Qle_bool y x) eqn:E; [|reflexivity]. apply Qle_bool_iff in E. apply Qle_Rle in E. lra.
Qed.
Lemma qmax_Rmax x y : Q2R (qmax x y) = Rmax (Q2R x) (Q2R y).
Proof.
  unfold qmax. destruct (Qle_bool x y) eqn:E.
  - apply Qle_bool_iff in E. apply Qle_Rle in E. rewrite Rmax_right; auto.
  - assert (H : Q2R y < Q2R x).
    { apply Qlt_Rlt. apply Qnot_le_lt. intros Hle. apply Qle_bool_iff in Hle. congruence. }
    rewrite Rmax_left; lra.
Qed.
Lemma Rmax_sq a t : 0 <= a -> 0 < t -> Rmax (sqrt a) t * Rmax (sqrt a) t = Rmax a (t * t).
Proof.
  intros Ha Ht. pose proof (sqrt_pos a) as Hs. pose proof (sqrt_sqrt a Ha) as Hss.
  unfold Rmax. destruct (Rle_dec (sqrt a) t), (Rle_dec a (t * t)); nra.
Qed.
Lemma sqrt_lt_sq d y : 0 <= d -> 0 < y -> (sqrt d < y <-> d < y * y).
Proof.
  intros Hd Hy. pose proof (sqrt_pos d) as Hs. pose proof (sqrt_sqrt d Hd) as Hss. split; intros H; nra.
Qed.

Lemma smallQ_smallR tol d a : (0 < tol)%Q -> smallR (Q2R tol) (map Q2R d) (map Q2R a) = smallQ tol d a.
Proof.
  intros Ht. assert (Htr : 0 < Q2R tol) by (apply Qlt_Rlt in Ht; unfold Q2R in Ht at 1; simpl in Ht; lra).
  apply eq_true_iff_eq. rewrite (smallR_spec _ _ _ Htr). unfold smallQ. rewrite qltb_Rlt.
  rewrite !Q2R_mult, qmax_Rmax, Q2R_mult. unfold normR. rewrite !sumsq_Q2R.
  set (D := Q2R (sumsqQ d)). set (Aa := Q2R (sumsqQ a)). set (t := Q2R tol) in *.
  assert (HD : 0 <= D) by (unfold D; rewrite <- sumsq_Q2R; apply sumsqR_nonneg).
  assert (HA : 0 <= Aa) by (unfold Aa; rewrite <- sumsq_Q2R; apply sumsqR_nonneg).
  assert (Hm : 0 < Rmax (sqrt Aa) t) by (pose proof (Rmax_r (sqrt Aa) t); lra).
  rewrite (sqrt_lt_sq D (t * Rmax (sqrt Aa) t) HD) by nra.
  replace (t * Rmax (sqrt Aa) t * (t * Rmax (sqrt Aa) t)) with (t * t * (Rmax (sqrt Aa) t * Rmax (sqrt Aa) t)) by ring.
  rewrite (Rmax_sq Aa t HA Htr). tauto.
Qed.

(* the executed model agrees with the model the theorems are about *)
Theorem bridge_all (tol : Q) : (0 < tol)%Q ->
  (forall a b, pose_equals Qminus (smallQ tol) a b = equalsR_pose (Q2R tol) (map_pose Q2R a) (map_pose Q2R b)) /\
  (forall a b, vertex_equals Qminus (smallQ tol) a b = equalsR_vertex (Q2R tol) (map_vertex Q2R a) (map_vertex Q2R b)) /\
  (forall a b, edge_equals Qminus (smallQ tol) a b = equalsR_edge (Q2R tol) (map_edge Q2R a) (map_edge Q2R b)) /\
  (forall a b, graph_equals Qminus (smallQ tol) a b = equalsR_graph (Q2R tol) (map_graph Q2R a) (map_graph Q2R b)).
Proof.
  intros Ht.
  assert (Hsub : forall x y, Q2R (x - y) = Q2R x - Q2R y) by (intros; apply Q2R_minus).
  assert (Hsm : forall d a, smallR (Q2R tol) (map Q2R d) (map Q2R a) = smallQ tol d a) by (intros; apply smallQ_smallR; exact Ht).
  split; [|split; [|split]]; intros a b; symmetry.
  - apply (pose_param Q R Q2R Qminus Rminus (smallQ tol) (smallR (Q2R tol)) Hsub Hsm).
  - apply (vertex_param Q R Q2R Qminus Rminus (smallQ tol) (smallR (Q2R tol)) Hsub Hsm).
  - apply (edge_param Q R Q2R Qminus Rminus (smallQ tol) (smallR (Q2R tol)) Hsub Hsm).
  - apply (graph_param Q R Q2R Qminus Rminus (smallQ tol) (smallR (Q2R tol)) Hsub Hsm).
Qed.
