(* C07_jac2.v — SE(2): the Jacobian matrices of the transformed edges ARE those of the original edges
   (pose slots), for every T, every pose, no side condition: direct computation on the regenerated programs. *)
From Coq Require Import Reals List Lra ZArith Lia.
From Coquelicot Require Import Coquelicot.
From GS Require Import ExprR LinAlg Meth MethR Prog Chain Wrap Spec GenR2 GenR3 GenSE2 GenSE3 GenEdges
  C10_SE3 C10_SE3_boxplus C10_SE2 C10_Rn C09_SE3 C09_SE2 C11_main C01_SE3 C01_Rn C01_SE2 C02_model C07_errors C07_equiv.
Import ListNotations.
Open Scope R_scope.
Theorem C07_jac_odo_SE2 T p1 p2 z : length T = 3%nat -> length p1 = 3%nat -> length p2 = 3%nat -> length z = 3%nat ->
  jac_odo2 (comp2 T p1) (comp2 T p2) z = jac_odo2 p1 p2 z.
Proof.
  intros HT H1 H2 H3. list_len T HT. list_len p1 H1. list_len p2 H2. list_len z H3.
  cb0. fold_wrap. trig_norm. pose proof (sc1 x1) as CT.
  repeat (f_equal; try ring [CT]).
Qed.
Theorem C07_jac_lmk_SE2_pose T p l z off : length T = 3%nat -> length p = 3%nat -> length l = 2%nat -> length z = 2%nat -> length off = 3%nat ->
  nth 0 (jac_lmk2 (comp2 T p) (act2 T l) z off) [] = nth 0 (jac_lmk2 p l z off) [].
Proof.
  intros HT Hp Hl Hz Ho. list_len T HT. list_len p Hp. list_len l Hl. list_len z Hz. list_len off Ho.
  cb0. fold_wrap. trig_norm. pose proof (sc1 x1) as CT.
  repeat (f_equal; try ring [CT]).
Qed.
