(* C08_vperm.v — permuting the VERTEX list.  The flat layout of the gradient vector changes (vertex k moves
   from position k to position sigma k, its block from offset gi vs k to gi vs' (sigma k)); the assembled
   system is the same system with rows and columns renumbered by phi, chi2 is the same number, and the
   solutions correspond.  Also: with distinct ids the binding of an edge follows the permutation. *)
From Coq Require Import Reals List Arith Bool Lia Lra Permutation ZArith.
From GS Require Import GraphModel GNSpec C03_sums C03_index C03_accumulate C03_assembly C06_main C04_blocks C08_graph.
Import ListNotations.
Open Scope R_scope.

Notation dv := (mkvertex 0 false).

(* ---- sums over a permutation of the index range ---- *)
Lemma map_nth_seq (sg : list nat) : map (fun l => nth l sg 0%nat) (seq 0 (length sg)) = sg.
Proof.
  apply (nth_ext _ _ 0%nat 0%nat).
  - rewrite map_length, seq_length. reflexivity.
  - intros k Hk. rewrite map_length, seq_length in Hk.
    rewrite (nth_indep _ 0%nat ((fun l => nth l sg 0%nat) 0%nat)) by (rewrite map_length, seq_length; exact Hk).
    rewrite (map_nth (fun l => nth l sg 0%nat)). rewrite seq_nth by exact Hk. reflexivity.
Qed.
Lemma sumn_reindex n (sg : list nat) (G : nat -> R) : Permutation sg (seq 0 n) ->
  sumnR n (fun l => G (nth l sg 0%nat)) = sumnR n G.
Proof.
  intros Hp. assert (Hl : length sg = n) by (rewrite (Permutation_length Hp), seq_length; reflexivity).
  rewrite <- !sumlist_seq0.
  rewrite <- (sumlist_map nat nat (fun l => nth l sg 0%nat) (seq 0 n) G).
  rewrite <- Hl at 1. rewrite map_nth_seq. apply sumlist_perm. exact Hp.
Qed.

Section VertexPermutation.
  Variables (vs vs' : list vertex) (sg : list nat).
  Let n := length vs.
  Let sigma (k : nat) : nat := nth k sg 0%nat.                 (* old position -> new position *)
  Hypothesis Hperm : Permutation sg (seq 0 n).
  Hypothesis Hlen : length vs' = n.
  Hypothesis Hvs : forall k, (k < n)%nat -> nth (sigma k) vs' dv = nth k vs dv.

  Lemma sg_len : length sg = n.
  Proof. rewrite (Permutation_length Hperm), seq_length. reflexivity. Qed.
  Lemma sigma_lt k : (k < n)%nat -> (sigma k < n)%nat.
  Proof.
    intros Hk. assert (Hin : In (sigma k) sg) by (apply nth_In; rewrite sg_len; exact Hk).
    apply (Permutation_in _ Hperm) in Hin. apply in_seq in Hin. lia.
  Qed.
  Lemma sigma_inj k l : (k < n)%nat -> (l < n)%nat -> sigma k = sigma l -> k = l.
  Proof.
    intros Hk Hl E. assert (Hnd : NoDup sg) by (apply (Permutation_NoDup (Permutation_sym Hperm)), seq_NoDup).
    rewrite (NoDup_nth sg 0%nat) in Hnd. apply Hnd; [rewrite sg_len; exact Hk | rewrite sg_len; exact Hl | exact E].
  Qed.
  Lemma sigma_surj k' : (k' < n)%nat -> exists k, (k < n)%nat /\ sigma k = k'.
  Proof.
    intros Hk. assert (Hin : In k' sg).
    { apply (Permutation_in _ (Permutation_sym Hperm)). apply in_seq. lia. }
    destruct (In_nth sg k' 0%nat Hin) as (k & Hk' & E). exists k. rewrite sg_len in Hk'. split; auto.
  Qed.
  Lemma sigma_eqb k l : (k < n)%nat -> (l < n)%nat -> Nat.eqb (sigma k) (sigma l) = Nat.eqb k l.
  Proof.
    intros Hk Hl. destruct (Nat.eqb_spec k l) as [E|E].
    - subst. apply Nat.eqb_refl.
    - apply Nat.eqb_neq. intros E'. apply E. apply sigma_inj; auto.
  Qed.
  Lemma dim_sigma k : (k < n)%nat -> dim_at vs' (sigma k) = dim_at vs k.
  Proof. intros Hk. unfold dim_at. rewrite Hvs by exact Hk. reflexivity. Qed.
  Lemma fixed_sigma k : (k < n)%nat -> fixed_at vs' (sigma k) = fixed_at vs k.
  Proof. intros Hk. unfold fixed_at. rewrite Hvs by exact Hk. reflexivity. Qed.

  (* the renumbering of flat indices *)
  Definition phi (r : nat) : nat :=
    match locate vs r with Some (k, i) => (gi vs' (sigma k) + i)%nat | None => r end.
  Lemma locate_phi r k i : locate vs r = Some (k, i) -> locate vs' (phi r) = Some (sigma k, i).
  Proof.
    intros Lr. destruct (locate_sound vs r k i Lr) as (Hk & Hi & _). unfold phi. rewrite Lr.
    apply locate_gi.
    - rewrite Hlen. apply sigma_lt. exact Hk.
    - rewrite dim_sigma by exact Hk. exact Hi.
  Qed.
  Lemma phi_gi k i : (k < n)%nat -> (i < dim_at vs k)%nat -> phi (gi vs k + i) = (gi vs' (sigma k) + i)%nat.
  Proof. intros Hk Hi. unfold phi. rewrite (locate_gi vs k i Hk Hi). reflexivity. Qed.
  Lemma phi_lt r : (r < glen vs)%nat -> (phi r < glen vs')%nat.
  Proof.
    intros Hr. destruct (locate_total vs r Hr) as (k & i & Lr).
    destruct (locate_sound vs r k i Lr) as (Hk & Hi & _). unfold phi. rewrite Lr.
    apply gi_block_lt; [rewrite Hlen; apply sigma_lt; exact Hk | rewrite dim_sigma by exact Hk; exact Hi].
  Qed.
  Lemma phi_surj r' : (r' < glen vs')%nat -> exists r, (r < glen vs)%nat /\ phi r = r'.
  Proof.
    intros Hr'. destruct (locate_total vs' r' Hr') as (k' & i & Lr').
    destruct (locate_sound vs' r' k' i Lr') as (Hk' & Hi & Er'). rewrite Hlen in Hk'.
    destruct (sigma_surj k' Hk') as (k & Hk & Ek). subst k'. rewrite dim_sigma in Hi by exact Hk.
    exists (gi vs k + i)%nat. split; [apply gi_block_lt; assumption|]. rewrite phi_gi by assumption. symmetry. exact Er'.
  Qed.

  (* the same edge seen from the permuted vertex list *)
  Definition perm_edge (e : Redge) : Redge := mkedge R (map sigma (e_slots R e)) (e_err R e) (e_om R e) (e_jac R e).
  Lemma slot_perm e s : (s < length (e_slots R e))%nat -> slotR (perm_edge e) s = sigma (slotR e s).
  Proof.
    intros Hs. unfold slot_at, perm_edge. cbn [e_slots].
    rewrite (nth_indep _ 0%nat (sigma 0%nat)) by (rewrite map_length; exact Hs). apply map_nth.
  Qed.

  Theorem spec_b_vperm es r : wf_graph vs es -> (r < glen vs)%nat ->
    spec_b vs' (map perm_edge es) (phi r) = spec_b vs es r.
  Proof.
    intros Hwf Hr. destruct (locate_total vs r Hr) as (k & i & Lr).
    destruct (locate_sound vs r k i Lr) as (Hk & Hi & _).
    unfold spec_b. rewrite (locate_phi r k i Lr), Lr, (fixed_sigma k Hk).
    destruct (fixed_at vs k); [reflexivity|].
    rewrite sumlist_map. apply sumlist_ext. intros e Hin.
    assert (He : wf_edge vs e) by (destruct Hwf as [_ H]; rewrite Forall_forall in H; apply H; exact Hin).
    change (e_slots R (perm_edge e)) with (map sigma (e_slots R e)). rewrite map_length.
    apply sumn_ext. intros s Hs. rewrite (slot_perm e s Hs).
    rewrite sigma_eqb by (auto; apply (slot_in_range vs e s He Hs)). reflexivity.
  Qed.
  Theorem spec_H_vperm es r c : wf_graph vs es -> (r < glen vs)%nat -> (c < glen vs)%nat ->
    spec_H vs' (map perm_edge es) (phi r) (phi c) = spec_H vs es r c.
  Proof.
    intros Hwf Hr Hc. destruct (locate_total vs r Hr) as (k & i & Lr). destruct (locate_total vs c Hc) as (l & j & Lc).
    destruct (locate_sound vs r k i Lr) as (Hk & Hi & _). destruct (locate_sound vs c l j Lc) as (Hl & Hj & _).
    unfold spec_H. rewrite (locate_phi r k i Lr), (locate_phi c l j Lc), Lr, Lc, (fixed_sigma k Hk), (fixed_sigma l Hl).
    destruct (fixed_at vs k || fixed_at vs l).
    - f_equal. destruct (Nat.eqb_spec r c) as [E|E].
      + rewrite E. apply Nat.eqb_refl.
      + apply Nat.eqb_neq. intros E'. apply E. unfold phi in E'. rewrite Lr, Lc in E'.
        assert (L1 : locate vs' (gi vs' (sigma k) + i) = Some (sigma k, i))
          by (apply locate_gi; [rewrite Hlen; apply sigma_lt; auto | rewrite dim_sigma; auto]).
        assert (L2 : locate vs' (gi vs' (sigma l) + j) = Some (sigma l, j))
          by (apply locate_gi; [rewrite Hlen; apply sigma_lt; auto | rewrite dim_sigma; auto]).
        rewrite E' in L1. rewrite L1 in L2. inversion L2 as [[E1 E2]].
        apply sigma_inj in E1; auto. subst.
        destruct (locate_sound vs r _ _ Lr) as (_ & _ & Er). destruct (locate_sound vs c _ _ Lc) as (_ & _ & Ec).
        rewrite Er, Ec. reflexivity.
    - rewrite sumlist_map. apply sumlist_ext. intros e Hin.
      assert (He : wf_edge vs e) by (destruct Hwf as [_ H]; rewrite Forall_forall in H; apply H; exact Hin).
      change (e_slots R (perm_edge e)) with (map sigma (e_slots R e)). rewrite map_length.
      apply sumn_ext. intros s Hs. apply sumn_ext. intros t Ht.
      rewrite (slot_perm e s Hs), (slot_perm e t Ht).
      rewrite !sigma_eqb by (auto; apply (slot_in_range vs e _ He); assumption). reflexivity.
  Qed.
  Lemma chi2_vperm es : spec_chi2 (map perm_edge es) = spec_chi2 es.
  Proof. unfold spec_chi2. rewrite sumlist_map. reflexivity. Qed.

  (* a flat sum over the new layout, renumbered *)
  Lemma sumn_phi (f : nat -> R) : sumnR (glen vs') f = sumnR (glen vs) (fun c => f (phi c)).
  Proof.
    rewrite !sumn_blocks. unfold sum2. rewrite Hlen. fold n.
    rewrite <- (sumn_reindex n sg (fun l' => sumnR (dim_at vs' l') (fun j => f (gi vs' l' + j)%nat)) Hperm).
    apply sumn_ext. intros l Hl. fold (sigma l). rewrite (dim_sigma l Hl).
    apply sumn_ext. intros j Hj. rewrite phi_gi by assumption. reflexivity.
  Qed.

  Theorem solves_vperm es dx dx' : wf_graph vs es ->
    (forall c, (c < glen vs)%nat -> dx' (phi c) = dx c) ->
    solves (glen vs) (spec_H vs es) (spec_b vs es) dx ->
    solves (glen vs') (spec_H vs' (map perm_edge es)) (spec_b vs' (map perm_edge es)) dx'.
  Proof.
    intros Hwf Hdx Hs r' Hr'. destruct (phi_surj r' Hr') as (r & Hr & <-).
    rewrite sumn_phi. rewrite (spec_b_vperm es r Hwf Hr). rewrite <- (Hs r Hr).
    apply sumn_ext. intros c Hc. rewrite (spec_H_vperm es r c Hwf Hr Hc), (Hdx c Hc). reflexivity.
  Qed.
End VertexPermutation.

(* ---- binding by id follows the permutation (distinct ids) ---- *)
Lemma last_index_of_found ids x k found :
  last_index_of ids x k found =
  match last_index_of ids x k None with Some j => Some j | None => found end.
Proof.
  revert k found. induction ids as [|y ids IH]; intros k found; simpl; [reflexivity|].
  rewrite (IH (S k) (if Z.eqb y x then Some k else found)). rewrite (IH (S k) (if Z.eqb y x then Some k else None)).
  destruct (last_index_of ids x (S k) None); [reflexivity|]. destruct (Z.eqb y x); reflexivity.
Qed.
Lemma last_index_of_notin ids x k : ~ In x ids -> last_index_of ids x k None = None.
Proof.
  revert k. induction ids as [|y ids IH]; intros k Hn; simpl; [reflexivity|].
  destruct (Z.eqb_spec y x) as [E|E]; [exfalso; apply Hn; left; exact E|].
  apply IH. intros H. apply Hn. right. exact H.
Qed.
Lemma last_index_of_nodup ids x k j : NoDup ids -> (j < length ids)%nat -> nth j ids 0%Z = x ->
  last_index_of ids x k None = Some (k + j)%nat.
Proof.
  revert k j. induction ids as [|y ids IH]; intros k j Hnd Hj Hx; simpl in *; [lia|].
  inversion Hnd as [|? ? Hny Hnd']; subst.
  destruct j as [|j].
  - rewrite Z.eqb_refl. rewrite last_index_of_found. rewrite last_index_of_notin by exact Hny. f_equal. lia.
  - destruct (Z.eqb_spec y (nth j ids 0%Z)) as [E|E].
    + exfalso. apply Hny. rewrite E. apply nth_In. lia.
    + rewrite (IH (S k) j Hnd') by (auto; lia). f_equal. lia.
Qed.
Theorem bind_vperm ids ids' sg vids : NoDup ids -> Permutation sg (seq 0 (length ids)) -> length ids' = length ids ->
  (forall k, (k < length ids)%nat -> nth (nth k sg 0%nat) ids' 0%Z = nth k ids 0%Z) ->
  bind_slots ids' vids = option_map (map (fun k => nth k sg 0%nat)) (bind_slots ids vids).
Proof.
  intros Hnd Hp Hl Hn.
  assert (Hsl : length sg = length ids) by (rewrite (Permutation_length Hp), seq_length; reflexivity).
  assert (Hlt : forall k, (k < length ids)%nat -> (nth k sg 0%nat < length ids)%nat).
  { intros k Hk. assert (Hin : In (nth k sg 0%nat) sg) by (apply nth_In; lia).
    apply (Permutation_in _ Hp) in Hin. apply in_seq in Hin. lia. }
  assert (Hnd_sg : NoDup sg) by (apply (Permutation_NoDup (Permutation_sym Hp)), seq_NoDup).
  (* ids' is a permutation of ids, hence NoDup and same membership *)
  assert (Hin' : forall x, In x ids' -> In x ids).
  { intros x Hx. destruct (In_nth ids' x 0%Z Hx) as (k' & Hk' & E).
    assert (Hk'in : In k' sg) by (apply (Permutation_in _ (Permutation_sym Hp)); apply in_seq; lia).
    destruct (In_nth sg k' 0%nat Hk'in) as (k & Hk & Ek). rewrite Hsl in Hk.
    rewrite <- E, <- Ek, (Hn k Hk). apply nth_In. exact Hk. }
  assert (Hnd' : NoDup ids').
  { rewrite (NoDup_nth ids' 0%Z). intros a b Ha Hb E.
    assert (Ha' : In a sg) by (apply (Permutation_in _ (Permutation_sym Hp)); apply in_seq; lia).
    assert (Hb' : In b sg) by (apply (Permutation_in _ (Permutation_sym Hp)); apply in_seq; lia).
    destruct (In_nth sg a 0%nat Ha') as (ka & Hka & Eka). destruct (In_nth sg b 0%nat Hb') as (kb & Hkb & Ekb).
    rewrite Hsl in Hka, Hkb. rewrite <- Eka, <- Ekb in E. rewrite (Hn ka Hka), (Hn kb Hkb) in E.
    rewrite (NoDup_nth ids 0%Z) in Hnd. apply Hnd in E; auto. subst. reflexivity. }
  assert (Hstep : forall x, last_index_of ids' x 0 None = option_map (fun k => nth k sg 0%nat) (last_index_of ids x 0 None)).
  { intros x. destruct (in_dec Z.eq_dec x ids) as [Hx|Hx].
    - destruct (In_nth ids x 0%Z Hx) as (k & Hk & Ek).
      rewrite (last_index_of_nodup ids x 0 k Hnd Hk Ek).
      rewrite (last_index_of_nodup ids' x 0 (nth k sg 0%nat) Hnd') by (rewrite ?Hl; auto; rewrite Hn; auto).
      reflexivity.
    - rewrite (last_index_of_notin ids x 0 Hx).
      rewrite (last_index_of_notin ids' x 0) by (intros H; apply Hx, Hin', H). reflexivity. }
  unfold bind_slots. induction vids as [|x vids IH]; [reflexivity|].
  cbn [fold_right]. rewrite IH, Hstep.
  destruct (last_index_of ids x 0 None) as [k|]; cbn [option_map]; [|reflexivity].
  match goal with |- context [option_map _ ?A] => destruct A end; reflexivity.
Qed.

(* the hypotheses are satisfiable, and the renumbering moves blocks as expected *)
Example vperm_hyps_satisfiable :
  let vs := [mkvertex 2 true; mkvertex 3 false; mkvertex 6 false] in
  let vs' := [mkvertex 3 false; mkvertex 6 false; mkvertex 2 true] in
  let sg := [2%nat; 0%nat; 1%nat] in
  Permutation sg (seq 0 (length vs)) /\ length vs' = length vs /\
  (forall k, (k < length vs)%nat -> nth (nth k sg 0%nat) vs' (mkvertex 0 false) = nth k vs (mkvertex 0 false)) /\
  phi vs vs' sg 0 = 9%nat /\ phi vs vs' sg 2 = 0%nat /\ phi vs vs' sg 5 = 3%nat.
Proof.
  cbv zeta. repeat split; try reflexivity.
  - simpl. apply perm_trans with [0%nat; 2%nat; 1%nat]; [apply perm_swap | apply perm_skip, perm_swap].
  - intros k Hk. simpl in Hk. destruct k as [|[|[|k]]]; try reflexivity; lia.
Qed.
Example bind_follows :
  bind_slots [10%Z; (-3)%Z; 7%Z] [7%Z; 10%Z] = Some [2%nat; 0%nat] /\
  bind_slots [(-3)%Z; 7%Z; 10%Z] [7%Z; 10%Z] = Some [1%nat; 2%nat].
Proof. split; reflexivity. Qed.
