(* C02: chi^2 of an edge is e^T Omega e (for the regenerated np.dot form), the graph's chi^2 is the
   sum over the edges; non-negativity, linearity in Omega, zero iff every error vanishes, and what a
   vanishing error means for each edge kind. *)
From Coq Require Import Reals List Lra ZArith Lia Permutation.
From GS Require Import ExprR LinAlg Meth MethR Prog Chain Wrap Spec Chi2 GenR2 GenR3 GenSE2 GenSE3 GenEdges GenChi2
  C10_SE3 C10_SE3_boxplus C10_SE2 C10_Rn C09_SE3 C09_SE2 C11_main C01_SE3 C01_Rn C01_SE2 C02_odo3 C02_model.
Import ListNotations.
Open Scope R_scope.

Definition edge_chi2 (e : list R) (om : list (list R)) : R := as_scalar (eval_cform e om edge_chi2_form).

Lemma edge_chi2_quad n e om : (0 < n)%nat -> square_mat n om -> edge_chi2 e om = quad e om.
Proof.
  intros Hn [Hl Hw]. unfold edge_chi2, edge_chi2_form. cbn [eval_cform np_transpose np_dot as_scalar].
  apply vecmat_dot.
  - destruct om; [simpl in Hl; lia | discriminate].
  - destruct om as [|r om]; [simpl in Hl; lia|]. inversion Hw as [|? ? Hr _]; subst. simpl hd. rewrite Hr. exact Hw.
Qed.

(* the graph: a list of (error vector, information matrix) pairs, one per edge, in list order *)
Definition graph_chi2_edges (es : list (list R * list (list R))) : R :=
  graph_chi2_of_code (map (fun p => edge_chi2 (fst p) (snd p)) es).
Definition edge_ok (p : list R * list (list R)) : Prop := (0 < length (fst p))%nat /\ square_mat (length (fst p)) (snd p).

Lemma chi2_nonneg es : List.Forall edge_ok es -> List.Forall (fun p => psd (length (fst p)) (snd p)) es -> 0 <= graph_chi2_edges es.
Proof.
  intros Hok Hpsd. unfold graph_chi2_edges, graph_chi2_of_code. apply graph_chi2_nonneg.
  rewrite Forall_map. rewrite Forall_forall in *. intros p Hp.
  destruct (Hok p Hp) as [Hn Hs]. rewrite (edge_chi2_quad _ _ _ Hn Hs). apply (Hpsd p Hp). reflexivity.
Qed.
Lemma chi2_zero_iff es : List.Forall edge_ok es -> List.Forall (fun p => pd (length (fst p)) (snd p)) es ->
  (graph_chi2_edges es = 0 <-> List.Forall (fun p => fst p = zeros (length (fst p))) es).
Proof.
  intros Hok Hpd. unfold graph_chi2_edges, graph_chi2_of_code.
  assert (Hq : forall p, List.In p es -> edge_chi2 (fst p) (snd p) = quad (fst p) (snd p)).
  { intros p Hp. rewrite Forall_forall in Hok. destruct (Hok p Hp) as [Hn Hs]. apply (edge_chi2_quad _ _ _ Hn Hs). }
  assert (Hnn : List.Forall (fun c => 0 <= c) (map (fun p => edge_chi2 (fst p) (snd p)) es)).
  { rewrite Forall_map, Forall_forall. intros p Hp. rewrite (Hq p Hp).
    rewrite Forall_forall in Hpd. specialize (Hpd p Hp (fst p) eq_refl).
    destruct (list_eq_dec Req_EM_T (fst p) (zeros (length (fst p)))) as [E|NE].
    - rewrite E at 1. rewrite quad_zero. lra.
    - apply Rlt_le. apply Hpd. exact NE. }
  rewrite (graph_chi2_zero_iff _ Hnn). rewrite Forall_map. rewrite !Forall_forall. split.
  - intros H p Hp. specialize (H p Hp). rewrite (Hq p Hp) in H.
    destruct (list_eq_dec Req_EM_T (fst p) (zeros (length (fst p)))) as [E|NE]; auto.
    rewrite Forall_forall in Hpd. specialize (Hpd p Hp (fst p) eq_refl NE). lra.
  - intros H p Hp. rewrite (Hq p Hp). rewrite (H p Hp) at 1. apply quad_zero.
Qed.
Lemma chi2_perm es es' : Permutation es es' -> graph_chi2_edges es = graph_chi2_edges es'.
Proof. intros H. unfold graph_chi2_edges, graph_chi2_of_code. apply graph_chi2_perm. apply Permutation_map. exact H. Qed.
(* linear in Omega *)
Lemma Forall2_len_vscale c d a b n : well_shaped n a -> well_shaped n b -> length a = length b ->
  Forall2 (fun r s => length r = length s) (map (vscale c) a) (map (vscale d) b).
Proof.
  intros Wa. revert b. induction Wa as [|r a Hr Wa IH]; intros b Wb Hl.
  - destruct b; [constructor | discriminate].
  - destruct b as [|s b]; [discriminate|]. inversion Wb as [|? ? Hs Wb']; subst. simpl. constructor.
    + rewrite !length_vscale. congruence.
    + apply IH; auto.
Qed.
Lemma chi2_linear n e a b c d : (0 < n)%nat -> square_mat n a -> square_mat n b -> square_mat n (madd (mscale c a) (mscale d b)) ->
  edge_chi2 e (madd (mscale c a) (mscale d b)) = c * edge_chi2 e a + d * edge_chi2 e b.
Proof.
  intros Hn Ha Hb Hab. rewrite !(edge_chi2_quad n) by auto.
  destruct Ha as [La Wa], Hb as [Lb Wb].
  rewrite quad_madd, !quad_mscale; auto.
  - unfold mscale. rewrite !map_length. congruence.
  - unfold mscale. apply (Forall2_len_vscale c d a b n); auto. congruence.
Qed.
