(* C05 (the part that is logic): stationarity <-> zero gradient, descent direction, consistent
   configurations are fixed points, the stopping rule never reports convergence on an increase. *)
From Coq Require Import Reals List Arith Bool Lia Lra.
From Coquelicot Require Import Coquelicot.
From GS Require Import ExprR LinAlg Chi2 GraphModel GNSpec LinearSpec OptLoopR C03_sums C03_index C03_assembly C06_main C04_blocks
  Meth MethR Prog Chain GenSE3 GenEdges C10_SE3 C10_SE3_boxplus C01_SE3.
Import ListNotations.
Open Scope R_scope.

(* ---- derivative of a quadratic form along a differentiable curve of error vectors ---- *)
Definition evalfs (fs : list (R -> R)) (t : R) : list R := map (fun f => f t) fs.
Ltac ringR := match goal with |- ?a = ?b => change (@eq R a b) end; ring.
Lemma is_derive_eq (f : R -> R) x l l' : is_derive f x l -> l = l' -> is_derive f x l'.
Proof. intros H E. rewrite <- E. exact H. Qed.
Lemma is_derive_dotR (fs gs : list (R -> R)) (vs ws : list R) t0 :
  Forall2 (fun f v => is_derive f t0 v) fs vs -> Forall2 (fun g w => is_derive g t0 w) gs ws ->
  is_derive (fun t => dotR (evalfs fs t) (evalfs gs t)) t0 (dotR vs (evalfs gs t0) + dotR (evalfs fs t0) ws).
Proof.
  intros Hf. revert gs ws. induction Hf as [|f v fs vs Hfv _ IH]; intros gs ws Hg.
  - apply (is_derive_ext (fun _ : R => 0)); [intros t; reflexivity|].
    apply (is_derive_eq (fun _ : R => 0) t0 0); [apply (is_derive_const (K:=R_AbsRing) (V:=R_NormedModule)) | unfold dotR; simpl; ringR].
  - destruct Hg as [|g w gs ws Hgw Hg].
    + apply (is_derive_ext (fun _ : R => 0)).
      * intros t. unfold evalfs. simpl map. rewrite dotR_nil_r. reflexivity.
      * apply (is_derive_eq (fun _ : R => 0) t0 0); [apply (is_derive_const (K:=R_AbsRing) (V:=R_NormedModule))|].
        unfold evalfs; simpl map; rewrite !dotR_nil_r; ringR.
    + specialize (IH gs ws Hg).
      apply (is_derive_ext (fun t => f t * g t + dotR (evalfs fs t) (evalfs gs t))).
      * intros t. unfold evalfs. simpl map. rewrite dotR_cons. reflexivity.
      * apply (is_derive_eq _ t0 ((v * g t0 + f t0 * w) + (dotR vs (evalfs gs t0) + dotR (evalfs fs t0) ws))).
        -- apply (is_derive_plus (K:=R_AbsRing) (V:=R_NormedModule) (fun t => f t * g t) (fun t => dotR (evalfs fs t) (evalfs gs t))); [|exact IH].
           apply (Derive.is_derive_mult f g t0 v w); auto.
        -- unfold evalfs; simpl map; rewrite !dotR_cons; ringR.
Qed.
Lemma is_derive_matvec (om : list (list R)) (fs : list (R -> R)) (vs : list R) t0 :
  Forall2 (fun f v => is_derive f t0 v) fs vs ->
  Forall2 (fun g w => is_derive g t0 w) (map (fun row t => dotR row (evalfs fs t)) om) (matvec om vs).
Proof.
  intros Hf. induction om as [|row om IH]; simpl; constructor; auto.
  assert (Hc : Forall2 (fun g w => is_derive g t0 w) (map (fun c (_ : R) => c) row) (map (fun _ => 0) row)).
  { clear. induction row; simpl; constructor; auto. apply (is_derive_const (K:=R_AbsRing) (V:=R_NormedModule)). }
  pose proof (is_derive_dotR _ _ _ _ t0 Hc Hf) as D.
  apply (is_derive_ext (fun t => dotR (evalfs (map (fun c (_ : R) => c) row) t) (evalfs fs t))).
  { intros t. unfold evalfs at 1. rewrite map_map, map_id. reflexivity. }
  eapply is_derive_eq; [exact D|].
  unfold evalfs at 2. rewrite map_map, map_id.
  assert (Z : forall l u, dotR (map (fun _ : R => 0) l) u = 0).
  { induction l as [|a l IHl]; intros [|b u]; try reflexivity.
    simpl map. rewrite dotR_cons, IHl. ring. }
  rewrite Z. ringR.
Qed.
(* d/dt  e(t)^T Omega e(t)  =  e'^T Omega e + e^T Omega e' *)
Theorem quad_derive (om : list (list R)) (fs : list (R -> R)) (vs : list R) t0 :
  Forall2 (fun f v => is_derive f t0 v) fs vs ->
  is_derive (fun t => quad (evalfs fs t) om) t0
            (dotR vs (matvec om (evalfs fs t0)) + dotR (evalfs fs t0) (matvec om vs)).
Proof.
  intros Hf. pose proof (is_derive_matvec om fs vs t0 Hf) as Hm.
  pose proof (is_derive_dotR fs _ vs _ t0 Hf Hm) as D.
  apply (is_derive_ext (fun t => dotR (evalfs fs t) (evalfs (map (fun row t0 => dotR row (evalfs fs t0)) om) t))).
  { intros t. unfold quad, matvec, evalfs. rewrite !map_map. reflexivity. }
  eapply is_derive_eq; [exact D|].
  unfold matvec, evalfs. rewrite !map_map. reflexivity.
Qed.

(* instance: the chi2 of an SE(3) odometry edge along a boxplus perturbation of its first vertex; its
   derivative is built from the error e and the code's Jacobian J applied to the direction (C01) *)
Theorem C05_chi2_derivative_odo3 om p1 p2 z u :
  length p1 = 7%nat -> length p2 = 7%nat -> length z = 7%nat -> length u = 6%nat ->
  let e0 := err_odo3 p1 p2 z in
  let Ju := matvec (nth 0 (jac_odo3 p1 p2 z) []) u in
  is_derive (fun t => quad (err_odo3 (SE3_boxplus_fun p1 (vscale t u)) p2 z) om) 0
            (dotR Ju (matvec om e0) + dotR e0 (matvec om Ju)).
Proof.
  intros H1 H2 H3 Hu. cbv zeta.
  set (F := fun t => err_odo3 (SE3_boxplus_fun p1 (vscale t u)) p2 z).
  set (fs := map (fun i t => nth i (F t) 0) (seq 0 6)).
  set (Ju := matvec (nth 0 (jac_odo3 p1 p2 z) []) u).
  assert (Hf : Forall2 (fun f v => is_derive f 0 v) fs (map (fun i => nth i Ju 0) (seq 0 6))).
  { unfold fs. change (seq 0 6) with [0;1;2;3;4;5]%nat. cbn [map]. unfold F, Ju.
    repeat (apply Forall2_cons; [apply (C01_odo_SE3_v0 p1 p2 z u H1 H2 H3 Hu)|]). apply Forall2_nil. }
  assert (LF : forall t, length (F t) = 6%nat).
  { intros t. unfold F. rewrite err_odo3_unfold; auto. apply SE3_boxplus_len; auto. unfold vscale. rewrite map_length. auto. }
  assert (EF : forall t, evalfs fs t = F t).
  { intros t. unfold evalfs, fs. rewrite map_map. specialize (LF t). set (l := F t) in *. clearbody l. list_len l LF. reflexivity. }
  assert (LJ : length Ju = 6%nat).
  { unfold Ju. rewrite jac_odo3_unfold by auto. cbn [nth]. unfold matvec. rewrite map_length. unfold mmul. rewrite !map_length.
    rewrite firstn_length. unfold Jom_other, evm. rewrite map_length. reflexivity. }
  assert (EJ : map (fun i => nth i Ju 0) (seq 0 6) = Ju) by (clearbody Ju; list_len Ju LJ; reflexivity).
  rewrite EJ in Hf.
  pose proof (quad_derive om fs Ju 0 Hf) as D. rewrite EF in D.
  assert (E0 : F 0 = err_odo3 p1 p2 z).
  { unfold F. rewrite SE3_boxplus_at_0; auto. }
  rewrite E0 in D. eapply is_derive_ext; [|exact D]. intros t. cbn beta. rewrite (EF t). reflexivity.
Qed.

(* ---- graph level (lib/GNSpec.v) ---- *)
(* first-order stationarity: the directional derivative 2 b.d vanishes for every direction that keeps the fixed
   vertices in place  <->  the assembled gradient is zero *)
Theorem C05_stationary_iff vs es :
  (forall d, zero_on_fixed vs d -> sumnR (glen vs) (fun r => spec_b vs es r * d r) = 0) <->
  (forall r, (r < glen vs)%nat -> spec_b vs es r = 0).
Proof.
  split.
  - intros H r Hr. destruct (is_fixed_index vs r) eqn:Fr.
    + destruct (spec_fixed_rows vs es r r Hr Hr Fr) as (B & _). exact B.
    + specialize (H (fun c => ind (Nat.eqb r c))).
      assert (Hz : zero_on_fixed vs (fun c => ind (Nat.eqb r c))).
      { intros c Hc Fc. destruct (Nat.eqb_spec r c) as [E|E]; [subst; congruence | reflexivity]. }
      specialize (H Hz).
      rewrite <- H. symmetry.
      transitivity (sumnR (glen vs) (fun c => ind (Nat.eqb r c) * spec_b vs es c)).
      * apply sumn_ext. intros c _. ring.
      * apply sumn_ind_pick. exact Hr.
  - intros H d _. apply sumn_zero. intros r Hr. rewrite (H r Hr). ring.
Qed.
(* the Gauss-Newton increment is a descent direction: b . dx = - dx^T H dx *)
Theorem C05_descent vs es dx : solves (glen vs) (spec_H vs es) (spec_b vs es) dx ->
  sumnR (glen vs) (fun r => spec_b vs es r * dx r) =
  - sumnR (glen vs) (fun r => sumnR (glen vs) (fun c => dx r * spec_H vs es r c * dx c)).
Proof.
  intros Hs. rewrite <- (Ropp_involutive (sumnR (glen vs) (fun r => spec_b vs es r * dx r))). f_equal.
  rewrite <- (Rmult_1_l (sumnR _ (fun r => spec_b vs es r * dx r))).
  replace (- (1 * sumnR (glen vs) (fun r => spec_b vs es r * dx r))) with ((-1) * sumnR (glen vs) (fun r => spec_b vs es r * dx r)) by ring.
  rewrite <- sumn_scal_l. apply sumn_ext. intros r Hr.
  rewrite <- (sumn_ext (glen vs) (fun c => dx r * (spec_H vs es r c * dx c))) by (intros; ring).
  rewrite sumn_scal_l, (Hs r Hr). ring.
Qed.
(* a configuration in which every edge error vanishes: chi2 = 0 and zero gradient, hence (injective H) zero increment *)
Definition zero_err (e : Redge) : Prop := forall a, snd (e_err R e) a = 0.
Lemma sumlist_zero {A} (l : list A) f : (forall x, List.In x l -> f x = 0) -> sumlist l f = 0.
Proof.
  unfold sumlist. induction l as [|x l IH]; intros H; simpl; [reflexivity|].
  rewrite IH by (intros y Hy; apply H; right; exact Hy). rewrite (H x) by (left; reflexivity). ring.
Qed.
Theorem C05_consistent_fixed vs es : List.Forall zero_err es ->
  spec_chi2 es = 0 /\ (forall r, spec_b vs es r = 0).
Proof.
  intros Hz. rewrite Forall_forall in Hz. split.
  - unfold spec_chi2. apply sumlist_zero. intros e He. specialize (Hz e He).
    unfold edge_chi2, vdotv, vdotm. cbn [fst snd]. apply sumn_zero. intros k _. rewrite Hz. ring.
  - intros r. unfold spec_b. destruct (locate vs r) as [[k i]|]; auto. destruct (fixed_at vs k); auto.
    apply sumlist_zero. intros e He. specialize (Hz e He).
    apply sumn_zero. intros s _. unfold gblock, vdotm. cbn [fst snd].
    rewrite sumn_zero; [ring|]. intros k' _. rewrite sumn_zero; [ring|]. intros a _. rewrite Hz. ring.
Qed.
(* the stopping rule: "converged" is never reported on an increase of chi2 *)
Theorem C05_stop_monotone tol prev c : documented_stop tol prev c -> c <= prev.
Proof. intros [H _]. exact H. Qed.
(* ... but it does NOT imply final <= initial: the sequence 10, 100, 99.999 stops (tol = 1e-3) above its start *)
Theorem C05_final_le_initial_refuted :
  exists c0 c1 c2 tol, documented_stop tol c1 c2 /\ ~ documented_stop tol c0 c1 /\ c0 < c2.
Proof.
  exists 10, 100, (99999/1000), (1/1000). unfold documented_stop, eps_R.
  assert (He : 0 < / 2 ^ 52) by (apply Rinv_0_lt_compat; apply pow_lt; lra).
  split; [split; [lra|] | split; [intros [H _]; lra | lra]].
  apply Rmult_lt_reg_r with (100 + / 2 ^ 52); [lra|].
  unfold Rdiv. rewrite Rmult_assoc, Rinv_l by lra. lra.
Qed.
