(* C03_index.v — arithmetic of gradient indices, locate, block ranges, fixed_index. *)
From Coq Require Import Reals List Arith Bool Lia.
From GS Require Import GraphModel GNSpec.
Import ListNotations.

Definition allpos (vs : list vertex) : Prop := Forall (fun v => (0 < v_dim v)%nat) vs.

Lemma goff_0 : forall vs, goff vs 0 = 0%nat.
Proof. destruct vs; reflexivity. Qed.

Lemma goff_S : forall vs k, (k < length vs)%nat -> goff vs (S k) = (goff vs k + dim_at vs k)%nat.
Proof.
  induction vs as [|v vs IH]; intros k Hk.
  - simpl in Hk. lia.
  - destruct k as [|k].
    + unfold dim_at. simpl. rewrite goff_0. lia.
    + simpl in Hk. change (goff (v :: vs) (S (S k))) with (v_dim v + goff vs (S k))%nat.
      rewrite IH by lia. change (goff (v :: vs) (S k)) with (v_dim v + goff vs k)%nat.
      unfold dim_at. simpl. lia.
Qed.

Lemma dim_at_pos : forall vs k, allpos vs -> (k < length vs)%nat -> (0 < dim_at vs k)%nat.
Proof.
  intros vs k Hpos Hk. unfold allpos in Hpos. rewrite Forall_forall in Hpos.
  unfold dim_at. apply Hpos. apply nth_In. exact Hk.
Qed.

Lemma goff_mono_S : forall vs k l, allpos vs -> (k < l)%nat -> (l <= length vs)%nat ->
  (goff vs (S k) <= goff vs l)%nat.
Proof.
  intros vs k l Hpos. induction l as [|l IH]; intros Hkl Hl.
  - lia.
  - destruct (Nat.eq_dec k l) as [E|E].
    + subst. lia.
    + assert (H1 : (goff vs (S k) <= goff vs l)%nat) by (apply IH; lia).
      rewrite (goff_S vs l) by lia. lia.
Qed.

Lemma gi_lt : forall vs k l, allpos vs -> (k < l)%nat -> (l <= length vs)%nat -> (gi vs k < gi vs l)%nat.
Proof.
  intros vs k l Hpos Hkl Hl. unfold gi.
  pose proof (goff_mono_S vs k l Hpos Hkl Hl) as H1.
  rewrite goff_S in H1 by lia.
  pose proof (dim_at_pos vs k Hpos ltac:(lia)) as H2. lia.
Qed.

Lemma gi_inj : forall vs k l, allpos vs -> (k <= length vs)%nat -> (l <= length vs)%nat ->
  gi vs k = gi vs l -> k = l.
Proof.
  intros vs k l Hpos Hk Hl E.
  destruct (Nat.lt_trichotomy k l) as [L|[L|L]].
  - pose proof (gi_lt vs k l Hpos L Hl). lia.
  - exact L.
  - pose proof (gi_lt vs l k Hpos L Hk). lia.
Qed.

Lemma gi_le_iff : forall vs k l, allpos vs -> (k <= length vs)%nat -> (l <= length vs)%nat ->
  ((gi vs k <= gi vs l)%nat <-> (k <= l)%nat).
Proof.
  intros vs k l Hpos Hk Hl. split; intros H.
  - destruct (Nat.le_gt_cases k l) as [L|L]; [exact L|].
    pose proof (gi_lt vs l k Hpos L Hk). lia.
  - destruct (Nat.eq_dec k l) as [E|E]; [subst; lia|].
    pose proof (gi_lt vs k l Hpos ltac:(lia) Hl). lia.
Qed.

Lemma gi_leb : forall vs k l, allpos vs -> (k <= length vs)%nat -> (l <= length vs)%nat ->
  Nat.leb (gi vs k) (gi vs l) = Nat.leb k l.
Proof.
  intros vs k l Hpos Hk Hl. pose proof (gi_le_iff vs k l Hpos Hk Hl) as H.
  destruct (Nat.leb_spec (gi vs k) (gi vs l)); destruct (Nat.leb_spec k l); try reflexivity; lia.
Qed.

Lemma gi_eqb : forall vs k l, allpos vs -> (k <= length vs)%nat -> (l <= length vs)%nat ->
  Nat.eqb (gi vs k) (gi vs l) = Nat.eqb k l.
Proof.
  intros vs k l Hpos Hk Hl.
  destruct (Nat.eqb_spec (gi vs k) (gi vs l)) as [E|E]; destruct (Nat.eqb_spec k l) as [E'|E']; try reflexivity.
  - exfalso. apply E'. apply (gi_inj vs); assumption.
  - exfalso. apply E. subst. reflexivity.
Qed.

(* ---------- locate ---------- *)
Lemma locate_sound : forall vs r k i, locate vs r = Some (k, i) ->
  (k < length vs)%nat /\ (i < dim_at vs k)%nat /\ r = (gi vs k + i)%nat.
Proof.
  induction vs as [|v vs IH]; intros r k i H.
  - discriminate H.
  - simpl in H. destruct (Nat.ltb_spec r (v_dim v)) as [L|L].
    + inversion H; subst. unfold dim_at, gi. simpl. repeat split; lia.
    + destruct (locate vs (r - v_dim v)) as [[k' i']|] eqn:E; [|discriminate H].
      inversion H; subst. destruct (IH _ _ _ E) as [H1 [H2 H3]].
      unfold dim_at, gi in *. simpl. repeat split; lia.
Qed.

Lemma locate_total : forall vs r, (r < glen vs)%nat -> exists k i, locate vs r = Some (k, i).
Proof.
  induction vs as [|v vs IH]; intros r Hr.
  - unfold glen in Hr. simpl in Hr. lia.
  - simpl. destruct (Nat.ltb_spec r (v_dim v)) as [L|L].
    + eauto.
    + destruct (IH (r - v_dim v)%nat) as [k [i E]].
      * unfold glen in *. simpl in Hr. lia.
      * rewrite E. eauto.
Qed.

(* ---------- block ranges ---------- *)
Lemma in_range_block : forall vs k' k i, allpos vs -> (k' < length vs)%nat -> (k < length vs)%nat ->
  (i < dim_at vs k)%nat -> in_range (gi vs k') (dim_at vs k') (gi vs k + i) = Nat.eqb k' k.
Proof.
  intros vs k' k i Hpos Hk' Hk Hi. unfold in_range.
  destruct (Nat.eqb_spec k' k) as [E|E].
  - subst k'. apply andb_true_intro. split.
    + apply Nat.leb_le. lia.
    + apply Nat.ltb_lt. lia.
  - apply andb_false_iff.
    destruct (Nat.lt_ge_cases k' k) as [L|L].
    + right. apply Nat.ltb_ge.
      pose proof (goff_mono_S vs k' k Hpos L ltac:(lia)) as H1. rewrite goff_S in H1 by lia.
      unfold gi. lia.
    + left. apply Nat.leb_gt.
      pose proof (goff_mono_S vs k k' Hpos ltac:(lia) ltac:(lia)) as H1. rewrite goff_S in H1 by lia.
      unfold gi. lia.
Qed.

(* ---------- fixed_index ---------- *)
Lemma fixed_index_gi : forall vs k, allpos vs -> (k < length vs)%nat -> fixed_index vs (gi vs k) = fixed_at vs k.
Proof.
  intros vs k Hpos Hk. unfold fixed_index.
  destruct (fixed_at vs k) eqn:F.
  - apply existsb_exists. exists k. split.
    + apply in_seq. lia.
    + rewrite F, Nat.eqb_refl. reflexivity.
  - destruct (existsb _ _) eqn:E; [|reflexivity].
    apply existsb_exists in E. destruct E as [k' [Hin Hk']].
    apply in_seq in Hin. apply andb_true_iff in Hk'. destruct Hk' as [F' G].
    apply Nat.eqb_eq in G. apply (gi_inj vs) in G; [|assumption|lia|lia].
    subst k'. congruence.
Qed.
