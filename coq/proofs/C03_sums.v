(* C03_sums.v — finite sums over R: sumn (model) and sumlist (spec). *)
From Coq Require Import Reals List Arith Bool Lia Lra.
From GS Require Import GraphModel GNSpec.
Import ListNotations.
Open Scope R_scope.

Lemma ind_true : ind true = 1. Proof. reflexivity. Qed.
Lemma ind_false : ind false = 0. Proof. reflexivity. Qed.

(* ---------- sumn ---------- *)
Lemma sumn_ext : forall n f g, (forall i, (i < n)%nat -> f i = g i) -> sumnR n f = sumnR n g.
Proof.
  induction n as [|n IH]; intros f g Hfg; simpl.
  - reflexivity.
  - rewrite (IH f g). + rewrite Hfg by lia. reflexivity. + intros i Hi. apply Hfg. lia.
Qed.

Lemma sumn_zero : forall n f, (forall i, (i < n)%nat -> f i = 0) -> sumnR n f = 0.
Proof.
  induction n as [|n IH]; intros f Hf; simpl.
  - reflexivity.
  - rewrite IH. + rewrite Hf by lia. ring. + intros i Hi. apply Hf. lia.
Qed.

Lemma sumn_plus : forall n f g, sumnR n (fun i => f i + g i) = sumnR n f + sumnR n g.
Proof. induction n as [|n IH]; intros f g; simpl. - ring. - rewrite IH. ring. Qed.

Lemma sumn_scal_l : forall n c f, sumnR n (fun i => c * f i) = c * sumnR n f.
Proof. induction n as [|n IH]; intros c f; simpl. - ring. - rewrite IH. ring. Qed.

Lemma sumn_scal_r : forall n c f, sumnR n (fun i => f i * c) = sumnR n f * c.
Proof. induction n as [|n IH]; intros c f; simpl. - ring. - rewrite IH. ring. Qed.

Lemma sumn_swap : forall n m (F : nat -> nat -> R),
  sumnR n (fun s => sumnR m (fun t => F s t)) = sumnR m (fun t => sumnR n (fun s => F s t)).
Proof.
  induction n as [|n IH]; intros m F; simpl.
  - symmetry. apply sumn_zero. intros i Hi. reflexivity.
  - rewrite IH. rewrite <- sumn_plus. reflexivity.
Qed.

(* picking out one index *)
Lemma sumn_pick : forall n s0 f, (s0 < n)%nat ->
  sumnR n (fun s => ind (Nat.eqb s s0) * f s) = f s0.
Proof.
  induction n as [|n IH]; intros s0 f Hs; simpl.
  - lia.
  - destruct (Nat.eqb_spec n s0) as [E|E].
    + subst s0. rewrite sumn_zero.
      * rewrite ind_true. ring.
      * intros i Hi. destruct (Nat.eqb_spec i n) as [E'|E']; [lia|]. rewrite ind_false. ring.
    + rewrite IH by lia. rewrite ind_false. ring.
Qed.

(* triangular reorganisation: sum over s<=t of A s t plus, for s<t, the mirrored term *)
Lemma sumn_tri : forall n (A : nat -> nat -> R),
  sumnR n (fun s => sumnR n (fun t => ind (Nat.leb s t) * A s t + ind (Nat.ltb s t) * A t s))
  = sumnR n (fun s => sumnR n (fun t => A s t)).
Proof.
  intros n A.
  transitivity (sumnR n (fun s => sumnR n (fun t => ind (Nat.leb s t) * A s t))
                + sumnR n (fun s => sumnR n (fun t => ind (Nat.ltb s t) * A t s))).
  - rewrite <- sumn_plus. apply sumn_ext. intros s Hs. rewrite <- sumn_plus. reflexivity.
  - rewrite (sumn_swap n n (fun s t => ind (Nat.ltb s t) * A t s)).
    rewrite <- sumn_plus. apply sumn_ext. intros s Hs.
    rewrite <- sumn_plus. apply sumn_ext. intros t Ht.
    destruct (Nat.leb_spec s t) as [L|L]; destruct (Nat.ltb_spec t s) as [L'|L']; try lia;
      rewrite ?ind_true, ?ind_false; ring.
Qed.

(* ---------- sumlist ---------- *)
Arguments sumlist : simpl never.
Lemma sumlist_nil : forall A (f : A -> R), sumlist [] f = 0.
Proof. reflexivity. Qed.
Lemma sumlist_cons : forall A (x : A) l f, sumlist (x :: l) f = f x + sumlist l f.
Proof. reflexivity. Qed.

Lemma sumlist_ext : forall A (l : list A) f g, (forall x, In x l -> f x = g x) -> sumlist l f = sumlist l g.
Proof.
  induction l as [|x l IH]; intros f g Hfg.
  - reflexivity.
  - rewrite !sumlist_cons. rewrite (IH f g).
    + rewrite Hfg by (left; reflexivity). reflexivity.
    + intros y Hy. apply Hfg. right. exact Hy.
Qed.

Lemma sumlist_app : forall A (l1 l2 : list A) f, sumlist (l1 ++ l2) f = sumlist l1 f + sumlist l2 f.
Proof.
  induction l1 as [|x l1 IH]; intros l2 f.
  - simpl. rewrite sumlist_nil. ring.
  - simpl app. rewrite !sumlist_cons, IH. ring.
Qed.

Lemma sumlist_map : forall A B (F : A -> B) (l : list A) f, sumlist (map F l) f = sumlist l (fun x => f (F x)).
Proof.
  induction l as [|x l IH]; intros f.
  - reflexivity.
  - simpl map. rewrite !sumlist_cons, IH. reflexivity.
Qed.

Lemma sumlist_flat_map : forall A B (F : A -> list B) (l : list A) f,
  sumlist (flat_map F l) f = sumlist l (fun x => sumlist (F x) f).
Proof.
  induction l as [|x l IH]; intros f.
  - reflexivity.
  - simpl flat_map. rewrite sumlist_app, sumlist_cons, IH. reflexivity.
Qed.

Lemma sumlist_seq0 : forall n f, sumlist (seq 0 n) f = sumnR n f.
Proof.
  induction n as [|n IH]; intros f.
  - reflexivity.
  - rewrite seq_S, sumlist_app, IH. simpl. rewrite sumlist_cons, sumlist_nil. ring.
Qed.

(* the inner loop range(i, n) as an indicator sum over range(n) *)
Lemma sumlist_seq_from : forall n i f, (i <= n)%nat ->
  sumlist (seq i (n - i)) f = sumnR n (fun t => ind (Nat.leb i t) * f t).
Proof.
  induction n as [|n IH]; intros i f Hi.
  - reflexivity.
  - destruct (Nat.eq_dec i (S n)) as [E|E].
    + subst i. rewrite Nat.sub_diag. rewrite sumlist_nil. symmetry. apply sumn_zero.
      intros t Ht. destruct (Nat.leb_spec (S n) t) as [L|L]; [lia|]. rewrite ind_false. ring.
    + replace (S n - i)%nat with (S (n - i)) by lia.
      rewrite seq_S, sumlist_app, IH by lia. simpl.
      rewrite sumlist_cons, sumlist_nil.
      replace (i + (n - i))%nat with n by lia.
      destruct (Nat.leb_spec i n) as [L|L]; [|lia]. rewrite ind_true. ring.
Qed.
