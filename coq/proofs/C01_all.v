(* Assembly of the C01 obligations into the statement of props/C01.v. *)
From Coq Require Import Reals List.
From Coquelicot Require Import Coquelicot.
From GS Require Import ExprR LinAlg Jac Meth MethR Prog Chain Wrap GenR2 GenR3 GenSE2 GenSE3 GenEdges
  C10_SE3 C10_SE3_boxplus C10_SE2 C10_Rn C09_SE2 C01_SE3 C01_Rn C01_SE2 C01_SE2_full.
Import ListNotations.
Open Scope R_scope.

(* err_* / jac_* are the real-number meanings (lib/Chain.v run_progR / run_jprogR) of the programs
   regenerated from calc_error / calc_jacobians; *_boxplus_fun is the regenerated boxplus of the
   vertex kind (for SE(3) with its qnorm > 1 branch).  Each statement: for EVERY direction u of the
   vertex's tangent space and every error component i, the error along  t |-> vertex [+] (t u)  is
   differentiable at 0 with derivative (J_vertex . u)_i, J_vertex being what calc_jacobians returns. *)
Lemma C01_all :
  (* ---- SE(3): no hypothesis at all on poses, measurement, offset (any quaternion, unit or not) ---- *)
  (forall p1 p2 z u, length p1 = 7%nat -> length p2 = 7%nat -> length z = 7%nat -> length u = 6%nat ->
     (forall i, is_derive (fun t => nth i (err_odo3 (SE3_boxplus_fun p1 (vscale t u)) p2 z) 0) 0 (nth i (matvec (nth 0 (jac_odo3 p1 p2 z) []) u) 0)) /\
     (forall i, is_derive (fun t => nth i (err_odo3 p1 (SE3_boxplus_fun p2 (vscale t u)) z) 0) 0 (nth i (matvec (nth 1 (jac_odo3 p1 p2 z) []) u) 0))) /\
  (forall p l z off u, length p = 7%nat -> length l = 3%nat -> length z = 3%nat -> length off = 7%nat -> length u = 6%nat ->
     forall i, is_derive (fun t => nth i (err_lmk3 (SE3_boxplus_fun p (vscale t u)) l z off) 0) 0 (nth i (matvec (nth 0 (jac_lmk3 p l z off) []) u) 0)) /\
  (forall p l z off u, length p = 7%nat -> length l = 3%nat -> length z = 3%nat -> length off = 7%nat -> length u = 3%nat ->
     forall i, is_derive (fun t => nth i (err_lmk3 p (R3_boxplus_fun l (vscale t u)) z off) 0) 0 (nth i (matvec (nth 1 (jac_lmk3 p l z off) []) u) 0)) /\
  (* ---- SE(2) odometry: the ONLY excluded points are those where the error itself jumps, i.e. where the
          angle residual  z.theta - (p2.theta - p1.theta)  is an odd multiple of pi (not_at_wrap); no range
          hypothesis on the stored angles, none on the intermediate normalisations (they cancel by
          periodicity: proofs/C01_SE2_full.v) ---- *)
  (forall p1 p2 z u, length p1 = 3%nat -> length p2 = 3%nat -> length z = 3%nat -> length u = 3%nat ->
     not_at_wrap (nth 2 z 0 - (nth 2 p2 0 - nth 2 p1 0)) ->
     (forall i, is_derive (fun t => nth i (err_odo2 (SE2_boxplus_fun p1 (vscale t u)) p2 z) 0) 0 (nth i (matvec (nth 0 (jac_odo2 p1 p2 z) []) u) 0)) /\
     (forall i, is_derive (fun t => nth i (err_odo2 p1 (SE2_boxplus_fun p2 (vscale t u)) z) 0) 0 (nth i (matvec (nth 1 (jac_odo2 p1 p2 z) []) u) 0))) /\
  (* ---- SE(2) landmark, pose vertex: the error has no angular component; NO point is excluded ---- *)
  (forall p l z off u, length p = 3%nat -> length l = 2%nat -> length z = 2%nat -> length off = 3%nat -> length u = 3%nat ->
     forall i, is_derive (fun t => nth i (err_lmk2 (SE2_boxplus_fun p (vscale t u)) l z off) 0) 0 (nth i (matvec (nth 0 (jac_lmk2 p l z off) []) u) 0)) /\
  (forall p l z off u, length p = 3%nat -> length l = 2%nat -> length z = 2%nat -> length off = 3%nat -> length u = 2%nat ->
     forall i, is_derive (fun t => nth i (err_lmk2 p (R2_boxplus_fun l (vscale t u)) z off) 0) 0 (nth i (matvec (nth 1 (jac_lmk2 p l z off) []) u) 0)) /\
  (forall p, length p = 3%nat -> (smooth_at (p ++ zeros 3) SE2_boxplus <-> not_at_wrap (nth 2 p 0))) /\
  (forall a b, length a = 3%nat -> length b = 3%nat -> (smooth_at (a ++ b) SE2_ominus <-> not_at_wrap (nth 2 a 0 - nth 2 b 0))) /\
  (* ---- R^2 / R^3 odometry and point-to-point landmark edges (any offset) ---- *)
  (forall p1 p2 z u, length p1 = 2%nat -> length p2 = 2%nat -> length z = 2%nat -> length u = 2%nat ->
     (forall i, is_derive (fun t => nth i (err_odoR2 (R2_boxplus_fun p1 (vscale t u)) p2 z) 0) 0 (nth i (matvec (nth 0 (jac_odoR2 p1 p2 z) []) u) 0)) /\
     (forall i, is_derive (fun t => nth i (err_odoR2 p1 (R2_boxplus_fun p2 (vscale t u)) z) 0) 0 (nth i (matvec (nth 1 (jac_odoR2 p1 p2 z) []) u) 0))) /\
  (forall p1 p2 z u, length p1 = 3%nat -> length p2 = 3%nat -> length z = 3%nat -> length u = 3%nat ->
     (forall i, is_derive (fun t => nth i (err_odoR3 (R3_boxplus_fun' p1 (vscale t u)) p2 z) 0) 0 (nth i (matvec (nth 0 (jac_odoR3 p1 p2 z) []) u) 0)) /\
     (forall i, is_derive (fun t => nth i (err_odoR3 p1 (R3_boxplus_fun' p2 (vscale t u)) z) 0) 0 (nth i (matvec (nth 1 (jac_odoR3 p1 p2 z) []) u) 0))) /\
  (forall p l z off u, length p = 2%nat -> length l = 2%nat -> length z = 2%nat -> length off = 2%nat -> length u = 2%nat ->
     (forall i, is_derive (fun t => nth i (err_lmkR2 (R2_boxplus_fun p (vscale t u)) l z off) 0) 0 (nth i (matvec (nth 0 (jac_lmkR2 p l z off) []) u) 0)) /\
     (forall i, is_derive (fun t => nth i (err_lmkR2 p (R2_boxplus_fun l (vscale t u)) z off) 0) 0 (nth i (matvec (nth 1 (jac_lmkR2 p l z off) []) u) 0))) /\
  (forall p l z off u, length p = 3%nat -> length l = 3%nat -> length z = 3%nat -> length off = 3%nat -> length u = 3%nat ->
     (forall i, is_derive (fun t => nth i (err_lmkR3 (R3_boxplus_fun' p (vscale t u)) l z off) 0) 0 (nth i (matvec (nth 0 (jac_lmkR3 p l z off) []) u) 0)) /\
     (forall i, is_derive (fun t => nth i (err_lmkR3 p (R3_boxplus_fun' l (vscale t u)) z off) 0) 0 (nth i (matvec (nth 1 (jac_lmkR3 p l z off) []) u) 0))).
Proof.
  repeat match goal with |- _ /\ _ => split end.
  - intros p1 p2 z u H1 H2 H3 Hu. split; [apply C01_odo_SE3_v0 | apply C01_odo_SE3_v1]; auto.
  - exact C01_lmk_SE3_v0.
  - exact C01_lmk_SE3_v1.
  - intros p1 p2 z u H1 H2 H3 Hu Hn. split; [apply C01_odo_SE2_v0_full | apply C01_odo_SE2_v1_full]; auto.
  - exact C01_lmk_SE2_v0_full.
  - exact C01_lmk_SE2_v1.
  - exact smooth_boxplus_iff.
  - exact smooth_ominus_iff.
  - exact C01_odo_R2.
  - exact C01_odo_R3.
  - exact C01_lmk_R2.
  - exact C01_lmk_R3.
Qed.
