(* C01 for SE(2): odometry and landmark edges (programs regenerated from the source).  The side
   conditions [smooth_at] say that the wrapped angles produced by the stages of the error
   computation are not exactly at the wrap-around point; see [smooth_at_*_iff] for their meaning. *)
From Coq Require Import Reals List Lra ZArith Lia.
From Coquelicot Require Import Coquelicot.
From GS Require Import ExprR LinAlg Jac Meth MethR Prog Chain Wrap GenR2 GenSE2 GenEdges
  C10_SE2 C10_Rn C09_SE2 C01_SE3 C01_Rn.
Import ListNotations.
Open Scope R_scope.

Ltac cbt := cbv - [Rplus Rmult Rminus Ropp Rdiv Rinv sqrt IZR pow sin cos PI rmod].

Definition SE2_boxplus_fun (p d : list R) : list R := evl (p ++ d) SE2_boxplus.
Definition err_odo2 (p1 p2 z : list R) : list R := run_progR [p1; p2; z; []] odo_SE2_error.
Definition jac_odo2 (p1 p2 z : list R) := run_jprogR [p1; p2; z; []] odo_SE2_jacobians.
Definition err_lmk2 (p l z off : list R) : list R := run_progR [p; l; z; off] lmk_SE2_R2_error.
Definition jac_lmk2 (p l z off : list R) := run_jprogR [p; l; z; off] lmk_SE2_R2_jacobians.

Lemma err_odo2_unfold p1 p2 z : length p1 = 3%nat -> length p2 = 3%nat -> length z = 3%nat ->
  err_odo2 p1 p2 z = evl (z ++ evl (p2 ++ p1) SE2_ominus) SE2_ominus.
Proof. intros H1 H2 H3. list_len p1 H1. list_len p2 H2. list_len z H3. cbt. reflexivity. Qed.
Definition Jbox2 (p : list R) := evm p (mat_of SE2_jacobian_boxplus).
Definition J2om_other (a b : list R) := evm (a ++ b) (mat_of SE2_jacobian_self_ominus_other_wrt_other__SE2).
Definition J2om_self (a b : list R) := evm (a ++ b) (mat_of SE2_jacobian_self_ominus_other_wrt_self__SE2).
Lemma jac_odo2_unfold p1 p2 z : length p1 = 3%nat -> length p2 = 3%nat -> length z = 3%nat ->
  jac_odo2 p1 p2 z =
  [ mmul (mmul (J2om_other z (evl (p2 ++ p1) SE2_ominus)) (J2om_other p2 p1)) (Jbox2 p1);
    mmul (mmul (J2om_other z (evl (p2 ++ p1) SE2_ominus)) (J2om_self p2 p1)) (Jbox2 p2) ].
Proof. intros H1 H2 H3. list_len p1 H1. list_len p2 H2. list_len z H3. cbt. reflexivity. Qed.

(* the perturbed pose  t |-> p [+] (t u) : value p at t = 0 (for a pose whose angle is in range) *)
Lemma bp2_derives p u : length p = 3%nat -> length u = 3%nat -> in_range p ->
  smooth_at (p ++ zeros 3) SE2_boxplus ->
  env_derives (map (fun e t => evalR (envR (cst p ++ incr u) t) e) SE2_boxplus) 0
              (combine p (matvec (Jbox2 p) u)).
Proof.
  intros Hp Hu Hr Hs.
  pose proof (incr_derives u) as D0. rewrite Hu in D0.
  pose proof (chain_stage_last (incr u) 0 p (zeros 3) u SE2_boxplus _ 6 3 3 D0 eq_refl Hu Hp eq_refl
                SE2_boxplus_jac_tan Hs) as D1.
  assert (E1 : evl (p ++ zeros 3) SE2_boxplus = p).
  { list_len p Hp. unfold in_range in Hr. simpl in Hr. cbt.
    repeat (f_equal; try ring). replace (x1 + 0) with x1 by ring. fold (wrap x1). apply wrap_id; auto. }
  assert (E2 : evm (p ++ zeros 3) (mat_of SE2_jacobian_boxplus) = Jbox2 p) by (list_len p Hp; reflexivity).
  rewrite E1, E2 in D1. exact D1.
Qed.
Lemma envR_bp2 p u t : envR (map (fun e t => evalR (envR (cst p ++ incr u) t) e) SE2_boxplus) t
                      = SE2_boxplus_fun p (vscale t u).
Proof. rewrite envR_stage, !envR_app, !envR_cst, envR_incr. reflexivity. Qed.

Ltac lenmv := unfold matvec; rewrite map_length; reflexivity.

Theorem C01_odo_SE2_v0 p1 p2 z u :
  length p1 = 3%nat -> length p2 = 3%nat -> length z = 3%nat -> length u = 3%nat -> in_range p1 ->
  smooth_at (p1 ++ zeros 3) SE2_boxplus ->
  smooth_at (p2 ++ p1) SE2_ominus ->
  smooth_at (z ++ evl (p2 ++ p1) SE2_ominus) SE2_ominus ->
  forall i, is_derive (fun t => nth i (err_odo2 (SE2_boxplus_fun p1 (vscale t u)) p2 z) 0) 0
                      (nth i (matvec (nth 0 (jac_odo2 p1 p2 z) []) u) 0).
Proof.
  intros H1 H2 H3 Hu Hr S0 S1 S2 i.
  pose proof (bp2_derives p1 u H1 Hu Hr S0) as D0.
  assert (Hw0 : length (matvec (Jbox2 p1) u) = 3%nat) by lenmv.
  pose proof (chain_stage_last _ 0 p2 p1 _ SE2_ominus _ 6 3 3 D0 H1 Hw0 H2 eq_refl SE2_ominus_wrt_other_tan S1) as D1.
  assert (Hd : length (evl (p2 ++ p1) SE2_ominus) = 3%nat) by reflexivity.
  assert (Hw1 : length (matvec (evm (p2 ++ p1) (mat_of SE2_jacobian_self_ominus_other_wrt_other__SE2)) (matvec (Jbox2 p1) u)) = 3%nat) by lenmv.
  pose proof (chain_stage_last _ 0 z _ _ SE2_ominus _ 6 3 3 D1 Hd Hw1 H3 eq_refl SE2_ominus_wrt_other_tan S2) as D2.
  pose proof (derives_components _ _ _ _ D2 ltac:(unfold evl, matvec; rewrite !map_length; reflexivity) i) as D3.
  rewrite jac_odo2_unfold by auto. cbn [nth].
  rewrite (matvec_mmul _ (Jbox2 p1) u 3) by (try discriminate; apply ws_evm; repeat constructor).
  rewrite (matvec_mmul _ (J2om_other p2 p1) _ 3) by (try discriminate; apply ws_evm; repeat constructor).
  eapply is_derive_ext; [|exact D3].
  intros t. cbn beta.
  rewrite err_odo2_unfold; auto.
  repeat rewrite ?envR_stage, ?envR_app, ?envR_cst.
  rewrite envR_incr. reflexivity.
Qed.

Theorem C01_odo_SE2_v1 p1 p2 z u :
  length p1 = 3%nat -> length p2 = 3%nat -> length z = 3%nat -> length u = 3%nat -> in_range p2 ->
  smooth_at (p2 ++ zeros 3) SE2_boxplus ->
  smooth_at (p2 ++ p1) SE2_ominus ->
  smooth_at (z ++ evl (p2 ++ p1) SE2_ominus) SE2_ominus ->
  forall i, is_derive (fun t => nth i (err_odo2 p1 (SE2_boxplus_fun p2 (vscale t u)) z) 0) 0
                      (nth i (matvec (nth 1 (jac_odo2 p1 p2 z) []) u) 0).
Proof.
  intros H1 H2 H3 Hu Hr S0 S1 S2 i.
  pose proof (bp2_derives p2 u H2 Hu Hr S0) as D0.
  assert (Hw0 : length (matvec (Jbox2 p2) u) = 3%nat) by lenmv.
  pose proof (chain_stage_first _ 0 p1 p2 _ SE2_ominus _ 6 3 D0 H2 Hw0 ltac:(rewrite H1; reflexivity) SE2_ominus_wrt_self_tan S1) as D1.
  assert (Hd : length (evl (p2 ++ p1) SE2_ominus) = 3%nat) by reflexivity.
  assert (Hw1 : length (matvec (evm (p2 ++ p1) (mat_of SE2_jacobian_self_ominus_other_wrt_self__SE2)) (matvec (Jbox2 p2) u)) = 3%nat) by lenmv.
  pose proof (chain_stage_last _ 0 z _ _ SE2_ominus _ 6 3 3 D1 Hd Hw1 H3 eq_refl SE2_ominus_wrt_other_tan S2) as D2.
  pose proof (derives_components _ _ _ _ D2 ltac:(unfold evl, matvec; rewrite !map_length; reflexivity) i) as D3.
  rewrite jac_odo2_unfold by auto. cbn [nth].
  rewrite (matvec_mmul _ (Jbox2 p2) u 3) by (try discriminate; apply ws_evm; repeat constructor).
  rewrite (matvec_mmul _ (J2om_self p2 p1) _ 3) by (try discriminate; apply ws_evm; repeat constructor).
  eapply is_derive_ext; [|exact D3].
  intros t. cbn beta.
  rewrite err_odo2_unfold; auto.
  repeat rewrite ?envR_stage, ?envR_app, ?envR_cst.
  rewrite envR_incr. reflexivity.
Qed.

(* ---- landmark edge SE(2) -> R^2 with an arbitrary sensor offset ---- *)
Lemma err_lmk2_unfold p l z off : length p = 3%nat -> length l = 2%nat -> length z = 2%nat -> length off = 3%nat ->
  err_lmk2 p l z off = evl (evl (evl (evl (p ++ off) SE2_oplus) SE2_inv ++ l) SE2_oplus_point ++ z) R2_ominus.
Proof. intros H1 H2 H3 H4. list_len p H1. list_len l H2. list_len z H3. list_len off H4. cbt. reflexivity. Qed.
Definition J2op_self (a b : list R) := evm (a ++ b) (mat_of SE2_jacobian_self_oplus_other_wrt_self__SE2).
Definition J2inv (a : list R) := evm a (mat_of SE2_jacobian_inverse).
Definition J2pt_self (a x : list R) := evm (a ++ x) (mat_of SE2_jacobian_self_oplus_point_wrt_self__R2).
Definition J2pt_point (a x : list R) := evm (a ++ x) (mat_of SE2_jacobian_self_oplus_point_wrt_point__R2).
Definition JboxR2 (l : list R) := evm l (mat_of R2_jacobian_boxplus).
Lemma jac_lmk2_unfold p l z off : length p = 3%nat -> length l = 2%nat -> length z = 2%nat -> length off = 3%nat ->
  jac_lmk2 p l z off =
  let q := evl (p ++ off) SE2_oplus in
  let qi := evl q SE2_inv in
  [ mmul (mmul (mmul (J2pt_self qi l) (J2inv q)) (J2op_self p off)) (Jbox2 p);
    mmul (J2pt_point qi l) (JboxR2 l) ].
Proof. intros H1 H2 H3 H4. list_len p H1. list_len l H2. list_len z H3. list_len off H4. cbt. reflexivity. Qed.
Lemma matvec_eye2 env w : length w = 2%nat ->
  matvec (evm env (mat_of R2_jacobian_self_ominus_other_wrt_self__R2)) w = w.
Proof. intros Hw. list_len w Hw. cbt. repeat (f_equal; try ring). Qed.

Theorem C01_lmk_SE2_v0 p l z off u :
  length p = 3%nat -> length l = 2%nat -> length z = 2%nat -> length off = 3%nat -> length u = 3%nat -> in_range p ->
  smooth_at (p ++ zeros 3) SE2_boxplus ->
  smooth_at (p ++ off) SE2_oplus ->
  smooth_at (evl (p ++ off) SE2_oplus) SE2_inv ->
  forall i, is_derive (fun t => nth i (err_lmk2 (SE2_boxplus_fun p (vscale t u)) l z off) 0) 0
                      (nth i (matvec (nth 0 (jac_lmk2 p l z off) []) u) 0).
Proof.
  intros H1 H2 H3 H4 Hu Hr S0 S1 S2 i.
  pose proof (bp2_derives p u H1 Hu Hr S0) as D0.
  assert (Hw0 : length (matvec (Jbox2 p) u) = 3%nat) by lenmv.
  pose proof (chain_stage_first _ 0 off p _ SE2_oplus _ 6 3 D0 H1 Hw0 ltac:(rewrite H4; reflexivity) SE2_oplus_wrt_self_tan S1) as D1.
  set (q := evl (p ++ off) SE2_oplus) in *.
  assert (Hq : length q = 3%nat) by reflexivity.
  assert (Hw1 : length (matvec (evm (p ++ off) (mat_of SE2_jacobian_self_oplus_other_wrt_self__SE2)) (matvec (Jbox2 p) u)) = 3%nat) by lenmv.
  pose proof (chain_stage_last _ 0 [] q _ SE2_inv _ 3 0 3 D1 Hq Hw1 eq_refl eq_refl SE2_inverse_jac_tan S2) as D2.
  cbn [app] in D2.
  set (qi := evl q SE2_inv) in *.
  assert (Hqi : length qi = 3%nat) by reflexivity.
  assert (Hw2 : length (matvec (evm q (mat_of SE2_jacobian_inverse)) (matvec (evm (p ++ off) (mat_of SE2_jacobian_self_oplus_other_wrt_self__SE2)) (matvec (Jbox2 p) u))) = 3%nat) by lenmv.
  pose proof (chain_stage_first _ 0 l qi _ SE2_oplus_point _ 5 3 D2 Hqi Hw2 ltac:(rewrite H2; reflexivity)
                SE2_point_wrt_self_tan (smooth_poly _ SE2_oplus_point eq_refl)) as D3.
  set (x := evl (qi ++ l) SE2_oplus_point) in *.
  assert (Hx : length x = 2%nat) by reflexivity.
  set (w3 := matvec (evm (qi ++ l) (mat_of SE2_jacobian_self_oplus_point_wrt_self__R2)) _) in *.
  assert (Hw3 : length w3 = 2%nat) by (unfold w3; lenmv).
  pose proof (chain_stage_first _ 0 z x w3 R2_ominus _ 4 2 D3 Hx Hw3 ltac:(rewrite H3; reflexivity)
                R2_ominus_wrt_self_tan (smooth_poly _ R2_ominus eq_refl)) as D4.
  rewrite matvec_eye2 in D4 by auto.
  pose proof (derives_components _ _ _ _ D4 ltac:(rewrite Hw3; reflexivity) i) as D5.
  rewrite jac_lmk2_unfold by auto. cbv zeta. cbn [nth]. fold q. fold qi.
  rewrite (matvec_mmul _ (Jbox2 p) u 3) by (try discriminate; apply ws_evm; repeat constructor).
  rewrite (matvec_mmul _ (J2op_self p off) _ 3) by (try discriminate; apply ws_evm; repeat constructor).
  rewrite (matvec_mmul _ (J2inv q) _ 3) by (try discriminate; apply ws_evm; repeat constructor).
  eapply is_derive_ext; [|exact D5].
  intros t. cbn beta.
  rewrite err_lmk2_unfold; auto.
  repeat rewrite ?envR_stage, ?envR_app, ?envR_cst. rewrite envR_incr. reflexivity.
Qed.

Theorem C01_lmk_SE2_v1 p l z off u :
  length p = 3%nat -> length l = 2%nat -> length z = 2%nat -> length off = 3%nat -> length u = 2%nat ->
  forall i, is_derive (fun t => nth i (err_lmk2 p (R2_boxplus_fun l (vscale t u)) z off) 0) 0
                      (nth i (matvec (nth 1 (jac_lmk2 p l z off) []) u) 0).
Proof.
  intros H1 H2 H3 H4 Hu i.
  pose proof (incr_derives u) as D0. rewrite Hu in D0.
  pose proof (chain_stage_last (incr u) 0 l (zeros 2) u R2_boxplus _ 4 2 2 D0 eq_refl Hu H2 eq_refl
                R2_boxplus_tan (smooth_poly _ R2_boxplus eq_refl)) as D1.
  assert (El : evl (l ++ zeros 2) R2_boxplus = l) by (list_len l H2; cbt; repeat (f_equal; try ring)).
  assert (EJ : evm (l ++ zeros 2) (mat_of R2_jacobian_boxplus) = JboxR2 l) by (list_len l H2; reflexivity).
  rewrite El, EJ in D1.
  set (q := evl (p ++ off) SE2_oplus). set (qi := evl q SE2_inv).
  assert (Hqi : length qi = 3%nat) by reflexivity.
  assert (Hw0 : length (matvec (JboxR2 l) u) = 2%nat) by lenmv.
  pose proof (chain_stage_last _ 0 qi l _ SE2_oplus_point _ 5 3 2 D1 H2 Hw0 Hqi eq_refl
                SE2_point_wrt_point_tan (smooth_poly _ SE2_oplus_point eq_refl)) as D2.
  set (x := evl (qi ++ l) SE2_oplus_point) in *.
  assert (Hx : length x = 2%nat) by reflexivity.
  set (w1 := matvec (evm (qi ++ l) (mat_of SE2_jacobian_self_oplus_point_wrt_point__R2)) _) in *.
  assert (Hw1 : length w1 = 2%nat) by (unfold w1; lenmv).
  pose proof (chain_stage_first _ 0 z x w1 R2_ominus _ 4 2 D2 Hx Hw1 ltac:(rewrite H3; reflexivity)
                R2_ominus_wrt_self_tan (smooth_poly _ R2_ominus eq_refl)) as D3.
  rewrite matvec_eye2 in D3 by auto.
  pose proof (derives_components _ _ _ _ D3 ltac:(rewrite Hw1; reflexivity) i) as D4.
  rewrite jac_lmk2_unfold by auto. cbv zeta. cbn [nth]. fold q. fold qi.
  rewrite (matvec_mmul _ (JboxR2 l) u 2) by (try discriminate; apply ws_evm; repeat constructor).
  eapply is_derive_ext; [|exact D4].
  intros t. cbn beta.
  rewrite err_lmk2_unfold; auto.
  repeat rewrite ?envR_stage, ?envR_app, ?envR_cst. rewrite envR_incr. reflexivity.
Qed.

(* ---- what the side conditions mean, for poses whose angles are in range ---- *)
Lemma smooth_boxplus_iff p : length p = 3%nat -> (smooth_at (p ++ zeros 3) SE2_boxplus <-> not_at_wrap (nth 2 p 0)).
Proof.
  intros Hp. list_len p Hp. unfold smooth_at, not_at_wrap. cbn [nth]. split.
  - intros H. inversion H as [|? ? _ H']; subst. inversion H' as [|? ? _ H'']; subst. inversion H'' as [|? ? Hk _]; subst.
    simpl in Hk. destruct Hk as ((_ & _ & _ & Hk) & _). replace (x1 + 0 + PI) with (x1 + PI) in Hk by ring. exact Hk.
  - intros H. repeat (constructor; [ first [ apply poly_ok; reflexivity | simpl; repeat split; auto;
       try (pose proof twopi_pos; lra); replace (x1 + 0 + PI) with (x1 + PI) by ring; exact H ] | ]). constructor.
Qed.
Lemma smooth_ominus_iff a b : length a = 3%nat -> length b = 3%nat ->
  (smooth_at (a ++ b) SE2_ominus <-> not_at_wrap (nth 2 a 0 - nth 2 b 0)).
Proof.
  intros Ha Hb. list_len a Ha. list_len b Hb. unfold smooth_at, not_at_wrap. cbn [nth]. split.
  - intros H. inversion H as [|? ? _ H']; subst. inversion H' as [|? ? _ H'']; subst. inversion H'' as [|? ? Hk _]; subst.
    simpl in Hk. destruct Hk as ((_ & _ & _ & Hk) & _). exact Hk.
  - intros H. repeat (constructor; [ first [ apply poly_ok; reflexivity | simpl; repeat split; auto;
       try (pose proof twopi_pos; lra); exact H ] | ]). constructor.
Qed.
