(* C14_all.v -- the statements of props/C14.v assembled from the lemma files. *)
From Coq Require Import List ZArith String Ascii Bool Arith Lia.
From GS Require Import G2OModel G2OSpec C14_text C14_import C14_fields.
Import ListNotations.
Open Scope string_scope.
Open Scope list_scope.
Open Scope nat_scope.

Section All.
  Variable num : Type.
  Variable parse : string -> option num.
  Variable parse_id : string -> option Z.
  Variable wrap : num -> num.
  Variable normq : list num -> list num.
  Variable zero : num.
  Notation import := (import num parse parse_id wrap normq zero).
  Notation imp := (imp num parse parse_id wrap normq zero).
  Notation trace := (trace num parse parse_id wrap normq zero).
  Notation parse_line := (parse_line num parse parse_id wrap normq zero).
  Notation unrecognised := (unrecognised num parse parse_id wrap normq zero).

  Lemma trace_params : forall cts ps ls its ps', trace cts ps ls its ps' -> ps' = fold_left (step_params num) its ps.
  Proof. intros cts ps ls its ps' H. induction H; simpl; auto. Qed.

  Lemma one_object_per_line : forall cts ls g ws,
    import cts ls = Ok (g, ws) ->
    exists its : list (item num),
      trace cts [] ls its (g_params g) /\
      List.length its = List.length ls /\
      g_params g = fold_left (step_params num) its [] /\
      g_verts g = flat_map (verts_of num) its /\
      g_edges g = flat_map (edges_of num) its /\
      ws = flat_map (warns_of num) (combine ls its).
  Proof.
    intros cts ls g ws H. unfold G2OModel.import in H.
    destruct (imp cts [] ls) as [[ps [[vs es] w]]|e] eqn:E; [|discriminate].
    destruct (check_graph num vs es); [|discriminate]. inversion H; subst; clear H.
    destruct (imp_trace num parse parse_id wrap normq zero _ _ _ _ _ _ _ E) as (its & Ht & Hl & Hv & He & Hw).
    exists its. simpl. repeat split; auto. now apply (trace_params cts [] ls).
  Qed.

  Lemma skip_all :
    (forall cts l1 l l2, blank l = true -> import cts (l1 ++ l :: l2) = import cts (l1 ++ l2)) /\
    (forall cts l1 l l2, unrecognised cts l ->
       match import cts (l1 ++ l2) with
       | Ok (g, ws) => exists w1 w2, ws = w1 ++ w2 /\ import cts (l1 ++ l :: l2) = Ok (g, w1 ++ l :: w2)
       | Error e => import cts (l1 ++ l :: l2) = Error e
       end) /\
    (forall cts l, blank l = false ->
       (forall t, In t builtin_tags -> starts_with (t ++ " ")%string l = false) ->
       Forall (fun ct => ct_reads ct = true -> starts_with (ct_tag ct ++ " ")%string l = false) cts ->
       unrecognised cts l).
  Proof.
    split; [|split].
    - apply import_skip_blank.
    - apply import_skip_junk.
    - intros cts l Hb Ht Hc. apply unrecognised_suff; [exact Hb | split; assumption].
  Qed.

  Lemma dispatch_all :
    (forall a b s, In a builtin_tags -> In b builtin_tags ->
       starts_with (a ++ " ")%string s = true -> starts_with (b ++ " ")%string s = true -> a = b) /\
    (forall cts ps t f r, cts_ok cts -> builtin_parser num parse parse_id wrap normq zero ps t = Some f ->
       parse_line cts ps (t ++ " " ++ r)%string = f (split_ws r)) /\
    (forall cts ps k r, parse_line cts ps (vtag k ++ " " ++ r)%string = parse_vertex num parse parse_id wrap k (split_ws r)) /\
    (forall ct cts ps r, ct_reads ct = true -> nospace (ct_tag ct) = true -> ct_tag ct <> "" -> nows (ct_tag ct) = true ->
       (forall k, ct_tag ct <> vtag k) ->
       parse_line (ct :: cts) ps (ct_tag ct ++ " " ++ r)%string = parse_custom num parse parse_id ct (split_ws r)).
  Proof.
    split; [|split; [|split]].
    - exact builtin_disjoint.
    - apply dispatch_builtin.
    - apply dispatch_vertex.
    - apply dispatch_custom_first.
  Qed.

  Lemma fields_all :
    (forall k it nts i xs, parse_id it = Some i -> map parse nts = map Some xs -> List.length xs = dimk k ->
       parse_vertex num parse parse_id wrap k (it :: nts) = Ok (IVert (mkV i k (post num wrap k xs)))) /\
    (forall p it nts i xs, parse_id it = Some i -> map parse nts = map Some xs ->
       List.length xs = (match p with PSE2 => 3 | PSE3 => 7 end) ->
       parse_param num parse parse_id wrap p (it :: nts)
       = Ok (IParam (p, i) (match p with PSE2 => wrap3 num wrap xs | PSE3 => xs end))) /\
    (forall a b ets its i j est tr, parse_id a = Some i -> parse_id b = Some j ->
       map parse ets = map Some est -> List.length est = 3 -> map parse its = map Some tr -> List.length tr = tri 3 ->
       parse_odo_se2 num parse parse_id wrap (a :: b :: ets ++ its)
       = Ok (IEdge (EOdo KSE2 i j (wrap3 num wrap est) (unpack 3 tr)))) /\
    (forall a b ets its i j est tr, parse_id a = Some i -> parse_id b = Some j ->
       map parse ets = map Some est -> List.length est = 7 -> map parse its = map Some tr -> List.length tr = tri 6 ->
       parse_odo_se3 num parse parse_id normq (a :: b :: ets ++ its)
       = Ok (IEdge (EOdo KSE3 i j (normq7 num normq est) (unpack 6 tr)))) /\
    (forall a b ets its i j est tr, parse_id a = Some i -> parse_id b = Some j ->
       map parse ets = map Some est -> List.length est = 2 -> map parse its = map Some tr -> List.length tr = tri 2 ->
       parse_lmk_se2 num parse parse_id zero (a :: b :: ets ++ its)
       = Ok (IEdge (ELmk KSE2 KR2 i j est (unpack 2 tr) (ident_se2 num zero) (Some 0%Z)))) /\
    (forall ps a b c ets its i j o est tr, parse_id a = Some i -> parse_id b = Some j -> parse_id c = Some o ->
       map parse ets = map Some est -> List.length est = 3 -> map parse its = map Some tr -> List.length tr = tri 3 ->
       parse_lmk_se3 num parse parse_id ps (a :: b :: c :: ets ++ its)
       = match plookup num ps (PSE3, o) with
         | Some off => Ok (IEdge (ELmk KSE3 KR3 i j est (unpack 3 tr) off (Some o)))
         | None => Error EKey
         end) /\
    (forall ct its ets tts ids est tr, map parse_id its = map Some ids -> List.length ids = ct_nids ct ->
       map parse ets = map Some est -> List.length est = ct_nest ct ->
       map parse tts = map Some tr -> List.length tr = tri (ct_dim ct) ->
       parse_custom num parse parse_id ct (its ++ ets ++ tts) = Ok (IEdge (ECus ct ids est (unpack (ct_dim ct) tr)))) /\
    (forall (d : num) n (l : list num) i j, List.length l = tri n -> i < n -> j < n ->
       nth j (nth i (unpack n l) []) d = full_entry d n l i j /\
       full_entry d n l i j = full_entry d n l j i) /\
    (forall nids nnum ts, List.length ts = nids + nnum ->
       (exists t, In t (skipn nids ts) /\ parse t = None) -> parse_fields num parse parse_id nids nnum ts = Error EValue).
  Proof.
    repeat split.
    - apply fields_vertex.
    - apply fields_param.
    - apply fields_odo_se2.
    - apply fields_odo_se3.
    - apply fields_lmk_se2.
    - apply fields_lmk_se3.
    - apply fields_custom.
    - now apply unpack_entry.
    - unfold full_entry. destruct (i <=? j) eqn:E1; destruct (j <=? i) eqn:E2; try reflexivity.
      + apply Nat.leb_le in E1. apply Nat.leb_le in E2. assert (i = j) by lia. now subst.
      + apply Nat.leb_gt in E1. apply Nat.leb_gt in E2. lia.
    - apply bad_number_raises.
  Qed.
End All.
