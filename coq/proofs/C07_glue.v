(* C07_glue.v — from the edge-level statement  "J' u = J (M u)  for every u"  (list matrices of the regenerated programs, lib/LinAlg.v)
   to the entry-level statement  J'[a][j] = sum_m J[a][m] * M[m][j]  which is, literally, the body of [tb_mat] in proofs/C07_basis.v
   (function matrices of lib/GraphModel.v).  Instantiated for the landmark slot of the SE(3) and SE(2) landmark edges under a
   world-frame transform T, with M the matrix of the rotation of T^-1: the transformed landmark edge IS the re-based edge. *)
From Coq Require Import Reals List Arith Lra ZArith Lia.
From Coquelicot Require Import Coquelicot.
From GS Require Import ExprR LinAlg Meth MethR Prog Chain Wrap Spec GenR2 GenR3 GenSE2 GenSE3 GenEdges
  C10_SE3 C10_SE3_boxplus C10_SE2 C10_Rn C09_SE3 C09_SE2 C11_main C01_SE3 C01_Rn C01_SE2 C02_model C07_errors C07_equiv C07_lmk
  GraphModel GNSpec C03_sums C04_blocks.
Import ListNotations.
Open Scope R_scope.

Definition basis (n j : nat) : list R := map (fun m => if Nat.eqb m j then 1 else 0) (seq 0 n).

Lemma dotR_sumn_from (r u : list R) : length u = length r ->
  dotR r u = sumnR (length r) (fun m => nth m r 0 * nth m u 0).
Proof.
  revert u. induction r as [|x r IH]; intros [|y u] H; simpl in H; try discriminate; [reflexivity|].
  unfold dotR. cbn [combine map fold_right fst snd]. fold (dotR r u). rewrite IH by lia.
  change (length (x :: r)) with (1 + length r)%nat. rewrite sumn_app. cbn [sumn nth Nat.add]. ring.
Qed.
Lemma nth_basis n j m : (m < n)%nat -> nth m (basis n j) 0 = if Nat.eqb m j then 1 else 0.
Proof.
  intros Hm. unfold basis.
  rewrite (nth_indep _ 0 ((fun m => if Nat.eqb m j then 1 else 0) 0%nat)) by (rewrite map_length, seq_length; exact Hm).
  rewrite (map_nth (fun m => if Nat.eqb m j then 1 else 0)). rewrite seq_nth by exact Hm. reflexivity.
Qed.
Lemma basis_len n j : length (basis n j) = n.
Proof. unfold basis. rewrite map_length, seq_length. reflexivity. Qed.
Lemma dotR_basis (r : list R) j : (j < length r)%nat -> dotR r (basis (length r) j) = nth j r 0.
Proof.
  intros Hj. rewrite dotR_sumn_from by (apply basis_len).
  rewrite <- (sumn_pick (length r) j (fun m => nth m r 0) Hj). apply sumn_ext. intros m Hm.
  rewrite nth_basis by exact Hm. unfold ind. destruct (Nat.eqb_spec m j); destruct (Nat.eqb_spec j m); subst; try congruence; ring.
Qed.
Lemma nth_matvec (J : list (list R)) u a : nth a (matvec J u) 0 = dotR (nth a J []) u.
Proof. unfold matvec. change 0 with (dotR [] u) at 1. apply (map_nth (fun r => dotR r u)). Qed.

(* J' u = J (M u) for all u   ==>   J' = J M entry by entry *)
Theorem entries_of_product (J J' M : list (list R)) (n : nat) :
  (forall a, (a < length J)%nat -> length (nth a J []) = n) ->
  length M = n -> (forall m, (m < n)%nat -> length (nth m M []) = n) ->
  (forall u, length u = n -> forall a, nth a (matvec J' u) 0 = nth a (matvec J (matvec M u)) 0) ->
  forall a j, (a < length J)%nat -> length (nth a J' []) = n -> (j < n)%nat ->
    nth j (nth a J' []) 0 = sumnR n (fun m => nth m (nth a J []) 0 * nth j (nth m M []) 0).
Proof.
  intros HJ HM HMr H a j Ha Hrow Hj.
  specialize (H (basis n j) (basis_len n j) a). rewrite !nth_matvec in H.
  rewrite <- Hrow in H at 1. rewrite dotR_basis in H by (rewrite Hrow; exact Hj). rewrite H.
  rewrite dotR_sumn_from by (unfold matvec; rewrite map_length, HM, (HJ a Ha); reflexivity).
  rewrite (HJ a Ha). apply sumn_ext. intros m Hm. f_equal.
  rewrite nth_matvec. rewrite <- (HMr m Hm) at 1. apply dotR_basis. rewrite (HMr m Hm). exact Hj.
Qed.

(* the matrix of the linear map rot3 T / rot2 T (columns = images of the basis vectors) *)
Definition Rm3 (T : list R) : list (list R) :=
  map (fun i => map (fun j => nth i (rot3 T (basis 3 j)) 0) [0; 1; 2]%nat) [0; 1; 2]%nat.
Definition Rm2 (T : list R) : list (list R) :=
  map (fun i => map (fun j => nth i (rot2 T (basis 2 j)) 0) [0; 1]%nat) [0; 1]%nat.
Lemma Rm3_spec T u : length T = 7%nat -> length u = 3%nat -> matvec (Rm3 T) u = rot3 T u.
Proof. intros HT Hu. list_len T HT. list_len u Hu. cb0. repeat (f_equal; try ring). Qed.
Lemma Rm2_spec T u : length T = 3%nat -> length u = 2%nat -> matvec (Rm2 T) u = rot2 T u.
Proof. intros HT Hu. list_len T HT. list_len u Hu. cb0. repeat (f_equal; try ring). Qed.

(* the landmark-slot Jacobian of the transformed SE(3) landmark edge = J_l * R_{T^-1}, entry by entry: exactly [tb_mat] with
   Q_landmark = Rm3 (T^-1) *)
Theorem C07_lmk3_is_rebased T p l z off : length T = 7%nat -> length p = 7%nat -> length l = 3%nat -> length z = 3%nat ->
  length off = 7%nat -> unitq T -> unitq p -> unitq off ->
  let J := nth 1 (jac_lmk3 p l z off) [] in let J' := nth 1 (jac_lmk3 (comp3 T p) (act3 T l) z off) [] in
  let M := Rm3 (evl T SE3_inv) in
  forall a j, (a < 3)%nat -> (j < 3)%nat ->
    nth j (nth a J' []) 0 = sumnR 3 (fun m => nth m (nth a J []) 0 * nth j (nth m M []) 0).
Proof.
  intros HT Hp Hl Hz Ho UT Up Uo. cbv zeta. intros a j Ha Hj.
  assert (LTi : length (evl T SE3_inv) = 7%nat) by reflexivity.
  apply (entries_of_product (nth 1 (jac_lmk3 p l z off) []) (nth 1 (jac_lmk3 (comp3 T p) (act3 T l) z off) []) (Rm3 (evl T SE3_inv)) 3).
  - intros b Hb.
    assert (L : length (nth 1 (jac_lmk3 p l z off) []) = 3%nat) by (rewrite jac_lmk3_unfold by auto; reflexivity).
    rewrite L in Hb. rewrite jac_lmk3_unfold by auto. cbv zeta. cbn [nth].
    destruct b as [|[|[|b]]]; [reflexivity | reflexivity | reflexivity | lia].
  - reflexivity.
  - intros m Hm. destruct m as [|[|[|m]]]; [reflexivity | reflexivity | reflexivity | lia].
  - intros u Hu b. rewrite (Rm3_spec (evl T SE3_inv) u LTi Hu).
    apply (C07_jac_lmk_SE3_point_inv T p l z off u HT Hp Hl Hz Ho Hu UT Up Uo b).
  - rewrite jac_lmk3_unfold by auto. exact Ha.
  - assert (L1 : length (comp3 T p) = 7%nat) by reflexivity. assert (L2 : length (act3 T l) = 3%nat) by reflexivity.
    rewrite jac_lmk3_unfold by auto. cbv zeta. cbn [nth]. destruct a as [|[|[|a]]]; [reflexivity | reflexivity | reflexivity | lia].
  - exact Hj.
Qed.
Theorem C07_lmk2_is_rebased T p l z off : length T = 3%nat -> length p = 3%nat -> length l = 2%nat -> length z = 2%nat ->
  length off = 3%nat ->
  let J := nth 1 (jac_lmk2 p l z off) [] in let J' := nth 1 (jac_lmk2 (comp2 T p) (act2 T l) z off) [] in
  let M := Rm2 (evl T SE2_inv) in
  forall a j, (a < 2)%nat -> (j < 2)%nat ->
    nth j (nth a J' []) 0 = sumnR 2 (fun m => nth m (nth a J []) 0 * nth j (nth m M []) 0).
Proof.
  intros HT Hp Hl Hz Ho. cbv zeta. intros a j Ha Hj.
  assert (LTi : length (evl T SE2_inv) = 3%nat) by reflexivity.
  apply (entries_of_product (nth 1 (jac_lmk2 p l z off) []) (nth 1 (jac_lmk2 (comp2 T p) (act2 T l) z off) []) (Rm2 (evl T SE2_inv)) 2).
  - intros b Hb.
    assert (L : length (nth 1 (jac_lmk2 p l z off) []) = 2%nat) by (rewrite jac_lmk2_unfold by auto; reflexivity).
    rewrite L in Hb. rewrite jac_lmk2_unfold by auto. cbv zeta. cbn [nth].
    destruct b as [|[|b]]; [reflexivity | reflexivity | lia].
  - reflexivity.
  - intros m Hm. destruct m as [|[|m]]; [reflexivity | reflexivity | lia].
  - intros u Hu b. rewrite (Rm2_spec (evl T SE2_inv) u LTi Hu).
    apply (C07_jac_lmk_SE2_point_inv T p l z off u HT Hp Hl Hz Ho Hu b).
  - rewrite jac_lmk2_unfold by auto. exact Ha.
  - assert (L1 : length (comp2 T p) = 3%nat) by reflexivity. assert (L2 : length (act2 T l) = 2%nat) by reflexivity.
    rewrite jac_lmk2_unfold by auto. cbv zeta. cbn [nth]. destruct a as [|[|a]]; [reflexivity | reflexivity | lia].
  - exact Hj.
Qed.
