(* C03_dict.v — the insertion-ordered dictionaries of _Chi2GradientHessian: lookups, key sets,
   invariants preserved by gdict_add / hdict_add and by folding contribution lists. *)
From Coq Require Import Reals List Arith Bool Lia Lra.
From GS Require Import GraphModel GNSpec C03_sums.
Import ListNotations.
Open Scope R_scope.

Notation gaddR := (gdict_add R Rplus).
Notation haddR := (hdict_add R Rplus).
Notation vaddR := (vaddf R Rplus).
Notation maddR := (madd R Rplus).
Notation gdict := (list (nat * Rvec)).
Notation hkey := (nat * nat)%type.
Notation hdict := (list (nat * nat * Rmat)).

Lemma fold_left_ext : forall A B (f g : A -> B -> A) l a,
  (forall x y, f x y = g x y) -> fold_left f l a = fold_left g l a.
Proof.
  intros A B f g l. induction l as [|y l IH]; intros a H; simpl.
  - reflexivity.
  - rewrite H. apply IH. exact H.
Qed.

Lemma fold_left_inv : forall A B (P : A -> Prop) (f : A -> B -> A) l a,
  (forall x y, In y l -> P x -> P (f x y)) -> P a -> P (fold_left f l a).
Proof.
  intros A B P f l. induction l as [|y l IH]; intros a H Ha; simpl.
  - exact Ha.
  - apply IH.
    + intros x z Hz Hx. apply H; [right; exact Hz|exact Hx].
    + apply H; [left; reflexivity|exact Ha].
Qed.

(* ================= gradient dictionary ================= *)
(* sum of all values stored under key k (keys are in fact unique, but that is not needed) *)
Fixpoint gsum (d : gdict) (k : nat) (i : nat) : R :=
  match d with
  | [] => 0
  | (k', v') :: r => (if Nat.eqb k' k then snd v' i else 0) + gsum r k i
  end.

Lemma gsum_add : forall d k v k' i,
  gsum (gaddR d k v) k' i = gsum d k' i + (if Nat.eqb k k' then snd v i else 0).
Proof.
  induction d as [|[k0 v0] d IH]; intros k v k' i.
  - simpl. ring.
  - simpl. destruct (Nat.eqb_spec k0 k) as [E|E].
    + subst k0. simpl. destruct (Nat.eqb k k'); ring.
    + simpl. rewrite IH. ring.
Qed.

Lemma gadd_Forall : forall (P : nat * Rvec -> Prop) d k v,
  (forall v', P (k, v') -> P (k, vaddR v' v)) -> Forall P d -> P (k, v) -> Forall P (gaddR d k v).
Proof.
  intros P d k v Hadd. induction d as [|[k0 v0] d IH]; intros Hd Hkv.
  - simpl. constructor; [exact Hkv|constructor].
  - simpl. inversion Hd as [|x l Hx Hl]; subst.
    destruct (Nat.eqb_spec k0 k) as [E|E].
    + subst k0. constructor; [apply Hadd; exact Hx|exact Hl].
    + constructor; [exact Hx|apply IH; assumption].
Qed.

Definition gstep (d : gdict) (c : nat * Rvec) : gdict := gaddR d (fst c) (snd c).

Lemma gsum_fold : forall l d g i,
  gsum (fold_left gstep l d) g i = gsum d g i + sumlist l (fun c => ind (Nat.eqb (fst c) g) * snd (snd c) i).
Proof.
  induction l as [|c l IH]; intros d g i.
  - simpl. rewrite sumlist_nil. ring.
  - simpl fold_left. rewrite IH, sumlist_cons. unfold gstep. rewrite gsum_add.
    destruct (Nat.eqb (fst c) g); rewrite ?ind_true, ?ind_false; ring.
Qed.

(* ================= Hessian dictionary ================= *)
Lemma key_eqb_spec : forall a b : hkey, reflect (a = b) (key_eqb a b).
Proof.
  intros [a1 a2] [b1 b2]. unfold key_eqb. simpl.
  destruct (Nat.eqb_spec a1 b1) as [E1|E1]; destruct (Nat.eqb_spec a2 b2) as [E2|E2]; simpl;
    constructor; congruence.
Qed.

Lemma key_eqb_refl : forall a, key_eqb a a = true.
Proof. intros a. destruct (key_eqb_spec a a); congruence. Qed.

(* first value stored under key *)
Fixpoint hlook (d : hdict) (key : hkey) (a b : nat) : R :=
  match d with
  | [] => 0
  | (k', m') :: r => if key_eqb k' key then ent R m' a b else hlook r key a b
  end.
Fixpoint hmem (d : hdict) (key : hkey) : bool :=
  match d with
  | [] => false
  | (k', m') :: r => if key_eqb k' key then true else hmem r key
  end.
Fixpoint hnodup (d : hdict) : Prop :=
  match d with
  | [] => True
  | (k', m') :: r => hmem r k' = false /\ hnodup r
  end.

Lemma hlook_add : forall d k m key a b,
  hlook (haddR d k m) key a b = hlook d key a b + (if key_eqb k key then ent R m a b else 0).
Proof.
  induction d as [|[k0 m0] d IH]; intros k m key a b.
  - simpl. destruct (key_eqb k key); ring.
  - simpl. destruct (key_eqb_spec k0 k) as [E|E].
    + subst k0. simpl. destruct (key_eqb k key); ring.
    + simpl. destruct (key_eqb_spec k0 key) as [E'|E'].
      * subst key. destruct (key_eqb_spec k k0) as [E2|E2]; [congruence|]. ring.
      * apply IH.
Qed.

Lemma hmem_add : forall d k m key, hmem (haddR d k m) key = orb (key_eqb k key) (hmem d key).
Proof.
  induction d as [|[k0 m0] d IH]; intros k m key.
  - simpl. destruct (key_eqb k key); reflexivity.
  - simpl. destruct (key_eqb_spec k0 k) as [E|E].
    + subst k0. simpl. destruct (key_eqb k key); reflexivity.
    + simpl. destruct (key_eqb_spec k0 key) as [E'|E'].
      * rewrite orb_true_r. reflexivity.
      * apply IH.
Qed.

Lemma hnodup_add : forall d k m, hnodup d -> hnodup (haddR d k m).
Proof.
  induction d as [|[k0 m0] d IH]; intros k m H.
  - simpl. split; [reflexivity|exact I].
  - simpl in H. destruct H as [H1 H2]. simpl. destruct (key_eqb_spec k0 k) as [E|E].
    + simpl. split; assumption.
    + simpl. split.
      * rewrite hmem_add, H1. destruct (key_eqb_spec k k0) as [E2|E2]; [congruence|reflexivity].
      * apply IH. exact H2.
Qed.

Lemma hadd_Forall : forall (P : hkey * Rmat -> Prop) d k m,
  (forall m', P (k, m') -> P (k, maddR m' m)) -> Forall P d -> P (k, m) -> Forall P (haddR d k m).
Proof.
  intros P d k m Hadd. induction d as [|[k0 m0] d IH]; intros Hd Hkm.
  - simpl. constructor; [exact Hkm|constructor].
  - simpl. inversion Hd as [|x l Hx Hl]; subst.
    destruct (key_eqb_spec k0 k) as [E|E].
    + subst k0. constructor; [apply Hadd; exact Hx|exact Hl].
    + constructor; [exact Hx|apply IH; assumption].
Qed.

(* the transposition rule of update(), made explicit *)
Definition norm (c : hkey * Rmat) : hkey * Rmat :=
  if Nat.leb (fst (fst c)) (snd (fst c)) then c else ((snd (fst c), fst (fst c)), mtrR (snd c)).
Definition hstep (d : hdict) (c : hkey * Rmat) : hdict := haddR d (fst (norm c)) (snd (norm c)).

Lemma hstep_model : forall d c,
  (let '((i1, i2), m) := c in
   if Nat.leb i1 i2 then haddR d (i1, i2) m else haddR d (i2, i1) (mtrR m)) = hstep d c.
Proof.
  intros d [[i1 i2] m]. unfold hstep, norm. simpl. destruct (Nat.leb i1 i2); reflexivity.
Qed.

Lemma hlook_fold : forall l d key a b,
  hlook (fold_left hstep l d) key a b
  = hlook d key a b + sumlist l (fun c => ind (key_eqb (fst (norm c)) key) * ent R (snd (norm c)) a b).
Proof.
  induction l as [|c l IH]; intros d key a b.
  - simpl. rewrite sumlist_nil. ring.
  - simpl fold_left. rewrite IH, sumlist_cons. unfold hstep. rewrite hlook_add.
    destruct (key_eqb (fst (norm c)) key); rewrite ?ind_true, ?ind_false; ring.
Qed.
