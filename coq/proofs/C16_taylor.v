(* C16_taylor.v — accuracy of a forward difference (Taylor-Lagrange, Coquelicot) and its application to the
   entries of the matrix returned by the model of BaseEdge.calc_jacobians (lib/FDModel.v over R). *)
From Coq Require Import Reals List Arith Lia Lra.
From Coquelicot Require Import Coquelicot.
From GS Require Import GraphModel FDModel C16_fd.
Import ListNotations.
Open Scope R_scope.

(* ==== C16_fd_error ==== *)
Theorem fd_error (phi : R -> R) (h M : R) :
  0 < h ->
  (forall t, 0 <= t <= h -> forall k, (k <= 2)%nat -> ex_derive_n phi k t) ->
  (forall t, 0 < t < h -> Rabs (Derive_n phi 2 t) <= M) ->
  Rabs ((phi h - phi 0) / h - Derive phi 0) <= M * h / 2.
Proof.
  intros Hh Hd HM.
  destruct (Taylor_Lagrange phi 1 0 h Hh Hd) as (zeta & Hz & E).
  assert (E' : (phi h - phi 0) / h - Derive phi 0 = h / 2 * Derive_n phi 2 zeta).
  { rewrite E. cbn [sum_f_R0 fact Nat.mul Nat.add INR pow].
    change (Derive_n phi 0 0) with (phi 0). change (Derive_n phi 1 0) with (Derive phi 0).
    generalize (Derive_n phi 2 zeta) (Derive phi 0) (phi 0). intros a b c. field. lra. }
  rewrite E'. rewrite Rabs_mult. rewrite (Rabs_pos_eq (h / 2)) by lra.
  specialize (HM zeta Hz). replace (M * h / 2) with (h / 2 * M) by field.
  apply Rmult_le_compat_l; [lra | exact HM].
Qed.

(* the library's step _NUMERICAL_DIFFERENTIATION_EPSILON = 1e-6 *)
Corollary fd_error_1e6 (phi : R -> R) (M : R) :
  (forall t, 0 <= t <= / 1000000 -> forall k, (k <= 2)%nat -> ex_derive_n phi k t) ->
  (forall t, 0 < t < / 1000000 -> Rabs (Derive_n phi 2 t) <= M) ->
  Rabs ((phi (/ 1000000) - phi 0) / (/ 1000000) - Derive phi 0) <= M / 2000000.
Proof.
  intros Hd HM. replace (M / 2000000) with (M * (/ 1000000) / 2) by field.
  apply fd_error; auto. lra.
Qed.

(* the hypotheses are satisfiable and the bound is attained: phi t = t^2, M = 2, FD - phi'(0) = h *)
Example fd_error_hypotheses_satisfiable (h : R) : 0 < h ->
  (forall t, 0 <= t <= h -> forall k, (k <= 2)%nat -> ex_derive_n (fun t => t ^ 2) k t) /\
  (forall t, 0 < t < h -> Rabs (Derive_n (fun t => t ^ 2) 2 t) <= 2) /\
  ((fun t => t ^ 2) h - (fun t => t ^ 2) 0) / h - Derive (fun t => t ^ 2) 0 = 2 * h / 2.
Proof.
  intros Hh.
  assert (D1 : forall t, Derive (fun t => t ^ 2) t = 2 * t).
  { intros t. apply is_derive_unique. auto_derive; auto. ring. }
  assert (D2 : forall t, Derive_n (fun t => t ^ 2) 2 t = 2).
  { intros t. cbn [Derive_n]. rewrite (Derive_ext _ (fun t => 2 * t)) by (intros; apply D1).
    apply is_derive_unique. auto_derive; auto. ring. }
  split; [|split].
  - intros t _ k Hk. destruct k as [|[|[|k]]]; try lia.
    + exact I.
    + cbn [ex_derive_n Derive_n]. auto_derive; auto.
    + cbn [ex_derive_n Derive_n]. apply ex_derive_ext with (f := fun t => 2 * t); [intros; symmetry; apply D1|].
      auto_derive; auto.
  - intros t _. rewrite D2. rewrite Rabs_pos_eq; lra.
  - rewrite D1. field. lra.
Qed.

(* ==== the entries of the model's matrix approximate the directional derivative of the error ==== *)
Section Entry.
Variable P : Type.
Variable copy : P -> P.
Variable boxplus : P -> list R -> P.
Variable err : list P -> list R.
Variable dim : P -> nat.

(* t |-> i-th error component with slot k moved by t along compact coordinate d *)
Definition phi_entry (s : list P) (k : nat) (pk : P) (d i : nat) (t : R) : R :=
  nth i (err (set_nth P k (boxplus pk (unit_vec R 0 t (dim pk) d)) s)) 0.

Theorem fd_entry_error (h M : R) (s : list P) (k : nat) (pk : P) (d i : nat) :
  0 < h ->
  (forall p, copy p = p) ->                                   (* constructed poses: theorem C11 *)
  nth_error s k = Some pk -> (d < dim pk)%nat ->
  boxplus pk (unit_vec R 0 0 (dim pk) d) = pk ->              (* a zero increment does not move the pose: theorem C06 *)
  (i < length (err s))%nat ->
  (i < length (err (set_nth P k (boxplus pk (unit_vec R 0%R h (dim pk) d)) s)))%nat ->
  (forall t, 0 <= t <= h -> forall n, (n <= 2)%nat -> ex_derive_n (phi_entry s k pk d i) n t) ->
  (forall t, 0 < t < h -> Rabs (Derive_n (phi_entry s k pk d i) 2 t) <= M) ->
  exists Jk, nth_error (fst (calc_jacobians R P 0 Rminus Rdiv h copy boxplus err dim s)) k = Some Jk /\
    Rabs (nth i (nth d Jk []) 0 - Derive (phi_entry s k pk d i) 0) <= M * h / 2 /\
    snd (calc_jacobians R P 0 Rminus Rdiv h copy boxplus err dim s) = s.
Proof.
  intros Hh Hc Hk Hd H0 Hi Hi' Hder HM.
  destruct (fd_matrix_copy_id R P 0 Rminus Rdiv h copy boxplus err dim s k pk Hc Hk) as (Hfin & Jk & HJ & _ & Hcol).
  exists Jk. split; [exact HJ|]. split; [|exact Hfin].
  destruct (Hcol d Hd) as (_ & Hent). rewrite (Hent i 0 Hi Hi').
  assert (E0 : phi_entry s k pk d i 0 = nth i (err s) 0).
  { unfold phi_entry. rewrite H0. rewrite (set_nth_same P k pk s Hk). reflexivity. }
  change (nth i (err (set_nth P k (boxplus pk (unit_vec R 0 h (dim pk) d)) s)) 0) with (phi_entry s k pk d i h).
  rewrite <- E0. unfold Rminus at 2. fold (Rminus (phi_entry s k pk d i h) (phi_entry s k pk d i 0)).
  apply fd_error; auto.
Qed.
End Entry.

(* the hypotheses of fd_entry_error are satisfiable: a 1-dimensional pose (a real), boxplus = addition of the
   increment, error = [x^2], at x = 3; M = 2 *)
Example fd_entry_error_hypotheses_satisfiable (h : R) : 0 < h ->
  let bp := fun (p : R) (d : list R) => p + hd 0 d in
  let er := fun (s : list R) => [nth 0 s 0 ^ 2] in
  let dm := fun (_ : R) => 1%nat in
  (forall p : R, (fun p => p) p = p) /\ nth_error [3] 0 = Some 3 /\ (0 < dm 3%R)%nat /\
  bp 3 (unit_vec R 0 0 (dm 3) 0) = 3 /\ (0 < length (er [3%R]))%nat /\
  (0 < length (er (set_nth R 0 (bp 3%R (unit_vec R 0%R h (dm 3%R) 0)) [3%R])))%nat /\
  (forall t, 0 <= t <= h -> forall n, (n <= 2)%nat -> ex_derive_n (phi_entry R bp er dm [3] 0 3 0 0) n t) /\
  (forall t, 0 < t < h -> Rabs (Derive_n (phi_entry R bp er dm [3] 0 3 0 0) 2 t) <= 2).
Proof.
  intros Hh bp er dm.
  assert (E : forall t, phi_entry R bp er dm [3] 0 3 0 0 t = (3 + t) ^ 2) by (intros t; reflexivity).
  assert (D1 : forall t, Derive (fun t => (3 + t) ^ 2) t = 2 * (3 + t)).
  { intros t. apply is_derive_unique. auto_derive; auto. ring. }
  assert (D2 : forall t, Derive_n (fun t => (3 + t) ^ 2) 2 t = 2).
  { intros t. cbn [Derive_n]. rewrite (Derive_ext _ (fun t => 2 * (3 + t))) by (intros; apply D1).
    apply is_derive_unique. auto_derive; auto. ring. }
  repeat split; try (cbn; lia).
  - unfold dm. lia.
  - unfold bp, dm. cbn. ring.
  - intros t _ n Hn. apply ex_derive_n_ext with (f := fun t => (3 + t) ^ 2); [intros; symmetry; apply E|].
    destruct n as [|[|[|n]]]; try lia.
    + exact I.
    + cbn [ex_derive_n Derive_n]. auto_derive; auto.
    + cbn [ex_derive_n Derive_n]. apply ex_derive_ext with (f := fun t => 2 * (3 + t)); [intros; symmetry; apply D1|].
      auto_derive; auto.
  - intros t _. rewrite (Derive_n_ext _ (fun t => (3 + t) ^ 2)) by (intros; apply E). rewrite D2.
    rewrite Rabs_pos_eq; lra.
Qed.
