(* C07_RnJac.v — R^n graphs: the Jacobians of the translated edges are those of the original edges (they do
   not depend on the vertex coordinates at all). *)
From Coq Require Import Reals List Lra ZArith Lia.
From Coquelicot Require Import Coquelicot.
From GS Require Import ExprR LinAlg Meth MethR Prog Chain Wrap Spec GenR2 GenR3 GenSE2 GenSE3 GenEdges
  C10_SE3 C10_SE3_boxplus C10_SE2 C10_Rn C09_SE3 C09_SE2 C11_main C01_SE3 C01_Rn C01_SE2 C02_model C07_errors C07_equiv.
Import ListNotations.
Open Scope R_scope.

Theorem C07_jac_Rn :
  (forall T p1 p2 z, length T = 2%nat -> length p1 = 2%nat -> length p2 = 2%nat -> length z = 2%nat ->
     jac_odoR2 (vadd T p1) (vadd T p2) z = jac_odoR2 p1 p2 z) /\
  (forall T p1 p2 z, length T = 3%nat -> length p1 = 3%nat -> length p2 = 3%nat -> length z = 3%nat ->
     jac_odoR3 (vadd T p1) (vadd T p2) z = jac_odoR3 p1 p2 z) /\
  (forall T p l z off, length T = 2%nat -> length p = 2%nat -> length l = 2%nat -> length z = 2%nat -> length off = 2%nat ->
     jac_lmkR2 (vadd T p) (vadd T l) z off = jac_lmkR2 p l z off) /\
  (forall T p l z off, length T = 3%nat -> length p = 3%nat -> length l = 3%nat -> length z = 3%nat -> length off = 3%nat ->
     jac_lmkR3 (vadd T p) (vadd T l) z off = jac_lmkR3 p l z off).
Proof. repeat match goal with |- _ /\ _ => split end; intros; reflexivity. Qed.
