(* Assembly of the C08 obligations into the statement of props/C08.v. *)
From Coq Require Import Reals List Arith Bool Lia Lra Permutation ZArith.
From GS Require Import ExprR LinAlg Meth Wrap Chi2 GraphModel GNSpec GenSE2 C10_SE2 C01_SE3 C02_zero C03_sums C03_index C03_assembly C06_main C08_graph C08_pose C08_vperm.
Import ListNotations.
Open Scope R_scope.

Lemma C08_all :
  (* ---- order of the edge list ---- *)
  (forall vs es es', Permutation es es' ->
     (forall r, spec_b vs es r = spec_b vs es' r) /\ (forall r c, spec_H vs es r c = spec_H vs es' r c) /\ spec_chi2 es = spec_chi2 es') /\
  (* ---- order of the VERTEX list: vertex k moves to position sg[k]; the flat system is the same system renumbered by phi,
          chi2 is the same number, solutions correspond; and (distinct ids) the binding of edges follows the permutation ---- *)
  (forall vs vs' sg es, Permutation sg (seq 0 (length vs)) -> length vs' = length vs ->
     (forall k, (k < length vs)%nat -> nth (nth k sg 0%nat) vs' (mkvertex 0 false) = nth k vs (mkvertex 0 false)) -> wf_graph vs es ->
     (forall r, (r < glen vs)%nat -> spec_b vs' (map (perm_edge sg) es) (phi vs vs' sg r) = spec_b vs es r) /\
     (forall r c, (r < glen vs)%nat -> (c < glen vs)%nat ->
        spec_H vs' (map (perm_edge sg) es) (phi vs vs' sg r) (phi vs vs' sg c) = spec_H vs es r c) /\
     spec_chi2 (map (perm_edge sg) es) = spec_chi2 es /\
     (forall dx dx', (forall c, (c < glen vs)%nat -> dx' (phi vs vs' sg c) = dx c) ->
        solves (glen vs) (spec_H vs es) (spec_b vs es) dx ->
        solves (glen vs') (spec_H vs' (map (perm_edge sg) es)) (spec_b vs' (map (perm_edge sg) es)) dx')) /\
  (forall ids ids' sg vids, NoDup ids -> Permutation sg (seq 0 (length ids)) -> length ids' = length ids ->
     (forall k, (k < length ids)%nat -> nth (nth k sg 0%nat) ids' 0%Z = nth k ids 0%Z) ->
     bind_slots ids' vids = option_map (map (fun k => nth k sg 0%nat)) (bind_slots ids vids)) /\
  (* ---- injective relabelling of the vertex ids (negative, sparse, huge ids): same binding ---- *)
  (forall f : Z -> Z, (forall a b, f a = f b -> a = b) -> forall ids vids, bind_slots (map f ids) (map f vids) = bind_slots ids vids) /\
  (* ---- adding multiples of 2 pi to an SE(2) angle: the constructor stores the same pose ---- *)
  (forall x y th (k : Z), evl [x; y; th + 2 * PI * IZR k] (vec_of SE2_new) = evl [x; y; th] (vec_of SE2_new)) /\
  (* ---- one edge = two identical edges with half the information each ---- *)
  (forall vs es1 e es2,
     let es := es1 ++ e :: es2 in let es' := es1 ++ scale_edge (/2) e :: scale_edge (/2) e :: es2 in
     (forall r, spec_b vs es' r = spec_b vs es r) /\ (forall r c, spec_H vs es' r c = spec_H vs es r c) /\ spec_chi2 es' = spec_chi2 es) /\
  (* ---- scaling all information matrices by c: same increment, chi2 scaled ---- *)
  (forall vs es c dx, solves (glen vs) (spec_H vs es) (spec_b vs es) dx ->
     solves (glen vs) (spec_H vs (map (scale_edge c) es)) (spec_b vs (map (scale_edge c) es)) dx /\
     spec_chi2 (map (scale_edge c) es) = c * spec_chi2 es) /\
  (* ---- negating a unit quaternion: landmark errors unchanged; odometry error e |-> S e ---- *)
  (forall p l z off, length p = 7%nat -> length l = 3%nat -> length z = 3%nat -> length off = 7%nat ->
     err_lmk3 (negq p) l z off = err_lmk3 p l z off /\ err_lmk3 p l z (negq off) = err_lmk3 p l z off) /\
  (forall p1 p2 z, length p1 = 7%nat -> length p2 = 7%nat -> length z = 7%nat ->
     err_odo3 (negq p1) p2 z = Sflip (err_odo3 p1 p2 z) /\ err_odo3 p1 (negq p2) z = Sflip (err_odo3 p1 p2 z) /\
     err_odo3 p1 p2 (negq z) = Sflip (err_odo3 p1 p2 z)) /\
  (forall e om, length e = 6%nat -> square_mat 6 om -> blockdiag33 om -> quad (Sflip e) om = quad e om) /\
  (* ---- REFUTED for information matrices with translation-rotation cross terms (known finding) ---- *)
  (exists e om, length e = 6%nat /\ square_mat 6 om /\ (forall v, length v = 6%nat -> 0 <= quad v om) /\
                (forall i j, nth j (nth i om []) 0 = nth i (nth j om []) 0) /\ quad (Sflip e) om <> quad e om).
Proof.
  repeat match goal with |- _ /\ _ => split end.
  - exact C08_edge_perm.
  - intros vs vs' sg es Hp Hl Hn Hwf. repeat match goal with |- _ /\ _ => split end.
    + intros r Hr. apply spec_b_vperm; auto.
    + intros r c Hr Hc. apply spec_H_vperm; auto.
    + apply chi2_vperm.
    + intros dx dx' Hd Hs. eapply solves_vperm; eauto.
  - exact bind_vperm.
  - exact C08_relabel.
  - exact C08_two_pi.
  - exact C08_split_edge.
  - exact C08_scale.
  - exact C08_quat_sign_landmark.
  - exact C08_quat_sign_odometry.
  - exact C08_quat_sign_chi2_blockdiag.
  - exact C08_quat_sign_refuted.
Qed.
