(* C04_shift.v — moving the state of an affine graph by d: the gradient changes by H d (key lemma
   spec_b_shift) and chi2 expands exactly (expansion_holds). *)
From Coq Require Import Reals List Arith Bool Lia Lra.
From GS Require Import GraphModel GNSpec LinearSpec C03_sums C03_index C03_accumulate C03_assembly C06_main C04_blocks.
Import ListNotations.
Open Scope R_scope.

(* the change of the error of edge e: sum_s J_s d_{slot s} *)
Definition dv (vs : list vertex) (d : nat -> R) (e : Redge) (a : nat) : R :=
  sum2 (length (e_slots R e)) (fun s => dim_at vs (slotR e s))
       (fun s j => ent R (jacR e s) a j * d (gi vs (slotR e s) + j)%nat).

Lemma shift_err_dv : forall vs d e,
  shift_err vs d e = (fst (e_err R e), fun a => snd (e_err R e) a + dv vs d e a).
Proof. reflexivity. Qed.

Lemma wf_graph_edge : forall vs es e, wf_graph vs es -> In e es -> wf_edge vs e.
Proof. intros vs es e [_ Hes] Hin. rewrite Forall_forall in Hes. apply Hes. exact Hin. Qed.

(* ---------- one edge: gradient block after the move ---------- *)
Lemma gblock_shift : forall vs d e s i, wf_edge vs e -> (s < length (e_slots R e))%nat ->
  snd (gblock (shift_edge vs d e) s) i =
  snd (gblock e s) i +
  sum2 (length (e_slots R e)) (fun t => dim_at vs (slotR e t))
       (fun t j => ent R (Cblock e s t) i j * d (gi vs (slotR e t) + j)%nat).
Proof.
  intros vs d e s i Hwf Hs.
  assert (Hwf' := Hwf). destruct Hwf' as (_ & _ & _ & Hor & Hoc & Hsym & Hjac).
  set (n := fst (e_err R e)) in *.
  transitivity (snd (gblock e s) i +
                sumnR n (fun b => sumnR n (fun a => dv vs d e a * ent R (e_om R e) a b) * ent R (jacR e s) b i)).
  { unfold gblock, vdotm, shift_edge, jac_at. cbn [e_om e_err e_jac].
    rewrite shift_err_dv. cbn [fst snd]. rewrite Hoc. fold n.
    rewrite <- sumn_plus. apply sumn_ext. intros b _.
    rewrite <- Rmult_plus_distr_r. f_equal.
    rewrite <- sumn_plus. apply sumn_ext. intros a _. ring. }
  f_equal.
  transitivity (sum2 (length (e_slots R e)) (fun t => dim_at vs (slotR e t))
                  (fun t j => sumnR n (fun b => sumnR n (fun a =>
                     ent R (jacR e t) a j * d (gi vs (slotR e t) + j)%nat * ent R (e_om R e) a b * ent R (jacR e s) b i)))).
  - rewrite <- sum2_sumn. apply sumn_ext. intros b _.
    rewrite <- sum2_sumn. rewrite <- sumn_scal_r. apply sumn_ext. intros a _.
    unfold dv. rewrite <- !sum2_scal_r. reflexivity.
  - apply sum2_ext. intros t j Ht Hj.
    rewrite (Cblock_sym vs e s t i j Hwf Hs Ht).
    destruct (Hjac t Ht) as [Rt _].
    unfold Cblock, mdot, mtr. cbn [ent rows cols]. rewrite Hoc, Rt. fold n.
    rewrite <- sumn_scal_r. apply sumn_ext. intros b _.
    rewrite <- !sumn_scal_r. apply sumn_ext. intros a _. ring.
Qed.

(* ---------- one edge: a Hessian row applied to d ---------- *)
Lemma spec_term_row : forall vs d e k i, wf_edge vs e ->
  sum2 (length vs) (dim_at vs) (fun l j => spec_term e k l i j * d (gi vs l + j)%nat) =
  sumnR (length (e_slots R e)) (fun s => ind (Nat.eqb (slotR e s) k) *
    sum2 (length (e_slots R e)) (fun t => dim_at vs (slotR e t))
         (fun t j => ent R (Cblock e s t) i j * d (gi vs (slotR e t) + j)%nat)).
Proof.
  intros vs d e k i Hwf. set (ns := length (e_slots R e)).
  transitivity (sumnR ns (fun s => sum2 (length vs) (dim_at vs) (fun l j =>
                  ind (Nat.eqb (slotR e s) k) *
                  sumnR ns (fun t => ind (Nat.eqb (slotR e t) l) * (ent R (Cblock e s t) i j * d (gi vs l + j)%nat))))).
  - rewrite sum2_sumn. apply sum2_ext. intros l j _ _.
    unfold spec_term. fold ns. rewrite <- sumn_scal_r. apply sumn_ext. intros s _.
    rewrite <- sumn_scal_r. rewrite <- sumn_scal_l. apply sumn_ext. intros t _. ring.
  - apply sumn_ext. intros s _. rewrite sum2_scal_l. f_equal.
    apply (sum2_pick vs ns (slotR e) (fun t l j => ent R (Cblock e s t) i j * d (gi vs l + j)%nat)).
    intros t Ht. apply (slot_in_range vs e t Hwf Ht).
Qed.

(* ---------- the key lemma: gradient after the move = gradient + H d on the free rows ---------- *)
Lemma spec_H_row : forall vs es d k i r, zero_on_fixed vs d -> locate vs r = Some (k, i) -> fixed_at vs k = false ->
  sumnR (glen vs) (fun c => spec_H vs es r c * d c) =
  sum2 (length vs) (dim_at vs) (fun l j => sumlist es (fun e => spec_term e k l i j) * d (gi vs l + j)%nat).
Proof.
  intros vs es d k i r Hz Lr Fk. rewrite sumn_blocks. apply sum2_ext. intros l j Hl Hj.
  unfold spec_H. rewrite Lr, (locate_gi vs l j Hl Hj), Fk. cbn [orb].
  destruct (fixed_at vs l) eqn:Fl.
  - rewrite (Hz (gi vs l + j)%nat).
    + ring.
    + apply gi_block_lt; assumption.
    + rewrite is_fixed_index_gi by assumption. exact Fl.
  - reflexivity.
Qed.

Lemma spec_b_shift : forall vs es d r, wf_graph vs es -> zero_on_fixed vs d ->
  (r < glen vs)%nat -> is_fixed_index vs r = false ->
  spec_b vs (map (shift_edge vs d) es) r = spec_b vs es r + sumnR (glen vs) (fun c => spec_H vs es r c * d c).
Proof.
  intros vs es d r Hwf Hz Hr Hf.
  destruct (locate_total vs r Hr) as (k & i & Lr).
  assert (Fk : fixed_at vs k = false) by (unfold is_fixed_index in Hf; rewrite Lr in Hf; exact Hf).
  rewrite (spec_H_row vs es d k i r Hz Lr Fk).
  unfold spec_b. rewrite Lr, Fk. rewrite sumlist_map.
  transitivity (sumlist es (fun e =>
      sumnR (length (e_slots R e)) (fun s => ind (Nat.eqb (slotR e s) k) * snd (gblock e s) i)
      + sum2 (length vs) (dim_at vs) (fun l j => spec_term e k l i j * d (gi vs l + j)%nat))).
  - apply sumlist_ext. intros e Hin. pose proof (wf_graph_edge vs es e Hwf Hin) as He.
    rewrite (spec_term_row vs d e k i He). rewrite <- sumn_plus.
    change (e_slots R (shift_edge vs d e)) with (e_slots R e).
    apply sumn_ext. intros s Hs.
    change (slotR (shift_edge vs d e) s) with (slotR e s).
    rewrite (gblock_shift vs d e s i He Hs). ring.
  - rewrite sumlist_plus. f_equal.
    rewrite sum2_sumlist. apply sum2_ext. intros l j _ _. rewrite sumlist_scal_r. reflexivity.
Qed.

(* ---------- chi2 of one edge after the move ---------- *)
Lemma chi2_shift : forall vs d e, wf_edge vs e ->
  edge_chi2 R 0 Rplus Rmult (shift_edge vs d e) =
  edge_chi2 R 0 Rplus Rmult e
  + 2 * sumnR (fst (e_err R e)) (fun b => sumnR (fst (e_err R e)) (fun a => snd (e_err R e) a * ent R (e_om R e) a b) * dv vs d e b)
  + sumnR (fst (e_err R e)) (fun a => sumnR (fst (e_err R e)) (fun b => dv vs d e a * ent R (e_om R e) a b * dv vs d e b)).
Proof.
  intros vs d e Hwf. destruct Hwf as (_ & _ & _ & Hor & Hoc & Hsym & Hjac).
  unfold edge_chi2, vdotv, vdotm, shift_edge. cbn [e_om e_err]. rewrite shift_err_dv. cbn [fst snd].
  rewrite Hoc.
  apply (quad_expand (fst (e_err R e)) (snd (e_err R e)) (dv vs d e) (ent R (e_om R e)) Hsym).
Qed.

(* the cross term of one edge is its gradient blocks against the slices of d *)
Lemma cross_gblock : forall vs d e, wf_edge vs e ->
  sumnR (fst (e_err R e)) (fun b => sumnR (fst (e_err R e)) (fun a => snd (e_err R e) a * ent R (e_om R e) a b) * dv vs d e b) =
  sum2 (length (e_slots R e)) (fun s => dim_at vs (slotR e s))
       (fun s j => snd (gblock e s) j * d (gi vs (slotR e s) + j)%nat).
Proof.
  intros vs d e Hwf. destruct Hwf as (_ & _ & _ & Hor & Hoc & Hsym & Hjac).
  set (n := fst (e_err R e)).
  transitivity (sumnR n (fun b => sum2 (length (e_slots R e)) (fun s => dim_at vs (slotR e s)) (fun s j =>
                  sumnR n (fun a => snd (e_err R e) a * ent R (e_om R e) a b) *
                  (ent R (jacR e s) b j * d (gi vs (slotR e s) + j)%nat)))).
  - apply sumn_ext. intros b _. unfold dv. rewrite <- sum2_scal_l. reflexivity.
  - rewrite sum2_sumn. apply sum2_ext. intros s j _ _.
    unfold gblock, vdotm. cbn [fst snd]. rewrite Hoc. fold n.
    rewrite <- sumn_scal_r. apply sumn_ext. intros b _. ring.
Qed.

(* gradient . d, edge by edge *)
Lemma grad_dot : forall vs es d, wf_graph vs es -> zero_on_fixed vs d ->
  sumnR (glen vs) (fun r => spec_b vs es r * d r) =
  sumlist es (fun e => sum2 (length (e_slots R e)) (fun s => dim_at vs (slotR e s))
                         (fun s j => snd (gblock e s) j * d (gi vs (slotR e s) + j)%nat)).
Proof.
  intros vs es d Hwf Hz. rewrite sumn_blocks.
  transitivity (sum2 (length vs) (dim_at vs) (fun k i => sumlist es (fun e =>
                  sumnR (length (e_slots R e)) (fun s =>
                    ind (Nat.eqb (slotR e s) k) * (snd (gblock e s) i * d (gi vs k + i)%nat))))).
  - apply sum2_ext. intros k i Hk Hi. unfold spec_b. rewrite (locate_gi vs k i Hk Hi).
    destruct (fixed_at vs k) eqn:Fk.
    + rewrite Rmult_0_l. symmetry.
      assert (Ed : d (gi vs k + i)%nat = 0).
      { apply Hz; [apply gi_block_lt; assumption|]. rewrite is_fixed_index_gi by assumption. exact Fk. }
      rewrite Ed. rewrite <- (sumlist_nil Redge (fun _ => 0)) at 1.
      transitivity (sumlist es (fun _ : Redge => 0)).
      * apply sumlist_ext. intros e _. apply sumn_zero. intros s _. ring.
      * clear. induction es as [|e es IH]; [reflexivity|]. rewrite sumlist_cons, IH. ring.
    + rewrite <- sumlist_scal_r. apply sumlist_ext. intros e _.
      rewrite <- sumn_scal_r. apply sumn_ext. intros s _. ring.
  - rewrite <- sum2_sumlist. apply sumlist_ext. intros e Hin.
    pose proof (wf_graph_edge vs es e Hwf Hin) as He.
    apply (sum2_pick vs (length (e_slots R e)) (slotR e) (fun s k i => snd (gblock e s) i * d (gi vs k + i)%nat)).
    intros s Hs. apply (slot_in_range vs e s He Hs).
Qed.

(* ---------- exact expansion of chi2 ---------- *)
Theorem expansion_holds : expansion_statement.
Proof.
  intros vs es d Hwf Hz. unfold spec_chi2. rewrite sumlist_map.
  rewrite (grad_dot vs es d Hwf Hz).
  transitivity (sumlist es (fun e =>
      edge_chi2 R 0 Rplus Rmult e
      + 2 * sum2 (length (e_slots R e)) (fun s => dim_at vs (slotR e s))
                 (fun s j => snd (gblock e s) j * d (gi vs (slotR e s) + j)%nat)
      + sumnR (fst (e_err R e)) (fun a => sumnR (fst (e_err R e)) (fun b => dv vs d e a * ent R (e_om R e) a b * dv vs d e b)))).
  - apply sumlist_ext. intros e Hin. pose proof (wf_graph_edge vs es e Hwf Hin) as He.
    rewrite (chi2_shift vs d e He), (cross_gblock vs d e He). reflexivity.
  - rewrite !sumlist_plus, sumlist_scal_l. reflexivity.
Qed.
