(* C10 for PoseSE2 (definitions regenerated from graphslam/pose/se2.py and util.py). *)
From Coq Require Import Reals List Lra ZArith Lia.
From Coquelicot Require Import Coquelicot.
From GS Require Import ExprR LinAlg Jac Wrap Meth GenSE2.
Import ListNotations.
Open Scope R_scope.

Definition SE2_oplus := vec_of SE2_add__SE2.
Definition SE2_ominus := vec_of SE2_sub__SE2.
Definition SE2_oplus_point := vec_of SE2_add__R2.
Definition SE2_inv := vec_of SE2_inverse.

(* discharge okD for a vector whose entries are polynomial/trigonometric except for wrapped angles *)
Ltac okD_wrap H :=
  repeat (constructor; [ first [ apply poly_ok; reflexivity
                               | simpl; repeat split; auto using twopi_pos;
                                 try (pose proof twopi_pos; lra);
                                 try exact H ] | ]);
  try constructor.

Ltac jac_wrap side :=
  let vals := fresh "vals" in let u := fresh "u" in let Hv := fresh "Hv" in let Hu := fresh "Hu" in
  let Hs := fresh "Hs" in
  intros vals u Hv Hu Hs; list_len vals Hv; list_len u Hu; unfold side, not_at_wrap in Hs; simpl in Hs;
  apply jacobian_from_tangent; [ okD_wrap Hs | ring_lists ].

Definition side_oplus (v : list R) := not_at_wrap (nth 2 v 0 + nth 5 v 0).
Definition side_ominus (v : list R) := not_at_wrap (nth 2 v 0 - nth 5 v 0).
Definition side_inv (v : list R) := not_at_wrap (- nth 2 v 0).

Lemma SE2_oplus_wrt_self_tan : tangent_ok SE2_oplus (mat_of SE2_jacobian_self_oplus_other_wrt_self__SE2) 6 0 3.
Proof. tan_ring. Qed.
Lemma SE2_oplus_wrt_self : is_jacobian_on side_oplus SE2_oplus (mat_of SE2_jacobian_self_oplus_other_wrt_self__SE2) 6 0 3.
Proof. jac_wrap side_oplus. Qed.
Lemma SE2_oplus_wrt_other_tan : tangent_ok SE2_oplus (mat_of SE2_jacobian_self_oplus_other_wrt_other__SE2) 6 3 3.
Proof. tan_ring. Qed.
Lemma SE2_oplus_wrt_other : is_jacobian_on side_oplus SE2_oplus (mat_of SE2_jacobian_self_oplus_other_wrt_other__SE2) 6 3 3.
Proof. jac_wrap side_oplus. Qed.
Lemma SE2_ominus_wrt_self_tan : tangent_ok SE2_ominus (mat_of SE2_jacobian_self_ominus_other_wrt_self__SE2) 6 0 3.
Proof. tan_ring. Qed.
Lemma SE2_ominus_wrt_self : is_jacobian_on side_ominus SE2_ominus (mat_of SE2_jacobian_self_ominus_other_wrt_self__SE2) 6 0 3.
Proof. jac_wrap side_ominus. Qed.
Lemma SE2_ominus_wrt_other_tan : tangent_ok SE2_ominus (mat_of SE2_jacobian_self_ominus_other_wrt_other__SE2) 6 3 3.
Proof. tan_ring. Qed.
Lemma SE2_ominus_wrt_other : is_jacobian_on side_ominus SE2_ominus (mat_of SE2_jacobian_self_ominus_other_wrt_other__SE2) 6 3 3.
Proof. jac_wrap side_ominus. Qed.
Lemma SE2_point_wrt_self_tan : tangent_ok SE2_oplus_point (mat_of SE2_jacobian_self_oplus_point_wrt_self__R2) 5 0 3.
Proof. tan_ring. Qed.
Lemma SE2_point_wrt_self : is_jacobian SE2_oplus_point (mat_of SE2_jacobian_self_oplus_point_wrt_self__R2) 5 0 3.
Proof. jac_poly. Qed.
Lemma SE2_point_wrt_point_tan : tangent_ok SE2_oplus_point (mat_of SE2_jacobian_self_oplus_point_wrt_point__R2) 5 3 2.
Proof. tan_ring. Qed.
Lemma SE2_point_wrt_point : is_jacobian SE2_oplus_point (mat_of SE2_jacobian_self_oplus_point_wrt_point__R2) 5 3 2.
Proof. jac_poly. Qed.
Lemma SE2_inverse_jac_tan : tangent_ok SE2_inv (mat_of SE2_jacobian_inverse) 3 0 3.
Proof. tan_ring. Qed.
Lemma SE2_inverse_jac : is_jacobian_on side_inv SE2_inv (mat_of SE2_jacobian_inverse) 3 0 3.
Proof. jac_wrap side_inv. Qed.

(* boxplus for SE(2) is the ndarray-of-length-3 branch of __add__ ; its Jacobian at delta = 0 *)
Definition SE2_boxplus := vec_of SE2_add__arr3.
Definition side_boxplus (v : list R) :=
  nth 3 v 0 = 0 /\ nth 4 v 0 = 0 /\ nth 5 v 0 = 0 /\ not_at_wrap (nth 2 v 0).
Lemma SE2_boxplus_jac : is_jacobian_on side_boxplus SE2_boxplus (mat_of SE2_jacobian_boxplus) 6 3 3.
Proof.
  intros vals u Hv Hu Hs. list_len vals Hv. list_len u Hu.
  destruct Hs as (H3 & H4 & H5 & Hw). simpl in H3, H4, H5, Hw. subst.
  unfold not_at_wrap in Hw.
  apply jacobian_from_tangent.
  - repeat (constructor; [ first [ apply poly_ok; reflexivity
        | simpl; repeat split; auto using twopi_pos; try (pose proof twopi_pos; lra);
          replace (x1 + 0 + PI) with (x1 + PI) by ring; exact Hw ] | ]).
    constructor.
  - ring_lists.
Qed.
Lemma SE2_boxplus_is_oplus : SE2_boxplus = SE2_oplus.
Proof. reflexivity. Qed.

(* compact variants and shapes *)
Lemma SE2_compact_rows :
  mat_of SE2_jacobian_self_oplus_other_wrt_self_compact__SE2 = firstn 3 (mat_of SE2_jacobian_self_oplus_other_wrt_self__SE2) /\
  mat_of SE2_jacobian_self_oplus_other_wrt_other_compact__SE2 = firstn 3 (mat_of SE2_jacobian_self_oplus_other_wrt_other__SE2) /\
  mat_of SE2_jacobian_self_ominus_other_wrt_self_compact__SE2 = firstn 3 (mat_of SE2_jacobian_self_ominus_other_wrt_self__SE2) /\
  mat_of SE2_jacobian_self_ominus_other_wrt_other_compact__SE2 = firstn 3 (mat_of SE2_jacobian_self_ominus_other_wrt_other__SE2) /\
  vec_of SE2_to_compact = firstn 3 [Var 0; Var 1; Var 2].
Proof. repeat split; reflexivity. Qed.
Lemma SE2_shapes :
  shape 3 3 (mat_of SE2_jacobian_self_oplus_other_wrt_self__SE2) /\ shape 3 3 (mat_of SE2_jacobian_self_oplus_other_wrt_other__SE2) /\
  shape 3 3 (mat_of SE2_jacobian_self_ominus_other_wrt_self__SE2) /\ shape 3 3 (mat_of SE2_jacobian_self_ominus_other_wrt_other__SE2) /\
  shape 3 3 (mat_of SE2_jacobian_boxplus) /\ shape 3 3 (mat_of SE2_jacobian_inverse) /\
  shape 2 3 (mat_of SE2_jacobian_self_oplus_point_wrt_self__R2) /\ shape 2 2 (mat_of SE2_jacobian_self_oplus_point_wrt_point__R2).
Proof. unfold shape. repeat split; try reflexivity; repeat constructor. Qed.
Lemma SE2_boxplus_jac_tan : tangent_ok SE2_boxplus (mat_of SE2_jacobian_boxplus) 6 3 3.
Proof. tan_ring. Qed.
