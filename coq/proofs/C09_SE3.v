(* C09 for PoseSE3: the translated code (GenSE3) against the independent specification Spec.v. *)
From Coq Require Import Reals List Lra ZArith Lia.
From GS Require Import ExprR LinAlg Meth MethR Spec GenSE3 C10_SE3 C10_SE3_boxplus.
Import ListNotations.
Open Scope R_scope.

Ltac rl := cbv - [Rplus Rmult Rminus Ropp Rdiv Rinv sqrt IZR pow]; repeat (f_equal; try ring).
Definition unitq (p : list R) : Prop := qnorm2 (quat3 p) = 1.

(* oplus is the specification's composition (translation through the rotation q v conj q needs |qa| = 1;
   the quaternion part is the Hamilton product for all reals) *)
Lemma SE3_oplus_spec a b : length a = 7%nat -> length b = 7%nat -> unitq a ->
  evl (a ++ b) SE3_oplus = spec_oplus3 a b.
Proof.
  intros Ha Hb Hu. list_len a Ha. list_len b Hb. unfold unitq in Hu. cbv in Hu.
  assert (Hw : x5 * x5 = 1 - x2 * x2 - x3 * x3 - x4 * x4) by lra.
  cbv - [Rplus Rmult Rminus Ropp Rdiv Rinv sqrt IZR pow]. repeat (f_equal; try ring [Hw]).
Qed.
Lemma SE3_oplus_quat a b : length a = 7%nat -> length b = 7%nat ->
  skipn 3 (evl (a ++ b) SE3_oplus) = qmul (quat3 a) (quat3 b).
Proof. intros Ha Hb. list_len a Ha. list_len b Hb. rl. Qed.

(* to_matrix is the homogeneous matrix of the specification, for every quaternion *)
Lemma SE3_to_matrix_spec a : length a = 7%nat -> evm a (mat_of SE3_to_matrix) = hom3 a.
Proof. intros Ha. list_len a Ha. rl. Qed.

(* (+) corresponds to the product of homogeneous matrices *)
Lemma SE3_mat_oplus a b : length a = 7%nat -> length b = 7%nat -> unitq a ->
  hom3 (evl (a ++ b) SE3_oplus) = mmul (hom3 a) (hom3 b).
Proof.
  intros Ha Hb Hu. list_len a Ha. list_len b Hb. unfold unitq in Hu. cbv in Hu.
  assert (Hw : x5 * x5 = 1 - x2 * x2 - x3 * x3 - x4 * x4) by lra.
  cbv - [Rplus Rmult Rminus Ropp Rdiv Rinv sqrt IZR pow]. repeat (f_equal; try ring [Hw]).
Qed.

(* a (-) b = b^-1 (+) a : a polynomial identity, no unit-norm hypothesis *)
Lemma SE3_ominus_def a b : length a = 7%nat -> length b = 7%nat ->
  evl (a ++ b) SE3_ominus = evl (evl b SE3_inv ++ a) SE3_oplus.
Proof. intros Ha Hb. list_len a Ha. list_len b Hb. rl. Qed.

Lemma SE3_inverse_spec a : length a = 7%nat -> unitq a -> evl a SE3_inv = spec_inv3 a.
Proof.
  intros Ha Hu. list_len a Ha. unfold unitq in Hu. cbv in Hu.
  assert (Hw : x5 * x5 = 1 - x2 * x2 - x3 * x3 - x4 * x4) by lra.
  cbv - [Rplus Rmult Rminus Ropp Rdiv Rinv sqrt IZR pow]. repeat (f_equal; try ring [Hw]).
Qed.
Lemma SE3_inverse_right a : length a = 7%nat -> unitq a -> evl (a ++ evl a SE3_inv) SE3_oplus = ident3.
Proof.
  intros Ha Hu. list_len a Ha. unfold unitq in Hu. cbv in Hu.
  assert (Hw : x5 * x5 = 1 - x2 * x2 - x3 * x3 - x4 * x4) by lra.
  cbv - [Rplus Rmult Rminus Ropp Rdiv Rinv sqrt IZR pow]. repeat (f_equal; try ring [Hw]).
Qed.
Lemma SE3_inverse_left a : length a = 7%nat -> unitq a -> evl (evl a SE3_inv ++ a) SE3_oplus = ident3.
Proof.
  intros Ha Hu. list_len a Ha. unfold unitq in Hu. cbv in Hu.
  assert (Hw : x5 * x5 = 1 - x2 * x2 - x3 * x3 - x4 * x4) by lra.
  cbv - [Rplus Rmult Rminus Ropp Rdiv Rinv sqrt IZR pow]. repeat (f_equal; try ring [Hw]).
Qed.
Lemma SE3_identity_is : evl [] (vec_of SE3_identity) = ident3.
Proof. rl. Qed.
Lemma SE3_identity_right a : length a = 7%nat -> evl (a ++ ident3) SE3_oplus = a.
Proof. intros Ha. list_len a Ha. rl. Qed.
Lemma SE3_identity_left a : length a = 7%nat -> evl (ident3 ++ a) SE3_oplus = a.
Proof. intros Ha. list_len a Ha. rl. Qed.

Lemma SE3_assoc a b c : length a = 7%nat -> length b = 7%nat -> length c = 7%nat -> unitq a -> unitq b ->
  evl (evl (a ++ b) SE3_oplus ++ c) SE3_oplus = evl (a ++ evl (b ++ c) SE3_oplus) SE3_oplus.
Proof.
  intros Ha Hb Hc Hua Hub. list_len a Ha. list_len b Hb. list_len c Hc.
  unfold unitq in *. cbv in Hua, Hub.
  assert (Hwa : x5 * x5 = 1 - x2 * x2 - x3 * x3 - x4 * x4) by lra.
  assert (Hwb : x12 * x12 = 1 - x9 * x9 - x10 * x10 - x11 * x11) by lra.
  cbv - [Rplus Rmult Rminus Ropp Rdiv Rinv sqrt IZR pow]. repeat (f_equal; try ring [Hwa Hwb]).
Qed.

(* pose (+) point is the action of the transform on the point *)
Lemma SE3_point_action a x : length a = 7%nat -> length x = 3%nat -> unitq a ->
  evl (a ++ x) SE3_oplus_point = spec_act3 a x.
Proof.
  intros Ha Hx Hu. list_len a Ha. list_len x Hx. unfold unitq in Hu. cbv in Hu.
  assert (Hw : x6 * x6 = 1 - x3 * x3 - x4 * x4 - x5 * x5) by lra.
  cbv - [Rplus Rmult Rminus Ropp Rdiv Rinv sqrt IZR pow]. repeat (f_equal; try ring [Hw]).
Qed.

(* boxplus: p [+] d = p (+) (the pose whose compact form is d) when the rotational part has norm <= 1,
   and p (+) (d_t, identity rotation) otherwise (that is what the code does) *)
Definition from_compact3 (d : list R) : list R :=
  d ++ [sqrt (1 - ((nth 3 d 0)^2 + (nth 4 d 0)^2 + (nth 5 d 0)^2))].
Lemma SE3_boxplus_def s d : length s = 7%nat -> length d = 6%nat ->
  (nth 3 d 0)^2 + (nth 4 d 0)^2 + (nth 5 d 0)^2 <= 1 ->
  SE3_boxplus_fun s d = evl (s ++ from_compact3 d) SE3_oplus.
Proof.
  intros Hs Hd Hn. rewrite SE3_boxplus_small_taken; auto.
  rewrite <- (simp_sound_l (s ++ d)).
  list_len s Hs. list_len d Hd. rl.
Qed.
Lemma SE3_boxplus_def_large s d : length s = 7%nat -> length d = 6%nat ->
  1 < (nth 3 d 0)^2 + (nth 4 d 0)^2 + (nth 5 d 0)^2 ->
  SE3_boxplus_fun s d = evl (s ++ (firstn 3 d ++ [0;0;0;1])) SE3_oplus.
Proof.
  intros Hs Hd Hn. rewrite SE3_boxplus_large_taken; auto.
  list_len s Hs. list_len d Hd. rl.
Qed.

(* __iadd__ is (+), and the dispatch facts the edges rely on *)
Lemma SE3_iadd_def : SE3_iadd__SE3 = SE3_add__SE3 /\ SE3_iadd__arr6 = SE3_add__arr6 /\ SE3_iadd__R3 = SE3_add__R3.
Proof. repeat split; reflexivity. Qed.
Lemma SE3_dispatch :
  kind_of (SE3_add KSE3) = KSE3 /\ kind_of (SE3_add KR3) = KR3 /\ kind_of (SE3_add (KArr 3)) = KR3 /\
  kind_of (SE3_sub KSE3) = KSE3 /\ kind_of SE3_inverse = KSE3 /\
  raises (SE3_add KR2) = Some NotImplementedError /\ raises (SE3_add (KArr 7)) = Some NotImplementedError.
Proof. repeat split; reflexivity. Qed.
