(* C07_whole.v — frame independence of one Gauss-Newton step for WHOLE SE(3) / SE(2) graphs of odometry and landmark edges.

   A graph is a list of edge descriptions (which vertex positions, the information matrix, and the numbers the regenerated edge
   programs are run on: the poses of the two vertices, the measurement, the sensor offset).  [rec3 d] / [rec2 d] is the record of
   lib/GraphModel.v built from what the regenerated programs return; [move3 T] / [move2 T] transforms every pose by T (+) . and
   every landmark by T . ; nothing else changes.  Theorems [C07_graph_SE3] / [C07_graph_SE2]:

        if d solves the normal equations of the graph, then  P d  solves those of the transformed graph,

   where P leaves the increment of a pose vertex alone and rotates the increment of a landmark vertex by R_T -- for every graph
   (any number of vertices and edges, any fixed set, any information matrices), every T, every solution d.  Together with
   the equivariance of the update (the C07_boxplus theorems) this is one step of [trajectory2_equivariant]. *)
From Coq Require Import Reals List Arith Bool Lra ZArith Lia.
From Coquelicot Require Import Coquelicot.
From GS Require Import ExprR LinAlg Meth MethR Prog Chain Wrap Spec GenR2 GenR3 GenSE2 GenSE3 GenEdges
  C10_SE3 C10_SE3_boxplus C10_SE2 C10_Rn C09_SE3 C09_SE2 C11_main C01_SE3 C01_Rn C01_SE2 C02_model C07_errors C07_equiv C07_lmk
  GraphModel GNSpec C03_sums C03_index C03_accumulate C04_blocks C06_main C07_jac2 C07_basis C07_glue C07_ext C07_inst.
Import ListNotations.
Open Scope R_scope.

(* ---------------------------------------------------------------- SE(3) *)
Inductive edesc3 : Type :=
| Odo3 (ka kb : nat) (Om : list (list R)) (p1 p2 z : list R)
| Lmk3 (kp kl : nat) (Om : list (list R)) (p l z off : list R).
Definition rec3 (d : edesc3) : Redge :=
  match d with Odo3 ka kb Om p1 p2 z => odo3_rec ka kb Om p1 p2 z | Lmk3 kp kl Om p l z off => lmk3_rec kp kl Om p l z off end.
Definition move3 (T : list R) (d : edesc3) : edesc3 :=
  match d with
  | Odo3 ka kb Om p1 p2 z => Odo3 ka kb Om (comp3 T p1) (comp3 T p2) z
  | Lmk3 kp kl Om p l z off => Lmk3 kp kl Om (comp3 T p) (act3 T l) z off
  end.
(* the description fits the vertex list: pose vertices have 6 tangent coordinates, landmarks 3; [lm k] says which positions are landmarks *)
Definition ok3 (vs : list vertex) (lm : nat -> bool) (d : edesc3) : Prop :=
  match d with
  | Odo3 ka kb Om p1 p2 z => length p1 = 7%nat /\ length p2 = 7%nat /\ length z = 7%nat /\ unitq p1 /\ unitq p2 /\
                              dim_at vs ka = 6%nat /\ dim_at vs kb = 6%nat /\ lm ka = false /\ lm kb = false
  | Lmk3 kp kl Om p l z off => length p = 7%nat /\ length l = 3%nat /\ length z = 3%nat /\ length off = 7%nat /\ unitq p /\ unitq off /\
                                dim_at vs kp = 6%nat /\ dim_at vs kl = 3%nat /\ lm kp = false /\ lm kl = true
  end.
Definition Q3 (lm : nat -> bool) (T : list R) : blocks :=
  fun k m j => if lm k then nth j (nth m (Rm3 (evl T SE3_inv)) []) 0 else ind (Nat.eqb m j).
Definition P3 (lm : nat -> bool) (T : list R) : blocks :=
  fun k m j => if lm k then nth j (nth m (Rm3 T) []) 0 else ind (Nat.eqb m j).

Lemma rec3_rebased vs lm T d : length T = 7%nat -> unitq T -> ok3 vs lm d ->
  edge_sim (tb_edge vs (Q3 lm T) (rec3 d)) (rec3 (move3 T d)).
Proof.
  intros HT UT Hok. destruct d as [ka kb Om p1 p2 z | kp kl Om p l z off]; cbn [rec3 move3 ok3] in *.
  - destruct Hok as (H1 & H2 & Hz & U1 & U2 & Da & Db & La & Lb).
    apply odo3_edge_rebased; try assumption; intros m j; unfold Q3; [rewrite La | rewrite Lb]; reflexivity.
  - destruct Hok as (Hp & Hl & Hz & Ho & Up & Uo & Dp & Dl & Lp & Ll).
    apply lmk3_edge_rebased; try assumption; intros m j; unfold Q3; [rewrite Lp | rewrite Ll]; reflexivity.
Qed.

(* R_{T^-1} R_T = I entry by entry *)
Lemma Rm3_inverse_entries T : length T = 7%nat -> unitq T -> forall i m, (i < 3)%nat -> (m < 3)%nat ->
  sumnR 3 (fun j => nth j (nth i (Rm3 (evl T SE3_inv)) []) 0 * nth m (nth j (Rm3 T) []) 0) = ind (Nat.eqb i m).
Proof.
  intros HT UT i m Hi Hm.
  assert (LTi : length (evl T SE3_inv) = 7%nat) by reflexivity.
  destruct (rot3_inverse T (basis 3 m) HT (basis_len 3 m) UT) as (_ & Hinv).
  assert (E : nth i (rot3 (evl T SE3_inv) (rot3 T (basis 3 m))) 0 = nth i (basis 3 m) 0) by (rewrite Hinv; reflexivity).
  rewrite <- (Rm3_spec T (basis 3 m) HT (basis_len 3 m)) in E.
  assert (Lmv : length (matvec (Rm3 T) (basis 3 m)) = 3%nat) by (unfold matvec; rewrite map_length; reflexivity).
  rewrite <- (Rm3_spec (evl T SE3_inv) _ LTi Lmv) in E.
  rewrite nth_matvec in E.
  assert (Lrow : length (nth i (Rm3 (evl T SE3_inv)) []) = 3%nat) by (destruct i as [|[|[|i]]]; [reflexivity | reflexivity | reflexivity | lia]).
  rewrite dotR_sumn_from in E by (rewrite Lmv, Lrow; reflexivity).
  rewrite Lrow in E. rewrite (nth_basis 3 m i Hi) in E.
  unfold ind. rewrite <- E. apply sumn_ext. intros j Hj. f_equal.
  rewrite nth_matvec.
  assert (Lrj : length (nth j (Rm3 T) []) = 3%nat) by (destruct j as [|[|[|j]]]; [reflexivity | reflexivity | reflexivity | lia]).
  replace (basis 3 m) with (basis (length (nth j (Rm3 T) [])) m) by (rewrite Lrj; reflexivity).
  symmetry. apply dotR_basis. rewrite Lrj. exact Hm.
Qed.

Lemma inverse_blocks3 vs lm T : length T = 7%nat -> unitq T ->
  (forall k, (k < length vs)%nat -> lm k = true -> dim_at vs k = 3%nat) -> inverse_blocks vs (Q3 lm T) (P3 lm T).
Proof.
  intros HT UT Hdim k i m Hk Hi Hm. unfold Q3, P3. destruct (lm k) eqn:E.
  - rewrite (Hdim k Hk E) in *. apply Rm3_inverse_entries; assumption.
  - rewrite (sumn_ind_pick (dim_at vs k) i (fun j => ind (Nat.eqb j m)) Hi). reflexivity.
Qed.

Theorem C07_graph_SE3 vs lm T ds d :
  length T = 7%nat -> unitq T ->
  (forall k, (k < length vs)%nat -> lm k = true -> dim_at vs k = 3%nat) ->
  List.Forall (ok3 vs lm) ds -> wf_graph vs (map rec3 ds) ->
  solves (glen vs) (spec_H vs (map rec3 ds)) (spec_b vs (map rec3 ds)) d ->
  solves (glen vs) (spec_H vs (map rec3 (map (move3 T) ds))) (spec_b vs (map rec3 (map (move3 T) ds))) (bmul vs (P3 lm T) d)
  /\ spec_chi2 (map (tb_edge vs (Q3 lm T)) (map rec3 ds)) = spec_chi2 (map rec3 ds).
Proof.
  intros HT UT Hdim Hok Hwf Hs. split; [|apply chi2_tb].
  apply (basis_change_sim vs (map rec3 ds) (map rec3 (map (move3 T) ds)) (Q3 lm T) (P3 lm T) d Hwf (inverse_blocks3 vs lm T HT UT Hdim)); [|exact Hs].
  clear Hwf Hs. induction Hok as [|x ds Hx Hds IH]; cbn [map]; constructor; [|exact IH].
  apply rec3_rebased; assumption.
Qed.

(* ---------------------------------------------------------------- SE(2) *)
Inductive edesc2 : Type :=
| Odo2 (ka kb : nat) (Om : list (list R)) (p1 p2 z : list R)
| Lmk2 (kp kl : nat) (Om : list (list R)) (p l z off : list R).
Definition rec2 (d : edesc2) : Redge :=
  match d with Odo2 ka kb Om p1 p2 z => odo2_rec ka kb Om p1 p2 z | Lmk2 kp kl Om p l z off => lmk2_rec kp kl Om p l z off end.
Definition move2 (T : list R) (d : edesc2) : edesc2 :=
  match d with
  | Odo2 ka kb Om p1 p2 z => Odo2 ka kb Om (comp2 T p1) (comp2 T p2) z
  | Lmk2 kp kl Om p l z off => Lmk2 kp kl Om (comp2 T p) (act2 T l) z off
  end.
Definition ok2 (vs : list vertex) (lm : nat -> bool) (d : edesc2) : Prop :=
  match d with
  | Odo2 ka kb Om p1 p2 z => length p1 = 3%nat /\ length p2 = 3%nat /\ length z = 3%nat /\
                              dim_at vs ka = 3%nat /\ dim_at vs kb = 3%nat /\ lm ka = false /\ lm kb = false
  | Lmk2 kp kl Om p l z off => length p = 3%nat /\ length l = 2%nat /\ length z = 2%nat /\ length off = 3%nat /\
                                dim_at vs kp = 3%nat /\ dim_at vs kl = 2%nat /\ lm kp = false /\ lm kl = true
  end.
Definition Q2 (lm : nat -> bool) (T : list R) : blocks :=
  fun k m j => if lm k then nth j (nth m (Rm2 (evl T SE2_inv)) []) 0 else ind (Nat.eqb m j).
Definition P2 (lm : nat -> bool) (T : list R) : blocks :=
  fun k m j => if lm k then nth j (nth m (Rm2 T) []) 0 else ind (Nat.eqb m j).

Lemma rec2_rebased vs lm T d : length T = 3%nat -> ok2 vs lm d ->
  edge_sim (tb_edge vs (Q2 lm T) (rec2 d)) (rec2 (move2 T d)).
Proof.
  intros HT Hok. destruct d as [ka kb Om p1 p2 z | kp kl Om p l z off]; cbn [rec2 move2 ok2] in *.
  - destruct Hok as (H1 & H2 & Hz & Da & Db & La & Lb).
    apply odo2_edge_rebased; try assumption; intros m j; unfold Q2; [rewrite La | rewrite Lb]; reflexivity.
  - destruct Hok as (Hp & Hl & Hz & Ho & Dp & Dl & Lp & Ll).
    apply lmk2_edge_rebased; try assumption; intros m j; unfold Q2; [rewrite Lp | rewrite Ll]; reflexivity.
Qed.

Lemma Rm2_inverse_entries T : length T = 3%nat -> forall i m, (i < 2)%nat -> (m < 2)%nat ->
  sumnR 2 (fun j => nth j (nth i (Rm2 (evl T SE2_inv)) []) 0 * nth m (nth j (Rm2 T) []) 0) = ind (Nat.eqb i m).
Proof.
  intros HT i m Hi Hm.
  assert (LTi : length (evl T SE2_inv) = 3%nat) by reflexivity.
  destruct (rot2_inverse T (basis 2 m) HT (basis_len 2 m)) as (_ & Hinv).
  assert (E : nth i (rot2 (evl T SE2_inv) (rot2 T (basis 2 m))) 0 = nth i (basis 2 m) 0) by (rewrite Hinv; reflexivity).
  rewrite <- (Rm2_spec T (basis 2 m) HT (basis_len 2 m)) in E.
  assert (Lmv : length (matvec (Rm2 T) (basis 2 m)) = 2%nat) by (unfold matvec; rewrite map_length; reflexivity).
  rewrite <- (Rm2_spec (evl T SE2_inv) _ LTi Lmv) in E.
  rewrite nth_matvec in E.
  assert (Lrow : length (nth i (Rm2 (evl T SE2_inv)) []) = 2%nat) by (destruct i as [|[|i]]; [reflexivity | reflexivity | lia]).
  rewrite dotR_sumn_from in E by (rewrite Lmv, Lrow; reflexivity).
  rewrite Lrow in E. rewrite (nth_basis 2 m i Hi) in E.
  unfold ind. rewrite <- E. apply sumn_ext. intros j Hj. f_equal.
  rewrite nth_matvec.
  assert (Lrj : length (nth j (Rm2 T) []) = 2%nat) by (destruct j as [|[|j]]; [reflexivity | reflexivity | lia]).
  replace (basis 2 m) with (basis (length (nth j (Rm2 T) [])) m) by (rewrite Lrj; reflexivity).
  symmetry. apply dotR_basis. rewrite Lrj. exact Hm.
Qed.

Lemma inverse_blocks2 vs lm T : length T = 3%nat ->
  (forall k, (k < length vs)%nat -> lm k = true -> dim_at vs k = 2%nat) -> inverse_blocks vs (Q2 lm T) (P2 lm T).
Proof.
  intros HT Hdim k i m Hk Hi Hm. unfold Q2, P2. destruct (lm k) eqn:E.
  - rewrite (Hdim k Hk E) in *. apply Rm2_inverse_entries; assumption.
  - rewrite (sumn_ind_pick (dim_at vs k) i (fun j => ind (Nat.eqb j m)) Hi). reflexivity.
Qed.

Theorem C07_graph_SE2 vs lm T ds d :
  length T = 3%nat ->
  (forall k, (k < length vs)%nat -> lm k = true -> dim_at vs k = 2%nat) ->
  List.Forall (ok2 vs lm) ds -> wf_graph vs (map rec2 ds) ->
  solves (glen vs) (spec_H vs (map rec2 ds)) (spec_b vs (map rec2 ds)) d ->
  solves (glen vs) (spec_H vs (map rec2 (map (move2 T) ds))) (spec_b vs (map rec2 (map (move2 T) ds))) (bmul vs (P2 lm T) d)
  /\ spec_chi2 (map (tb_edge vs (Q2 lm T)) (map rec2 ds)) = spec_chi2 (map rec2 ds).
Proof.
  intros HT Hdim Hok Hwf Hs. split; [|apply chi2_tb].
  apply (basis_change_sim vs (map rec2 ds) (map rec2 (map (move2 T) ds)) (Q2 lm T) (P2 lm T) d Hwf (inverse_blocks2 vs lm T HT Hdim)); [|exact Hs].
  clear Hwf Hs. induction Hok as [|x ds Hx Hds IH]; cbn [map]; constructor; [|exact IH].
  apply rec2_rebased; assumption.
Qed.

(* ---------------------------------------------------------------- well-formedness from the description, and a concrete graph *)
Definition symL (Om : list (list R)) : Prop := forall a b, nth b (nth a Om []) 0 = nth a (nth b Om []) 0.
Definition shape3 (vs : list vertex) (d : edesc3) : Prop :=
  match d with
  | Odo3 ka kb Om _ _ _ => (ka < length vs)%nat /\ (kb < length vs)%nat /\ ka <> kb /\ symL Om
  | Lmk3 kp kl Om _ _ _ _ => (kp < length vs)%nat /\ (kl < length vs)%nat /\ symL Om
  end.
Definition shape2 (vs : list vertex) (d : edesc2) : Prop :=
  match d with
  | Odo2 ka kb Om _ _ _ => (ka < length vs)%nat /\ (kb < length vs)%nat /\ ka <> kb /\ symL Om
  | Lmk2 kp kl Om _ _ _ _ => (kp < length vs)%nat /\ (kl < length vs)%nat /\ symL Om
  end.

Lemma wf_rec3 vs lm d : ok3 vs lm d -> shape3 vs d -> wf_edge vs (rec3 d).
Proof.
  intros Hok Hsh. destruct d as [ka kb Om p1 p2 z | kp kl Om p l z off]; cbn [rec3 ok3 shape3] in *.
  - destruct Hok as (H1 & H2 & Hz & U1 & U2 & Da & Db & La & Lb). destruct Hsh as (Ka & Kb & Hne & Hsym).
    assert (Le : length (err_odo3 p1 p2 z) = 6%nat) by (rewrite err_odo3_unfold by assumption; reflexivity).
    unfold wf_edge, odo3_rec. cbn [e_jac e_slots e_err e_om]. unfold vec_of_list, mat_of_list. cbn [fst snd rows cols ent]. rewrite Le.
    split; [reflexivity|]. split; [constructor; [intros [E|[]]; apply Hne; symmetry; exact E | constructor; [intros [] | constructor]]|].
    split; [constructor; [exact Ka | constructor; [exact Kb | constructor]]|].
    split; [reflexivity|]. split; [reflexivity|]. split; [exact Hsym|].
    intros s Hs. cbn [length] in Hs. unfold jac_at, slot_at. cbn [e_jac e_slots].
    destruct s as [|[|s]]; [| |lia]; cbn [nth rows cols]; (split; [reflexivity|]); [rewrite Da | rewrite Db]; reflexivity.
  - destruct Hok as (Hp & Hl & Hz & Ho & Up & Uo & Dp & Dl & Lp & Ll). destruct Hsh as (Kp & Kl & Hsym).
    assert (Hne : kp <> kl) by (intros E; rewrite E in Lp; rewrite Lp in Ll; discriminate).
    assert (Le : length (err_lmk3 p l z off) = 3%nat) by (rewrite err_lmk3_unfold by assumption; reflexivity).
    unfold wf_edge, lmk3_rec. cbn [e_jac e_slots e_err e_om]. unfold vec_of_list, mat_of_list. cbn [fst snd rows cols ent]. rewrite Le.
    split; [reflexivity|]. split; [constructor; [intros [E|[]]; apply Hne; symmetry; exact E | constructor; [intros [] | constructor]]|].
    split; [constructor; [exact Kp | constructor; [exact Kl | constructor]]|].
    split; [reflexivity|]. split; [reflexivity|]. split; [exact Hsym|].
    intros s Hs. cbn [length] in Hs. unfold jac_at, slot_at. cbn [e_jac e_slots].
    destruct s as [|[|s]]; [| |lia]; cbn [nth rows cols]; (split; [reflexivity|]); [rewrite Dp | rewrite Dl]; reflexivity.
Qed.

Lemma wf_rec2 vs lm d : ok2 vs lm d -> shape2 vs d -> wf_edge vs (rec2 d).
Proof.
  intros Hok Hsh. destruct d as [ka kb Om p1 p2 z | kp kl Om p l z off]; cbn [rec2 ok2 shape2] in *.
  - destruct Hok as (H1 & H2 & Hz & Da & Db & La & Lb). destruct Hsh as (Ka & Kb & Hne & Hsym).
    assert (Le : length (err_odo2 p1 p2 z) = 3%nat) by (rewrite err_odo2_unfold by assumption; reflexivity).
    unfold wf_edge, odo2_rec. cbn [e_jac e_slots e_err e_om]. unfold vec_of_list, mat_of_list. cbn [fst snd rows cols ent]. rewrite Le.
    split; [reflexivity|]. split; [constructor; [intros [E|[]]; apply Hne; symmetry; exact E | constructor; [intros [] | constructor]]|].
    split; [constructor; [exact Ka | constructor; [exact Kb | constructor]]|].
    split; [reflexivity|]. split; [reflexivity|]. split; [exact Hsym|].
    intros s Hs. cbn [length] in Hs. unfold jac_at, slot_at. cbn [e_jac e_slots].
    destruct s as [|[|s]]; [| |lia]; cbn [nth rows cols]; (split; [reflexivity|]); [rewrite Da | rewrite Db]; reflexivity.
  - destruct Hok as (Hp & Hl & Hz & Ho & Dp & Dl & Lp & Ll). destruct Hsh as (Kp & Kl & Hsym).
    assert (Hne : kp <> kl) by (intros E; rewrite E in Lp; rewrite Lp in Ll; discriminate).
    assert (Le : length (err_lmk2 p l z off) = 2%nat) by (rewrite err_lmk2_unfold by assumption; reflexivity).
    unfold wf_edge, lmk2_rec. cbn [e_jac e_slots e_err e_om]. unfold vec_of_list, mat_of_list. cbn [fst snd rows cols ent]. rewrite Le.
    split; [reflexivity|]. split; [constructor; [intros [E|[]]; apply Hne; symmetry; exact E | constructor; [intros [] | constructor]]|].
    split; [constructor; [exact Kp | constructor; [exact Kl | constructor]]|].
    split; [reflexivity|]. split; [reflexivity|]. split; [exact Hsym|].
    intros s Hs. cbn [length] in Hs. unfold jac_at, slot_at. cbn [e_jac e_slots].
    destruct s as [|[|s]]; [| |lia]; cbn [nth rows cols]; (split; [reflexivity|]); [rewrite Dp | rewrite Dl]; reflexivity.
Qed.

Lemma wf_graph_of_descr3 vs lm ds : List.Forall (fun v => (0 < v_dim v)%nat) vs ->
  List.Forall (ok3 vs lm) ds -> List.Forall (shape3 vs) ds -> wf_graph vs (map rec3 ds).
Proof.
  intros Hv Hok Hsh. split; [exact Hv|]. rewrite Forall_forall in *. intros e Hin. apply in_map_iff in Hin. destruct Hin as (d & <- & Hd).
  apply (wf_rec3 vs lm d); [apply Hok | apply Hsh]; exact Hd.
Qed.
Lemma wf_graph_of_descr2 vs lm ds : List.Forall (fun v => (0 < v_dim v)%nat) vs ->
  List.Forall (ok2 vs lm) ds -> List.Forall (shape2 vs) ds -> wf_graph vs (map rec2 ds).
Proof.
  intros Hv Hok Hsh. split; [exact Hv|]. rewrite Forall_forall in *. intros e Hin. apply in_map_iff in Hin. destruct Hin as (d & <- & Hd).
  apply (wf_rec2 vs lm d); [apply Hok | apply Hsh]; exact Hd.
Qed.

(* the statement with every hypothesis on the DESCRIPTION of the graph *)
Theorem C07_graph_SE3_descr vs lm T ds d :
  length T = 7%nat -> unitq T -> List.Forall (fun v => (0 < v_dim v)%nat) vs ->
  (forall k, (k < length vs)%nat -> lm k = true -> dim_at vs k = 3%nat) ->
  List.Forall (ok3 vs lm) ds -> List.Forall (shape3 vs) ds ->
  solves (glen vs) (spec_H vs (map rec3 ds)) (spec_b vs (map rec3 ds)) d ->
  solves (glen vs) (spec_H vs (map rec3 (map (move3 T) ds))) (spec_b vs (map rec3 (map (move3 T) ds))) (bmul vs (P3 lm T) d).
Proof.
  intros HT UT Hv Hdim Hok Hsh Hs.
  exact (proj1 (C07_graph_SE3 vs lm T ds d HT UT Hdim Hok (wf_graph_of_descr3 vs lm ds Hv Hok Hsh) Hs)).
Qed.
Theorem C07_graph_SE2_descr vs lm T ds d :
  length T = 3%nat -> List.Forall (fun v => (0 < v_dim v)%nat) vs ->
  (forall k, (k < length vs)%nat -> lm k = true -> dim_at vs k = 2%nat) ->
  List.Forall (ok2 vs lm) ds -> List.Forall (shape2 vs) ds ->
  solves (glen vs) (spec_H vs (map rec2 ds)) (spec_b vs (map rec2 ds)) d ->
  solves (glen vs) (spec_H vs (map rec2 (map (move2 T) ds))) (spec_b vs (map rec2 (map (move2 T) ds))) (bmul vs (P2 lm T) d).
Proof.
  intros HT Hv Hdim Hok Hsh Hs.
  exact (proj1 (C07_graph_SE2 vs lm T ds d HT Hdim Hok (wf_graph_of_descr2 vs lm ds Hv Hok Hsh) Hs)).
Qed.

(* non-vacuity: two SE(3) poses (the first one fixed) and a landmark; one odometry edge and two landmark observations, a quarter turn
   about z with a translation as world transform *)
Definition I6 : list (list R) := map (fun i => map (fun j => if Nat.eqb i j then 1 else 0) (seq 0 6)) (seq 0 6).
Definition I3 : list (list R) := map (fun i => map (fun j => if Nat.eqb i j then 2 else 0) (seq 0 3)) (seq 0 3).
Definition ex_vs : list vertex := [mkvertex 6 true; mkvertex 6 false; mkvertex 3 false].
Definition ex_lm (k : nat) : bool := Nat.eqb k 2.
Definition ex_p0 : list R := [0; 0; 0; 0; 0; 0; 1].
Definition ex_p1 : list R := [1; 2; 0; 3/5; 0; 0; 4/5].
Definition ex_T : list R := [5; -3; 1; 0; 0; 3/5; 4/5].
Definition ex_ds : list edesc3 :=
  [Odo3 0 1 I6 ex_p0 ex_p1 [1; 2; 0; 0; 0; 0; 1];
   Lmk3 0 2 I3 ex_p0 [2; 1; 1] [2; 1; 1/2] [0; 0; 0; 0; 0; 0; 1];
   Lmk3 1 2 I3 ex_p1 [2; 1; 1] [1; 0; 1] [0; 0; 1/10; 0; 3/5; 0; 4/5]].
Lemma symL_I6 : symL I6.
Proof. intros a b. do 7 (destruct a as [|a]; [do 7 (destruct b as [|b]; [reflexivity|]); destruct b; reflexivity|]). do 7 (destruct b as [|b]; [destruct a; reflexivity|]). destruct a, b; reflexivity. Qed.
Lemma symL_I3 : symL I3.
Proof. intros a b. do 4 (destruct a as [|a]; [do 4 (destruct b as [|b]; [reflexivity|]); destruct b; reflexivity|]). do 4 (destruct b as [|b]; [destruct a; reflexivity|]). destruct a, b; reflexivity. Qed.
Example C07_graph_SE3_premises :
  length ex_T = 7%nat /\ unitq ex_T /\ List.Forall (fun v => (0 < v_dim v)%nat) ex_vs /\
  (forall k, (k < length ex_vs)%nat -> ex_lm k = true -> dim_at ex_vs k = 3%nat) /\
  List.Forall (ok3 ex_vs ex_lm) ex_ds /\ List.Forall (shape3 ex_vs) ex_ds.
Proof.
  assert (U : forall x y z w, x * x + y * y + z * z + w * w = 1 -> unitq [0; 0; 0; x; y; z; w]).
  { intros x y z w H. unfold unitq. cbv - [Rplus Rmult Rminus Ropp Rdiv Rinv sqrt IZR pow]. lra. }
  assert (U' : forall a b c x y z w, x * x + y * y + z * z + w * w = 1 -> unitq [a; b; c; x; y; z; w]).
  { intros a b c x y z w H. unfold unitq. cbv - [Rplus Rmult Rminus Ropp Rdiv Rinv sqrt IZR pow]. lra. }
  split; [reflexivity|]. split; [apply U'; lra|].
  split; [repeat constructor|].
  split; [intros k Hk Hl; apply Nat.eqb_eq in Hl; subst k; reflexivity|].
  split.
  - repeat constructor; try reflexivity; try (apply U'; lra).
  - repeat constructor; try (intros E; discriminate E); try exact symL_I6; try exact symL_I3.
Qed.
