(* C04_linear.v — Gauss-Newton on graphs with affine edge errors (lib/LinearSpec.v): one step reaches a
   stationary state, the Hessian is constant, later steps stay, chi2 expands exactly, a stationary
   state is optimal (PSD information) and unique (injective Hessian). *)
From Coq Require Import Reals List Arith Bool Lia Lra.
From GS Require Import GraphModel GNSpec LinearSpec C03_sums C03_index C03_accumulate C03_assembly C06_main
                       C04_blocks C04_shift.
Import ListNotations.
Open Scope R_scope.

(* a solution of the normal equations is zero on the fixed indices *)
Lemma solves_zero_on_fixed : forall vs es dx,
  solves (glen vs) (spec_H vs es) (spec_b vs es) dx -> zero_on_fixed vs dx.
Proof. intros vs es dx Hs r Hr Hf. apply (C06_dx_zero vs es dx r Hr Hf Hs). Qed.

(* ---------- (1) one step ---------- *)
Theorem one_step_holds : one_step_statement.
Proof.
  intros vs es dx Hwf Hs r Hr.
  destruct (is_fixed_index vs r) eqn:Fr.
  - destruct (spec_fixed_rows vs (map (shift_edge vs dx) es) r r Hr Hr Fr) as (B & _ & _). exact B.
  - rewrite (spec_b_shift vs es dx r Hwf (solves_zero_on_fixed vs es dx Hs) Hr Fr).
    rewrite (Hs r Hr). ring.
Qed.

(* ---------- the Hessian does not depend on the state ---------- *)
Theorem hessian_constant_holds : hessian_constant_statement.
Proof.
  intros vs es d r c. unfold spec_H.
  destruct (locate vs r) as [[k i]|]; [|reflexivity].
  destruct (locate vs c) as [[l j]|]; [|reflexivity].
  destruct (fixed_at vs k || fixed_at vs l); [reflexivity|].
  rewrite sumlist_map. apply sumlist_ext. intros e _. reflexivity.
Qed.

(* ---------- (2) later iterations stay ---------- *)
Theorem stays_holds : stays_statement.
Proof.
  intros vs es dx Hb Hs Hinj c Hc. apply (Hinj dx); [|exact Hc].
  intros r Hr. rewrite (Hs r Hr), (Hb r Hr). ring.
Qed.

(* ---------- (3) optimality ---------- *)
Theorem optimal_holds : optimal_statement.
Proof.
  intros vs es d Hwf Hz Hpsd Hb.
  rewrite (expansion_holds vs es d Hwf Hz).
  assert (E0 : sumnR (glen vs) (fun r => spec_b vs es r * d r) = 0).
  { apply sumn_zero. intros r Hr. rewrite (Hb r Hr). ring. }
  rewrite E0.
  match goal with |- _ <= _ + _ + ?Q => assert (HQ : 0 <= Q) end.
  { apply sumlist_nonneg. intros e Hin. rewrite Forall_forall in Hpsd. cbv zeta. apply (Hpsd e Hin). }
  lra.
Qed.

(* ---------- (4) uniqueness ---------- *)
Theorem unique_holds : unique_statement.
Proof.
  intros vs es d Hwf Hz Hb Hb' Hinj c Hc. apply (Hinj d); [|exact Hc].
  intros r Hr. destruct (is_fixed_index vs r) eqn:Fr.
  - transitivity (sumnR (glen vs) (fun c' => ind (Nat.eqb r c') * d c')).
    + apply sumn_ext. intros c' Hc'.
      destruct (spec_fixed_rows vs es r c' Hr Hc' Fr) as (_ & E & _). rewrite E. reflexivity.
    + rewrite (sumn_ind_pick (glen vs) r d Hr). apply (Hz r Hr Fr).
  - pose proof (spec_b_shift vs es d r Hwf Hz Hr Fr) as K.
    rewrite (Hb' r Hr), (Hb r Hr) in K. lra.
Qed.

Theorem linear_all : one_step_statement /\ hessian_constant_statement /\ stays_statement /\
                     expansion_statement /\ optimal_statement /\ unique_statement.
Proof.
  repeat split.
  - exact one_step_holds.
  - exact hessian_constant_holds.
  - exact stays_holds.
  - exact expansion_holds.
  - exact optimal_holds.
  - exact unique_holds.
Qed.
Print Assumptions linear_all.

(* ---------- non-vacuity: two vertices of dimension 2 (the first fixed), one edge with error (1,2),
   identity information, Jacobians -I and I ---------- *)
Definition lin_vs : list vertex := [mkvertex 2 true; mkvertex 2 false].
Definition lin_eye (sgn : R) : Rmat := mkmat R 2 2 (fun a b => if Nat.eqb a b then sgn else 0).
Definition lin_e : Redge :=
  mkedge R [0%nat; 1%nat] (2%nat, fun a => if Nat.eqb a 0 then 1 else 2) (lin_eye 1) [lin_eye (-1); lin_eye 1].
Definition lin_dx : nat -> R := fun c => match c with 2%nat => -1 | 3%nat => -2 | _ => 0 end.

Example lin_wf : wf_graph lin_vs [lin_e].
Proof.
  split.
  - repeat constructor.
  - constructor; [|constructor].
    unfold wf_edge, lin_e. cbn [e_jac e_slots e_err e_om rows cols ent fst snd length lin_vs lin_eye].
    repeat split.
    + repeat constructor; simpl; intuition discriminate.
    + repeat constructor.
    + intros a b. rewrite Nat.eqb_sym. reflexivity.
    + destruct s as [|[|s]]; [reflexivity|reflexivity|simpl in H; lia].
    + destruct s as [|[|s]]; [reflexivity|reflexivity|simpl in H; lia].
Qed.

Example lin_solves : solves (glen lin_vs) (spec_H lin_vs [lin_e]) (spec_b lin_vs [lin_e]) lin_dx.
Proof.
  intros r Hr. change (glen lin_vs) with 4%nat in *.
  destruct r as [|[|[|[|r]]]]; [| | | |lia];
    unfold spec_H, spec_b, sumlist; cbn; lra.
Qed.

Example lin_psd : Forall psd_edge [lin_e].
Proof.
  constructor; [|constructor]. intros v. cbn.
  pose proof (Rle_0_sqr (v 0%nat)) as H0. pose proof (Rle_0_sqr (v 1%nat)) as H1.
  unfold Rsqr in H0, H1. lra.
Qed.

(* all hypotheses of one_step / expansion / optimal are met by this graph, and the step lands on a
   state with zero gradient *)
Example lin_one_step : forall r, (r < glen lin_vs)%nat ->
  spec_b lin_vs (map (shift_edge lin_vs lin_dx) [lin_e]) r = 0.
Proof. apply (one_step_holds lin_vs [lin_e] lin_dx lin_wf lin_solves). Qed.

(* its Hessian is the identity, so the injectivity hypothesis of stays / unique is satisfiable too *)
Example lin_injective : forall x,
  (forall r, (r < glen lin_vs)%nat -> sumnR (glen lin_vs) (fun c => spec_H lin_vs [lin_e] r c * x c) = 0) ->
  forall c, (c < glen lin_vs)%nat -> x c = 0.
Proof.
  intros x Hx c Hc. specialize (Hx c Hc). change (glen lin_vs) with 4%nat in *.
  destruct c as [|[|[|[|c]]]]; [| | | |lia];
    unfold spec_H, sumlist in Hx; cbn in Hx; lra.
Qed.
