(* C07_traj2.v — trajectory equivariance when the increments themselves are transformed (landmark
   vertices: d' = R_T d).  The solver is NOT a function of an invariant linearisation here; it is any
   map returning A solution of the normal equations, and the transformed system has at most one. *)
From Coq Require Import Reals List Arith Lia.
Import ListNotations.
Open Scope R_scope.

Section Trajectory2.
  Variable P : Type.
  Variable tr : nat -> P -> P.                       (* vertex k: T (+) pose, or T . landmark *)
  Variable dmap : nat -> list R -> list R.           (* vertex k: identity for poses, R_T for landmarks *)
  Variable good : list P -> Prop.                    (* e.g. unit quaternions; preserved by the step *)
  Variable sol : list P -> (nat -> list R) -> Prop.  (* dx solves the normal equations linearised at the state *)
  Variable solve : list P -> nat -> list R.          (* the solver *)
  Variable bp : nat -> P -> list R -> P.             (* boxplus of vertex k *)
  Definition trs (ps : list P) : list P := map (fun kp => tr (fst kp) (snd kp)) (combine (seq 0 (length ps)) ps).
  Definition step2 (ps : list P) : list P :=
    map (fun kp => bp (fst kp) (snd kp) (solve ps (fst kp))) (combine (seq 0 (length ps)) ps).
  Hypothesis solver_ok : forall ps, sol ps (solve ps).
  Hypothesis sol_equiv : forall ps dx, good ps -> sol ps dx -> sol (trs ps) (fun k => dmap k (dx k)).
  Hypothesis sol_unique : forall ps d1 d2, good ps -> sol (trs ps) d1 -> sol (trs ps) d2 -> forall k, (k < length ps)%nat -> d1 k = d2 k.
  Hypothesis bp_equiv : forall k p d, bp k (tr k p) (dmap k d) = tr k (bp k p d).
  Hypothesis good_step : forall ps, good ps -> good (step2 ps).

  Lemma trs_length ps : length (trs ps) = length ps.
  Proof. unfold trs. rewrite map_length, combine_length, seq_length. lia. Qed.
  Lemma step2_length ps : length (step2 ps) = length ps.
  Proof. unfold step2. rewrite map_length, combine_length, seq_length. lia. Qed.
  Lemma nth_indexed {A B} (f : nat * A -> B) (l : list A) k (da : A) (db : B) : (k < length l)%nat ->
    nth k (map f (combine (seq 0 (length l)) l)) db = f (k, nth k l da).
  Proof.
    intros Hk. rewrite (nth_indep _ db (f (0%nat, da))) by (rewrite map_length, combine_length, seq_length; lia).
    rewrite (map_nth f). rewrite combine_nth by (rewrite seq_length; reflexivity).
    rewrite seq_nth by exact Hk. reflexivity.
  Qed.
  Lemma nth_trs l k d : (k < length l)%nat -> nth k (trs l) d = tr k (nth k l d).
  Proof. intros Hk. unfold trs. rewrite (nth_indexed _ l k d d Hk). reflexivity. Qed.
  Lemma nth_step2 l k d : (k < length l)%nat -> nth k (step2 l) d = bp k (nth k l d) (solve l k).
  Proof. intros Hk. unfold step2. rewrite (nth_indexed _ l k d d Hk). reflexivity. Qed.
  Lemma step2_equivariant ps : good ps -> step2 (trs ps) = trs (step2 ps).
  Proof.
    intros Hg.
    destruct ps as [|p0 ps']; [reflexivity|]. set (ps := p0 :: ps') in *.
    apply (nth_ext _ _ p0 p0).
    - rewrite step2_length, !trs_length, step2_length. reflexivity.
    - intros k Hk. rewrite step2_length, trs_length in Hk.
      rewrite nth_step2 by (rewrite trs_length; exact Hk).
      rewrite (nth_trs (step2 ps)) by (rewrite step2_length; exact Hk).
      rewrite nth_trs by exact Hk. rewrite nth_step2 by exact Hk.
      rewrite <- bp_equiv. f_equal.
      apply (sol_unique ps _ _ Hg (solver_ok (trs ps)) (sol_equiv ps (solve ps) Hg (solver_ok ps)) k Hk).
  Qed.
  Theorem trajectory2_equivariant n ps : good ps -> Nat.iter n step2 (trs ps) = trs (Nat.iter n step2 ps).
  Proof.
    intros Hg. induction n as [|n IH]; [reflexivity|]. simpl. rewrite IH. apply step2_equivariant.
    clear IH. induction n as [|n IHn]; simpl; auto.
  Qed.
End Trajectory2.
