(* C08 (pose level): adding multiples of 2 pi to SE(2) angles; negating SE(3) unit quaternions. *)
From Coq Require Import Reals List Lra ZArith Lia.
From GS Require Import ExprR LinAlg Meth MethR Prog Chain Wrap Spec Chi2 GenR2 GenR3 GenSE2 GenSE3 GenEdges GenChi2
  C10_SE3 C10_SE3_boxplus C10_SE2 C10_Rn C09_SE3 C09_SE2 C11_main C01_SE3 C01_Rn C01_SE2 C02_odo3 C02_model C02_chi2 C02_zero.
Import ListNotations.
Open Scope R_scope.
Ltac cb0 := cbv - [Rplus Rmult Rminus Ropp Rdiv Rinv sqrt IZR pow sin cos PI rmod].

(* the constructor stores the same pose for theta and theta + 2 k pi *)
Theorem C08_two_pi x y th (k : Z) : evl [x; y; th + 2 * PI * IZR k] (vec_of SE2_new) = evl [x; y; th] (vec_of SE2_new).
Proof. rewrite !SE2_new_angle. rewrite wrap_shift. reflexivity. Qed.

(* landmark errors are even in the quaternion of the pose and of the offset *)
Theorem C08_quat_sign_landmark p l z off : length p = 7%nat -> length l = 3%nat -> length z = 3%nat -> length off = 7%nat ->
  err_lmk3 (negq p) l z off = err_lmk3 p l z off /\ err_lmk3 p l z (negq off) = err_lmk3 p l z off.
Proof.
  intros H1 H2 H3 H4.
  assert (Ln : forall q, length q = 7%nat -> length (negq q) = 7%nat) by (intros q Hq; list_len q Hq; reflexivity).
  rewrite !err_lmk3_unfold by auto.
  list_len p H1. list_len l H2. list_len z H3. list_len off H4.
  split; cb0; repeat (f_equal; try ring).
Qed.

(* odometry: negating ONE quaternion (of a vertex or of the measurement) maps e to S e, S = diag(I3, -I3) *)
Definition Sflip (e : list R) : list R := firstn 3 e ++ map Ropp (skipn 3 e).
Theorem C08_quat_sign_odometry p1 p2 z : length p1 = 7%nat -> length p2 = 7%nat -> length z = 7%nat ->
  err_odo3 (negq p1) p2 z = Sflip (err_odo3 p1 p2 z) /\
  err_odo3 p1 (negq p2) z = Sflip (err_odo3 p1 p2 z) /\
  err_odo3 p1 p2 (negq z) = Sflip (err_odo3 p1 p2 z).
Proof.
  intros H1 H2 H3.
  assert (Ln : forall q, length q = 7%nat -> length (negq q) = 7%nat) by (intros q Hq; list_len q Hq; reflexivity).
  rewrite !err_odo3_unfold by auto.
  list_len p1 H1. list_len p2 H2. list_len z H3.
  repeat split; cb0; repeat (f_equal; try ring).
Qed.
(* chi2 is unchanged when the information has no translation-rotation cross terms (S Omega S = Omega) *)
Definition blockdiag33 (om : list (list R)) : Prop :=
  forall i j, ((i < 3 /\ 3 <= j < 6) \/ (3 <= i < 6 /\ j < 3))%nat -> nth j (nth i om []) 0 = 0.
Theorem C08_quat_sign_chi2_blockdiag e om : length e = 6%nat -> square_mat 6 om -> blockdiag33 om ->
  quad (Sflip e) om = quad e om.
Proof.
  intros He [Hl Hw] Hb. list_len e He.
  destruct om as [|r0 [|r1 [|r2 [|r3 [|r4 [|r5 [|? ?]]]]]]]; simpl in Hl; try lia.
  inversion Hw as [|? ? L0 Hw1]; subst. inversion Hw1 as [|? ? L1 Hw2]; subst. inversion Hw2 as [|? ? L2 Hw3]; subst.
  inversion Hw3 as [|? ? L3 Hw4]; subst. inversion Hw4 as [|? ? L4 Hw5]; subst. inversion Hw5 as [|? ? L5 _]; subst.
  list_len r0 L0. list_len r1 L1. list_len r2 L2. list_len r3 L3. list_len r4 L4. list_len r5 L5.
  pose proof (Hb 0 3)%nat as B03. pose proof (Hb 0 4)%nat as B04. pose proof (Hb 0 5)%nat as B05.
  pose proof (Hb 1 3)%nat as B13. pose proof (Hb 1 4)%nat as B14. pose proof (Hb 1 5)%nat as B15.
  pose proof (Hb 2 3)%nat as B23. pose proof (Hb 2 4)%nat as B24. pose proof (Hb 2 5)%nat as B25.
  pose proof (Hb 3 0)%nat as B30. pose proof (Hb 3 1)%nat as B31. pose proof (Hb 3 2)%nat as B32.
  pose proof (Hb 4 0)%nat as B40. pose proof (Hb 4 1)%nat as B41. pose proof (Hb 4 2)%nat as B42.
  pose proof (Hb 5 0)%nat as B50. pose proof (Hb 5 1)%nat as B51. pose proof (Hb 5 2)%nat as B52.
  cbn [nth] in *.
  rewrite B03, B04, B05, B13, B14, B15, B23, B24, B25, B30, B31, B32, B40, B41, B42, B50, B51, B52 by lia.
  cbv - [Rplus Rmult Rminus Ropp Rdiv Rinv sqrt IZR pow]. ring.
Qed.
(* REFUTED in general: with a translation-rotation cross term the chi2 of the same physical graph
   depends on the sign chosen for a quaternion *)
Theorem C08_quat_sign_refuted :
  exists e om, length e = 6%nat /\ square_mat 6 om /\ (forall v, length v = 6%nat -> 0 <= quad v om) /\
               (forall i j, nth j (nth i om []) 0 = nth i (nth j om []) 0) /\
               quad (Sflip e) om <> quad e om.
Proof.
  exists [1;0;0;1;0;0].
  exists [[1;0;0;1/2;0;0];[0;1;0;0;0;0];[0;0;1;0;0;0];[1/2;0;0;1;0;0];[0;0;0;0;1;0];[0;0;0;0;0;1]].
  split; [reflexivity|]. split; [split; [reflexivity | repeat constructor]|]. split; [|split].
  - intros v Hv. list_len v Hv. cbv - [Rplus Rmult Rminus Ropp Rdiv Rinv sqrt IZR pow Rle]. nra.
  - intros i j. do 7 (destruct i as [|i]; [do 7 (destruct j as [|j]; [cbn; lra|]); destruct j; cbn; lra|]).
    destruct i; do 7 (destruct j as [|j]; [cbn; lra|]); destruct j; cbn; lra.
  - cbv - [Rplus Rmult Rminus Ropp Rdiv Rinv sqrt IZR pow]. lra.
Qed.
