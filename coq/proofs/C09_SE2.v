(* C09 for PoseSE2 and PoseR2/PoseR3: the translated code against the specification Spec.v. *)
From Coq Require Import Reals List Lra ZArith Lia.
From GS Require Import ExprR LinAlg Meth Wrap Spec GenSE2 GenR2 GenR3 C10_SE2 C10_Rn.
Import ListNotations.
Open Scope R_scope.

Ltac cb := cbv - [Rplus Rmult Rminus Ropp Rdiv Rinv sqrt IZR pow sin cos PI rmod].
Ltac fold_wrap :=
  repeat match goal with
  | |- context [rmod (?x + PI) (2 * PI) - PI] => change (rmod (x + PI) (2 * PI) - PI) with (wrap x)
  end.
Ltac trig_norm :=
  repeat rewrite ?cos_wrap, ?sin_wrap, ?cos_plus, ?sin_plus, ?cos_minus, ?sin_minus, ?cos_neg, ?sin_neg.
Ltac rlt := repeat (f_equal; try ring).

Definition in_range (p : list R) : Prop := - PI <= nth 2 p 0 < PI.

Lemma SE2_to_matrix_spec a : length a = 3%nat -> evm a (mat_of SE2_to_matrix) = hom2 a.
Proof. intros Ha. list_len a Ha. cb. rlt. Qed.

Lemma SE2_mat_oplus a b : length a = 3%nat -> length b = 3%nat ->
  hom2 (evl (a ++ b) SE2_oplus) = mmul (hom2 a) (hom2 b).
Proof. intros Ha Hb. list_len a Ha. list_len b Hb. cb. fold_wrap. trig_norm. rlt. Qed.

Lemma SE2_oplus_angle a b : length a = 3%nat -> length b = 3%nat ->
  nth 2 (evl (a ++ b) SE2_oplus) 0 = wrap (nth 2 a 0 + nth 2 b 0).
Proof. intros Ha Hb. list_len a Ha. list_len b Hb. reflexivity. Qed.

Lemma SE2_ominus_def a b : length a = 3%nat -> length b = 3%nat ->
  evl (a ++ b) SE2_ominus = evl (evl b SE2_inv ++ a) SE2_oplus.
Proof.
  intros Ha Hb. list_len a Ha. list_len b Hb. cb. fold_wrap. trig_norm.
  f_equal; [ring | f_equal; [ring | f_equal]].
  rewrite wrap_absorb_plus_l. f_equal. ring.
Qed.

Lemma sc1 t : cos t * cos t = 1 - sin t * sin t.
Proof. pose proof (sin2_cos2 t) as H. unfold Rsqr in H. lra. Qed.

Lemma SE2_inverse_right a : length a = 3%nat -> evl (a ++ evl a SE2_inv) SE2_oplus = ident2.
Proof.
  intros Ha. list_len a Ha. cb. fold_wrap. trig_norm. pose proof (sc1 x1) as Hc.
  f_equal; [ring [Hc] | f_equal; [ring [Hc] | f_equal]].
  rewrite wrap_absorb_plus_r. replace (x1 + - x1) with 0 by ring. apply wrap_id. pose proof PI_RGT_0. lra.
Qed.
Lemma SE2_inverse_left a : length a = 3%nat -> evl (evl a SE2_inv ++ a) SE2_oplus = ident2.
Proof.
  intros Ha. list_len a Ha. cb. fold_wrap. trig_norm. pose proof (sc1 x1) as Hc.
  f_equal; [ring [Hc] | f_equal; [ring [Hc] | f_equal]].
  rewrite wrap_absorb_plus_l. replace (- x1 + x1) with 0 by ring. apply wrap_id. pose proof PI_RGT_0. lra.
Qed.
Lemma SE2_identity_is : evl [] (vec_of SE2_identity) = ident2.
Proof. cb. fold_wrap. f_equal. f_equal. f_equal. apply wrap_id. pose proof PI_RGT_0. simpl. lra. Qed.
Lemma SE2_identity_right a : length a = 3%nat -> in_range a -> evl (a ++ ident2) SE2_oplus = a.
Proof.
  intros Ha Hr. list_len a Ha. unfold in_range in Hr. simpl in Hr. cb. fold_wrap.
  f_equal; [ring | f_equal; [ring | f_equal]]. replace (x1 + 0) with x1 by ring. apply wrap_id; auto.
Qed.
Lemma SE2_identity_left a : length a = 3%nat -> in_range a -> evl (ident2 ++ a) SE2_oplus = a.
Proof.
  intros Ha Hr. list_len a Ha. unfold in_range in Hr. simpl in Hr. cb. fold_wrap. rewrite cos_0, sin_0.
  f_equal; [ring | f_equal; [ring | f_equal]]. replace (0 + x1) with x1 by ring. apply wrap_id; auto.
Qed.
Lemma SE2_assoc a b c : length a = 3%nat -> length b = 3%nat -> length c = 3%nat ->
  evl (evl (a ++ b) SE2_oplus ++ c) SE2_oplus = evl (a ++ evl (b ++ c) SE2_oplus) SE2_oplus.
Proof.
  intros Ha Hb Hc. list_len a Ha. list_len b Hb. list_len c Hc. cb. fold_wrap. trig_norm.
  f_equal; [ring | f_equal; [ring | f_equal]].
  rewrite wrap_absorb_plus_l, wrap_absorb_plus_r. f_equal. ring.
Qed.
Lemma SE2_point_action a v : length a = 3%nat -> length v = 2%nat ->
  evl (a ++ v) SE2_oplus_point = spec_act2 a v.
Proof. intros Ha Hv. list_len a Ha. list_len v Hv. cb. rlt. Qed.
(* every SE(2) pose produced by an operation has its angle in [-pi, pi) *)
Lemma SE2_results_in_range a b : length a = 3%nat -> length b = 3%nat ->
  in_range (evl (a ++ b) SE2_oplus) /\ in_range (evl (a ++ b) SE2_ominus) /\ in_range (evl a SE2_inv).
Proof.
  intros Ha Hb. list_len a Ha. list_len b Hb. unfold in_range. cb. fold_wrap.
  repeat split; apply wrap_range.
Qed.
(* boxplus is (+) with the pose whose compact form is delta (for SE(2) the compact form is the pose) *)
Lemma SE2_boxplus_def : SE2_add__arr3 = SE2_add__SE2 /\ SE2_iadd__SE2 = SE2_add__SE2 /\ SE2_iadd__arr3 = SE2_add__arr3
  /\ SE2_iadd__R2 = SE2_add__R2.
Proof. repeat split; reflexivity. Qed.
Lemma SE2_dispatch :
  kind_of (SE2_add KSE2) = KSE2 /\ kind_of (SE2_add KR2) = KR2 /\ kind_of (SE2_add (KArr 2)) = KR2 /\
  kind_of (SE2_add (KArr 3)) = KSE2 /\ kind_of (SE2_sub KSE2) = KSE2 /\ kind_of SE2_inverse = KSE2 /\
  raises (SE2_add KSE3) = Some NotImplementedError.
Proof. repeat split; reflexivity. Qed.

(* R^2 / R^3: the translation group *)
Lemma Rn_group a b c :
  (length a = 2%nat -> length b = 2%nat -> length c = 2%nat ->
     evl (a ++ b) R2_oplus = vadd a b /\
     evl (a ++ b) R2_ominus = evl (evl b R2_inv ++ a) R2_oplus /\
     evl (a ++ evl a R2_inv) R2_oplus = [0;0] /\ evl (evl a R2_inv ++ a) R2_oplus = [0;0] /\
     evl (a ++ [0;0]) R2_oplus = a /\ evl ([0;0] ++ a) R2_oplus = a /\
     evl (evl (a ++ b) R2_oplus ++ c) R2_oplus = evl (a ++ evl (b ++ c) R2_oplus) R2_oplus /\
     evl (a ++ b) R2_boxplus = evl (a ++ b) R2_oplus) /\
  (length a = 3%nat -> length b = 3%nat -> length c = 3%nat ->
     evl (a ++ b) R3_oplus = vadd a b /\
     evl (a ++ b) R3_ominus = evl (evl b R3_inv ++ a) R3_oplus /\
     evl (a ++ evl a R3_inv) R3_oplus = [0;0;0] /\ evl (evl a R3_inv ++ a) R3_oplus = [0;0;0] /\
     evl (a ++ [0;0;0]) R3_oplus = a /\ evl ([0;0;0] ++ a) R3_oplus = a /\
     evl (evl (a ++ b) R3_oplus ++ c) R3_oplus = evl (a ++ evl (b ++ c) R3_oplus) R3_oplus /\
     evl (a ++ b) R3_boxplus = evl (a ++ b) R3_oplus).
Proof.
  split; intros Ha Hb Hc; list_len a Ha; list_len b Hb; list_len c Hc; repeat split; cb; rlt.
Qed.
Lemma Rn_identity_is : evl [] (vec_of R2_identity) = [0;0] /\ evl [] (vec_of R3_identity) = [0;0;0].
Proof. split; cb; rlt. Qed.
