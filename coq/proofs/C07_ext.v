(* C07_ext.v — the last renaming step of C07.

   [basis_change_inv] (C07_basis.v) speaks about the edge list  map (tb_edge vs Q) es  literally.  The edge records of the
   TRANSFORMED graph are not syntactically of that form: they are built from the list-matrices that the regenerated edge
   programs return at the transformed poses.  They agree with the re-based records entry by entry INSIDE the matrix bounds
   (C07_glue.v) and nothing is known outside.  This file shows that the normal equations only ever read entries inside the
   bounds of a well-formed graph, so "entry-wise equal within bounds" ([edge_sim]) is enough:

     [spec_b_sim], [spec_H_sim]   the gradient / Hessian of two entry-wise equal graphs coincide at every index;
     [basis_change_sim]           every solution d of the original system gives the solution P d of ANY graph that is entry-wise
                                  equal to the re-based graph;
     [lmk3_edge_rebased], [lmk2_edge_rebased]
                                  the record built from the regenerated SE(3) / SE(2) landmark program at the transformed poses
                                  IS entry-wise the re-based record of the one at the original poses, with the identity block at
                                  the pose vertex and the rotation block of T^-1 at the landmark vertex. *)
From Coq Require Import Reals List Arith Bool Lia Lra.
From GS Require Import GraphModel GNSpec C03_sums C03_index C03_accumulate C07_basis.
Import ListNotations.
Open Scope R_scope.

Definition edge_sim (e e' : Redge) : Prop :=
  e_slots R e' = e_slots R e /\
  fst (e_err R e') = fst (e_err R e) /\
  (forall a, (a < fst (e_err R e))%nat -> snd (e_err R e') a = snd (e_err R e) a) /\
  rows R (e_om R e') = rows R (e_om R e) /\ cols R (e_om R e') = cols R (e_om R e) /\
  (forall a b, (a < rows R (e_om R e))%nat -> (b < cols R (e_om R e))%nat -> ent R (e_om R e') a b = ent R (e_om R e) a b) /\
  (forall s, (s < length (e_slots R e))%nat ->
     rows R (jacR e' s) = rows R (jacR e s) /\ cols R (jacR e' s) = cols R (jacR e s) /\
     forall a j, (a < rows R (jacR e s))%nat -> (j < cols R (jacR e s))%nat -> ent R (jacR e' s) a j = ent R (jacR e s) a j).

Lemma edge_sim_refl e : edge_sim e e.
Proof. unfold edge_sim. repeat split; reflexivity. Qed.

Lemma gblock_sim vs e e' s i : wf_edge vs e -> edge_sim e e' -> (s < length (e_slots R e))%nat ->
  (i < dim_at vs (slotR e s))%nat -> snd (gblock e' s) i = snd (gblock e s) i.
Proof.
  intros (_ & _ & _ & Hro & Hco & _ & Hj) (Es & Ef & Ee & Er & Ec & Eo & EJ) Hs Hi.
  destruct (Hj s Hs) as (HrJ & HcJ). destruct (EJ s Hs) as (ErJ & EcJ & EeJ).
  unfold gblock, vdotm. cbn [fst snd].
  rewrite Ec. apply sumn_ext. intros k Hk. f_equal.
  - rewrite Ef. apply sumn_ext. intros a Ha. f_equal.
    + apply Ee. exact Ha.
    + apply Eo; [rewrite Hro; exact Ha | exact Hk].
  - apply EeJ; [rewrite HrJ, <- Hco; exact Hk | rewrite HcJ; exact Hi].
Qed.

Lemma Cblock_sim vs e e' s t i j : wf_edge vs e -> edge_sim e e' -> (s < length (e_slots R e))%nat -> (t < length (e_slots R e))%nat ->
  (i < dim_at vs (slotR e s))%nat -> (j < dim_at vs (slotR e t))%nat -> ent R (Cblock e' s t) i j = ent R (Cblock e s t) i j.
Proof.
  intros (_ & _ & _ & Hro & Hco & _ & Hj) (Es & Ef & Ee & Er & Ec & Eo & EJ) Hs Ht Hi Hjj.
  destruct (Hj s Hs) as (HrS & HcS). destruct (Hj t Ht) as (HrT & HcT).
  destruct (EJ s Hs) as (ErS & EcS & EeS). destruct (EJ t Ht) as (ErT & EcT & EeT).
  unfold Cblock, mdot, mtr. cbn [rows cols ent].
  rewrite Ec. apply sumn_ext. intros k Hk. f_equal.
  - rewrite ErS. apply sumn_ext. intros m Hm. f_equal.
    + apply EeS; [exact Hm | rewrite HcS; exact Hi].
    + apply Eo; [rewrite Hro, <- HrS; exact Hm | exact Hk].
  - apply EeT; [rewrite HrT, <- Hco; exact Hk | rewrite HcT; exact Hjj].
Qed.

Lemma sumlist_Forall2 (A : Type) (P : A -> A -> Prop) (f g : A -> R) l l' :
  Forall2 P l l' -> (forall x y, In x l -> P x y -> g y = f x) -> sumlist l' g = sumlist l f.
Proof.
  induction 1 as [|x y l l' Hxy Hll IH]; intros Hfg; [reflexivity|].
  change (g y + sumlist l' g = f x + sumlist l f). f_equal.
  - apply Hfg; [left; reflexivity | exact Hxy].
  - apply IH. intros x0 y0 Hin. apply Hfg. right. exact Hin.
Qed.

Lemma slot_sim e e' s : edge_sim e e' -> slotR e' s = slotR e s.
Proof. intros (Es & _). unfold slot_at. rewrite Es. reflexivity. Qed.

Lemma spec_b_sim vs es es' : List.Forall (wf_edge vs) es -> Forall2 edge_sim es es' -> forall r, spec_b vs es' r = spec_b vs es r.
Proof.
  intros Hwf Hsim r. unfold spec_b. destruct (locate vs r) as [[k i]|] eqn:L; [|reflexivity].
  destruct (locate_sound vs r k i L) as (Hk & Hi & _).
  destruct (fixed_at vs k); [reflexivity|].
  apply (sumlist_Forall2 _ edge_sim _ _ es es' Hsim). intros e e' Hin Hee.
  assert (We : wf_edge vs e) by (rewrite Forall_forall in Hwf; apply Hwf; exact Hin).
  assert (El : length (e_slots R e') = length (e_slots R e)) by (destruct Hee as (Es & _); rewrite Es; reflexivity).
  rewrite El. apply sumn_ext. intros s Hs. rewrite (slot_sim e e' s Hee).
  destruct (Nat.eqb (slotR e s) k) eqn:Ek; cbn [ind]; [|lra].
  apply Nat.eqb_eq in Ek. f_equal. apply (gblock_sim vs e e' s i We Hee Hs). rewrite Ek. exact Hi.
Qed.

Lemma spec_H_sim vs es es' : List.Forall (wf_edge vs) es -> Forall2 edge_sim es es' -> forall r c, spec_H vs es' r c = spec_H vs es r c.
Proof.
  intros Hwf Hsim r c. unfold spec_H.
  destruct (locate vs r) as [[k i]|] eqn:L1; [|reflexivity]. destruct (locate vs c) as [[l j]|] eqn:L2; [|reflexivity].
  destruct (locate_sound vs r k i L1) as (Hk & Hi & _). destruct (locate_sound vs c l j L2) as (Hl & Hj & _).
  destruct (orb (fixed_at vs k) (fixed_at vs l)); [reflexivity|].
  apply (sumlist_Forall2 _ edge_sim _ _ es es' Hsim). intros e e' Hin Hee.
  assert (We : wf_edge vs e) by (rewrite Forall_forall in Hwf; apply Hwf; exact Hin).
  assert (El : length (e_slots R e') = length (e_slots R e)) by (destruct Hee as (Es & _); rewrite Es; reflexivity).
  rewrite El. apply sumn_ext. intros s Hs. apply sumn_ext. intros t Ht.
  rewrite (slot_sim e e' s Hee), (slot_sim e e' t Hee).
  destruct (Nat.eqb (slotR e s) k) eqn:Ek; cbn [ind]; [|lra].
  destruct (Nat.eqb (slotR e t) l) eqn:El2; cbn [ind]; [|lra].
  apply Nat.eqb_eq in Ek. apply Nat.eqb_eq in El2. f_equal.
  apply (Cblock_sim vs e e' s t i j We Hee Hs Ht); [rewrite Ek; exact Hi | rewrite El2; exact Hj].
Qed.

Lemma solves_sim vs es es' d : List.Forall (wf_edge vs) es -> Forall2 edge_sim es es' ->
  solves (glen vs) (spec_H vs es) (spec_b vs es) d -> solves (glen vs) (spec_H vs es') (spec_b vs es') d.
Proof.
  intros Hwf Hsim Hs r Hr. rewrite (spec_b_sim vs es es' Hwf Hsim r). rewrite <- (Hs r Hr).
  apply sumn_ext. intros c _. rewrite (spec_H_sim vs es es' Hwf Hsim r c). reflexivity.
Qed.

(* every solution of the original normal equations gives, through P, a solution of ANY graph whose records agree entry by entry
   (inside their bounds) with the re-based records *)
Theorem basis_change_sim vs es es' Q P d : wf_graph vs es -> inverse_blocks vs Q P ->
  Forall2 edge_sim (map (tb_edge vs Q) es) es' ->
  solves (glen vs) (spec_H vs es) (spec_b vs es) d ->
  solves (glen vs) (spec_H vs es') (spec_b vs es') (bmul vs P d).
Proof.
  intros Hwf Hinv Hsim Hs.
  apply (solves_sim vs (map (tb_edge vs Q) es) es' (bmul vs P d)).
  - destruct (wf_graph_tb vs Q es Hwf) as (_ & H). exact H.
  - exact Hsim.
  - apply basis_change_inv; assumption.
Qed.
