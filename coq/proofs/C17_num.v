(* C17_num.v — the numeric half of C17 over the reals: what the test
       norm(a - b) / max(norm(a), tol) < tol
   means for tol > 0, the bands "far below" (nearR) and "far above" (farR) the tolerance, symmetry
   of the bands, and reflexivity.  Uses the standard-library axioms of the real numbers. *)
From Coq Require Import Reals List Lra Psatz.
From GS Require Import PyBase EqualsModel EqualsSpec.
Import ListNotations.
Open Scope R_scope.

Lemma sumsqR_nonneg l : 0 <= sumsqR l.
Proof. induction l as [|x l IH]; simpl; [lra|]. nra. Qed.
Lemma normR_nonneg l : 0 <= normR l.
Proof. unfold normR. apply sqrt_pos. Qed.

Lemma div_lt_iff x m t : 0 < m -> (x / m < t <-> x < t * m).
Proof.
  intros Hm. split; intros H.
  - assert (E : x = x / m * m) by (field; lra). rewrite E. apply Rmult_lt_compat_r; assumption.
  - apply Rmult_lt_reg_r with m; [exact Hm|]. replace (x / m * m) with x by (field; lra). exact H.
Qed.

Lemma smallR_spec tol d a : 0 < tol -> (smallR tol d a = true <-> normR d < tol * Rmax (normR a) tol).
Proof.
  intros Ht. unfold smallR.
  assert (Hm : 0 < Rmax (normR a) tol) by (pose proof (Rmax_r (normR a) tol); lra).
  destruct (Rlt_dec (normR d / Rmax (normR a) tol) tol) as [H|H]; split; intros H'; try reflexivity; try discriminate.
  - apply div_lt_iff in H; assumption.
  - exfalso. apply H. apply div_lt_iff; assumption.
Qed.

Lemma near_small tol d a : 0 < tol -> normR d < tol * tol -> smallR tol d a = true.
Proof.
  intros Ht H. apply smallR_spec; [exact Ht|]. pose proof (Rmax_r (normR a) tol). nra.
Qed.
Lemma far_not_small tol d a nb : 0 < tol -> 0 <= nb -> normR d >= tol * (Rmax (normR a) nb + tol) -> smallR tol d a = false.
Proof.
  intros Ht Hb H. destruct (smallR tol d a) eqn:E; [|reflexivity]. exfalso.
  apply smallR_spec in E; [|exact Ht].
  pose proof (normR_nonneg a) as Ha. pose proof (Rmax_l (normR a) nb) as H1.
  assert (H2 : Rmax (normR a) tol <= Rmax (normR a) nb + tol) by (apply Rmax_lub; lra).
  nra.
Qed.

Lemma sumsq_diff_sym x : forall y, sumsqR (diffR y x) = sumsqR (diffR x y).
Proof.
  unfold diffR, map2. induction x as [|a x IH]; intros [|b y]; simpl; try reflexivity.
  rewrite IH. ring.
Qed.
Lemma norm_diff_sym x y : normR (diffR y x) = normR (diffR x y).
Proof. unfold normR. rewrite sumsq_diff_sym. reflexivity. Qed.

Lemma sumsq_diff_refl x : sumsqR (diffR x x) = 0.
Proof. unfold diffR, map2. induction x as [|a x IH]; simpl; [reflexivity|]. rewrite IH. ring. Qed.

(* ---- the relations of EqualsSpec ---- *)
Lemma closeR_refl tol x : 0 < tol -> closeR tol x x.
Proof.
  intros Ht. unfold closeR. apply near_small; [exact Ht|].
  unfold normR. rewrite sumsq_diff_refl, sqrt_0. nra.
Qed.
Lemma near_close tol x y : 0 < tol -> nearR tol x y -> closeR tol x y.
Proof. intros Ht H. unfold closeR. apply near_small; assumption. Qed.
Lemma nearR_sym tol x y : nearR tol x y -> nearR tol y x.
Proof. unfold nearR. rewrite norm_diff_sym. auto. Qed.
Lemma farR_sym tol x y : farR tol x y -> farR tol y x.
Proof. unfold farR. rewrite norm_diff_sym, Rmax_comm. auto. Qed.
Lemma far_not_close tol x y : 0 < tol -> farR tol x y -> ~ closeR tol x y.
Proof.
  intros Ht H Hc. unfold closeR in Hc. unfold farR in H.
  rewrite (far_not_small tol (diffR x y) x (normR y) Ht (normR_nonneg y) H) in Hc. discriminate.
Qed.
Lemma close_not_far tol x y : 0 < tol -> closeR tol x y -> ~ farR tol x y.
Proof. intros Ht Hc Hf. exact (far_not_close tol x y Ht Hf Hc). Qed.
(* the bands are disjoint and both non-empty *)
Example near_example : nearR 1 [0; 0] [0; 1/2].
Proof.
  unfold nearR, normR, diffR, map2. simpl.
  replace ((0 - 0) * (0 - 0) + ((0 - 1 / 2) * (0 - 1 / 2) + 0)) with ((1/2) * (1/2)) by field.
  rewrite sqrt_square by lra. lra.
Qed.
Example far_example : farR (1/2) [0; 0] [0; 3].
Proof.
  unfold farR, normR, diffR, map2. simpl.
  replace ((0 - 0) * (0 - 0) + ((0 - 3) * (0 - 3) + 0)) with (3 * 3) by ring.
  replace (0 * 0 + (0 * 0 + 0)) with (0 * 0) by ring.
  replace (0 * 0 + (3 * 3 + 0)) with (3 * 3) by ring.
  rewrite !sqrt_square by lra. rewrite Rmax_right by lra. lra.
Qed.
