(* C12_OptLoop.v -- lemmas about the optimize-loop model (lib/OptLoop.v), for EVERY scalar interface
   (no property of the arithmetic or of the comparisons is used: the statements speak about the
   boolean test [stop_test] itself), every state type, every chi2_of / step / prep, every max_iter. *)
From Coq Require Import List Arith Lia Bool.
From GS Require Import OptLoop.
Import ListNotations.

Section Proofs.
  Variable T : Type.
  Variable SC : scalar T.
  Variable St : Type.
  Variable chi2_of : St -> T.
  Variable step prep : St -> St.

  Notation run := (run T SC St chi2_of step).
  Notation optimize := (optimize T SC St chi2_of step prep).
  Notation stop_test := (stop_test T SC).
  Notation filled := (filled T SC).
  Notation fresh := (fresh T).
  Notation line_of := (line_of T SC).
  Notation cseq := (cseq T St chi2_of step prep).
  Notation stops := (stops T SC St chi2_of step prep).
  Notation first_stop := (first_stop T SC St chi2_of step prep).
  Notation no_stop := (no_stop T SC St chi2_of step prep).
  Notation stepn := (stepn step).

  (* ---- closed form of [run] ---- *)
  Definition dd (s : St) (j : nat) : T := chi2_of (stepn j s).
  Definition pv (prev : T) (s : St) (j : nat) : T :=
    match j with O => prev | S j' => chi2_of (stepn j' s) end.
  Definition tst (tol prev : T) (s : St) (j : nat) : bool := stop_test tol (pv prev s j) (dd s j).
  Definition ents (prev : T) (s : St) (n : nat) : list (iter_result T) :=
    map (fun j => filled (pv prev s j) (dd s j)) (seq 0 n).
  Definition lns (i : nat) (prev : T) (s : St) (n : nat) : list (line T) :=
    map (fun j => line_of (i + j) (pv prev s j) (dd s j)) (seq 0 n).

  Lemma pv_shift : forall prev s j, pv (chi2_of s) (step s) j = pv prev s (S j).
  Proof. intros prev s j. destruct j as [|j']; reflexivity. Qed.

  Lemma ents_cons : forall prev s n,
    ents prev s (S n) = filled prev (chi2_of s) :: ents (chi2_of s) (step s) n.
  Proof.
    intros prev s n. unfold ents. simpl seq. rewrite <- seq_shift. rewrite map_cons, map_map.
    f_equal. apply map_ext. intros j. rewrite (pv_shift prev). reflexivity.
  Qed.

  Lemma lns_cons : forall i prev s n,
    lns i prev s (S n) = line_of i prev (chi2_of s) :: lns (S i) (chi2_of s) (step s) n.
  Proof.
    intros i prev s n. unfold lns. simpl seq. rewrite <- seq_shift. rewrite map_cons, map_map.
    rewrite Nat.add_0_r. f_equal. apply map_ext. intros j.
    rewrite (pv_shift prev), Nat.add_succ_r. reflexivity.
  Qed.

  Lemma run_nostop : forall fuel tol i prev s,
    (forall j, j < fuel -> tst tol prev s j = false) ->
    run tol fuel i prev s =
      (stepn fuel s, {| t_iters := ents prev s (S fuel); t_conv := tst tol prev s fuel;
                        t_num := i + fuel; t_final := dd s fuel; t_lines := lns i prev s (S fuel) |}).
  Proof.
    induction fuel as [|f IH]; intros tol i prev s H.
    - unfold ents, lns, tst, dd. simpl. rewrite !Nat.add_0_r. reflexivity.
    - assert (H0 : stop_test tol prev (chi2_of s) = false) by (apply (H 0); lia).
      simpl run. rewrite H0.
      rewrite (IH tol (S i) (chi2_of s) (step s)).
      + cbn [fst snd t_iters t_conv t_num t_final t_lines].
        rewrite (ents_cons prev s (S f)), (lns_cons i prev s (S f)).
        unfold tst. rewrite (pv_shift prev). rewrite Nat.add_succ_r. reflexivity.
      + intros j Hj. unfold tst. rewrite (pv_shift prev). apply (H (S j)). lia.
  Qed.

  Lemma run_stop : forall fuel tol i prev s j,
    j < fuel -> (forall j', j' < j -> tst tol prev s j' = false) -> tst tol prev s j = true ->
    run tol fuel i prev s =
      (stepn j s, {| t_iters := ents prev s (S j) ++ [fresh]; t_conv := true;
                     t_num := i + j; t_final := dd s j; t_lines := lns i prev s (S j) |}).
  Proof.
    induction fuel as [|f IH]; intros tol i prev s j Hj Hbefore Hat.
    - lia.
    - destruct j as [|j'].
      + assert (H0 : stop_test tol prev (chi2_of s) = true) by exact Hat.
        simpl run. rewrite H0. unfold ents, lns, dd. simpl. rewrite !Nat.add_0_r. reflexivity.
      + assert (H0 : stop_test tol prev (chi2_of s) = false) by (apply (Hbefore 0); lia).
        simpl run. rewrite H0.
        rewrite (IH tol (S i) (chi2_of s) (step s) j').
        * cbn [fst snd t_iters t_conv t_num t_final t_lines].
          rewrite (ents_cons prev s (S j')), (lns_cons i prev s (S j')).
          rewrite Nat.add_succ_r. reflexivity.
        * lia.
        * intros j0 Hj0. unfold tst. rewrite (pv_shift prev). apply (Hbefore (S j0)). lia.
        * unfold tst. rewrite (pv_shift prev). exact Hat.
  Qed.

  (* ---- closed form of [optimize] in terms of c_k ---- *)
  Definition spec_iters (s : St) (a n : nat) : list (iter_result T) :=
    map (fun k => filled (cseq s k) (cseq s (S k))) (seq a n).
  Definition spec_lines (s : St) (n : nat) : list (line T) :=
    map (fun k => line_of (S k) (cseq s k) (cseq s (S k))) (seq 0 n).

  Lemma pv_cseq : forall s j, pv (chi2_of (prep s)) (step (prep s)) j = cseq s j.
  Proof. intros s j. destruct j as [|j']; reflexivity. Qed.

  Lemma tst_stops : forall tol s j, tst tol (chi2_of (prep s)) (step (prep s)) j = stops tol s (S j).
  Proof. intros tol s j. unfold tst. rewrite pv_cseq. reflexivity. Qed.

  Lemma ents_spec : forall s n, ents (chi2_of (prep s)) (step (prep s)) n = spec_iters s 0 n.
  Proof. intros s n. unfold ents, spec_iters. apply map_ext. intros j. rewrite pv_cseq. reflexivity. Qed.

  Lemma lns_spec : forall s n, lns 1 (chi2_of (prep s)) (step (prep s)) n = spec_lines s n.
  Proof. intros s n. unfold lns, spec_lines. apply map_ext. intros j. rewrite pv_cseq. reflexivity. Qed.

  Theorem optimize_early : forall tol max_iter vb s K,
    first_stop tol s max_iter K ->
    optimize tol max_iter vb s =
      (stepn K (prep s),
       {| initial_chi2 := Some (cseq s 0); iters := spec_iters s 0 K ++ [fresh]; converged := true;
          num_iterations := Some K; final_chi2 := Some (cseq s K); raised := false |},
       if vb then (0, cseq s 0, None) :: spec_lines s K else []).
  Proof.
    intros tol max_iter vb s K (HK1 & HK2 & Hat & Hbefore).
    destruct max_iter as [|n]; [lia|].
    destruct K as [|j]; [lia|].
    unfold OptLoop.optimize.
    rewrite (run_stop n tol 1 (chi2_of (prep s)) (step (prep s)) j).
    - cbn [fst snd t_iters t_conv t_num t_final t_lines].
      rewrite ents_spec, lns_spec. reflexivity.
    - lia.
    - intros j' Hj'. rewrite tst_stops. apply Hbefore; lia.
    - rewrite tst_stops. exact Hat.
  Qed.

  Theorem optimize_full : forall tol max_iter vb s,
    0 < max_iter -> no_stop tol s max_iter ->
    optimize tol max_iter vb s =
      (stepn max_iter (prep s),
       {| initial_chi2 := Some (cseq s 0); iters := spec_iters s 0 max_iter; converged := stops tol s max_iter;
          num_iterations := Some max_iter; final_chi2 := Some (cseq s max_iter); raised := false |},
       if vb then (0, cseq s 0, None) :: spec_lines s max_iter else []).
  Proof.
    intros tol max_iter vb s Hpos Hno.
    destruct max_iter as [|n]; [lia|].
    unfold OptLoop.optimize.
    rewrite (run_nostop n tol 1 (chi2_of (prep s)) (step (prep s))).
    - cbn [fst snd t_iters t_conv t_num t_final t_lines].
      rewrite ents_spec, lns_spec, tst_stops. reflexivity.
    - intros j Hj. rewrite tst_stops. apply Hno; lia.
  Qed.

  Lemma stop_cases : forall tol s n, (exists K, first_stop tol s n K) \/ no_stop tol s n.
  Proof.
    intros tol s n. induction n as [|n IH].
    - right. intros k H1 H2. lia.
    - destruct IH as [[K (H1 & H2 & H3 & H4)]|Hno].
      + left. exists K. repeat split; try assumption; lia.
      + destruct n as [|n'].
        * right. intros k H1 H2. lia.
        * destruct (stops tol s (S n')) eqn:E.
          -- left. exists (S n'). repeat split; try lia; try assumption.
          -- right. intros k H1 H2. destruct (Nat.eq_dec k (S n')) as [->|Hne]; [exact E|].
             apply Hno; lia.
  Qed.

  (* ---- the property statements ---- *)
  Theorem C12_initial_thm : forall tol max_iter vb s,
    0 < max_iter ->
    initial_chi2 (out_report (optimize tol max_iter vb s)) = Some (cseq s 0).
  Proof. intros tol max_iter vb s H. destruct max_iter as [|n]; [lia|reflexivity]. Qed.

  Theorem C12_final_thm : forall tol max_iter vb s,
    0 < max_iter ->
    final_chi2 (out_report (optimize tol max_iter vb s)) = Some (chi2_of (out_state (optimize tol max_iter vb s))).
  Proof.
    intros tol max_iter vb s H.
    destruct (stop_cases tol s max_iter) as [[K HK]|Hno].
    - rewrite (optimize_early tol max_iter vb s K HK). reflexivity.
    - rewrite (optimize_full tol max_iter vb s H Hno). reflexivity.
  Qed.

  Lemma nth_spec_iters_gen : forall s n a k e,
    nth_error (spec_iters s a n) k = Some e ->
    k < n /\ e = filled (cseq s (a + k)) (cseq s (S (a + k))).
  Proof.
    intros s n. induction n as [|n IH]; intros a k e H.
    - destruct k; discriminate H.
    - destruct k as [|k].
      + unfold spec_iters in H. simpl in H. injection H as <-. rewrite Nat.add_0_r. split; [lia|reflexivity].
      + unfold spec_iters in H. simpl in H. fold (spec_iters s (S a) n) in H.
        apply IH in H. destruct H as [Hk ->]. rewrite Nat.add_succ_r. split; [lia|reflexivity].
  Qed.

  Lemma nth_spec_iters : forall s n k e,
    nth_error (spec_iters s 0 n) k = Some e -> k < n /\ e = filled (cseq s k) (cseq s (S k)).
  Proof. intros s n k e H. apply nth_spec_iters_gen in H. exact H. Qed.

  Theorem C12_iter_chi2_thm : forall tol max_iter vb s k e,
    0 < max_iter ->
    nth_error (iters (out_report (optimize tol max_iter vb s))) k = Some e ->
    exists N, num_iterations (out_report (optimize tol max_iter vb s)) = Some N /\
      (k < N -> it_chi2 e = Some (cseq s (S k)) /\
                it_rel_diff e = Some (neg SC (div SC (sub SC (cseq s k) (cseq s (S k))) (add SC (cseq s k) (eps SC)))) /\
                it_complete e = true) /\
      (N <= k -> it_chi2 e = None /\ it_rel_diff e = None /\ it_complete e = false).
  Proof.
    intros tol max_iter vb s k e Hpos.
    destruct (stop_cases tol s max_iter) as [[K HK]|Hno].
    - rewrite (optimize_early tol max_iter vb s K HK). unfold out_report. simpl.
      intros Hn. exists K. split; [reflexivity|].
      assert (HL : length (spec_iters s 0 K) = K) by (unfold spec_iters; rewrite map_length, seq_length; reflexivity).
      destruct (Nat.lt_ge_cases k K) as [Hlt|Hge].
      + rewrite nth_error_app1 in Hn by lia.
        apply nth_spec_iters in Hn. destruct Hn as [_ ->].
        split; [intros _; repeat split|lia].
      + rewrite nth_error_app2 in Hn by lia. rewrite HL in Hn.
        destruct (k - K) as [|m] eqn:Ek.
        * simpl in Hn. injection Hn as <-. split; [lia|intros _; repeat split].
        * simpl in Hn. destruct m; discriminate Hn.
    - rewrite (optimize_full tol max_iter vb s Hpos Hno). unfold out_report. simpl.
      intros Hn. exists max_iter. split; [reflexivity|].
      apply nth_spec_iters in Hn. destruct Hn as [Hlt ->].
      split; [intros _; repeat split|lia].
  Qed.

  Lemma spec_iters_length : forall s a n, length (spec_iters s a n) = n.
  Proof. intros. unfold spec_iters. rewrite map_length, seq_length. reflexivity. Qed.

  Theorem C12_stop_thm : forall tol max_iter vb s,
    (forall K, first_stop tol s max_iter K ->
       converged (out_report (optimize tol max_iter vb s)) = true /\
       num_iterations (out_report (optimize tol max_iter vb s)) = Some K /\
       length (iters (out_report (optimize tol max_iter vb s))) = S K /\
       out_state (optimize tol max_iter vb s) = stepn K (prep s) /\
       raised (out_report (optimize tol max_iter vb s)) = false) /\
    (0 < max_iter -> no_stop tol s max_iter ->
       converged (out_report (optimize tol max_iter vb s)) = stops tol s max_iter /\
       num_iterations (out_report (optimize tol max_iter vb s)) = Some max_iter /\
       length (iters (out_report (optimize tol max_iter vb s))) = max_iter /\
       out_state (optimize tol max_iter vb s) = stepn max_iter (prep s) /\
       raised (out_report (optimize tol max_iter vb s)) = false) /\
    ((exists K, first_stop tol s max_iter K) \/ no_stop tol s max_iter) /\
    (max_iter = 0 ->
       raised (out_report (optimize tol max_iter vb s)) = true /\
       out_state (optimize tol max_iter vb s) = prep s /\
       iters (out_report (optimize tol max_iter vb s)) = [] /\
       num_iterations (out_report (optimize tol max_iter vb s)) = None).
  Proof.
    intros tol max_iter vb s.
    split; [|split; [|split]].
    - intros K HK. rewrite (optimize_early tol max_iter vb s K HK). unfold out_report, out_state. simpl.
      split; [reflexivity|]. split; [reflexivity|]. split; [|split; reflexivity].
      rewrite app_length, spec_iters_length. simpl. lia.
    - intros Hpos Hno. rewrite (optimize_full tol max_iter vb s Hpos Hno). unfold out_report, out_state. simpl.
      split; [reflexivity|]. split; [reflexivity|]. split; [|split; reflexivity].
      apply spec_iters_length.
    - apply stop_cases.
    - intros Hz. subst max_iter. split; [reflexivity|]. split; [reflexivity|]. split; reflexivity.
  Qed.

  (* ---- verbose ---- *)
  Lemma run_lines_written : forall fuel tol i prev s,
    t_lines (snd (run tol fuel i prev s)) = written_lines i (t_iters (snd (run tol fuel i prev s))).
  Proof.
    induction fuel as [|f IH]; intros tol i prev s.
    - reflexivity.
    - simpl run. destruct (stop_test tol prev (chi2_of s)) eqn:E.
      + reflexivity.
      + simpl snd. cbn [t_lines t_iters]. simpl written_lines. rewrite <- IH. reflexivity.
  Qed.

  Theorem C12_verbose_thm : forall tol max_iter s,
    out_state (optimize tol max_iter true s) = out_state (optimize tol max_iter false s) /\
    out_report (optimize tol max_iter true s) = out_report (optimize tol max_iter false s) /\
    out_lines (optimize tol max_iter false s) = [] /\
    (0 < max_iter -> out_lines (optimize tol max_iter true s) = verbose_lines (out_report (optimize tol max_iter true s))).
  Proof.
    intros tol max_iter s. destruct max_iter as [|n].
    - split; [reflexivity|]. split; [reflexivity|]. split; [reflexivity|]. intros Hpos. lia.
    - split; [reflexivity|]. split; [reflexivity|]. split; [reflexivity|]. intros _.
      unfold OptLoop.optimize, out_lines, out_report, verbose_lines. simpl.
      rewrite run_lines_written. reflexivity.
  Qed.

  (* ---- splitting a run ---- *)
  Lemma stepn_add : forall a b x, stepn (a + b) x = stepn b (stepn a x).
  Proof. induction a as [|a IH]; intros b x; simpl; [reflexivity|apply IH]. Qed.

  Lemma seq_add_map : forall len a b, map (fun k => a + k) (seq b len) = seq (a + b) len.
  Proof.
    induction len as [|len IH]; intros a b; simpl; [reflexivity|].
    f_equal. rewrite IH. rewrite Nat.add_succ_r. reflexivity.
  Qed.

  Section Split.
    Hypothesis prep_idem : forall x, prep (prep x) = prep x.
    Hypothesis prep_step : forall x, prep (step (prep x)) = step (prep x).

    Lemma prep_stepn : forall k x, prep (stepn k (prep x)) = stepn k (prep x).
    Proof.
      induction k as [|k IH]; intros x; simpl.
      - apply prep_idem.
      - rewrite <- (prep_step x). apply IH.
    Qed.

    Lemma cseq_after : forall s k1 j, cseq (stepn k1 (prep s)) j = cseq s (k1 + j).
    Proof.
      intros s k1 j. unfold OptLoop.cseq. rewrite prep_stepn, stepn_add. reflexivity.
    Qed.

    Lemma stops_after : forall tol s k1 k, 1 <= k -> stops tol (stepn k1 (prep s)) k = stops tol s (k1 + k).
    Proof.
      intros tol s k1 k Hk. unfold OptLoop.stops. fold (cseq (stepn k1 (prep s)) (pred k)).
      fold (cseq (stepn k1 (prep s)) k). fold (cseq s (pred (k1 + k))). fold (cseq s (k1 + k)).
      rewrite !cseq_after. replace (pred (k1 + k)) with (k1 + pred k) by lia. reflexivity.
    Qed.

    Theorem C12_split_thm : forall tol k1 k2 vb s,
      0 < k1 -> 0 < k2 -> no_stop tol s (k1 + k2) ->
      let A := optimize tol (k1 + k2) vb s in
      let B1 := optimize tol k1 vb s in
      let B2 := optimize tol k2 vb (out_state B1) in
      out_state A = out_state B2 /\
      iters (out_report A) = iters (out_report B1) ++ iters (out_report B2) /\
      initial_chi2 (out_report A) = initial_chi2 (out_report B1) /\
      final_chi2 (out_report B1) = initial_chi2 (out_report B2) /\
      final_chi2 (out_report A) = final_chi2 (out_report B2) /\
      converged (out_report A) = converged (out_report B2) /\
      num_iterations (out_report A) = Some (k1 + k2) /\
      num_iterations (out_report B1) = Some k1 /\ num_iterations (out_report B2) = Some k2.
    Proof.
      intros tol k1 k2 vb s H1 H2 Hno A B1 B2.
      assert (Hno1 : no_stop tol s k1) by (intros k Ha Hb; apply Hno; lia).
      assert (Hno2 : no_stop tol (stepn k1 (prep s)) k2).
      { intros k Ha Hb. rewrite stops_after by exact Ha. apply Hno; lia. }
      assert (EA : A = optimize tol (k1 + k2) vb s) by reflexivity.
      assert (EB1 : B1 = optimize tol k1 vb s) by reflexivity.
      rewrite (optimize_full tol (k1 + k2) vb s) in EA by (try lia; exact Hno).
      rewrite (optimize_full tol k1 vb s H1 Hno1) in EB1.
      assert (ES : out_state B1 = stepn k1 (prep s)) by (rewrite EB1; reflexivity).
      assert (EB2 : B2 = optimize tol k2 vb (stepn k1 (prep s))) by (unfold B2; rewrite ES; reflexivity).
      rewrite (optimize_full tol k2 vb (stepn k1 (prep s)) H2 Hno2) in EB2.
      rewrite EA, EB1, EB2. unfold out_state, out_report. simpl.
      rewrite prep_stepn.
      assert (EI : spec_iters (stepn k1 (prep s)) 0 k2 = spec_iters s k1 k2).
      { unfold spec_iters.
        replace (seq k1 k2) with (map (fun k => k1 + k) (seq 0 k2))
          by (rewrite seq_add_map; f_equal; lia).
        rewrite map_map. apply map_ext. intros j. rewrite !cseq_after.
        replace (k1 + S j) with (S (k1 + j)) by lia. reflexivity. }
      repeat split.
      - rewrite stepn_add. reflexivity.
      - rewrite EI. unfold spec_iters. rewrite seq_app, map_app. reflexivity.
      - rewrite cseq_after. replace (k1 + 0) with k1 by lia. reflexivity.
      - rewrite cseq_after. reflexivity.
      - rewrite stops_after by lia. reflexivity.
    Qed.
  End Split.

  (* ---- the returned state is N applications of step to the prepared initial state ---- *)
  Theorem C12_state_thm : forall tol max_iter vb s,
    exists N, N <= max_iter /\ out_state (optimize tol max_iter vb s) = stepn N (prep s) /\
              (0 < max_iter -> num_iterations (out_report (optimize tol max_iter vb s)) = Some N).
  Proof.
    intros tol max_iter vb s. destruct max_iter as [|n].
    - exists 0. split; [lia|]. split; [reflexivity|]. intros H; lia.
    - destruct (stop_cases tol s (S n)) as [[K HK]|Hno].
      + exists K. rewrite (optimize_early tol (S n) vb s K HK).
        destruct HK as (Ha & Hb & _). split; [lia|]. split; [reflexivity|]. intros _; reflexivity.
      + exists (S n). rewrite (optimize_full tol (S n) vb s) by (try lia; exact Hno).
        split; [lia|]. split; [reflexivity|]. intros _; reflexivity.
  Qed.
End Proofs.

(* ---- optimize sees the state only through chi2_of, step and prep: two systems related by a
        simulation that preserves chi^2 produce the same report and the same printed lines, and
        related final states.  (Nothing else -- no cache, no history -- can enter the result.) ---- *)
Section Simulation.
  Variable T : Type.
  Variable SC : scalar T.
  Variables St1 St2 : Type.
  Variable chi1 : St1 -> T.
  Variable chi2 : St2 -> T.
  Variables (step1 prep1 : St1 -> St1) (step2 prep2 : St2 -> St2).
  Variable Rel : St1 -> St2 -> Prop.
  Hypothesis Rel_chi : forall a b, Rel a b -> chi1 a = chi2 b.
  Hypothesis Rel_step : forall a b, Rel a b -> Rel (step1 a) (step2 b).
  Hypothesis Rel_prep : forall a b, Rel a b -> Rel (prep1 a) (prep2 b).

  Lemma run_sim : forall fuel tol i prev a b, Rel a b ->
    snd (run T SC St1 chi1 step1 tol fuel i prev a) = snd (run T SC St2 chi2 step2 tol fuel i prev b) /\
    Rel (fst (run T SC St1 chi1 step1 tol fuel i prev a)) (fst (run T SC St2 chi2 step2 tol fuel i prev b)).
  Proof.
    induction fuel as [|f IH]; intros tol i prev a b Hab.
    - simpl. rewrite (Rel_chi a b Hab). split; [reflexivity|exact Hab].
    - simpl run. rewrite (Rel_chi a b Hab).
      destruct (stop_test T SC tol prev (chi2 b)) eqn:E.
      + split; [reflexivity|exact Hab].
      + destruct (IH tol (S i) (chi2 b) (step1 a) (step2 b) (Rel_step a b Hab)) as [Hs Hr].
        simpl fst. simpl snd. rewrite Hs. split; [reflexivity|exact Hr].
  Qed.

  Theorem C12_simulation_thm : forall tol max_iter vb a b, Rel a b ->
    out_report (optimize T SC St1 chi1 step1 prep1 tol max_iter vb a) =
      out_report (optimize T SC St2 chi2 step2 prep2 tol max_iter vb b) /\
    out_lines (optimize T SC St1 chi1 step1 prep1 tol max_iter vb a) =
      out_lines (optimize T SC St2 chi2 step2 prep2 tol max_iter vb b) /\
    Rel (out_state (optimize T SC St1 chi1 step1 prep1 tol max_iter vb a))
        (out_state (optimize T SC St2 chi2 step2 prep2 tol max_iter vb b)).
  Proof.
    intros tol max_iter vb a b Hab.
    pose proof (Rel_prep a b Hab) as Hp.
    destruct max_iter as [|n]; unfold optimize, out_report, out_lines, out_state; simpl.
    - rewrite (Rel_chi _ _ Hp). repeat split. exact Hp.
    - destruct (run_sim n tol 1 (chi2 (prep2 b)) (step1 (prep1 a)) (step2 (prep2 b)) (Rel_step _ _ Hp)) as [Hs Hr].
      rewrite (Rel_chi _ _ Hp). rewrite Hs. repeat split. exact Hr.
  Qed.
End Simulation.
