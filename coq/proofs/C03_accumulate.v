(* C03_accumulate.v — closed forms and invariants of the dictionaries built by accumulate. *)
From Coq Require Import Reals List Arith Bool Lia Lra.
From GS Require Import GraphModel GNSpec C03_sums C03_index C03_dict.
Import ListNotations.
Open Scope R_scope.

Notation updR := (update R 0 Rplus Rmult).
Notation accR := (accumulate R 0 Rplus Rmult).
Notation gcontR := (grad_contribs R 0 Rplus Rmult).
Notation hcontR := (hess_contribs R 0 Rplus Rmult).
Notation jacR := (jac_at R 0).
Notation slotR := (slot_at R).
Notation chi2R := (edge_chi2 R 0 Rplus Rmult).

Definition gupd (vs : list vertex) (d : gdict) (e : Redge) : gdict := fold_left gstep (gcontR vs e) d.
Definition hupd (vs : list vertex) (d : hdict) (e : Redge) : hdict := fold_left hstep (hcontR vs e) d.

Lemma update_grad : forall vs a e, a_grad R (updR vs a e) = gupd vs (a_grad R a) e.
Proof. intros. reflexivity. Qed.
Lemma update_hess : forall vs a e, a_hess R (updR vs a e) = hupd vs (a_hess R a) e.
Proof.
  intros vs a e. unfold update, hupd. cbn [a_hess]. apply fold_left_ext.
  intros d c. apply hstep_model.
Qed.
Lemma update_chi2 : forall vs a e, a_chi2 R (updR vs a e) = a_chi2 R a + chi2R e.
Proof. intros. reflexivity. Qed.

Lemma acc_grad : forall vs es a, a_grad R (fold_left (updR vs) es a) = fold_left (gupd vs) es (a_grad R a).
Proof.
  intros vs es. induction es as [|e es IH]; intros a.
  - reflexivity.
  - cbn [fold_left]. rewrite IH, update_grad. reflexivity.
Qed.
Lemma acc_hess : forall vs es a, a_hess R (fold_left (updR vs) es a) = fold_left (hupd vs) es (a_hess R a).
Proof.
  intros vs es. induction es as [|e es IH]; intros a.
  - reflexivity.
  - cbn [fold_left]. rewrite IH, update_hess. reflexivity.
Qed.
Lemma acc_chi2 : forall vs es a, a_chi2 R (fold_left (updR vs) es a) = a_chi2 R a + sumlist es (fun e => chi2R e).
Proof.
  intros vs es. induction es as [|e es IH]; intros a.
  - cbn [fold_left]. rewrite sumlist_nil. ring.
  - cbn [fold_left]. rewrite IH, update_chi2, sumlist_cons. ring.
Qed.

Theorem chi2_correct : forall vs es, assemble_chi2 R 0 Rplus Rmult vs es = spec_chi2 es.
Proof.
  intros vs es. unfold assemble_chi2, accumulate, spec_chi2. rewrite acc_chi2. cbn [a_chi2 acc0]. ring.
Qed.

(* ---------- gradient: closed form ---------- *)
Definition gterm (vs : list vertex) (e : Redge) (g i : nat) : R :=
  sumnR (Nat.min (length (e_slots R e)) (length (e_jac R e)))
        (fun s => ind (Nat.eqb (gi vs (slotR e s)) g) * snd (gblock e s) i).

Lemma gupd_sum : forall vs d e g i, gsum (gupd vs d e) g i = gsum d g i + gterm vs e g i.
Proof.
  intros vs d e g i. unfold gupd. rewrite gsum_fold. f_equal.
  unfold grad_contribs. rewrite sumlist_map, sumlist_seq0. reflexivity.
Qed.

Lemma gacc_sum : forall vs es d g i,
  gsum (fold_left (gupd vs) es d) g i = gsum d g i + sumlist es (fun e => gterm vs e g i).
Proof.
  intros vs es. induction es as [|e es IH]; intros d g i.
  - cbn [fold_left]. rewrite sumlist_nil. ring.
  - cbn [fold_left]. rewrite IH, gupd_sum, sumlist_cons. ring.
Qed.

(* ---------- Hessian: closed form ---------- *)
Definition hc (vs : list vertex) (e : Redge) (s t : nat) : hkey * Rmat :=
  ((gi vs (slotR e s), gi vs (slotR e t)), Cblock e s t).
Definition hterm (vs : list vertex) (e : Redge) (key : hkey) (a b : nat) : R :=
  let n := length (e_jac R e) in
  sumnR n (fun s => sumnR n (fun t =>
    ind (Nat.leb s t) * (ind (key_eqb (fst (norm (hc vs e s t))) key) * ent R (snd (norm (hc vs e s t))) a b))).

Lemma hupd_look : forall vs d e key a b, hlook (hupd vs d e) key a b = hlook d key a b + hterm vs e key a b.
Proof.
  intros vs d e key a b. unfold hupd. rewrite hlook_fold. f_equal.
  unfold hess_contribs, hterm. cbv zeta.
  rewrite sumlist_flat_map, sumlist_seq0. apply sumn_ext. intros s Hs.
  rewrite sumlist_map. rewrite sumlist_seq_from by lia. reflexivity.
Qed.

Lemma hacc_look : forall vs es d key a b,
  hlook (fold_left (hupd vs) es d) key a b = hlook d key a b + sumlist es (fun e => hterm vs e key a b).
Proof.
  intros vs es. induction es as [|e es IH]; intros d key a b.
  - cbn [fold_left]. rewrite sumlist_nil. ring.
  - cbn [fold_left]. rewrite IH, hupd_look, sumlist_cons. ring.
Qed.

(* ---------- invariants ---------- *)
Definition Ggood (vs : list vertex) (kv : nat * Rvec) : Prop :=
  exists p, (p < length vs)%nat /\ fst kv = gi vs p /\ fst (snd kv) = dim_at vs p.
Definition Hgood (vs : list vertex) (km : hkey * Rmat) : Prop :=
  exists p q, (p <= q)%nat /\ (q < length vs)%nat /\ fst km = (gi vs p, gi vs q) /\
              rows R (snd km) = dim_at vs p /\ cols R (snd km) = dim_at vs q.

Lemma slot_in_range : forall vs e s, wf_edge vs e -> (s < length (e_slots R e))%nat -> (slotR e s < length vs)%nat.
Proof.
  intros vs e s Hwf Hs. destruct Hwf as (_ & _ & Hrng & _).
  rewrite Forall_forall in Hrng. apply Hrng. unfold slot_at. apply nth_In. exact Hs.
Qed.

Lemma slot_inj : forall vs e s t, wf_edge vs e -> (s < length (e_slots R e))%nat -> (t < length (e_slots R e))%nat ->
  slotR e s = slotR e t -> s = t.
Proof.
  intros vs e s t Hwf Hs Ht E. destruct Hwf as (_ & Hnd & _).
  unfold slot_at in E. rewrite (NoDup_nth _ 0%nat) in Hnd. apply Hnd; assumption.
Qed.

Lemma gupd_good : forall vs d e, wf_edge vs e -> Forall (Ggood vs) d -> Forall (Ggood vs) (gupd vs d e).
Proof.
  intros vs d e Hwf Hd. unfold gupd. apply fold_left_inv; [|exact Hd].
  intros x c Hc Hx. unfold grad_contribs in Hc. apply in_map_iff in Hc.
  destruct Hc as [s [Ec Hs]]. apply in_seq in Hs. subst c. unfold gstep. cbn [fst snd].
  apply gadd_Forall; [|exact Hx|].
  - intros v' [p [H1 [H2 H3]]]. exists p. unfold vaddf. cbn [fst snd] in *. repeat split; assumption.
  - assert (Hs' : (s < length (e_slots R e))%nat) by lia.
    exists (slotR e s). cbn [fst snd]. split; [apply (slot_in_range vs e s Hwf Hs')|].
    split; [reflexivity|].
    destruct Hwf as (_ & _ & _ & _ & _ & _ & Hjac). destruct (Hjac s Hs') as [_ Hc]. exact Hc.
Qed.

Lemma hc_in : forall vs e c, In c (hcontR vs e) ->
  exists s t, (s <= t)%nat /\ (t < length (e_jac R e))%nat /\ c = hc vs e s t.
Proof.
  intros vs e c Hc. unfold hess_contribs in Hc. cbv zeta in Hc. apply in_flat_map in Hc.
  destruct Hc as [s [Hs Hc]]. apply in_map_iff in Hc. destruct Hc as [t [Ec Ht]].
  apply in_seq in Hs. apply in_seq in Ht. exists s, t. repeat split; [lia|lia|]. symmetry. exact Ec.
Qed.

Lemma norm_hc_good : forall vs e s t, allpos vs -> wf_edge vs e ->
  (s < length (e_slots R e))%nat -> (t < length (e_slots R e))%nat -> Hgood vs (norm (hc vs e s t)).
Proof.
  intros vs e s t Hpos Hwf Hs Ht.
  pose proof (slot_in_range vs e s Hwf Hs) as Rs. pose proof (slot_in_range vs e t Hwf Ht) as Rt.
  destruct Hwf as (_ & _ & _ & _ & _ & _ & Hjac).
  destruct (Hjac s Hs) as [_ Cs]. destruct (Hjac t Ht) as [_ Ct].
  unfold norm, hc. cbn [fst snd]. rewrite gi_leb by (assumption || lia).
  destruct (Nat.leb_spec (slotR e s) (slotR e t)) as [L|L].
  - exists (slotR e s), (slotR e t). cbn [fst snd]. repeat split; try assumption.
  - exists (slotR e t), (slotR e s). cbn [fst snd]. repeat split; try assumption. lia.
Qed.

Lemma hupd_good : forall vs d e, allpos vs -> wf_edge vs e -> Forall (Hgood vs) d -> Forall (Hgood vs) (hupd vs d e).
Proof.
  intros vs d e Hpos Hwf Hd. unfold hupd. apply fold_left_inv; [|exact Hd].
  intros x c Hc Hx. apply hc_in in Hc. destruct Hc as [s [t [Hst [Ht Ec]]]]. subst c.
  assert (Hlen : length (e_jac R e) = length (e_slots R e)) by (destruct Hwf as [H _]; exact H).
  unfold hstep. apply hadd_Forall; [|exact Hx|].
  - intros m' [p [q H]]. exists p, q. unfold madd. cbn [fst snd rows cols] in *. exact H.
  - destruct (norm (hc vs e s t)) as [k m] eqn:E. cbn [fst snd]. rewrite <- E.
    apply norm_hc_good; try assumption; lia.
Qed.

Lemma hupd_nodup : forall vs d e, hnodup d -> hnodup (hupd vs d e).
Proof.
  intros vs d e Hd. unfold hupd. apply fold_left_inv; [|exact Hd].
  intros x c _ Hx. unfold hstep. apply hnodup_add. exact Hx.
Qed.

Lemma gacc_good : forall vs es d, Forall (wf_edge vs) es -> Forall (Ggood vs) d -> Forall (Ggood vs) (fold_left (gupd vs) es d).
Proof.
  intros vs es d Hes Hd. apply fold_left_inv; [|exact Hd].
  intros x e He Hx. rewrite Forall_forall in Hes. apply gupd_good; [apply Hes; exact He|exact Hx].
Qed.
Lemma hacc_good : forall vs es d, allpos vs -> Forall (wf_edge vs) es -> Forall (Hgood vs) d -> Forall (Hgood vs) (fold_left (hupd vs) es d).
Proof.
  intros vs es d Hpos Hes Hd. apply fold_left_inv; [|exact Hd].
  intros x e He Hx. rewrite Forall_forall in Hes. apply hupd_good; [exact Hpos|apply Hes; exact He|exact Hx].
Qed.
Lemma hacc_nodup : forall vs es d, hnodup d -> hnodup (fold_left (hupd vs) es d).
Proof.
  intros vs es d Hd. apply fold_left_inv; [|exact Hd].
  intros x e _ Hx. apply hupd_nodup. exact Hx.
Qed.
