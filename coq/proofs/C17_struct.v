(* C17_struct.v — the structural half of C17, for ANY number type, subtraction and numeric test
   [small]: on well-formed objects no equals method raises, and
       equals a b = True   <->   a and b have the same structure and every pair of corresponding
                                  number arrays passes the numeric test.
   Lists (graphs) are handled by induction over the zipped lists with the length guard.  Axiom-free. *)
From Coq Require Import List ZArith Bool Lia.
From GS Require Import PyBase EqualsModel EqualsSpec.
Import ListNotations.

(* ------------------------------------------------------------------ generic list facts *)
Lemma Forall2_len {A B} (R : A -> B -> Prop) l1 l2 : Forall2 R l1 l2 -> length l1 = length l2.
Proof. induction 1; simpl; auto. Qed.

Lemma list_nat_eqb_eq a b : list_nat_eqb a b = true <-> a = b.
Proof.
  unfold list_nat_eqb. revert b. induction a as [|x a IH]; intros [|y b]; simpl; split; intros H; try reflexivity; try discriminate.
  - destruct (Nat.eqb (length a) (length b)) eqn:El; simpl in H; [|discriminate].
    apply andb_true_iff in H. destruct H as [H1 H2]. apply Nat.eqb_eq in H1. subst y. f_equal.
    apply IH. rewrite El. exact H2.
  - inversion H. subst. rewrite Nat.eqb_refl. simpl. rewrite Nat.eqb_refl. simpl.
    pose proof (proj2 (IH b) eq_refl) as H1. rewrite Nat.eqb_refl in H1. exact H1.
Qed.

Lemma ids_eq (a b : list Z) :
  (Nat.eqb (length a) (length b) = true /\ existsb (fun p => negb (Z.eqb (fst p) (snd p))) (combine a b) = false) <-> a = b.
Proof.
  revert b. induction a as [|x a IH]; intros [|y b]; simpl; split; intros H; try (destruct H; discriminate); try discriminate; auto.
  - destruct H as [H1 H2]. apply orb_false_iff in H2. destruct H2 as [H2 H3].
    apply negb_false_iff in H2. apply Z.eqb_eq in H2. subst y. f_equal. apply IH. auto.
  - inversion H. subst. rewrite Z.eqb_refl. simpl. apply IH. reflexivity.
Qed.

Lemma pkind_eqb_eq a b : pkind_eqb a b = true <-> a = b.
Proof. destruct a, b; simpl; split; intros H; try reflexivity; try discriminate. Qed.
Lemma eclass_eqb_eq a b : eclass_eqb a b = true <-> a = b.
Proof.
  destruct a, b; simpl; split; intros H; try reflexivity; try discriminate.
  - apply Nat.eqb_eq in H. subst. reflexivity.
  - inversion H. apply Nat.eqb_refl.
Qed.

Lemma vbool_true b : vbool b = VTrue <-> b = true.
Proof. destruct b; simpl; split; intros H; try reflexivity; discriminate. Qed.
Lemma vbool_noraise b e : vbool b <> VRaise e.
Proof. destruct b; discriminate. Qed.

(* all(...) over a zip *)
Lemma vall_map2_true {A} (f : A -> A -> verdict) a : forall b,
  length a = length b -> (vall (map2 f a b) = VTrue <-> Forall2 (fun x y => f x y = VTrue) a b).
Proof.
  unfold map2. induction a as [|x a IH]; intros [|y b] Hl; simpl in *; try discriminate.
  - split; [constructor|reflexivity].
  - injection Hl as Hl. destruct (f x y) eqn:E.
    + rewrite (IH b Hl). split; [intros H; constructor; assumption|intros H; inversion H; assumption].
    + split; [discriminate|]. intros H. inversion H. congruence.
    + split; [discriminate|]. intros H. inversion H. congruence.
Qed.
Lemma vall_map2_noraise {A} (f : A -> A -> verdict) (Q : A -> Prop) a b :
  Forall Q a -> Forall Q b -> (forall x y, Q x -> Q y -> forall e, f x y <> VRaise e) ->
  forall e, vall (map2 f a b) <> VRaise e.
Proof.
  unfold map2. intros Ha. revert b. induction Ha as [|x a Hx Ha IH]; intros b Hb Hf e; simpl; [discriminate|].
  destruct Hb as [|y b Hy Hb]; simpl; [discriminate|].
  destruct (f x y) eqn:E; [apply IH; assumption|discriminate|].
  exfalso. exact (Hf x y Hx Hy _ E).
Qed.

Lemma verdict_false_iff (v : verdict) (P : Prop) :
  (v = VTrue <-> P) -> (forall e, v <> VRaise e) -> (v = VFalse <-> ~ P).
Proof.
  intros Ht Hr. destruct v as [| |e].
  - split; [discriminate|]. intros Hn. exfalso. apply Hn. apply Ht. reflexivity.
  - split; [|reflexivity]. intros _ Hp. apply Ht in Hp. discriminate.
  - exfalso. exact (Hr e eq_refl).
Qed.

Section Struct.
  Variable T : Type.
  Variable sub : T -> T -> T.
  Variable small : list T -> list T -> bool.
  (* the numeric test on two arrays *)
  Definition cl (x y : list T) : Prop := small (map2 sub x y) x = true.

  Lemma bsub_same_len a b : length a = length b -> bsub sub a b = Some (map2 sub a b).
  Proof. intros H. unfold bsub. rewrite H, Nat.eqb_refl. reflexivity. Qed.

  (* ---------------------------------------------------------------- poses *)
  Lemma pose_total a b : wf_pose a -> wf_pose b -> forall e, pose_equals sub small a b <> VRaise e.
  Proof.
    unfold wf_pose, pose_equals. intros Ha Hb e.
    destruct (pkind_eqb (p_kind a) (p_kind b)) eqn:Ek; simpl; [|discriminate].
    apply pkind_eqb_eq in Ek. rewrite bsub_same_len by congruence. apply vbool_noraise.
  Qed.
  Lemma pose_true_rel a b : pose_rel cl a b -> pose_equals sub small a b = VTrue.
  Proof.
    intros [Hk [Hl Hc]]. unfold pose_equals. rewrite Hk, (proj2 (pkind_eqb_eq _ _) eq_refl). simpl.
    rewrite bsub_same_len by exact Hl. apply vbool_true. exact Hc.
  Qed.
  Lemma pose_rel_true a b : wf_pose a -> wf_pose b -> pose_equals sub small a b = VTrue -> pose_rel cl a b.
  Proof.
    unfold wf_pose, pose_equals. intros Ha Hb H.
    destruct (pkind_eqb (p_kind a) (p_kind b)) eqn:Ek; simpl in H; [|discriminate].
    apply pkind_eqb_eq in Ek. assert (Hl : length (p_num a) = length (p_num b)) by congruence.
    rewrite bsub_same_len in H by exact Hl. apply vbool_true in H. repeat split; assumption.
  Qed.
  Lemma pose_iff a b : wf_pose a -> wf_pose b -> (pose_equals sub small a b = VTrue <-> pose_rel cl a b).
  Proof. intros Ha Hb. split; [apply pose_rel_true; assumption|apply pose_true_rel]. Qed.

  (* ---------------------------------------------------------------- vertices *)
  Lemma vertex_total a b : wf_vertex a -> wf_vertex b -> forall e, vertex_equals sub small a b <> VRaise e.
  Proof.
    unfold wf_vertex, vertex_equals. intros Ha Hb e.
    destruct (Z.eqb (v_id a) (v_id b)); [|discriminate].
    destruct (pkind_eqb (p_kind (v_pose a)) (p_kind (v_pose b))); [|discriminate].
    apply pose_total; assumption.
  Qed.
  Lemma vertex_iff a b : wf_vertex a -> wf_vertex b -> (vertex_equals sub small a b = VTrue <-> vertex_rel cl a b).
  Proof.
    unfold wf_vertex, vertex_equals, vertex_rel. intros Ha Hb. split.
    - intros H. destruct (Z.eqb (v_id a) (v_id b)) eqn:Ei; [|discriminate].
      destruct (pkind_eqb (p_kind (v_pose a)) (p_kind (v_pose b))); [|discriminate].
      apply Z.eqb_eq in Ei. split; [exact Ei|apply pose_rel_true; assumption].
    - intros [Hi Hp]. rewrite Hi, Z.eqb_refl. destruct Hp as [Hk Hr]. rewrite Hk, (proj2 (pkind_eqb_eq _ _) eq_refl).
      apply pose_true_rel. split; assumption.
  Qed.

  (* ---------------------------------------------------------------- edges: BaseEdge.equals *)
  Lemma base_total a b : wf_est (e_est a) -> wf_est (e_est b) -> forall e, base_equals sub small a b <> VRaise e.
  Proof.
    unfold base_equals. intros Ha Hb e.
    destruct (negb (eclass_eqb (e_class a) (e_class b))); [discriminate|].
    destruct (negb (Nat.eqb (length (e_ids a)) (length (e_ids b)))); [discriminate|].
    destruct (existsb _ _); [discriminate|].
    destruct (_ || _); [discriminate|].
    destruct (e_est a) as [pa|xa], (e_est b) as [pb|xb]; simpl in *; try discriminate.
    - apply pose_total; assumption.
    - destruct (negb (list_nat_eqb (a_shape xa) (a_shape xb))); [discriminate|apply vbool_noraise].
  Qed.

  Definition base_rel (a b : edge T) : Prop :=
    e_class a = e_class b /\ e_ids a = e_ids b /\ arr_rel cl (e_info a) (e_info b) /\ est_rel cl (e_est a) (e_est b).

  Lemma base_iff a b : wf_est (e_est a) -> wf_est (e_est b) -> (base_equals sub small a b = VTrue <-> base_rel a b).
  Proof.
    unfold base_equals, base_rel. intros Ha Hb. split.
    - intros H.
      destruct (eclass_eqb (e_class a) (e_class b)) eqn:Ec; simpl in H; [|discriminate].
      destruct (Nat.eqb (length (e_ids a)) (length (e_ids b))) eqn:El; simpl in H; [|discriminate].
      destruct (existsb _ (combine (e_ids a) (e_ids b))) eqn:Ei; [discriminate|].
      destruct (list_nat_eqb (a_shape (e_info a)) (a_shape (e_info b))) eqn:Es; simpl in H; [|discriminate].
      destruct (arr_close sub small (e_info a) (e_info b)) eqn:Ecl; simpl in H; [|discriminate].
      apply eclass_eqb_eq in Ec. apply list_nat_eqb_eq in Es.
      split; [exact Ec|]. split; [apply ids_eq; auto|]. split; [split; [exact Es|exact Ecl]|].
      destruct (e_est a) as [pa|xa], (e_est b) as [pb|xb]; simpl in *; try discriminate.
      + apply pose_rel_true; assumption.
      + destruct (list_nat_eqb (a_shape xa) (a_shape xb)) eqn:Ex; simpl in H; [|discriminate].
        apply list_nat_eqb_eq in Ex. apply vbool_true in H. split; assumption.
    - intros [Hc [Hi [[Hs Hcl] He]]].
      rewrite (proj2 (eclass_eqb_eq _ _) Hc). simpl.
      destruct (proj2 (ids_eq _ _) Hi) as [H1 H2]. rewrite H1, H2. simpl.
      rewrite (proj2 (list_nat_eqb_eq _ _) Hs). simpl. unfold arr_close. unfold cl in Hcl. rewrite Hcl. simpl.
      destruct (e_est a) as [pa|xa], (e_est b) as [pb|xb]; simpl in *; try contradiction.
      + apply pose_true_rel. exact He.
      + destruct He as [Hx Hy]. rewrite (proj2 (list_nat_eqb_eq _ _) Hx). simpl. apply vbool_true. exact Hy.
  Qed.

  (* ---------------------------------------------------------------- edges: method resolution *)
  Lemma edge_total a b : wf_edge a -> wf_edge b -> forall e, edge_equals sub small a b <> VRaise e.
  Proof.
    intros [Hea Hoa] [Heb Hob] e. unfold edge_equals.
    destruct (e_class a) eqn:Ca; try (apply base_total; assumption).
    unfold landmark_equals. rewrite Ca.
    destruct (eclass_eqb Landmark (e_class b)) eqn:Ec; simpl; [|discriminate].
    apply eclass_eqb_eq in Ec. symmetry in Ec.
    destruct (Hoa eq_refl) as [pa [Epa Wpa]]. destruct (Hob Ec) as [pb [Epb Wpb]]. rewrite Epa, Epb. simpl.
    destruct (pkind_eqb (p_kind pa) (p_kind pb)); simpl; [|discriminate].
    destruct (pose_equals sub small pa pb) eqn:Ep; [|discriminate|exfalso; exact (pose_total _ _ Wpa Wpb _ Ep)].
    destruct (_ || _); [discriminate|]. apply base_total; assumption.
  Qed.

  Lemma offid_test (x y : option Z) :
    xorb (is_none x) (is_none y) || (negb (is_none x) && optZ_neb x y) = false <-> x = y.
  Proof.
    destruct x as [x|], y as [y|]; simpl; split; intros H; try discriminate; try reflexivity.
    - apply negb_false_iff in H. apply Z.eqb_eq in H. subst. reflexivity.
    - inversion H. rewrite Z.eqb_refl. reflexivity.
  Qed.

  Lemma edge_iff a b : wf_edge a -> wf_edge b -> (edge_equals sub small a b = VTrue <-> edge_rel cl a b).
  Proof.
    intros [Hea Hoa] [Heb Hob]. unfold edge_equals, edge_rel.
    destruct (e_class a) eqn:Ca.
    - rewrite (base_iff a b Hea Heb). unfold base_rel. rewrite Ca. split.
      + intros [H1 [H2 [H3 H4]]]. split; [exact H1|split; [exact H2|split; [exact H3|split; [exact H4|intros Hx; discriminate Hx]]]].
      + intros [H1 [H2 [H3 [H4 _]]]]. auto.
    - (* Landmark *)
      unfold landmark_equals. rewrite Ca. split.
      + intros H. destruct (eclass_eqb Landmark (e_class b)) eqn:Ec; simpl in H; [|discriminate].
        apply eclass_eqb_eq in Ec. symmetry in Ec.
        destruct (Hoa eq_refl) as [pa [Epa Wpa]]. destruct (Hob Ec) as [pb [Epb Wpb]]. rewrite Epa, Epb in H. simpl in H.
        destruct (pkind_eqb (p_kind pa) (p_kind pb)); simpl in H; [|discriminate].
        destruct (pose_equals sub small pa pb) eqn:Ep; try discriminate.
        destruct (xorb _ _ || _) eqn:Eo; [discriminate|].
        apply offid_test in Eo. apply (base_iff a b Hea Heb) in H. destruct H as [H1 [H2 [H3 H4]]].
        split; [congruence|]. split; [exact H2|]. split; [exact H3|]. split; [exact H4|]. intros _. split; [|exact Eo].
        exists pa, pb. split; [exact Epa|]. split; [exact Epb|]. apply pose_rel_true; assumption.
      + intros [H1 [H2 [H3 [H4 H5]]]]. destruct (H5 eq_refl) as [[pa [pb [Epa [Epb Hr]]]] Ho].
        rewrite <- H1, (proj2 (eclass_eqb_eq _ _) eq_refl). simpl. rewrite Epa, Epb. simpl.
        destruct Hr as [Hk Hr]. rewrite Hk, (proj2 (pkind_eqb_eq _ _) eq_refl). simpl.
        rewrite (pose_true_rel pa pb) by (split; assumption).
        rewrite (proj2 (offid_test _ _) Ho). apply (base_iff a b Hea Heb). unfold base_rel. rewrite Ca. auto.
    - rewrite (base_iff a b Hea Heb). unfold base_rel. rewrite Ca. split.
      + intros [H1 [H2 [H3 H4]]]. split; [exact H1|split; [exact H2|split; [exact H3|split; [exact H4|intros Hx; discriminate Hx]]]].
      + intros [H1 [H2 [H3 [H4 _]]]]. auto.
  Qed.

  (* ---------------------------------------------------------------- graphs *)
  Lemma graph_total a b : wf_graph a -> wf_graph b -> forall e, graph_equals sub small a b <> VRaise e.
  Proof.
    intros [Hea Hva] [Heb Hvb] e. unfold graph_equals.
    destruct (_ || _); [discriminate|].
    destruct (vall (map2 (edge_equals sub small) (g_edges a) (g_edges b))) eqn:E1; simpl; [|discriminate|].
    - apply (vall_map2_noraise _ wf_vertex); auto. intros x y Hx Hy. apply vertex_total; assumption.
    - exfalso. revert E1. apply (vall_map2_noraise _ wf_edge); auto. intros x y Hx Hy. apply edge_total; assumption.
  Qed.

  Lemma Forall2_wf_iff {A} (W : A -> Prop) (R1 R2 : A -> A -> Prop) a b :
    Forall W a -> Forall W b -> (forall x y, W x -> W y -> (R1 x y <-> R2 x y)) -> (Forall2 R1 a b <-> Forall2 R2 a b).
  Proof.
    intros Ha. revert b. induction Ha as [|x a Hx Ha IH]; intros b Hb Hr; split; intros H; inversion H; subst; try constructor.
    - inversion Hb; subst. apply (Hr x y); assumption.
    - inversion Hb; subst. apply (IH l'); assumption.
    - inversion Hb; subst. apply (Hr x y); assumption.
    - inversion Hb; subst. apply (IH l'); assumption.
  Qed.

  Lemma graph_iff a b : wf_graph a -> wf_graph b -> (graph_equals sub small a b = VTrue <-> graph_rel cl a b).
  Proof.
    intros [Hea Hva] [Heb Hvb]. unfold graph_equals, graph_rel. split.
    - intros H.
      destruct (Nat.eqb (length (g_edges a)) (length (g_edges b))) eqn:E1; simpl in H; [|discriminate].
      destruct (Nat.eqb (length (g_vertices a)) (length (g_vertices b))) eqn:E2; simpl in H; [|discriminate].
      apply Nat.eqb_eq in E1. apply Nat.eqb_eq in E2.
      destruct (vall (map2 (edge_equals sub small) (g_edges a) (g_edges b))) eqn:Ee; simpl in H; try discriminate.
      apply (vall_map2_true _ _ _ E1) in Ee. apply (vall_map2_true _ _ _ E2) in H.
      split.
      + apply (Forall2_wf_iff wf_edge (fun x y => edge_equals sub small x y = VTrue) (edge_rel cl)); auto.
        intros x y Hx Hy. apply edge_iff; assumption.
      + apply (Forall2_wf_iff wf_vertex (fun x y => vertex_equals sub small x y = VTrue) (vertex_rel cl)); auto.
        intros x y Hx Hy. apply vertex_iff; assumption.
    - intros [He Hv].
      pose proof (Forall2_len _ _ _ He) as E1. pose proof (Forall2_len _ _ _ Hv) as E2.
      rewrite E1, E2, !Nat.eqb_refl. simpl.
      assert (H1 : vall (map2 (edge_equals sub small) (g_edges a) (g_edges b)) = VTrue).
      { apply (vall_map2_true _ _ _ E1).
        apply (Forall2_wf_iff wf_edge (fun x y => edge_equals sub small x y = VTrue) (edge_rel cl)); auto.
        intros x y Hx Hy. apply edge_iff; assumption. }
      rewrite H1. simpl. apply (vall_map2_true _ _ _ E2).
      apply (Forall2_wf_iff wf_vertex (fun x y => vertex_equals sub small x y = VTrue) (vertex_rel cl)); auto.
      intros x y Hx Hy. apply vertex_iff; assumption.
  Qed.

  (* on well-formed objects the verdict is a boolean: not True means False *)
  Lemma graph_false_iff a b : wf_graph a -> wf_graph b -> (graph_equals sub small a b = VFalse <-> ~ graph_rel cl a b).
  Proof. intros Ha Hb. apply verdict_false_iff; [apply graph_iff|apply graph_total]; assumption. Qed.
  Lemma edge_false_iff a b : wf_edge a -> wf_edge b -> (edge_equals sub small a b = VFalse <-> ~ edge_rel cl a b).
  Proof. intros Ha Hb. apply verdict_false_iff; [apply edge_iff|apply edge_total]; assumption. Qed.
  Lemma vertex_false_iff a b : wf_vertex a -> wf_vertex b -> (vertex_equals sub small a b = VFalse <-> ~ vertex_rel cl a b).
  Proof. intros Ha Hb. apply verdict_false_iff; [apply vertex_iff|apply vertex_total]; assumption. Qed.
  Lemma pose_false_iff a b : wf_pose a -> wf_pose b -> (pose_equals sub small a b = VFalse <-> ~ pose_rel cl a b).
  Proof. intros Ha Hb. apply verdict_false_iff; [apply pose_iff|apply pose_total]; assumption. Qed.
End Struct.

(* ------------------------------------------------------------------ monotonicity of the relations in P *)
Section Mono.
  Variable T : Type.
  Variables P Q : list T -> list T -> Prop.
  (* only pairs of equal length matter for poses; arrays of equal shape have equal length when
     well-formed, but the implication is simply asked for all pairs here *)
  Hypothesis PQ : forall x y, P x y -> Q x y.
  Lemma pose_rel_mono a b : pose_rel P a b -> pose_rel Q a b.
  Proof. intros [H1 [H2 H3]]. repeat split; auto. Qed.
  Lemma arr_rel_mono a b : arr_rel P a b -> arr_rel Q a b.
  Proof. intros [H1 H2]. split; auto. Qed.
  Lemma est_rel_mono a b : est_rel P a b -> est_rel Q a b.
  Proof. destruct a, b; simpl; auto using pose_rel_mono, arr_rel_mono. Qed.
  Lemma edge_rel_mono a b : edge_rel P a b -> edge_rel Q a b.
  Proof.
    intros [H1 [H2 [H3 [H4 H5]]]].
    split; [exact H1|]. split; [exact H2|]. split; [apply arr_rel_mono; exact H3|]. split; [apply est_rel_mono; exact H4|].
    intros Hc. destruct (H5 Hc) as [[p [q [Hp [Hq Hr]]]] Ho]. split; [|exact Ho].
    exists p, q. auto using pose_rel_mono.
  Qed.
  Lemma vertex_rel_mono a b : vertex_rel P a b -> vertex_rel Q a b.
  Proof. intros [H1 H2]. split; auto using pose_rel_mono. Qed.
  Lemma graph_rel_mono a b : graph_rel P a b -> graph_rel Q a b.
  Proof.
    intros [H1 H2]. split.
    - induction H1; constructor; auto using edge_rel_mono.
    - induction H2; constructor; auto using vertex_rel_mono.
  Qed.
End Mono.

(* ------------------------------------------------------------------ reflexivity of the relations *)
Section Refl.
  Variable T : Type.
  Variable P : list T -> list T -> Prop.
  Hypothesis Prefl : forall x, P x x.
  Lemma pose_rel_refl a : pose_rel P a a.
  Proof. repeat split; auto. Qed.
  Lemma edge_rel_refl a : wf_edge a -> edge_rel P a a.
  Proof.
    intros [_ Ho]. split; [reflexivity|]. split; [reflexivity|]. split; [split; auto|]. split.
    - destruct (e_est a); simpl; [apply pose_rel_refl|split; auto].
    - intros Hc. destruct (Ho Hc) as [p [Hp _]]. split; [|reflexivity]. exists p, p. auto using pose_rel_refl.
  Qed.
  Lemma graph_rel_refl a : wf_graph a -> graph_rel P a a.
  Proof.
    intros [He Hv]. split.
    - induction He; constructor; auto using edge_rel_refl.
    - clear He. induction Hv; constructor; auto. split; auto using pose_rel_refl.
  Qed.
End Refl.

(* ------------------------------------------------------------------ symmetry of the relations *)
Section Sym.
  Variable T : Type.
  Variable P : list T -> list T -> Prop.
  Hypothesis Psym : forall x y, P x y -> P y x.
  Lemma pose_rel_sym a b : pose_rel P a b -> pose_rel P b a.
  Proof. intros [H1 [H2 H3]]. repeat split; auto. Qed.
  Lemma arr_rel_sym a b : arr_rel P a b -> arr_rel P b a.
  Proof. intros [H1 H2]. split; auto. Qed.
  Lemma est_rel_sym a b : est_rel P a b -> est_rel P b a.
  Proof. destruct a, b; simpl; auto using pose_rel_sym, arr_rel_sym. Qed.
  Lemma edge_rel_sym a b : edge_rel P a b -> edge_rel P b a.
  Proof.
    intros [H1 [H2 [H3 [H4 H5]]]].
    split; [auto|]. split; [auto|]. split; [apply arr_rel_sym; exact H3|]. split; [apply est_rel_sym; exact H4|].
    intros Hc. rewrite <- H1 in Hc. destruct (H5 Hc) as [[p [q [Hp [Hq Hr]]]] Ho]. split; [|auto].
    exists q, p. auto using pose_rel_sym.
  Qed.
  Lemma vertex_rel_sym a b : vertex_rel P a b -> vertex_rel P b a.
  Proof. intros [H1 H2]. split; auto using pose_rel_sym. Qed.
  Lemma graph_rel_sym a b : graph_rel P a b -> graph_rel P b a.
  Proof.
    intros [H1 H2]. split.
    - induction H1; constructor; auto using edge_rel_sym.
    - induction H2; constructor; auto using vertex_rel_sym.
  Qed.
End Sym.
