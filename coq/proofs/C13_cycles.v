(* C13_cycles.v -- canon is idempotent (repeated export/import cycles add nothing); the enumerated causes
   of refusal; satisfiability examples. *)
From Coq Require Import List ZArith String Ascii Bool Arith Lia.
From GS Require Import G2OModel G2OSpec C14_text C14_import C14_fields C13_lines C13_roundtrip.
Import ListNotations.
Open Scope string_scope.
Open Scope list_scope.
Open Scope nat_scope.

Section Cycles.
  Variable num : Type.
  Variable wrap : num -> num.
  Variable normq : list num -> list num.
  Variable zero : num.
  Variable eq0 : num -> bool.
  Variable eqn : num -> num -> bool.
  Hypothesis wrap_idem : forall x, wrap (wrap x) = wrap x.
  Hypothesis normq_idem : forall q, normq (normq q) = normq q.

  Notation canon := (canon num wrap normq zero eqn).
  Notation canon_vertex := (canon_vertex num wrap).
  Notation canon_param := (canon_param num wrap).
  Notation canon_edge := (canon_edge num wrap normq zero).
  Notation add_offsets := (add_offsets num eqn).
  Notation wf := (wf num).
  Notation wf_edge := (wf_edge num).
  Notation expressible := (expressible num eq0 eqn).
  Notation offsets_ok := (offsets_ok num eqn).
  Notation plookup := (plookup num).
  Notation wrap3 := (wrap3 num wrap).
  Notation normq7 := (normq7 num normq).

  Lemma wrap3_idem : forall l, wrap3 (wrap3 l) = wrap3 l.
  Proof. intros [|x [|y [|t [|u r]]]]; simpl; try reflexivity. now rewrite wrap_idem. Qed.
  Lemma normq7_idem : forall l, 3 <= List.length l -> normq7 (normq7 l) = normq7 l.
  Proof.
    intros l H. unfold G2OModel.normq7.
    assert (L : List.length (firstn 3 l) = 3) by (rewrite firstn_length; lia).
    rewrite firstn_app_exact by exact L. rewrite skipn_app_exact by exact L. now rewrite normq_idem.
  Qed.
  Lemma canon_vertex_idem : forall v, canon_vertex (canon_vertex v) = canon_vertex v.
  Proof. intros [i k val]. unfold G2OModel.canon_vertex. simpl. destruct k; simpl; try reflexivity. now rewrite wrap3_idem. Qed.
  Lemma canon_param_idem : forall p, canon_param (canon_param p) = canon_param p.
  Proof. intros [[pk i] val]. unfold G2OModel.canon_param. simpl. destruct pk; simpl; try reflexivity. now rewrite wrap3_idem. Qed.
  Lemma canon_edge_idem : forall ps e, wf_edge e -> canon_edge ps (canon_edge ps e) = canon_edge ps e.
  Proof.
    intros ps [k i j est info | ko ke i j est info off oid | ct ids est info] H; simpl in *; try reflexivity.
    - destruct k; simpl; try reflexivity.
      + now rewrite wrap3_idem.
      + destruct H as [L _]. simpl in L. rewrite normq7_idem by lia. reflexivity.
    - destruct ko; simpl; try reflexivity. destruct oid as [o|]; simpl; [|reflexivity].
      destruct (plookup ps (PSE3, o)) as [v|] eqn:E; simpl; rewrite ?E; reflexivity.
  Qed.
  Lemma is_unwritten_canon : forall ps e, is_unwritten num (canon_edge ps e) = is_unwritten num e.
  Proof.
    intros ps [k i j est info | ko ke i j est info off oid | ct ids est info]; simpl; try reflexivity.
    - destruct k; reflexivity.
    - destruct ko; try reflexivity. destruct oid; reflexivity.
  Qed.
  Lemma filter_idem_map : forall ps es,
    filter (fun e => negb (is_unwritten num e)) (map (canon_edge ps) (filter (fun e => negb (is_unwritten num e)) es))
    = map (canon_edge ps) (filter (fun e => negb (is_unwritten num e)) es).
  Proof.
    intros ps. induction es as [|e r IH]; [reflexivity|]. simpl.
    destruct (negb (is_unwritten num e)) eqn:E; [|exact IH].
    simpl. rewrite is_unwritten_canon, E. now rewrite IH.
  Qed.

  (* once every SE(3) landmark edge finds its id in the dictionary, the writer's loop adds nothing *)
  Lemma add_offsets_resolved : forall es ps ps',
    Forall (fun e => match e with
                     | ELmk KSE3 _ _ _ _ _ _ oid => exists o v, oid = Some o /\ plookup ps (PSE3, o) = Some v
                     | _ => True end) es ->
    add_offsets ps es = Ok ps' -> ps' = ps.
  Proof.
    induction es as [|e r IH]; intros ps ps' H Ha; simpl in Ha; [now inversion Ha|].
    apply Forall_cons_iff in H. destruct H as [He Hr].
    destruct e as [k i j est info | ko ke i j est info off oid | ct ids est info]; try (now apply IH).
    destruct ko; try (now apply IH).
    destruct He as (o & v & -> & Hl). rewrite Hl in Ha.
    destruct (list_eqn num eqn v off); [now apply IH | discriminate].
  Qed.

  (* C13_cycles *)
  Theorem canon_idem : forall g, wf g -> expressible g -> canon (canon g) = canon g.
  Proof.
    intros g (Hnd & Hwp & Hwv & Hwe & Hcg) [_ Hoff].
    apply (offsets_ok_iff num eqn) in Hoff. destruct Hoff as [ps Hps].
    destruct (add_offsets_spec num eqn _ _ _ Hps Hnd Hwp Hwe) as (_ & _ & _ & Hres).
    assert (Hc : G2OModel.canon num wrap normq zero eqn g
                 = mkG (map canon_param ps) (map canon_vertex (g_verts g))
                       (map (canon_edge (map canon_param ps)) (filter (fun e => negb (is_unwritten num e)) (g_edges g)))).
    { unfold G2OModel.canon, export_params. now rewrite Hps. }
    rewrite Hc. unfold G2OModel.canon, export_params. cbn [g_params g_verts g_edges].
    set (P := map canon_param ps). set (E := map (canon_edge P) (filter (fun e => negb (is_unwritten num e)) (g_edges g))).
    assert (HP : (match add_offsets P E with Ok q => q | Error _ => P end) = P).
    { destruct (add_offsets P E) as [q|] eqn:Eq; [|reflexivity].
      apply (add_offsets_resolved E P q); [|exact Eq].
      unfold E. rewrite Forall_map. apply Forall_forall. intros e Hin. apply filter_In in Hin. destruct Hin as [Hin _].
      rewrite Forall_forall in Hres. specialize (Hres e Hin).
      destruct e as [k i j est info | ko ke i j est info off oid | ct ids est info]; simpl; auto.
      - destruct k; exact I.
      - destruct ko; simpl; auto. destruct Hres as (o & v & -> & Hl). simpl.
        exists o. unfold P. rewrite (plookup_canon_se3 num wrap). rewrite Hl. eauto. }
    rewrite !HP.
    assert (HPP : map canon_param P = P).
    { subst P. rewrite map_map. apply map_ext. apply canon_param_idem. }
    rewrite HPP. f_equal.
    - rewrite map_map. apply map_ext. apply canon_vertex_idem.
    - subst E. rewrite filter_idem_map. rewrite map_map. apply map_ext_in.
      intros e Hin. apply filter_In in Hin. destruct Hin as [Hin _].
      apply canon_edge_idem. rewrite Forall_forall in Hwe. now apply Hwe.
  Qed.
End Cycles.

(* ---------------- the enumerated causes of refusal ---------------- *)
Section Refuses.
  Variable num : Type.
  Variable eq0 : num -> bool.
  Variable eqn : num -> num -> bool.
  Notation expressible := (expressible num eq0 eqn).
  Notation offsets_ok := (offsets_ok num eqn).
  Notation plookup := (plookup num).

  Lemma offsets_ok_spec : forall es ps, offsets_ok ps es ->
    forall ke i j est info off oid, In (ELmk KSE3 ke i j est info off oid) es ->
      exists o, oid = Some o /\ forall v, plookup ps (PSE3, o) = Some v -> list_eqn num eqn v off = true.
  Proof.
    induction es as [|e r IH]; intros ps H ke i j est info off oid Hin; [contradiction|].
    destruct Hin as [->|Hin].
    - simpl in H. destruct oid as [o|]; [|contradiction]. exists o. split; [reflexivity|].
      intros v Hv. rewrite Hv in H. tauto.
    - assert (Hmono : forall ps', offsets_ok ps' r -> (forall k v, plookup ps k = Some v -> plookup ps' k = Some v) ->
                exists o, oid = Some o /\ forall v, plookup ps (PSE3, o) = Some v -> list_eqn num eqn v off = true).
      { intros ps' H' Hm. destruct (IH ps' H' ke i j est info off oid Hin) as (o & -> & Ho).
        exists o. split; [reflexivity|]. intros v Hv. apply Ho. now apply Hm. }
      destruct e as [k i' j' est' info' | ko ke' i' j' est' info' off' oid' | ct ids est' info'];
        try (apply (Hmono ps); [exact H | auto]).
      destruct ko; try (apply (Hmono ps); [exact H | auto]).
      simpl in H. destruct oid' as [o'|]; [|contradiction].
      destruct (plookup ps (PSE3, o')) as [v'|] eqn:E.
      + apply (Hmono ps); [tauto | auto].
      + apply (Hmono (ps ++ [((PSE3, o'), off')])); [exact H|]. intros k v Hk. now apply plookup_app_some.
  Qed.

  (* R^2 / R^3 odometry edge; R^n landmark edge; SE(2) landmark edge with a non-identity offset;
     SE(3) landmark edge without offset_id; SE(3) landmark edge whose offset differs from the dictionary's *)
  Lemma not_expressible_cases : forall g,
    (exists k i j est info, In (EOdo k i j est info) (g_edges g) /\ (k = KR2 \/ k = KR3)) \/
    (exists ko ke i j est info off oid, In (ELmk ko ke i j est info off oid) (g_edges g) /\ (ko = KR2 \/ ko = KR3)) \/
    (exists ke i j est info off oid, In (ELmk KSE2 ke i j est info off oid) (g_edges g) /\ is_ident_se2 num eq0 off = false) \/
    (exists ke i j est info off, In (ELmk KSE3 ke i j est info off None) (g_edges g)) \/
    (exists ke i j est info off o v, In (ELmk KSE3 ke i j est info off (Some o)) (g_edges g) /\
                                     plookup (g_params g) (PSE3, o) = Some v /\ list_eqn num eqn v off = false) ->
    ~ expressible g.
  Proof.
    intros g H [He Ho]. rewrite Forall_forall in He.
    destruct H as [(k & i & j & est & info & Hin & Hk) | [(ko & ke & i & j & est & info & off & oid & Hin & Hk) |
                  [(ke & i & j & est & info & off & oid & Hin & Hk) | [(ke & i & j & est & info & off & Hin) |
                  (ke & i & j & est & info & off & o & v & Hin & Hl & Hk)]]]].
    - specialize (He _ Hin). simpl in He. destruct Hk as [-> | ->]; destruct He; discriminate.
    - specialize (He _ Hin). simpl in He. destruct Hk as [-> | ->]; destruct He as [[? _]|?]; discriminate.
    - specialize (He _ Hin). simpl in He. destruct He as [[_ E]|E]; [congruence | discriminate].
    - destruct (offsets_ok_spec _ _ Ho _ _ _ _ _ _ _ Hin) as (o & E & _). discriminate.
    - destruct (offsets_ok_spec _ _ Ho _ _ _ _ _ _ _ Hin) as (o' & E & Hv). inversion E; subst o'.
      rewrite (Hv v Hl) in Hk. discriminate.
  Qed.
End Refuses.

(* ---------------- a refused export writes nothing ---------------- *)
Section NoFile.
  Variable num : Type.
  Variable print : num -> string.
  Variable print_id : Z -> string.
  Variable eq0 : num -> bool.
  Variable eqn : num -> num -> bool.
  Lemma refusal_leaves_no_file : forall g,
    (exists e, export num print print_id eq0 eqn g = Error e) -> export_file num print print_id eq0 eqn g = None.
  Proof. intros g [e H]. unfold export_file. now rewrite H. Qed.
  Lemma success_writes_all : forall g ls,
    export num print print_id eq0 eqn g = Ok ls -> export_file num print print_id eq0 eqn g = Some ls.
  Proof. intros g ls H. unfold export_file. now rewrite H. Qed.
End NoFile.

(* ---------------- n cycles ---------------- *)
Section CyclesN.
  Variable num : Type.
  Variable print : num -> string.
  Variable parse : string -> option num.
  Variable print_id : Z -> string.
  Variable parse_id : string -> option Z.
  Variable wrap : num -> num.
  Variable normq : list num -> list num.
  Variable zero : num.
  Variable eq0 : num -> bool.
  Variable eqn : num -> num -> bool.
  Hypothesis parse_print : forall x, parse (print x) = Some x.
  Hypothesis parse_print_id : forall z, parse_id (print_id z) = Some z.
  Hypothesis print_good : forall x, good_tok (print x).
  Hypothesis print_id_good : forall z, good_tok (print_id z).
  Hypothesis wrap_idem : forall x, wrap (wrap x) = wrap x.
  Hypothesis normq_idem : forall q, normq (normq q) = normq q.
  Hypothesis normq_length : forall q, List.length (normq q) = List.length q.
  Hypothesis eq0_zero : eq0 zero = true.

  Notation canon := (canon num wrap normq zero eqn).
  Notation canon_vertex := (canon_vertex num wrap).
  Notation canon_param := (canon_param num wrap).
  Notation canon_edge := (canon_edge num wrap normq zero).
  Notation add_offsets := (add_offsets num eqn).
  Notation wf := (wf num).
  Notation wf_edge := (wf_edge num).
  Notation expressible := (expressible num eq0 eqn).
  Notation edge_expressible := (edge_expressible num eq0).
  Notation offsets_ok := (offsets_ok num eqn).
  Notation plookup := (plookup num).
  Notation wrap3 := (wrap3 num wrap).
  Notation normq7 := (normq7 num normq).
  Notation cycle := (cycle num print parse print_id parse_id wrap normq zero eq0 eqn).
  Notation iter_cycle := (iter_cycle num print parse print_id parse_id wrap normq zero eq0 eqn).
  Notation offs_refl := (offs_refl num eqn).
  Notation keep := (fun e : edge num => negb (is_unwritten num e)).

  Lemma wrap3_length : forall l, List.length (wrap3 l) = List.length l.
  Proof. intros [|x [|y [|t [|u r]]]]; reflexivity. Qed.
  Lemma normq7_length : forall l, List.length l = 7 -> List.length (normq7 l) = 7.
  Proof.
    intros l H. unfold G2OModel.normq7. rewrite app_length, normq_length, firstn_length, skipn_length. lia.
  Qed.
  Lemma plookup_in : forall (ps : params num) k v, plookup ps k = Some v -> In (k, v) ps.
  Proof.
    induction ps as [|[k' v'] r IH]; intros k v H; simpl in *; [discriminate|].
    destruct (pkey_eqb k' k) eqn:E.
    - apply pkey_eqb_eq in E. inversion H; subst. now left.
    - right. now apply IH.
  Qed.

  (* the shape of canon g when the writer's loop succeeds *)
  Lemma canon_shape : forall g ps, add_offsets (g_params g) (g_edges g) = Ok ps ->
    canon g = mkG (map canon_param ps) (map canon_vertex (g_verts g))
                  (map (canon_edge (map canon_param ps)) (filter keep (g_edges g))).
  Proof. intros g ps H. unfold G2OModel.canon, export_params. now rewrite H. Qed.

  Lemma offsets_ok_resolved : forall es ps,
    Forall (fun e => match e with
                     | ELmk KSE3 _ _ _ _ _ off oid => exists o, oid = Some o /\ plookup ps (PSE3, o) = Some off /\ list_eqn num eqn off off = true
                     | _ => True end) es ->
    offsets_ok ps es.
  Proof.
    induction es as [|e r IH]; intros ps H; [exact I|].
    apply Forall_cons_iff in H. destruct H as [He Hr].
    destruct e as [k i j est info | ko ke i j est info off oid | ct ids est info]; try (now apply IH).
    destruct ko; try (now apply IH).
    destruct He as (o & -> & Hl & Hq). simpl. rewrite Hl. split; [exact Hq | now apply IH].
  Qed.

  (* canon g is again a graph the theorem applies to *)
  Lemma canon_preserves : forall g,
    wf g -> expressible g -> no_written_custom num g -> offs_refl g ->
    wf (canon g) /\ expressible (canon g) /\ no_written_custom num (canon g).
  Proof.
    intros g (Hnd & Hwp & Hwv & Hwe & Hcg) [Hee Hoff] Hnc Hrefl.
    apply (offsets_ok_iff num eqn) in Hoff. destruct Hoff as [ps Hps].
    destruct (add_offsets_spec num eqn _ _ _ Hps Hnd Hwp Hwe) as (Hnd' & Hwp' & _ & Hres).
    unfold G2OSpec.offs_refl, export_params in Hrefl. rewrite Hps in Hrefl.
    rewrite (canon_shape g ps Hps).
    set (P := map canon_param ps).
    assert (HwpP : Forall (wf_param num) P).
    { subst P. rewrite Forall_map. eapply Forall_impl; [|exact Hwp'].
      intros [[pk i] v]. unfold wf_param. simpl. destruct pk; simpl; [now rewrite wrap3_length | auto]. }
    assert (Hlk : forall o v, plookup P (PSE3, o) = Some v -> List.length v = 7 /\ list_eqn num eqn v v = true).
    { intros o v Hl. split.
      - apply plookup_in in Hl. rewrite Forall_forall in HwpP. apply (HwpP _ Hl).
      - subst P. rewrite (plookup_canon_se3 num wrap) in Hl. now apply (Hrefl o). }
    unfold no_written_custom in Hnc. rewrite Forall_forall in Hres, Hwe, Hee, Hnc.
    split; [|split].
    - (* wf *)
      unfold G2OSpec.wf. cbn [g_params g_verts g_edges]. split; [|split; [|split; [|split]]].
      + subst P. rewrite map_map. simpl. exact Hnd'.
      + exact HwpP.
      + rewrite Forall_map. eapply Forall_impl; [|exact Hwv].
        intros [i k v]. unfold wf_vertex. simpl. destruct k; simpl; auto. now rewrite wrap3_length.
      + rewrite Forall_map. apply Forall_forall. intros e Hin. apply filter_In in Hin. destruct Hin as [Hin _].
        specialize (Hwe e Hin). specialize (Hres e Hin).
        destruct e as [k i j est info | ko ke i j est info off oid | ct ids est info]; simpl in *; auto.
        * destruct k; simpl; auto; destruct Hwe as [L S]; split; auto; [now rewrite wrap3_length | now apply normq7_length].
        * destruct ko; simpl; auto.
          -- destruct Hwe as (L1 & L2 & S). repeat split; auto.
          -- destruct Hres as (o & v & -> & Hl). destruct Hwe as (L1 & L2 & S).
             destruct (plookup P (PSE3, o)) as [v'|] eqn:E; simpl; repeat split; auto.
             apply (Hlk o v' E).
      + apply check_graph_canon. exact Hcg.
    - (* expressible *)
      unfold G2OSpec.expressible. cbn [g_params g_edges]. split.
      + rewrite Forall_map. apply Forall_forall. intros e Hin. apply filter_In in Hin. destruct Hin as [Hin _].
        specialize (Hee e Hin).
        destruct e as [k i j est info | ko ke i j est info off oid | ct ids est info]; simpl in *; auto.
        * destruct k; simpl; auto.
        * destruct ko; simpl; auto.
          -- left. split; [reflexivity|]. unfold is_ident_se2, ident_se2. simpl. now rewrite eq0_zero.
          -- destruct oid; simpl; auto.
      + apply offsets_ok_resolved. rewrite Forall_map. apply Forall_forall. intros e Hin.
        apply filter_In in Hin. destruct Hin as [Hin _]. specialize (Hres e Hin).
        destruct e as [k i j est info | ko ke i j est info off oid | ct ids est info]; simpl in *; auto.
        * destruct k; exact I.
        * destruct ko; simpl; auto. destruct Hres as (o & v & -> & Hl). simpl.
          assert (E : plookup P (PSE3, o) = Some v) by (subst P; now rewrite (plookup_canon_se3 num wrap)).
          rewrite E. exists o. split; [reflexivity|]. split; [exact E | apply (Hlk o v E)].
    - (* no written custom edge *)
      unfold no_written_custom. cbn [g_edges]. rewrite Forall_map. apply Forall_forall. intros e Hin.
      apply filter_In in Hin. destruct Hin as [Hin _]. specialize (Hnc e Hin).
      destruct e as [k i j est info | ko ke i j est info off oid | ct ids est info]; simpl in *; auto.
      * destruct k; exact I.
      * destruct ko; simpl; auto. destruct oid; exact I.
  Qed.

  Lemma cycle_canon : forall cts g, cts_ok cts -> wf g -> no_written_custom num g -> expressible g ->
    cycle cts g = Some (canon g).
  Proof.
    intros cts g Hc Hw Hn He.
    destruct (roundtrip num print parse print_id parse_id wrap normq zero eq0 eqn
                parse_print parse_print_id print_good print_id_good cts g Hc Hw Hn He) as (ls & H1 & H2).
    unfold G2OSpec.cycle. now rewrite H1, H2.
  Qed.

  (* C13_cycles_n: any number n >= 1 of export/import cycles yields canon g *)
  Theorem cycles_n : forall cts g n,
    cts_ok cts -> wf g -> no_written_custom num g -> expressible g -> offs_refl g ->
    iter_cycle cts (S n) g = Some (canon g).
  Proof.
    intros cts g n Hc Hw Hn He Hr. cbn [G2OSpec.iter_cycle]. rewrite (cycle_canon cts g Hc Hw Hn He).
    destruct (canon_preserves g Hw He Hn Hr) as (Hw' & He' & Hn').
    assert (Hfix : cycle cts (canon g) = Some (canon g)).
    { rewrite (cycle_canon cts (canon g) Hc Hw' Hn' He').
      now rewrite (canon_idem num wrap normq zero eq0 eqn wrap_idem normq_idem g Hw He). }
    induction n as [|m IH]; [reflexivity|]. cbn [G2OSpec.iter_cycle]. now rewrite Hfix.
  Qed.
End CyclesN.

(* ---------------- the hypotheses are satisfiable ---------------- *)
Section Examples.
  (* numbers = Z, printed in unary-free style through an injective toy printer: "n" followed by |z| copies of "1",
     with "-" for negatives; parse inverts it on the image.  Only used to show the hypotheses are consistent. *)
  Definition ex_info3 : list (list Z) := [[1; 2; 3]; [2; 4; 5]; [3; 5; 6]]%Z.
  Example ex_symm : symm 3 ex_info3.
  Proof. simpl. repeat split; reflexivity. Qed.
  Example ex_unpack_pack : unpack 3 (pack ex_info3) = ex_info3.
  Proof. reflexivity. Qed.

  Definition ex_graph : graph Z :=
    mkG [((PSE3, 7%Z), [1; 2; 3; 0; 0; 0; 1]%Z)]
        [mkV 1%Z KSE2 [1; 2; 3]%Z; mkV 2%Z KSE2 [4; 5; 6]%Z; mkV 3%Z KR2 [7; 8]%Z;
         mkV 4%Z KSE3 [1; 2; 3; 0; 0; 0; 1]%Z; mkV 5%Z KR3 [1; 2; 3]%Z]
        [EOdo KSE2 1%Z 2%Z [1; 1; 1]%Z ex_info3;
         ELmk KSE2 KR2 1%Z 3%Z [5; 5]%Z [[1; 2]; [2; 3]]%Z [0; 0; 0]%Z None;
         ELmk KSE3 KR3 4%Z 5%Z [5; 5; 5]%Z ex_info3 [1; 2; 3; 0; 0; 0; 1]%Z (Some 7%Z);
         ELmk KSE3 KR3 4%Z 5%Z [5; 5; 5]%Z ex_info3 [9; 9; 9; 0; 0; 0; 1]%Z (Some 8%Z)].
  Example ex_wf : wf Z ex_graph.
  Proof.
    unfold wf, ex_graph; simpl. split; [|split; [|split; [|split]]].
    - constructor; [simpl; tauto | constructor].
    - repeat constructor.
    - repeat constructor.
    - repeat (constructor; [simpl; repeat split; reflexivity|]). constructor.
    - reflexivity.
  Qed.
  Example ex_expressible : expressible Z (Z.eqb 0) Z.eqb ex_graph.
  Proof.
    unfold expressible, ex_graph; simpl. split.
    - constructor; [left; reflexivity|]. constructor; [left; split; reflexivity|].
      constructor; [right; reflexivity|]. constructor; [right; reflexivity|]. constructor.
    - simpl. tauto.
  Qed.
  Example ex_no_custom : no_written_custom Z ex_graph.
  Proof. unfold no_written_custom, ex_graph; simpl. repeat constructor. Qed.
  Example ex_cts_ok : cts_ok [mkCT "TestEdge" 1 2 2 true true; mkCT "EDGE_SE2" 2 3 3 false false].
  Proof.
    unfold cts_ok. constructor; [|constructor; [|constructor]].
    - simpl. intros _. split; [reflexivity|]. intros H. repeat (destruct H as [H|H]; [discriminate|]). exact H.
    - simpl. intros H. discriminate.
  Qed.
  (* a refused graph of each enumerated class exists: here an SE(2) landmark edge with a non-identity offset *)
  Definition ex_refused : graph Z :=
    mkG [] [mkV 1%Z KSE2 [1; 2; 3]%Z; mkV 3%Z KR2 [7; 8]%Z]
        [ELmk KSE2 KR2 1%Z 3%Z [5; 5]%Z [[1; 2]; [2; 3]]%Z [0; 1; 0]%Z None].
  Example ex_refused_not_expressible : ~ expressible Z (Z.eqb 0) Z.eqb ex_refused.
  Proof.
    apply not_expressible_cases. right. right. left.
    exists KR2, 1%Z, 3%Z, [5; 5]%Z, [[1; 2]; [2; 3]]%Z, [0; 1; 0]%Z, None. split; [left; reflexivity | reflexivity].
  Qed.
  Example ex_offs_refl : offs_refl Z Z.eqb ex_graph.
  Proof.
    unfold offs_refl. intros o v H.
    set (ps := export_params Z Z.eqb ex_graph) in H. vm_compute in ps. subst ps.
    apply plookup_in in H. destruct H as [H|[H|[]]]; inversion H; reflexivity.
  Qed.
  Example ex_seps : seps_ok [("12", "  " ++ String (ascii_of_nat 9) ""); ("3.5", " "); ("-1e3", String (ascii_of_nat 13) nl)]%string.
  Proof. simpl. repeat split; try discriminate; reflexivity. Qed.
End Examples.
