(* C13_cycles.v -- canon is idempotent (repeated export/import cycles add nothing); the enumerated causes
   of refusal; satisfiability examples. *)
From Coq Require Import List ZArith String Ascii Bool Arith Lia.
From GS Require Import G2OModel G2OSpec C14_text C14_import C14_fields C13_lines C13_roundtrip.
Import ListNotations.
Open Scope string_scope.
Open Scope list_scope.
Open Scope nat_scope.

Section Cycles.
  Variable num : Type.
  Variable wrap : num -> num.
  Variable normq : list num -> list num.
  Variable zero : num.
  Variable eq0 : num -> bool.
  Variable eqn : num -> num -> bool.
  Hypothesis wrap_idem : forall x, wrap (wrap x) = wrap x.
  Hypothesis normq_idem : forall q, normq (normq q) = normq q.

  Notation canon := (canon num wrap normq zero eqn).
  Notation canon_vertex := (canon_vertex num wrap).
  Notation canon_param := (canon_param num wrap).
  Notation canon_edge := (canon_edge num wrap normq zero).
  Notation add_offsets := (add_offsets num eqn).
  Notation wf := (wf num).
  Notation wf_edge := (wf_edge num).
  Notation expressible := (expressible num eq0 eqn).
  Notation offsets_ok := (offsets_ok num eqn).
  Notation plookup := (plookup num).
  Notation wrap3 := (wrap3 num wrap).
  Notation normq7 := (normq7 num normq).

  Lemma wrap3_idem : forall l, wrap3 (wrap3 l) = wrap3 l.
  Proof. intros [|x [|y [|t [|u r]]]]; simpl; try reflexivity. now rewrite wrap_idem. Qed.
  Lemma normq7_idem : forall l, 3 <= List.length l -> normq7 (normq7 l) = normq7 l.
  Proof.
    intros l H. unfold G2OModel.normq7.
    assert (L : List.length (firstn 3 l) = 3) by (rewrite firstn_length; lia).
    rewrite firstn_app_exact by exact L. rewrite skipn_app_exact by exact L. now rewrite normq_idem.
  Qed.
  Lemma canon_vertex_idem : forall v, canon_vertex (canon_vertex v) = canon_vertex v.
  Proof. intros [i k val]. unfold G2OModel.canon_vertex. simpl. destruct k; simpl; try reflexivity. now rewrite wrap3_idem. Qed.
  Lemma canon_param_idem : forall p, canon_param (canon_param p) = canon_param p.
  Proof. intros [[pk i] val]. unfold G2OModel.canon_param. simpl. destruct pk; simpl; try reflexivity. now rewrite wrap3_idem. Qed.
  Lemma canon_edge_idem : forall ps e, wf_edge e -> canon_edge ps (canon_edge ps e) = canon_edge ps e.
  Proof.
    intros ps [k i j est info | ko ke i j est info off oid | ct ids est info] H; simpl in *; try reflexivity.
    - destruct k; simpl; try reflexivity.
      + now rewrite wrap3_idem.
      + destruct H as [L _]. simpl in L. rewrite normq7_idem by lia. reflexivity.
    - destruct ko; simpl; try reflexivity. destruct oid as [o|]; simpl; [|reflexivity].
      destruct (plookup ps (PSE3, o)) as [v|] eqn:E; simpl; rewrite ?E; reflexivity.
  Qed.
  Lemma is_unwritten_canon : forall ps e, is_unwritten num (canon_edge ps e) = is_unwritten num e.
  Proof.
    intros ps [k i j est info | ko ke i j est info off oid | ct ids est info]; simpl; try reflexivity.
    - destruct k; reflexivity.
    - destruct ko; try reflexivity. destruct oid; reflexivity.
  Qed.
  Lemma filter_idem_map : forall ps es,
    filter (fun e => negb (is_unwritten num e)) (map (canon_edge ps) (filter (fun e => negb (is_unwritten num e)) es))
    = map (canon_edge ps) (filter (fun e => negb (is_unwritten num e)) es).
  Proof.
    intros ps. induction es as [|e r IH]; [reflexivity|]. simpl.
    destruct (negb (is_unwritten num e)) eqn:E; [|exact IH].
    simpl. rewrite is_unwritten_canon, E. now rewrite IH.
  Qed.

  (* once every SE(3) landmark edge finds its id in the dictionary, the writer's loop adds nothing *)
  Lemma add_offsets_resolved : forall es ps ps',
    Forall (fun e => match e with
                     | ELmk KSE3 _ _ _ _ _ _ oid => exists o v, oid = Some o /\ plookup ps (PSE3, o) = Some v
                     | _ => True end) es ->
    add_offsets ps es = Ok ps' -> ps' = ps.
  Proof.
    induction es as [|e r IH]; intros ps ps' H Ha; simpl in Ha; [now inversion Ha|].
    apply Forall_cons_iff in H. destruct H as [He Hr].
    destruct e as [k i j est info | ko ke i j est info off oid | ct ids est info]; try (now apply IH).
    destruct ko; try (now apply IH).
    destruct He as (o & v & -> & Hl). rewrite Hl in Ha.
    destruct (list_eqn num eqn v off); [now apply IH | discriminate].
  Qed.

  (* C13_cycles *)
  Theorem canon_idem : forall g, wf g -> expressible g -> canon (canon g) = canon g.
  Proof.
    intros g (Hnd & Hwp & Hwv & Hwe & Hcg) [_ Hoff].
    apply (offsets_ok_iff num eqn) in Hoff. destruct Hoff as [ps Hps].
    destruct (add_offsets_spec num eqn _ _ _ Hps Hnd Hwp Hwe) as (_ & _ & _ & Hres).
    assert (Hc : G2OModel.canon num wrap normq zero eqn g
                 = mkG (map canon_param ps) (map canon_vertex (g_verts g))
                       (map (canon_edge (map canon_param ps)) (filter (fun e => negb (is_unwritten num e)) (g_edges g)))).
    { unfold G2OModel.canon, export_params. now rewrite Hps. }
    rewrite Hc. unfold G2OModel.canon, export_params. cbn [g_params g_verts g_edges].
    set (P := map canon_param ps). set (E := map (canon_edge P) (filter (fun e => negb (is_unwritten num e)) (g_edges g))).
    assert (HP : (match add_offsets P E with Ok q => q | Error _ => P end) = P).
    { destruct (add_offsets P E) as [q|] eqn:Eq; [|reflexivity].
      apply (add_offsets_resolved E P q); [|exact Eq].
      unfold E. rewrite Forall_map. apply Forall_forall. intros e Hin. apply filter_In in Hin. destruct Hin as [Hin _].
      rewrite Forall_forall in Hres. specialize (Hres e Hin).
      destruct e as [k i j est info | ko ke i j est info off oid | ct ids est info]; simpl; auto.
      - destruct k; exact I.
      - destruct ko; simpl; auto. destruct Hres as (o & v & -> & Hl). simpl.
        exists o. unfold P. rewrite (plookup_canon_se3 num wrap). rewrite Hl. eauto. }
    rewrite !HP.
    assert (HPP : map canon_param P = P).
    { subst P. rewrite map_map. apply map_ext. apply canon_param_idem. }
    rewrite HPP. f_equal.
    - rewrite map_map. apply map_ext. apply canon_vertex_idem.
    - subst E. rewrite filter_idem_map. rewrite map_map. apply map_ext_in.
      intros e Hin. apply filter_In in Hin. destruct Hin as [Hin _].
      apply canon_edge_idem. rewrite Forall_forall in Hwe. now apply Hwe.
  Qed.
End Cycles.

(* ---------------- the enumerated causes of refusal ---------------- *)
Section Refuses.
  Variable num : Type.
  Variable eq0 : num -> bool.
  Variable eqn : num -> num -> bool.
  Notation expressible := (expressible num eq0 eqn).
  Notation offsets_ok := (offsets_ok num eqn).
  Notation plookup := (plookup num).

  Lemma offsets_ok_spec : forall es ps, offsets_ok ps es ->
    forall ke i j est info off oid, In (ELmk KSE3 ke i j est info off oid) es ->
      exists o, oid = Some o /\ forall v, plookup ps (PSE3, o) = Some v -> list_eqn num eqn v off = true.
  Proof.
    induction es as [|e r IH]; intros ps H ke i j est info off oid Hin; [contradiction|].
    destruct Hin as [->|Hin].
    - simpl in H. destruct oid as [o|]; [|contradiction]. exists o. split; [reflexivity|].
      intros v Hv. rewrite Hv in H. tauto.
    - assert (Hmono : forall ps', offsets_ok ps' r -> (forall k v, plookup ps k = Some v -> plookup ps' k = Some v) ->
                exists o, oid = Some o /\ forall v, plookup ps (PSE3, o) = Some v -> list_eqn num eqn v off = true).
      { intros ps' H' Hm. destruct (IH ps' H' ke i j est info off oid Hin) as (o & -> & Ho).
        exists o. split; [reflexivity|]. intros v Hv. apply Ho. now apply Hm. }
      destruct e as [k i' j' est' info' | ko ke' i' j' est' info' off' oid' | ct ids est' info'];
        try (apply (Hmono ps); [exact H | auto]).
      destruct ko; try (apply (Hmono ps); [exact H | auto]).
      simpl in H. destruct oid' as [o'|]; [|contradiction].
      destruct (plookup ps (PSE3, o')) as [v'|] eqn:E.
      + apply (Hmono ps); [tauto | auto].
      + apply (Hmono (ps ++ [((PSE3, o'), off')])); [exact H|]. intros k v Hk. now apply plookup_app_some.
  Qed.

  (* R^2 / R^3 odometry edge; R^n landmark edge; SE(2) landmark edge with a non-identity offset;
     SE(3) landmark edge without offset_id; SE(3) landmark edge whose offset differs from the dictionary's *)
  Lemma not_expressible_cases : forall g,
    (exists k i j est info, In (EOdo k i j est info) (g_edges g) /\ (k = KR2 \/ k = KR3)) \/
    (exists ko ke i j est info off oid, In (ELmk ko ke i j est info off oid) (g_edges g) /\ (ko = KR2 \/ ko = KR3)) \/
    (exists ke i j est info off oid, In (ELmk KSE2 ke i j est info off oid) (g_edges g) /\ is_ident_se2 num eq0 off = false) \/
    (exists ke i j est info off, In (ELmk KSE3 ke i j est info off None) (g_edges g)) \/
    (exists ke i j est info off o v, In (ELmk KSE3 ke i j est info off (Some o)) (g_edges g) /\
                                     plookup (g_params g) (PSE3, o) = Some v /\ list_eqn num eqn v off = false) ->
    ~ expressible g.
  Proof.
    intros g H [He Ho]. rewrite Forall_forall in He.
    destruct H as [(k & i & j & est & info & Hin & Hk) | [(ko & ke & i & j & est & info & off & oid & Hin & Hk) |
                  [(ke & i & j & est & info & off & oid & Hin & Hk) | [(ke & i & j & est & info & off & Hin) |
                  (ke & i & j & est & info & off & o & v & Hin & Hl & Hk)]]]].
    - specialize (He _ Hin). simpl in He. destruct Hk as [-> | ->]; destruct He; discriminate.
    - specialize (He _ Hin). simpl in He. destruct Hk as [-> | ->]; destruct He as [[? _]|?]; discriminate.
    - specialize (He _ Hin). simpl in He. destruct He as [[_ E]|E]; [congruence | discriminate].
    - destruct (offsets_ok_spec _ _ Ho _ _ _ _ _ _ _ Hin) as (o & E & _). discriminate.
    - destruct (offsets_ok_spec _ _ Ho _ _ _ _ _ _ _ Hin) as (o' & E & Hv). inversion E; subst o'.
      rewrite (Hv v Hl) in Hk. discriminate.
  Qed.
End Refuses.

(* ---------------- the hypotheses are satisfiable ---------------- *)
Section Examples.
  (* numbers = Z, printed in unary-free style through an injective toy printer: "n" followed by |z| copies of "1",
     with "-" for negatives; parse inverts it on the image.  Only used to show the hypotheses are consistent. *)
  Definition ex_info3 : list (list Z) := [[1; 2; 3]; [2; 4; 5]; [3; 5; 6]]%Z.
  Example ex_symm : symm 3 ex_info3.
  Proof. simpl. repeat split; reflexivity. Qed.
  Example ex_unpack_pack : unpack 3 (pack ex_info3) = ex_info3.
  Proof. reflexivity. Qed.

  Definition ex_graph : graph Z :=
    mkG [((PSE3, 7%Z), [1; 2; 3; 0; 0; 0; 1]%Z)]
        [mkV 1%Z KSE2 [1; 2; 3]%Z; mkV 2%Z KSE2 [4; 5; 6]%Z; mkV 3%Z KR2 [7; 8]%Z;
         mkV 4%Z KSE3 [1; 2; 3; 0; 0; 0; 1]%Z; mkV 5%Z KR3 [1; 2; 3]%Z]
        [EOdo KSE2 1%Z 2%Z [1; 1; 1]%Z ex_info3;
         ELmk KSE2 KR2 1%Z 3%Z [5; 5]%Z [[1; 2]; [2; 3]]%Z [0; 0; 0]%Z None;
         ELmk KSE3 KR3 4%Z 5%Z [5; 5; 5]%Z ex_info3 [1; 2; 3; 0; 0; 0; 1]%Z (Some 7%Z);
         ELmk KSE3 KR3 4%Z 5%Z [5; 5; 5]%Z ex_info3 [9; 9; 9; 0; 0; 0; 1]%Z (Some 8%Z)].
  Example ex_wf : wf Z ex_graph.
  Proof.
    unfold wf, ex_graph; simpl. split; [|split; [|split; [|split]]].
    - constructor; [simpl; tauto | constructor].
    - repeat constructor.
    - repeat constructor.
    - repeat (constructor; [simpl; repeat split; reflexivity|]). constructor.
    - reflexivity.
  Qed.
  Example ex_expressible : expressible Z (Z.eqb 0) Z.eqb ex_graph.
  Proof.
    unfold expressible, ex_graph; simpl. split.
    - constructor; [left; reflexivity|]. constructor; [left; split; reflexivity|].
      constructor; [right; reflexivity|]. constructor; [right; reflexivity|]. constructor.
    - simpl. tauto.
  Qed.
  Example ex_no_custom : no_written_custom Z ex_graph.
  Proof. unfold no_written_custom, ex_graph; simpl. repeat constructor. Qed.
  Example ex_cts_ok : cts_ok [mkCT "TestEdge" 1 2 2 true true; mkCT "EDGE_SE2" 2 3 3 false false].
  Proof.
    unfold cts_ok. constructor; [|constructor; [|constructor]].
    - simpl. intros _. split; [reflexivity|]. intros H. repeat (destruct H as [H|H]; [discriminate|]). exact H.
    - simpl. intros H. discriminate.
  Qed.
  (* a refused graph of each enumerated class exists: here an SE(2) landmark edge with a non-identity offset *)
  Definition ex_refused : graph Z :=
    mkG [] [mkV 1%Z KSE2 [1; 2; 3]%Z; mkV 3%Z KR2 [7; 8]%Z]
        [ELmk KSE2 KR2 1%Z 3%Z [5; 5]%Z [[1; 2]; [2; 3]]%Z [0; 1; 0]%Z None].
  Example ex_refused_not_expressible : ~ expressible Z (Z.eqb 0) Z.eqb ex_refused.
  Proof.
    apply not_expressible_cases. right. right. left.
    exists KR2, 1%Z, 3%Z, [5; 5]%Z, [[1; 2]; [2; 3]]%Z, [0; 1; 0]%Z, None. split; [left; reflexivity | reflexivity].
  Qed.
  (* REFUTED: "a refused export writes nothing".  An R^2 odometry edge after an SE(2) one: to_g2o raises
     NotImplementedError, but the file has been opened and holds the vertices and the first edge -- a loadable,
     truncated graph.  (The ValueErrors are raised before the file is opened.) *)
  Definition ex_partial : graph Z :=
    mkG [] [mkV 0%Z KSE2 [0; 0; 0]%Z; mkV 1%Z KSE2 [1; 0; 0]%Z; mkV 2%Z KR2 [0; 0]%Z; mkV 3%Z KR2 [1; 1]%Z]
        [EOdo KSE2 0%Z 1%Z [1; 0; 0]%Z [[1; 0; 0]; [0; 1; 0]; [0; 0; 1]]%Z;
         EOdo KR2 2%Z 3%Z [1; 1]%Z [[1; 0]; [0; 1]]%Z].
  Lemma refusal_leaves_no_file_refuted :
    exists g : graph Z,
      wf Z g /\
      (forall print print_id, export Z print print_id (Z.eqb 0) Z.eqb g = Error ENotImplemented) /\
      (forall print print_id, exists ls, export_file Z print print_id (Z.eqb 0) Z.eqb g = Some ls /\ List.length ls = 5).
  Proof.
    exists ex_partial. split; [|split].
    - unfold wf, ex_partial; simpl. split; [constructor|]. split; [constructor|]. split; [repeat constructor|].
      split; [|reflexivity]. repeat (constructor; [simpl; repeat split; reflexivity|]). constructor.
    - intros. reflexivity.
    - intros. eexists. split; [reflexivity | reflexivity].
  Qed.
  Example ex_seps : seps_ok [("12", "  " ++ String (ascii_of_nat 9) ""); ("3.5", " "); ("-1e3", String (ascii_of_nat 13) nl)]%string.
  Proof. simpl. repeat split; try discriminate; reflexivity. Qed.
End Examples.
