(* C10/C09 for PoseSE3: the boxplus operation  p [+] delta  (the ndarray-of-length-6 branch of
   PoseSE3.__add__, with its  qnorm > 1.0  test) and its Jacobian at delta = 0. *)
From Coq Require Import Reals List Lra ZArith Lia Bool.
From Coquelicot Require Import Coquelicot.
From GS Require Import ExprR LinAlg Jac Meth MethR GenSE3.
Import ListNotations.
Open Scope R_scope.

Definition SE3_boxplus_fun (s d : list R) : list R := run_methR (s ++ d) SE3_add__arr6.

(* the two paths of the branch, identified by the recorded outcome of the comparison *)
Definition SE3_boxplus_large := path_vec SE3_add__arr6 0.
Definition SE3_boxplus_small := path_vec SE3_add__arr6 1.
Definition rotnorm2 := Add (Add (Sq (Var 10)) (Sq (Var 11))) (Sq (Var 12)).
Lemma SE3_boxplus_guards :
  path_guards SE3_add__arr6 0 = [mkguard (Sqrt rotnorm2) CGt (Cst 1) true] /\
  path_guards SE3_add__arr6 1 = [mkguard (Sqrt rotnorm2) CGt (Cst 1) false] /\
  length SE3_add__arr6 = 2%nat.
Proof. repeat split; reflexivity. Qed.

(* which path is taken, in terms of the squared norm of the rotational increment *)
Lemma SE3_boxplus_small_taken s d :
  length s = 7%nat -> length d = 6%nat ->
  (nth 3 d 0)^2 + (nth 4 d 0)^2 + (nth 5 d 0)^2 <= 1 ->
  SE3_boxplus_fun s d = evl (s ++ d) SE3_boxplus_small.
Proof.
  intros Hs Hd Hn. list_len s Hs. list_len d Hd. simpl in Hn.
  unfold SE3_boxplus_fun, SE3_add__arr6; rewrite run_two_paths; unfold cmpR.
  assert (E : Rltb (evalR [x; x0; x1; x2; x3; x4; x5; x6; x7; x8; x9; x10; x11] (Cst 1))
                   (evalR [x; x0; x1; x2; x3; x4; x5; x6; x7; x8; x9; x10; x11] (Sqrt rotnorm2)) = false).
  { apply Rltb_false. unfold rotnorm2. cbn [evalR nth]. intros H.
    assert (H1 : sqrt (x9 ^ 2 + x10 ^ 2 + x11 ^ 2) <= sqrt 1) by (apply sqrt_le_1_alt; lra).
    rewrite sqrt_1 in H1. lra. }
  unfold rotnorm2 in E. cbn [app] in *. rewrite E. reflexivity.
Qed.
Lemma SE3_boxplus_large_taken s d :
  length s = 7%nat -> length d = 6%nat ->
  1 < (nth 3 d 0)^2 + (nth 4 d 0)^2 + (nth 5 d 0)^2 ->
  SE3_boxplus_fun s d = evl (s ++ d) SE3_boxplus_large.
Proof.
  intros Hs Hd Hn. list_len s Hs. list_len d Hd. simpl in Hn.
  unfold SE3_boxplus_fun, SE3_add__arr6; rewrite run_two_paths; unfold cmpR.
  assert (E : Rltb (evalR [x; x0; x1; x2; x3; x4; x5; x6; x7; x8; x9; x10; x11] (Cst 1))
                   (evalR [x; x0; x1; x2; x3; x4; x5; x6; x7; x8; x9; x10; x11] (Sqrt rotnorm2)) = true).
  { apply Rltb_true. unfold rotnorm2. cbn [evalR nth].
    assert (H1 : sqrt 1 < sqrt (x9 ^ 2 + x10 ^ 2 + x11 ^ 2)) by (apply sqrt_lt_1_alt; lra).
    rewrite sqrt_1 in H1. lra. }
  unfold rotnorm2 in E. cbn [app] in *. rewrite E. reflexivity.
Qed.

Lemma SE3_boxplus_len s d : length s = 7%nat -> length d = 6%nat -> length (SE3_boxplus_fun s d) = 7%nat.
Proof.
  intros Hs Hd.
  destruct (Rle_dec ((nth 3 d 0)^2 + (nth 4 d 0)^2 + (nth 5 d 0)^2) 1) as [Hle|Hgt].
  - rewrite SE3_boxplus_small_taken; auto.
  - rewrite SE3_boxplus_large_taken; auto. lra.
Qed.

Lemma small_t (t a : R) : 0 <= a -> Rabs t < / (1 + a) -> t ^ 2 * a <= 1.
Proof.
  intros Ha Ht. set (d := / (1 + a)) in *.
  assert (Hd : 0 < d) by (apply Rinv_0_lt_compat; lra).
  assert (Hd1 : d * (1 + a) = 1) by (unfold d; field; lra).
  apply Rabs_def2 in Ht. destruct Ht as [Ht1 Ht2].
  assert (H2 : t ^ 2 <= d * d) by nra.
  assert (H3 : d <= 1) by nra.
  nra.
Qed.

Theorem SE3_boxplus_jacobian s u : length s = 7%nat -> length u = 6%nat ->
  Forall2 (fun i dv => is_derive (fun t => nth i (SE3_boxplus_fun s (vscale t u)) 0) 0 dv)
          (seq 0 7) (matvec (evm s (mat_of SE3_jacobian_boxplus)) u).
Proof.
  intros Hs Hu. list_len s Hs. list_len u Hu.
  set (s := [x; x0; x1; x2; x3; x4; x5]). set (u := [x6; x7; x8; x9; x10; x11]).
  set (vals := s ++ zeros 6). set (U := zeros 7 ++ u).
  set (sm := map simp SE3_boxplus_small).
  assert (Hok : List.Forall (okD (combine vals U)) sm).
  { unfold sm, SE3_boxplus_small, path_vec, nth_path, SE3_add__arr6, nth, snd, vec_of_result, map, simp, sumsq, andb.
    repeat (constructor; [ first [ apply poly_ok; reflexivity
      | cbv - [Rplus Rmult Rminus Ropp Rdiv Rinv sqrt IZR pow Rlt]; repeat split; lra ] | ]).
    constructor. }
  pose proof (derive_along_line sm vals U Hok) as H1.
  assert (E2 : map snd (evlD (combine vals U) sm) = matvec (evm s (mat_of SE3_jacobian_boxplus)) u).
  { cbv - [Rplus Rmult Rminus Ropp Rdiv Rinv sqrt IZR pow].
    replace (1 - (0 ^ 2 + 0 ^ 2 + 0 ^ 2)) with 1 by ring. rewrite sqrt_1.
    repeat (f_equal; try field). }
  rewrite E2 in H1. clear E2 Hok.
  (* local agreement of the branching function with the small path *)
  set (a := x9 ^ 2 + x10 ^ 2 + x11 ^ 2).
  assert (Ha : 0 <= a) by (unfold a; nra).
  assert (Hloc : forall t, Rabs t < / (1 + a) ->
            SE3_boxplus_fun s (vscale t u) = evl (envR (line vals U) t) sm).
  { intros t Ht. rewrite SE3_boxplus_small_taken; try reflexivity.
    - unfold sm. rewrite simp_sound_l. f_equal.
      cbv - [Rplus Rmult Rminus Ropp Rdiv Rinv sqrt IZR pow]. repeat (f_equal; try ring).
    - pose proof (small_t t a Ha Ht) as Hb. unfold a in Hb. simpl nth. nra. }
  assert (Hpos : 0 < / (1 + a)) by (apply Rinv_0_lt_compat; lra).
  revert H1. generalize (matvec (evm s (mat_of SE3_jacobian_boxplus)) u). intros dvs H1.
  (* transfer component by component *)
  assert (Hlen : length sm = 7%nat) by reflexivity.
  assert (G : forall i e dv, nth_error sm i = Some e ->
              is_derive (fun t => evalR (envR (line vals U) t) e) 0 dv ->
              is_derive (fun t => nth i (SE3_boxplus_fun s (vscale t u)) 0) 0 dv).
  { intros i e dv Hi Hd. eapply is_derive_ext_loc; [|exact Hd].
    exists (mkposreal _ Hpos). intros t Ht. simpl in Ht.
    unfold ball in Ht; simpl in Ht; unfold AbsRing_ball, abs, minus, plus, opp in Ht; simpl in Ht.
    assert (Ht' : Rabs t < / (1 + a)).
    { apply Rabs_def2 in Ht. apply Rabs_def1; destruct Ht as [Hta Htb]; change (@zero R_AbsRing) with 0 in *; lra. }
    rewrite (Hloc t Ht'). unfold evl.
    pose proof (nth_error_nth sm i (Cst 0) Hi) as Hn. rewrite <- Hn.
    rewrite <- (map_nth (evalR (envR (line vals U) t)) sm (Cst 0) i). reflexivity. }
  clearbody sm. clear Hloc.
  do 8 (destruct sm as [|? sm]; try discriminate Hlen).
  repeat match goal with H : Forall2 _ (_ :: _) _ |- _ => inversion H; subst; clear H end.
  match goal with H : Forall2 _ [] _ |- _ => inversion H; subst; clear H end.
  simpl seq. repeat (apply Forall2_cons; [eapply G; [reflexivity | eassumption] | ]). apply Forall2_nil.
Qed.
