(* C03_assembly.v — the assembled gradient / Hessian / chi2 equal the Gauss-Newton normal equations. *)
From Coq Require Import Reals List Arith Bool Lia Lra.
From GS Require Import GraphModel GNSpec C03_sums C03_index C03_dict C03_accumulate C03_fill.
Import ListNotations.
Open Scope R_scope.

Lemma ind_andb : forall a b, ind (andb a b) = ind a * ind b.
Proof. intros [|] [|]; unfold ind; cbn [andb]; ring. Qed.

Lemma eqb_add_l : forall a i j, Nat.eqb (a + i) (a + j) = Nat.eqb i j.
Proof.
  intros a i j. destruct (Nat.eqb_spec (a + i) (a + j)); destruct (Nat.eqb_spec i j); try reflexivity; lia.
Qed.

(* ---------- (J_s^T Omega J_t)^T = J_t^T Omega J_s for symmetric Omega ---------- *)
Lemma Cblock_sym : forall vs e s t a b, wf_edge vs e ->
  (s < length (e_slots R e))%nat -> (t < length (e_slots R e))%nat ->
  ent R (Cblock e s t) a b = ent R (Cblock e t s) b a.
Proof.
  intros vs e s t a b Hwf Hs Ht.
  destruct Hwf as (_ & _ & _ & Hor & Hoc & Hsym & Hjac).
  destruct (Hjac s Hs) as [Rs _]. destruct (Hjac t Ht) as [Rt _].
  unfold Cblock, mdot, mtr. cbn [ent rows cols]. rewrite Hoc, Rs, Rt.
  set (n := fst (e_err R e)). set (Js := jacR e s). set (Jt := jacR e t). set (Om := e_om R e).
  transitivity (sumnR n (fun k => sumnR n (fun k0 => ent R Js k0 a * ent R Om k0 k * ent R Jt k b))).
  { apply sumn_ext. intros k Hk. rewrite <- sumn_scal_r. reflexivity. }
  transitivity (sumnR n (fun k => sumnR n (fun k0 => ent R Jt k0 b * ent R Om k0 k * ent R Js k a))).
  2:{ apply sumn_ext. intros k Hk. rewrite <- sumn_scal_r. reflexivity. }
  rewrite sumn_swap. apply sumn_ext. intros k Hk. apply sumn_ext. intros k0 Hk0.
  unfold Om. rewrite (Hsym k k0). ring.
Qed.

(* ---------- one edge: normalised dictionary contributions = the specification's double sum ---------- *)
Definition spec_term (e : Redge) (k l i j : nat) : R :=
  sumnR (length (e_slots R e)) (fun s =>
    sumnR (length (e_slots R e)) (fun t =>
      ind (Nat.eqb (slotR e s) k) * ind (Nat.eqb (slotR e t) l) * ent R (Cblock e s t) i j)).

Lemma hterm_spec : forall vs e k l i j, allpos vs -> wf_edge vs e ->
  (k <= l)%nat -> (l < length vs)%nat ->
  hterm vs e (gi vs k, gi vs l) i j = spec_term e k l i j.
Proof.
  intros vs e k l i j Hpos Hwf Hkl Hl.
  assert (Hlen : length (e_jac R e) = length (e_slots R e)) by (destruct Hwf as [H _]; exact H).
  unfold hterm, spec_term. cbv zeta. rewrite Hlen.
  set (n := length (e_slots R e)).
  rewrite <- (sumn_tri n (fun s t => ind (Nat.eqb (slotR e s) k) * ind (Nat.eqb (slotR e t) l) * ent R (Cblock e s t) i j)).
  apply sumn_ext. intros s Hs. apply sumn_ext. intros t Ht.
  pose proof (slot_in_range vs e s Hwf Hs) as Rs. pose proof (slot_in_range vs e t Hwf Ht) as Rt.
  unfold norm, hc. cbn [fst snd]. rewrite gi_leb by (assumption || lia).
  destruct (Nat.leb_spec (slotR e s) (slotR e t)) as [L|L]; cbn [fst snd].
  - rewrite gikey_eqb by (assumption || lia). rewrite ind_andb.
    destruct (Nat.ltb_spec s t) as [Lst|Lst].
    + destruct (Nat.eqb_spec (slotR e t) k) as [E1|E1]; destruct (Nat.eqb_spec (slotR e s) l) as [E2|E2];
        rewrite ?ind_true, ?ind_false; try ring.
      exfalso. assert (E : slotR e s = slotR e t) by lia.
      apply (slot_inj vs e s t Hwf Hs Ht) in E. lia.
    + rewrite ind_false. ring.
  - rewrite gikey_eqb by (assumption || lia). rewrite ind_andb. cbn [mtr ent].
    destruct (Nat.leb_spec s t) as [Lst|Lst]; rewrite ?ind_true, ?ind_false.
    + destruct (Nat.ltb_spec s t) as [Lst'|Lst'].
      * rewrite ind_true. rewrite (Cblock_sym vs e s t j i Hwf Hs Ht).
        destruct (Nat.eqb_spec (slotR e s) k) as [E1|E1]; destruct (Nat.eqb_spec (slotR e t) l) as [E2|E2];
          rewrite ?ind_true, ?ind_false; try ring.
        exfalso. lia.
      * exfalso. assert (s = t) by lia. subst t. lia.
    + destruct (Nat.ltb_spec s t) as [Lst'|Lst']; [lia|]. rewrite ind_false. ring.
Qed.

Lemma spec_term_swap : forall vs e k l i j, wf_edge vs e -> spec_term e k l i j = spec_term e l k j i.
Proof.
  intros vs e k l i j Hwf. unfold spec_term. rewrite sumn_swap.
  apply sumn_ext. intros t Ht. apply sumn_ext. intros s Hs.
  rewrite (Cblock_sym vs e s t i j Hwf Hs Ht). ring.
Qed.

(* ---------- the accumulated dictionaries ---------- *)
Section Graph.
Variables (vs : list vertex) (es : list Redge).
Hypothesis Hpos : allpos vs.
Hypothesis Hes : Forall (wf_edge vs) es.

Lemma acc_grad_good : Forall (Ggood vs) (a_grad R (accR vs es)).
Proof. unfold accumulate. rewrite acc_grad. apply gacc_good; [exact Hes|constructor]. Qed.
Lemma acc_hess_good : Forall (Hgood vs) (a_hess R (accR vs es)).
Proof. unfold accumulate. rewrite acc_hess. apply hacc_good; [exact Hpos|exact Hes|constructor]. Qed.
Lemma acc_hess_nodup : hnodup (a_hess R (accR vs es)).
Proof. unfold accumulate. rewrite acc_hess. apply hacc_nodup. exact I. Qed.

Lemma acc_grad_sum : forall k i, (k < length vs)%nat ->
  gsum (a_grad R (accR vs es)) (gi vs k) i
  = sumlist es (fun e => sumnR (length (e_slots R e)) (fun s => ind (Nat.eqb (slotR e s) k) * snd (gblock e s) i)).
Proof.
  intros k i Hk. unfold accumulate. rewrite acc_grad, gacc_sum. cbn [a_grad acc0 gsum]. rewrite Rplus_0_l.
  apply sumlist_ext. intros e He. rewrite Forall_forall in Hes. pose proof (Hes e He) as Hwf.
  assert (Hlen : length (e_jac R e) = length (e_slots R e)) by (destruct Hwf as [H _]; exact H).
  unfold gterm. rewrite Hlen, Nat.min_id. apply sumn_ext. intros s Hs.
  pose proof (slot_in_range vs e s Hwf Hs) as Rs.
  rewrite gi_eqb by (assumption || lia). reflexivity.
Qed.

Lemma acc_hess_look : forall k l i j, (k <= l)%nat -> (l < length vs)%nat ->
  hlook (a_hess R (accR vs es)) (gi vs k, gi vs l) i j = sumlist es (fun e => spec_term e k l i j).
Proof.
  intros k l i j Hkl Hl. unfold accumulate. rewrite acc_hess, hacc_look. cbn [a_hess acc0 hlook]. rewrite Rplus_0_l.
  apply sumlist_ext. intros e He. rewrite Forall_forall in Hes.
  apply hterm_spec; [exact Hpos|apply Hes; exact He|exact Hkl|exact Hl].
Qed.

(* ---------- gradient ---------- *)
Theorem gradient_correct : forall r, (r < glen vs)%nat -> assemble_gradient R 0 Rplus Rmult vs es r = spec_b vs es r.
Proof.
  intros r Hr. destruct (locate_total vs r Hr) as [k [i E]].
  destruct (locate_sound vs r k i E) as [Hk [Hi Er]].
  unfold spec_b. rewrite E. unfold assemble_gradient. rewrite fill_gradient_fold. subst r.
  rewrite gfill_gen by (assumption || apply acc_grad_good).
  destruct (fixed_at vs k); [reflexivity|].
  rewrite acc_grad_sum by assumption. ring.
Qed.

(* ---------- Hessian ---------- *)
Theorem hessian_correct : forall r c, (r < glen vs)%nat -> (c < glen vs)%nat ->
  assemble_hessian R 0 1 Rplus Rmult vs es r c = spec_H vs es r c.
Proof.
  intros r c Hr Hc.
  destruct (locate_total vs r Hr) as [k [i E1]]. destruct (locate_total vs c Hc) as [l [j E2]].
  destruct (locate_sound vs r k i E1) as [Hk [Hi Er]]. destruct (locate_sound vs c l j E2) as [Hl [Hj Ec]].
  unfold spec_H. rewrite E1, E2. unfold assemble_hessian. subst r c.
  rewrite fill_fixed_block by assumption. rewrite fill_hessian_fold.
  pose proof acc_hess_good as Hgd. pose proof acc_hess_nodup as Hnd.
  destruct (fixed_at vs k) eqn:Fk; [|destruct (fixed_at vs l) eqn:Fl]; cbn [orb].
  - (* row vertex fixed *)
    destruct (Nat.eqb_spec k l) as [E|E]; cbn [andb].
    + subst l. rewrite eqb_add_l. reflexivity.
    + rewrite hfill_fixed_off; try assumption; [|rewrite Fk; reflexivity].
      destruct (Nat.eqb_spec (gi vs k + i) (gi vs l + j)) as [E'|E']; [|reflexivity].
      exfalso. rewrite E' in E1. congruence.
  - (* column vertex fixed, row vertex free *)
    rewrite andb_false_r.
    assert (E : k <> l) by (intros E; subst l; congruence).
    rewrite hfill_fixed_off; try assumption; [|rewrite Fk, Fl; reflexivity].
    destruct (Nat.eqb_spec (gi vs k + i) (gi vs l + j)) as [E'|E']; [|reflexivity].
    exfalso. rewrite E' in E1. congruence.
  - (* both free *)
    rewrite andb_false_r.
    destruct (Nat.le_gt_cases k l) as [L|L].
    + rewrite hfill_upper by assumption.
      transitivity (hlook (a_hess R (accR vs es)) (gi vs k, gi vs l) i j).
      { destruct (hmem (a_hess R (accR vs es)) (gi vs k, gi vs l)) eqn:M; [reflexivity|].
        symmetry. apply hlook_notmem. exact M. }
      rewrite acc_hess_look by assumption. reflexivity.
    + rewrite (hfill_lower vs _ _ l k j i) by assumption.
      transitivity (hlook (a_hess R (accR vs es)) (gi vs l, gi vs k) j i).
      { destruct (hmem (a_hess R (accR vs es)) (gi vs l, gi vs k)) eqn:M; [reflexivity|].
        symmetry. apply hlook_notmem. exact M. }
      rewrite acc_hess_look by (assumption || lia).
      apply sumlist_ext. intros e He. rewrite Forall_forall in Hes.
      symmetry. apply (spec_term_swap vs). apply Hes. exact He.
Qed.
End Graph.

Theorem assembly_correct : assembly_statement.
Proof.
  intros vs es [Hpos Hes]. split; [|split].
  - apply gradient_correct; assumption.
  - apply hessian_correct; assumption.
  - apply chi2_correct.
Qed.
Print Assumptions assembly_correct.

(* ---------- non-vacuity: a concrete well-formed graph ---------- *)
(* three vertices of dimensions 2, 3, 2 (the middle one fixed); edge 1 joins positions 0 and 1,
   edge 2 lists its vertices in decreasing position order (2, then 0) *)
Definition ex_vs : list vertex := [mkvertex 2 false; mkvertex 3 true; mkvertex 2 false].
Definition ex_e1 : Redge :=
  mkedge R [0%nat; 1%nat] (2%nat, fun a => INR a + 1)
         (mkmat R 2 2 (fun a b => if Nat.eqb a b then 2 else 1))
         [mkmat R 2 2 (fun a b => INR (a + 2 * b)); mkmat R 2 3 (fun a b => INR (3 * a + b))].
Definition ex_e2 : Redge :=
  mkedge R [2%nat; 0%nat] (1%nat, fun _ => 5)
         (mkmat R 1 1 (fun _ _ => 3))
         [mkmat R 1 2 (fun a b => INR b + 1); mkmat R 1 2 (fun a b => 7 - INR b)].

Example wf_graph_example : wf_graph ex_vs [ex_e1; ex_e2].
Proof.
  split.
  - repeat constructor.
  - constructor; [|constructor; [|constructor]].
    + unfold wf_edge, ex_e1. cbn [e_jac e_slots e_err e_om rows cols ent fst snd length ex_vs].
      repeat split.
      * repeat constructor; simpl; intuition discriminate.
      * repeat constructor.
      * intros a b. rewrite Nat.eqb_sym. reflexivity.
      * destruct s as [|[|s]]; [reflexivity|reflexivity|simpl in H; lia].
      * destruct s as [|[|s]]; [reflexivity|reflexivity|simpl in H; lia].
    + unfold wf_edge, ex_e2. cbn [e_jac e_slots e_err e_om rows cols ent fst snd length ex_vs].
      repeat split.
      * repeat constructor; simpl; intuition discriminate.
      * repeat constructor.
      * destruct s as [|[|s]]; [reflexivity|reflexivity|simpl in H; lia].
      * destruct s as [|[|s]]; [reflexivity|reflexivity|simpl in H; lia].
Qed.
