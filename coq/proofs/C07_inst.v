(* C07_inst.v — the records of the transformed landmark edges ARE the re-based records (entry-wise, inside bounds). *)
From Coq Require Import Reals List Arith Bool Lra ZArith Lia.
From Coquelicot Require Import Coquelicot.
From GS Require Import ExprR LinAlg Meth MethR Prog Chain Wrap Spec GenR2 GenR3 GenSE2 GenSE3 GenEdges
  C10_SE3 C10_SE3_boxplus C10_SE2 C10_Rn C09_SE3 C09_SE2 C11_main C01_SE3 C01_Rn C01_SE2 C02_model C07_errors C07_equiv C07_lmk
  GraphModel GNSpec C03_sums C03_index C03_accumulate C04_blocks C06_main C07_jac2 C07_basis C07_glue C07_ext.
Import ListNotations.
Open Scope R_scope.

(* J' u = J u for all u  ==>  J' = J entry by entry *)
Lemma entries_of_equal (J J' : list (list R)) (n : nat) :
  (forall a, (a < length J)%nat -> length (nth a J []) = n) ->
  (forall u, length u = n -> forall a, nth a (matvec J' u) 0 = nth a (matvec J u) 0) ->
  forall a j, (a < length J)%nat -> length (nth a J' []) = n -> (j < n)%nat ->
    nth j (nth a J' []) 0 = nth j (nth a J []) 0.
Proof.
  intros HJ H a j Ha Hrow Hj.
  specialize (H (basis n j) (basis_len n j) a). rewrite !nth_matvec in H.
  rewrite <- Hrow in H at 1. rewrite dotR_basis in H by (rewrite Hrow; exact Hj). rewrite H.
  rewrite <- (HJ a Ha) at 1. apply dotR_basis. rewrite (HJ a Ha). exact Hj.
Qed.

Definition lmk3_rec (kp kl : nat) (Om : list (list R)) (p l z off : list R) : Redge :=
  mkedge R [kp; kl] (vec_of_list R 0 (err_lmk3 p l z off)) (mat_of_list R 0 3 3 Om)
         [mat_of_list R 0 3 6 (nth 0 (jac_lmk3 p l z off) []); mat_of_list R 0 3 3 (nth 1 (jac_lmk3 p l z off) [])].
Definition lmk2_rec (kp kl : nat) (Om : list (list R)) (p l z off : list R) : Redge :=
  mkedge R [kp; kl] (vec_of_list R 0 (err_lmk2 p l z off)) (mat_of_list R 0 2 2 Om)
         [mat_of_list R 0 2 3 (nth 0 (jac_lmk2 p l z off) []); mat_of_list R 0 2 2 (nth 1 (jac_lmk2 p l z off) [])].

Lemma sumn_delta n (f : nat -> R) j : (j < n)%nat -> sumnR n (fun m => f m * ind (Nat.eqb m j)) = f j.
Proof.
  intros Hj. rewrite (sumn_ext n _ (fun m => ind (Nat.eqb m j) * f m)) by (intros; ring).
  rewrite (sumn_ext n _ (fun m => ind (Nat.eqb j m) * f m)) by (intros i _; rewrite (Nat.eqb_sym i j); reflexivity).
  apply sumn_ind_pick. exact Hj.
Qed.

Ltac open_slot Hs :=
  rewrite jac_tb by exact Hs; unfold tb_mat, jac_at, slot_at; cbn [nth e_jac e_slots rows cols ent mat_of_list].

Theorem lmk3_edge_rebased vs (Q : blocks) kp kl Om T p l z off :
  length T = 7%nat -> length p = 7%nat -> length l = 3%nat -> length z = 3%nat -> length off = 7%nat ->
  unitq T -> unitq p -> unitq off -> dim_at vs kp = 6%nat -> dim_at vs kl = 3%nat ->
  (forall m j, Q kp m j = ind (Nat.eqb m j)) -> (forall m j, Q kl m j = nth j (nth m (Rm3 (evl T SE3_inv)) []) 0) ->
  edge_sim (tb_edge vs Q (lmk3_rec kp kl Om p l z off)) (lmk3_rec kp kl Om (comp3 T p) (act3 T l) z off).
Proof.
  intros HT Hp Hl Hz Ho UT Up Uo Dp Dl HQp HQl.
  assert (L1 : length (comp3 T p) = 7%nat) by reflexivity. assert (L2 : length (act3 T l) = 3%nat) by reflexivity.
  assert (Eerr : err_lmk3 (comp3 T p) (act3 T l) z off = err_lmk3 p l z off) by (apply C07_lmk_SE3; assumption).
  unfold edge_sim.
  split; [reflexivity|].
  split; [unfold tb_edge, lmk3_rec; cbn [e_err]; rewrite Eerr; reflexivity|].
  split; [intros a _; unfold tb_edge, lmk3_rec; cbn [e_err]; rewrite Eerr; reflexivity|].
  split; [reflexivity|]. split; [reflexivity|]. split; [intros; reflexivity|].
  intros s Hs. change (s < 2)%nat in Hs.
  assert (Hs' : (s < length (e_slots R (lmk3_rec kp kl Om p l z off)))%nat) by exact Hs.
  destruct s as [|[|s]]; [| |lia].
  - (* pose slot: J' = J, Q = identity *)
    open_slot Hs'. unfold lmk3_rec. cbn [nth e_jac e_slots rows cols ent mat_of_list].
    split; [reflexivity|]. split; [exact (eq_sym Dp)|]. intros a j Ha Hj. rewrite Dp in Hj |- *.
    rewrite (sumn_ext 6 _ (fun m => nth m (nth a (nth 0 (jac_lmk3 p l z off) []) []) 0 * ind (Nat.eqb m j))) by (intros m _; rewrite HQp; reflexivity).
    rewrite sumn_delta by exact Hj.
    apply (entries_of_equal (nth 0 (jac_lmk3 p l z off) []) (nth 0 (jac_lmk3 (comp3 T p) (act3 T l) z off) []) 6).
    + intros b Hb.
      assert (L : length (nth 0 (jac_lmk3 p l z off) []) = 3%nat) by (rewrite jac_lmk3_unfold by auto; reflexivity).
      rewrite L in Hb. rewrite jac_lmk3_unfold by auto. cbv zeta. cbn [nth].
      destruct b as [|[|[|b]]]; [reflexivity | reflexivity | reflexivity | lia].
    + intros u Hu b. apply (C07_jac_lmk_SE3_pose T p l z off u HT Hp Hl Hz Ho Hu UT Up Uo b).
    + rewrite jac_lmk3_unfold by auto. exact Ha.
    + rewrite jac_lmk3_unfold by auto. cbv zeta. cbn [nth]. destruct a as [|[|[|a]]]; [reflexivity | reflexivity | reflexivity | lia].
    + exact Hj.
  - (* landmark slot: J' = J R_{T^-1} *)
    open_slot Hs'. unfold lmk3_rec. cbn [nth e_jac e_slots rows cols ent mat_of_list].
    split; [reflexivity|]. split; [exact (eq_sym Dl)|]. intros a j Ha Hj. rewrite Dl in Hj |- *.
    rewrite (sumn_ext 3 _ (fun m => nth m (nth a (nth 1 (jac_lmk3 p l z off) []) []) 0 * nth j (nth m (Rm3 (evl T SE3_inv)) []) 0)) by (intros m _; rewrite HQl; reflexivity).
    apply (C07_lmk3_is_rebased T p l z off HT Hp Hl Hz Ho UT Up Uo a j Ha Hj).
Qed.

Theorem lmk2_edge_rebased vs (Q : blocks) kp kl Om T p l z off :
  length T = 3%nat -> length p = 3%nat -> length l = 2%nat -> length z = 2%nat -> length off = 3%nat ->
  dim_at vs kp = 3%nat -> dim_at vs kl = 2%nat ->
  (forall m j, Q kp m j = ind (Nat.eqb m j)) -> (forall m j, Q kl m j = nth j (nth m (Rm2 (evl T SE2_inv)) []) 0) ->
  edge_sim (tb_edge vs Q (lmk2_rec kp kl Om p l z off)) (lmk2_rec kp kl Om (comp2 T p) (act2 T l) z off).
Proof.
  intros HT Hp Hl Hz Ho Dp Dl HQp HQl.
  assert (L1 : length (comp2 T p) = 3%nat) by reflexivity. assert (L2 : length (act2 T l) = 2%nat) by reflexivity.
  assert (Eerr : err_lmk2 (comp2 T p) (act2 T l) z off = err_lmk2 p l z off) by (apply C07_lmk_SE2; assumption).
  assert (EJ0 : nth 0 (jac_lmk2 (comp2 T p) (act2 T l) z off) [] = nth 0 (jac_lmk2 p l z off) []) by (apply C07_jac_lmk_SE2_pose; assumption).
  unfold edge_sim.
  split; [reflexivity|].
  split; [unfold tb_edge, lmk2_rec; cbn [e_err]; rewrite Eerr; reflexivity|].
  split; [intros a _; unfold tb_edge, lmk2_rec; cbn [e_err]; rewrite Eerr; reflexivity|].
  split; [reflexivity|]. split; [reflexivity|]. split; [intros; reflexivity|].
  intros s Hs. change (s < 2)%nat in Hs.
  assert (Hs' : (s < length (e_slots R (lmk2_rec kp kl Om p l z off)))%nat) by exact Hs.
  destruct s as [|[|s]]; [| |lia].
  - open_slot Hs'. unfold lmk2_rec. cbn [nth e_jac e_slots rows cols ent mat_of_list]. rewrite EJ0.
    split; [reflexivity|]. split; [exact (eq_sym Dp)|]. intros a j Ha Hj. rewrite Dp in Hj |- *.
    rewrite (sumn_ext 3 _ (fun m => nth m (nth a (nth 0 (jac_lmk2 p l z off) []) []) 0 * ind (Nat.eqb m j))) by (intros m _; rewrite HQp; reflexivity).
    rewrite sumn_delta by exact Hj. reflexivity.
  - open_slot Hs'. unfold lmk2_rec. cbn [nth e_jac e_slots rows cols ent mat_of_list].
    split; [reflexivity|]. split; [exact (eq_sym Dl)|]. intros a j Ha Hj. rewrite Dl in Hj |- *.
    rewrite (sumn_ext 2 _ (fun m => nth m (nth a (nth 1 (jac_lmk2 p l z off) []) []) 0 * nth j (nth m (Rm2 (evl T SE2_inv)) []) 0)) by (intros m _; rewrite HQl; reflexivity).
    apply (C07_lmk2_is_rebased T p l z off HT Hp Hl Hz Ho a j Ha Hj).
Qed.

(* ---- odometry edges: both slots are pose slots, Q = identity there ---- *)
Definition odo3_rec (ka kb : nat) (Om : list (list R)) (p1 p2 z : list R) : Redge :=
  mkedge R [ka; kb] (vec_of_list R 0 (err_odo3 p1 p2 z)) (mat_of_list R 0 6 6 Om)
         [mat_of_list R 0 6 6 (nth 0 (jac_odo3 p1 p2 z) []); mat_of_list R 0 6 6 (nth 1 (jac_odo3 p1 p2 z) [])].
Definition odo2_rec (ka kb : nat) (Om : list (list R)) (p1 p2 z : list R) : Redge :=
  mkedge R [ka; kb] (vec_of_list R 0 (err_odo2 p1 p2 z)) (mat_of_list R 0 3 3 Om)
         [mat_of_list R 0 3 3 (nth 0 (jac_odo2 p1 p2 z) []); mat_of_list R 0 3 3 (nth 1 (jac_odo2 p1 p2 z) [])].

Theorem odo3_edge_rebased vs (Q : blocks) ka kb Om T p1 p2 z :
  length T = 7%nat -> length p1 = 7%nat -> length p2 = 7%nat -> length z = 7%nat ->
  unitq T -> unitq p1 -> unitq p2 -> dim_at vs ka = 6%nat -> dim_at vs kb = 6%nat ->
  (forall m j, Q ka m j = ind (Nat.eqb m j)) -> (forall m j, Q kb m j = ind (Nat.eqb m j)) ->
  edge_sim (tb_edge vs Q (odo3_rec ka kb Om p1 p2 z)) (odo3_rec ka kb Om (comp3 T p1) (comp3 T p2) z).
Proof.
  intros HT H1 H2 Hz UT U1 U2 Da Db HQa HQb.
  assert (L1 : length (comp3 T p1) = 7%nat) by reflexivity. assert (L2 : length (comp3 T p2) = 7%nat) by reflexivity.
  assert (Eerr : err_odo3 (comp3 T p1) (comp3 T p2) z = err_odo3 p1 p2 z) by (apply C07_odo_SE3; assumption).
  unfold edge_sim.
  split; [reflexivity|].
  split; [unfold tb_edge, odo3_rec; cbn [e_err]; rewrite Eerr; reflexivity|].
  split; [intros a _; unfold tb_edge, odo3_rec; cbn [e_err]; rewrite Eerr; reflexivity|].
  split; [reflexivity|]. split; [reflexivity|]. split; [intros; reflexivity|].
  intros s Hs. change (s < 2)%nat in Hs.
  assert (Hs' : (s < length (e_slots R (odo3_rec ka kb Om p1 p2 z)))%nat) by exact Hs.
  destruct s as [|[|s]]; [| |lia].
  - open_slot Hs'. unfold odo3_rec. cbn [nth e_jac e_slots rows cols ent mat_of_list].
    split; [reflexivity|]. split; [exact (eq_sym Da)|]. intros a j Ha Hj. rewrite Da in Hj |- *.
    rewrite (sumn_ext 6 _ (fun m => nth m (nth a (nth 0 (jac_odo3 p1 p2 z) []) []) 0 * ind (Nat.eqb m j))) by (intros m _; rewrite HQa; reflexivity).
    rewrite sumn_delta by exact Hj.
    apply (entries_of_equal (nth 0 (jac_odo3 p1 p2 z) []) (nth 0 (jac_odo3 (comp3 T p1) (comp3 T p2) z) []) 6).
    + intros b Hb.
      assert (L : length (nth 0 (jac_odo3 p1 p2 z) []) = 6%nat) by (rewrite jac_odo3_unfold by auto; reflexivity).
      rewrite L in Hb. rewrite jac_odo3_unfold by auto. cbn [nth].
      destruct b as [|[|[|[|[|[|b]]]]]]; [reflexivity | reflexivity | reflexivity | reflexivity | reflexivity | reflexivity | lia].
    + intros u Hu b. apply (C07_jac_odo_SE3 T p1 p2 z u HT H1 H2 Hz Hu UT U1 U2 b).
    + rewrite jac_odo3_unfold by auto. exact Ha.
    + rewrite jac_odo3_unfold by auto. cbn [nth].
      destruct a as [|[|[|[|[|[|a]]]]]]; [reflexivity | reflexivity | reflexivity | reflexivity | reflexivity | reflexivity | lia].
    + exact Hj.
  - open_slot Hs'. unfold odo3_rec. cbn [nth e_jac e_slots rows cols ent mat_of_list].
    split; [reflexivity|]. split; [exact (eq_sym Db)|]. intros a j Ha Hj. rewrite Db in Hj |- *.
    rewrite (sumn_ext 6 _ (fun m => nth m (nth a (nth 1 (jac_odo3 p1 p2 z) []) []) 0 * ind (Nat.eqb m j))) by (intros m _; rewrite HQb; reflexivity).
    rewrite sumn_delta by exact Hj.
    apply (entries_of_equal (nth 1 (jac_odo3 p1 p2 z) []) (nth 1 (jac_odo3 (comp3 T p1) (comp3 T p2) z) []) 6).
    + intros b Hb.
      assert (L : length (nth 1 (jac_odo3 p1 p2 z) []) = 6%nat) by (rewrite jac_odo3_unfold by auto; reflexivity).
      rewrite L in Hb. rewrite jac_odo3_unfold by auto. cbn [nth].
      destruct b as [|[|[|[|[|[|b]]]]]]; [reflexivity | reflexivity | reflexivity | reflexivity | reflexivity | reflexivity | lia].
    + intros u Hu b. apply (C07_jac_odo_SE3 T p1 p2 z u HT H1 H2 Hz Hu UT U1 U2 b).
    + rewrite jac_odo3_unfold by auto. exact Ha.
    + rewrite jac_odo3_unfold by auto. cbn [nth].
      destruct a as [|[|[|[|[|[|a]]]]]]; [reflexivity | reflexivity | reflexivity | reflexivity | reflexivity | reflexivity | lia].
    + exact Hj.
Qed.

Theorem odo2_edge_rebased vs (Q : blocks) ka kb Om T p1 p2 z :
  length T = 3%nat -> length p1 = 3%nat -> length p2 = 3%nat -> length z = 3%nat ->
  dim_at vs ka = 3%nat -> dim_at vs kb = 3%nat ->
  (forall m j, Q ka m j = ind (Nat.eqb m j)) -> (forall m j, Q kb m j = ind (Nat.eqb m j)) ->
  edge_sim (tb_edge vs Q (odo2_rec ka kb Om p1 p2 z)) (odo2_rec ka kb Om (comp2 T p1) (comp2 T p2) z).
Proof.
  intros HT H1 H2 Hz Da Db HQa HQb.
  assert (Eerr : err_odo2 (comp2 T p1) (comp2 T p2) z = err_odo2 p1 p2 z) by (apply C07_odo_SE2; assumption).
  assert (EJ : jac_odo2 (comp2 T p1) (comp2 T p2) z = jac_odo2 p1 p2 z) by (apply C07_jac_odo_SE2; assumption).
  unfold edge_sim.
  split; [reflexivity|].
  split; [unfold tb_edge, odo2_rec; cbn [e_err]; rewrite Eerr; reflexivity|].
  split; [intros a _; unfold tb_edge, odo2_rec; cbn [e_err]; rewrite Eerr; reflexivity|].
  split; [reflexivity|]. split; [reflexivity|]. split; [intros; reflexivity|].
  intros s Hs. change (s < 2)%nat in Hs.
  assert (Hs' : (s < length (e_slots R (odo2_rec ka kb Om p1 p2 z)))%nat) by exact Hs.
  destruct s as [|[|s]]; [| |lia].
  - open_slot Hs'. unfold odo2_rec. cbn [nth e_jac e_slots rows cols ent mat_of_list]. rewrite EJ.
    split; [reflexivity|]. split; [exact (eq_sym Da)|]. intros a j Ha Hj. rewrite Da in Hj |- *.
    rewrite (sumn_ext 3 _ (fun m => nth m (nth a (nth 0 (jac_odo2 p1 p2 z) []) []) 0 * ind (Nat.eqb m j))) by (intros m _; rewrite HQa; reflexivity).
    rewrite sumn_delta by exact Hj. reflexivity.
  - open_slot Hs'. unfold odo2_rec. cbn [nth e_jac e_slots rows cols ent mat_of_list]. rewrite EJ.
    split; [reflexivity|]. split; [exact (eq_sym Db)|]. intros a j Ha Hj. rewrite Db in Hj |- *.
    rewrite (sumn_ext 3 _ (fun m => nth m (nth a (nth 1 (jac_odo2 p1 p2 z) []) []) 0 * ind (Nat.eqb m j))) by (intros m _; rewrite HQb; reflexivity).
    rewrite sumn_delta by exact Hj. reflexivity.
Qed.
