(* Assembled.v — the whole-graph theorems of C07 and C04 restated for what the ASSEMBLY ALGORITHM of lib/GraphModel.v produces (assemble_gradient,
   assemble_hessian: the model of graph.py's dictionaries and slice writes), through assembly_correct (C03). *)
From Coq Require Import Reals List Arith Bool Lra ZArith Lia.
From Coquelicot Require Import Coquelicot.
From GS Require Import ExprR LinAlg Chi2 GraphModel GNSpec LinearSpec C03_sums C03_index C03_accumulate C03_assembly C09_SE3 C02_model C07_errors C07_basis C07_glue C07_ext C07_whole C07_wholeRn
  C05_grad C04_whole.
Import ListNotations.
Open Scope R_scope.

Notation aH := (assemble_hessian R 0 1 Rplus Rmult).
Notation ab := (assemble_gradient R 0 Rplus Rmult).

Lemma solves_assembled vs es d : wf_graph vs es ->
  (solves (glen vs) (aH vs es) (ab vs es) d <-> solves (glen vs) (spec_H vs es) (spec_b vs es) d).
Proof.
  intros Hwf. destruct (assembly_correct vs es Hwf) as (Eb & EH & _). unfold solves.
  split; intros H r Hr.
  - rewrite <- (Eb r Hr). rewrite <- (H r Hr). apply sumn_ext. intros c Hc. rewrite (EH r c Hr Hc). reflexivity.
  - rewrite (Eb r Hr). rewrite <- (H r Hr). apply sumn_ext. intros c Hc. rewrite (EH r c Hr Hc). reflexivity.
Qed.

Lemma Forall_map_descr {A B} (f : A -> B) (P : B -> Prop) (l : list A) : List.Forall P (map f l) <-> List.Forall (fun x => P (f x)) l.
Proof. rewrite !Forall_forall. split; [intros H x Hx; apply H; apply in_map; exact Hx | intros H y Hy; apply in_map_iff in Hy; destruct Hy as (x & <- & Hx); apply H; exact Hx]. Qed.

(* the transformed description is again a well-formed description: unit quaternions stay unit (C11 / unitq_oplus) *)
Lemma ok3_moved vs lm T d : length T = 7%nat -> unitq T -> ok3 vs lm d -> ok3 vs lm (move3 T d).
Proof.
  intros HT UT Hok. destruct d as [ka kb Om p1 p2 z | kp kl Om p l z off]; cbn [ok3 move3] in *.
  - destruct Hok as (H1 & H2 & Hz & U1 & U2 & Rest).
    split; [reflexivity|]. split; [reflexivity|]. split; [exact Hz|].
    split; [apply unitq_oplus; assumption|]. split; [apply unitq_oplus; assumption|]. exact Rest.
  - destruct Hok as (Hp & Hl & Hz & Ho & Up & Uo & Rest).
    split; [reflexivity|]. split; [reflexivity|]. split; [exact Hz|]. split; [exact Ho|].
    split; [apply unitq_oplus; assumption|]. split; [exact Uo|]. exact Rest.
Qed.
Lemma shape3_moved vs T d : shape3 vs d -> shape3 vs (move3 T d).
Proof. destruct d; cbn [shape3 move3]; exact (fun H => H). Qed.

(* C07, SE(3): frame independence of one step of the ASSEMBLED system *)
Theorem C07_graph_SE3_assembled vs lm T ds d :
  length T = 7%nat -> unitq T -> List.Forall (fun v => (0 < v_dim v)%nat) vs ->
  (forall k, (k < length vs)%nat -> lm k = true -> dim_at vs k = 3%nat) ->
  List.Forall (ok3 vs lm) ds -> List.Forall (shape3 vs) ds ->
  solves (glen vs) (aH vs (map rec3 ds)) (ab vs (map rec3 ds)) d ->
  solves (glen vs) (aH vs (map rec3 (map (move3 T) ds))) (ab vs (map rec3 (map (move3 T) ds))) (bmul vs (P3 lm T) d).
Proof.
  intros HT UT Hv Hdim Hok Hsh Hs.
  assert (Hok' : List.Forall (ok3 vs lm) (map (move3 T) ds)).
  { apply Forall_map_descr. rewrite Forall_forall in *. intros x Hx. apply ok3_moved; auto. }
  assert (Hsh' : List.Forall (shape3 vs) (map (move3 T) ds)).
  { apply Forall_map_descr. rewrite Forall_forall in *. intros x Hx. apply shape3_moved; auto. }
  pose proof (wf_graph_of_descr3 vs lm ds Hv Hok Hsh) as Hwf.
  pose proof (wf_graph_of_descr3 vs lm (map (move3 T) ds) Hv Hok' Hsh') as Hwf'.
  apply (solves_assembled vs _ _ Hwf'). apply (C07_graph_SE3_descr vs lm T ds d HT UT Hv Hdim Hok Hsh).
  apply (solves_assembled vs _ _ Hwf). exact Hs.
Qed.

(* C04, R^n: one step of the ASSEMBLED system reaches a state whose ASSEMBLED gradient is zero *)
Theorem C04_one_step_Rn_assembled vs poses gs dx :
  length poses = length vs -> List.Forall (fun v => (0 < v_dim v)%nat) vs -> List.Forall (okgR vs poses) gs ->
  List.Forall (okgR vs (move_poses vs poses dx)) gs ->
  solves (glen vs) (aH vs (recsR poses gs)) (ab vs (recsR poses gs)) dx ->
  forall r, (r < glen vs)%nat -> ab vs (recsR (move_poses vs poses dx) gs) r = 0.
Proof.
  intros HL Hv Hok Hok' Hs r Hr.
  pose proof (wf_recsR vs poses gs Hv Hok) as Hwf. pose proof (wf_recsR vs _ gs Hv Hok') as Hwf'.
  destruct (assembly_correct vs _ Hwf') as (Eb & _ & _). rewrite (Eb r Hr).
  apply (C04_one_step_Rn vs poses gs dx HL Hv Hok); [|exact Hr]. apply (solves_assembled vs _ _ Hwf). exact Hs.
Qed.
