(* C10 for PoseSE3: every public Jacobian method is the exact derivative of the named operation
   (statements about the definitions regenerated from graphslam/pose/se3.py). *)
From Coq Require Import Reals List Lra ZArith Lia.
From Coquelicot Require Import Coquelicot.
From GS Require Import ExprR LinAlg Jac Meth GenSE3.
Import ListNotations.
Open Scope R_scope.

Definition SE3_oplus := vec_of SE3_add__SE3.
Definition SE3_ominus := vec_of SE3_sub__SE3.
Definition SE3_oplus_point := vec_of SE3_add__R3.
Definition SE3_inv := vec_of SE3_inverse.

Lemma SE3_oplus_wrt_self_tan : tangent_ok SE3_oplus (mat_of SE3_jacobian_self_oplus_other_wrt_self__SE3) 14 0 7.
Proof. tan_ring. Qed.
Lemma SE3_oplus_wrt_self : is_jacobian SE3_oplus (mat_of SE3_jacobian_self_oplus_other_wrt_self__SE3) 14 0 7.
Proof. jac_poly. Qed.
Lemma SE3_oplus_wrt_other_tan : tangent_ok SE3_oplus (mat_of SE3_jacobian_self_oplus_other_wrt_other__SE3) 14 7 7.
Proof. tan_ring. Qed.
Lemma SE3_oplus_wrt_other : is_jacobian SE3_oplus (mat_of SE3_jacobian_self_oplus_other_wrt_other__SE3) 14 7 7.
Proof. jac_poly. Qed.
Lemma SE3_ominus_wrt_self_tan : tangent_ok SE3_ominus (mat_of SE3_jacobian_self_ominus_other_wrt_self__SE3) 14 0 7.
Proof. tan_ring. Qed.
Lemma SE3_ominus_wrt_self : is_jacobian SE3_ominus (mat_of SE3_jacobian_self_ominus_other_wrt_self__SE3) 14 0 7.
Proof. jac_poly. Qed.
Lemma SE3_ominus_wrt_other_tan : tangent_ok SE3_ominus (mat_of SE3_jacobian_self_ominus_other_wrt_other__SE3) 14 7 7.
Proof. tan_ring. Qed.
Lemma SE3_ominus_wrt_other : is_jacobian SE3_ominus (mat_of SE3_jacobian_self_ominus_other_wrt_other__SE3) 14 7 7.
Proof. jac_poly. Qed.
Lemma SE3_point_wrt_self_tan : tangent_ok SE3_oplus_point (mat_of SE3_jacobian_self_oplus_point_wrt_self__R3) 10 0 7.
Proof. tan_ring. Qed.
Lemma SE3_point_wrt_self : is_jacobian SE3_oplus_point (mat_of SE3_jacobian_self_oplus_point_wrt_self__R3) 10 0 7.
Proof. jac_poly. Qed.
Lemma SE3_point_wrt_point_tan : tangent_ok SE3_oplus_point (mat_of SE3_jacobian_self_oplus_point_wrt_point__R3) 10 7 3.
Proof. tan_ring. Qed.
Lemma SE3_point_wrt_point : is_jacobian SE3_oplus_point (mat_of SE3_jacobian_self_oplus_point_wrt_point__R3) 10 7 3.
Proof. jac_poly. Qed.
Lemma SE3_inverse_jac_tan : tangent_ok SE3_inv (mat_of SE3_jacobian_inverse) 7 0 7.
Proof. tan_ring. Qed.
Lemma SE3_inverse_jac : is_jacobian SE3_inv (mat_of SE3_jacobian_inverse) 7 0 7.
Proof. jac_poly. Qed.

(* compact variants are the first 6 rows; documented shapes *)
Lemma SE3_compact_rows :
  mat_of SE3_jacobian_self_oplus_other_wrt_self_compact__SE3 = firstn 6 (mat_of SE3_jacobian_self_oplus_other_wrt_self__SE3) /\
  mat_of SE3_jacobian_self_oplus_other_wrt_other_compact__SE3 = firstn 6 (mat_of SE3_jacobian_self_oplus_other_wrt_other__SE3) /\
  mat_of SE3_jacobian_self_ominus_other_wrt_self_compact__SE3 = firstn 6 (mat_of SE3_jacobian_self_ominus_other_wrt_self__SE3) /\
  mat_of SE3_jacobian_self_ominus_other_wrt_other_compact__SE3 = firstn 6 (mat_of SE3_jacobian_self_ominus_other_wrt_other__SE3) /\
  vec_of SE3_to_compact = firstn 6 [Var 0; Var 1; Var 2; Var 3; Var 4; Var 5; Var 6].
Proof. repeat split; reflexivity. Qed.
Lemma SE3_shapes :
  shape 7 7 (mat_of SE3_jacobian_self_oplus_other_wrt_self__SE3) /\ shape 7 7 (mat_of SE3_jacobian_self_oplus_other_wrt_other__SE3) /\
  shape 7 7 (mat_of SE3_jacobian_self_ominus_other_wrt_self__SE3) /\ shape 7 7 (mat_of SE3_jacobian_self_ominus_other_wrt_other__SE3) /\
  shape 7 6 (mat_of SE3_jacobian_boxplus) /\ shape 7 7 (mat_of SE3_jacobian_inverse) /\
  shape 3 7 (mat_of SE3_jacobian_self_oplus_point_wrt_self__R3) /\ shape 3 3 (mat_of SE3_jacobian_self_oplus_point_wrt_point__R3).
Proof. unfold shape. repeat split; try reflexivity; repeat constructor. Qed.
