(* C13_roundtrip.v -- import (export g) = canon g; what the format cannot express is refused. *)
From Coq Require Import List ZArith String Ascii Bool Arith Lia.
From GS Require Import G2OModel G2OSpec C14_text C14_import C14_fields C13_lines.
Import ListNotations.
Open Scope string_scope.
Open Scope list_scope.
Open Scope nat_scope.

Lemma NoDup_app_cons_end : forall (A : Type) (l : list A) a, NoDup l -> ~ In a l -> NoDup (l ++ [a]).
Proof.
  induction l as [|x l IH]; intros a Hn Hi; simpl.
  - constructor; [auto | constructor].
  - inversion Hn; subst. constructor.
    + intros H. apply in_app_or in H. destruct H as [H|[H|[]]]; [contradiction | subst; apply Hi; now left].
    + apply IH; [assumption | intros H; apply Hi; now right].
Qed.

Lemma forallb_map' : forall (A B : Type) (f : A -> B) (p : B -> bool) l,
  forallb p (map f l) = forallb (fun x => p (f x)) l.
Proof. induction l as [|a l IH]; simpl; [reflexivity | now rewrite IH]. Qed.
Lemma forallb_ext' : forall (A : Type) (p q : A -> bool) l, (forall x, p x = q x) -> forallb p l = forallb q l.
Proof. intros A p q l H. induction l as [|a l IH]; simpl; [reflexivity | now rewrite H, IH]. Qed.

Section Dict.
  Variable num : Type.
  Notation plookup := (plookup num).
  Notation pset := (pset num).

  Lemma pkey_eqb_eq : forall a b : pkey, pkey_eqb a b = true <-> a = b.
  Proof.
    intros [a1 a2] [b1 b2]. unfold pkey_eqb. simpl. rewrite andb_true_iff, pkind_eqb_eq, Z.eqb_eq.
    split; [intros [-> ->]; reflexivity | intros H; inversion H; auto].
  Qed.
  Lemma pkey_eqb_refl : forall a, pkey_eqb a a = true.
  Proof. intros. now apply pkey_eqb_eq. Qed.
  Lemma pkey_eqb_neq : forall a b : pkey, a <> b -> pkey_eqb a b = false.
  Proof. intros a b H. destruct (pkey_eqb a b) eqn:E; [apply pkey_eqb_eq in E; contradiction | reflexivity]. Qed.

  Lemma plookup_none_notin : forall (ps : params num) k, plookup ps k = None <-> ~ In k (map fst ps).
  Proof.
    induction ps as [|[k' v] r IH]; intros k; simpl; [tauto|].
    destruct (pkey_eqb k' k) eqn:E.
    - apply pkey_eqb_eq in E. subst. split; [discriminate | intros H; exfalso; apply H; now left].
    - rewrite IH. split; [intros H [H1|H1]; [subst; rewrite pkey_eqb_refl in E; discriminate | auto] | tauto].
  Qed.
  Lemma plookup_app_some : forall (ps qs : params num) k v, plookup ps k = Some v -> plookup (ps ++ qs) k = Some v.
  Proof.
    induction ps as [|[k' v'] r IH]; intros qs k v H; simpl in *; [discriminate|].
    destruct (pkey_eqb k' k); [exact H | now apply IH].
  Qed.
  Lemma plookup_app_new : forall (ps : params num) k v, plookup ps k = None -> plookup (ps ++ [(k, v)]) k = Some v.
  Proof.
    induction ps as [|[k' v'] r IH]; intros k v H; simpl in *; [now rewrite pkey_eqb_refl|].
    destruct (pkey_eqb k' k); [discriminate | now apply IH].
  Qed.
  Lemma pset_new : forall (ps : params num) k v, ~ In k (map fst ps) -> pset ps k v = ps ++ [(k, v)].
  Proof.
    induction ps as [|[k' v'] r IH]; intros k v H; simpl in *; [reflexivity|].
    rewrite pkey_eqb_neq by (intros ->; apply H; now left). f_equal. apply IH. tauto.
  Qed.
End Dict.

Section Offs.
  Variable num : Type.
  Variable eqn : num -> num -> bool.
  Notation add_offsets := (add_offsets num eqn).
  Notation offsets_ok := (offsets_ok num eqn).
  Notation wf_edge := (wf_edge num).
  Notation plookup := (plookup num).

  (* ---------------- add_offsets ---------------- *)
  Lemma add_offsets_spec : forall es ps ps',
    add_offsets ps es = Ok ps' -> NoDup (map fst ps) -> Forall (wf_param num) ps -> Forall wf_edge es ->
    NoDup (map fst ps') /\ Forall (wf_param num) ps' /\
    (forall k v, plookup ps k = Some v -> plookup ps' k = Some v) /\
    Forall (fun e => match e with
                     | ELmk KSE3 _ _ _ _ _ _ oid => exists o v, oid = Some o /\ plookup ps' (PSE3, o) = Some v
                     | _ => True end) es.
  Proof.
    induction es as [|e r IH]; intros ps ps' H Hnd Hwp Hwe.
    - simpl in H. inversion H; subst. repeat split; auto.
    - apply Forall_cons_iff in Hwe. destruct Hwe as [He Hr].
      assert (Hskip : add_offsets ps r = Ok ps' ->
                      NoDup (map fst ps') /\ Forall (wf_param num) ps' /\
                      (forall k v, plookup ps k = Some v -> plookup ps' k = Some v) /\
                      Forall (fun e => match e with
                                       | ELmk KSE3 _ _ _ _ _ _ oid => exists o v, oid = Some o /\ plookup ps' (PSE3, o) = Some v
                                       | _ => True end) r).
      { intros H'. now apply IH. }
      destruct e as [k i j est info | ko ke i j est info off oid | ct ids est info].
      + simpl in H. destruct (Hskip H) as (A & B & C & D). repeat split; auto.
      + destruct ko; try (simpl in H; destruct (Hskip H) as (A & B & C & D); repeat split; auto; fail).
        simpl in H. destruct oid as [o|]; [|discriminate].
        destruct (plookup ps (PSE3, o)) as [v|] eqn:El.
        * destruct (list_eqn num eqn v off); [|discriminate].
          destruct (Hskip H) as (A & B & C & D). repeat split; auto.
          constructor; [|exact D]. exists o, v. split; [reflexivity | now apply C].
        * assert (Hni : ~ In (PSE3, o) (map fst ps)) by now apply plookup_none_notin.
          destruct (IH _ _ H) as (A & B & C & D).
          -- rewrite map_app. simpl. apply NoDup_app_cons_end; assumption.
          -- apply Forall_app. split; [exact Hwp|]. constructor; [|constructor].
             unfold wf_param. simpl. simpl in He. tauto.
          -- exact Hr.
          -- repeat split; auto.
             ++ intros k v Hk. apply C. now apply plookup_app_some.
             ++ constructor; [|exact D]. exists o, off. split; [reflexivity|]. apply C. now apply plookup_app_new.
      + simpl in H. destruct (Hskip H) as (A & B & C & D). repeat split; auto.
  Qed.

  Lemma offsets_ok_iff : forall es ps, offsets_ok ps es <-> exists ps', add_offsets ps es = Ok ps'.
  Proof.
    induction es as [|e r IH]; intros ps.
    - simpl. split; [intros _; now exists ps | auto].
    - destruct e as [k i j est info | ko ke i j est info off oid | ct ids est info]; try apply IH.
      destruct ko; try apply IH.
      simpl. destruct oid as [o|]; [| split; [contradiction | intros [? H]; discriminate]].
      destruct (plookup ps (PSE3, o)) as [v|]; [|apply IH].
      destruct (list_eqn num eqn v off).
      + rewrite <- IH. tauto.
      + split; [intros [H _]; discriminate | intros [? H]; discriminate].
  Qed.

End Offs.

Section Roundtrip.
  Variable num : Type.
  Variable print : num -> string.
  Variable parse : string -> option num.
  Variable print_id : Z -> string.
  Variable parse_id : string -> option Z.
  Variable wrap : num -> num.
  Variable normq : list num -> list num.
  Variable zero : num.
  Variable eq0 : num -> bool.
  Variable eqn : num -> num -> bool.

  Hypothesis parse_print : forall x, parse (print x) = Some x.
  Hypothesis parse_print_id : forall z, parse_id (print_id z) = Some z.
  Hypothesis print_good : forall x, good_tok (print x).
  Hypothesis print_id_good : forall z, good_tok (print_id z).

  Notation imp := (imp num parse parse_id wrap normq zero).
  Notation import := (import num parse parse_id wrap normq zero).
  Notation export := (export num print print_id eq0 eqn).
  Notation add_offsets := (add_offsets num eqn).
  Notation edge_line := (edge_line num print print_id eq0).
  Notation edge_lines := (edge_lines num print print_id eq0).
  Notation vertex_line := (vertex_line num print print_id).
  Notation param_line := (param_line num print print_id).
  Notation canon := (canon num wrap normq zero eqn).
  Notation canon_vertex := (canon_vertex num wrap).
  Notation canon_param := (canon_param num wrap).
  Notation canon_edge := (canon_edge num wrap normq zero).
  Notation wf := (wf num).
  Notation wf_edge := (wf_edge num).
  Notation expressible := (expressible num eq0 eqn).
  Notation edge_expressible := (edge_expressible num eq0).
  Notation offsets_ok := (offsets_ok num eqn).
  Notation offs_resolved := (offs_resolved num).
  Notation plookup := (plookup num).

  (* ---------------- parameters ---------------- *)
  Lemma canon_param_fst : forall p, fst (canon_param p) = fst p.
  Proof. reflexivity. Qed.
  Lemma map_fst_canon : forall ps, map fst (map canon_param ps) = map fst ps.
  Proof. intros. rewrite map_map. reflexivity. Qed.

  Lemma fold_pset_fresh : forall qs acc,
    NoDup (map fst (acc ++ qs)) ->
    fold_left (fun a p => pset num a (fst p) (snd (canon_param p))) qs acc = acc ++ map canon_param qs.
  Proof.
    induction qs as [|q r IH]; intros acc H; simpl; [now rewrite app_nil_r|].
    assert (Hq : ~ In (fst q) (map fst acc)).
    { rewrite map_app in H. simpl in H. apply NoDup_remove_2 in H. intros Hin. apply H. apply in_or_app. now left. }
    rewrite pset_new by exact Hq.
    rewrite IH.
    - rewrite <- app_assoc. simpl. destruct q as [k v]. reflexivity.
    - rewrite <- app_assoc. rewrite !map_app in *. simpl in *. exact H.
  Qed.

  Lemma plookup_canon_se3 : forall ps o, plookup (map canon_param ps) (PSE3, o) = plookup ps (PSE3, o).
  Proof.
    induction ps as [|[[pk i] v] r IH]; intros o; simpl; [reflexivity|].
    destruct (pkey_eqb (pk, i) (PSE3, o)) eqn:E; [|apply IH].
    apply pkey_eqb_eq in E. inversion E; subst. reflexivity.
  Qed.

  (* ---------------- edge lines ---------------- *)
  Lemma edge_lines_ok_iff : forall vs es,
    Forall (fun e => edge_valid num vs e = true) es ->
    (Forall edge_expressible es <-> exists els, edge_lines vs es = Ok els).
  Proof.
    intros vs es. induction es as [|e r IH]; intros Hv.
    - simpl. split; [intros _; now exists [] | constructor].
    - apply Forall_cons_iff in Hv. destruct Hv as [Hv1 Hv2]. specialize (IH Hv2).
      rewrite Forall_cons_iff, IH. cbn [G2OModel.edge_lines].
      assert (He : edge_expressible e <-> exists ol, edge_line vs e = Ok ol).
      { destruct e as [k i j est info | ko ke i j est info off oid | ct ids est info]; simpl in *.
        - destruct (vkind num vs i) as [k0|]; [|discriminate]. destruct (vkind num vs j); [|discriminate].
          apply andb_prop in Hv1. destruct Hv1 as [Hv1 _]. apply andb_prop in Hv1. destruct Hv1 as [_ Hk].
          apply kind_eqb_eq in Hk. subst k0.
          destruct k; split; intros H; try (destruct H as [H|H]; discriminate); try (destruct H as [? H]; discriminate);
            eauto.
        - destruct (vkind num vs i) as [k0|]; [|discriminate]. destruct (vkind num vs j); [|discriminate].
          apply andb_prop in Hv1. destruct Hv1 as [Hv1 _]. apply andb_prop in Hv1. destruct Hv1 as [Hv1 _].
          apply andb_prop in Hv1. destruct Hv1 as [Hk _]. apply kind_eqb_eq in Hk. subst k0.
          destruct ko.
          + split; [intros [[H _]|H]; discriminate | intros [? H]; discriminate].
          + split; [intros [[H _]|H]; discriminate | intros [? H]; discriminate].
          + destruct (is_ident_se2 num eq0 off).
            * split; [eauto | intros _; left; auto].
            * split; [intros [[_ H]|H]; discriminate | intros [? H]; discriminate].
          + split; [eauto | intros _; right; reflexivity].
        - destruct (ct_writes ct); split; eauto. }
      rewrite He. split.
      + intros [[ol Hol] [els Hels]]. rewrite Hol, Hels. eauto.
      + intros [els H]. destruct (edge_line vs e) as [ol|]; [|discriminate].
        destruct (edge_lines vs r) as [ls|]; [|discriminate]. eauto.
  Qed.

  (* export succeeds exactly on the expressible graphs *)
  Lemma export_ok_iff : forall g, wf g -> (expressible g <-> exists ls, export g = Ok ls).
  Proof.
    intros g (_ & _ & _ & _ & Hcg). unfold G2OSpec.expressible, G2OModel.export.
    unfold check_graph in Hcg.
    destruct (forallb (fun e => forallb (has_vertex num (g_verts g)) (edge_ids num e)) (g_edges g)); [|discriminate].
    destruct (forallb (edge_valid num (g_verts g)) (g_edges g)) eqn:Ev; [|discriminate].
    rewrite forallb_forall in Ev. rewrite <- Forall_forall in Ev.
    rewrite (edge_lines_ok_iff _ _ Ev), (offsets_ok_iff num eqn).
    split.
    - intros [[els Hl] [ps Hp]]. rewrite Hp, Hl. eauto.
    - intros [ls H]. destruct (add_offsets (g_params g) (g_edges g)) as [ps|]; [|discriminate].
      destruct (edge_lines (g_verts g) (g_edges g)) as [els|]; [|discriminate]. eauto.
  Qed.

  (* C13_refuses *)
  Lemma refuses : forall g, wf g -> ~ expressible g -> exists e, export g = Error e.
  Proof.
    intros g Hw Hn. destruct (export g) as [ls|e] eqn:E; [|eauto].
    exfalso. apply Hn. apply (export_ok_iff g Hw). eauto.
  Qed.

  (* ---------------- Graph.__init__ accepts the re-imported lists ---------------- *)
  Lemma vkind_canon : forall vs i, vkind num (map canon_vertex vs) i = vkind num vs i.
  Proof. induction vs as [|v r IH]; intros i; simpl; [reflexivity|]. now rewrite IH. Qed.
  Lemma edge_ids_canon : forall ps e, edge_ids num (canon_edge ps e) = edge_ids num e.
  Proof.
    intros ps [k i j est info | ko ke i j est info off oid | ct ids est info]; simpl; try reflexivity.
    - destruct k; reflexivity.
    - destruct ko; try reflexivity. destruct oid; reflexivity.
  Qed.
  Lemma edge_valid_canon : forall ps vs e,
    edge_valid num (map canon_vertex vs) (canon_edge ps e) = edge_valid num vs e.
  Proof.
    intros ps vs [k i j est info | ko ke i j est info off oid | ct ids est info]; simpl; try reflexivity.
    - destruct k; simpl; rewrite !vkind_canon; reflexivity.
    - destruct ko; simpl; try (rewrite !vkind_canon; reflexivity).
      destruct oid; simpl; rewrite !vkind_canon; reflexivity.
  Qed.
  Lemma forallb_filter : forall (A : Type) (p q : A -> bool) l, forallb p l = true -> forallb p (filter q l) = true.
  Proof.
    intros A p q. induction l as [|a l IH]; intros H; simpl in *; [reflexivity|].
    apply andb_prop in H. destruct H as [Ha Hl]. destruct (q a); simpl; [rewrite Ha|]; auto.
  Qed.
  Lemma check_graph_canon : forall ps vs es q, check_graph num vs es = Ok tt ->
    check_graph num (map canon_vertex vs) (map (canon_edge ps) (filter q es)) = Ok tt.
  Proof.
    intros ps vs es q H. unfold check_graph in *.
    destruct (forallb (fun e => forallb (has_vertex num vs) (edge_ids num e)) es) eqn:E1; [|discriminate].
    destruct (forallb (edge_valid num vs) es) eqn:E2; [|discriminate].
    rewrite !forallb_map'.
    rewrite (forallb_ext' _ _ (fun e => forallb (has_vertex num vs) (edge_ids num e))).
    2:{ intros e. rewrite edge_ids_canon. apply forallb_ext'. intros i. unfold has_vertex. now rewrite vkind_canon. }
    rewrite (forallb_filter _ _ q _ E1).
    rewrite (forallb_ext' _ _ (edge_valid num vs)) by (intros e; apply edge_valid_canon).
    now rewrite (forallb_filter _ _ q _ E2).
  Qed.

  (* ---------------- C13_roundtrip ---------------- *)
  Theorem roundtrip : forall cts g,
    cts_ok cts -> wf g -> no_written_custom num g -> expressible g ->
    exists ls, export g = Ok ls /\ import cts (map render ls) = Ok (canon g, []).
  Proof.
    intros cts g Hc Hwf Hnc Hex.
    destruct (proj1 (export_ok_iff g Hwf) Hex) as [ls Hls]. exists ls. split; [exact Hls|].
    destruct Hwf as (Hnd & Hwp & Hwv & Hwe & Hcg).
    unfold G2OModel.export in Hls.
    destruct (add_offsets (g_params g) (g_edges g)) as [ps|] eqn:Ep; [|discriminate].
    destruct (edge_lines (g_verts g) (g_edges g)) as [els|] eqn:El; [|discriminate].
    inversion Hls; subst ls; clear Hls.
    destruct (add_offsets_spec num eqn _ _ _ Ep Hnd Hwp Hwe) as (Hnd' & Hwp' & _ & Hres).
    unfold G2OModel.import. rewrite !map_app. rewrite imp_app.
    rewrite (imp_params num print parse print_id parse_id wrap normq zero parse_print parse_print_id print_good print_id_good cts ps [] Hc Hwp').
    rewrite fold_pset_fresh by exact Hnd'. cbn [app]. rewrite imp_app.
    rewrite (imp_vertices num print parse print_id parse_id wrap normq zero parse_print parse_print_id print_good print_id_good cts _ _ Hc Hwv).
    assert (Hv : Forall (fun e => edge_valid num (g_verts g) e = true) (g_edges g)).
    { unfold check_graph in Hcg.
      destruct (forallb (fun e => forallb (has_vertex num (g_verts g)) (edge_ids num e)) (g_edges g)); [|discriminate].
      destruct (forallb (edge_valid num (g_verts g)) (g_edges g)) eqn:Ev; [|discriminate].
      rewrite forallb_forall in Ev. now rewrite Forall_forall. }
    rewrite (imp_edges num print parse print_id parse_id wrap normq zero eq0 parse_print parse_print_id print_good print_id_good
               cts (map canon_param ps) (g_verts g) (g_edges g) els Hc Hwe Hv); [| | exact Hnc | exact El].
    2:{ eapply Forall_impl; [|exact Hres]. intros [k i j est info | ko ke i j est info off oid | ct ids est info]; simpl; auto.
        destruct ko; auto. intros (o & v & -> & Hl). exists o, v. split; [reflexivity|]. now rewrite plookup_canon_se3. }
    cbn [app]. rewrite ?app_nil_r.
    rewrite check_graph_canon by exact Hcg.
    unfold G2OModel.canon, export_params. rewrite Ep. reflexivity.
  Qed.
End Roundtrip.
