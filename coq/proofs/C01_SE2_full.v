(* C01 for the SE(2) odometry edge WITHOUT the inner-wrap side conditions: the only excluded points are
   those where the angular error itself wraps (as in the property).  The wrapped intermediate angles are
   removed by periodicity (cos/sin of a wrapped angle, wrap of a difference of wrapped angles). *)
From Coq Require Import Reals List Lra ZArith Lia.
From Coquelicot Require Import Coquelicot.
From GS Require Import ExprR LinAlg Jac Meth MethR Prog Chain Wrap GenR2 GenSE2 GenEdges
  C10_SE2 C10_Rn C09_SE2 C01_SE3 C01_Rn C01_SE2.
Import ListNotations.
Open Scope R_scope.
Ltac cbt := cbv - [Rplus Rmult Rminus Ropp Rdiv Rinv sqrt IZR pow sin cos PI rmod].

(* syntactic removal of the angle wrap  ((a + pi) % (2 pi)) - pi  |->  a *)
Fixpoint unw (e : expr) : expr :=
  match e with
  | Sub (Mod (Add a Pi) (Mul (Cst 2%Z) Pi)) Pi => unw a
  | Var _ | Cst _ | CstQ _ _ | Pi => e
  | Add a b => Add (unw a) (unw b)
  | Sub a b => Sub (unw a) (unw b)
  | Mul a b => Mul (unw a) (unw b)
  | Div a b => Div (unw a) (unw b)
  | Mod a b => Mod (unw a) (unw b)
  | Neg a => Neg (unw a)
  | Sq a => Sq (unw a)
  | Sin a => Sin (unw a)
  | Cos a => Cos (unw a)
  | Sqrt a => Sqrt (unw a)
  end.
Definition SE2_boxplus_u := map unw SE2_boxplus.
Definition SE2_ominus_u := map unw SE2_ominus.
Lemma unw_poly : forallb poly SE2_boxplus_u = true /\ forallb poly SE2_ominus_u = true.
Proof. split; reflexivity. Qed.
Lemma SE2_boxplus_u_tan : tangent_ok SE2_boxplus_u (mat_of SE2_jacobian_boxplus) 6 3 3. Proof. tan_ring. Qed.
Lemma SE2_ominus_u_wrt_other_tan : tangent_ok SE2_ominus_u (mat_of SE2_jacobian_self_ominus_other_wrt_other__SE2) 6 3 3. Proof. tan_ring. Qed.
Lemma SE2_ominus_u_wrt_self_tan : tangent_ok SE2_ominus_u (mat_of SE2_jacobian_self_ominus_other_wrt_self__SE2) 6 0 3. Proof. tan_ring. Qed.

(* the unwrapped chain of the odometry error *)
Definition Uodo (p1 p2 z : list R) : list R := evl (z ++ evl (p2 ++ p1) SE2_ominus_u) SE2_ominus_u.
Definition bpu (p d : list R) : list R := evl (p ++ d) SE2_boxplus_u.

(* wrapped and unwrapped chains agree up to the final wrap, for EVERY t (no range or jump condition) *)
Lemma odo2_unwrap_v0 p1 p2 z d : length p1 = 3%nat -> length p2 = 3%nat -> length z = 3%nat -> length d = 3%nat ->
  let e := err_odo2 (SE2_boxplus_fun p1 d) p2 z in let v := Uodo (bpu p1 d) p2 z in
  nth 0 e 0 = nth 0 v 0 /\ nth 1 e 0 = nth 1 v 0 /\ nth 2 e 0 = wrap (nth 2 v 0) /\ length e = 3%nat.
Proof.
  intros H1 H2 H3 Hd. cbv zeta. rewrite err_odo2_unfold by (auto; reflexivity).
  list_len p1 H1. list_len p2 H2. list_len z H3. list_len d Hd.
  cbt. repeat match goal with
       | |- context [rmod (?x + PI) (2 * PI) - PI] => change (rmod (x + PI) (2 * PI) - PI) with (wrap x)
       end.
  repeat rewrite ?cos_wrap, ?sin_wrap, ?cos_sub_wrap_r, ?sin_sub_wrap_r, ?cos_sub_wrap_l, ?sin_sub_wrap_l. repeat split.
  rewrite wrap_absorb_r. replace (x7 - (x4 - wrap (x1 + x10))) with ((x7 - x4) + wrap (x1 + x10)) by ring.
  rewrite wrap_absorb_plus_r. f_equal. ring.
Qed.
Lemma odo2_unwrap_v1 p1 p2 z d : length p1 = 3%nat -> length p2 = 3%nat -> length z = 3%nat -> length d = 3%nat ->
  let e := err_odo2 p1 (SE2_boxplus_fun p2 d) z in let v := Uodo p1 (bpu p2 d) z in
  nth 0 e 0 = nth 0 v 0 /\ nth 1 e 0 = nth 1 v 0 /\ nth 2 e 0 = wrap (nth 2 v 0) /\ length e = 3%nat.
Proof.
  intros H1 H2 H3 Hd. cbv zeta. rewrite err_odo2_unfold by (auto; reflexivity).
  list_len p1 H1. list_len p2 H2. list_len z H3. list_len d Hd.
  cbt. repeat match goal with
       | |- context [rmod (?x + PI) (2 * PI) - PI] => change (rmod (x + PI) (2 * PI) - PI) with (wrap x)
       end.
  repeat rewrite ?cos_wrap, ?sin_wrap, ?cos_sub_wrap_r, ?sin_sub_wrap_r, ?cos_sub_wrap_l, ?sin_sub_wrap_l. repeat split.
  rewrite wrap_absorb_r. replace (x7 - (wrap (x4 + x10) - x1)) with ((x7 + x1) - wrap (x4 + x10)) by ring.
  rewrite wrap_absorb_r. f_equal. ring.
Qed.

Lemma is_derive_wrap (g : R -> R) t0 dg : is_derive g t0 dg -> not_at_wrap (g t0) -> is_derive (fun t => wrap (g t)) t0 dg.
Proof.
  intros Hg Hn. unfold wrap.
  replace dg with (dg - 0) by ring.
  apply (is_derive_minus (K:=R_AbsRing) (V:=R_NormedModule)); [|apply (is_derive_const (K:=R_AbsRing) (V:=R_NormedModule))].
  apply (is_derive_rmod (fun t => g t + PI) (2 * PI) t0 dg); [apply twopi_pos | | exact Hn].
  replace dg with (dg + 0) by ring.
  apply (is_derive_plus (K:=R_AbsRing) (V:=R_NormedModule)); auto. apply (is_derive_const (K:=R_AbsRing) (V:=R_NormedModule)).
Qed.

(* the code's Jacobian matrices do not see the wrap of the intermediate relative pose *)
Lemma J2_unwrap z p2 p1 : length z = 3%nat -> length p2 = 3%nat -> length p1 = 3%nat ->
  J2om_other z (evl (p2 ++ p1) SE2_ominus) = evm (z ++ evl (p2 ++ p1) SE2_ominus_u) (mat_of SE2_jacobian_self_ominus_other_wrt_other__SE2).
Proof.
  intros H3 H2 H1. list_len z H3. list_len p2 H2. list_len p1 H1. cbt.
  repeat match goal with
       | |- context [rmod (?x + PI) (2 * PI) - PI] => change (rmod (x + PI) (2 * PI) - PI) with (wrap x)
       end.
  rewrite ?cos_wrap, ?sin_wrap. reflexivity.
Qed.

Lemma bpu_at_0 p : length p = 3%nat -> evl (p ++ zeros 3) SE2_boxplus_u = p.
Proof. intros Hp. list_len p Hp. cbt. repeat (f_equal; try ring). Qed.

(* derivative of the unwrapped chain (no side condition: all stages are polynomial / trigonometric) *)
Lemma Uodo_derive_v0 p1 p2 z u : length p1 = 3%nat -> length p2 = 3%nat -> length z = 3%nat -> length u = 3%nat ->
  forall i, is_derive (fun t => nth i (Uodo (bpu p1 (vscale t u)) p2 z) 0) 0
                      (nth i (matvec (evm (z ++ evl (p2 ++ p1) SE2_ominus_u) (mat_of SE2_jacobian_self_ominus_other_wrt_other__SE2))
                                (matvec (J2om_other p2 p1) (matvec (Jbox2 p1) u))) 0).
Proof.
  intros H1 H2 H3 Hu i. destruct unw_poly as [Pb Po].
  pose proof (incr_derives u) as D0. rewrite Hu in D0.
  pose proof (chain_stage_last (incr u) 0 p1 (zeros 3) u SE2_boxplus_u _ 6 3 3 D0 eq_refl Hu H1 eq_refl
                SE2_boxplus_u_tan (smooth_poly _ SE2_boxplus_u Pb)) as D1.
  rewrite (bpu_at_0 p1 H1) in D1.
  assert (EJ : evm (p1 ++ zeros 3) (mat_of SE2_jacobian_boxplus) = Jbox2 p1) by (list_len p1 H1; reflexivity).
  rewrite EJ in D1.
  assert (Hw0 : length (matvec (Jbox2 p1) u) = 3%nat) by lenmv.
  pose proof (chain_stage_last _ 0 p2 p1 _ SE2_ominus_u _ 6 3 3 D1 H1 Hw0 H2 eq_refl SE2_ominus_u_wrt_other_tan
                (smooth_poly _ SE2_ominus_u Po)) as D2.
  assert (Hd : length (evl (p2 ++ p1) SE2_ominus_u) = 3%nat) by reflexivity.
  assert (Hw1 : length (matvec (evm (p2 ++ p1) (mat_of SE2_jacobian_self_ominus_other_wrt_other__SE2)) (matvec (Jbox2 p1) u)) = 3%nat) by lenmv.
  pose proof (chain_stage_last _ 0 z _ _ SE2_ominus_u _ 6 3 3 D2 Hd Hw1 H3 eq_refl SE2_ominus_u_wrt_other_tan
                (smooth_poly _ SE2_ominus_u Po)) as D3.
  pose proof (derives_components _ _ _ _ D3 ltac:(unfold evl, matvec; rewrite !map_length; reflexivity) i) as D4.
  eapply is_derive_ext; [|exact D4].
  intros t. cbn beta. unfold Uodo, bpu.
  repeat rewrite ?envR_stage, ?envR_app, ?envR_cst. rewrite envR_incr. reflexivity.
Qed.

Theorem C01_odo_SE2_v0_full p1 p2 z u :
  length p1 = 3%nat -> length p2 = 3%nat -> length z = 3%nat -> length u = 3%nat ->
  not_at_wrap (nth 2 z 0 - (nth 2 p2 0 - nth 2 p1 0)) ->
  forall i, is_derive (fun t => nth i (err_odo2 (SE2_boxplus_fun p1 (vscale t u)) p2 z) 0) 0
                      (nth i (matvec (nth 0 (jac_odo2 p1 p2 z) []) u) 0).
Proof.
  intros H1 H2 H3 Hu Hn i.
  assert (Lv : forall t, length (vscale t u) = 3%nat) by (intros t; unfold vscale; rewrite map_length; auto).
  pose proof (Uodo_derive_v0 p1 p2 z u H1 H2 H3 Hu) as DU.
  (* the Jacobian the code computes *)
  rewrite jac_odo2_unfold by auto. cbn [nth].
  rewrite (matvec_mmul _ (Jbox2 p1) u 3) by (try discriminate; apply ws_evm; repeat constructor).
  rewrite (matvec_mmul _ (J2om_other p2 p1) _ 3) by (try discriminate; apply ws_evm; repeat constructor).
  rewrite (J2_unwrap z p2 p1 H3 H2 H1).
  destruct i as [|[|[|i]]].
  - eapply is_derive_ext; [|exact (DU 0%nat)]. intros t. cbn beta.
    destruct (odo2_unwrap_v0 p1 p2 z (vscale t u) H1 H2 H3 (Lv t)) as (E0 & _). symmetry. exact E0.
  - eapply is_derive_ext; [|exact (DU 1%nat)]. intros t. cbn beta.
    destruct (odo2_unwrap_v0 p1 p2 z (vscale t u) H1 H2 H3 (Lv t)) as (_ & E1 & _). symmetry. exact E1.
  - apply (is_derive_ext (fun t => wrap (nth 2 (Uodo (bpu p1 (vscale t u)) p2 z) 0))).
    + intros t. destruct (odo2_unwrap_v0 p1 p2 z (vscale t u) H1 H2 H3 (Lv t)) as (_ & _ & E2 & _). symmetry. exact E2.
    + apply is_derive_wrap; [exact (DU 2%nat)|].
      clear DU. list_len p1 H1. list_len p2 H2. list_len z H3. list_len u Hu. cbn [nth] in Hn.
      unfold not_at_wrap in *. cbt.
      replace (x7 - (x4 - (x1 + 0 * x10)) + PI) with (x7 - (x4 - x1) + PI) by ring. exact Hn.
  - (* components beyond the third: both sides are constantly 0 *)
    apply (is_derive_ext (fun _ : R => 0)).
    + intros t. destruct (odo2_unwrap_v0 p1 p2 z (vscale t u) H1 H2 H3 (Lv t)) as (_ & _ & _ & L).
      set (e := err_odo2 (SE2_boxplus_fun p1 (vscale t u)) p2 z) in *. clearbody e. list_len e L. destruct i; reflexivity.
    + match goal with |- is_derive _ _ ?d => replace d with 0 end; [apply (is_derive_const (K:=R_AbsRing) (V:=R_NormedModule))|].
      symmetry. apply nth_overflow. unfold matvec. rewrite !map_length. simpl. lia.
Qed.

(* ---- second vertex ---- *)
Lemma J2self_same p2 p1 : J2om_self p2 p1 = evm (p2 ++ p1) (mat_of SE2_jacobian_self_ominus_other_wrt_self__SE2).
Proof. reflexivity. Qed.
Lemma Uodo_derive_v1 p1 p2 z u : length p1 = 3%nat -> length p2 = 3%nat -> length z = 3%nat -> length u = 3%nat ->
  forall i, is_derive (fun t => nth i (Uodo p1 (bpu p2 (vscale t u)) z) 0) 0
                      (nth i (matvec (evm (z ++ evl (p2 ++ p1) SE2_ominus_u) (mat_of SE2_jacobian_self_ominus_other_wrt_other__SE2))
                                (matvec (J2om_self p2 p1) (matvec (Jbox2 p2) u))) 0).
Proof.
  intros H1 H2 H3 Hu i. destruct unw_poly as [Pb Po].
  pose proof (incr_derives u) as D0. rewrite Hu in D0.
  pose proof (chain_stage_last (incr u) 0 p2 (zeros 3) u SE2_boxplus_u _ 6 3 3 D0 eq_refl Hu H2 eq_refl
                SE2_boxplus_u_tan (smooth_poly _ SE2_boxplus_u Pb)) as D1.
  rewrite (bpu_at_0 p2 H2) in D1.
  assert (EJ : evm (p2 ++ zeros 3) (mat_of SE2_jacobian_boxplus) = Jbox2 p2) by (list_len p2 H2; reflexivity).
  rewrite EJ in D1.
  assert (Hw0 : length (matvec (Jbox2 p2) u) = 3%nat) by lenmv.
  pose proof (chain_stage_first _ 0 p1 p2 _ SE2_ominus_u _ 6 3 D1 H2 Hw0 ltac:(rewrite H1; reflexivity) SE2_ominus_u_wrt_self_tan
                (smooth_poly _ SE2_ominus_u Po)) as D2.
  assert (Hd : length (evl (p2 ++ p1) SE2_ominus_u) = 3%nat) by reflexivity.
  assert (Hw1 : length (matvec (evm (p2 ++ p1) (mat_of SE2_jacobian_self_ominus_other_wrt_self__SE2)) (matvec (Jbox2 p2) u)) = 3%nat) by lenmv.
  pose proof (chain_stage_last _ 0 z _ _ SE2_ominus_u _ 6 3 3 D2 Hd Hw1 H3 eq_refl SE2_ominus_u_wrt_other_tan
                (smooth_poly _ SE2_ominus_u Po)) as D3.
  pose proof (derives_components _ _ _ _ D3 ltac:(unfold evl, matvec; rewrite !map_length; reflexivity) i) as D4.
  eapply is_derive_ext; [|exact D4].
  intros t. cbn beta. unfold Uodo, bpu.
  repeat rewrite ?envR_stage, ?envR_app, ?envR_cst. rewrite envR_incr. reflexivity.
Qed.
Theorem C01_odo_SE2_v1_full p1 p2 z u :
  length p1 = 3%nat -> length p2 = 3%nat -> length z = 3%nat -> length u = 3%nat ->
  not_at_wrap (nth 2 z 0 - (nth 2 p2 0 - nth 2 p1 0)) ->
  forall i, is_derive (fun t => nth i (err_odo2 p1 (SE2_boxplus_fun p2 (vscale t u)) z) 0) 0
                      (nth i (matvec (nth 1 (jac_odo2 p1 p2 z) []) u) 0).
Proof.
  intros H1 H2 H3 Hu Hn i.
  assert (Lv : forall t, length (vscale t u) = 3%nat) by (intros t; unfold vscale; rewrite map_length; auto).
  pose proof (Uodo_derive_v1 p1 p2 z u H1 H2 H3 Hu) as DU.
  rewrite jac_odo2_unfold by auto. cbn [nth].
  rewrite (matvec_mmul _ (Jbox2 p2) u 3) by (try discriminate; apply ws_evm; repeat constructor).
  rewrite (matvec_mmul _ (J2om_self p2 p1) _ 3) by (try discriminate; apply ws_evm; repeat constructor).
  rewrite (J2_unwrap z p2 p1 H3 H2 H1).
  destruct i as [|[|[|i]]].
  - eapply is_derive_ext; [|exact (DU 0%nat)]. intros t. cbn beta.
    destruct (odo2_unwrap_v1 p1 p2 z (vscale t u) H1 H2 H3 (Lv t)) as (E0 & _). symmetry. exact E0.
  - eapply is_derive_ext; [|exact (DU 1%nat)]. intros t. cbn beta.
    destruct (odo2_unwrap_v1 p1 p2 z (vscale t u) H1 H2 H3 (Lv t)) as (_ & E1 & _). symmetry. exact E1.
  - apply (is_derive_ext (fun t => wrap (nth 2 (Uodo p1 (bpu p2 (vscale t u)) z) 0))).
    + intros t. destruct (odo2_unwrap_v1 p1 p2 z (vscale t u) H1 H2 H3 (Lv t)) as (_ & _ & E2 & _). symmetry. exact E2.
    + apply is_derive_wrap; [exact (DU 2%nat)|].
      clear DU. list_len p1 H1. list_len p2 H2. list_len z H3. list_len u Hu. cbn [nth] in Hn.
      unfold not_at_wrap in *. cbt.
      replace (x7 - (x4 + 0 * x10 - x1) + PI) with (x7 - (x4 - x1) + PI) by ring. exact Hn.
  - apply (is_derive_ext (fun _ : R => 0)).
    + intros t. destruct (odo2_unwrap_v1 p1 p2 z (vscale t u) H1 H2 H3 (Lv t)) as (_ & _ & _ & L).
      set (e := err_odo2 p1 (SE2_boxplus_fun p2 (vscale t u)) z) in *. clearbody e. list_len e L. destruct i; reflexivity.
    + match goal with |- is_derive _ _ ?d => replace d with 0 end; [apply (is_derive_const (K:=R_AbsRing) (V:=R_NormedModule))|].
      symmetry. apply nth_overflow. unfold matvec. rewrite !map_length. simpl. lia.
Qed.

(* ---- landmark edge, pose vertex: the error has no angular component, so NO point is excluded ---- *)
Definition SE2_oplus_u := map unw SE2_oplus.
Definition SE2_inv_u := map unw SE2_inv.
Lemma unw_poly2 : forallb poly SE2_oplus_u = true /\ forallb poly SE2_inv_u = true.
Proof. split; reflexivity. Qed.
Lemma SE2_oplus_u_wrt_self_tan : tangent_ok SE2_oplus_u (mat_of SE2_jacobian_self_oplus_other_wrt_self__SE2) 6 0 3. Proof. tan_ring. Qed.
Lemma SE2_inv_u_tan : tangent_ok SE2_inv_u (mat_of SE2_jacobian_inverse) 3 0 3. Proof. tan_ring. Qed.
Definition Ulmk (p l z off : list R) : list R :=
  evl (evl (evl (evl (p ++ off) SE2_oplus_u) SE2_inv_u ++ l) SE2_oplus_point ++ z) R2_ominus.
Lemma lmk2_unwrap p l z off d : length p = 3%nat -> length l = 2%nat -> length z = 2%nat -> length off = 3%nat -> length d = 3%nat ->
  err_lmk2 (SE2_boxplus_fun p d) l z off = Ulmk (bpu p d) l z off.
Proof.
  intros H1 H2 H3 H4 Hd. rewrite err_lmk2_unfold by (auto; reflexivity). unfold Ulmk.
  list_len p H1. list_len l H2. list_len z H3. list_len off H4. list_len d Hd.
  cbt. repeat match goal with
       | |- context [rmod (?x + PI) (2 * PI) - PI] => change (rmod (x + PI) (2 * PI) - PI) with (wrap x)
       end.
  repeat rewrite ?cos_wrap, ?sin_wrap, ?cos_neg_wrap, ?sin_neg_wrap, ?cos_add_wrap_l, ?sin_add_wrap_l.
  repeat rewrite ?cos_neg, ?sin_neg. repeat rewrite ?cos_add_wrap_l, ?sin_add_wrap_l. reflexivity.
Qed.
Lemma Jlmk_unwrap p l off : length p = 3%nat -> length l = 2%nat -> length off = 3%nat ->
  let q := evl (p ++ off) SE2_oplus in let qu := evl (p ++ off) SE2_oplus_u in
  J2pt_self (evl q SE2_inv) l = evm (evl qu SE2_inv_u ++ l) (mat_of SE2_jacobian_self_oplus_point_wrt_self__R2) /\
  J2inv q = evm qu (mat_of SE2_jacobian_inverse).
Proof.
  intros H1 H2 H4. cbv zeta. list_len p H1. list_len l H2. list_len off H4. split; cbt;
  repeat match goal with
       | |- context [rmod (?x + PI) (2 * PI) - PI] => change (rmod (x + PI) (2 * PI) - PI) with (wrap x)
       end;
  repeat rewrite ?cos_wrap, ?sin_wrap, ?cos_neg_wrap, ?sin_neg_wrap; repeat rewrite ?cos_neg, ?sin_neg; repeat rewrite ?cos_wrap, ?sin_wrap; reflexivity.
Qed.
Theorem C01_lmk_SE2_v0_full p l z off u :
  length p = 3%nat -> length l = 2%nat -> length z = 2%nat -> length off = 3%nat -> length u = 3%nat ->
  forall i, is_derive (fun t => nth i (err_lmk2 (SE2_boxplus_fun p (vscale t u)) l z off) 0) 0
                      (nth i (matvec (nth 0 (jac_lmk2 p l z off) []) u) 0).
Proof.
  intros H1 H2 H3 H4 Hu i. destruct unw_poly as [Pb Po]. destruct unw_poly2 as [Pop Pinv].
  assert (Lv : forall t, length (vscale t u) = 3%nat) by (intros t; unfold vscale; rewrite map_length; auto).
  pose proof (incr_derives u) as D0. rewrite Hu in D0.
  pose proof (chain_stage_last (incr u) 0 p (zeros 3) u SE2_boxplus_u _ 6 3 3 D0 eq_refl Hu H1 eq_refl
                SE2_boxplus_u_tan (smooth_poly _ SE2_boxplus_u Pb)) as D1.
  rewrite (bpu_at_0 p H1) in D1.
  assert (EJ : evm (p ++ zeros 3) (mat_of SE2_jacobian_boxplus) = Jbox2 p) by (list_len p H1; reflexivity).
  rewrite EJ in D1.
  assert (Hw0 : length (matvec (Jbox2 p) u) = 3%nat) by lenmv.
  pose proof (chain_stage_first _ 0 off p _ SE2_oplus_u _ 6 3 D1 H1 Hw0 ltac:(rewrite H4; reflexivity) SE2_oplus_u_wrt_self_tan
                (smooth_poly _ SE2_oplus_u Pop)) as D2.
  set (qu := evl (p ++ off) SE2_oplus_u) in *.
  assert (Hq : length qu = 3%nat) by reflexivity.
  assert (Hw1 : length (matvec (evm (p ++ off) (mat_of SE2_jacobian_self_oplus_other_wrt_self__SE2)) (matvec (Jbox2 p) u)) = 3%nat) by lenmv.
  pose proof (chain_stage_last _ 0 [] qu _ SE2_inv_u _ 3 0 3 D2 Hq Hw1 eq_refl eq_refl SE2_inv_u_tan (smooth_poly _ SE2_inv_u Pinv)) as D3.
  cbn [app] in D3.
  set (qi := evl qu SE2_inv_u) in *.
  assert (Hqi : length qi = 3%nat) by reflexivity.
  set (w2 := matvec (evm qu (mat_of SE2_jacobian_inverse)) _) in *.
  assert (Hw2 : length w2 = 3%nat) by (unfold w2; lenmv).
  pose proof (chain_stage_first _ 0 l qi w2 SE2_oplus_point _ 5 3 D3 Hqi Hw2 ltac:(rewrite H2; reflexivity)
                SE2_point_wrt_self_tan (smooth_poly _ SE2_oplus_point eq_refl)) as D4.
  set (x := evl (qi ++ l) SE2_oplus_point) in *.
  assert (Hx : length x = 2%nat) by reflexivity.
  set (w3 := matvec (evm (qi ++ l) (mat_of SE2_jacobian_self_oplus_point_wrt_self__R2)) w2) in *.
  assert (Hw3 : length w3 = 2%nat) by (unfold w3; lenmv).
  pose proof (chain_stage_first _ 0 z x w3 R2_ominus _ 4 2 D4 Hx Hw3 ltac:(rewrite H3; reflexivity)
                R2_ominus_wrt_self_tan (smooth_poly _ R2_ominus eq_refl)) as D5.
  rewrite matvec_eye2 in D5 by auto.
  pose proof (derives_components _ _ _ _ D5 ltac:(rewrite Hw3; reflexivity) i) as D6.
  rewrite jac_lmk2_unfold by auto. cbv zeta. cbn [nth].
  rewrite (matvec_mmul _ (Jbox2 p) u 3) by (try discriminate; apply ws_evm; repeat constructor).
  rewrite (matvec_mmul _ (J2op_self p off) _ 3) by (try discriminate; apply ws_evm; repeat constructor).
  rewrite (matvec_mmul _ (J2inv (evl (p ++ off) SE2_oplus)) _ 3) by (try discriminate; apply ws_evm; repeat constructor).
  destruct (Jlmk_unwrap p l off H1 H2 H4) as [E1 E2]. cbv zeta in E1, E2. rewrite E1, E2. fold qu. fold qi.
  eapply is_derive_ext; [|exact D6].
  intros t. cbn beta. rewrite (lmk2_unwrap p l z off (vscale t u)) by auto. unfold Ulmk, bpu.
  repeat rewrite ?envR_stage, ?envR_app, ?envR_cst. rewrite envR_incr. reflexivity.
Qed.
