(* C03: the hypothesis "slots of an edge are distinct" cannot be dropped (witness). *)
From Coq Require Import Reals List Arith Bool Lia Lra.
From GS Require Import GraphModel GNSpec.
Import ListNotations.
Open Scope R_scope.

(* without "slots of an edge are distinct" the Hessian the code assembles is NOT the Gauss-Newton matrix:
   a one-vertex graph with one edge naming that vertex in both slots (J0 = [1], J1 = [2], Omega = [1]) gets
   H = J0 J0 + J0 J1 + J1 J1 = 7 instead of (J0 + J1)^2 = 9 *)
Definition selfloop_vs := [mkvertex 1 false].
Definition selfloop_e : Redge :=
  mkedge R [0%nat; 0%nat] (1%nat, fun _ => 1) (mkmat R 1 1 (fun _ _ => 1))
         [mkmat R 1 1 (fun _ _ => 1); mkmat R 1 1 (fun _ _ => 2)].
Lemma selfloop_refuted :
  assemble_hessian R 0 1 Rplus Rmult selfloop_vs [selfloop_e] 0 0 = 7 /\ spec_H selfloop_vs [selfloop_e] 0 0 = 9.
Proof. split; cbv - [Rplus Rmult Rminus Ropp Rdiv Rinv IZR]; ring. Qed.

