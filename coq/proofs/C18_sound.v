(* C18_sound.v — [consistent] is tied to the pose model REGENERATED from graphslam/pose/*.py: on
   the class combinations [consistent] admits, every dispatch-table entry used by calc_error and
   calc_jacobians returns (does not raise) and the shapes conform to the (n, n) information
   matrix; on every other class combination either an entry raises or the combination is one of
   the explicitly listed silent confusions (operands read as plain arrays of >= 3 numbers).
   The class space is FINITE (4 pose classes), so each statement is decided by computation over
   all 4^3 / 4^4 combinations and lifted to a universally quantified statement with
   forallb_forall; this is a proof, not a sample.  Axiom-free. *)
From Coq Require Import List ZArith Bool String.
From GS Require Import Expr Meth GenR2 GenR3 GenSE2 GenSE3 PyBase ValidModel ValidSpec ValidTables C18_construct.
Import ListNotations.

Lemma all_pk_complete k : In k all_pk.
Proof. destruct k; simpl; auto. Qed.

Lemma forall_pk (P : pkind -> bool) : forallb P all_pk = true -> forall k, P k = true.
Proof. intros H k. rewrite forallb_forall in H. apply H. apply all_pk_complete. Qed.

(* the dimension tables of the hand-written model are the generated ones *)
Lemma dims_are_generated : forall k, pdim k = gen_compact k /\ plen k = gen_len k.
Proof. intros k. destruct k; split; reflexivity. Qed.

(* ---- consistent => nothing raises, the error has the class the information matrix was sized for *)
Lemma odo_consistent_ok : forall K, odo_err K K K = Some K.
Proof. intros K. destruct K; vm_compute; reflexivity. Qed.
Lemma odo_consistent_jac : forall K, odo_jac_shapes K = [Some (pdim K, pdim K); Some (pdim K, pdim K)].
Proof. intros K. destruct K; vm_compute; reflexivity. Qed.

Lemma lm_consistent_ok : forall K0 K1, admissible_landmark K0 K1 -> lm_err K0 K0 K1 K1 = Some K1.
Proof.
  intros K0 K1 [[? ?]|[[? ?]|[[? ?]|[? ?]]]]; subst; vm_compute; reflexivity.
Qed.
Lemma lm_consistent_jac : forall K0 K1, admissible_landmark K0 K1 ->
  lm_jac_shapes K0 K1 = [Some (pdim K1, pdim K0); Some (pdim K1, pdim K1)].
Proof.
  intros K0 K1 [[? ?]|[[? ?]|[[? ?]|[? ?]]]]; subst; vm_compute; reflexivity.
Qed.

(* ---- inconsistent => raises, or one of the listed silent confusions *)
Definition odo_class_b (c : pkind * pkind * pkind) : bool :=
  let '(a, b, e) := c in
  match odo_err a b e with
  | None => true
  | Some _ => (pkind_eqb a b && pkind_eqb e a) || existsb (fun d => let '(a', b', e') := d in pkind_eqb a a' && pkind_eqb b b' && pkind_eqb e e') odo_silent
  end.
Lemma odo_classification_b : forall a b e, odo_class_b (a, b, e) = true.
Proof. intros a b e. destruct a, b, e; vm_compute; reflexivity. Qed.

Definition lm_class_b (c : pkind * pkind * pkind * pkind) : bool :=
  let '(a, o, b, e) := c in
  match lm_err a o b e with
  | None => true
  | Some _ => (lm_pairs_b a b && pkind_eqb o a && pkind_eqb e b)
              || existsb (fun d => let '(a', o', b', e') := d in pkind_eqb a a' && pkind_eqb o o' && pkind_eqb b b' && pkind_eqb e e') lm_silent
  end.
Lemma lm_classification_b : forall a o b e, lm_class_b (a, o, b, e) = true.
Proof. intros a o b e. destruct a, o, b, e; vm_compute; reflexivity. Qed.

Lemma existsb_In3 a b e l :
  existsb (fun d : pkind * pkind * pkind => let '(a', b', e') := d in pkind_eqb a a' && pkind_eqb b b' && pkind_eqb e e') l = true -> In (a, b, e) l.
Proof.
  intros H. apply existsb_exists in H. destruct H as [[[a' b'] e'] [Hin H]].
  apply andb_true_iff in H. destruct H as [H H3]. apply andb_true_iff in H. destruct H as [H1 H2].
  apply pkind_eqb_eq in H1. apply pkind_eqb_eq in H2. apply pkind_eqb_eq in H3. subst. exact Hin.
Qed.
Lemma existsb_In4 a o b e l :
  existsb (fun d : pkind * pkind * pkind * pkind => let '(a', o', b', e') := d in pkind_eqb a a' && pkind_eqb o o' && pkind_eqb b b' && pkind_eqb e e') l = true -> In (a, o, b, e) l.
Proof.
  intros H. apply existsb_exists in H. destruct H as [[[[a' o'] b'] e'] [Hin H]].
  apply andb_true_iff in H. destruct H as [H H4]. apply andb_true_iff in H. destruct H as [H H3].
  apply andb_true_iff in H. destruct H as [H1 H2].
  apply pkind_eqb_eq in H1. apply pkind_eqb_eq in H2. apply pkind_eqb_eq in H3. apply pkind_eqb_eq in H4. subst. exact Hin.
Qed.
Lemma lm_pairs_b_iff a b : lm_pairs_b a b = true <-> admissible_landmark a b.
Proof.
  unfold admissible_landmark. destruct a, b; simpl; split; intros H; try discriminate; try reflexivity; auto;
    repeat (destruct H as [[? ?]|H]; try discriminate); try (destruct H; discriminate).
Qed.

Theorem odo_classification : forall K0 K1 Ke,
  odo_err K0 K1 Ke = None \/ (K1 = K0 /\ Ke = K0) \/ In (K0, K1, Ke) odo_silent.
Proof.
  intros a b e. pose proof (odo_classification_b a b e) as H. unfold odo_class_b in H.
  destruct (odo_err a b e); [|left; reflexivity]. right.
  apply orb_true_iff in H. destruct H as [H|H].
  - left. apply andb_true_iff in H. destruct H as [H1 H2]. apply pkind_eqb_eq in H1. apply pkind_eqb_eq in H2. subst. auto.
  - right. apply existsb_In3. exact H.
Qed.
Theorem lm_classification : forall K0 Ko K1 Ke,
  lm_err K0 Ko K1 Ke = None \/ (admissible_landmark K0 K1 /\ Ko = K0 /\ Ke = K1) \/ In (K0, Ko, K1, Ke) lm_silent.
Proof.
  intros a o b e. pose proof (lm_classification_b a o b e) as H. unfold lm_class_b in H.
  destruct (lm_err a o b e); [|left; reflexivity]. right.
  apply orb_true_iff in H. destruct H as [H|H].
  - left. apply andb_true_iff in H. destruct H as [H H3]. apply andb_true_iff in H. destruct H as [H1 H2].
    apply lm_pairs_b_iff in H1. apply pkind_eqb_eq in H2. apply pkind_eqb_eq in H3. subst. auto.
  - right. apply existsb_In4. exact H.
Qed.

(* the silent lists, spelled out (they are computed from the tables; these equalities fail, and
   with them the check, if a change of the pose classes alters the set) *)
Lemma odo_silent_is :
  odo_silent = [(PR3, PR3, PSE2); (PR3, PSE2, PR3); (PR3, PSE2, PSE2); (PSE2, PR3, PR3); (PSE2, PR3, PSE2);
                (PSE2, PSE2, PR3); (PSE3, PSE2, PR3); (PSE3, PSE2, PSE2); (PSE3, PSE3, PSE2)].
Proof. vm_compute. reflexivity. Qed.
Lemma lm_silent_count : List.length lm_silent = 33%nat.
Proof. vm_compute. reflexivity. Qed.
(* the silent combinations are inconsistent ones on which nothing raises *)
Lemma odo_silent_inconsistent : forall K0 K1 Ke, In (K0, K1, Ke) odo_silent -> ~ (K1 = K0 /\ Ke = K0) /\ odo_err K0 K1 Ke <> None.
Proof.
  intros a b e H. unfold odo_silent in H. apply filter_In in H. destruct H as [_ H].
  destruct (odo_err a b e); [|discriminate]. split; [|discriminate].
  intros [E1 E2]. subst. rewrite !pkind_eqb_refl in H. discriminate.
Qed.
Lemma lm_silent_inconsistent : forall K0 Ko K1 Ke, In (K0, Ko, K1, Ke) lm_silent ->
  ~ (admissible_landmark K0 K1 /\ Ko = K0 /\ Ke = K1) /\ lm_err K0 Ko K1 Ke <> None.
Proof.
  intros a o b e H. unfold lm_silent in H. apply filter_In in H. destruct H as [_ H].
  destruct (lm_err a o b e); [|discriminate]. split; [|discriminate].
  intros [E0 [E1 E2]]. subst. apply lm_pairs_b_iff in E0. rewrite E0, !pkind_eqb_refl in H. discriminate.
Qed.

(* ---- lifted to edges: what [consistent] gives for the two library classes *)
Section Lift.
  Variable custom_ok : nat -> edge -> list bvertex -> bool.
  Theorem consistent_odometry_sound vs e :
    e_class e = Odometry -> consistent custom_ok vs e ->
    exists K, e_est e = OPose K /\ e_info e = [pdim K; pdim K] /\
              odo_err K K K = Some K /\ pdim K = gen_compact K /\
              odo_jac_shapes K = [Some (pdim K, pdim K); Some (pdim K, pdim K)].
  Proof.
    intros Hc H. unfold consistent in H. rewrite Hc in H.
    destruct H as [a [b [va [vb [K [_ [_ [_ [_ [_ [He Hs]]]]]]]]]]].
    exists K. repeat split; auto using odo_consistent_ok, odo_consistent_jac; apply dims_are_generated.
  Qed.
  Theorem consistent_landmark_sound vs e :
    e_class e = Landmark -> consistent custom_ok vs e ->
    exists K0 K1, admissible_landmark K0 K1 /\ e_off e = OPose K0 /\ e_est e = OPose K1 /\ e_info e = [pdim K1; pdim K1] /\
              lm_err K0 K0 K1 K1 = Some K1 /\ pdim K1 = gen_compact K1 /\
              lm_jac_shapes K0 K1 = [Some (pdim K1, pdim K0); Some (pdim K1, pdim K1)].
  Proof.
    intros Hc H. unfold consistent in H. rewrite Hc in H.
    destruct H as [a [b [va [vb [K0 [K1 [_ [_ [_ [_ [_ [Hadm [Ho [He Hs]]]]]]]]]]]]]].
    exists K0, K1. repeat split; auto using lm_consistent_ok, lm_consistent_jac; apply dims_are_generated.
  Qed.
End Lift.
