(* C02 (continued): landmark and SE(2)/R^n measurement models; chi^2. *)
From Coq Require Import Reals List Lra ZArith Lia.
From GS Require Import ExprR LinAlg Meth MethR Prog Chain Wrap Spec GenR2 GenR3 GenSE2 GenSE3 GenEdges
  C10_SE3 C10_SE3_boxplus C10_SE2 C10_Rn C09_SE3 C09_SE2 C11_main C01_SE3 C01_Rn C01_SE2.
Import ListNotations.
Open Scope R_scope.

Ltac cb0 := cbv - [Rplus Rmult Rminus Ropp Rdiv Rinv sqrt IZR pow sin cos PI rmod].

(* ---------- SE(3) landmark: with Q := p (+) offset, the code returns x - z where Q acts on x to give
   the landmark:  Q . x = l,  i.e.  x = (p (+) offset)^-1 applied to the landmark ---------- *)
Lemma act_inv3 q l : length q = 7%nat -> length l = 3%nat -> unitq q ->
  spec_act3 q (spec_act3 (spec_inv3 q) l) = l.
Proof.
  intros Hq Hl Hu. list_len q Hq. list_len l Hl. unfold unitq in Hu. cbv in Hu.
  assert (W : x5 * x5 = 1 - x2 * x2 - x3 * x3 - x4 * x4) by lra.
  cbv - [Rplus Rmult Rminus Ropp Rdiv Rinv sqrt IZR pow]. repeat (f_equal; try ring [W]).
Qed.
Lemma unitq_oplus a b : length a = 7%nat -> length b = 7%nat -> unitq a -> unitq b -> unitq (evl (a ++ b) SE3_oplus).
Proof.
  intros Ha Hb Ua Ub. destruct (SE3_norm_mul a b Ha Hb) as (E & _ & _). unfold unitq, qn2 in *. rewrite E, Ua, Ub. ring.
Qed.
Lemma unitq_ominus a b : length a = 7%nat -> length b = 7%nat -> unitq a -> unitq b -> unitq (evl (a ++ b) SE3_ominus).
Proof.
  intros Ha Hb Ua Ub. destruct (SE3_norm_mul a b Ha Hb) as (_ & E & _). unfold unitq, qn2 in *. rewrite E, Ua, Ub. ring.
Qed.
Lemma unitq_inv a : length a = 7%nat -> unitq a -> unitq (evl a SE3_inv).
Proof.
  intros Ha Ua. destruct (SE3_norm_mul a a Ha Ha) as (_ & _ & E). unfold unitq, qn2 in *. rewrite E. exact Ua.
Qed.
Lemma lmk3_model p l z off : length p = 7%nat -> length l = 3%nat -> length z = 3%nat -> length off = 7%nat ->
  unitq p -> unitq off ->
  let Q := evl (p ++ off) SE3_oplus in
  let x := vadd (err_lmk3 p l z off) z in
  spec_act3 Q x = l.
Proof.
  intros H1 H2 H3 H4 U1 U4. cbv zeta.
  assert (UQ : unitq (evl (p ++ off) SE3_oplus)) by (apply unitq_oplus; auto).
  set (Q := evl (p ++ off) SE3_oplus) in *.
  assert (HQ : length Q = 7%nat) by reflexivity.
  rewrite err_lmk3_unfold by auto. fold Q.
  assert (UQi : unitq (evl Q SE3_inv)) by (apply unitq_inv; auto).
  rewrite (SE3_point_action (evl Q SE3_inv) l eq_refl H2 UQi).
  rewrite SE3_inverse_spec by auto.
  assert (E : vadd (evl (spec_act3 (spec_inv3 Q) l ++ z) R3_ominus) z = spec_act3 (spec_inv3 Q) l).
  { assert (Hy3 : length (spec_act3 (spec_inv3 Q) l) = 3%nat).
    { clear - HQ H2. clearbody Q. list_len Q HQ. list_len l H2. reflexivity. }
    set (y := spec_act3 (spec_inv3 Q) l) in *. clearbody y.
    list_len y Hy3. list_len z H3. cbv - [Rplus Rmult Rminus Ropp Rdiv Rinv sqrt IZR pow]. repeat (f_equal; try ring). }
  rewrite E. apply act_inv3; auto.
Qed.

(* ---------- SE(2) odometry and landmark ---------- *)
Ltac fold_wrap :=
  repeat match goal with
  | |- context [rmod (?x + PI) (2 * PI) - PI] => change (rmod (x + PI) (2 * PI) - PI) with (wrap x)
  end.
Ltac trig_norm :=
  repeat rewrite ?cos_wrap, ?sin_wrap, ?cos_plus, ?sin_plus, ?cos_minus, ?sin_minus, ?cos_neg, ?sin_neg.

Lemma odo2_model p1 p2 z : length p1 = 3%nat -> length p2 = 3%nat -> length z = 3%nat ->
  let D := evl (p2 ++ p1) SE2_ominus in
  let E := evl (z ++ D) SE2_ominus in
  err_odo2 p1 p2 z = E /\
  mmul (hom2 p1) (hom2 D) = hom2 p2 /\
  mmul (hom2 D) (hom2 E) = hom2 z.
Proof.
  intros H1 H2 H3. cbv zeta. split; [apply err_odo2_unfold; auto|].
  list_len p1 H1. list_len p2 H2. list_len z H3.
  pose proof (sc1 x1) as C1. pose proof (sc1 x4) as C4.
  split; cb0; fold_wrap; trig_norm; repeat (f_equal; try ring [C1 C4]).
Qed.
Lemma lmk2_model p l z off : length p = 3%nat -> length l = 2%nat -> length z = 2%nat -> length off = 3%nat ->
  let Q := evl (p ++ off) SE2_oplus in
  let x := vadd (err_lmk2 p l z off) z in
  spec_act2 Q x = l.
Proof.
  intros H1 H2 H3 H4. cbv zeta. rewrite err_lmk2_unfold by auto.
  list_len p H1. list_len l H2. list_len z H3. list_len off H4.
  cb0; fold_wrap; trig_norm.
  pose proof (sc1 x1) as C1. pose proof (sc1 x8) as C8.
  repeat (f_equal; try ring [C1 C8]).
Qed.

(* ---------- R^2 / R^3 ---------- *)
Lemma Rn_models :
  (forall p1 p2 z, length p1 = 2%nat -> length p2 = 2%nat -> length z = 2%nat ->
     err_odoR2 p1 p2 z = [nth 0 z 0 - (nth 0 p2 0 - nth 0 p1 0); nth 1 z 0 - (nth 1 p2 0 - nth 1 p1 0)]) /\
  (forall p1 p2 z, length p1 = 3%nat -> length p2 = 3%nat -> length z = 3%nat ->
     err_odoR3 p1 p2 z = [nth 0 z 0 - (nth 0 p2 0 - nth 0 p1 0); nth 1 z 0 - (nth 1 p2 0 - nth 1 p1 0); nth 2 z 0 - (nth 2 p2 0 - nth 2 p1 0)]) /\
  (forall p l z off, length p = 2%nat -> length l = 2%nat -> length z = 2%nat -> length off = 2%nat ->
     err_lmkR2 p l z off = [nth 0 l 0 - (nth 0 p 0 + nth 0 off 0) - nth 0 z 0; nth 1 l 0 - (nth 1 p 0 + nth 1 off 0) - nth 1 z 0]) /\
  (forall p l z off, length p = 3%nat -> length l = 3%nat -> length z = 3%nat -> length off = 3%nat ->
     err_lmkR3 p l z off = [nth 0 l 0 - (nth 0 p 0 + nth 0 off 0) - nth 0 z 0; nth 1 l 0 - (nth 1 p 0 + nth 1 off 0) - nth 1 z 0;
                            nth 2 l 0 - (nth 2 p 0 + nth 2 off 0) - nth 2 z 0]).
Proof.
  repeat split; intros.
  - list_len p1 H. list_len p2 H0. list_len z H1. cb0. repeat (f_equal; try ring).
  - list_len p1 H. list_len p2 H0. list_len z H1. cb0. repeat (f_equal; try ring).
  - list_len p H. list_len l H0. list_len z H1. list_len off H2. cb0. repeat (f_equal; try ring).
  - list_len p H. list_len l H0. list_len z H1. list_len off H2. cb0. repeat (f_equal; try ring).
Qed.
