(* C14_fields.v -- dispatch by tag (the ten tags are pairwise non-prefixes) and the fields each parser reads. *)
From Coq Require Import List ZArith String Ascii Bool Arith Lia.
From GS Require Import G2OModel G2OSpec C14_text C14_import.
Import ListNotations.
Open Scope string_scope.
Open Scope list_scope.
Open Scope nat_scope.

Lemma builtin_nospace : forall t, In t builtin_tags -> nospace t = true.
Proof. intros t H. simpl in H. repeat (destruct H as [<-|H]; [reflexivity|]). contradiction. Qed.
Lemma builtin_nows : forall t, In t builtin_tags -> t <> "" /\ nows t = true.
Proof. intros t H. simpl in H. repeat (destruct H as [<-|H]; [split; [discriminate | reflexivity]|]). contradiction. Qed.

(* C14_prefix_disjoint: no built-in tag (with its trailing space) is a prefix of a line that another one starts *)
Lemma builtin_disjoint : forall a b s, In a builtin_tags -> In b builtin_tags ->
  starts_with (a ++ " ")%string s = true -> starts_with (b ++ " ")%string s = true -> a = b.
Proof. intros a b s Ha Hb. apply tags_disjoint; now apply builtin_nospace. Qed.

Section Fields.
  Variable num : Type.
  Variable parse : string -> option num.
  Variable parse_id : string -> option Z.
  Variable wrap : num -> num.
  Variable normq : list num -> list num.
  Variable zero : num.

  Notation parse_line := (parse_line num parse parse_id wrap normq zero).
  Notation builtin_parser := (builtin_parser num parse parse_id wrap normq zero).
  Notation parse_fields := (parse_fields num parse parse_id).

  Lemma custom_of_builtin : forall cts t r, cts_ok cts -> In t builtin_tags ->
    custom_of num parse parse_id cts (t ++ " " ++ r)%string = None.
  Proof.
    intros cts t r Hc Ht. apply custom_of_none.
    unfold cts_ok in Hc. rewrite Forall_forall in *. intros ct Hin Hr.
    destruct (Hc ct Hin Hr) as [Hn Hni].
    rewrite starts_with_tag; [| exact Hn | now apply builtin_nospace].
    destruct (String.eqb (ct_tag ct) t) eqn:E; [|reflexivity].
    apply String.eqb_eq in E. subst t. contradiction.
  Qed.

  Lemma builtin_parser_in : forall ps t f, builtin_parser ps t = Some f -> In t builtin_tags.
  Proof.
    intros ps t f H. unfold G2OSpec.builtin_parser in H.
    repeat match type of H with
           | (if String.eqb t ?x then _ else _) = _ =>
               let E := fresh "E" in
               destruct (String.eqb t x) eqn:E; [apply String.eqb_eq in E; subst t; simpl; tauto|]
           end.
    discriminate.
  Qed.

  (* C14 dispatch: a line that starts with a built-in tag and one space is handled by that tag's parser on
     the whitespace-separated fields of the rest -- whatever custom types are registered (cts_ok) and
     wherever the tag sits in the code's order *)
  Lemma dispatch_builtin : forall cts ps t f r, cts_ok cts -> builtin_parser ps t = Some f ->
    parse_line cts ps (t ++ " " ++ r)%string = f (split_ws r).
  Proof.
    intros cts ps t f r Hc H.
    pose proof (builtin_parser_in _ _ _ H) as Hin.
    unfold G2OModel.parse_line. rewrite (custom_of_builtin cts t r Hc Hin).
    unfold G2OSpec.builtin_parser in H.
    repeat match type of H with
           | (if String.eqb t ?x then _ else _) = _ =>
               let E := fresh "E" in
               destruct (String.eqb t x) eqn:E;
               [apply String.eqb_eq in E; subst t; inversion H; subst f; reflexivity|]
           end.
    discriminate.
  Qed.

  (* vertices are tried before custom types: no condition on cts *)
  Lemma dispatch_vertex : forall cts ps k r,
    parse_line cts ps (vtag k ++ " " ++ r)%string = parse_vertex num parse parse_id wrap k (split_ws r).
  Proof. intros cts ps k r. destruct k; reflexivity. Qed.

  (* a registered custom type claims its lines before the built-in edge and parameter parsers, after the vertices *)
  Lemma dispatch_custom_first : forall ct cts ps r,
    ct_reads ct = true -> nospace (ct_tag ct) = true -> ct_tag ct <> "" -> nows (ct_tag ct) = true ->
    (forall k, ct_tag ct <> vtag k) ->
    parse_line (ct :: cts) ps (ct_tag ct ++ " " ++ r)%string = parse_custom num parse parse_id ct (split_ws r).
  Proof.
    intros ct cts ps r Hr Hn Hne Hw Hv. unfold G2OModel.parse_line.
    replace (blank (ct_tag ct ++ " " ++ r)%string) with false.
    2:{ destruct (ct_tag ct) as [|c t]; [congruence|]. simpl in *. apply andb_prop in Hw. destruct Hw as [Hc _].
        destruct (is_ws c); [discriminate | reflexivity]. }
    unfold vertex_of, try_tag.
    rewrite !starts_with_tag by (try exact Hn; apply builtin_nospace; simpl; tauto).
    assert (E : forall k, String.eqb (vtag k) (ct_tag ct) = false).
    { intros k. destruct (String.eqb (vtag k) (ct_tag ct)) eqn:E; [|reflexivity].
      apply String.eqb_eq in E. exfalso. now apply (Hv k). }
    rewrite !E. cbn [orelse custom_of]. rewrite Hr. unfold try_tag.
    rewrite <- (app_assoc_s (ct_tag ct) " " r).
    rewrite starts_with_app, drop_app. reflexivity.
  Qed.

  (* ---------------- fields ---------------- *)
  Lemma firstn_app_exact : forall (A : Type) n (a b : list A), List.length a = n -> firstn n (a ++ b) = a.
  Proof. intros A n a b <-. now rewrite firstn_app, Nat.sub_diag, firstn_all, app_nil_r. Qed.
  Lemma skipn_app_exact : forall (A : Type) n (a b : list A), List.length a = n -> skipn n (a ++ b) = b.
  Proof. intros A n a b <-. now rewrite skipn_app, Nat.sub_diag, skipn_all. Qed.

  Lemma fields_vertex : forall k it nts i xs,
    parse_id it = Some i -> map parse nts = map Some xs -> List.length xs = dimk k ->
    parse_vertex num parse parse_id wrap k (it :: nts) = Ok (IVert (mkV i k (post num wrap k xs))).
  Proof.
    intros k it nts i xs Hi Hn Hl. unfold parse_vertex. change (it :: nts) with ([it] ++ nts).
    rewrite (parse_fields_ok num parse parse_id 1 (dimk k) [it] nts [i] xs); simpl; try rewrite Hi; auto.
  Qed.

  Lemma fields_param : forall p it nts i xs,
    parse_id it = Some i -> map parse nts = map Some xs ->
    List.length xs = (match p with PSE2 => 3 | PSE3 => 7 end) ->
    parse_param num parse parse_id wrap p (it :: nts)
    = Ok (IParam (p, i) (match p with PSE2 => wrap3 num wrap xs | PSE3 => xs end)).
  Proof.
    intros p it nts i xs Hi Hn Hl. unfold parse_param. change (it :: nts) with ([it] ++ nts).
    rewrite (parse_fields_ok num parse parse_id 1 _ [it] nts [i] xs); simpl; try rewrite Hi; auto.
  Qed.

  Lemma fields_odo_se2 : forall a b ets its i j est tr,
    parse_id a = Some i -> parse_id b = Some j ->
    map parse ets = map Some est -> List.length est = 3 ->
    map parse its = map Some tr -> List.length tr = tri 3 ->
    parse_odo_se2 num parse parse_id wrap (a :: b :: ets ++ its)
    = Ok (IEdge (EOdo KSE2 i j (wrap3 num wrap est) (unpack 3 tr))).
  Proof.
    intros a b ets its i j est tr Ha Hb He Le Ht Lt. unfold parse_odo_se2. change (a :: b :: ets ++ its) with ([a; b] ++ (ets ++ its)).
    rewrite (parse_fields_ok num parse parse_id 2 (3 + tri 3) [a; b] (ets ++ its) [i; j] (est ++ tr));
      [| simpl; now rewrite Ha, Hb | now rewrite !map_app, He, Ht | reflexivity | rewrite app_length; lia].
    rewrite firstn_app_exact, skipn_app_exact by assumption. reflexivity.
  Qed.

  Lemma fields_odo_se3 : forall a b ets its i j est tr,
    parse_id a = Some i -> parse_id b = Some j ->
    map parse ets = map Some est -> List.length est = 7 ->
    map parse its = map Some tr -> List.length tr = tri 6 ->
    parse_odo_se3 num parse parse_id normq (a :: b :: ets ++ its)
    = Ok (IEdge (EOdo KSE3 i j (normq7 num normq est) (unpack 6 tr))).
  Proof.
    intros a b ets its i j est tr Ha Hb He Le Ht Lt. unfold parse_odo_se3. change (a :: b :: ets ++ its) with ([a; b] ++ (ets ++ its)).
    rewrite (parse_fields_ok num parse parse_id 2 (7 + tri 6) [a; b] (ets ++ its) [i; j] (est ++ tr));
      [| simpl; now rewrite Ha, Hb | now rewrite !map_app, He, Ht | reflexivity | rewrite app_length; lia].
    rewrite firstn_app_exact, skipn_app_exact by assumption. reflexivity.
  Qed.

  Lemma fields_lmk_se2 : forall a b ets its i j est tr,
    parse_id a = Some i -> parse_id b = Some j ->
    map parse ets = map Some est -> List.length est = 2 ->
    map parse its = map Some tr -> List.length tr = tri 2 ->
    parse_lmk_se2 num parse parse_id zero (a :: b :: ets ++ its)
    = Ok (IEdge (ELmk KSE2 KR2 i j est (unpack 2 tr) (ident_se2 num zero) (Some 0%Z))).
  Proof.
    intros a b ets its i j est tr Ha Hb He Le Ht Lt. unfold parse_lmk_se2. change (a :: b :: ets ++ its) with ([a; b] ++ (ets ++ its)).
    rewrite (parse_fields_ok num parse parse_id 2 (2 + tri 2) [a; b] (ets ++ its) [i; j] (est ++ tr));
      [| simpl; now rewrite Ha, Hb | now rewrite !map_app, He, Ht | reflexivity | rewrite app_length; lia].
    rewrite firstn_app_exact, skipn_app_exact by assumption. reflexivity.
  Qed.

  (* the offset is the value the dictionary holds for that id when the line is read; no entry = KeyError *)
  Lemma fields_lmk_se3 : forall ps a b c ets its i j o est tr,
    parse_id a = Some i -> parse_id b = Some j -> parse_id c = Some o ->
    map parse ets = map Some est -> List.length est = 3 ->
    map parse its = map Some tr -> List.length tr = tri 3 ->
    parse_lmk_se3 num parse parse_id ps (a :: b :: c :: ets ++ its)
    = match plookup num ps (PSE3, o) with
      | Some off => Ok (IEdge (ELmk KSE3 KR3 i j est (unpack 3 tr) off (Some o)))
      | None => Error EKey
      end.
  Proof.
    intros ps a b c ets its i j o est tr Ha Hb Hc He Le Ht Lt. unfold parse_lmk_se3. change (a :: b :: c :: ets ++ its) with ([a; b; c] ++ (ets ++ its)).
    rewrite (parse_fields_ok num parse parse_id 3 (3 + tri 3) [a; b; c] (ets ++ its) [i; j; o] (est ++ tr));
      [| simpl; now rewrite Ha, Hb, Hc | now rewrite !map_app, He, Ht | reflexivity | rewrite app_length; lia].
    rewrite firstn_app_exact, skipn_app_exact by assumption. reflexivity.
  Qed.

  Lemma fields_custom : forall ct its ets tts ids est tr,
    map parse_id its = map Some ids -> List.length ids = ct_nids ct ->
    map parse ets = map Some est -> List.length est = ct_nest ct ->
    map parse tts = map Some tr -> List.length tr = tri (ct_dim ct) ->
    parse_custom num parse parse_id ct (its ++ ets ++ tts)
    = Ok (IEdge (ECus ct ids est (unpack (ct_dim ct) tr))).
  Proof.
    intros ct its ets tts ids est tr Hi Li He Le Ht Lt. unfold parse_custom.
    rewrite (parse_fields_ok num parse parse_id (ct_nids ct) (ct_nest ct + tri (ct_dim ct)) its (ets ++ tts) ids (est ++ tr));
      [| assumption | now rewrite !map_app, He, Ht | assumption | rewrite app_length; lia].
    rewrite firstn_app_exact, skipn_app_exact by assumption. reflexivity.
  Qed.

  (* a token float() rejects makes the whole import fail (ValueError), it is never skipped or defaulted *)
  Lemma bad_number_raises : forall nids nnum ts, List.length ts = nids + nnum ->
    (exists t, In t (skipn nids ts) /\ parse t = None) -> parse_fields nids nnum ts = Error EValue.
  Proof.
    intros nids nnum ts Hl [t [Hin Hp]]. unfold G2OModel.parse_fields. rewrite Hl, Nat.eqb_refl.
    assert (H : parse_nums num parse (skipn nids ts) = Error EValue).
    { induction (skipn nids ts) as [|x r IH]; [contradiction|]. simpl.
      destruct Hin as [->|Hin]; [now rewrite Hp|].
      destruct (parse x); [|reflexivity]. now rewrite (IH Hin). }
    now rewrite H.
  Qed.
End Fields.
