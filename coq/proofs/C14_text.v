(* C14_text.v -- lemmas about the text layer of G2OModel: str.split(), str.startswith(), rendering. *)
From Coq Require Import List ZArith String Ascii Bool Arith Lia.
From GS Require Import G2OModel G2OSpec.
Import ListNotations.
Open Scope string_scope.
Open Scope list_scope.
Open Scope nat_scope.

Lemma app_assoc_s : forall a b c : string, ((a ++ b) ++ c = a ++ (b ++ c))%string.
Proof. induction a as [|x a IH]; intros b c; simpl; [reflexivity | now rewrite IH]. Qed.
Lemma app_nil_r_s : forall a : string, (a ++ "" = a)%string.
Proof. induction a as [|x a IH]; simpl; [reflexivity | now rewrite IH]. Qed.
Lemma length_app_s : forall a b : string, String.length (a ++ b)%string = String.length a + String.length b.
Proof. induction a as [|x a IH]; intros b; simpl; [reflexivity | now rewrite IH]. Qed.

(* ---------------- split ---------------- *)
Lemma toks_app_nows : forall w cur s, nows w = true -> toks cur (w ++ s)%string = toks (cur ++ w)%string s.
Proof.
  induction w as [|c w IH]; intros cur s H; simpl in *.
  - now rewrite app_nil_r_s.
  - apply andb_prop in H. destruct H as [Hc Hw].
    destruct (is_ws c) eqn:E; [discriminate|].
    rewrite IH by exact Hw. rewrite app_assoc_s. reflexivity.
Qed.

Lemma toks_blank : forall e, blank e = true -> toks "" e = [].
Proof.
  induction e as [|c e IH]; intros H; simpl in *; [reflexivity|].
  apply andb_prop in H. destruct H as [Hc He]. rewrite Hc. now apply IH.
Qed.

Lemma toks_cur_blank : forall t e, t <> "" -> blank e = true -> toks t e = [t].
Proof.
  intros t e Ht He. destruct e as [|c e]; simpl in *.
  - destruct t; [congruence | reflexivity].
  - apply andb_prop in He. destruct He as [Hc He]. rewrite Hc.
    rewrite (toks_blank e He). destruct t; [congruence | reflexivity].
Qed.

Lemma toks_lead : forall lead s, blank lead = true -> toks "" (lead ++ s)%string = toks "" s.
Proof.
  induction lead as [|c l IH]; intros s H; simpl in *; [reflexivity|].
  apply andb_prop in H. destruct H as [Hc Hl]. rewrite Hc. now apply IH.
Qed.

Lemma toks_tok_sep : forall t sp s, good_tok t -> blank sp = true -> sp <> "" ->
  toks "" (t ++ sp ++ s)%string = t :: toks "" s.
Proof.
  intros t sp s [Ht Hw] Hb Hne.
  rewrite toks_app_nows by exact Hw. simpl.
  destruct sp as [|c sp]; [congruence|]. simpl in *.
  apply andb_prop in Hb. destruct Hb as [Hc Hb]. rewrite Hc.
  destruct t; [congruence|]. f_equal. now apply toks_lead.
Qed.

Lemma toks_tok_end : forall t e, good_tok t -> blank e = true -> toks "" (t ++ e)%string = [t].
Proof.
  intros t e [Ht Hw] He. rewrite toks_app_nows by exact Hw. simpl. now apply toks_cur_blank.
Qed.

(* C14_ws: runs of whitespace between fields, leading and trailing whitespace (CR, LF included) are ignored *)
Lemma split_glue : forall items lead, blank lead = true -> seps_ok items ->
  split_ws (lead ++ glue items)%string = map fst items.
Proof.
  unfold split_ws. intros items lead Hl. rewrite toks_lead by exact Hl. clear lead Hl.
  induction items as [|[t sp] r IH]; intros H; simpl in *.
  - reflexivity.
  - destruct H as (Ht & Hb & Hne & Hr).
    destruct r as [|p r'].
    + simpl. rewrite app_nil_r_s. now apply toks_tok_end.
    + rewrite toks_tok_sep by assumption. f_equal. now apply IH.
Qed.

Lemma blank_space : blank " " = true. Proof. reflexivity. Qed.
Lemma blank_nl : blank nl = true. Proof. reflexivity. Qed.

Lemma split_join : forall ts, Forall good_tok ts -> split_ws (join_sp ts ++ nl)%string = ts.
Proof.
  unfold split_ws.
  induction ts as [|t r IH]; intros H.
  - simpl. reflexivity.
  - inversion H as [|? ? Ht Hr]; subst.
    destruct r as [|t' r'].
    + simpl. now apply toks_tok_end.
    + change (join_sp (t :: t' :: r')) with (t ++ " " ++ join_sp (t' :: r'))%string.
      rewrite !app_assoc_s.
      rewrite toks_tok_sep; [| assumption | reflexivity | discriminate].
      f_equal. now apply IH.
Qed.

(* ---------------- startswith ---------------- *)
Lemma starts_with_app : forall p s, starts_with p (p ++ s)%string = true.
Proof. induction p as [|c p IH]; intros s; simpl; [reflexivity|]. now rewrite Ascii.eqb_refl, IH. Qed.
Lemma drop_app : forall p s, drop (String.length p) (p ++ s)%string = s.
Proof. induction p as [|c p IH]; intros s; simpl; [reflexivity | apply IH]. Qed.
Lemma starts_with_inv : forall p s, starts_with p s = true -> exists r, s = (p ++ r)%string.
Proof.
  induction p as [|c p IH]; intros s H; simpl in *.
  - now exists s.
  - destruct s as [|b s]; [discriminate|]. apply andb_prop in H. destruct H as [Hc Hp].
    apply Ascii.eqb_eq in Hc. subst b. destruct (IH _ Hp) as [r ->]. now exists r.
Qed.

Lemma starts_with_tag : forall a b s, nospace a = true -> nospace b = true ->
  starts_with (a ++ " ")%string (b ++ " " ++ s)%string = String.eqb a b.
Proof.
  induction a as [|x a IH]; intros b s Ha Hb.
  - destruct b as [|c b]; cbn [starts_with append nospace String.eqb] in *; [reflexivity|].
    apply andb_prop in Hb. destruct Hb as [Hc _]. unfold space in Hc.
    destruct (Ascii.eqb " " c) eqn:E; [|reflexivity].
    apply Ascii.eqb_eq in E. subst c. discriminate.
  - cbn [nospace] in Ha. apply andb_prop in Ha. destruct Ha as [Hx Ha].
    destruct b as [|c b]; cbn [starts_with append nospace String.eqb] in *.
    + unfold space in Hx. destruct (Ascii.eqb x " "); [discriminate | reflexivity].
    + apply andb_prop in Hb. destruct Hb as [_ Hb].
      rewrite (IH b s Ha Hb). destruct (Ascii.eqb x c); reflexivity.
Qed.

(* C14_prefix_disjoint, general form: two space-free tags (with their trailing space) that both start the
   same line are the same tag *)
Lemma tags_disjoint : forall a b s, nospace a = true -> nospace b = true ->
  starts_with (a ++ " ")%string s = true -> starts_with (b ++ " ")%string s = true -> a = b.
Proof.
  intros a b s Ha Hb H1 H2. apply starts_with_inv in H1. destruct H1 as [r ->].
  rewrite app_assoc_s in H2. rewrite starts_with_tag in H2 by assumption.
  apply String.eqb_eq in H2. congruence.
Qed.

(* ---------------- rendered lines ---------------- *)
Lemma try_tag_render : forall (A : Type) (t' t : string) (ts : list string) (f : list string -> A),
  nospace t' = true -> nospace t = true -> Forall good_tok ts ->
  try_tag t' (render (t, ts)) f = if String.eqb t' t then Some (f ts) else None.
Proof.
  intros A t' t ts f H' H Hts. unfold try_tag, render. simpl fst. simpl snd.
  rewrite starts_with_tag by assumption.
  destruct (String.eqb t' t) eqn:E; [|reflexivity].
  apply String.eqb_eq in E. subst t'.
  replace (t ++ " " ++ join_sp ts ++ nl)%string with ((t ++ " ") ++ (join_sp ts ++ nl))%string
    by now rewrite app_assoc_s.
  rewrite drop_app, split_join by assumption. reflexivity.
Qed.

Lemma blank_render : forall t ts, t <> "" -> nows t = true -> blank (render (t, ts)) = false.
Proof.
  intros t ts Ht Hw. unfold render. simpl. destruct t as [|c t]; [congruence|]. simpl in *.
  apply andb_prop in Hw. destruct Hw as [Hc _]. destruct (is_ws c); [discriminate | reflexivity].
Qed.

(* ---------------- matrices ---------------- *)
Section MatLemmas.
  Context {A : Type}.
  Lemma pack_from_S : forall (M : list (list A)) i, pack_from (S i) M = pack_from i (map (@tl A) M).
  Proof.
    induction M as [|r M IH]; intros i; simpl; [reflexivity|].
    rewrite IH. f_equal. destruct r; simpl; [now destruct i | reflexivity].
  Qed.
  Lemma pack_cons : forall (r : list A) rest, pack (r :: rest) = r ++ pack (map (@tl A) rest).
  Proof. intros. unfold pack. simpl. now rewrite pack_from_S. Qed.

  Lemma symm_length : forall n (M : list (list A)), symm n M -> List.length M = n.
  Proof.
    induction n as [|m IH]; intros M H; simpl in H.
    - now subst.
    - destruct M as [|r rest]; [contradiction|]. destruct H as (_ & _ & Hs).
      apply IH in Hs. rewrite map_length in Hs. simpl. now rewrite Hs.
  Qed.
  Lemma pack_length : forall n (M : list (list A)), symm n M -> List.length (pack M) = tri n.
  Proof.
    induction n as [|m IH]; intros M H; simpl in H.
    - now subst.
    - destruct M as [|r rest]; [contradiction|]. destruct H as (Hr & _ & Hs).
      rewrite pack_cons, app_length, Hr, (IH _ Hs). reflexivity.
  Qed.
  (* unpack (pack M) = M for symmetric M *)
  Lemma unpack_pack : forall n (M : list (list A)), symm n M -> unpack n (pack M) = M.
  Proof.
    induction n as [|m IH]; intros M H; simpl in H.
    - now subst.
    - destruct M as [|r rest]; [contradiction|]. destruct H as (Hr & Hz & Hs).
      rewrite pack_cons. cbn [unpack].
      rewrite <- Hr at 1 2. rewrite firstn_app, Nat.sub_diag, firstn_all. simpl firstn. rewrite app_nil_r.
      rewrite <- Hr. rewrite skipn_app, Nat.sub_diag, skipn_all. simpl.
      rewrite (IH _ Hs). now rewrite <- Hz.
  Qed.

  Lemma nth_zipcons : forall (c : list A) (M : list (list A)) i d,
    i < List.length c -> i < List.length M -> nth i (zipcons c M) [] = nth i c d :: nth i M [].
  Proof.
    induction c as [|x c IH]; intros M i d Hc HM; simpl in *; [lia|].
    destruct M as [|r M]; simpl in *; [lia|].
    destruct i; [reflexivity|]. apply IH; lia.
  Qed.
  Lemma zipcons_length : forall (c : list A) M, List.length (zipcons c M) = Nat.min (List.length c) (List.length M).
  Proof. induction c as [|x c IH]; intros [|r M]; simpl; auto. Qed.
  Lemma nth_firstn_lt : forall n (l : list A) i d, i < n -> nth i (firstn n l) d = nth i l d.
  Proof.
    induction n as [|n IH]; intros l i d H; [lia|]. destruct l as [|a l]; [now destruct i|].
    destruct i; simpl; [reflexivity | apply IH; lia].
  Qed.
  Lemma nth_skipn_add : forall n (l : list A) i d, nth i (skipn n l) d = nth (n + i) l d.
  Proof.
    induction n as [|n IH]; intros l i d; [reflexivity|]. destruct l as [|a l]; [now destruct i|]. apply IH.
  Qed.
  Lemma tl_firstn_length : forall m (l : list A), S m <= List.length l -> List.length (tl (firstn (S m) l)) = m.
  Proof. intros m [|a l] H; simpl in *; [lia|]. rewrite firstn_length. lia. Qed.
  Lemma unpack_S : forall m (l : list A),
    unpack (S m) l = firstn (S m) l :: zipcons (tl (firstn (S m) l)) (unpack m (skipn (S m) l)).
  Proof. reflexivity. Qed.
  Lemma unpack_length : forall n (l : list A), tri n <= List.length l -> List.length (unpack n l) = n.
  Proof.
    induction n as [|m IH]; intros l H; [reflexivity|]. rewrite unpack_S.
    change (tri (S m)) with (S m + tri m) in H.
    assert (H1 : tri m <= List.length (skipn (S m) l)) by (rewrite skipn_length; lia).
    cbn [List.length]. rewrite zipcons_length, (IH _ H1), tl_firstn_length by lia. lia.
  Qed.

  (* C14_fields for matrices: entry (i,j) of the expanded matrix is the packed token at the position of
     (min i j, max i j) *)
  Lemma unpack_entry : forall d n (l : list A) i j, List.length l = tri n -> i < n -> j < n ->
    nth j (nth i (unpack n l) []) d = full_entry d n l i j.
  Proof.
    intros d. induction n as [|m IH]; intros l i j Hl Hi Hj; [lia|].
    rewrite unpack_S. change (tri (S m)) with (S m + tri m) in Hl.
    assert (H1 : List.length (skipn (S m) l) = tri m) by (rewrite skipn_length; lia).
    destruct i as [|i].
    - unfold full_entry. cbn [nth Nat.leb tri_idx]. apply nth_firstn_lt. lia.
    - assert (Hu : List.length (unpack m (skipn (S m) l)) = m) by (apply unpack_length; lia).
      assert (Ht : List.length (tl (firstn (S m) l)) = m) by (apply tl_firstn_length; lia).
      cbn [nth]. rewrite (nth_zipcons _ _ i d) by lia.
      destruct j as [|j].
      + unfold full_entry. cbn [nth Nat.leb tri_idx].
        destruct l as [|a l]; [simpl in Hl; lia|].
        change (firstn (S m) (a :: l)) with (a :: firstn m l). cbn [tl nth].
        apply nth_firstn_lt. lia.
      + cbn [nth]. rewrite IH by lia.
        unfold full_entry. cbn [Nat.leb].
        destruct (i <=? j); cbn [tri_idx]; rewrite nth_skipn_add; reflexivity.
  Qed.
End MatLemmas.
