(* C16_pairs.v — which Hessian contributions an n-slot edge makes (lib/GraphModel.v: hess_contribs, the
   second list comprehension of BaseEdge.calc_chi2_gradient_hessian): exactly one block
   J_i^T Omega J_j, keyed by the two gradient indices, for every pair of slots i <= j < n, in row-major
   order; and the instantiation of the assembly theorem of C03 to edges whose Jacobians are the
   numerically differentiated ones of lib/FDModel.v. *)
From Coq Require Import Reals List Arith Bool Lia.
From GS Require Import GraphModel GNSpec FDModel C03_assembly.
Import ListNotations.
Local Open Scope nat_scope.

Section Pairs.
Variable T : Type.
Variable zero : T.
Variables add mul : T -> T -> T.

Definition pair_entry (vs : list vertex) (e : edge T) (ij : nat * nat) : (nat * nat) * mat T :=
  ((gi vs (slot_at T e (fst ij)), gi vs (slot_at T e (snd ij))),
   mdot T zero add mul (mdot T zero add mul (mtr T (jac_at T zero e (fst ij))) (e_om T e)) (jac_at T zero e (snd ij))).
(* the upper-triangular index pairs in the order of the comprehension: for i in range(n) for j in range(i, n) *)
Definition upper_pairs (n : nat) : list (nat * nat) := flat_map (fun i => map (pair i) (seq i (n - i))) (seq 0 n).

Lemma hess_contribs_pairs vs e :
  hess_contribs T zero add mul vs e = map (pair_entry vs e) (upper_pairs (length (e_jac T e))).
Proof.
  unfold hess_contribs, upper_pairs. cbv zeta.
  assert (G : forall (g : nat -> list nat) (l : list nat),
     flat_map (fun i => map (fun j => pair_entry vs e (i, j)) (g i)) l = map (pair_entry vs e) (flat_map (fun i => map (pair i) (g i)) l)).
  { intros g l. induction l as [|i l IH]; simpl; [reflexivity|]. rewrite map_app, map_map. f_equal. exact IH. }
  exact (G (fun i => seq i (length (e_jac T e) - i)) (seq 0 (length (e_jac T e)))).
Qed.
End Pairs.

Lemma in_upper_pairs n i j : In (i, j) (upper_pairs n) <-> i <= j < n.
Proof.
  unfold upper_pairs. rewrite in_flat_map. split.
  - intros (i' & Hi & Hin). apply in_seq in Hi. apply in_map_iff in Hin. destruct Hin as (j' & E & Hj).
    inversion E; subst. apply in_seq in Hj. lia.
  - intros H. exists i. split; [apply in_seq; lia|]. apply in_map. apply in_seq. lia.
Qed.

Lemma NoDup_app_intro {A} (l1 l2 : list A) : NoDup l1 -> NoDup l2 -> (forall x, In x l1 -> ~ In x l2) -> NoDup (l1 ++ l2).
Proof.
  induction l1 as [|a l1 IH]; intros H1 H2 Hd; simpl; auto.
  inversion H1 as [|? ? Ha Hl1]; subst. constructor.
  - intros Hin. apply in_app_or in Hin. destruct Hin as [Hin|Hin]; [contradiction|]. apply (Hd a); [left; reflexivity|exact Hin].
  - apply IH; auto. intros x Hx. apply Hd. right. exact Hx.
Qed.
Lemma NoDup_map_pair {A B} (i : A) (l : list B) : NoDup l -> NoDup (map (pair i) l).
Proof.
  induction 1 as [|b l Hb Hl IH]; simpl; constructor; auto.
  intros Hin. apply in_map_iff in Hin. destruct Hin as (b' & E & Hb'). inversion E; subst. contradiction.
Qed.
Lemma NoDup_flat_pairs (g : nat -> list nat) : forall l, NoDup l -> (forall i, NoDup (g i)) ->
  NoDup (flat_map (fun i => map (pair i) (g i)) l).
Proof.
  induction 1 as [|a l Ha Hl IH]; intros Hg; simpl; [constructor|].
  apply NoDup_app_intro; [apply NoDup_map_pair; auto | apply IH; auto |].
  intros [i j] Hin Hin2. apply in_map_iff in Hin. destruct Hin as (j' & E & _). inversion E; subst.
  apply in_flat_map in Hin2. destruct Hin2 as (i' & Hi' & Hin2). apply in_map_iff in Hin2.
  destruct Hin2 as (j'' & E2 & _). inversion E2; subst. contradiction.
Qed.
Lemma NoDup_upper_pairs n : NoDup (upper_pairs n).
Proof. unfold upper_pairs. apply (NoDup_flat_pairs (fun i => seq i (n - i))); [apply seq_NoDup|]. intros i. apply seq_NoDup. Qed.

Lemma length_upper_pairs n : 2 * length (upper_pairs n) = n * (n + 1).
Proof.
  unfold upper_pairs.
  assert (G : forall m a, a + m = n -> 2 * length (flat_map (fun i => map (pair i) (seq i (n - i))) (seq a m)) = m * (m + 1)).
  { induction m as [|m IH]; intros a H; simpl; [reflexivity|].
    rewrite app_length, map_length, seq_length. specialize (IH (S a) ltac:(lia)).
    replace (n - a) with (S m) by lia. lia. }
  apply (G n 0). lia.
Qed.

(* ==== C16_pairs ==== *)
Theorem pairs_statement :
  forall (T : Type) (zero : T) (add mul : T -> T -> T) (vs : list vertex) (e : edge T),
    let n := length (e_jac T e) in
    hess_contribs T zero add mul vs e = map (pair_entry T zero add mul vs e) (upper_pairs n) /\
    (forall i j, In (i, j) (upper_pairs n) <-> i <= j < n) /\
    NoDup (upper_pairs n) /\
    2 * length (hess_contribs T zero add mul vs e) = n * (n + 1) /\
    (forall i j, i <= j < n -> In (pair_entry T zero add mul vs e (i, j)) (hess_contribs T zero add mul vs e)) /\
    (forall x, In x (hess_contribs T zero add mul vs e) -> exists i j, i <= j < n /\ x = pair_entry T zero add mul vs e (i, j)).
Proof.
  intros T zero add mul vs e n. subst n.
  split; [apply hess_contribs_pairs|]. split; [intros; apply in_upper_pairs|]. split; [apply NoDup_upper_pairs|].
  split; [rewrite hess_contribs_pairs, map_length; apply length_upper_pairs|]. split.
  - intros i j H. rewrite hess_contribs_pairs. apply in_map. apply in_upper_pairs. exact H.
  - intros x H. rewrite hess_contribs_pairs in H. apply in_map_iff in H. destruct H as ([i j] & E & Hin).
    exists i, j. split; [apply in_upper_pairs; exact Hin | symmetry; exact E].
Qed.

(* ==== edges whose Jacobians are the numerically differentiated ones ==== *)
Open Scope R_scope.
Section FDEdges.
Variable P : Type.
Variable h : R.
Variable copy : P -> P.
Variable boxplus : P -> list R -> P.
Variable dim : P -> nat.

Record fd_desc := mkdesc { d_slots : list nat; d_err : list P -> list R; d_om : Rmat }.
(* the edge as calc_chi2_gradient_hessian sees it: error at the current poses of its slots, and the
   Jacobians returned by the numerical-differentiation loop of lib/FDModel.v *)
Definition fd_edge (poses : list P) (dflt : P) (d : fd_desc) : Redge :=
  let s := map (fun k => nth k poses dflt) (d_slots d) in
  mkedge R (d_slots d) (vec_of_list R 0 (d_err d s)) (d_om d)
         (jac_mats R P 0 Rminus Rdiv h copy boxplus (d_err d) dim s).

(* the assembled system of a graph of such edges is the Gauss-Newton system of those Jacobians: this is the
   assembly theorem of C03 (which holds for ANY Jacobians) instantiated *)
Theorem assembly_fd vs poses dflt (descs : list fd_desc) :
  let es := map (fd_edge poses dflt) descs in
  wf_graph vs es ->
  (forall r, (r < glen vs)%nat -> assemble_gradient R 0 Rplus Rmult vs es r = spec_b vs es r) /\
  (forall r c, (r < glen vs)%nat -> (c < glen vs)%nat -> assemble_hessian R 0 1 Rplus Rmult vs es r c = spec_H vs es r c) /\
  assemble_chi2 R 0 Rplus Rmult vs es = spec_chi2 es.
Proof. intros es Hwf. exact (assembly_correct vs es Hwf). Qed.
End FDEdges.

(* the hypothesis is satisfiable: a 1-dimensional "pose" (a real), one vertex, one unary prior edge
   err = [x - 2] differentiated numerically with step 1/2 *)
Definition ex_desc : fd_desc R := mkdesc R [0%nat] (fun s => [nth 0 s 0 - 2]) (mkmat R 1 1 (fun _ _ => 1)).
Example assembly_fd_hypothesis_satisfiable :
  wf_graph [mkvertex 1 false] (map (fd_edge R (1/2) (fun p => p) (fun p d => p + hd 0 d) (fun _ => 1%nat) [5] 0) [ex_desc]).
Proof.
  split; [repeat constructor|]. constructor; [|constructor].
  unfold wf_edge. cbn. repeat split; auto.
  - repeat constructor. intros [].
  - destruct s; [reflexivity|lia].
  - destruct s; [reflexivity|lia].
Qed.
