(* C08 (graph level): the assembled system and chi^2 do not depend on the order of the edge list, on an
   injective relabelling of vertex ids, on splitting an edge into two edges carrying half the
   information, or (up to the common factor) on scaling all information matrices. *)
From Coq Require Import Reals List Arith Bool Lia Lra Permutation ZArith.
From GS Require Import GraphModel GNSpec C03_sums C03_index C03_assembly C06_main.
Import ListNotations.
Open Scope R_scope.

Lemma sumlist_perm {A} (l l' : list A) f : Permutation l l' -> sumlist l f = sumlist l' f.
Proof.
  induction 1 as [| x l l' _ IH | x y l | l l' l'' _ IH1 _ IH2].
  - reflexivity.
  - unfold sumlist in *. simpl. rewrite IH. reflexivity.
  - unfold sumlist. simpl. lra.
  - congruence.
Qed.
Lemma sumlist_cons {A} (x : A) l f : sumlist (x :: l) f = f x + sumlist l f.
Proof. reflexivity. Qed.
Lemma sumlist_scal {A} (l : list A) c f : sumlist l (fun x => c * f x) = c * sumlist l f.
Proof. unfold sumlist. induction l as [|x l IH]; simpl; [ring|]. rewrite IH. ring. Qed.

(* ---- permuting the edge list ---- *)
Theorem C08_edge_perm vs es es' : Permutation es es' ->
  (forall r, spec_b vs es r = spec_b vs es' r) /\ (forall r c, spec_H vs es r c = spec_H vs es' r c) /\
  spec_chi2 es = spec_chi2 es'.
Proof.
  intros Hp. repeat split.
  - intros r. unfold spec_b. destruct (locate vs r) as [[k i]|]; auto. destruct (fixed_at vs k); auto. apply sumlist_perm; auto.
  - intros r c. unfold spec_H. destruct (locate vs r) as [[k i]|]; auto. destruct (locate vs c) as [[l j]|]; auto.
    destruct (fixed_at vs k || fixed_at vs l); auto. apply sumlist_perm; auto.
  - unfold spec_chi2. apply sumlist_perm; auto.
Qed.

(* ---- scaling the information of every edge by c ---- *)
Definition mscaleR (c : R) (m : Rmat) : Rmat := mkmat R (rows R m) (cols R m) (fun i j => c * ent R m i j).
Definition scale_edge (c : R) (e : Redge) : Redge := mkedge R (e_slots R e) (e_err R e) (mscaleR c (e_om R e)) (e_jac R e).
Lemma Cblock_scale c e s t i j : ent R (Cblock (scale_edge c e) s t) i j = c * ent R (Cblock e s t) i j.
Proof.
  unfold Cblock, scale_edge, jac_at. cbn [e_om e_jac mdot mtr mscaleR ent rows cols].
  rewrite <- sumn_scal_l. apply sumn_ext. intros k _.
  rewrite <- Rmult_assoc. f_equal. rewrite <- sumn_scal_l. apply sumn_ext. intros a _. ring.
Qed.
Lemma gblock_scale c e s i : snd (gblock (scale_edge c e) s) i = c * snd (gblock e s) i.
Proof.
  unfold gblock, scale_edge, jac_at, vdotm. cbn [e_om e_jac e_err mscaleR ent rows cols fst snd].
  rewrite <- sumn_scal_l. apply sumn_ext. intros k _.
  rewrite <- Rmult_assoc. f_equal. rewrite <- sumn_scal_l. apply sumn_ext. intros a _. ring.
Qed.
Lemma chi2_scale c e : edge_chi2 R 0 Rplus Rmult (scale_edge c e) = c * edge_chi2 R 0 Rplus Rmult e.
Proof.
  unfold edge_chi2, vdotv, vdotm, scale_edge. cbn [e_om e_err mscaleR ent rows cols fst snd].
  rewrite <- sumn_scal_l. apply sumn_ext. intros k _.
  rewrite <- Rmult_assoc. f_equal. rewrite <- sumn_scal_l. apply sumn_ext. intros a _. ring.
Qed.
Lemma spec_scale vs es c :
  (forall r, spec_b vs (map (scale_edge c) es) r = c * spec_b vs es r) /\
  (forall r cc, (r < glen vs)%nat -> (cc < glen vs)%nat ->
     spec_H vs (map (scale_edge c) es) r cc =
     if orb (is_fixed_index vs r) (is_fixed_index vs cc) then spec_H vs es r cc else c * spec_H vs es r cc) /\
  spec_chi2 (map (scale_edge c) es) = c * spec_chi2 es.
Proof.
  repeat split.
  - intros r. unfold spec_b. destruct (locate vs r) as [[k i]|]; [|ring]. destruct (fixed_at vs k); [ring|].
    rewrite sumlist_map. rewrite <- sumlist_scal. apply sumlist_ext. intros e _.
    cbn [scale_edge e_slots]. rewrite <- sumn_scal_l. apply sumn_ext. intros s _.
    unfold slot_at. cbn [scale_edge e_slots]. rewrite gblock_scale. ring.
  - intros r cc Hr Hc. unfold spec_H, is_fixed_index.
    destruct (locate_total vs r Hr) as (k & i & Lr). destruct (locate_total vs cc Hc) as (l & j & Lc). rewrite Lr, Lc.
    destruct (fixed_at vs k || fixed_at vs l); [reflexivity|].
    rewrite sumlist_map. rewrite <- sumlist_scal. apply sumlist_ext. intros e _.
    cbn [scale_edge e_slots]. rewrite <- sumn_scal_l. apply sumn_ext. intros s _.
    rewrite <- sumn_scal_l. apply sumn_ext. intros t _.
    unfold slot_at. cbn [scale_edge e_slots]. rewrite Cblock_scale. ring.
  - unfold spec_chi2. rewrite sumlist_map. rewrite <- sumlist_scal. apply sumlist_ext. intros e _. apply chi2_scale.
Qed.
(* same increment on every vertex: a solution of the original normal equations solves the scaled ones *)
Theorem C08_scale vs es c dx :
  solves (glen vs) (spec_H vs es) (spec_b vs es) dx ->
  solves (glen vs) (spec_H vs (map (scale_edge c) es)) (spec_b vs (map (scale_edge c) es)) dx /\
  spec_chi2 (map (scale_edge c) es) = c * spec_chi2 es.
Proof.
  intros Hs. destruct (spec_scale vs es c) as (Sb & SH & Sc). split; [|exact Sc].
  intros r Hr. rewrite Sb.
  destruct (is_fixed_index vs r) eqn:Fr.
  - (* fixed row: identity pattern, and dx r = 0 *)
    transitivity (sumnR (glen vs) (fun cc => spec_H vs es r cc * dx cc)).
    + apply sumn_ext. intros cc Hc. rewrite SH by auto. rewrite Fr. reflexivity.
    + rewrite (Hs r Hr). destruct (spec_fixed_rows vs es r r Hr Hr Fr) as (B & _). rewrite B. ring.
  - transitivity (c * sumnR (glen vs) (fun cc => spec_H vs es r cc * dx cc)); [|rewrite (Hs r Hr); ring].
    rewrite <- sumn_scal_l. apply sumn_ext. intros cc Hc. rewrite SH by auto. rewrite Fr. cbn [orb].
    destruct (is_fixed_index vs cc) eqn:Fc; [|ring].
    rewrite (C06_dx_zero vs es dx cc Hc Fc Hs). ring.
Qed.

(* ---- replacing an edge by two identical edges carrying half the information each ---- *)
Theorem C08_split_edge vs es1 e es2 :
  let es := es1 ++ e :: es2 in
  let es' := es1 ++ scale_edge (/2) e :: scale_edge (/2) e :: es2 in
  (forall r, spec_b vs es' r = spec_b vs es r) /\
  (forall r c, spec_H vs es' r c = spec_H vs es r c) /\
  spec_chi2 es' = spec_chi2 es.
Proof.
  cbv zeta. repeat split.
  - intros r. unfold spec_b. destruct (locate vs r) as [[k i]|]; auto. destruct (fixed_at vs k); auto.
    rewrite !sumlist_app. f_equal. rewrite !sumlist_cons, <- Rplus_assoc. f_equal.
    cbn [scale_edge e_slots]. rewrite <- sumn_plus. apply sumn_ext. intros s _.
    unfold slot_at. cbn [scale_edge e_slots]. rewrite gblock_scale. field.
  - intros r c. unfold spec_H. destruct (locate vs r) as [[k i]|]; auto. destruct (locate vs c) as [[l j]|]; auto.
    destruct (fixed_at vs k || fixed_at vs l); auto.
    rewrite !sumlist_app. f_equal. rewrite !sumlist_cons, <- Rplus_assoc. f_equal.
    cbn [scale_edge e_slots]. rewrite <- sumn_plus. apply sumn_ext. intros s _.
    rewrite <- sumn_plus. apply sumn_ext. intros t _.
    unfold slot_at. cbn [scale_edge e_slots]. rewrite Cblock_scale. field.
  - unfold spec_chi2. rewrite !sumlist_app. f_equal. rewrite !sumlist_cons, <- Rplus_assoc. f_equal. rewrite chi2_scale. field.
Qed.

(* ---- relabelling vertex ids by an injective map: same binding of edges to list positions ---- *)
Lemma last_index_of_map (f : Z -> Z) (Hinj : forall a b, f a = f b -> a = b) ids x k found :
  last_index_of (map f ids) (f x) k found = last_index_of ids x k found.
Proof.
  revert k found. induction ids as [|y ids IH]; intros k found; simpl; [reflexivity|].
  rewrite IH. f_equal.
  destruct (Z.eqb_spec y x) as [E|E]; destruct (Z.eqb_spec (f y) (f x)) as [E'|E']; auto.
  - subst. contradiction.
  - apply Hinj in E'. contradiction.
Qed.
Theorem C08_relabel (f : Z -> Z) : (forall a b, f a = f b -> a = b) ->
  forall ids vids, bind_slots (map f ids) (map f vids) = bind_slots ids vids.
Proof.
  intros Hinj ids vids. unfold bind_slots. induction vids as [|x vids IH]; simpl; [reflexivity|].
  rewrite last_index_of_map by auto. rewrite IH. reflexivity.
Qed.
Example relabel_ids_negative_and_huge :
  bind_slots [(-7)%Z; 4611686018427387904%Z; 3%Z] [3%Z; (-7)%Z] = Some [2%nat; 0%nat].
Proof. reflexivity. Qed.
