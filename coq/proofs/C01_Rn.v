(* C01 for the R^2 / R^3 edges (odometry and point-to-point landmark with offset): the error is affine,
   so each statement is checked by unfolding the regenerated programs. *)
From Coq Require Import Reals List Lra ZArith Lia.
From Coquelicot Require Import Coquelicot.
From GS Require Import ExprR LinAlg Jac Meth Prog Chain GenR2 GenR3 GenEdges C10_Rn.
Import ListNotations.
Open Scope R_scope.

Lemma affine_derive a b : is_derive (fun t : R => a + t * b) 0 b.
Proof.
  assert (H : is_derive (fun t : R => a + t * b) 0 (0 + (1 * b + 0 * 0))).
  { apply (is_derive_plus (K:=R_AbsRing) (V:=R_NormedModule) (fun _ => a) (fun t => t * b)).
    - apply (is_derive_const (K:=R_AbsRing) (V:=R_NormedModule)).
    - apply (Derive.is_derive_mult (fun t => t) (fun _ => b) 0 1 0).
      + apply (is_derive_id (K:=R_AbsRing)).
      + apply (is_derive_const (K:=R_AbsRing) (V:=R_NormedModule)). }
  replace (0 + (1 * b + 0 * 0)) with b in H by ring. exact H.
Qed.
Ltac affine :=
  match goal with
  | |- is_derive ?f 0 ?d =>
      apply (is_derive_ext (fun t : R => f 0 + t * d)); [intros t; cbv beta; match goal with |- ?a = ?b => change (@eq R a b) end; ring | apply affine_derive]
  end.
Ltac cbr := cbv - [Rplus Rmult Rminus Ropp Rdiv Rinv sqrt IZR pow is_derive].
Ltac tail_i i :=
  apply (is_derive_ext (fun _ : R => 0));
  [ intros t; destruct i; reflexivity
  | match goal with |- is_derive _ _ ?d => replace d with 0 by (destruct i; reflexivity) end;
    apply (is_derive_const (K:=R_AbsRing) (V:=R_NormedModule)) ].
Ltac all_i2 i := destruct i as [|[|i]]; [cbr; affine | cbr; affine | tail_i i].
Ltac all_i3 i := destruct i as [|[|[|i]]]; [cbr; affine | cbr; affine | cbr; affine | tail_i i].

Definition R2_boxplus_fun (l d : list R) : list R := evl (l ++ d) R2_boxplus.
Definition R3_boxplus_fun' (l d : list R) : list R := evl (l ++ d) R3_boxplus.

Definition err_odoR2 (p1 p2 z : list R) := run_progR [p1; p2; z; []] odo_R2_error.
Definition jac_odoR2 (p1 p2 z : list R) := run_jprogR [p1; p2; z; []] odo_R2_jacobians.
Definition err_odoR3 (p1 p2 z : list R) := run_progR [p1; p2; z; []] odo_R3_error.
Definition jac_odoR3 (p1 p2 z : list R) := run_jprogR [p1; p2; z; []] odo_R3_jacobians.
Definition err_lmkR2 (p l z off : list R) := run_progR [p; l; z; off] lmk_R2_R2_error.
Definition jac_lmkR2 (p l z off : list R) := run_jprogR [p; l; z; off] lmk_R2_R2_jacobians.
Definition err_lmkR3 (p l z off : list R) := run_progR [p; l; z; off] lmk_R3_R3_error.
Definition jac_lmkR3 (p l z off : list R) := run_jprogR [p; l; z; off] lmk_R3_R3_jacobians.

Theorem C01_odo_R2 p1 p2 z u : length p1 = 2%nat -> length p2 = 2%nat -> length z = 2%nat -> length u = 2%nat ->
  (forall i, is_derive (fun t => nth i (err_odoR2 (R2_boxplus_fun p1 (vscale t u)) p2 z) 0) 0 (nth i (matvec (nth 0 (jac_odoR2 p1 p2 z) []) u) 0)) /\
  (forall i, is_derive (fun t => nth i (err_odoR2 p1 (R2_boxplus_fun p2 (vscale t u)) z) 0) 0 (nth i (matvec (nth 1 (jac_odoR2 p1 p2 z) []) u) 0)).
Proof.
  intros H1 H2 H3 Hu. list_len p1 H1. list_len p2 H2. list_len z H3. list_len u Hu.
  split; intros i; all_i2 i.
Qed.
Theorem C01_odo_R3 p1 p2 z u : length p1 = 3%nat -> length p2 = 3%nat -> length z = 3%nat -> length u = 3%nat ->
  (forall i, is_derive (fun t => nth i (err_odoR3 (R3_boxplus_fun' p1 (vscale t u)) p2 z) 0) 0 (nth i (matvec (nth 0 (jac_odoR3 p1 p2 z) []) u) 0)) /\
  (forall i, is_derive (fun t => nth i (err_odoR3 p1 (R3_boxplus_fun' p2 (vscale t u)) z) 0) 0 (nth i (matvec (nth 1 (jac_odoR3 p1 p2 z) []) u) 0)).
Proof.
  intros H1 H2 H3 Hu. list_len p1 H1. list_len p2 H2. list_len z H3. list_len u Hu.
  split; intros i; all_i3 i.
Qed.
Theorem C01_lmk_R2 p l z off u : length p = 2%nat -> length l = 2%nat -> length z = 2%nat -> length off = 2%nat -> length u = 2%nat ->
  (forall i, is_derive (fun t => nth i (err_lmkR2 (R2_boxplus_fun p (vscale t u)) l z off) 0) 0 (nth i (matvec (nth 0 (jac_lmkR2 p l z off) []) u) 0)) /\
  (forall i, is_derive (fun t => nth i (err_lmkR2 p (R2_boxplus_fun l (vscale t u)) z off) 0) 0 (nth i (matvec (nth 1 (jac_lmkR2 p l z off) []) u) 0)).
Proof.
  intros H1 H2 H3 H4 Hu. list_len p H1. list_len l H2. list_len z H3. list_len off H4. list_len u Hu.
  split; intros i; all_i2 i.
Qed.
Theorem C01_lmk_R3 p l z off u : length p = 3%nat -> length l = 3%nat -> length z = 3%nat -> length off = 3%nat -> length u = 3%nat ->
  (forall i, is_derive (fun t => nth i (err_lmkR3 (R3_boxplus_fun' p (vscale t u)) l z off) 0) 0 (nth i (matvec (nth 0 (jac_lmkR3 p l z off) []) u) 0)) /\
  (forall i, is_derive (fun t => nth i (err_lmkR3 p (R3_boxplus_fun' l (vscale t u)) z off) 0) 0 (nth i (matvec (nth 1 (jac_lmkR3 p l z off) []) u) 0)).
Proof.
  intros H1 H2 H3 H4 Hu. list_len p H1. list_len l H2. list_len z H3. list_len off H4. list_len u Hu.
  split; intros i; all_i3 i.
Qed.
