(* C07: boxplus commutes with a left transform, and the edge Jacobians of the transformed graph equal
   those of the original graph (by uniqueness of the derivative, from C01). *)
From Coq Require Import Reals List Lra ZArith Lia.
From Coquelicot Require Import Coquelicot.
From GS Require Import ExprR LinAlg Meth MethR Prog Chain Wrap Spec GenR2 GenR3 GenSE2 GenSE3 GenEdges
  C10_SE3 C10_SE3_boxplus C10_SE2 C10_Rn C09_SE3 C09_SE2 C11_main C01_SE3 C01_Rn C01_SE2 C02_model C07_errors.
Import ListNotations.
Open Scope R_scope.
Ltac cb0 := cbv - [Rplus Rmult Rminus Ropp Rdiv Rinv sqrt IZR pow sin cos PI rmod].

Lemma length_from_compact3 d : length d = 6%nat -> length (from_compact3 d) = 7%nat.
Proof. intros H. unfold from_compact3. rewrite app_length, H. reflexivity. Qed.

Theorem C07_boxplus_SE3 T p d : length T = 7%nat -> length p = 7%nat -> length d = 6%nat -> unitq T -> unitq p ->
  SE3_boxplus_fun (comp3 T p) d = comp3 T (SE3_boxplus_fun p d).
Proof.
  intros HT Hp Hd UT Up. unfold comp3.
  destruct (Rle_dec ((nth 3 d 0)^2 + (nth 4 d 0)^2 + (nth 5 d 0)^2) 1) as [Hle|Hgt].
  - rewrite !SE3_boxplus_def by (auto; reflexivity).
    apply SE3_assoc; auto. apply length_from_compact3; auto.
  - rewrite !SE3_boxplus_def_large by (auto; try reflexivity; lra).
    apply SE3_assoc; auto. list_len d Hd. reflexivity.
Qed.
Theorem C07_boxplus_SE2 T p d : length T = 3%nat -> length p = 3%nat -> length d = 3%nat ->
  SE2_boxplus_fun (comp2 T p) d = comp2 T (SE2_boxplus_fun p d).
Proof. intros HT Hp Hd. unfold SE2_boxplus_fun, comp2. rewrite SE2_boxplus_is_oplus. apply SE2_assoc; auto. Qed.
(* landmark points: T . (l [+] d) = (T . l) [+] (R_T d), R_T d being the rotational part of T applied to d *)
Definition rot3 (T d : list R) : list R := vadd (act3 T d) (map Ropp (firstn 3 T)).
Definition rot2 (T d : list R) : list R := vadd (act2 T d) (map Ropp (firstn 2 T)).
Theorem C07_boxplus_point3 T l d : length T = 7%nat -> length l = 3%nat -> length d = 3%nat ->
  act3 T (R3_boxplus_fun l d) = R3_boxplus_fun (act3 T l) (rot3 T d).
Proof. intros HT Hl Hd. list_len T HT. list_len l Hl. list_len d Hd. cb0. repeat (f_equal; try ring). Qed.
Theorem C07_boxplus_point2 T l d : length T = 3%nat -> length l = 2%nat -> length d = 2%nat ->
  act2 T (R2_boxplus_fun l d) = R2_boxplus_fun (act2 T l) (rot2 T d).
Proof. intros HT Hl Hd. list_len T HT. list_len l Hl. list_len d Hd. cb0. repeat (f_equal; try ring). Qed.

(* ---- Jacobians of the transformed edge = Jacobians of the original edge (pose slots) ---- *)
Lemma unitq_boxplus p d : length p = 7%nat -> length d = 6%nat -> unitq p -> unitq (SE3_boxplus_fun p d).
Proof. intros Hp Hd Up. unfold unitq in *. fold (qn2 (SE3_boxplus_fun p d)). rewrite SE3_boxplus_unit; auto. Qed.

Theorem C07_jac_odo_SE3 T p1 p2 z u : length T = 7%nat -> length p1 = 7%nat -> length p2 = 7%nat -> length z = 7%nat ->
  length u = 6%nat -> unitq T -> unitq p1 -> unitq p2 ->
  forall i,
    nth i (matvec (nth 0 (jac_odo3 (comp3 T p1) (comp3 T p2) z) []) u) 0 = nth i (matvec (nth 0 (jac_odo3 p1 p2 z) []) u) 0 /\
    nth i (matvec (nth 1 (jac_odo3 (comp3 T p1) (comp3 T p2) z) []) u) 0 = nth i (matvec (nth 1 (jac_odo3 p1 p2 z) []) u) 0.
Proof.
  intros HT H1 H2 H3 Hu UT U1 U2 i.
  assert (L1 : length (comp3 T p1) = 7%nat) by reflexivity.
  assert (L2 : length (comp3 T p2) = 7%nat) by reflexivity.
  assert (Lv : forall t, length (vscale t u) = 6%nat) by (intros t; unfold vscale; rewrite map_length; auto).
  split.
  - pose proof (C01_odo_SE3_v0 (comp3 T p1) (comp3 T p2) z u L1 L2 H3 Hu i) as D'.
    pose proof (C01_odo_SE3_v0 p1 p2 z u H1 H2 H3 Hu i) as D.
    transitivity (Derive (fun t => nth i (err_odo3 (SE3_boxplus_fun p1 (vscale t u)) p2 z) 0) 0); [symmetry|]; apply is_derive_unique; [|exact D].
    eapply is_derive_ext; [|exact D']. intros t. cbn beta.
    rewrite C07_boxplus_SE3 by auto.
    rewrite C07_odo_SE3; auto; [apply SE3_boxplus_len; auto | apply unitq_boxplus; auto].
  - pose proof (C01_odo_SE3_v1 (comp3 T p1) (comp3 T p2) z u L1 L2 H3 Hu i) as D'.
    pose proof (C01_odo_SE3_v1 p1 p2 z u H1 H2 H3 Hu i) as D.
    transitivity (Derive (fun t => nth i (err_odo3 p1 (SE3_boxplus_fun p2 (vscale t u)) z) 0) 0); [symmetry|]; apply is_derive_unique; [|exact D].
    eapply is_derive_ext; [|exact D']. intros t. cbn beta.
    rewrite C07_boxplus_SE3 by auto.
    rewrite C07_odo_SE3; auto. apply SE3_boxplus_len; auto.
Qed.
Theorem C07_jac_lmk_SE3_pose T p l z off u : length T = 7%nat -> length p = 7%nat -> length l = 3%nat -> length z = 3%nat ->
  length off = 7%nat -> length u = 6%nat -> unitq T -> unitq p -> unitq off ->
  forall i, nth i (matvec (nth 0 (jac_lmk3 (comp3 T p) (act3 T l) z off) []) u) 0 = nth i (matvec (nth 0 (jac_lmk3 p l z off) []) u) 0.
Proof.
  intros HT Hp Hl Hz Ho Hu UT Up Uo i.
  assert (L1 : length (comp3 T p) = 7%nat) by reflexivity.
  assert (L2 : length (act3 T l) = 3%nat) by reflexivity.
  assert (Lv : forall t, length (vscale t u) = 6%nat) by (intros t; unfold vscale; rewrite map_length; auto).
  pose proof (C01_lmk_SE3_v0 (comp3 T p) (act3 T l) z off u L1 L2 Hz Ho Hu i) as D'.
  pose proof (C01_lmk_SE3_v0 p l z off u Hp Hl Hz Ho Hu i) as D.
  transitivity (Derive (fun t => nth i (err_lmk3 (SE3_boxplus_fun p (vscale t u)) l z off) 0) 0); [symmetry|]; apply is_derive_unique; [|exact D].
  eapply is_derive_ext; [|exact D']. intros t. cbn beta.
  rewrite C07_boxplus_SE3 by auto.
  rewrite C07_lmk_SE3; auto; [apply SE3_boxplus_len; auto | apply unitq_boxplus; auto].
Qed.
