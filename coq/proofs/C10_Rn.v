(* C10 for PoseR2 / PoseR3 (definitions regenerated from graphslam/pose/r2.py, r3.py). *)
From Coq Require Import Reals List Lra ZArith Lia.
From Coquelicot Require Import Coquelicot.
From GS Require Import ExprR LinAlg Jac Meth GenR2 GenR3.
Import ListNotations.
Open Scope R_scope.

Definition R2_oplus := vec_of R2_add__R2.
Definition R2_ominus := vec_of R2_sub__R2.
Definition R2_boxplus := vec_of R2_add__arr2.
Definition R2_inv := vec_of R2_inverse.
Definition R3_oplus := vec_of R3_add__R3.
Definition R3_ominus := vec_of R3_sub__R3.
Definition R3_boxplus := vec_of R3_add__arr3.
Definition R3_inv := vec_of R3_inverse.

Lemma R2_all :
  is_jacobian R2_oplus (mat_of R2_jacobian_self_oplus_other_wrt_self__R2) 4 0 2 /\
  is_jacobian R2_oplus (mat_of R2_jacobian_self_oplus_other_wrt_other__R2) 4 2 2 /\
  is_jacobian R2_ominus (mat_of R2_jacobian_self_ominus_other_wrt_self__R2) 4 0 2 /\
  is_jacobian R2_ominus (mat_of R2_jacobian_self_ominus_other_wrt_other__R2) 4 2 2 /\
  is_jacobian R2_oplus (mat_of R2_jacobian_self_oplus_point_wrt_self__R2) 4 0 2 /\
  is_jacobian R2_oplus (mat_of R2_jacobian_self_oplus_point_wrt_point__R2) 4 2 2 /\
  is_jacobian R2_boxplus (mat_of R2_jacobian_boxplus) 4 2 2 /\
  is_jacobian R2_inv (mat_of R2_jacobian_inverse) 2 0 2.
Proof. repeat split; jac_poly. Qed.
Lemma R3_all :
  is_jacobian R3_oplus (mat_of R3_jacobian_self_oplus_other_wrt_self__R3) 6 0 3 /\
  is_jacobian R3_oplus (mat_of R3_jacobian_self_oplus_other_wrt_other__R3) 6 3 3 /\
  is_jacobian R3_ominus (mat_of R3_jacobian_self_ominus_other_wrt_self__R3) 6 0 3 /\
  is_jacobian R3_ominus (mat_of R3_jacobian_self_ominus_other_wrt_other__R3) 6 3 3 /\
  is_jacobian R3_oplus (mat_of R3_jacobian_self_oplus_point_wrt_self__R3) 6 0 3 /\
  is_jacobian R3_oplus (mat_of R3_jacobian_self_oplus_point_wrt_point__R3) 6 3 3 /\
  is_jacobian R3_boxplus (mat_of R3_jacobian_boxplus) 6 3 3 /\
  is_jacobian R3_inv (mat_of R3_jacobian_inverse) 3 0 3.
Proof. repeat split; jac_poly. Qed.
Lemma Rn_compact_rows :
  mat_of R2_jacobian_self_oplus_other_wrt_self_compact__R2 = firstn 2 (mat_of R2_jacobian_self_oplus_other_wrt_self__R2) /\
  mat_of R2_jacobian_self_oplus_other_wrt_other_compact__R2 = firstn 2 (mat_of R2_jacobian_self_oplus_other_wrt_other__R2) /\
  mat_of R2_jacobian_self_ominus_other_wrt_self_compact__R2 = firstn 2 (mat_of R2_jacobian_self_ominus_other_wrt_self__R2) /\
  mat_of R2_jacobian_self_ominus_other_wrt_other_compact__R2 = firstn 2 (mat_of R2_jacobian_self_ominus_other_wrt_other__R2) /\
  mat_of R3_jacobian_self_oplus_other_wrt_self_compact__R3 = firstn 3 (mat_of R3_jacobian_self_oplus_other_wrt_self__R3) /\
  mat_of R3_jacobian_self_oplus_other_wrt_other_compact__R3 = firstn 3 (mat_of R3_jacobian_self_oplus_other_wrt_other__R3) /\
  mat_of R3_jacobian_self_ominus_other_wrt_self_compact__R3 = firstn 3 (mat_of R3_jacobian_self_ominus_other_wrt_self__R3) /\
  mat_of R3_jacobian_self_ominus_other_wrt_other_compact__R3 = firstn 3 (mat_of R3_jacobian_self_ominus_other_wrt_other__R3).
Proof. repeat split; reflexivity. Qed.
Lemma Rn_shapes :
  shape 2 2 (mat_of R2_jacobian_self_oplus_other_wrt_self__R2) /\ shape 2 2 (mat_of R2_jacobian_self_ominus_other_wrt_other__R2) /\
  shape 2 2 (mat_of R2_jacobian_boxplus) /\ shape 2 2 (mat_of R2_jacobian_inverse) /\
  shape 3 3 (mat_of R3_jacobian_self_oplus_other_wrt_self__R3) /\ shape 3 3 (mat_of R3_jacobian_self_ominus_other_wrt_other__R3) /\
  shape 3 3 (mat_of R3_jacobian_boxplus) /\ shape 3 3 (mat_of R3_jacobian_inverse).
Proof. unfold shape. repeat split; try reflexivity; repeat constructor. Qed.

(* tangent identities (used by the chain-rule proofs of C01) *)
Lemma R2_oplus_wrt_self_tan : tangent_ok R2_oplus (mat_of R2_jacobian_self_oplus_other_wrt_self__R2) 4 0 2. Proof. tan_ring. Qed.
Lemma R2_oplus_wrt_other_tan : tangent_ok R2_oplus (mat_of R2_jacobian_self_oplus_other_wrt_other__R2) 4 2 2. Proof. tan_ring. Qed.
Lemma R2_ominus_wrt_self_tan : tangent_ok R2_ominus (mat_of R2_jacobian_self_ominus_other_wrt_self__R2) 4 0 2. Proof. tan_ring. Qed.
Lemma R2_ominus_wrt_other_tan : tangent_ok R2_ominus (mat_of R2_jacobian_self_ominus_other_wrt_other__R2) 4 2 2. Proof. tan_ring. Qed.
Lemma R2_point_wrt_self_tan : tangent_ok R2_oplus (mat_of R2_jacobian_self_oplus_point_wrt_self__R2) 4 0 2. Proof. tan_ring. Qed.
Lemma R2_point_wrt_point_tan : tangent_ok R2_oplus (mat_of R2_jacobian_self_oplus_point_wrt_point__R2) 4 2 2. Proof. tan_ring. Qed.
Lemma R2_boxplus_tan : tangent_ok R2_boxplus (mat_of R2_jacobian_boxplus) 4 2 2. Proof. tan_ring. Qed.
Lemma R2_inverse_tan : tangent_ok R2_inv (mat_of R2_jacobian_inverse) 2 0 2. Proof. tan_ring. Qed.
Lemma R3_oplus_wrt_self_tan : tangent_ok R3_oplus (mat_of R3_jacobian_self_oplus_other_wrt_self__R3) 6 0 3. Proof. tan_ring. Qed.
Lemma R3_oplus_wrt_other_tan : tangent_ok R3_oplus (mat_of R3_jacobian_self_oplus_other_wrt_other__R3) 6 3 3. Proof. tan_ring. Qed.
Lemma R3_ominus_wrt_self_tan : tangent_ok R3_ominus (mat_of R3_jacobian_self_ominus_other_wrt_self__R3) 6 0 3. Proof. tan_ring. Qed.
Lemma R3_ominus_wrt_other_tan : tangent_ok R3_ominus (mat_of R3_jacobian_self_ominus_other_wrt_other__R3) 6 3 3. Proof. tan_ring. Qed.
Lemma R3_point_wrt_self_tan : tangent_ok R3_oplus (mat_of R3_jacobian_self_oplus_point_wrt_self__R3) 6 0 3. Proof. tan_ring. Qed.
Lemma R3_point_wrt_point_tan : tangent_ok R3_oplus (mat_of R3_jacobian_self_oplus_point_wrt_point__R3) 6 3 3. Proof. tan_ring. Qed.
Lemma R3_boxplus_tan : tangent_ok R3_boxplus (mat_of R3_jacobian_boxplus) 6 3 3. Proof. tan_ring. Qed.
Lemma R3_inverse_tan : tangent_ok R3_inv (mat_of R3_jacobian_inverse) 3 0 3. Proof. tan_ring. Qed.
