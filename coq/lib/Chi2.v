(* Chi2.v — the chi^2 of an edge as the code computes it (the np.dot / np.transpose form of
   BaseEdge.calc_chi2 is regenerated into [cform] by tools/tr_edges.py) and of a graph (sum over the
   edge list), with the algebra used by C02/C08: quadratic form, non-negativity, linearity in the
   information matrix, zero iff all errors vanish. *)
From Coq Require Import Reals List Lra Lia Permutation.
From GS Require Import ExprR LinAlg.
Import ListNotations.
Open Scope R_scope.

Inductive cform := CErr | CInfo | CTr (a : cform) | CDot (a b : cform).
Inductive cval := CV (v : list R) | CM (m : list (list R)) | CS (x : R).
(* numpy semantics of np.dot / np.transpose on 1-D and 2-D operands *)
Definition np_dot (a b : cval) : cval :=
  match a, b with
  | CV u, CV v => CS (dotR u v)
  | CV u, CM m => CV (vecmat u m)
  | CM m, CV v => CV (matvec m v)
  | CM m, CM n => CM (mmul m n)
  | CS x, CS y => CS (x * y)
  | CS x, CV v => CV (vscale x v)
  | CV v, CS x => CV (vscale x v)
  | _, _ => CS 0
  end.
Definition np_transpose (a : cval) : cval := match a with CM m => CM (transpose m) | _ => a end.
Fixpoint eval_cform (e : list R) (om : list (list R)) (f : cform) : cval :=
  match f with
  | CErr => CV e
  | CInfo => CM om
  | CTr a => np_transpose (eval_cform e om a)
  | CDot a b => np_dot (eval_cform e om a) (eval_cform e om b)
  end.
Definition as_scalar (v : cval) : R := match v with CS x => x | _ => 0 end.

(* the quadratic form  e^T Omega e *)
Definition quad (e : list R) (om : list (list R)) : R := dotR e (matvec om e).
Definition square_mat (n : nat) (om : list (list R)) : Prop := length om = n /\ well_shaped n om.
Definition psd (n : nat) (om : list (list R)) : Prop := forall v, length v = n -> 0 <= quad v om.
Definition pd (n : nat) (om : list (list R)) : Prop := forall v, length v = n -> v <> zeros n -> 0 < quad v om.

Lemma vecmat_dot e om : om <> [] -> well_shaped (length (hd [] om)) om -> dotR (vecmat e om) e = quad e om.
Proof. intros Hne Hw. unfold vecmat, quad. apply dotR_vecmat_gen; auto. Qed.

(* graph chi^2: Python's sum() over the edge list *)
Definition graph_chi2 (cs : list R) : R := fold_left Rplus cs 0.
Lemma fold_left_Rplus_acc l a : fold_left Rplus l a = a + fold_left Rplus l 0.
Proof.
  revert a. induction l as [|x l IH]; intros a; simpl; [ring|].
  rewrite (IH (a + x)), (IH (0 + x)). ring.
Qed.
Lemma graph_chi2_cons x l : graph_chi2 (x :: l) = x + graph_chi2 l.
Proof. unfold graph_chi2. simpl. rewrite fold_left_Rplus_acc. ring. Qed.
Lemma graph_chi2_nonneg cs : List.Forall (fun c => 0 <= c) cs -> 0 <= graph_chi2 cs.
Proof.
  induction 1 as [|c cs Hc _ IH]; [unfold graph_chi2; simpl; lra|]. rewrite graph_chi2_cons. lra.
Qed.
Lemma graph_chi2_zero_iff cs : List.Forall (fun c => 0 <= c) cs -> (graph_chi2 cs = 0 <-> List.Forall (fun c => c = 0) cs).
Proof.
  induction 1 as [|c cs Hc Hrest IH]; [split; [constructor | reflexivity]|].
  rewrite graph_chi2_cons. pose proof (graph_chi2_nonneg cs Hrest) as Hn. split.
  - intros H. constructor; [lra|]. apply IH. lra.
  - intros H. inversion H as [|? ? H1 H2]; subst. apply IH in H2. lra.
Qed.
Lemma graph_chi2_perm cs cs' : Permutation cs cs' -> graph_chi2 cs = graph_chi2 cs'.
Proof.
  induction 1 as [| x l l' _ IH | x y l | l l' l'' _ IH1 _ IH2].
  - reflexivity.
  - rewrite !graph_chi2_cons, IH. reflexivity.
  - rewrite !graph_chi2_cons. ring.
  - congruence.
Qed.
Lemma graph_chi2_app a b : graph_chi2 (a ++ b) = graph_chi2 a + graph_chi2 b.
Proof. induction a as [|x a IH]; simpl; [unfold graph_chi2 at 2; simpl; ring|]. rewrite !graph_chi2_cons, IH. ring. Qed.

(* linearity of the quadratic form in the information matrix *)
Definition madd (a b : list (list R)) : list (list R) := map (fun p => vadd (fst p) (snd p)) (combine a b).
Definition mscale (c : R) (a : list (list R)) : list (list R) := map (vscale c) a.
Lemma dotR_vscale_r c x u : dotR u (vscale c x) = c * dotR u x.
Proof.
  revert x. induction u as [|a u IH]; intros x; [unfold dotR; simpl; ring|].
  destruct x as [|b x]; [rewrite !dotR_nil_r; ring|].
  change (vscale c (b :: x)) with ((c * b) :: vscale c x). rewrite !dotR_cons, IH. ring.
Qed.
Lemma dotR_vadd_r x y u : length x = length y -> dotR u (vadd x y) = dotR u x + dotR u y.
Proof.
  revert x y. induction u as [|a u IH]; intros x y H; [unfold dotR; simpl; ring|].
  destruct x as [|b x]; destruct y as [|c y]; simpl in H; try discriminate.
  - unfold vadd; simpl. rewrite !dotR_nil_r. ring.
  - change (vadd (b :: x) (c :: y)) with ((b + c) :: vadd x y). rewrite !dotR_cons, IH by lia. ring.
Qed.
Lemma matvec_mscale c m v : matvec (mscale c m) v = vscale c (matvec m v).
Proof. unfold matvec, mscale, vscale. rewrite !map_map. apply map_ext. intros r. apply dotR_vscale. Qed.
Lemma matvec_madd a b v : length a = length b -> List.Forall2 (fun r s => length r = length s) a b ->
  matvec (madd a b) v = vadd (matvec a v) (matvec b v).
Proof.
  intros _ H. induction H as [|r s a b Hrs _ IH]; [reflexivity|].
  unfold madd, matvec in *. simpl. change (vadd (dotR r v :: map (fun r0 => dotR r0 v) a) (dotR s v :: map (fun r0 => dotR r0 v) b))
    with ((dotR r v + dotR s v) :: vadd (map (fun r0 => dotR r0 v) a) (map (fun r0 => dotR r0 v) b)).
  f_equal; [apply dotR_vadd; auto | exact IH].
Qed.
Lemma quad_mscale c e om : quad e (mscale c om) = c * quad e om.
Proof. unfold quad. rewrite matvec_mscale, dotR_vscale_r. reflexivity. Qed.
Lemma quad_madd e a b : length a = length b -> List.Forall2 (fun r s => length r = length s) a b ->
  quad e (madd a b) = quad e a + quad e b.
Proof.
  intros Hl H. unfold quad. rewrite matvec_madd by auto. apply dotR_vadd_r. unfold matvec. rewrite !map_length. exact Hl.
Qed.
Lemma quad_zero n om : quad (zeros n) om = 0.
Proof. unfold quad. apply dotR_zeros. Qed.
