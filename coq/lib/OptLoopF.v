(* OptLoopF.v -- IEEE binary64 instance of the optimize-loop model (lib/OptLoop.v), used ONLY by the
   correspondence check tools/corr_optloop.py (never under a property theorem).  The state is an
   index into a table of chi^2 values (the doubles the implementation computes at the successive
   states of a scripted graph), chi2_of is the table lookup, one update moves to the next index. *)
From Coq Require Import ZArith List Floats.PrimFloat Floats.FloatOps Floats.SpecFloat Uint63.
From GS Require Import ExprF OptLoop.
Import ListNotations.
Open Scope float_scope.

Definition F_scalar : scalar float :=
  {| sub := PrimFloat.sub; div := PrimFloat.div; add := PrimFloat.add; neg := PrimFloat.opp;
     leb := PrimFloat.leb; ltb := PrimFloat.ltb; eps := 0x1p-52; m1 := (-1) |}.

Definition table_optimize (tab : list float) (tol : float) (max_iter : nat) (verbose : bool) :=
  optimize float F_scalar nat (fun k => nth k tab nan) S (fun k => k) tol max_iter verbose O.

Definition dumpO (x : option float) : list Z :=
  match x with None => [0%Z] | Some v => 1%Z :: dumpF v end.
Definition dumpB (b : bool) : Z := if b then 1%Z else 0%Z.
Definition dump_iter (e : iter_result float) : list Z :=
  dumpB (it_complete e) :: dumpO (it_chi2 e) ++ dumpO (it_rel_diff e).
Definition dump_line (l : nat * float * option float) : list Z :=
  Z.of_nat (fst (fst l)) :: dumpF (snd (fst l)) ++ dumpO (snd l).
(* MAGIC state raised converged num_iterations(-1 = None) initial final #iters iters... #lines lines... *)
Definition dump_out (x : nat * report float * list (nat * float * option float)) : list Z :=
  let r := out_report x in
  [MAGIC; Z.of_nat (out_state x); dumpB (raised r); dumpB (converged r);
   match num_iterations r with None => (-1)%Z | Some n => Z.of_nat n end]
  ++ dumpO (initial_chi2 r) ++ dumpO (final_chi2 r)
  ++ Z.of_nat (length (iters r)) :: flat_map dump_iter (iters r)
  ++ Z.of_nat (length (out_lines x)) :: flat_map dump_line (out_lines x).

(* all (max_iter, verbose) combinations for one table and one tol: max_iter = 0..n_max, verbose = true then false *)
Definition dump_grid (tab : list float) (tol : float) (n_max : nat) : list Z :=
  flat_map (fun n => dump_out (table_optimize tab tol n true) ++ dump_out (table_optimize tab tol n false))
           (seq 0 (S n_max)).

(* Printing a long [list Z] costs ~0.4 ms per element in coqc; primitive integers print 20x faster.
   Every dumped integer z satisfies |z| < 2^60, so it is printed as the primitive integer z + 2^60. *)
Definition to_u (z : Z) : int := Uint63.of_Z (z + 1152921504606846976)%Z.
Definition dump_grid_u (tab : list float) (tol : float) (n_max : nat) : list int :=
  map to_u (dump_grid tab tol n_max).
