(* G2OSpec.v -- specification vocabulary for C13/C14 (definitions only, no proofs):
   well-formed tokens, symmetric matrices, graphs accepted by Graph.__init__ (wf), graphs the .g2o
   format can express, one-item-per-line traces. *)
From Coq Require Import List ZArith String Ascii Bool Arith.
From GS Require Import G2OModel.
Import ListNotations.
Open Scope string_scope.
Open Scope list_scope.
Open Scope nat_scope.

(* ---- text ---- *)
Fixpoint nows (s : string) : bool := match s with "" => true | String c r => negb (is_ws c) && nows r end.
Definition good_tok (s : string) : Prop := s <> "" /\ nows s = true.      (* non-empty, no whitespace *)
Definition space : ascii := " "%char.
Fixpoint nospace (s : string) : bool := match s with "" => true | String c r => negb (Ascii.eqb c space) && nospace r end.
(* tokens glued by separators: every separator is non-empty whitespace, the last one may be empty *)
Fixpoint glue (items : list (string * string)) : string :=
  match items with [] => "" | (t, sp) :: r => (t ++ sp ++ glue r)%string end.
Fixpoint seps_ok (items : list (string * string)) : Prop :=
  match items with
  | [] => True
  | (t, sp) :: r => good_tok t /\ blank sp = true /\ (match r with [] => True | _ => sp <> "" end) /\ seps_ok r
  end.

(* ---- matrices ---- *)
Section Sym.
  Context {A : Type}.
  (* M is n x n and equal to its transpose, stated by the recursion pack/unpack use:
     M = (r :: rest), first column of rest = tail of r, and the minor is symmetric *)
  Fixpoint symm (n : nat) (M : list (list A)) : Prop :=
    match n with
    | 0 => M = []
    | S m => match M with
             | [] => False
             | r :: rest => List.length r = S m /\ rest = zipcons (tl r) (map (@tl A) rest) /\ symm m (map (@tl A) rest)
             end
    end.
  (* the elementwise reading, with a default d for nth *)
  Definition square_n (n : nat) (M : list (list A)) : Prop :=
    List.length M = n /\ Forall (fun r => List.length r = n) M.
  Definition symmetric_at (d : A) (n : nat) (M : list (list A)) : Prop :=
    square_n n M /\ forall i j, i < n -> j < n -> nth j (nth i M []) d = nth i (nth j M []) d.
  (* entry (i,j) of the full matrix read from the packed upper triangle l *)
  Definition full_entry (d : A) (n : nat) (l : list A) (i j : nat) : A :=
    if i <=? j then nth (tri_idx n i j) l d else nth (tri_idx n j i) l d.
End Sym.

Section Spec.
  Variable num : Type.
  Variable eq0 : num -> bool.
  Variable eqn : num -> num -> bool.

  Definition wf_vertex (v : vertex num) : Prop := List.length (v_val v) = dimk (v_kind v).
  Definition wf_param (p : pkey * list num) : Prop :=
    List.length (snd p) = match fst (fst p) with PSE2 => 3 | PSE3 => 7 end.
  Definition wf_edge (e : edge num) : Prop :=
    match e with
    | EOdo k _ _ est info => List.length est = dimk k /\ symm (cdim k) info
    | ELmk ko ke _ _ est info off _ => List.length est = dimk ke /\ List.length off = dimk ko /\ symm (cdim ke) info
    | ECus ct ids est info => List.length ids = ct_nids ct /\ List.length est = ct_nest ct /\ symm (ct_dim ct) info
    end.
  (* a graph as Graph.__init__ accepts it (edges bound to existing vertices, is_valid), with arrays of the
     lengths the pose classes give them, a parameter dictionary (distinct keys) and SYMMETRIC information *)
  Definition wf (g : graph num) : Prop :=
    NoDup (map fst (g_params g)) /\ Forall wf_param (g_params g) /\ Forall wf_vertex (g_verts g) /\
    Forall wf_edge (g_edges g) /\ check_graph num (g_verts g) (g_edges g) = Ok tt.

  (* what the format can express, edge by edge *)
  Definition edge_expressible (e : edge num) : Prop :=
    match e with
    | EOdo k _ _ _ _ => k = KSE2 \/ k = KSE3                       (* no R^2 / R^3 odometry edges *)
    | ELmk ko _ _ _ _ _ off oid =>
        (ko = KSE2 /\ is_ident_se2 num eq0 off = true)             (* EDGE_SE2_XY has no offset field *)
        \/ ko = KSE3                      (* EDGE_SE3_TRACKXYZ; its offset_id and offset are constrained by offsets_ok *)
    | ECus _ _ _ _ => True                                         (* written by its own to_g2o, or skipped *)
    end.
  (* every SE(3) landmark edge has an offset_id, and edges (and the dictionary) sharing an id agree on the offset *)
  Fixpoint offsets_ok (ps : params num) (es : list (edge num)) : Prop :=
    match es with
    | [] => True
    | ELmk KSE3 _ _ _ _ _ off oid :: r =>
        match oid with
        | None => False
        | Some o => match plookup num ps (PSE3, o) with
                    | None => offsets_ok (ps ++ [((PSE3, o), off)]) r
                    | Some v => list_eqn num eqn v off = true /\ offsets_ok ps r
                    end
        end
    | _ :: r => offsets_ok ps r
    end.
  Definition expressible (g : graph num) : Prop :=
    Forall edge_expressible (g_edges g) /\ offsets_ok (g_params g) (g_edges g).

  Definition is_custom (e : edge num) : bool := match e with ECus _ _ _ _ => true | _ => false end.
  Definition no_written_custom (g : graph num) : Prop :=
    Forall (fun e => match e with ECus ct _ _ _ => ct_writes ct = false | _ => True end) (g_edges g).
  Definition no_custom (g : graph num) : Prop := Forall (fun e => is_custom e = false) (g_edges g).
End Spec.

(* registered custom types whose from_g2o exists: tag without a space, different from the ten built-in tags *)
Definition cts_ok (cts : list ctype) : Prop :=
  Forall (fun ct => ct_reads ct = true -> nospace (ct_tag ct) = true /\ ~ In (ct_tag ct) builtin_tags) cts.

Section Trace.
  Variable num : Type.
  Variable parse : string -> option num.
  Variable parse_id : string -> option Z.
  Variable wrap : num -> num.
  Variable normq : list num -> list num.
  Variable zero : num.
  Let parse_line := parse_line num parse parse_id wrap normq zero.
  (* line k yields exactly one item, computed with the parameter dictionary as of line k *)
  Inductive trace (cts : list ctype) : params num -> list string -> list (item num) -> params num -> Prop :=
  | trace_nil : forall ps, trace cts ps [] [] ps
  | trace_cons : forall ps l r it its ps',
      parse_line cts ps l = Ok it -> trace cts (step_params num ps it) r its ps' -> trace cts ps (l :: r) (it :: its) ps'.
  Definition verts_of (it : item num) : list (vertex num) := match it with IVert v => [v] | _ => [] end.
  Definition edges_of (it : item num) : list (edge num) := match it with IEdge e => [e] | _ => [] end.
  Definition warns_of (p : string * item num) : list string := match snd p with IWarn => [fst p] | _ => [] end.
  (* a line no parser claims, whatever the dictionary: not blank, recognised by nobody *)
  Definition unrecognised (cts : list ctype) (l : string) : Prop := forall ps, parse_line cts ps l = Ok IWarn.
  (* the parser each built-in tag selects *)
  Definition builtin_parser (ps : params num) (t : string) : option (list string -> result (item num)) :=
    if String.eqb t (vtag KR2) then Some (parse_vertex num parse parse_id wrap KR2)
    else if String.eqb t (vtag KR3) then Some (parse_vertex num parse parse_id wrap KR3)
    else if String.eqb t (vtag KSE2) then Some (parse_vertex num parse parse_id wrap KSE2)
    else if String.eqb t (vtag KSE3) then Some (parse_vertex num parse parse_id wrap KSE3)
    else if String.eqb t tag_odo_se2 then Some (parse_odo_se2 num parse parse_id wrap)
    else if String.eqb t tag_odo_se3 then Some (parse_odo_se3 num parse parse_id normq)
    else if String.eqb t tag_lmk_se2 then Some (parse_lmk_se2 num parse parse_id zero)
    else if String.eqb t tag_lmk_se3 then Some (parse_lmk_se3 num parse parse_id ps)
    else if String.eqb t (ptag PSE2) then Some (parse_param num parse parse_id wrap PSE2)
    else if String.eqb t (ptag PSE3) then Some (parse_param num parse parse_id wrap PSE3)
    else None.
End Trace.

(* one export/import cycle on the model, and n of them *)
Section CycleDef.
  Variable num : Type.
  Variable print : num -> string.
  Variable parse : string -> option num.
  Variable print_id : Z -> string.
  Variable parse_id : string -> option Z.
  Variable wrap : num -> num.
  Variable normq : list num -> list num.
  Variable zero : num.
  Variable eq0 : num -> bool.
  Variable eqn : num -> num -> bool.
  Definition cycle (cts : list ctype) (g : graph num) : option (graph num) :=
    match export num print print_id eq0 eqn g with
    | Error _ => None
    | Ok ls => match import num parse parse_id wrap normq zero cts (map render ls) with
               | Ok (g', _) => Some g'
               | Error _ => None
               end
    end.
  Fixpoint iter_cycle (cts : list ctype) (n : nat) (g : graph num) : option (graph num) :=
    match n with
    | 0 => Some g
    | S m => match cycle cts g with Some g' => iter_cycle cts m g' | None => None end
    end.
  (* x == x on the entries of every SE(3) offset parameter the writer emits (i.e. none of them is NaN) *)
  Definition offs_refl (g : graph num) : Prop :=
    forall o v, plookup num (export_params num eqn g) (PSE3, o) = Some v -> list_eqn num eqn v v = true.
End CycleDef.
