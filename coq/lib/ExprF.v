(* ExprF.v — IEEE binary64 interpretation of the generated expressions, used ONLY by the
   correspondence checks (never under a property theorem).  + - * / sqrt are Coq's primitive
   floats (correctly rounded, as numpy's); Python's float [%] is computed exactly through Z;
   sin/cos of an argument are looked up in a table the harness fills with the values numpy
   returned for that very argument (Coq has no libm).  x**2 is evaluated as x*x. *)
From Coq Require Import ZArith List Floats.PrimFloat Floats.FloatOps Floats.SpecFloat Uint63 String.
From GS Require Import Expr Meth.
Import ListNotations.
Open Scope float_scope.

Definition pi_f : float := 0x1.921fb54442d18p+1.

Definition ofZ (z : Z) : float :=
  match z with
  | Z0 => 0
  | Zpos _ => of_uint63 (Uint63.of_Z z)
  | Zneg p => - of_uint63 (Uint63.of_Z (Zpos p))
  end.

(* exact C fmod for a positive finite divisor *)
Definition fmod_pos (x y : float) : float :=
  match Prim2SF x, Prim2SF y with
  | S754_finite sx mx ex, S754_finite false my ey =>
      let e := Z.min ex ey in
      let X := (Z.pos mx * 2 ^ (ex - e))%Z in
      let Y := (Z.pos my * 2 ^ (ey - e))%Z in
      let r := Z.rem X Y in
      match r with
      | Z0 => if sx then (-0) else 0
      | Zpos p => SF2Prim (S754_finite sx p e)
      | Zneg p => SF2Prim (S754_finite sx p e)
      end
  | S754_zero _, S754_finite false _ _ => x
  | _, _ => nan
  end.
(* Python / numpy float modulo, positive divisor *)
Definition pymod (x y : float) : float :=
  let m := fmod_pos x y in
  if PrimFloat.eqb m 0 then 0 else if PrimFloat.ltb m 0 then m + y else m.

Definition trig_table := list (float * (float * float)).   (* x, sin x, cos x *)
Fixpoint lookup (t : trig_table) (x : float) : option (float * float) :=
  match t with
  | [] => None
  | (k, v) :: r => if PrimFloat.eqb k x then Some v else lookup r x
  end.

Fixpoint evalF (t : trig_table) (env : list float) (e : expr) : float :=
  match e with
  | Var i => nth i env nan
  | Cst z => ofZ z
  | CstQ n d => ofZ n / ofZ d
  | Pi => pi_f
  | Add a b => evalF t env a + evalF t env b
  | Sub a b => evalF t env a - evalF t env b
  | Mul a b => evalF t env a * evalF t env b
  | Div a b => evalF t env a / evalF t env b
  | Neg a => - evalF t env a
  | Sq a => let x := evalF t env a in x * x
  | Sin a => match lookup t (evalF t env a) with Some (s, _) => s | None => nan end
  | Cos a => match lookup t (evalF t env a) with Some (_, c) => c | None => nan end
  | Sqrt a => PrimFloat.sqrt (evalF t env a)
  | Mod a b => pymod (evalF t env a) (evalF t env b)
  end.

Definition cmpF (op : cmpop) (x y : float) : bool :=
  match op with
  | CGt => PrimFloat.ltb y x | CGe => PrimFloat.leb y x
  | CLt => PrimFloat.ltb x y | CLe => PrimFloat.leb x y
  | CEq => PrimFloat.eqb x y | CNe => negb (PrimFloat.eqb x y)
  end.
Definition guardF t env (g : guard) : bool :=
  Bool.eqb (cmpF (g_op g) (evalF t env (g_l g)) (evalF t env (g_r g))) (g_taken g).

(* ---- dumping results as integers, so that the harness never parses a printed float ---- *)
Definition MAGIC : Z := 777000777%Z.
Definition dumpF (x : float) : list Z :=
  match Prim2SF x with
  | S754_zero s => [0; if s then -1 else 0]%Z
  | S754_infinity s => [if s then -1 else 1; 99999]%Z
  | S754_nan => [0; 99999]%Z
  | S754_finite s m e => [if s then Z.neg m else Z.pos m; e]%Z
  end.

(* absolute-value majorant of the same expression: every operation replaced by its bound on
   absolute values; used by the harness as a cancellation-safe scale for its tolerance. *)
Fixpoint evalM (t : trig_table) (env : list float) (e : expr) : float :=
  match e with
  | Var i => abs (nth i env nan)
  | Cst z => abs (ofZ z)
  | CstQ n d => abs (ofZ n / ofZ d)
  | Pi => pi_f
  | Add a b | Sub a b => evalM t env a + evalM t env b
  | Mul a b => evalM t env a * evalM t env b
  | Div a b => evalM t env a / abs (evalF t env b)
  | Neg a => evalM t env a
  | Sq a => let x := evalM t env a in x * x
  | Sin a | Cos a => 1
  | Sqrt a => PrimFloat.sqrt (evalM t env a)
  | Mod a b => evalM t env a + evalM t env b
  end.
Definition dumpFM t env (e : expr) : list Z := dumpF (evalF t env e) ++ dumpF (evalM t env e).

Definition kind_code (k : kind) : Z :=
  match k with KR2 => 2 | KR3 => 3 | KSE2 => 12 | KSE3 => 13 | KArr n => (100 + Z.of_nat n) | KNone => 0 end%Z.
Definition exn_code (s : string) : Z :=
  if String.eqb s "NotImplementedError" then 1
  else if String.eqb s "ValueError" then 2
  else if String.eqb s "IndexError" then 3
  else if String.eqb s "AssertionError" then 4
  else if String.eqb s "KeyError" then 5
  else if String.eqb s "AttributeError" then 6
  else if String.eqb s "TypeError" then 7
  else 99.
(* result encoding: MAGIC :: tag :: payload
   tag 0 = vector  : kind_code, n, then n (value, majorant) quadruples m e M E
   tag 1 = matrix  : rows, cols, then rows*cols pairs (row-major)
   tag 2 = scalar  : one pair
   tag 3 = raise   : exn_code
   tag 4 = unsupported / no path applies *)
Definition dump_result t env (r : result) : list Z :=
  match r with
  | RVec k v => [MAGIC; 0; kind_code k; Z.of_nat (List.length v)]%Z ++ flat_map (dumpFM t env) v
  | RMat m => [MAGIC; 1; Z.of_nat (List.length m); Z.of_nat (List.length (hd [] m))]%Z
              ++ flat_map (fun row => flat_map (dumpFM t env) row) m
  | RScal e => [MAGIC; 2]%Z ++ dumpFM t env e
  | RRaise s => [MAGIC; 3; exn_code s]%Z
  | RUnsupported _ => [MAGIC; 4]%Z
  end.
Fixpoint run_meth t env (m : meth) : list Z :=
  match m with
  | [] => [MAGIC; 4]%Z
  | (gs, r) :: rest => if forallb (guardF t env) gs then dump_result t env r else run_meth t env rest
  end.
