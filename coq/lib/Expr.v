(* Expr.v — syntax of the deep-embedded scalar expression language into which the numeric kernel of
   python-graphslam (pose/*.py, util.py) is translated by tools/tr_poses.py.  Semantics over the
   reals and the dual-number soundness theorem are in ExprR.v; the IEEE interpretation used by the
   correspondence checks is in ExprF.v.  Hand-written, stable. *)
From Coq Require Import List ZArith Bool.
Import ListNotations.

Inductive expr :=
| Var (i : nat) | Cst (z : Z) | CstQ (n d : Z) | Pi
| Add (a b : expr) | Sub (a b : expr) | Mul (a b : expr) | Div (a b : expr) | Neg (a : expr)
| Sq (a : expr) | Sin (a : expr) | Cos (a : expr) | Sqrt (a : expr) | Mod (a b : expr).

(* an expression with no variable: its value does not depend on the environment *)
Fixpoint closed (e : expr) : bool :=
  match e with
  | Var _ => false
  | Cst _ | CstQ _ _ | Pi => true
  | Add a b | Sub a b | Mul a b | Div a b | Mod a b => closed a && closed b
  | Neg a | Sq a | Sin a | Cos a | Sqrt a => closed a
  end.

(* expressions built without Sqrt / Div / Mod are differentiable everywhere *)
Fixpoint poly (e : expr) : bool :=
  match e with
  | Var _ | Cst _ | CstQ _ _ | Pi => true
  | Add a b | Sub a b | Mul a b => poly a && poly b
  | Neg a | Sq a | Sin a | Cos a => poly a
  | Sqrt _ | Div _ _ | Mod _ _ => false
  end.
