(* MethR.v — real-number semantics of a translated method with its control flow: the first path
   whose recorded comparisons all hold is taken.  Also the verified rewrite [simp] that replaces
   (sqrt s)^2 by s when s is syntactically a sum of squares (needed to differentiate
   boxplus at 0, where numpy's  np.linalg.norm(v)**2  goes through a square root).  Hand-written. *)
From Coq Require Import Reals List Lra ZArith Lia Bool.
From GS Require Import ExprR LinAlg Meth.
Import ListNotations.
Open Scope R_scope.

Definition Rltb (x y : R) : bool := if Rlt_dec x y then true else false.
Definition Rleb (x y : R) : bool := if Rle_dec x y then true else false.
Definition Reqb (x y : R) : bool := if Req_EM_T x y then true else false.
Definition cmpR (op : cmpop) (x y : R) : bool :=
  match op with
  | CGt => Rltb y x | CGe => Rleb y x | CLt => Rltb x y | CLe => Rleb x y
  | CEq => Reqb x y | CNe => negb (Reqb x y)
  end.
Definition guardR (env : list R) (g : guard) : bool :=
  Bool.eqb (cmpR (g_op g) (evalR env (g_l g)) (evalR env (g_r g))) (g_taken g).
Fixpoint run_methR (env : list R) (m : meth) : list R :=
  match m with
  | [] => []
  | (gs, r) :: rest => if forallb (guardR env) gs then evl env (vec_of_result r) else run_methR env rest
  end.

Lemma Rltb_true x y : Rltb x y = true <-> x < y.
Proof. unfold Rltb. destruct (Rlt_dec x y); split; auto; discriminate. Qed.
Lemma Rltb_false x y : Rltb x y = false <-> ~ x < y.
Proof. unfold Rltb. destruct (Rlt_dec x y); split; auto; try discriminate. intros H; contradiction. Qed.
Lemma Rleb_true x y : Rleb x y = true <-> x <= y.
Proof. unfold Rleb. destruct (Rle_dec x y); split; auto; discriminate. Qed.
Lemma Rleb_false x y : Rleb x y = false <-> ~ x <= y.
Proof. unfold Rleb. destruct (Rle_dec x y); split; auto; try discriminate. intros H; contradiction. Qed.

(* ---- (sqrt s)^2 = s for sums of squares ---- *)
Fixpoint sumsq (e : expr) : bool :=
  match e with Sq _ => true | Add a b => sumsq a && sumsq b | _ => false end.
Lemma sumsq_nonneg env e : sumsq e = true -> 0 <= evalR env e.
Proof.
  induction e; simpl; intros H; try discriminate.
  - apply andb_prop in H. destruct H. specialize (IHe1 H). specialize (IHe2 H0). lra.
  - apply pow2_ge_0.
Qed.
(* syntactic equality of expressions (sound, not complete: used only to recognise  sqrt s * sqrt s) *)
Fixpoint expr_eqb (a b : expr) : bool :=
  match a, b with
  | Var i, Var j => Nat.eqb i j
  | Cst x, Cst y => Z.eqb x y
  | CstQ n d, CstQ n' d' => Z.eqb n n' && Z.eqb d d'
  | Pi, Pi => true
  | Add a1 a2, Add b1 b2 | Sub a1 a2, Sub b1 b2 | Mul a1 a2, Mul b1 b2 | Div a1 a2, Div b1 b2 | Mod a1 a2, Mod b1 b2 =>
      expr_eqb a1 b1 && expr_eqb a2 b2
  | Neg a1, Neg b1 | Sq a1, Sq b1 | Sin a1, Sin b1 | Cos a1, Cos b1 | Sqrt a1, Sqrt b1 => expr_eqb a1 b1
  | _, _ => false
  end.
Lemma expr_eqb_eq a : forall b, expr_eqb a b = true -> a = b.
Proof.
  induction a; intros b H; destruct b; simpl in H; try discriminate;
  repeat match goal with H : _ && _ = true |- _ => apply andb_prop in H; destruct H end;
  repeat match goal with
         | H : Nat.eqb _ _ = true |- _ => apply Nat.eqb_eq in H; subst
         | H : Z.eqb _ _ = true |- _ => apply Z.eqb_eq in H; subst
         end;
  try reflexivity;
  repeat match goal with IH : forall b, expr_eqb ?a b = true -> ?a = b, H : expr_eqb ?a _ = true |- _ => apply IH in H; subst end;
  reflexivity.
Qed.
Fixpoint simp (e : expr) : expr :=
  match e with
  | Var _ | Cst _ | CstQ _ _ | Pi => e
  | Add a b => Add (simp a) (simp b)
  | Sub a b => Sub (simp a) (simp b)
  | Mul a b => match a, b with
               | Sqrt s, Sqrt s' => if sumsq s && expr_eqb s s' then s else Mul (simp a) (simp b)   (* qnorm * qnorm *)
               | _, _ => Mul (simp a) (simp b)
               end
  | Div a b => Div (simp a) (simp b)
  | Mod a b => Mod (simp a) (simp b)
  | Neg a => Neg (simp a)
  | Sin a => Sin (simp a)
  | Cos a => Cos (simp a)
  | Sqrt a => Sqrt (simp a)
  | Sq a => match a with
            | Sqrt s => if sumsq s then s else Sq (Sqrt (simp s))
            | _ => Sq (simp a)
            end
  end.
Lemma simp_sound env e : evalR env (simp e) = evalR env e.
Proof.
  induction e; try (simpl; congruence).
  - (* Mul *)
    assert (G : evalR env (Mul (simp e1) (simp e2)) = evalR env (Mul e1 e2)) by (simpl; congruence).
    destruct e1; try exact G. destruct e2; try exact G.
    cbn [simp]. destruct (sumsq e1 && expr_eqb e1 e2) eqn:E; [|exact G].
    apply andb_prop in E. destruct E as [E1 E2]. apply expr_eqb_eq in E2. subst e2.
    pose proof (sumsq_nonneg env e1 E1) as Hn. simpl. symmetry. apply sqrt_sqrt; auto.
  - (* Sq *)
    simpl. destruct e; simpl in *; try congruence.
    destruct (sumsq e) eqn:E; simpl.
    + pose proof (sumsq_nonneg env e E) as Hn. symmetry. rewrite Rmult_1_r. apply sqrt_sqrt; auto.
    + congruence.
Qed.
Lemma simp_sound_l env l : evl env (map simp l) = evl env l.
Proof. unfold evl. rewrite map_map. apply map_ext. intros; apply simp_sound. Qed.

Lemma run_two_paths env l op rr r0 r1 :
  run_methR env [([mkguard l op rr true], r0); ([mkguard l op rr false], r1)] =
  if cmpR op (evalR env l) (evalR env rr) then evl env (vec_of_result r0) else evl env (vec_of_result r1).
Proof. unfold run_methR, forallb, guardR; simpl. destruct (cmpR op (evalR env l) (evalR env rr)); reflexivity. Qed.
