(* LinAlg.v — list-based vectors and matrices over R, evaluation of expression vectors/matrices,
   and the link from "tangent identities" (equalities between dual-number evaluations and
   Jacobian-vector products) to Coquelicot derivatives.  Hand-written, stable. *)
From Coq Require Import Reals List Lra ZArith Lia.
From Coquelicot Require Import Coquelicot.
From GS Require Import ExprR.
Import ListNotations.
Open Scope R_scope.

Definition dotR (a b : list R) : R := fold_right Rplus 0 (map (fun p => fst p * snd p) (combine a b)).
Definition matvec (m : list (list R)) (u : list R) : list R := map (fun r => dotR r u) m.
Fixpoint transpose_aux (n : nat) (m : list (list R)) : list (list R) :=
  match n with O => [] | S k => map (fun r => hd 0 r) m :: transpose_aux k (map (@tl R) m) end.
Definition transpose (m : list (list R)) := transpose_aux (length (hd [] m)) m.
Definition vadd (a b : list R) : list R := map (fun p => fst p + snd p) (combine a b).
Definition vscale (c : R) (a : list R) : list R := map (fun x => c * x) a.
Definition zeros (n : nat) : list R := repeat 0 n.
(* row vector times matrix: the linear combination of the rows of b with coefficients r *)
Definition vecmat (r : list R) (b : list (list R)) : list R :=
  fold_right (fun cr acc => vadd (vscale (fst cr) (snd cr)) acc) (zeros (length (hd [] b))) (combine r b).
(* matrix product (the meaning given to np.dot of two 2-D arrays) *)
Definition mmul (a b : list (list R)) : list (list R) := map (fun r => vecmat r b) a.

Definition evl (env : list R) (l : list expr) : list R := map (evalR env) l.
Definition evm (env : list R) (m : list (list expr)) : list (list R) := map (map (evalR env)) m.
Definition evlD (env : list (R * R)) (l : list expr) : list (R * R) := map (evalD env) l.

(* the line t |-> vals + t * U *)
Definition line (vals U : list R) : list (R -> R) := map (fun p (t : R) => fst p + t * snd p) (combine vals U).

Lemma line_derives vals U : env_derives (line vals U) 0 (combine vals U).
Proof.
  unfold line. revert U. induction vals as [|v vals IH]; intros [|u U]; simpl; try constructor.
  - split; simpl; [ring|].
    replace u with (0 + 1 * u) at 1 by ring.
    apply (is_derive_plus (K:=R_AbsRing) (V:=R_NormedModule)).
    + apply (is_derive_const (K:=R_AbsRing) (V:=R_NormedModule)).
    + replace (1 * u) with (1 * u + 0 * 0) by ring.
      apply (Derive.is_derive_mult (fun t => t) (fun _ => u) 0 1 0).
      * apply (is_derive_id (K:=R_AbsRing)).
      * apply (is_derive_const (K:=R_AbsRing) (V:=R_NormedModule)).
  - apply IH.
Qed.

Lemma envR_line_0 vals U : length vals = length U -> envR (line vals U) 0 = vals.
Proof.
  unfold envR, line. revert U. induction vals as [|v vals IH]; intros [|u U]; simpl; intros H; try discriminate; auto.
  f_equal; [ring | apply IH; lia].
Qed.

(* the workhorse: a vector of expressions evaluated along a line is differentiable at 0 and the
   derivative is the tangent part of the dual-number evaluation *)
Lemma derive_along_line (op : list expr) vals U :
  List.Forall (okD (combine vals U)) op ->
  Forall2 (fun e d => is_derive (fun t => evalR (envR (line vals U) t) e) 0 d)
          op (map snd (evlD (combine vals U) op)).
Proof.
  intros Hok. induction Hok as [|e op Hk _ IH]; simpl; constructor; auto.
  destruct (evalD_sound (line vals U) 0 (combine vals U) e (line_derives vals U) Hk) as [_ D]. exact D.
Qed.

Lemma poly_all env es : forallb poly es = true -> List.Forall (okD env) es.
Proof.
  induction es; simpl; intros H; constructor; apply andb_prop in H; destruct H; auto. apply poly_ok; auto.
Qed.

(* ---- stage lemmas for compositions (chain rule at the level of expression vectors) ---- *)
Lemma stage_derives f t0 envD (es : list expr) :
  env_derives f t0 envD -> List.Forall (okD envD) es ->
  env_derives (map (fun e t => evalR (envR f t) e) es) t0 (map (evalD envD) es).
Proof.
  intros He Hok. induction Hok as [|e es Hk _ IH]; simpl; constructor; auto.
  destruct (evalD_sound f t0 envD e He Hk) as [V D]. split; auto.
Qed.

Lemma env_derives_const (v : list R) t0 :
  env_derives (map (fun x (_:R) => x) v) t0 (map (fun x => (x,0)) v).
Proof.
  induction v; simpl; constructor; auto. split; auto.
  apply (is_derive_const (K:=R_AbsRing) (V:=R_NormedModule)).
Qed.

Lemma env_derives_app f1 f2 t0 e1 e2 :
  env_derives f1 t0 e1 -> env_derives f2 t0 e2 -> env_derives (f1 ++ f2) t0 (e1 ++ e2).
Proof. intros; apply Forall2_app; auto. Qed.

Lemma split_combine {A B} (l : list (A*B)) : l = combine (map fst l) (map snd l).
Proof. induction l as [|[a b] l IH]; simpl; congruence. Qed.
Lemma map_fst_evalD env es : map fst (map (evalD env) es) = map (evalR (map fst env)) es.
Proof. induction es; simpl; f_equal; auto. apply evalD_fst. Qed.

Definition cst (v : list R) : list (R -> R) := map (fun x (_:R) => x) v.
Definition cstD (v : list R) : list (R*R) := map (fun x => (x,0)) v.

Lemma map_fst_cstD v : map fst (cstD v) = v.
Proof. unfold cstD. rewrite map_map. simpl. apply map_id. Qed.
Lemma map_fst_combine (a b : list R) : length a = length b -> map fst (combine a b) = a.
Proof. revert b; induction a; destruct b; simpl; intros; try discriminate; auto. f_equal; auto. Qed.
Lemma map_snd_combine (a b : list R) : length a = length b -> map snd (combine a b) = b.
Proof. revert b; induction a; destruct b; simpl; intros; try discriminate; auto. f_equal; auto. Qed.

Lemma Forall2_derive_snd (ff : list (R -> R)) (dd : list (R * R)) t0 :
  env_derives ff t0 dd -> Forall2 (fun g v => is_derive g t0 v) ff (map snd dd).
Proof. intros H. induction H as [|g pr ff dd [_ Hd] _ IH]; simpl; constructor; auto. Qed.


(* ---- matrix algebra: (A B) u = A (B u) for well-shaped list matrices ---- *)
Lemma dotR_nil_r a : dotR a [] = 0.
Proof. unfold dotR. destruct a; reflexivity. Qed.
Lemma dotR_cons x a y b : dotR (x :: a) (y :: b) = x * y + dotR a b.
Proof. reflexivity. Qed.
Lemma dotR_vadd x y u : length x = length y -> dotR (vadd x y) u = dotR x u + dotR y u.
Proof.
  revert y u. induction x as [|a x IH]; intros [|b y] u H; simpl in H; try discriminate.
  - unfold vadd, dotR; simpl. ring.
  - destruct u as [|c u].
    + rewrite !dotR_nil_r. ring.
    + change (vadd (a :: x) (b :: y)) with ((a + b) :: vadd x y). rewrite !dotR_cons. rewrite IH by lia. ring.
Qed.
Lemma dotR_vscale c x u : dotR (vscale c x) u = c * dotR x u.
Proof.
  revert u. induction x as [|a x IH]; intros u.
  - unfold dotR; simpl. ring.
  - destruct u as [|b u].
    + rewrite !dotR_nil_r. ring.
    + change (vscale c (a :: x)) with ((c * a) :: vscale c x). rewrite !dotR_cons. rewrite IH. ring.
Qed.
Lemma dotR_zeros n u : dotR (zeros n) u = 0.
Proof.
  revert u. induction n as [|n IH]; intros u; [reflexivity|].
  destruct u as [|b u]; [apply dotR_nil_r|]. change (zeros (S n)) with (0 :: zeros n). rewrite dotR_cons, IH. ring.
Qed.
Lemma length_vadd x y : length x = length y -> length (vadd x y) = length x.
Proof. intros H. unfold vadd. rewrite map_length, combine_length, H. apply Nat.min_id. Qed.
Lemma length_vscale c x : length (vscale c x) = length x.
Proof. apply map_length. Qed.
Lemma length_vecmat_gen r b n : List.Forall (fun row => length row = n) b ->
  length (fold_right (fun cr acc => vadd (vscale (fst cr) (snd cr)) acc) (zeros n) (combine r b)) = n.
Proof.
  revert r. induction b as [|row b IH]; intros r Hb.
  - destruct r; simpl; apply repeat_length.
  - destruct r as [|c r]; simpl; [apply repeat_length|].
    inversion Hb as [|? ? Hrow Hrest]; subst.
    rewrite length_vadd; rewrite length_vscale; auto. rewrite IH; auto.
Qed.
Lemma dotR_vecmat_gen r b n u : List.Forall (fun row => length row = n) b ->
  dotR (fold_right (fun cr acc => vadd (vscale (fst cr) (snd cr)) acc) (zeros n) (combine r b)) u = dotR r (matvec b u).
Proof.
  revert r. induction b as [|row b IH]; intros r Hb.
  - destruct r; simpl; rewrite dotR_zeros; [reflexivity|]. unfold matvec. simpl. rewrite dotR_nil_r. reflexivity.
  - destruct r as [|c r].
    + simpl. rewrite dotR_zeros. reflexivity.
    + cbn [combine fold_right fst snd]. inversion Hb as [|? ? Hrow Hrest]; subst.
      assert (Hl : length (vscale c row) = length (fold_right (fun cr acc => vadd (vscale (fst cr) (snd cr)) acc)
                (zeros (length row)) (combine r b))) by (rewrite length_vscale, length_vecmat_gen; auto).
      rewrite (dotR_vadd _ _ u Hl). rewrite dotR_vscale, IH; auto.
Qed.
Definition well_shaped (n : nat) (b : list (list R)) : Prop := List.Forall (fun row => length row = n) b.
Lemma matvec_mmul a b u n : b <> [] -> well_shaped n b -> matvec (mmul a b) u = matvec a (matvec b u).
Proof.
  intros Hne Hb. unfold mmul, matvec at 1 3. rewrite map_map. apply map_ext. intros r.
  unfold vecmat. destruct b as [|row b]; [contradiction|]. simpl hd.
  inversion Hb as [|? ? Hrow Hrest]; subst. apply dotR_vecmat_gen; auto.
Qed.

(* ---- tactics ---- *)
(* destruct a list hypothesis [length l = n] (n a literal) into its elements *)
Ltac list_len l H :=
  repeat (let x := fresh "x" in destruct l as [|x l]; simpl in H; try discriminate H; try lia);
  clear H.

Ltac ring_lists :=
  cbv - [Rplus Rmult Rminus Ropp Rdiv Rinv sqrt IZR pow sin cos PI rmod];
  repeat (f_equal; try ring).
