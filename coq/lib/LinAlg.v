(* LinAlg.v — list-based vectors and matrices over R, evaluation of expression vectors/matrices,
   and the link from "tangent identities" (equalities between dual-number evaluations and
   Jacobian-vector products) to Coquelicot derivatives.  Hand-written, stable. *)
From Coq Require Import Reals List Lra ZArith Lia.
From Coquelicot Require Import Coquelicot.
From GS Require Import ExprR.
Import ListNotations.
Open Scope R_scope.

Definition dotR (a b : list R) : R := fold_right Rplus 0 (map (fun p => fst p * snd p) (combine a b)).
Definition matvec (m : list (list R)) (u : list R) : list R := map (fun r => dotR r u) m.
Fixpoint transpose_aux (n : nat) (m : list (list R)) : list (list R) :=
  match n with O => [] | S k => map (fun r => hd 0 r) m :: transpose_aux k (map (@tl R) m) end.
Definition transpose (m : list (list R)) := transpose_aux (length (hd [] m)) m.
Definition mmul (a b : list (list R)) : list (list R) :=
  let bt := transpose b in map (fun r => map (fun c => dotR r c) bt) a.
Definition vadd (a b : list R) : list R := map (fun p => fst p + snd p) (combine a b).
Definition vscale (c : R) (a : list R) : list R := map (fun x => c * x) a.

Definition evl (env : list R) (l : list expr) : list R := map (evalR env) l.
Definition evm (env : list R) (m : list (list expr)) : list (list R) := map (map (evalR env)) m.
Definition evlD (env : list (R * R)) (l : list expr) : list (R * R) := map (evalD env) l.

Definition zeros (n : nat) : list R := repeat 0 n.

(* the line t |-> vals + t * U *)
Definition line (vals U : list R) : list (R -> R) := map (fun p (t : R) => fst p + t * snd p) (combine vals U).

Lemma line_derives vals U : env_derives (line vals U) 0 (combine vals U).
Proof.
  unfold line. revert U. induction vals as [|v vals IH]; intros [|u U]; simpl; try constructor.
  - split; simpl; [ring|].
    replace u with (0 + 1 * u) at 1 by ring.
    apply (is_derive_plus (K:=R_AbsRing) (V:=R_NormedModule)).
    + apply (is_derive_const (K:=R_AbsRing) (V:=R_NormedModule)).
    + replace (1 * u) with (1 * u + 0 * 0) by ring.
      apply (Derive.is_derive_mult (fun t => t) (fun _ => u) 0 1 0).
      * apply (is_derive_id (K:=R_AbsRing)).
      * apply (is_derive_const (K:=R_AbsRing) (V:=R_NormedModule)).
  - apply IH.
Qed.

Lemma envR_line_0 vals U : length vals = length U -> envR (line vals U) 0 = vals.
Proof.
  unfold envR, line. revert U. induction vals as [|v vals IH]; intros [|u U]; simpl; intros H; try discriminate; auto.
  f_equal; [ring | apply IH; lia].
Qed.

(* the workhorse: a vector of expressions evaluated along a line is differentiable at 0 and the
   derivative is the tangent part of the dual-number evaluation *)
Lemma derive_along_line (op : list expr) vals U :
  List.Forall (okD (combine vals U)) op ->
  Forall2 (fun e d => is_derive (fun t => evalR (envR (line vals U) t) e) 0 d)
          op (map snd (evlD (combine vals U) op)).
Proof.
  intros Hok. induction Hok as [|e op Hk _ IH]; simpl; constructor; auto.
  destruct (evalD_sound (line vals U) 0 (combine vals U) e (line_derives vals U) Hk) as [_ D]. exact D.
Qed.

Lemma poly_all env es : forallb poly es = true -> List.Forall (okD env) es.
Proof.
  induction es; simpl; intros H; constructor; apply andb_prop in H; destruct H; auto. apply poly_ok; auto.
Qed.

(* ---- stage lemmas for compositions (chain rule at the level of expression vectors) ---- *)
Lemma stage f t0 envD (es : list expr) :
  env_derives f t0 envD -> List.Forall (okD envD) es ->
  env_derives (map (fun e t => evalR (envR f t) e) es) t0 (map (evalD envD) es).
Proof.
  intros He Hok. induction Hok as [|e es Hk _ IH]; simpl; constructor; auto.
  destruct (evalD_sound f t0 envD e He Hk) as [V D]. split; auto.
Qed.

Lemma env_derives_const (v : list R) t0 :
  env_derives (map (fun x (_:R) => x) v) t0 (map (fun x => (x,0)) v).
Proof.
  induction v; simpl; constructor; auto. split; auto.
  apply (is_derive_const (K:=R_AbsRing) (V:=R_NormedModule)).
Qed.

Lemma env_derives_app f1 f2 t0 e1 e2 :
  env_derives f1 t0 e1 -> env_derives f2 t0 e2 -> env_derives (f1 ++ f2) t0 (e1 ++ e2).
Proof. intros; apply Forall2_app; auto. Qed.

Lemma split_combine {A B} (l : list (A*B)) : l = combine (map fst l) (map snd l).
Proof. induction l as [|[a b] l IH]; simpl; congruence. Qed.
Lemma map_fst_evalD env es : map fst (map (evalD env) es) = map (evalR (map fst env)) es.
Proof. induction es; simpl; f_equal; auto. apply evalD_fst. Qed.

Definition cst (v : list R) : list (R -> R) := map (fun x (_:R) => x) v.
Definition cstD (v : list R) : list (R*R) := map (fun x => (x,0)) v.

Lemma map_fst_cstD v : map fst (cstD v) = v.
Proof. unfold cstD. rewrite map_map. simpl. apply map_id. Qed.
Lemma map_fst_combine (a b : list R) : length a = length b -> map fst (combine a b) = a.
Proof. revert b; induction a; destruct b; simpl; intros; try discriminate; auto. f_equal; auto. Qed.
Lemma map_snd_combine (a b : list R) : length a = length b -> map snd (combine a b) = b.
Proof. revert b; induction a; destruct b; simpl; intros; try discriminate; auto. f_equal; auto. Qed.

Lemma Forall2_derive_snd (ff : list (R -> R)) (dd : list (R * R)) t0 :
  env_derives ff t0 dd -> Forall2 (fun g v => is_derive g t0 v) ff (map snd dd).
Proof. intros H. induction H as [|g pr ff dd [_ Hd] _ IH]; simpl; constructor; auto. Qed.

(* ---- tactics ---- *)
(* destruct a list hypothesis [length l = n] (n a literal) into its elements *)
Ltac list_len l H :=
  repeat (let x := fresh "x" in destruct l as [|x l]; simpl in H; try discriminate H; try lia);
  clear H.

Ltac ring_lists :=
  cbv - [Rplus Rmult Rminus Ropp Rdiv Rinv sqrt IZR pow sin cos PI rmod];
  repeat (f_equal; try ring).
