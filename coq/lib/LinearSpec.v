(* LinearSpec.v — statements (definitions only) for C04: graphs whose edge errors are AFFINE in the
   vertex coordinates with constant Jacobians and whose boxplus is addition (all-R^2/R^3 graphs: see
   proofs/C04_affine.v for the regenerated R^n edge programs being of this form).

   A state of the optimizer is a flat coordinate vector x : nat -> R (vertex k occupies gi k .. gi k + dim k - 1).
   An affine edge is given at the CURRENT state by its error, information and Jacobians (an [edge R] of
   lib/GraphModel.v); moving the state by d changes the error to  e + sum_s J_s d_{slot s}  and leaves
   information and Jacobians unchanged: [shift_edge]. *)
From Coq Require Import Reals List Arith Bool.
From GS Require Import GraphModel GNSpec.
Import ListNotations.
Open Scope R_scope.

(* the error after moving every vertex k by the slice d[gi k ..] *)
Definition shift_err (vs : list vertex) (d : nat -> R) (e : Redge) : Rvec :=
  (fst (e_err R e),
   fun a => snd (e_err R e) a +
            sumnR (length (e_slots R e)) (fun s =>
              sumnR (dim_at vs (slot_at R e s)) (fun j => ent R (jac_at R 0 e s) a j * d (gi vs (slot_at R e s) + j)%nat))).
Definition shift_edge (vs : list vertex) (d : nat -> R) (e : Redge) : Redge :=
  mkedge R (e_slots R e) (shift_err vs d e) (e_om R e) (e_jac R e).

Definition zero_on_fixed (vs : list vertex) (d : nat -> R) : Prop :=
  forall r, (r < glen vs)%nat -> is_fixed_index vs r = true -> d r = 0.
Definition psd_edge (e : Redge) : Prop :=
  forall v : nat -> R, 0 <= sumnR (fst (e_err R e)) (fun a => sumnR (fst (e_err R e)) (fun b => v a * ent R (e_om R e) a b * v b)).

(* (1) one Gauss-Newton step lands on a solution of the normal equations: the gradient of the shifted
       graph vanishes (whatever the start). *)
Definition one_step_statement : Prop :=
  forall vs es dx, wf_graph vs es -> solves (glen vs) (spec_H vs es) (spec_b vs es) dx ->
    forall r, (r < glen vs)%nat -> spec_b vs (map (shift_edge vs dx) es) r = 0.
(* the Hessian does not change with the state *)
Definition hessian_constant_statement : Prop :=
  forall vs es d r c, spec_H vs (map (shift_edge vs d) es) r c = spec_H vs es r c.
(* (2) at a state with zero gradient every solution of the normal equations is a null vector of H; with an
       injective H the increment is zero: every later iteration stays *)
Definition stays_statement : Prop :=
  forall vs es dx, (forall r, (r < glen vs)%nat -> spec_b vs es r = 0) ->
    solves (glen vs) (spec_H vs es) (spec_b vs es) dx ->
    (forall x, (forall r, (r < glen vs)%nat -> sumnR (glen vs) (fun c => spec_H vs es r c * x c) = 0) -> forall c, (c < glen vs)%nat -> x c = 0) ->
    forall c, (c < glen vs)%nat -> dx c = 0.
(* (3) optimality: if the gradient vanishes at the current state and all information matrices are PSD,
       no displacement of the free vertices lowers chi2; exact expansion of chi2 *)
Definition expansion_statement : Prop :=
  forall vs es d, wf_graph vs es -> zero_on_fixed vs d ->
    spec_chi2 (map (shift_edge vs d) es) =
      spec_chi2 es + 2 * sumnR (glen vs) (fun r => spec_b vs es r * d r)
      + sumlist es (fun e =>
          let v := fun a => sumnR (length (e_slots R e)) (fun s =>
                     sumnR (dim_at vs (slot_at R e s)) (fun j => ent R (jac_at R 0 e s) a j * d (gi vs (slot_at R e s) + j)%nat)) in
          sumnR (fst (e_err R e)) (fun a => sumnR (fst (e_err R e)) (fun b => v a * ent R (e_om R e) a b * v b))).
Definition optimal_statement : Prop :=
  forall vs es d, wf_graph vs es -> zero_on_fixed vs d -> List.Forall psd_edge es ->
    (forall r, (r < glen vs)%nat -> spec_b vs es r = 0) ->
    spec_chi2 es <= spec_chi2 (map (shift_edge vs d) es).
(* (4) uniqueness: with an injective Hessian two states with zero gradient that agree on the fixed
       vertices coincide (so the minimiser is unique) *)
Definition unique_statement : Prop :=
  forall vs es d, wf_graph vs es -> zero_on_fixed vs d ->
    (forall r, (r < glen vs)%nat -> spec_b vs es r = 0) ->
    (forall r, (r < glen vs)%nat -> spec_b vs (map (shift_edge vs d) es) r = 0) ->
    (forall x, (forall r, (r < glen vs)%nat -> sumnR (glen vs) (fun c => spec_H vs es r c * x c) = 0) -> forall c, (c < glen vs)%nat -> x c = 0) ->
    forall c, (c < glen vs)%nat -> d c = 0.
