(* Wrap.v — the angle-wrapping function of graphslam/util.py (neg_pi_to_pi) over the reals and
   its algebra.  [wrap] is the meaning of the generated expression
   Sub (Mod (Add a Pi) (Mul (Cst 2) Pi)) Pi  (lemma [evalR_wrap] in proofs).  Hand-written. *)
From Coq Require Import Reals Lra ZArith Lia.
From Flocq Require Import Core.Raux.
From GS Require Import ExprR.
Open Scope R_scope.

Definition wrap (x : R) : R := rmod (x + PI) (2 * PI) - PI.
Definition not_at_wrap (x : R) : Prop := rmod (x + PI) (2 * PI) <> 0.

Lemma twopi_pos : 0 < 2 * PI. Proof. pose proof PI_RGT_0; lra. Qed.

Lemma wrap_range x : - PI <= wrap x < PI.
Proof. unfold wrap. pose proof (rmod_range (x + PI) (2 * PI) twopi_pos). lra. Qed.

Lemma wrap_congr x : exists k : Z, wrap x = x + 2 * PI * IZR k.
Proof. exists (- Zfloor ((x + PI) / (2 * PI)))%Z. unfold wrap, rmod. rewrite opp_IZR. ring. Qed.

Lemma rmod_shift a b (k : Z) : 0 < b -> rmod (a + b * IZR k) b = rmod a b.
Proof.
  intros Hb. unfold rmod.
  replace ((a + b * IZR k) / b) with (a / b + IZR k) by (field; lra).
  assert (E : Zfloor (a / b + IZR k) = (Zfloor (a / b) + k)%Z).
  { apply Zfloor_imp. rewrite !plus_IZR.
    pose proof (Zfloor_lb (a / b)). pose proof (Zfloor_ub (a / b)). simpl (IZR 1). lra. }
  rewrite E, plus_IZR. ring.
Qed.

Lemma wrap_shift x (k : Z) : wrap (x + 2 * PI * IZR k) = wrap x.
Proof. unfold wrap. replace (x + 2 * PI * IZR k + PI) with (x + PI + 2 * PI * IZR k) by ring.
  rewrite rmod_shift; auto using twopi_pos. Qed.

Lemma wrap_absorb_r a b : wrap (a - wrap b) = wrap (a - b).
Proof.
  destruct (wrap_congr b) as [k Hk]. rewrite Hk.
  replace (a - (b + 2 * PI * IZR k)) with (a - b + 2 * PI * IZR (- k)) by (rewrite opp_IZR; ring).
  apply wrap_shift.
Qed.
Lemma wrap_absorb_l a b : wrap (wrap a - b) = wrap (a - b).
Proof.
  destruct (wrap_congr a) as [k Hk]. rewrite Hk.
  replace (a + 2 * PI * IZR k - b) with (a - b + 2 * PI * IZR k) by ring.
  apply wrap_shift.
Qed.
Lemma wrap_absorb_plus_l a b : wrap (wrap a + b) = wrap (a + b).
Proof.
  destruct (wrap_congr a) as [k Hk]. rewrite Hk.
  replace (a + 2 * PI * IZR k + b) with (a + b + 2 * PI * IZR k) by ring.
  apply wrap_shift.
Qed.
Lemma wrap_absorb_plus_r a b : wrap (a + wrap b) = wrap (a + b).
Proof. rewrite Rplus_comm, wrap_absorb_plus_l, Rplus_comm. reflexivity. Qed.
Lemma wrap_opp_wrap a : wrap (- wrap a) = wrap (- a).
Proof. replace (- wrap a) with (0 - wrap a) by ring. rewrite wrap_absorb_r. f_equal. ring. Qed.

Lemma wrap_idem x : wrap (wrap x) = wrap x.
Proof. destruct (wrap_congr x) as [k Hk]. rewrite Hk at 1. apply wrap_shift. Qed.

Lemma wrap_id x : - PI <= x < PI -> wrap x = x.
Proof.
  intros H. unfold wrap, rmod.
  assert (E : Zfloor ((x + PI) / (2 * PI)) = 0%Z).
  { apply Zfloor_imp. pose proof twopi_pos. simpl. split.
    - apply Rmult_le_reg_r with (2*PI); auto. unfold Rdiv. rewrite Rmult_assoc, Rinv_l; lra.
    - apply Rmult_lt_reg_r with (2*PI); auto. unfold Rdiv. rewrite Rmult_assoc, Rinv_l; lra. }
  rewrite E. simpl. ring.
Qed.

(* periodicity of sin/cos over Z *)
Lemma IZR_pos_INR p : IZR (Z.pos p) = INR (Pos.to_nat p).
Proof. rewrite INR_IZR_INZ, positive_nat_Z. reflexivity. Qed.
Lemma cos_period_Z x (k : Z) : cos (x + 2 * PI * IZR k) = cos x.
Proof.
  destruct k as [|p|p].
  - simpl. f_equal. ring.
  - rewrite (IZR_pos_INR p).
    replace (x + 2 * PI * INR (Pos.to_nat p)) with (x + 2 * INR (Pos.to_nat p) * PI) by ring.
    apply cos_period.
  - rewrite <- (cos_period (x + 2 * PI * IZR (Z.neg p)) (Pos.to_nat p)).
    f_equal. rewrite <- (IZR_pos_INR p).
    change (Z.neg p) with (- Z.pos p)%Z. rewrite opp_IZR. ring.
Qed.
Lemma sin_period_Z x (k : Z) : sin (x + 2 * PI * IZR k) = sin x.
Proof.
  destruct k as [|p|p].
  - simpl. f_equal. ring.
  - rewrite (IZR_pos_INR p).
    replace (x + 2 * PI * INR (Pos.to_nat p)) with (x + 2 * INR (Pos.to_nat p) * PI) by ring.
    apply sin_period.
  - rewrite <- (sin_period (x + 2 * PI * IZR (Z.neg p)) (Pos.to_nat p)).
    f_equal. rewrite <- (IZR_pos_INR p).
    change (Z.neg p) with (- Z.pos p)%Z. rewrite opp_IZR. ring.
Qed.
Lemma cos_wrap x : cos (wrap x) = cos x.
Proof. destruct (wrap_congr x) as [k Hk]. rewrite Hk. apply cos_period_Z. Qed.
Lemma sin_wrap x : sin (wrap x) = sin x.
Proof. destruct (wrap_congr x) as [k Hk]. rewrite Hk. apply sin_period_Z. Qed.

Lemma evalR_wrap env a :
  evalR env (Sub (Mod (Add a Pi) (Mul (Cst 2) Pi)) Pi) = wrap (evalR env a).
Proof. reflexivity. Qed.

(* periodicity through differences and sums of wrapped angles *)
Lemma cos_sub_wrap_r a b : cos (a - wrap b) = cos (a - b).
Proof. rewrite <- (cos_wrap (a - wrap b)), wrap_absorb_r. apply cos_wrap. Qed.
Lemma sin_sub_wrap_r a b : sin (a - wrap b) = sin (a - b).
Proof. rewrite <- (sin_wrap (a - wrap b)), wrap_absorb_r. apply sin_wrap. Qed.
Lemma cos_sub_wrap_l a b : cos (wrap a - b) = cos (a - b).
Proof. rewrite <- (cos_wrap (wrap a - b)), wrap_absorb_l. apply cos_wrap. Qed.
Lemma sin_sub_wrap_l a b : sin (wrap a - b) = sin (a - b).
Proof. rewrite <- (sin_wrap (wrap a - b)), wrap_absorb_l. apply sin_wrap. Qed.
Lemma cos_add_wrap_l a b : cos (wrap a + b) = cos (a + b).
Proof. rewrite <- (cos_wrap (wrap a + b)), wrap_absorb_plus_l. apply cos_wrap. Qed.
Lemma sin_add_wrap_l a b : sin (wrap a + b) = sin (a + b).
Proof. rewrite <- (sin_wrap (wrap a + b)), wrap_absorb_plus_l. apply sin_wrap. Qed.
Lemma cos_neg_wrap a : cos (- wrap a) = cos (- a).
Proof. rewrite <- (cos_wrap (- wrap a)), wrap_opp_wrap. apply cos_wrap. Qed.
Lemma sin_neg_wrap a : sin (- wrap a) = sin (- a).
Proof. rewrite <- (sin_wrap (- wrap a)), wrap_opp_wrap. apply sin_wrap. Qed.
