(* EqCorr.v — used ONLY by the C17 correspondence (tools/corr_eqvalid.py), never under a property
   theorem: the rational instance of the equals model, the generic single-component perturbation
   (mirror image: corr_eqvalid.py `perturb`), and the integer code of a verdict.
   The objects themselves are emitted as Gallina literals by the harness from the same description
   from which it builds the Python objects. *)
From Coq Require Import List ZArith Bool QArith.
From GS Require Import PyBase EqualsModel CorrHash.
Import ListNotations.

Definition exn_code (e : exn) : Z :=
  match e with
  | NotImplementedError => 1 | ValueError => 2 | IndexError => 3 | AssertionError => 4
  | KeyError => 5 | AttributeError => 6 | TypeError => 7
  end.
Definition vcode (v : verdict) : Z := match v with VFalse => 0 | VTrue => 1 | VRaise e => 10 + exn_code e end.

(* add d to the component number c of an object; the numeric components of an object are numbered
   consecutively: pose: its numbers; vertex: the pose; edge: information, estimate, offset;
   graph: the edges in order, then the vertices in order *)
Definition pert (l : list Q) (off c : nat) (d : Q) : list Q :=
  map (fun ix => if Nat.eqb (off + fst ix) c then (snd ix + d)%Q else snd ix) (combine (seq 0 (length l)) l).
Definition n_pose (p : pose Q) : nat := length (p_num p).
Definition pert_pose (off c : nat) (d : Q) (p : pose Q) : pose Q := mkpose (p_kind p) (pert (p_num p) off c d).
Definition n_arr (a : arr Q) : nat := length (a_num a).
Definition pert_arr (off c : nat) (d : Q) (a : arr Q) : arr Q := mkarr (a_shape a) (pert (a_num a) off c d).
Definition n_est (e : estimate Q) : nat := match e with EPose p => n_pose p | EArr a => n_arr a end.
Definition pert_est (off c : nat) (d : Q) (e : estimate Q) : estimate Q :=
  match e with EPose p => EPose (pert_pose off c d p) | EArr a => EArr (pert_arr off c d a) end.
Definition n_edge (e : edge Q) : nat :=
  (n_arr (e_info e) + n_est (e_est e) + match e_off e with Some p => n_pose p | None => 0 end)%nat.
Definition pert_edge (off c : nat) (d : Q) (e : edge Q) : edge Q :=
  let o1 := (off + n_arr (e_info e))%nat in
  let o2 := (o1 + n_est (e_est e))%nat in
  mkedge (e_class e) (e_ids e) (pert_arr off c d (e_info e)) (pert_est o1 c d (e_est e))
         (option_map (pert_pose o2 c d) (e_off e)) (e_offid e).
Definition pert_vertex (off c : nat) (d : Q) (v : vertex Q) : vertex Q :=
  mkvertex (v_id v) (pert_pose off c d (v_pose v)).
Fixpoint pert_edges (off c : nat) (d : Q) (es : list (edge Q)) : list (edge Q) * nat :=
  match es with
  | [] => ([], off)
  | e :: r => let '(r', o) := pert_edges (off + n_edge e) c d r in (pert_edge off c d e :: r', o)
  end.
Fixpoint pert_vertices (off c : nat) (d : Q) (vs : list (vertex Q)) : list (vertex Q) :=
  match vs with
  | [] => []
  | v :: r => pert_vertex off c d v :: pert_vertices (off + n_pose (v_pose v)) c d r
  end.
Definition pert_graph (c : nat) (d : Q) (g : graph Q) : graph Q :=
  let '(es, o) := pert_edges 0 c d (g_edges g) in mkgraph es (pert_vertices o c d (g_vertices g)).

(* a case: (index of a, index of b, component of b that is perturbed, perturbation, tol) *)
Definition qcase := (nat * nat * nat * Q * Q)%type.
Section Run.
  Variable O : Type.
  Variable dflt : O.
  Variable eqf : Q -> O -> O -> verdict.
  Variable pertf : nat -> Q -> O -> O.
  Definition run_case (objs : list O) (cs : qcase) : Z :=
    let '(ia, ib, c, d, tol) := cs in
    vcode (eqf tol (nth ia objs dflt) (pertf c d (nth ib objs dflt))).
  (* all ordered pairs (a in objs[lo, lo+n), b in objs), unperturbed *)
  Definition run_pairs (objs : list O) (lo n : nat) (tol : Q) : list Z :=
    flat_map (fun a => map (fun b => vcode (eqf tol a b)) objs) (slice lo n objs).
End Run.

Definition eq_pose (tol : Q) := pose_equals Qminus (smallQ tol).
Definition eq_vertex (tol : Q) := vertex_equals Qminus (smallQ tol).
Definition eq_edge (tol : Q) := edge_equals Qminus (smallQ tol).
Definition eq_graph (tol : Q) := graph_equals Qminus (smallQ tol).
Definition d_pose : pose Q := mkpose PR2 [].
Definition d_vertex : vertex Q := mkvertex 0 d_pose.
Definition d_edge : edge Q := mkedge Odometry [] (mkarr [] []) (EPose d_pose) None None.
Definition d_graph : graph Q := mkgraph [] [].
Definition run_pose := run_case (pose Q) d_pose eq_pose (pert_pose 0).
Definition run_vertex := run_case (vertex Q) d_vertex eq_vertex (pert_vertex 0).
Definition run_edge := run_case (edge Q) d_edge eq_edge (pert_edge 0).
Definition run_graph := run_case (graph Q) d_graph eq_graph pert_graph.
Definition pairs_pose := run_pairs (pose Q) eq_pose.
Definition pairs_vertex := run_pairs (vertex Q) eq_vertex.
Definition pairs_edge := run_pairs (edge Q) eq_edge.
Definition pairs_graph := run_pairs (graph Q) eq_graph.
