(* ValidSpec.v — the DECLARATIVE specification C18 is stated against, written independently of
   is_valid / _initialize (ValidModel.v): which vertex an id names, when all ids are known, and
   when an edge is well typed (DESIGN.md C18).  Definitions only. *)
From Coq Require Import List ZArith Bool.
From GS Require Import PyBase ValidModel.
Import ListNotations.

Definition dims (l : list vertex) : nat := fold_right (fun v s => pdim (v_kind v) + s)%nat 0%nat l.

(* [binds vs k b]: b is the vertex the id k names in the vertex list vs: the LAST vertex of the
   list whose id is k, with gradient_index = the sum of the dimensions of the vertices before it *)
Definition binds (vs : list vertex) (k : Z) (b : bvertex) : Prop :=
  exists l1 l2, vs = l1 ++ b_v b :: l2 /\ v_id (b_v b) = k /\ (forall w, In w l2 -> v_id w <> k) /\ b_gi b = dims l1.
Definition known (vs : list vertex) (k : Z) : Prop := exists v, In v vs /\ v_id v = k.

Definition admissible_landmark (K0 K1 : pkind) : Prop :=
  (K0 = PSE2 /\ K1 = PR2) \/ (K0 = PSE3 /\ K1 = PR3) \/ (K0 = PR2 /\ K1 = PR2) \/ (K0 = PR3 /\ K1 = PR3).

(* the specification of a well-typed edge, written from the measurement models (DESIGN C18), not from is_valid *)
Definition consistent (custom_ok : nat -> edge -> list bvertex -> bool) (vs : list vertex) (e : edge) : Prop :=
  match e_class e with
  | Odometry =>
      exists a b va vb K, e_ids e = [a; b] /\ binds vs a va /\ binds vs b vb /\
        v_kind (b_v va) = K /\ v_kind (b_v vb) = K /\ e_est e = OPose K /\ e_info e = [pdim K; pdim K]
  | Landmark =>
      exists a b va vb K0 K1, e_ids e = [a; b] /\ binds vs a va /\ binds vs b vb /\
        v_kind (b_v va) = K0 /\ v_kind (b_v vb) = K1 /\ admissible_landmark K0 K1 /\
        e_off e = OPose K0 /\ e_est e = OPose K1 /\ e_info e = [pdim K1; pdim K1]
  | Custom n => exists bl, Forall2 (binds vs) (e_ids e) bl /\ custom_ok n e bl = true
  end.


Definition all_known (es : list edge) (vs : list vertex) : Prop :=
  forall e k, In e es -> In k (e_ids e) -> known vs k.
