(* GraphModel.v — hand-written executable model of the bookkeeping of graphslam/graph.py and of
   BaseEdge.calc_chi2_gradient_hessian:
     Graph._initialize        cumulative gradient_index, id -> LAST index dictionary, slot binding
     calc_chi2_gradient_hessian   the two list comprehensions (gradient and Hessian contributions)
     _Chi2GradientHessian.update  the defaultdicts with "first contribution adopted", transposition rule
     Graph._calc_chi2_gradient_hessian   dense gradient / Hessian fill (slice writes, mirror, fixed keys,
                                  identity block of every fixed vertex)
     the update step          boxplus per non-fixed vertex on dx[gi : gi+dim]
   Generic in the scalar type T (operations only, no laws): instantiated with Z for the exact
   correspondence and with R for the theorems.  Matrices are functions of (row, column) with
   explicit dimensions, so that slice writes and transposition are pointwise.  No proofs here. *)
From Coq Require Import List Arith Bool ZArith.
Import ListNotations.

Section Model.
Variable T : Type.
Variables (zero one : T) (add mul : T -> T -> T).

(* ---- finite sums and function-matrices ---- *)
Fixpoint sumn (n : nat) (f : nat -> T) : T :=
  match n with O => zero | S k => add (sumn k f) (f k) end.
Record mat := mkmat { rows : nat; cols : nat; ent : nat -> nat -> T }.
Definition mzero (r c : nat) : mat := mkmat r c (fun _ _ => zero).
Definition madd (a b : mat) : mat := mkmat (rows a) (cols a) (fun i j => add (ent a i j) (ent b i j)).
Definition mtr (a : mat) : mat := mkmat (cols a) (rows a) (fun i j => ent a j i).
Definition mdot (a b : mat) : mat := mkmat (rows a) (cols b) (fun i j => sumn (cols a) (fun k => mul (ent a i k) (ent b k j))).
Definition meye (r c : nat) : mat := mkmat r c (fun i j => if Nat.eqb i j then one else zero).
Definition vec := (nat * (nat -> T))%type.                 (* length, entries *)
Definition vdotm (v : vec) (m : mat) : vec := (cols m, fun j => sumn (fst v) (fun k => mul (snd v k) (ent m k j))).
Definition vdotv (u v : vec) : T := sumn (fst u) (fun k => mul (snd u k) (snd v k)).
Definition vaddf (u v : vec) : vec := (fst u, fun i => add (snd u i) (snd v i)).

(* ---- vertices and bound edges ---- *)
Record vertex := mkvertex { v_dim : nat; v_fixed : bool }.
Record edge := mkedge {
  e_slots : list nat;       (* positions, in the vertex list, of the vertices the edge constrains *)
  e_err : vec;              (* calc_error() *)
  e_om : mat;               (* information *)
  e_jac : list mat          (* calc_jacobians(): one matrix (len err x dim of the slot's vertex) per slot *)
}.
(* gradient_index of position k *)
Fixpoint goff (vs : list vertex) (k : nat) : nat :=
  match k, vs with
  | S k', v :: r => v_dim v + goff r k'
  | _, _ => 0
  end.
Definition glen (vs : list vertex) : nat := goff vs (length vs).
Definition gi (vs : list vertex) (k : nat) : nat := goff vs k.
Definition dim_at (vs : list vertex) (k : nat) : nat := v_dim (nth k vs (mkvertex 0 false)).
Definition fixed_at (vs : list vertex) (k : nat) : bool := v_fixed (nth k vs (mkvertex 0 false)).
(* _fixed_gradient_indices as a membership test on gradient indices *)
Definition fixed_index (vs : list vertex) (g : nat) : bool :=
  existsb (fun k => andb (fixed_at vs k) (Nat.eqb (gi vs k) g)) (seq 0 (length vs)).

(* ---- BaseEdge.calc_chi2_gradient_hessian ---- *)
Definition edge_chi2 (e : edge) : T := vdotv (vdotm (e_err e) (e_om e)) (e_err e).
Definition jac_at (e : edge) (s : nat) : mat := nth s (e_jac e) (mzero 0 0).
Definition slot_at (e : edge) (s : nat) : nat := nth s (e_slots e) 0.
Definition grad_contribs (vs : list vertex) (e : edge) : list (nat * vec) :=
  map (fun s => (gi vs (slot_at e s), vdotm (vdotm (e_err e) (e_om e)) (jac_at e s)))
      (seq 0 (Nat.min (length (e_slots e)) (length (e_jac e)))).       (* zip(self.vertices, jacobians) *)
Definition hess_contribs (vs : list vertex) (e : edge) : list ((nat * nat) * mat) :=
  let n := length (e_jac e) in
  flat_map (fun i => map (fun j => ((gi vs (slot_at e i), gi vs (slot_at e j)),
                                    mdot (mdot (mtr (jac_at e i)) (e_om e)) (jac_at e j)))
                         (seq i (n - i)))
           (seq 0 n).

(* ---- _Chi2GradientHessian: defaultdicts in insertion order ---- *)
Fixpoint gdict_add (d : list (nat * vec)) (k : nat) (v : vec) : list (nat * vec) :=
  match d with
  | [] => [(k, v)]                                         (* DefaultArray.__iadd__ returns the contribution *)
  | (k', v') :: r => if Nat.eqb k' k then (k', vaddf v' v) :: r else (k', v') :: gdict_add r k v
  end.
Definition key_eqb (a b : nat * nat) : bool := andb (Nat.eqb (fst a) (fst b)) (Nat.eqb (snd a) (snd b)).
Fixpoint hdict_add (d : list ((nat * nat) * mat)) (k : nat * nat) (m : mat) : list ((nat * nat) * mat) :=
  match d with
  | [] => [(k, m)]
  | (k', m') :: r => if key_eqb k' k then (k', madd m' m) :: r else (k', m') :: hdict_add r k m
  end.
Record acc := mkacc { a_chi2 : T; a_grad : list (nat * vec); a_hess : list ((nat * nat) * mat) }.
Definition acc0 : acc := mkacc zero [] [].
Definition update (vs : list vertex) (a : acc) (e : edge) : acc :=
  mkacc (add (a_chi2 a) (edge_chi2 e))
        (fold_left (fun d c => gdict_add d (fst c) (snd c)) (grad_contribs vs e) (a_grad a))
        (fold_left (fun d c => let '((i1, i2), m) := c in
                               if Nat.leb i1 i2 then hdict_add d (i1, i2) m else hdict_add d (i2, i1) (mtr m))
                   (hess_contribs vs e) (a_hess a)).
Definition accumulate (vs : list vertex) (es : list edge) : acc := fold_left (update vs) es acc0.

(* ---- dense fill ---- *)
Definition in_range (lo n x : nat) : bool := andb (Nat.leb lo x) (Nat.ltb x (lo + n)).
(* gradient[idx : idx+len] += contrib *)
Definition gwrite (g : nat -> T) (idx : nat) (v : vec) : nat -> T :=
  fun r => if in_range idx (fst v) r then add (g r) (snd v (r - idx)) else g r.
Definition fill_gradient (vs : list vertex) (d : list (nat * vec)) : nat -> T :=
  fold_left (fun g kv => if fixed_index vs (fst kv) then g else gwrite g (fst kv) (snd kv)) d (fun _ => zero).
(* hessian[r0 : r0+rows, c0 : c0+cols] = block *)
Definition hwrite (h : nat -> nat -> T) (r0 c0 : nat) (m : mat) : nat -> nat -> T :=
  fun r c => if andb (in_range r0 (rows m) r) (in_range c0 (cols m) c) then ent m (r - r0) (c - c0) else h r c.
Definition fill_hessian_dict (vs : list vertex) (d : list ((nat * nat) * mat)) : nat -> nat -> T :=
  fold_left (fun h km =>
               let '((r0, c0), m) := km in
               if orb (fixed_index vs r0) (fixed_index vs c0)
               then (if Nat.eqb r0 c0 then hwrite h r0 c0 (meye (rows m) (cols m)) else h)
               else let h1 := hwrite h r0 c0 m in
                    if Nat.eqb r0 c0 then h1 else hwrite h1 c0 r0 (mtr m))
            d (fun _ _ => zero).
(* the identity block of every fixed vertex (whether or not an edge touches it) *)
Definition fill_fixed (vs : list vertex) (h : nat -> nat -> T) : nat -> nat -> T :=
  fold_left (fun h k => if fixed_index vs (gi vs k) then hwrite h (gi vs k) (gi vs k) (meye (dim_at vs k) (dim_at vs k)) else h)
            (seq 0 (length vs)) h.
Definition assemble_chi2 (vs : list vertex) (es : list edge) : T := a_chi2 (accumulate vs es).
Definition assemble_gradient (vs : list vertex) (es : list edge) : nat -> T :=
  fill_gradient vs (a_grad (accumulate vs es)).
Definition assemble_hessian (vs : list vertex) (es : list edge) : nat -> nat -> T :=
  fill_fixed vs (fill_hessian_dict vs (a_hess (accumulate vs es))).

(* tabulation, for the correspondence *)
Definition tab_vec (n : nat) (g : nat -> T) : list T := map g (seq 0 n).
Definition tab_mat (n : nat) (h : nat -> nat -> T) : list (list T) := map (fun r => map (h r) (seq 0 n)) (seq 0 n).
Definition vec_of_list (l : list T) : vec := (length l, fun i => nth i l zero).
Definition mat_of_list (r c : nat) (l : list (list T)) : mat := mkmat r c (fun i j => nth j (nth i l []) zero).

(* ---- the update step of Graph.optimize: v.pose += dx[gi : gi + dim] for every vertex that is not fixed ---- *)
Definition dx_slice (vs : list vertex) (dx : nat -> T) (k : nat) : list T := map (fun i => dx (gi vs k + i)) (seq 0 (dim_at vs k)).
Definition apply_update {P : Type} (boxplus : nat -> P -> list T -> P) (vs : list vertex) (poses : list P) (dx : nat -> T) : list P :=
  map (fun kp => if fixed_at vs (fst kp) then snd kp else boxplus (fst kp) (snd kp) (dx_slice vs dx (fst kp)))
      (combine (seq 0 (length poses)) poses).

(* ---- Graph._initialize: id -> last index, slot binding ---- *)
Fixpoint last_index_of (ids : list Z) (x : Z) (k : nat) (found : option nat) : option nat :=
  match ids with
  | [] => found
  | y :: r => last_index_of r x (S k) (if Z.eqb y x then Some k else found)
  end.
Definition bind_slots (ids : list Z) (vertex_ids : list Z) : option (list nat) :=
  fold_right (fun x accu => match last_index_of ids x 0 None, accu with
                            | Some k, Some l => Some (k :: l)
                            | _, _ => None        (* KeyError *)
                            end) (Some []) vertex_ids.
End Model.
