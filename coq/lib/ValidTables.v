(* ValidTables.v — what the GENERATED pose model (coq/gen/Gen*.v, regenerated from graphslam/pose/*.py
   on every run) says about the operations calc_error / calc_jacobians of the two library edge
   classes perform, as a function of the classes of the operands only:
     EdgeOdometry.calc_error   (estimate - (p1 - p0)).to_compact()
     EdgeLandmark.calc_error   (((p0 + offset).inverse + p1) - estimate).to_compact()
   [res m] is the class of the value a dispatch-table entry returns, None if it raises (or if the
   translator did not support it).  Definitions only. *)
From Coq Require Import List ZArith String Bool.
From GS Require Import Expr Meth GenR2 GenR3 GenSE2 GenSE3 PyBase.
Import ListNotations.

Definition mk (k : pkind) : kind := match k with PR2 => KR2 | PR3 => KR3 | PSE2 => KSE2 | PSE3 => KSE3 end.
Definition pk_of (k : kind) : option pkind :=
  match k with KR2 => Some PR2 | KR3 => Some PR3 | KSE2 => Some PSE2 | KSE3 => Some PSE3 | _ => None end.
Definition addt (k : pkind) := match k with PR2 => R2_add | PR3 => R3_add | PSE2 => SE2_add | PSE3 => SE3_add end.
Definition subt (k : pkind) := match k with PR2 => R2_sub | PR3 => R3_sub | PSE2 => SE2_sub | PSE3 => SE3_sub end.
Definition invt (k : pkind) := match k with PR2 => R2_inverse | PR3 => R3_inverse | PSE2 => SE2_inverse | PSE3 => SE3_inverse end.
Definition gen_len (k : pkind) := match k with PR2 => R2_len | PR3 => R3_len | PSE2 => SE2_len | PSE3 => SE3_len end.
Definition gen_compact (k : pkind) := match k with PR2 => R2_compact | PR3 => R3_compact | PSE2 => SE2_compact | PSE3 => SE3_compact end.

Definition res (m : meth) : option pkind :=
  match raises m with Some _ => None | None => pk_of (kind_of m) end.
Definition obind {A B} (o : option A) (f : A -> option B) : option B := match o with Some a => f a | None => None end.

(* class of the error pose of an odometry edge: vertices of classes K0, K1, estimate of class Ke *)
Definition odo_err (K0 K1 Ke : pkind) : option pkind :=
  obind (res (subt K1 (mk K0))) (fun d => res (subt Ke (mk d))).
(* class of the error pose of a landmark edge: pose K0, offset Ko, point K1, estimate Ke *)
Definition lm_err (K0 Ko K1 Ke : pkind) : option pkind :=
  obind (res (addt K0 (mk Ko))) (fun s => obind (res (invt s)) (fun i =>
  obind (res (addt i (mk K1))) (fun t => res (subt t (mk Ke))))).

(* shape of the matrix a Jacobian method returns (the same on every control-flow path), None if
   some path does not return a matrix *)
Definition rshape (r : Meth.result) : option (nat * nat) :=
  match r with RMat rows => Some (List.length rows, List.length (hd [] rows)) | _ => None end.
Definition mshape (m : meth) : option (nat * nat) :=
  match m with
  | [] => None
  | (_, r) :: rest =>
      match rshape r with
      | Some s => if forallb (fun p => match rshape (snd p) with
                                       | Some s' => Nat.eqb (fst s) (fst s') && Nat.eqb (snd s) (snd s')
                                       | None => false end) rest then Some s else None
      | None => None
      end
  end.
(* shape of a product of matrices, None if a factor is missing or the inner dimensions differ *)
Fixpoint chain (l : list (option (nat * nat))) : option (nat * nat) :=
  match l with
  | [] => None
  | [s] => s
  | s :: r => match s, chain r with
              | Some (a, b), Some (c, d) => if Nat.eqb b c then Some (a, d) else None
              | _, _ => None
              end
  end.
Definition jbox (k : pkind) := match k with PR2 => R2_jacobian_boxplus | PR3 => R3_jacobian_boxplus | PSE2 => SE2_jacobian_boxplus | PSE3 => SE3_jacobian_boxplus end.
Definition jinv (k : pkind) := match k with PR2 => R2_jacobian_inverse | PR3 => R3_jacobian_inverse | PSE2 => SE2_jacobian_inverse | PSE3 => SE3_jacobian_inverse end.
Definition j_om_other_c (k : pkind) := match k with PR2 => R2_jacobian_self_ominus_other_wrt_other_compact | PR3 => R3_jacobian_self_ominus_other_wrt_other_compact | PSE2 => SE2_jacobian_self_ominus_other_wrt_other_compact | PSE3 => SE3_jacobian_self_ominus_other_wrt_other_compact end.
Definition j_om_other (k : pkind) := match k with PR2 => R2_jacobian_self_ominus_other_wrt_other | PR3 => R3_jacobian_self_ominus_other_wrt_other | PSE2 => SE2_jacobian_self_ominus_other_wrt_other | PSE3 => SE3_jacobian_self_ominus_other_wrt_other end.
Definition j_om_self (k : pkind) := match k with PR2 => R2_jacobian_self_ominus_other_wrt_self | PR3 => R3_jacobian_self_ominus_other_wrt_self | PSE2 => SE2_jacobian_self_ominus_other_wrt_self | PSE3 => SE3_jacobian_self_ominus_other_wrt_self end.
Definition j_op_self (k : pkind) := match k with PR2 => R2_jacobian_self_oplus_other_wrt_self | PR3 => R3_jacobian_self_oplus_other_wrt_self | PSE2 => SE2_jacobian_self_oplus_other_wrt_self | PSE3 => SE3_jacobian_self_oplus_other_wrt_self end.
Definition j_pt_self (k : pkind) := match k with PR2 => R2_jacobian_self_oplus_point_wrt_self | PR3 => R3_jacobian_self_oplus_point_wrt_self | PSE2 => SE2_jacobian_self_oplus_point_wrt_self | PSE3 => SE3_jacobian_self_oplus_point_wrt_self end.
Definition j_pt_point (k : pkind) := match k with PR2 => R2_jacobian_self_oplus_point_wrt_point | PR3 => R3_jacobian_self_oplus_point_wrt_point | PSE2 => SE2_jacobian_self_oplus_point_wrt_point | PSE3 => SE3_jacobian_self_oplus_point_wrt_point end.

(* EdgeOdometry.calc_jacobians for vertices and estimate of class K: shapes of the two products *)
Definition odo_jac_shapes (K : pkind) : list (option (nat * nat)) :=
  [chain [mshape (j_om_other_c K (mk K)); mshape (j_om_other K (mk K)); mshape (jbox K)];
   chain [mshape (j_om_other_c K (mk K)); mshape (j_om_self K (mk K)); mshape (jbox K)]].
(* EdgeLandmark.calc_jacobians for pose/offset of class K0 and point/estimate of class K1 *)
Definition lm_jac_shapes (K0 K1 : pkind) : list (option (nat * nat)) :=
  [chain [mshape (j_pt_self K0 (mk K1)); mshape (jinv K0); mshape (j_op_self K0 (mk K0)); mshape (jbox K0)];
   chain [mshape (j_pt_point K0 (mk K1)); mshape (jbox K1)]].

Definition all_pk : list pkind := [PR2; PR3; PSE2; PSE3].
(* the inconsistent class combinations on which NO table entry raises: the operand is read as a
   plain array of at least three numbers, whatever its class (R^3 / SE(2) / the head of SE(3)) *)
Definition odo_silent : list (pkind * pkind * pkind) :=
  filter (fun c => let '(a, b, e) := c in
            match odo_err a b e with Some _ => negb (pkind_eqb a b && pkind_eqb e a) | None => false end)
         (flat_map (fun a => flat_map (fun b => map (fun e => (a, b, e)) all_pk) all_pk) all_pk).
Definition lm_pairs_b (a b : pkind) : bool :=
  match a, b with PSE2, PR2 | PSE3, PR3 | PR2, PR2 | PR3, PR3 => true | _, _ => false end.
Definition lm_silent : list (pkind * pkind * pkind * pkind) :=
  filter (fun c => let '(a, o, b, e) := c in
            match lm_err a o b e with Some _ => negb (lm_pairs_b a b && pkind_eqb o a && pkind_eqb e b) | None => false end)
         (flat_map (fun a => flat_map (fun o => flat_map (fun b => map (fun e => (a, o, b, e)) all_pk) all_pk) all_pk) all_pk).
