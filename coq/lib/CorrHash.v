(* CorrHash.v — used ONLY by correspondence files (never under a property theorem).
   Reading a long list back from vm_compute and printing it costs ~50 us per element in Coq 8.16,
   so a correspondence over 10^6 cases does not print one result per case: the result codes are
   hashed in blocks (polynomial hash modulo the Mersenne prime 2^61-1); the harness computes the
   same hashes from the implementation's codes and, for a block whose hash differs, asks for the
   explicit codes of that block ([slice]) in a second pass.  Codes are small non-negative integers. *)
From Coq Require Import List ZArith.
Import ListNotations.
Open Scope Z_scope.

Definition HP : Z := 2305843009213693951.
Definition hstep (acc c : Z) : Z := (acc * 1000003 + c + 1) mod HP.
(* one hash per block of [per] codes; the last block may be shorter; an empty list gives [] *)
Fixpoint hash_blocks (per : nat) (l : list Z) (cnt : nat) (acc : Z) : list Z :=
  match l with
  | [] => match cnt with O => [] | _ => [acc] end
  | c :: r =>
      let acc' := hstep acc c in
      if Nat.eqb (S cnt) per then acc' :: hash_blocks per r 0 0 else hash_blocks per r (S cnt) acc'
  end.
Definition hashes (per : nat) (l : list Z) : list Z := hash_blocks per l 0 0.
Definition slice {A} (lo n : nat) (l : list A) : list A := firstn n (skipn lo l).
Fixpoint zrange (n : nat) (lo : Z) : list Z := match n with O => [] | S k => lo :: zrange k (lo + 1) end.
