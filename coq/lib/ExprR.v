(* ExprR.v — real-number semantics [evalR] of the expression language of Expr.v, its forward-mode
   dual-number semantics [evalD], and the soundness theorem [evalD_sound] connecting [evalD] to
   Coquelicot's [is_derive].  Hand-written, stable; contains no statement about the repository. *)
From Coq Require Import Reals List Lra ZArith Bool.
From Coquelicot Require Import Coquelicot.
From Flocq Require Import Core.Raux.
From GS Require Export Expr.
Import ListNotations.
Open Scope R_scope.

(* Python's float [%] for a positive divisor: a - b*floor(a/b) *)
Definition rmod (a b : R) : R := a - b * IZR (Zfloor (a / b)).

Fixpoint evalR (env : list R) (e : expr) : R :=
  match e with
  | Var i => nth i env 0
  | Cst z => IZR z
  | CstQ n d => IZR n / IZR d
  | Pi => PI
  | Add a b => evalR env a + evalR env b
  | Sub a b => evalR env a - evalR env b
  | Mul a b => evalR env a * evalR env b
  | Div a b => evalR env a / evalR env b
  | Neg a => - evalR env a
  | Sq a => (evalR env a) ^ 2
  | Sin a => sin (evalR env a)
  | Cos a => cos (evalR env a)
  | Sqrt a => sqrt (evalR env a)
  | Mod a b => rmod (evalR env a) (evalR env b)
  end.

Lemma closed_evalR e : closed e = true -> forall env env', evalR env e = evalR env' e.
Proof.
  induction e; simpl; intros H env env'; try discriminate; auto;
    try (apply andb_prop in H; destruct H as [H1 H2]);
    try (rewrite (IHe1 H1 env env'), (IHe2 H2 env env'); reflexivity);
    try (rewrite (IHe H env env'); reflexivity).
Qed.

(* dual numbers: (value, derivative) *)
Fixpoint evalD (env : list (R * R)) (e : expr) : R * R :=
  match e with
  | Var i => nth i env (0, 0)
  | Cst z => (IZR z, 0)
  | CstQ n d => (IZR n / IZR d, 0)
  | Pi => (PI, 0)
  | Add a b => let '(x, dx) := evalD env a in let '(y, dy) := evalD env b in (x + y, dx + dy)
  | Sub a b => let '(x, dx) := evalD env a in let '(y, dy) := evalD env b in (x - y, dx - dy)
  | Mul a b => let '(x, dx) := evalD env a in let '(y, dy) := evalD env b in (x * y, dx * y + x * dy)
  | Div a b => let '(x, dx) := evalD env a in let '(y, dy) := evalD env b in
               (x / y, (dx * y - x * dy) / (y * y))
  | Neg a => let '(x, dx) := evalD env a in (- x, - dx)
  | Sq a => let '(x, dx) := evalD env a in (x ^ 2, 2 * x * dx)
  | Sin a => let '(x, dx) := evalD env a in (sin x, cos x * dx)
  | Cos a => let '(x, dx) := evalD env a in (cos x, - sin x * dx)
  | Sqrt a => let '(x, dx) := evalD env a in (sqrt x, dx / (2 * sqrt x))
  | Mod a b => let '(x, dx) := evalD env a in let '(y, _) := evalD env b in (rmod x y, dx)
  end.

(* side conditions under which [evalD] is the derivative *)
Fixpoint okD (env : list (R * R)) (e : expr) : Prop :=
  match e with
  | Var _ | Cst _ | CstQ _ _ | Pi => True
  | Add a b | Sub a b | Mul a b => okD env a /\ okD env b
  | Div a b => okD env a /\ okD env b /\ fst (evalD env b) <> 0
  | Neg a | Sq a | Sin a | Cos a => okD env a
  | Sqrt a => okD env a /\ 0 < fst (evalD env a)
  | Mod a b => okD env a /\ closed b = true /\ 0 < fst (evalD env b)
               /\ rmod (fst (evalD env a)) (fst (evalD env b)) <> 0
  end.

(* a time-dependent environment *)
Definition envR (f : list (R -> R)) (t : R) : list R := map (fun g => g t) f.

Definition env_derives (f : list (R -> R)) (t0 : R) (env : list (R * R)) : Prop :=
  Forall2 (fun g p => g t0 = fst p /\ is_derive g t0 (snd p)) f env.

Lemma nth_env_derives f t0 env i :
  env_derives f t0 env ->
  nth i (envR f t0) 0 = fst (nth i env (0,0)) /\
  is_derive (fun t => nth i (envR f t) 0) t0 (snd (nth i env (0,0))).
Proof.
  intros H. revert i. induction H as [|g p f env [Hv Hd] _ IH]; intros i.
  - destruct i; simpl; split; auto; apply (is_derive_const (K:=R_AbsRing) (V:=R_NormedModule)).
  - destruct i; simpl.
    + split; auto.
    + apply IH.
Qed.

(* ---- the floor is locally constant away from integers ---- *)
Lemma rmod_range a b : 0 < b -> 0 <= rmod a b < b.
Proof.
  intros Hb. unfold rmod.
  pose proof (Zfloor_lb (a / b)) as H1. pose proof (Zfloor_ub (a / b)) as H2.
  assert (Ha : a = b * (a / b)) by (field; lra).
  split.
  - apply Rmult_le_compat_l with (r := b) in H1; lra.
  - apply Rmult_lt_compat_l with (r := b) in H2; lra.
Qed.

Lemma Zfloor_locally_const x :
  IZR (Zfloor x) <> x ->
  exists eps : posreal, forall y, Rabs (y - x) < eps -> Zfloor y = Zfloor x.
Proof.
  intros Hne.
  pose proof (Zfloor_lb x) as Hl. pose proof (Zfloor_ub x) as Hu.
  assert (Hl' : IZR (Zfloor x) < x) by lra.
  set (d := Rmin (x - IZR (Zfloor x)) (IZR (Zfloor x) + 1 - x)).
  assert (Hd : 0 < d) by (unfold d; apply Rmin_pos; lra).
  exists (mkposreal d Hd). simpl. intros y Hy.
  apply Zfloor_imp. rewrite plus_IZR. simpl (IZR 1).
  apply Rabs_lt_between' in Hy.
  assert (d <= x - IZR (Zfloor x)) by apply Rmin_l.
  assert (d <= IZR (Zfloor x) + 1 - x) by apply Rmin_r.
  lra.
Qed.

Lemma is_derive_rmod (f : R -> R) (c t0 df : R) :
  0 < c -> is_derive f t0 df -> rmod (f t0) c <> 0 ->
  is_derive (fun t => rmod (f t) c) t0 df.
Proof.
  intros Hc Hf Hne.
  assert (Hni : IZR (Zfloor (f t0 / c)) <> f t0 / c).
  { intros E. apply Hne. unfold rmod. rewrite E. field. lra. }
  destruct (Zfloor_locally_const _ Hni) as [eps Heps].
  (* continuity of t |-> f t / c at t0 *)
  assert (Hcont : continuous (fun t => f t / c) t0).
  { apply (ex_derive_continuous (K:=R_AbsRing) (V:=R_NormedModule) (fun t => f t / c)).
    exists (df * / c + f t0 * 0). unfold Rdiv.
    apply (Derive.is_derive_mult f (fun _ => / c)); auto.
    apply (is_derive_const (K:=R_AbsRing) (V:=R_NormedModule)). }
  apply is_derive_ext_loc with (f := fun t => f t - c * IZR (Zfloor (f t0 / c))).
  - specialize (Hcont (ball (f t0 / c) eps)).
    assert (Hloc : locally (f t0 / c) (ball (f t0 / c) eps)) by (exists eps; auto).
    specialize (Hcont Hloc). unfold filtermap in Hcont.
    destruct Hcont as [del Hdel]. exists del. intros t Ht.
    specialize (Hdel t Ht). unfold rmod. rewrite (Heps (f t / c)); auto.
  - replace df with (df - 0) by ring.
    apply (is_derive_minus (K:=R_AbsRing) (V:=R_NormedModule)); auto.
    apply (is_derive_const (K:=R_AbsRing) (V:=R_NormedModule)).
Qed.

Theorem evalD_sound f t0 env e :
  env_derives f t0 env -> okD env e ->
  evalR (envR f t0) e = fst (evalD env e) /\
  is_derive (fun t => evalR (envR f t) e) t0 (snd (evalD env e)).
Proof.
  intros Henv. induction e; simpl; intros Hok.
  - apply nth_env_derives; auto.
  - split; auto. apply (is_derive_const (K:=R_AbsRing) (V:=R_NormedModule)).
  - split; auto. apply (is_derive_const (K:=R_AbsRing) (V:=R_NormedModule)).
  - split; auto. apply (is_derive_const (K:=R_AbsRing) (V:=R_NormedModule)).
  - destruct Hok as [H1 H2]. destruct (IHe1 H1) as [V1 D1], (IHe2 H2) as [V2 D2].
    destruct (evalD env e1), (evalD env e2); simpl in *. split; [congruence|].
    apply (is_derive_plus (K:=R_AbsRing) (V:=R_NormedModule)); auto.
  - destruct Hok as [H1 H2]. destruct (IHe1 H1) as [V1 D1], (IHe2 H2) as [V2 D2].
    destruct (evalD env e1), (evalD env e2); simpl in *. split; [congruence|].
    apply (is_derive_minus (K:=R_AbsRing) (V:=R_NormedModule)); auto.
  - destruct Hok as [H1 H2]. destruct (IHe1 H1) as [V1 D1], (IHe2 H2) as [V2 D2].
    destruct (evalD env e1) as [x dx], (evalD env e2) as [y dy]; simpl in *. split; [congruence|].
    rewrite <- V1, <- V2. apply Derive.is_derive_mult; auto.
  - destruct Hok as [H1 [H2 H3]]. destruct (IHe1 H1) as [V1 D1], (IHe2 H2) as [V2 D2].
    destruct (evalD env e1) as [x dx], (evalD env e2) as [y dy]; simpl in *. split; [congruence|].
    rewrite <- V1, <- V2.
    replace (evalR (envR f t0) e2 * evalR (envR f t0) e2) with (evalR (envR f t0) e2 ^ 2) by ring.
    apply (is_derive_div (fun t => evalR (envR f t) e1) (fun t => evalR (envR f t) e2)); auto.
    rewrite V2; auto.
  - destruct (IHe Hok) as [V1 D1]. destruct (evalD env e) as [x dx]; simpl in *. split; [congruence|].
    apply (is_derive_opp (K:=R_AbsRing) (V:=R_NormedModule)); auto.
  - destruct (IHe Hok) as [V1 D1]. destruct (evalD env e) as [x dx]; simpl in *. split; [congruence|].
    replace (2 * x * dx) with (INR 2 * dx * (evalR (envR f t0) e) ^ pred 2) by (rewrite V1; simpl; ring).
    apply (is_derive_pow (fun t => evalR (envR f t) e) 2); auto.
  - destruct (IHe Hok) as [V1 D1]. destruct (evalD env e) as [x dx]; simpl in *. split; [congruence|].
    replace (cos x * dx) with (scal dx (cos (evalR (envR f t0) e))) by (rewrite V1; unfold scal; simpl; unfold mult; simpl; ring).
    apply (is_derive_comp sin (fun t => evalR (envR f t) e)); auto. apply is_derive_sin.
  - destruct (IHe Hok) as [V1 D1]. destruct (evalD env e) as [x dx]; simpl in *. split; [congruence|].
    replace (- sin x * dx) with (scal dx (- sin (evalR (envR f t0) e))) by (rewrite V1; unfold scal; simpl; unfold mult; simpl; ring).
    apply (is_derive_comp cos (fun t => evalR (envR f t) e)); auto. apply is_derive_cos.
  - destruct Hok as [Hok Hpos]. destruct (IHe Hok) as [V1 D1]. destruct (evalD env e) as [x dx]; simpl in *. split; [congruence|].
    rewrite <- V1. apply (is_derive_sqrt (fun t => evalR (envR f t) e)); auto. rewrite V1; auto.
  - destruct Hok as [H1 [Hc [Hpos Hne]]]. destruct (IHe1 H1) as [V1 D1].
    assert (V2 : forall t, evalR (envR f t) e2 = fst (evalD env e2)).
    { intros t. clear - Hc Henv. revert Hc. induction e2; simpl; intros Hc; try discriminate; auto;
        try (apply andb_prop in Hc; destruct Hc as [Hc1 Hc2]; specialize (IHe2_1 Hc1); specialize (IHe2_2 Hc2);
             destruct (evalD env e2_1), (evalD env e2_2); simpl in *; congruence);
        try (specialize (IHe2 Hc); destruct (evalD env e2); simpl in *; congruence). }
    destruct (evalD env e1) as [x dx], (evalD env e2) as [y dy]; simpl in *. split.
    + rewrite V1, V2. reflexivity.
    + apply is_derive_ext with (f := fun t => rmod (evalR (envR f t) e1) y).
      * intros t. rewrite V2. reflexivity.
      * apply is_derive_rmod; auto. rewrite V1. exact Hne.
Qed.

(* the first component of the dual evaluation is the plain evaluation *)
Lemma evalD_fst env e : fst (evalD env e) = evalR (map fst env) e.
Proof.
  induction e; simpl; try (destruct (evalD env e1), (evalD env e2); simpl in *; congruence);
  try (destruct (evalD env e); simpl in *; congruence); auto.
  rewrite <- (map_nth fst). reflexivity.
Qed.

Lemma poly_ok env e : poly e = true -> okD env e.
Proof.
  induction e; simpl; intros H; auto; try (apply andb_prop in H; destruct H; split; auto); discriminate.
Qed.
