(* Prog.v — the pose-level intermediate form into which tools/tr_edges.py translates the edge methods
   calc_error / calc_jacobians: a list of STAGES, each one call of a translated pose method on
   earlier stage outputs or on the edge's inputs (In 0 = vertices[0].pose, In 1 = vertices[1].pose,
   In 2 = estimate, In 3 = offset), plus, for Jacobians, np.dot products of matrix-valued stages.
   The evaluator is generic in the scalar type, so the same generated program has a real, a
   dual-number and a floating-point meaning.  Hand-written, stable; no Reals here. *)
From Coq Require Import List.
From GS Require Import Expr Meth.
Import ListNotations.

Inductive src := In (i : nat) | St (j : nat).
Record stage := mkstage { st_meth : meth; st_args : list src }.
Inductive mexpr := MSt (j : nat) | MDot (a b : mexpr).
Record prog := mkprog { p_stages : list stage; p_out : src }.
Record jprog := mkjprog { j_stages : list stage; j_out : list mexpr }.

Section Eval.
Variable T : Type.
Variables (zero : T) (add mul : T -> T -> T) (ev : list T -> expr -> T).
Inductive value := VVec (v : list T) | VMat (m : list (list T)) | VErr.
Definition as_vec (v : value) : list T := match v with VVec l => l | _ => [] end.
Definition as_mat (v : value) : list (list T) := match v with VMat m => m | _ => [] end.
Definition lookup (ins : list (list T)) (outs : list value) (s : src) : list T :=
  match s with In i => nth i ins [] | St j => as_vec (nth j outs VErr) end.
Definition eval_stage (ins : list (list T)) (outs : list value) (s : stage) : value :=
  let env := flat_map (lookup ins outs) (st_args s) in
  match st_meth s with
  | [([], RVec _ v)] => VVec (map (ev env) v)
  | [([], RMat m)] => VMat (map (map (ev env)) m)
  | _ => VErr
  end.
Fixpoint eval_stages (ins : list (list T)) (outs : list value) (ss : list stage) : list value :=
  match ss with
  | [] => outs
  | s :: r => eval_stages ins (outs ++ [eval_stage ins outs s]) r
  end.
Definition run_prog (ins : list (list T)) (p : prog) : list T :=
  lookup ins (eval_stages ins [] (p_stages p)) (p_out p).

Definition vaddT (a b : list T) : list T := map (fun p => add (fst p) (snd p)) (combine a b).
Definition vscaleT (c : T) (a : list T) : list T := map (fun x => mul c x) a.
Definition vecmatT (r : list T) (b : list (list T)) : list T :=
  fold_right (fun cr acc => vaddT (vscaleT (fst cr) (snd cr)) acc) (repeat zero (length (hd [] b))) (combine r b).
Definition mmulT (a b : list (list T)) : list (list T) := map (fun r => vecmatT r b) a.
Fixpoint eval_mexpr (outs : list value) (e : mexpr) : list (list T) :=
  match e with
  | MSt j => as_mat (nth j outs VErr)
  | MDot a b => mmulT (eval_mexpr outs a) (eval_mexpr outs b)
  end.
Definition run_jprog (ins : list (list T)) (j : jprog) : list (list (list T)) :=
  let outs := eval_stages ins [] (j_stages j) in map (eval_mexpr outs) (j_out j).
End Eval.
Arguments VVec {T}. Arguments VMat {T}. Arguments VErr {T}.

(* structural well-formedness that the translator is expected to satisfy (checked by computation) *)
Definition stage_supported (s : stage) : bool :=
  match st_meth s with [([], RVec _ _)] | [([], RMat _)] => true | _ => false end.
