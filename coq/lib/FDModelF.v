(* FDModelF.v — IEEE binary64 instance of lib/FDModel.v, used ONLY by the correspondence check
   tools/corr_fd.py (never under a property theorem).  A pose is its class tag and the numbers it
   stores; copy() and `pose += delta` are the definitions REGENERATED from graphslam/pose/*.py
   (gen/Gen*.v: X_copy, X_iadd (KArr n)), COMPACT_DIMENSIONALITY is the generated X_compact; the
   error function is a vector of expressions over the concatenated pose arrays of the edge's
   vertices followed by the edge's parameters (estimate).  sin/cos come from the lookup table the
   harness fills (lib/ExprF.v).  No proofs. *)
From Coq Require Import ZArith List Floats.PrimFloat Floats.FloatOps Floats.SpecFloat.
From GS Require Import Expr Meth ExprF GraphModel FDModel GenR2 GenR3 GenSE2 GenSE3.
Import ListNotations.
Open Scope float_scope.

Definition poseF := (kind * list float)%type.
Definition bad_pose : poseF := (KNone, []).

(* value of a translated method: first path whose comparisons hold; anything but a vector is "bad" *)
Fixpoint eval_meth (t : trig_table) (env : list float) (m : meth) : poseF :=
  match m with
  | [] => bad_pose
  | (gs, r) :: rest =>
      if forallb (guardF t env) gs
      then match r with RVec k v => (k, map (evalF t env) v) | _ => bad_pose end
      else eval_meth t env rest
  end.

Definition copyF (t : trig_table) (p : poseF) : poseF :=
  match fst p with
  | KR2 => eval_meth t (snd p) R2_copy
  | KR3 => eval_meth t (snd p) R3_copy
  | KSE2 => eval_meth t (snd p) SE2_copy
  | KSE3 => eval_meth t (snd p) SE3_copy
  | _ => bad_pose
  end.
Definition boxplusF (t : trig_table) (p : poseF) (d : list float) : poseF :=
  let env := (snd p ++ d)%list in
  match fst p with
  | KR2 => eval_meth t env (R2_iadd (KArr (length d)))
  | KR3 => eval_meth t env (R3_iadd (KArr (length d)))
  | KSE2 => eval_meth t env (SE2_iadd (KArr (length d)))
  | KSE3 => eval_meth t env (SE3_iadd (KArr (length d)))
  | _ => bad_pose
  end.
Definition dimF (p : poseF) : nat :=
  match fst p with KR2 => R2_compact | KR3 => R3_compact | KSE2 => SE2_compact | KSE3 => SE3_compact | _ => O end.
Definition errF (t : trig_table) (es : list expr) (params : list float) (s : list poseF) : list float :=
  map (evalF t (flat_map snd s ++ params)%list) es.

Definition calc_jacobiansF (t : trig_table) (h : float) (es : list expr) (params : list float) (s : list poseF) :=
  calc_jacobians float poseF 0 PrimFloat.sub PrimFloat.div h (copyF t) (boxplusF t) (errF t es params) dimF s.

(* dump:  MAGIC, len err0, err0..., #vertices, then per vertex: #columns, per column: #rows, entries...;
   then per final pose: kind_code, length, entries... *)
Definition dump_list (l : list float) : list Z := (Z.of_nat (length l) :: flat_map dumpF l)%list.
Definition dump_case (t : trig_table) (h : float) (es : list expr) (params : list float) (s : list poseF) : list Z :=
  let r := calc_jacobiansF t h es params s in
  (MAGIC :: dump_list (errF t es params s)
   ++ Z.of_nat (length (fst r)) :: flat_map (fun J => Z.of_nat (length J) :: flat_map dump_list J) (fst r)
   ++ flat_map (fun p => kind_code (fst p) :: dump_list (snd p)) (snd r))%list.
