(* ProgF.v — floating-point (and absolute-value majorant) meaning of the generated edge programs;
   used only by the correspondence checks. *)
From Coq Require Import ZArith List Floats.PrimFloat.
From GS Require Import Expr Meth ExprF Prog.
Import ListNotations.
Open Scope float_scope.

Definition run_progF (t : trig_table) (ins : list (list float)) (p : prog) : list float :=
  run_prog float (evalF t) ins p.
(* the majorant of a stage output is computed from the VALUES of its inputs (evalM takes |x| itself) *)
Definition eval_stageM (t : trig_table) (ins : list (list float)) (outs : list (@value float)) (s : stage) : @value float :=
  let env := flat_map (lookup float ins outs) (st_args s) in
  match st_meth s with
  | [([], RVec _ v)] => VVec (map (evalM t env) v)
  | [([], RMat m)] => VMat (map (map (evalM t env)) m)
  | _ => VErr
  end.
(* values and majorants of all stages, in lock step *)
Fixpoint eval_stagesFM t ins (outs outsM : list (@value float)) (ss : list stage) :=
  match ss with
  | [] => (outs, outsM)
  | s :: r => eval_stagesFM t ins (outs ++ [eval_stage float (evalF t) ins outs s]) (outsM ++ [eval_stageM t ins outs s]) r
  end.
Definition dump_vecFM (v m : list float) : list Z :=
  flat_map (fun p => dumpF (fst p) ++ dumpF (snd p)) (combine v m).
(* error program: MAGIC 0 (kind code 0) n quadruples *)
Definition dump_prog t ins (p : prog) : list Z :=
  let '(o, oM) := eval_stagesFM t ins [] [] (p_stages p) in
  let v := lookup float ins o (p_out p) in
  let m := match p_out p with In _ => map abs v | St j => as_vec float (nth j oM VErr) end in
  [MAGIC; 0; 0; Z.of_nat (length v)]%Z ++ dump_vecFM v m.
(* Jacobian program: one MAGIC 1 rows cols ... record per returned matrix *)
Definition dump_jprog t ins (j : jprog) : list Z :=
  let '(o, oM) := eval_stagesFM t ins [] [] (j_stages j) in
  flat_map (fun e =>
     let v := eval_mexpr float 0 PrimFloat.add PrimFloat.mul o e in
     let m := eval_mexpr float 0 PrimFloat.add PrimFloat.mul oM e in
     [MAGIC; 1; Z.of_nat (length v); Z.of_nat (length (hd [] v))]%Z ++ dump_vecFM (concat v) (concat m)) (j_out j).
