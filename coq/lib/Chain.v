(* Chain.v — real-number meaning of the generated edge programs and the chain-rule machinery used
   for C01: a composition of translated pose methods, each with a proved tangent identity, is
   differentiated stage by stage with the per-stage Jacobians kept as opaque matrices. *)
From Coq Require Import Reals List Lra ZArith Lia.
From Coquelicot Require Import Coquelicot.
From GS Require Import ExprR LinAlg Jac Meth Prog.
Import ListNotations.
Open Scope R_scope.

Definition run_progR (ins : list (list R)) (p : prog) : list R := run_prog R evalR ins p.
Definition run_jprogR (ins : list (list R)) (j : jprog) : list (list (list R)) := run_jprog R 0 Rplus Rmult evalR ins j.

Lemma mmulT_R a b : mmulT R 0 Rplus Rmult a b = mmul a b.
Proof. reflexivity. Qed.

(* environments of functions *)
Lemma envR_app f g t : envR (f ++ g) t = envR f t ++ envR g t.
Proof. unfold envR. apply map_app. Qed.
Lemma envR_cst v t : envR (cst v) t = v.
Proof. unfold envR, cst. rewrite map_map. apply map_id. Qed.
Lemma envR_stage g op t : envR (map (fun e t => evalR (envR g t) e) op) t = evl (envR g t) op.
Proof. unfold envR, evl. rewrite map_map. reflexivity. Qed.

Lemma combine_app {A B} (a1 a2 : list A) (b1 b2 : list B) :
  length a1 = length b1 -> combine (a1 ++ a2) (b1 ++ b2) = combine a1 b1 ++ combine a2 b2.
Proof. revert b1. induction a1; destruct b1; simpl; intros; try discriminate; auto. f_equal; auto. Qed.
Lemma cstD_combine v : cstD v = combine v (zeros (length v)).
Proof. induction v; simpl; auto. unfold cstD in *. simpl. f_equal. exact IHv. Qed.

(* one stage of a chain: the operand block v (with tangent w) sits between constant blocks A and B *)
Lemma chain_stage f t0 (A B v w : list R) op J n off d :
  env_derives f t0 (combine v w) -> length v = d -> length w = d -> length A = off -> n = (off + d + length B)%nat ->
  tangent_ok op J n off d ->
  List.Forall (okD (combine (A ++ v ++ B) (dir n off w))) op ->
  env_derives (map (fun e t => evalR (envR (cst A ++ f ++ cst B) t) e) op) t0
              (combine (evl (A ++ v ++ B) op) (matvec (evm (A ++ v ++ B) J) w)).
Proof.
  intros Hf Hv Hw HA Hn Ht Hok.
  assert (Henv : env_derives (cst A ++ f ++ cst B) t0 (combine (A ++ v ++ B) (dir n off w))).
  { unfold dir. rewrite Hw. replace (n - off - d)%nat with (length B) by lia.
    rewrite combine_app by (unfold zeros; rewrite repeat_length; auto).
    rewrite combine_app by lia.
    apply env_derives_app; [|apply env_derives_app].
    - rewrite <- HA, <- cstD_combine. apply env_derives_const.
    - exact Hf.
    - rewrite <- cstD_combine. apply env_derives_const. }
  pose proof (stage_derives _ _ _ op Henv Hok) as Hs.
  assert (E : map (evalD (combine (A ++ v ++ B) (dir n off w))) op
            = combine (evl (A ++ v ++ B) op) (matvec (evm (A ++ v ++ B) J) w)).
  { rewrite (split_combine (map _ op)). f_equal.
    - rewrite map_fst_evalD. unfold evl. rewrite map_fst_combine; [reflexivity|].
      unfold dir. rewrite !app_length. unfold zeros. rewrite !repeat_length. lia.
    - apply (Ht (A ++ v ++ B) w); auto. rewrite !app_length. lia. }
  rewrite <- E. exact Hs.
Qed.

(* a projection stage (to_compact / to_array): keeps a prefix of the components *)
Lemma env_derives_firstn f t0 d k : env_derives f t0 d -> env_derives (firstn k f) t0 (firstn k d).
Proof. intros H. revert k. induction H as [|g p f d Hgp Hrest IH]; intros [|k]; simpl; try constructor; auto. apply IH. Qed.
Lemma firstn_map_envR k f t : firstn k (envR f t) = envR (firstn k f) t.
Proof. unfold envR. apply firstn_map. Qed.
Lemma firstn_combine {A B} k (a : list A) (b : list B) : firstn k (combine a b) = combine (firstn k a) (firstn k b).
Proof. revert a b. induction k; intros [|x a] [|y b]; simpl; auto. f_equal; auto. Qed.
Lemma firstn_matvec k m u : firstn k (matvec m u) = matvec (firstn k m) u.
Proof. unfold matvec. apply firstn_map. Qed.

(* from env_derives to the statement form used by the property theorems *)
Lemma nth_combine_snd (v w : list R) i : length v = length w -> snd (nth i (combine v w) (0, 0)) = nth i w 0.
Proof.
  revert w i. induction v as [|a v IH]; intros [|b w] i H; simpl in *; try discriminate.
  - destruct i; reflexivity.
  - destruct i; simpl; auto.
Qed.
Lemma derives_components f t0 (v w : list R) :
  env_derives f t0 (combine v w) -> length v = length w ->
  forall i, is_derive (fun t => nth i (envR f t) 0) t0 (nth i w 0).
Proof.
  intros H Hl i. destruct (nth_env_derives f t0 (combine v w) i H) as [_ D].
  rewrite nth_combine_snd in D; auto.
Qed.

(* ---- smoothness side conditions depend only on the point, not on the tangent ---- *)
Lemma okD_fst env env' e : map fst env = map fst env' -> okD env e -> okD env' e.
Proof.
  intros E. induction e; simpl; auto; try tauto.
  - intros (H1 & H2 & H3). repeat split; auto. rewrite evalD_fst in *. rewrite <- E. exact H3.
  - intros (H1 & H2). split; auto. rewrite evalD_fst in *. rewrite <- E. exact H2.
  - intros (H1 & H2 & H3 & H4). repeat split; auto; rewrite !evalD_fst in *; rewrite <- E; auto.
Qed.
Definition smooth_at (vals : list R) (op : list expr) : Prop := List.Forall (okD (cstD vals)) op.
Lemma smooth_at_okD vals U op : length vals = length U -> smooth_at vals op -> List.Forall (okD (combine vals U)) op.
Proof.
  intros Hl Hs. unfold smooth_at in Hs. eapply Forall_impl; [|exact Hs].
  intros e He. eapply okD_fst; [|exact He]. rewrite map_fst_cstD, map_fst_combine; auto.
Qed.
Lemma smooth_poly vals op : forallb poly op = true -> smooth_at vals op.
Proof. intros H. apply poly_all; auto. Qed.
Lemma length_dir n off u : (off + length u <= n)%nat -> length (dir n off u) = n.
Proof. intros H. unfold dir, zeros. rewrite !app_length, !repeat_length. lia. Qed.

(* the two common special cases, stated without the empty block *)
Lemma chain_stage_last f t0 (A v w : list R) op J n off d :
  env_derives f t0 (combine v w) -> length v = d -> length w = d -> length A = off -> n = (off + d)%nat ->
  tangent_ok op J n off d ->
  smooth_at (A ++ v) op ->
  env_derives (map (fun e t => evalR (envR (cst A ++ f) t) e) op) t0
              (combine (evl (A ++ v) op) (matvec (evm (A ++ v) J) w)).
Proof.
  intros Hf Hv Hw HA Hn Ht Hs.
  pose proof (chain_stage f t0 A [] v w op J n off d Hf Hv Hw HA ltac:(simpl; lia) Ht) as H.
  rewrite !app_nil_r in H. apply H. apply smooth_at_okD; auto.
  rewrite length_dir; rewrite ?app_length; lia.
Qed.
Lemma chain_stage_first f t0 (B v w : list R) op J n d :
  env_derives f t0 (combine v w) -> length v = d -> length w = d -> n = (d + length B)%nat ->
  tangent_ok op J n 0 d ->
  smooth_at (v ++ B) op ->
  env_derives (map (fun e t => evalR (envR (f ++ cst B) t) e) op) t0
              (combine (evl (v ++ B) op) (matvec (evm (v ++ B) J) w)).
Proof.
  intros Hf Hv Hw Hn Ht Hs.
  pose proof (chain_stage f t0 [] B v w op J n 0 d Hf Hv Hw eq_refl ltac:(simpl; lia) Ht) as H.
  cbn [app] in H. apply H. apply smooth_at_okD; auto.
  rewrite length_dir; rewrite ?app_length; lia.
Qed.
