(* GNSpec.v — the Gauss-Newton normal equations written INDEPENDENTLY of the code's dictionaries:
   for vertex positions k, l (block offsets gi k, gi l), with J_{e,s} the Jacobian of edge e w.r.t. its
   slot s, Omega_e its information and err_e its error,
        b_k    = sum_e sum_{s : slot_e(s) = k}              (err_e^T Omega_e J_{e,s})^T
        H_{kl} = sum_e sum_{s,t : slot_e(s) = k, slot_e(t) = l}  J_{e,s}^T Omega_e J_{e,t}
   and for a fixed vertex k:  b_k = 0, H_kk = I, H_kl = H_lk = 0.
   Stated pointwise on the flat gradient vector / Hessian matrix.  Definitions only. *)
From Coq Require Import Reals List Arith Bool.
From GS Require Import GraphModel.
Import ListNotations.
Open Scope R_scope.

Notation Rmat := (mat R).
Notation Rvec := (vec R).
Notation Redge := (edge R).
Notation sumnR := (sumn R 0 Rplus).
Notation mdotR := (mdot R 0 Rplus Rmult).
Notation mtrR := (mtr R).
Notation vdotmR := (vdotm R 0 Rplus Rmult).

Definition sumlist {A} (l : list A) (f : A -> R) : R := fold_right (fun x acc => f x + acc) 0 l.
Definition ind (b : bool) : R := if b then 1 else 0.

(* position of flat index r: (vertex position, offset inside its block) *)
Fixpoint locate (vs : list vertex) (r : nat) : option (nat * nat) :=
  match vs with
  | [] => None
  | v :: rest => if Nat.ltb r (v_dim v) then Some (O, r)
                 else match locate rest (r - v_dim v) with Some (k, i) => Some (S k, i) | None => None end
  end.

Definition Cblock (e : Redge) (s t : nat) : Rmat := mdotR (mdotR (mtrR (jac_at R 0 e s)) (e_om R e)) (jac_at R 0 e t).
Definition gblock (e : Redge) (s : nat) : Rvec := vdotmR (vdotmR (e_err R e) (e_om R e)) (jac_at R 0 e s).

Definition spec_b (vs : list vertex) (es : list Redge) (r : nat) : R :=
  match locate vs r with
  | Some (k, i) =>
      if fixed_at vs k then 0
      else sumlist es (fun e => sumnR (length (e_slots R e)) (fun s => ind (Nat.eqb (slot_at R e s) k) * snd (gblock e s) i))
  | None => 0
  end.
Definition spec_H (vs : list vertex) (es : list Redge) (r c : nat) : R :=
  match locate vs r, locate vs c with
  | Some (k, i), Some (l, j) =>
      if orb (fixed_at vs k) (fixed_at vs l) then ind (Nat.eqb r c)
      else sumlist es (fun e =>
             sumnR (length (e_slots R e)) (fun s =>
               sumnR (length (e_slots R e)) (fun t =>
                 ind (Nat.eqb (slot_at R e s) k) * ind (Nat.eqb (slot_at R e t) l) * ent R (Cblock e s t) i j)))
  | _, _ => 0
  end.
Definition spec_chi2 (es : list Redge) : R := sumlist es (fun e => edge_chi2 R 0 Rplus Rmult e).

(* well-formed graphs: positive dimensions; per edge: as many Jacobians as slots, slots distinct and in
   range, Omega square of the error's length and SYMMETRIC, Jacobian shapes conform *)
Definition wf_edge (vs : list vertex) (e : Redge) : Prop :=
  length (e_jac R e) = length (e_slots R e) /\
  NoDup (e_slots R e) /\
  List.Forall (fun k => (k < length vs)%nat) (e_slots R e) /\
  rows R (e_om R e) = fst (e_err R e) /\ cols R (e_om R e) = fst (e_err R e) /\
  (forall a b, ent R (e_om R e) a b = ent R (e_om R e) b a) /\
  (forall s, (s < length (e_slots R e))%nat ->
      rows R (jac_at R 0 e s) = fst (e_err R e) /\ cols R (jac_at R 0 e s) = dim_at vs (slot_at R e s)).
Definition wf_graph (vs : list vertex) (es : list Redge) : Prop :=
  List.Forall (fun v => (0 < v_dim v)%nat) vs /\ List.Forall (wf_edge vs) es.

Definition assembly_statement : Prop :=
  forall vs es, wf_graph vs es ->
    (forall r, (r < glen vs)%nat -> assemble_gradient R 0 Rplus Rmult vs es r = spec_b vs es r) /\
    (forall r c, (r < glen vs)%nat -> (c < glen vs)%nat -> assemble_hessian R 0 1 Rplus Rmult vs es r c = spec_H vs es r c) /\
    assemble_chi2 R 0 Rplus Rmult vs es = spec_chi2 es.

(* ---- vocabulary shared by C04 / C06 / C08 ---- *)
Definition is_fixed_index (vs : list vertex) (r : nat) : bool :=
  match locate vs r with Some (k, _) => fixed_at vs k | None => false end.
(* the normal equations  H dx = -b  on the flat system of size N *)
Definition solves (N : nat) (H : nat -> nat -> R) (b dx : nat -> R) : Prop :=
  forall r, (r < N)%nat -> sumnR N (fun c => H r c * dx c) = - b r.
