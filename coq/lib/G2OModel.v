(* G2OModel.v -- executable model of the .g2o writer and reader of python-graphslam
   (graphslam/graph.py Graph.to_g2o / Graph.from_g2o, vertex.py, edge/edge_odometry.py,
   edge/edge_landmark.py, edge/base_edge.py, g2o_parameters.py, util.py
   upper_triangular_matrix_to_full_matrix).  Hand-written; tied to the code by the correspondence
   tools/corr_g2o.py (DESIGN 4.4).  NO PROOFS in this file.

   Numbers are opaque atoms of a type [num]; Python's str()/float()/int(), neg_pi_to_pi and
   PoseSE3.normalize are Section variables (the theorems in proofs/C13_*.v, C14_*.v state what they
   assume about them).  Text is real text: a file is the list of strings [readlines()] returns,
   dispatch is [line.startswith("TAG ")], fields are [line[len("TAG "):].split()].

   What is NOT modelled (assumptions, restated in the evidence files):
   * Vertex.fixed (never written, reader sets False); object identity (the offset of an imported SE(3)
     landmark edge IS the parameter's pose object);
   * arrays whose length differs from the pose type's length (PoseR2/PoseR3 accept any length) and
     information matrices that are not float64 n x n -- [wf] in the proofs excludes them;
   * lines of the right tag but the wrong number of fields: the model answers [Error EMalformed],
     meaning "outside the well-formed fragment, no claim" (the code raises IndexError/ValueError or,
     for some counts, silently accepts);
   * non-ASCII whitespace (U+0085, U+00A0, ...): files are ASCII;
   * custom edge types are the tag-prefix kind of tests/edge_types.py: ids, estimate numbers, upper
     triangle; to_g2o either writes that line or returns None (BaseEdge default). *)
From Coq Require Import List ZArith String Ascii Bool Arith.
Import ListNotations.
Open Scope string_scope.
Open Scope list_scope.
Open Scope nat_scope.

(* ------------------------------------------------------------------------------------------ *)
(* kinds, errors *)
Inductive kind := KR2 | KR3 | KSE2 | KSE3.
Definition kind_eqb (a b : kind) : bool :=
  match a, b with KR2, KR2 | KR3, KR3 | KSE2, KSE2 | KSE3, KSE3 => true | _, _ => false end.
Definition dimk (k : kind) : nat := match k with KR2 => 2 | KR3 => 3 | KSE2 => 3 | KSE3 => 7 end.   (* len(pose) *)
Definition cdim (k : kind) : nat := match k with KR2 => 2 | KR3 => 3 | KSE2 => 3 | KSE3 => 6 end.   (* COMPACT_DIMENSIONALITY *)

Inductive pkind := PSE2 | PSE3.
Definition pkind_eqb (a b : pkind) : bool := match a, b with PSE2, PSE2 | PSE3, PSE3 => true | _, _ => false end.

Inductive err :=
| ENotImplemented   (* NotImplementedError raised by an edge's to_g2o *)
| EValue            (* ValueError: Graph.to_g2o (offset_id None / conflicting offsets); float()/int() of a bad token *)
| EKey              (* KeyError: offset parameter not (yet) defined; edge names a vertex id that does not exist *)
| EAssert           (* AssertionError "Not all edges are valid" in Graph.__init__ *)
| EMalformed.       (* wrong number of fields for the tag: outside the modelled fragment *)
Inductive result (A : Type) := Ok (a : A) | Error (e : err).
Arguments Ok {A} a.
Arguments Error {A} e.

(* ------------------------------------------------------------------------------------------ *)
(* text *)
Definition nl : string := String (ascii_of_nat 10) "".
(* the ASCII characters str.split() / str.strip() treat as whitespace: \t \n \v \f \r, 0x1c-0x1f, space *)
Definition is_ws (c : ascii) : bool :=
  let n := nat_of_ascii c in ((9 <=? n) && (n <=? 13)) || ((28 <=? n) && (n <=? 32)).
(* line.strip() == "" *)
Fixpoint blank (s : string) : bool :=
  match s with "" => true | String c r => is_ws c && blank r end.
(* s.split(): maximal runs of non-whitespace; [cur] is the token being accumulated *)
Fixpoint toks (cur : string) (s : string) : list string :=
  match s with
  | "" => match cur with "" => [] | _ => [cur] end
  | String c r =>
      if is_ws c then match cur with "" => toks "" r | _ => cur :: toks "" r end
      else toks (cur ++ String c "")%string r
  end.
Definition split_ws (s : string) : list string := toks "" s.
Fixpoint drop (n : nat) (s : string) : string :=
  match n, s with 0, _ => s | S m, String _ r => drop m r | S _, "" => "" end.
(* s.startswith(p) *)
Fixpoint starts_with (p s : string) : bool :=
  match p with
  | "" => true
  | String a p' => match s with "" => false | String b s' => Ascii.eqb a b && starts_with p' s' end
  end.
(* if line.startswith(TAG + " "): f(line[len(TAG + " "):].split()) *)
Definition try_tag {A : Type} (t : string) (s : string) (f : list string -> A) : option A :=
  if starts_with (t ++ " ")%string s then Some (f (split_ws (drop (String.length (t ++ " ")%string) s))) else None.

Fixpoint join_sp (ts : list string) : string :=
  match ts with [] => "" | t :: r => match r with [] => t | _ => (t ++ " " ++ join_sp r)%string end end.
Definition line := (string * list string)%type.
(* "TAG {} {} ...\n".format(...) *)
Definition render (l : line) : string := (fst l ++ " " ++ join_sp (snd l) ++ nl)%string.

Definition vtag (k : kind) : string :=
  match k with KR2 => "VERTEX_XY" | KR3 => "VERTEX_TRACKXYZ" | KSE2 => "VERTEX_SE2" | KSE3 => "VERTEX_SE3:QUAT" end.
Definition ptag (p : pkind) : string := match p with PSE2 => "PARAMS_SE2OFFSET" | PSE3 => "PARAMS_SE3OFFSET" end.
Definition tag_odo_se2 := "EDGE_SE2".
Definition tag_odo_se3 := "EDGE_SE3:QUAT".
Definition tag_lmk_se2 := "EDGE_SE2_XY".
Definition tag_lmk_se3 := "EDGE_SE3_TRACKXYZ".
Definition builtin_tags : list string :=
  [vtag KR2; vtag KR3; vtag KSE2; vtag KSE3; tag_odo_se2; tag_odo_se3; tag_lmk_se2; tag_lmk_se3; ptag PSE2; ptag PSE3].

(* custom edge types (tests/edge_types.py): line = TAG ids... estimate... upper-triangle... *)
Record ctype := mkCT { ct_tag : string; ct_nids : nat; ct_nest : nat; ct_dim : nat;
                       ct_writes : bool;    (* to_g2o overridden (else BaseEdge.to_g2o returns None) *)
                       ct_reads : bool }.   (* from_g2o overridden (else BaseEdge.from_g2o returns None) *)

(* ------------------------------------------------------------------------------------------ *)
(* triangular packing: information[np.triu_indices(n)] (row-major, j >= i) and
   upper_triangular_matrix_to_full_matrix *)
Section Mat.
  Context {A : Type}.
  Fixpoint pack_from (i : nat) (M : list (list A)) : list A :=
    match M with [] => [] | r :: rest => skipn i r ++ pack_from (S i) rest end.
  Definition pack (M : list (list A)) : list A := pack_from 0 M.
  Fixpoint zipcons (c : list A) (M : list (list A)) : list (list A) :=
    match c, M with x :: c', r :: M' => (x :: r) :: zipcons c' M' | _, _ => [] end.
  (* first row = first n entries; first column = the same entries; the rest recursively *)
  Fixpoint unpack (n : nat) (l : list A) : list (list A) :=
    match n with
    | 0 => []
    | S m => let r := firstn (S m) l in r :: zipcons (tl r) (unpack m (skipn (S m) l))
    end.
  (* position of entry (i,j), i <= j, in the packed upper triangle of an n x n matrix *)
  Fixpoint tri_idx (n i j : nat) : nat :=
    match n, i, j with
    | S m, 0, _ => j
    | S m, S i', S j' => S m + tri_idx m i' j'
    | _, _, _ => 0
    end.
End Mat.
Fixpoint tri (n : nat) : nat := match n with 0 => 0 | S m => S m + tri m end.   (* n(n+1)/2 *)

(* ------------------------------------------------------------------------------------------ *)
Section G2O.
  Variable num : Type.
  Variable print : num -> string.            (* "{}".format(x) / str(x) of a float64 *)
  Variable parse : string -> option num.     (* float(tok); None = ValueError *)
  Variable print_id : Z -> string.           (* "{}".format(i) of an int *)
  Variable parse_id : string -> option Z.    (* int(tok); None = ValueError *)
  Variable wrap : num -> num.                (* util.neg_pi_to_pi, applied by PoseSE2.__new__ *)
  Variable normq : list num -> list num.     (* PoseSE3.normalize() on the 4 quaternion entries *)
  Variable zero : num.                       (* the entries of PoseSE2.identity() *)
  Variable eq0 : num -> bool.                (* x == 0.0 *)
  Variable eqn : num -> num -> bool.         (* x == y (np.array_equal, elementwise) *)

  Record vertex := mkV { v_id : Z; v_kind : kind; v_val : list num }.
  Inductive edge :=
  | EOdo (k : kind) (i j : Z) (est : list num) (info : list (list num))
      (* EdgeOdometry; k = type of the estimate *)
  | ELmk (ko ke : kind) (i j : Z) (est : list num) (info : list (list num)) (off : list num) (oid : option Z)
      (* EdgeLandmark; ko = type of the offset, ke = type of the estimate *)
  | ECus (ct : ctype) (ids : list Z) (est : list num) (info : list (list num)).
  Definition pkey := (pkind * Z)%type.
  Definition params := list (pkey * list num).     (* dict in insertion order *)
  Record graph := mkG { g_params : params; g_verts : list vertex; g_edges : list edge }.

  (* ---------------- dictionaries ---------------- *)
  Definition pkey_eqb (a b : pkey) : bool := pkind_eqb (fst a) (fst b) && (snd a =? snd b)%Z.
  Fixpoint plookup (ps : params) (k : pkey) : option (list num) :=
    match ps with [] => None | (k', v) :: r => if pkey_eqb k' k then Some v else plookup r k end.
  (* d[k] = v : an existing key keeps its position *)
  Fixpoint pset (ps : params) (k : pkey) (v : list num) : params :=
    match ps with
    | [] => [(k, v)]
    | (k', v') :: r => if pkey_eqb k' k then (k', v) :: r else (k', v') :: pset r k v
    end.
  (* id_index_dict = {v.id: i ...}: the LAST vertex with that id wins *)
  Fixpoint vkind (vs : list vertex) (i : Z) : option kind :=
    match vs with
    | [] => None
    | v :: r => match vkind r i with Some k => Some k | None => if (v_id v =? i)%Z then Some (v_kind v) else None end
    end.

  (* ---------------- Graph.__init__ : binding by id, "Not all edges are valid" ---------------- *)
  Definition edge_ids (e : edge) : list Z :=
    match e with EOdo _ i j _ _ => [i; j] | ELmk _ _ i j _ _ _ _ => [i; j] | ECus _ ids _ _ => ids end.
  Definition square (n : nat) (M : list (list num)) : bool :=
    (List.length M =? n) && forallb (fun r => List.length r =? n) M.
  Definition lmk_pair (k0 k1 : kind) : bool :=
    match k0, k1 with KSE2, KR2 | KSE3, KR3 | KR2, KR2 | KR3, KR3 => true | _, _ => false end.
  Definition edge_valid (vs : list vertex) (e : edge) : bool :=
    match e with
    | EOdo k i j _ info =>
        match vkind vs i, vkind vs j with
        | Some k0, Some k1 => kind_eqb k1 k0 && kind_eqb k k0 && square (cdim k0) info
        | _, _ => false
        end
    | ELmk ko ke i j _ info _ _ =>
        match vkind vs i, vkind vs j with
        | Some k0, Some k1 => kind_eqb ko k0 && kind_eqb ke k1 && lmk_pair k0 k1 && square (cdim k1) info
        | _, _ => false
        end
    | ECus _ _ _ _ => true
    end.
  Definition has_vertex (vs : list vertex) (i : Z) : bool := match vkind vs i with Some _ => true | None => false end.
  Definition check_graph (vs : list vertex) (es : list edge) : result unit :=
    if forallb (fun e => forallb (has_vertex vs) (edge_ids e)) es then
      if forallb (edge_valid vs) es then Ok tt else Error EAssert
    else Error EKey.

  (* ---------------- export : Graph.to_g2o ---------------- *)
  Definition vertex_line (v : vertex) : line := (vtag (v_kind v), print_id (v_id v) :: map print (v_val v)).
  Definition param_line (p : pkey * list num) : line := (ptag (fst (fst p)), print_id (snd (fst p)) :: map print (snd p)).

  Definition list_eqn (a b : list num) : bool :=
    (List.length a =? List.length b) && forallb (fun p => eqn (fst p) (snd p)) (combine a b).
  (* the loop at the top of Graph.to_g2o: every SE(3) landmark edge gets its PARAMS_SE3OFFSET entry *)
  Fixpoint add_offsets (ps : params) (es : list edge) : result params :=
    match es with
    | [] => Ok ps
    | ELmk KSE3 _ _ _ _ _ off oid :: r =>
        match oid with
        | None => Error EValue
        | Some o =>
            match plookup ps (PSE3, o) with
            | None => add_offsets (ps ++ [((PSE3, o), off)]) r
            | Some v => if list_eqn v off then add_offsets ps r else Error EValue
            end
        end
    | _ :: r => add_offsets ps r
    end.

  Definition is_ident_se2 (off : list num) : bool := (List.length off =? 3) && forallb eq0 off.
  Definition print_oid (o : option Z) : string := match o with Some z => print_id z | None => "None" end.
  (* e.to_g2o(): dispatch on type(self.vertices[0].pose) *)
  Definition edge_line (vs : list vertex) (e : edge) : result (option line) :=
    match e with
    | EOdo _ i j est info =>
        match vkind vs i with
        | Some KSE2 => Ok (Some (tag_odo_se2, [print_id i; print_id j] ++ map print est ++ map print (pack info)))
        | Some KSE3 => Ok (Some (tag_odo_se3, [print_id i; print_id j] ++ map print est ++ map print (pack info)))
        | _ => Error ENotImplemented
        end
    | ELmk _ _ i j est info off oid =>
        match vkind vs i with
        | Some KSE2 =>
            if is_ident_se2 off
            then Ok (Some (tag_lmk_se2, [print_id i; print_id j] ++ map print est ++ map print (pack info)))
            else Error ENotImplemented
        | Some KSE3 => Ok (Some (tag_lmk_se3, [print_id i; print_id j; print_oid oid] ++ map print est ++ map print (pack info)))
        | _ => Error ENotImplemented
        end
    | ECus ct ids est info =>
        if ct_writes ct then Ok (Some (ct_tag ct, map print_id ids ++ map print est ++ map print (pack info)))
        else Ok None
    end.
  Fixpoint edge_lines (vs : list vertex) (es : list edge) : result (list line) :=
    match es with
    | [] => Ok []
    | e :: r =>
        match edge_line vs e with
        | Error x => Error x
        | Ok ol => match edge_lines vs r with
                   | Error x => Error x
                   | Ok ls => Ok (match ol with Some l => l :: ls | None => ls end)
                   end
        end
    end.
  Definition export (g : graph) : result (list line) :=
    match add_offsets (g_params g) (g_edges g) with
    | Error x => Error x
    | Ok ps =>
        match edge_lines (g_verts g) (g_edges g) with
        | Error x => Error x
        | Ok els => Ok (map param_line ps ++ map vertex_line (g_verts g) ++ els)
        end
    end.
  (* what is on disk after the call (None = the file is not touched): Graph.to_g2o formats every line
     first and opens the file only afterwards, so a refused export writes nothing *)
  Definition export_file (g : graph) : option (list line) :=
    match export g with Ok ls => Some ls | Error _ => None end.
  Definition export_text (g : graph) : result (list string) :=
    match export g with Error x => Error x | Ok ls => Ok (map render ls) end.

  (* ---------------- import : Graph.from_g2o ---------------- *)
  Inductive item := IVert (v : vertex) | IEdge (e : edge) | IParam (k : pkey) (v : list num) | IWarn | IBlank.

  Fixpoint parse_nums (ts : list string) : result (list num) :=
    match ts with
    | [] => Ok []
    | t :: r => match parse t with
                | None => Error EValue
                | Some x => match parse_nums r with Error e => Error e | Ok xs => Ok (x :: xs) end
                end
    end.
  Fixpoint parse_ids (ts : list string) : result (list Z) :=
    match ts with
    | [] => Ok []
    | t :: r => match parse_id t with
                | None => Error EValue
                | Some x => match parse_ids r with Error e => Error e | Ok xs => Ok (x :: xs) end
                end
    end.
  (* numbers = rest.split(); the first nids are int()ed, the remaining nnum are float()ed *)
  Definition parse_fields (nids nnum : nat) (ts : list string) : result (list Z * list num) :=
    if List.length ts =? nids + nnum then
      match parse_nums (skipn nids ts) with
      | Error e => Error e
      | Ok xs => match parse_ids (firstn nids ts) with Error e => Error e | Ok ids => Ok (ids, xs) end
      end
    else Error EMalformed.

  Definition wrap3 (l : list num) : list num :=            (* PoseSE2(arr[:2], arr[2]) *)
    match l with [x; y; t] => [x; y; wrap t] | _ => l end.
  Definition normq7 (l : list num) : list num := firstn 3 l ++ normq (skipn 3 l).   (* PoseSE3(...); normalize() *)
  Definition post (k : kind) (l : list num) : list num := match k with KSE2 => wrap3 l | _ => l end.
  Definition ident_se2 : list num := [zero; zero; zero].   (* PoseSE2.identity() *)

  Definition parse_vertex (k : kind) (ts : list string) : result item :=
    match parse_fields 1 (dimk k) ts with
    | Error e => Error e
    | Ok (ids, xs) => Ok (IVert (mkV (nth 0 ids 0%Z) k (post k xs)))
    end.
  Definition parse_odo_se2 (ts : list string) : result item :=
    match parse_fields 2 (3 + tri 3) ts with
    | Error e => Error e
    | Ok (ids, xs) => Ok (IEdge (EOdo KSE2 (nth 0 ids 0%Z) (nth 1 ids 0%Z) (wrap3 (firstn 3 xs)) (unpack 3 (skipn 3 xs))))
    end.
  Definition parse_odo_se3 (ts : list string) : result item :=
    match parse_fields 2 (7 + tri 6) ts with
    | Error e => Error e
    | Ok (ids, xs) => Ok (IEdge (EOdo KSE3 (nth 0 ids 0%Z) (nth 1 ids 0%Z) (normq7 (firstn 7 xs)) (unpack 6 (skipn 7 xs))))
    end.
  Definition parse_lmk_se2 (ts : list string) : result item :=
    match parse_fields 2 (2 + tri 2) ts with
    | Error e => Error e
    | Ok (ids, xs) => Ok (IEdge (ELmk KSE2 KR2 (nth 0 ids 0%Z) (nth 1 ids 0%Z) (firstn 2 xs) (unpack 2 (skipn 2 xs))
                                      ident_se2 (Some 0%Z)))
    end.
  (* the offset is looked up in the dictionary AS OF THIS LINE *)
  Definition parse_lmk_se3 (ps : params) (ts : list string) : result item :=
    match parse_fields 3 (3 + tri 3) ts with
    | Error e => Error e
    | Ok (ids, xs) =>
        let o := nth 2 ids 0%Z in
        match plookup ps (PSE3, o) with
        | None => Error EKey
        | Some off => Ok (IEdge (ELmk KSE3 KR3 (nth 0 ids 0%Z) (nth 1 ids 0%Z) (firstn 3 xs) (unpack 3 (skipn 3 xs)) off (Some o)))
        end
    end.
  Definition parse_param (p : pkind) (ts : list string) : result item :=
    match parse_fields 1 (match p with PSE2 => 3 | PSE3 => 7 end) ts with
    | Error e => Error e
    | Ok (ids, xs) => Ok (IParam (p, nth 0 ids 0%Z) (match p with PSE2 => wrap3 xs | PSE3 => xs end))
    end.
  Definition parse_custom (ct : ctype) (ts : list string) : result item :=
    match parse_fields (ct_nids ct) (ct_nest ct + tri (ct_dim ct)) ts with
    | Error e => Error e
    | Ok (ids, xs) => Ok (IEdge (ECus ct ids (firstn (ct_nest ct) xs) (unpack (ct_dim ct) (skipn (ct_nest ct) xs))))
    end.

  Definition orelse {A : Type} (a b : option A) : option A := match a with Some x => Some x | None => b end.
  (* Vertex.from_g2o: XY, TRACKXYZ, SE2, SE3:QUAT in this order *)
  Definition vertex_of (s : string) : option (result item) :=
    orelse (try_tag (vtag KR2) s (parse_vertex KR2))
   (orelse (try_tag (vtag KR3) s (parse_vertex KR3))
   (orelse (try_tag (vtag KSE2) s (parse_vertex KSE2))
           (try_tag (vtag KSE3) s (parse_vertex KSE3)))).
  Fixpoint custom_of (cts : list ctype) (s : string) : option (result item) :=
    match cts with
    | [] => None
    | ct :: r => if ct_reads ct then orelse (try_tag (ct_tag ct) s (parse_custom ct)) (custom_of r s) else custom_of r s
    end.
  Definition odo_of (s : string) : option (result item) :=
    orelse (try_tag tag_odo_se2 s parse_odo_se2) (try_tag tag_odo_se3 s parse_odo_se3).
  Definition lmk_of (ps : params) (s : string) : option (result item) :=
    orelse (try_tag tag_lmk_se2 s parse_lmk_se2) (try_tag tag_lmk_se3 s (parse_lmk_se3 ps)).
  Definition param_of (s : string) : option (result item) :=
    orelse (try_tag (ptag PSE2) s (parse_param PSE2)) (try_tag (ptag PSE3) s (parse_param PSE3)).

  (* the body of the loop in Graph.from_g2o, in the code's order *)
  Definition parse_line (cts : list ctype) (ps : params) (s : string) : result item :=
    if blank s then Ok IBlank else
    match vertex_of s with Some r => r | None =>
    match custom_of cts s with Some r => r | None =>
    match odo_of s with Some r => r | None =>
    match lmk_of ps s with Some r => r | None =>
    match param_of s with Some r => r | None => Ok IWarn end end end end end.

  Definition step_params (ps : params) (it : item) : params :=
    match it with IParam k v => pset ps k v | _ => ps end.
  (* returns the final dictionary, the vertices, the edges, the warned lines -- all in file order;
     an exception at a line aborts everything *)
  Fixpoint imp (cts : list ctype) (ps : params) (ls : list string)
    : result (params * (list vertex * list edge * list string)) :=
    match ls with
    | [] => Ok (ps, ([], [], []))
    | l :: r =>
        match parse_line cts ps l with
        | Error e => Error e
        | Ok it =>
            match imp cts (step_params ps it) r with
            | Error e => Error e
            | Ok (ps', (vs, es, ws)) =>
                Ok (ps', match it with
                         | IVert v => (v :: vs, es, ws)
                         | IEdge e => (vs, e :: es, ws)
                         | IParam _ _ => (vs, es, ws)
                         | IWarn => (vs, es, l :: ws)
                         | IBlank => (vs, es, ws)
                         end)
            end
        end
    end.
  (* Graph.from_g2o: the loop, then cls(edges, vertices), then ret._g2o_params = g2o_params *)
  Definition import (cts : list ctype) (ls : list string) : result (graph * list string) :=
    match imp cts [] ls with
    | Error e => Error e
    | Ok (ps, (vs, es, ws)) =>
        match check_graph vs es with
        | Error e => Error e
        | Ok _ => Ok (mkG ps vs es, ws)
        end
    end.

  (* ---------------- canon : what one export/import cycle does to a graph ---------------- *)
  Definition canon_vertex (v : vertex) : vertex := mkV (v_id v) (v_kind v) (post (v_kind v) (v_val v)).
  Definition canon_param (p : pkey * list num) : pkey * list num :=
    (fst p, match fst (fst p) with PSE2 => wrap3 (snd p) | PSE3 => snd p end).
  Definition is_unwritten (e : edge) : bool := match e with ECus ct _ _ _ => negb (ct_writes ct) | _ => false end.
  Definition canon_edge (ps : params) (e : edge) : edge :=
    match e with
    | EOdo KSE2 i j est info => EOdo KSE2 i j (wrap3 est) info
    | EOdo KSE3 i j est info => EOdo KSE3 i j (normq7 est) info
    | ELmk KSE2 ke i j est info off oid => ELmk KSE2 ke i j est info ident_se2 (Some 0%Z)
    | ELmk KSE3 ke i j est info off (Some o) =>
        ELmk KSE3 ke i j est info (match plookup ps (PSE3, o) with Some v => v | None => off end) (Some o)
    | _ => e
    end.
  Definition export_params (g : graph) : params :=
    match add_offsets (g_params g) (g_edges g) with Ok ps => ps | Error _ => g_params g end.
  Definition canon (g : graph) : graph :=
    let ps := map canon_param (export_params g) in
    mkG ps (map canon_vertex (g_verts g))
        (map (canon_edge ps) (filter (fun e => negb (is_unwritten e)) (g_edges g))).
End G2O.

Arguments mkV {num} _ _ _.
Arguments v_id {num} _.
Arguments v_kind {num} _.
Arguments v_val {num} _.
Arguments EOdo {num} _ _ _ _ _.
Arguments ELmk {num} _ _ _ _ _ _ _ _.
Arguments ECus {num} _ _ _ _.
Arguments mkG {num} _ _ _.
Arguments g_params {num} _.
Arguments g_verts {num} _.
Arguments g_edges {num} _.
Arguments IVert {num} _.
Arguments IEdge {num} _.
Arguments IParam {num} _ _.
Arguments IWarn {num}.
Arguments IBlank {num}.
