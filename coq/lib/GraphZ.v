(* GraphZ.v — the Z instance of lib/GraphModel.v and integer dumps, used only by the exact
   correspondence check (tools/corr_graph.py): the assembly logic does not care what the numbers are,
   so it is run on integer-valued errors / Jacobians / information matrices and compared exactly. *)
From Coq Require Import List ZArith Bool.
From GS Require Import GraphModel.
Import ListNotations.
Open Scope Z_scope.

Definition MAGIC : Z := 777000777.
(* an edge as the harness writes it: vertex ids, error, information rows, one Jacobian (rows) per slot *)
Definition raw_edge := (list Z * list Z * list (list Z) * list (list (list Z)))%type.
Definition mk_edge (slots : list nat) (re : raw_edge) : edge Z :=
  let '(_, err, om, jacs) := re in
  let n := length err in
  mkedge Z slots (vec_of_list Z 0 err) (mat_of_list Z 0 n n om)
         (map (fun j => mat_of_list Z 0 (length j) (length (hd [] j)) j) jacs).
Fixpoint bind_all (ids : list Z) (res : list raw_edge) : option (list (edge Z)) :=
  match res with
  | [] => Some []
  | re :: r =>
      let '(vids, _, _, _) := re in
      match bind_slots ids vids, bind_all ids r with
      | Some sl, Some l => Some (mk_edge sl re :: l)
      | _, _ => None
      end
  end.
Definition run_case (ids : list Z) (vs : list vertex) (res : list raw_edge) : list Z :=
  match bind_all ids res with
  | None => [MAGIC; 5]
  | Some es =>
      let n := glen vs in
      [MAGIC; 0; assemble_chi2 Z 0 Z.add Z.mul vs es; Z.of_nat n]
        ++ tab_vec Z n (assemble_gradient Z 0 Z.add Z.mul vs es)
        ++ concat (tab_mat Z n (assemble_hessian Z 0 1 Z.add Z.mul vs es))
        ++ [Z.of_nat (length es)] ++ flat_map (fun e => Z.of_nat (length (e_slots Z e)) :: map Z.of_nat (e_slots Z e)) es
  end.
