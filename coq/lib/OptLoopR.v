(* OptLoopR.v -- the real-number instance of the scalar interface of lib/OptLoop.v, and the documented
   stopping test as a proposition over R.  Definitions only. *)
From Coq Require Import Reals.
From GS Require Import OptLoop.
Open Scope R_scope.

(* np.finfo(float).eps = 2^-52 *)
Definition eps_R : R := / 2 ^ 52.

Definition R_scalar : scalar R :=
  {| sub := Rminus; div := Rdiv; add := Rplus; neg := Ropp;
     leb := fun x y => if Rle_dec x y then true else false;
     ltb := fun x y => if Rlt_dec x y then true else false;
     eps := eps_R; m1 := -1 |}.

(* "chi2 <= chi2_prev and (chi2_prev - chi2) / (chi2_prev + eps) < tol" *)
Definition documented_stop (tol prev c : R) : Prop :=
  c <= prev /\ (prev - c) / (prev + eps_R) < tol.

(* K is the first iteration index in [1, max_iter) at which the documented test holds for the
   chi^2 sequence c *)
Definition first_stop_R (tol : R) (c : nat -> R) (max_iter K : nat) : Prop :=
  (1 <= K)%nat /\ (K < max_iter)%nat /\ documented_stop tol (c (K - 1)%nat) (c K) /\
  forall k, (1 <= k)%nat -> (k < K)%nat -> ~ documented_stop tol (c (k - 1)%nat) (c k).
Definition no_stop_R (tol : R) (c : nat -> R) (max_iter : nat) : Prop :=
  forall k, (1 <= k)%nat -> (k < max_iter)%nat -> ~ documented_stop tol (c (k - 1)%nat) (c k).
