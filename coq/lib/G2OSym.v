(* G2OSym.v -- the instance of G2OModel used ONLY by the correspondence tools/corr_g2o.py (never
   under a property theorem): numbers are symbolic terms over atoms (indices into a table of doubles
   or of file tokens kept by the harness); results are dumped as integers.  NO PROOFS. *)
From Coq Require Import List ZArith String Ascii Bool Arith DecimalString.
From GS Require Import G2OModel.
Import ListNotations.
Open Scope string_scope.
Open Scope list_scope.
Open Scope Z_scope.

Inductive sym :=
| At (z : Z)                     (* the z-th number of the harness' table *)
| Wr (s : sym)                   (* neg_pi_to_pi(s) *)
| Nq (i : nat) (q : list sym)    (* entry i of normalize(q) *)
| Zr.                            (* 0.0 of PoseSE2.identity() *)

Definition dec (z : Z) : string := NilZero.string_of_int (Z.to_int z).
Definition sprint (s : sym) : string := match s with At z => ("#" ++ dec z)%string | _ => "?" end.
Definition snormq (q : list sym) : list sym := map (fun i => Nq i q) (seq 0 (List.length q)).

Fixpoint assoc {A : Type} (t : list (string * A)) (s : string) : option A :=
  match t with [] => None | (k, v) :: r => if String.eqb k s then Some v else assoc r s end.
Fixpoint zassoc (t : list (Z * Z)) (k : Z) : option Z :=
  match t with [] => None | (a, v) :: r => if (a =? k)%Z then Some v else zassoc r k end.

(* numeric equality of atoms: the harness gives each atom the index of its numeric class
   (x == y as doubles; NaN has no class), and the class of 0.0 *)
Definition seqn (cls : list (Z * Z)) (a b : sym) : bool :=
  match a, b with
  | At x, At y => match zassoc cls x, zassoc cls y with Some c, Some d => (c =? d)%Z | _, _ => false end
  | _, _ => false
  end.
Definition seq0 (cls : list (Z * Z)) (zc : Z) (a : sym) : bool :=
  match a with At x => match zassoc cls x with Some c => (c =? zc)%Z | None => false end | Zr => true | _ => false end.

(* ---- export side: atoms print as #k, ids in decimal ---- *)
Definition sexport (cls : list (Z * Z)) (zc : Z) (g : graph sym) : result (list line) :=
  export sym sprint dec (seq0 cls zc) (seqn cls) g.
Definition sexport_file (cls : list (Z * Z)) (zc : Z) (g : graph sym) : option (list line) :=
  export_file sym sprint dec (seq0 cls zc) (seqn cls) g.
(* ---- import side: float()/int() are tables filled by the harness with Python's own answers ---- *)
Definition simport (ft : list (string * Z)) (it : list (string * Z)) (cts : list ctype) (ls : list string)
  : result (graph sym * list string) :=
  import sym (fun s => option_map At (assoc ft s)) (assoc it) Wr snormq Zr cts ls.
Definition scanon (cls : list (Z * Z)) (zc : Z) (g : graph sym) : graph sym :=
  canon sym Wr snormq Zr (seqn cls) g.

(* ---- dumping ---- *)
Definition MAGIC : Z := 777000777.
Fixpoint codes (s : string) : list Z :=
  match s with EmptyString => [] | String c r => Z.of_nat (nat_of_ascii c) :: codes r end.
Definition err_code (e : err) : Z :=
  match e with ENotImplemented => 1 | EValue => 2 | EKey => 3 | EAssert => 4 | EMalformed => 5 end.
Definition kind_code (k : kind) : Z := match k with KR2 => 2 | KR3 => 3 | KSE2 => 12 | KSE3 => 13 end.
Definition pkind_code (p : pkind) : Z := match p with PSE2 => 12 | PSE3 => 13 end.

Fixpoint ser (s : sym) : list Z :=
  match s with
  | At z => [0; z]
  | Wr s => 1 :: ser s
  | Nq i q => [2; Z.of_nat i; Z.of_nat (List.length q)] ++ flat_map ser q
  | Zr => [3]
  end.
Definition ser_list (l : list sym) : list Z := Z.of_nat (List.length l) :: flat_map ser l.
Definition ser_mat (M : list (list sym)) : list Z := Z.of_nat (List.length M) :: flat_map ser_list M.
Definition ser_zs (l : list Z) : list Z := Z.of_nat (List.length l) :: l.
Definition ser_str (s : string) : list Z := Z.of_nat (String.length s) :: codes s.
Definition ser_vertex (v : vertex sym) : list Z := [v_id v; kind_code (v_kind v)] ++ ser_list (v_val v).
Definition ser_edge (e : edge sym) : list Z :=
  match e with
  | EOdo k i j est info => [1; kind_code k; i; j] ++ ser_list est ++ ser_mat info
  | ELmk ko ke i j est info off oid =>
      [2; kind_code ko; kind_code ke; i; j] ++ ser_list est ++ ser_mat info ++ ser_list off
      ++ match oid with Some o => [1; o] | None => [0] end
  | ECus ct ids est info => [3; if ct_writes ct then 1 else 0; if ct_reads ct then 1 else 0] ++ ser_str (ct_tag ct) ++ ser_zs ids ++ ser_list est ++ ser_mat info
  end.
Definition ser_param (p : (pkind * Z) * list sym) : list Z := [pkind_code (fst (fst p)); snd (fst p)] ++ ser_list (snd p).
Definition ser_graph (g : graph sym) : list Z :=
  Z.of_nat (List.length (g_params g)) :: flat_map ser_param (g_params g)
  ++ Z.of_nat (List.length (g_verts g)) :: flat_map ser_vertex (g_verts g)
  ++ Z.of_nat (List.length (g_edges g)) :: flat_map ser_edge (g_edges g).

Definition dump_export (r : result (list line)) : list Z :=
  match r with
  | Error e => [MAGIC; 0; err_code e]
  | Ok ls => MAGIC :: 1 :: codes (String.concat "" (map render ls))
  end.
Definition dump_export_file (r : option (list line)) : list Z :=
  match r with
  | None => [MAGIC; 0]
  | Some ls => MAGIC :: 1 :: codes (String.concat "" (map render ls))
  end.
Definition dump_import (r : result (graph sym * list string)) : list Z :=
  match r with
  | Error e => [MAGIC; 0; err_code e]
  | Ok (g, ws) => MAGIC :: 1 :: ser_graph g ++ Z.of_nat (List.length ws) :: flat_map ser_str ws
  end.
Definition dump_graph (g : graph sym) : list Z := MAGIC :: 1 :: ser_graph g.

(* building strings that contain control characters *)
Definition ch (n : nat) : string := String (ascii_of_nat n) "".
Definition cat (l : list string) : string := String.concat "" l.
Definition c9 := ch 9.   Definition c10 := ch 10. Definition c11 := ch 11. Definition c12 := ch 12.
Definition c13 := ch 13. Definition c28 := ch 28. Definition c29 := ch 29. Definition c30 := ch 30.
Definition c31 := ch 31.
Definition chz (z : Z) : string := ch (Z.to_nat z).
