(* PyBase.v — vocabulary shared by the hand-written control-logic models (EqualsModel, ValidModel):
   Python's failure modes as values, the four concrete pose classes, and the lazy boolean
   connectives `and` / `all(...)` over verdicts.  Executable definitions only, no proofs. *)
From Coq Require Import List ZArith Bool.
Import ListNotations.

(* the exception classes that occur in the modelled code paths *)
Inductive exn := ValueError | AttributeError | KeyError | AssertionError | IndexError | NotImplementedError | TypeError.

(* the outcome of a Python call returning a bool *)
Inductive verdict := VTrue | VFalse | VRaise (e : exn).

(* the outcome of a Python call returning a value *)
Inductive result (A : Type) := Ok (a : A) | Err (e : exn).
Arguments Ok {A} a.
Arguments Err {A} e.

(* PoseR2, PoseR3, PoseSE2, PoseSE3: four leaf classes, none a subclass of another, so that
   `type(x) is type(y)` and `isinstance(x, type(y))` both are equality of these tags *)
Inductive pkind := PR2 | PR3 | PSE2 | PSE3.
Definition pkind_eqb (a b : pkind) : bool :=
  match a, b with PR2, PR2 | PR3, PR3 | PSE2, PSE2 | PSE3, PSE3 => true | _, _ => false end.
(* number of stored components (len(pose)) *)
Definition plen (k : pkind) : nat := match k with PR2 => 2 | PR3 => 3 | PSE2 => 3 | PSE3 => 7 end.
(* COMPACT_DIMENSIONALITY *)
Definition pdim (k : pkind) : nat := match k with PR2 => 2 | PR3 => 3 | PSE2 => 3 | PSE3 => 6 end.

(* the edge classes: the two library classes and user subclasses of BaseEdge (numbered) *)
Inductive eclass := Odometry | Landmark | Custom (n : nat).
Definition eclass_eqb (a b : eclass) : bool :=
  match a, b with
  | Odometry, Odometry | Landmark, Landmark => true
  | Custom n, Custom m => Nat.eqb n m
  | _, _ => false
  end.

(* `A and B` where A, B return bools or raise; B is only looked at when A is True *)
Definition vand (a b : verdict) : verdict := match a with VTrue => b | _ => a end.
(* `all(gen)`: the first element that is not True decides (False, or the exception it raised) *)
Fixpoint vall (l : list verdict) : verdict :=
  match l with
  | [] => VTrue
  | v :: r => match v with VTrue => vall r | _ => v end
  end.
Definition vbool (b : bool) : verdict := if b then VTrue else VFalse.

(* zip *)
Definition map2 {A B C} (f : A -> B -> C) (a : list A) (b : list B) : list C :=
  map (fun p => f (fst p) (snd p)) (combine a b).
Definition list_nat_eqb (a b : list nat) : bool :=
  Nat.eqb (length a) (length b) && forallb (fun p => Nat.eqb (fst p) (snd p)) (combine a b).
