(* EqualsModel.v — executable model of the five `equals` methods of python-graphslam
     BasePose.equals      graphslam/pose/base_pose.py
     Vertex.equals        graphslam/vertex.py
     BaseEdge.equals      graphslam/edge/base_edge.py     (inherited by EdgeOdometry and custom edges)
     EdgeLandmark.equals  graphslam/edge/edge_landmark.py
     Graph.equals         graphslam/graph.py
   written line by line, in the order of the tests of the source (that order decides which
   exception can occur).  Objects are described by their SHAPE and their numbers.  Python's
   failure modes are values ([VRaise]).  Definitions only; the proofs are in proofs/C17_*.v.

   The numeric content is abstract: the model is a Section over a number type [T], the
   subtraction [sub] and ONE numeric test
        small d a  :=   norm(d) / max(norm(a), tol) < tol
   ([d] is the array `a - b` already computed, [a] is `self`).  Two instances follow the Section:
   [smallR tol] over Coq's reals with sqrt (what the theorems are about) and [smallQ tol] over exact
   rationals, sqrt-free (what the correspondence executes with vm_compute); proofs/C17_num.v proves
   that they agree through Q2R for tol > 0.

   Modelling decisions (restated in the evidence file):
   * a pose is a 1-D array tagged with its class; PoseR2/PoseR3 can be built with any length
     (`np.asarray(position).view(cls)`), so the length is NOT tied to the class in the model and
     `a - b` follows numpy broadcasting for 1-D operands: equal lengths or one length equal to 1,
     otherwise ValueError;
   * a non-pose estimate is an ndarray / float: a shape and its numbers (float: shape []);
   * information is an ndarray: a shape and its numbers;
   * offset is a pose or None (None has no attribute `equals`: AttributeError);
   * NaN/inf are not modelled (numbers are reals); `>= tol` and `not (< tol)` coincide. *)
From Coq Require Import List ZArith Bool Reals QArith Qminmax.
From GS Require Import PyBase.
Import ListNotations.

Section Equals.
  Variable T : Type.
  Variable sub : T -> T -> T.
  Variable small : list T -> list T -> bool.

  Record pose := mkpose { p_kind : pkind; p_num : list T }.
  Record arr := mkarr { a_shape : list nat; a_num : list T }.
  Inductive estimate := EPose (p : pose) | EArr (a : arr).
  Record vertex := mkvertex { v_id : Z; v_pose : pose }.
  Record edge := mkedge {
    e_class : eclass;
    e_ids : list Z;
    e_info : arr;
    e_est : estimate;
    e_off : option pose;      (* attribute `offset`    (EdgeLandmark only) *)
    e_offid : option Z        (* attribute `offset_id` (EdgeLandmark only) *)
  }.
  Record graph := mkgraph { g_edges : list edge; g_vertices : list vertex }.

  (* numpy `a - b` for two 1-D arrays *)
  Definition bsub (a b : list T) : option (list T) :=
    if Nat.eqb (length a) (length b) then Some (map2 sub a b)
    else match a, b with
         | [x], _ => Some (map (fun y => sub x y) b)
         | _, [y] => Some (map (fun x => sub x y) a)
         | _, _ => None
         end.

  (* BasePose.equals
       if type(self) is not type(other): return False
       return norm(self.to_array() - other.to_array()) / max(norm(self.to_array()), tol) < tol *)
  Definition pose_equals (a b : pose) : verdict :=
    if negb (pkind_eqb (p_kind a) (p_kind b)) then VFalse
    else match bsub (p_num a) (p_num b) with
         | None => VRaise ValueError
         | Some d => vbool (small d (p_num a))
         end.

  (* Vertex.equals
       return self.id == other.id and (type(self.pose) is type(other.pose)) and self.pose.equals(other.pose, tol) *)
  Definition vertex_equals (a b : vertex) : verdict :=
    if Z.eqb (v_id a) (v_id b) then
      if pkind_eqb (p_kind (v_pose a)) (p_kind (v_pose b)) then pose_equals (v_pose a) (v_pose b)
      else VFalse
    else VFalse.

  (* the comparison of two ndarrays of equal shape (no broadcasting can fail) *)
  Definition arr_close (a b : arr) : bool := small (map2 sub (a_num a) (a_num b)) (a_num a).

  (* BaseEdge.equals *)
  Definition base_equals (a b : edge) : verdict :=
    (* if not type(self) is type(other): return False *)
    if negb (eclass_eqb (e_class a) (e_class b)) then VFalse
    (* if len(self.vertex_ids) != len(other.vertex_ids): return False *)
    else if negb (Nat.eqb (length (e_ids a)) (length (e_ids b))) then VFalse
    (* if any(v_id1 != v_id2 for v_id1, v_id2 in zip(...)): return False *)
    else if existsb (fun p => negb (Z.eqb (fst p) (snd p))) (combine (e_ids a) (e_ids b)) then VFalse
    (* if self.information.shape != other.information.shape or norm(...)/max(...) >= tol: return False *)
    else if negb (list_nat_eqb (a_shape (e_info a)) (a_shape (e_info b))) || negb (arr_close (e_info a) (e_info b)) then VFalse
    else match e_est a with
         (* if isinstance(self.estimate, BasePose):
                return isinstance(other.estimate, BasePose) and self.estimate.equals(other.estimate, tol) *)
         | EPose pa => match e_est b with EPose pb => pose_equals pa pb | EArr _ => VFalse end
         | EArr xa =>
             (* if isinstance(other.estimate, BasePose) or np.shape(self.estimate) != np.shape(other.estimate): return False *)
             match e_est b with
             | EPose _ => VFalse
             | EArr xb => if negb (list_nat_eqb (a_shape xa) (a_shape xb)) then VFalse
                          (* return norm(self.estimate - other.estimate) / max(norm(self.estimate), tol) < tol *)
                          else vbool (arr_close xa xb)
             end
         end.

  Definition is_none {A} (o : option A) : bool := match o with None => true | Some _ => false end.
  Definition optZ_neb (a b : option Z) : bool :=     (* Python `a != b` for int-or-None *)
    match a, b with
    | None, None => false
    | Some x, Some y => negb (Z.eqb x y)
    | _, _ => true
    end.
  Definition otype_eqb (a b : option pose) : bool :=  (* type(a) is type(b) for pose-or-None *)
    match a, b with
    | None, None => true
    | Some p, Some q => pkind_eqb (p_kind p) (p_kind q)
    | _, _ => false
    end.

  (* EdgeLandmark.equals *)
  Definition landmark_equals (a b : edge) : verdict :=
    (* if not type(self) is type(other): return False *)
    if negb (eclass_eqb (e_class a) (e_class b)) then VFalse
    (* if not type(self.offset) is type(other.offset): return False *)
    else if negb (otype_eqb (e_off a) (e_off b)) then VFalse
    (* if not self.offset.equals(other.offset, tol): return False *)
    else match e_off a, e_off b with
         | Some pa, Some pb =>
             match pose_equals pa pb with
             | VRaise e => VRaise e
             | VFalse => VFalse
             | VTrue =>
                 (* if ((self.offset_id is None) ^ (other.offset_id is None)) or
                       (self.offset_id is not None and self.offset_id != other.offset_id): return False *)
                 if xorb (is_none (e_offid a)) (is_none (e_offid b))
                    || (negb (is_none (e_offid a)) && optZ_neb (e_offid a) (e_offid b)) then VFalse
                 (* return BaseEdge.equals(self, other, tol) *)
                 else base_equals a b
             end
         | _, _ => VRaise AttributeError     (* 'NoneType' object has no attribute 'equals' *)
         end.

  (* method resolution: EdgeLandmark overrides equals, every other class inherits BaseEdge.equals *)
  Definition edge_equals (a b : edge) : verdict :=
    match e_class a with
    | Landmark => landmark_equals a b
    | _ => base_equals a b
    end.

  (* Graph.equals
       if len(self._edges) != len(other._edges) or len(self._vertices) != len(other._vertices): return False
       return all(e1.equals(e2, tol) for ...zip(edges)) and all(v1.equals(v2, tol) for ...zip(vertices)) *)
  Definition graph_equals (a b : graph) : verdict :=
    if negb (Nat.eqb (length (g_edges a)) (length (g_edges b)))
       || negb (Nat.eqb (length (g_vertices a)) (length (g_vertices b))) then VFalse
    else vand (vall (map2 edge_equals (g_edges a) (g_edges b)))
              (vall (map2 vertex_equals (g_vertices a) (g_vertices b))).
End Equals.

Arguments mkpose {T}. Arguments p_kind {T}. Arguments p_num {T}.
Arguments mkarr {T}. Arguments a_shape {T}. Arguments a_num {T}.
Arguments EPose {T}. Arguments EArr {T}.
Arguments mkvertex {T}. Arguments v_id {T}. Arguments v_pose {T}.
Arguments mkedge {T}. Arguments e_class {T}. Arguments e_ids {T}. Arguments e_info {T}.
Arguments e_est {T}. Arguments e_off {T}. Arguments e_offid {T}.
Arguments mkgraph {T}. Arguments g_edges {T}. Arguments g_vertices {T}.
Arguments bsub {T}. Arguments pose_equals {T}. Arguments vertex_equals {T}. Arguments arr_close {T}.
Arguments base_equals {T}. Arguments landmark_equals {T}. Arguments edge_equals {T}.
Arguments graph_equals {T}. Arguments otype_eqb {T}.

(* ---- instance over the reals: np.linalg.norm (Frobenius norm of the flattened array) ---- *)
Definition sumsqR (l : list R) : R := fold_right (fun x s => x * x + s)%R 0%R l.
Definition normR (l : list R) : R := sqrt (sumsqR l).
Definition smallR (tol : R) (d a : list R) : bool :=
  if Rlt_dec (normR d / Rmax (normR a) tol) tol then true else false.

(* ---- instance over exact rationals, sqrt-free (equivalent for tol > 0, proofs/C17_num.v) ---- *)
Definition sumsqQ (l : list Q) : Q := fold_right (fun x s => x * x + s)%Q 0%Q l.
Definition qltb (x y : Q) : bool := negb (Qle_bool y x).
Definition qmax (x y : Q) : Q := if Qle_bool x y then y else x.
Definition smallQ (tol : Q) (d a : list Q) : bool :=
  qltb (sumsqQ d) (tol * tol * qmax (sumsqQ a) (tol * tol))%Q.

(* change of number type, used to relate the two instances *)
Definition map_pose {A B} (f : A -> B) (p : pose A) : pose B := mkpose (p_kind p) (map f (p_num p)).
Definition map_arr {A B} (f : A -> B) (a : arr A) : arr B := mkarr (a_shape a) (map f (a_num a)).
Definition map_est {A B} (f : A -> B) (e : estimate A) : estimate B :=
  match e with EPose p => EPose (map_pose f p) | EArr a => EArr (map_arr f a) end.
Definition map_vertex {A B} (f : A -> B) (v : vertex A) : vertex B := mkvertex (v_id v) (map_pose f (v_pose v)).
Definition map_edge {A B} (f : A -> B) (e : edge A) : edge B :=
  mkedge (e_class e) (e_ids e) (map_arr f (e_info e)) (map_est f (e_est e))
         (option_map (map_pose f) (e_off e)) (e_offid e).
Definition map_graph {A B} (f : A -> B) (g : graph A) : graph B :=
  mkgraph (map (map_edge f) (g_edges g)) (map (map_vertex f) (g_vertices g)).
