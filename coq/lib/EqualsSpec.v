(* EqualsSpec.v — the DECLARATIVE vocabulary C17 is stated against (independent of the order of
   the tests in the equals methods): well-formed objects, and [*_rel P]: "same structure (ids,
   classes, lengths, shapes, order) and every pair of corresponding number arrays satisfies P".
   With P := fun _ _ => True this is "same structure".  Definitions only. *)
From Coq Require Import List ZArith Bool Reals.
From GS Require Import PyBase EqualsModel.
Import ListNotations.

Section Spec.
  Variable T : Type.

  (* a pose carries as many numbers as its class stores; a landmark edge has a pose as offset *)
  Definition wf_pose (p : pose T) : Prop := length (p_num p) = plen (p_kind p).
  Definition wf_est (e : estimate T) : Prop := match e with EPose p => wf_pose p | EArr _ => True end.
  Definition wf_edge (e : edge T) : Prop :=
    wf_est (e_est e) /\ (e_class e = Landmark -> exists p, e_off e = Some p /\ wf_pose p).
  Definition wf_vertex (v : vertex T) : Prop := wf_pose (v_pose v).
  Definition wf_graph (g : graph T) : Prop := Forall wf_edge (g_edges g) /\ Forall wf_vertex (g_vertices g).

  Variable P : list T -> list T -> Prop.
  Definition pose_rel (a b : pose T) : Prop :=
    p_kind a = p_kind b /\ length (p_num a) = length (p_num b) /\ P (p_num a) (p_num b).
  Definition arr_rel (a b : arr T) : Prop := a_shape a = a_shape b /\ P (a_num a) (a_num b).
  Definition est_rel (a b : estimate T) : Prop :=
    match a, b with
    | EPose p, EPose q => pose_rel p q
    | EArr x, EArr y => arr_rel x y
    | _, _ => False
    end.
  Definition edge_rel (a b : edge T) : Prop :=
    e_class a = e_class b /\ e_ids a = e_ids b /\ arr_rel (e_info a) (e_info b) /\ est_rel (e_est a) (e_est b) /\
    (e_class a = Landmark ->
       (exists p q, e_off a = Some p /\ e_off b = Some q /\ pose_rel p q) /\ e_offid a = e_offid b).
  Definition vertex_rel (a b : vertex T) : Prop := v_id a = v_id b /\ pose_rel (v_pose a) (v_pose b).
  Definition graph_rel (a b : graph T) : Prop :=
    Forall2 edge_rel (g_edges a) (g_edges b) /\ Forall2 vertex_rel (g_vertices a) (g_vertices b).
End Spec.
Arguments wf_pose {T}. Arguments wf_est {T}. Arguments wf_edge {T}. Arguments wf_vertex {T}. Arguments wf_graph {T}.
Arguments pose_rel {T}. Arguments arr_rel {T}. Arguments est_rel {T}. Arguments edge_rel {T}.
Arguments vertex_rel {T}. Arguments graph_rel {T}.

(* same structure: nothing is asked of the numbers *)
Definition anyP {T} : list T -> list T -> Prop := fun _ _ => True.

(* ---- the numeric relations over the reals (tol is the tolerance) ---- *)
Definition diffR (x y : list R) : list R := map2 Rminus x y.
(* what the code tests *)
Definition closeR (tol : R) (x y : list R) : Prop := smallR tol (diffR x y) x = true.
(* far below the band: || x - y || < tol^2 *)
Definition nearR (tol : R) (x y : list R) : Prop := (normR (diffR x y) < tol * tol)%R.
(* far above the band: || x - y || >= tol * (max(||x||, ||y||) + tol) *)
Definition farR (tol : R) (x y : list R) : Prop := (normR (diffR x y) >= tol * (Rmax (normR x) (normR y) + tol))%R.

(* ---- the equals methods over the reals ---- *)
Definition equalsR_pose (tol : R) := pose_equals Rminus (smallR tol).
Definition equalsR_vertex (tol : R) := vertex_equals Rminus (smallR tol).
Definition equalsR_edge (tol : R) := edge_equals Rminus (smallR tol).
Definition equalsR_graph (tol : R) := graph_equals Rminus (smallR tol).
Definition notfarR (tol : R) (x y : list R) : Prop := ~ farR tol x y.
