(* ValidCases.v — used ONLY by the C18 correspondence (tools/corr_eqvalid.py), never under a property
   theorem.  The property's quantifier
     (edge kind) x (vertex count 1..3) x (pose type of each endpoint) x (measurement type)
     x (offset type) x (information shape r, c in 1..7) x (id present / which slot is unknown)
   as a type of small integer tuples, the graph each tuple stands for, and the integer code of the
   model's answer.  tools/corr_eqvalid.py contains the mirror image (c18_build / c18_cases_for);
   any discrepancy between the two shows up as a correspondence disagreement. *)
From Coq Require Import List ZArith Bool.
From GS Require Import PyBase ValidModel CorrHash.
Import ListNotations.
Open Scope Z_scope.

(* (cls, n, k1, k2, k3, est, off, r, c, absent): cls 0 odometry 1 landmark 2 custom0 3 custom1;
   vertex count n+1; k_j pose class of the vertex named by slot j; est, off: see below;
   information.shape = (r+1, c+1); absent = 0: all ids known, j>0: slot j-1 names an unknown id *)
Definition case := (Z * Z * Z * Z * Z * Z * Z * Z * Z * Z)%type.

Definition pk (z : Z) : pkind := match z with 0 => PR2 | 1 => PR3 | 2 => PSE2 | _ => PSE3 end.
Definition cls_of (z : Z) : eclass := match z with 0 => Odometry | 1 => Landmark | 2 => Custom 0 | _ => Custom 1 end.
Definition est_of (z : Z) : okind :=
  match z with 0 | 1 | 2 | 3 => OPose (pk z) | 4 => OArr [2%nat] | 5 => OArr [3%nat] | 6 => OFloat | _ => ONone end.
Definition off_of (z : Z) : okind :=
  match z with 0 | 1 | 2 | 3 => OPose (pk z) | 4 => ONone | _ => OArr [3%nat] end.

Definition build (cs : case) : list edge * list vertex :=
  let '(cls, n, k1, k2, k3, est, off, r, c, ab) := cs in
  let count := Z.to_nat (n + 1) in
  let kinds := firstn count [pk k1; pk k2; pk k3] in
  let slots := seq 0 count in
  let ids := map (fun j => if Z.eqb (Z.of_nat j + 1) ab then 99 else 10 + Z.of_nat j) slots in
  let vs := rev (map (fun jk => mkvertex (10 + Z.of_nat (fst jk)) (snd jk)) (combine slots kinds)) in
  ([mkedge (cls_of cls) ids [Z.to_nat (r + 1); Z.to_nat (c + 1)] (est_of est)
           (if Z.eqb cls 1 then off_of off else ONone)], vs).

Definition exn_small (e : exn) : Z := match e with KeyError => 1 | AssertionError => 2 | _ => 3 end.
(* Ok: 4 * (1 + sum_j (gradient_index_j + 16 * (id_j - 10)) * 64^j) over the slots of the edge *)
Fixpoint pack_slots (vs : list bvertex) : Z :=
  match vs with
  | [] => 0
  | v :: r => (Z.of_nat (b_gi v) + 16 * (v_id (b_v v) - 10)) + 64 * pack_slots r
  end.
Definition code_of (res : result (list bedge * list bvertex)) : Z :=
  match res with
  | Err e => exn_small e
  | Ok (bes, _) =>
      match bes with
      | [b] => match be_vs b with Some vs => 4 * (1 + pack_slots vs) | None => 3 end
      | _ => 3
      end
  end.
Definition run_case (cs : case) : Z :=
  let '(es, vs) := build cs in code_of (construct custom_ok_harness es vs).

Definition D4 : list Z := [0; 1; 2; 3].
Definition cases_for (cls n k1 : Z) : list case :=
  flat_map (fun k2 => flat_map (fun k3 => flat_map (fun est => flat_map (fun off =>
  flat_map (fun r => flat_map (fun c => map (fun ab => (cls, n, k1, k2, k3, est, off, r, c, ab))
    (zrange (Z.to_nat n + 2) 0)) (zrange 7 0)) (zrange 7 0))
    (if Z.eqb cls 1 then zrange 6 0 else [0])) (zrange 8 0))
    (if 2 <=? n then D4 else [0])) (if 1 <=? n then D4 else [0]).

(* explicit graphs (the binding stream): answer flattened to integers
   Err e -> [exn_small e];  Ok -> 0 :: for every edge, for every slot: id, gradient_index *)
Definition flat_result (res : result (list bedge * list bvertex)) : list Z :=
  match res with
  | Err e => [exn_small e]
  | Ok (bes, _) =>
      0 :: flat_map (fun b => match be_vs b with
                              | Some vs => flat_map (fun v => [v_id (b_v v); Z.of_nat (b_gi v)]) vs
                              | None => [-1]
                              end) bes
  end.
Definition run_graph (g : list edge * list vertex) : list Z :=
  777 :: flat_result (construct custom_ok_harness (fst g) (snd g)).
