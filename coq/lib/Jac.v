(* Jac.v — what it means for a matrix of expressions to be the Jacobian of a vector of expressions
   with respect to a block of its variables, and the proof principle used for every obligation of
   C10/C01: a "tangent identity" between dual-number evaluation and the matrix-vector product.
   Hand-written, stable. *)
From Coq Require Import Reals List Lra ZArith Lia.
From Coquelicot Require Import Coquelicot.
From GS Require Import ExprR LinAlg.
Import ListNotations.
Open Scope R_scope.

(* direction that moves only the variables off .. off+d-1 of an environment of size n *)
Definition dir (n off : nat) (u : list R) : list R := zeros off ++ u ++ zeros (n - off - length u).

(* [J] is the Jacobian of [op] w.r.t. the variables off..off+d-1, at every point satisfying [side]:
   along every line  vals + t * dir u  each component of [op] is differentiable at t = 0 and its
   derivative is the corresponding component of  J(vals) . u  *)
Definition is_jacobian_on (side : list R -> Prop) (op : list expr) (J : list (list expr)) (n off d : nat) : Prop :=
  forall vals u, length vals = n -> length u = d -> side vals ->
    Forall2 (fun e dv => is_derive (fun t => evalR (envR (line vals (dir n off u)) t) e) 0 dv)
            op (matvec (evm vals J) u).
Definition is_jacobian := is_jacobian_on (fun _ => True).

(* what the line is, pointwise *)
Lemma envR_line_nth vals U t i : length vals = length U ->
  nth i (envR (line vals U) t) 0 = nth i vals 0 + t * nth i U 0.
Proof.
  unfold envR, line. revert U i. induction vals as [|v vals IH]; intros [|u U] i H; simpl in *; try discriminate.
  - destruct i; ring.
  - destruct i; simpl; [ring | apply IH; lia].
Qed.

(* proof principle *)
Lemma jacobian_from_tangent (op : list expr) (J : list (list expr)) vals U u :
  List.Forall (okD (combine vals U)) op ->
  map snd (evlD (combine vals U) op) = matvec (evm vals J) u ->
  Forall2 (fun e dv => is_derive (fun t => evalR (envR (line vals U) t) e) 0 dv) op (matvec (evm vals J) u).
Proof. intros Hok E. rewrite <- E. apply derive_along_line; auto. Qed.


(* the algebraic half of a Jacobian statement: the tangent part of the dual-number evaluation along
   a direction that moves only the block off..off+d-1 is the matrix-vector product (no side condition) *)
Definition tangent_ok (op : list expr) (J : list (list expr)) (n off d : nat) : Prop :=
  forall vals u, length vals = n -> length u = d ->
    map snd (evlD (combine vals (dir n off u)) op) = matvec (evm vals J) u.
Lemma tangent_is_jacobian (side : list R -> Prop) op J n off d :
  tangent_ok op J n off d ->
  (forall vals u, length vals = n -> length u = d -> side vals -> List.Forall (okD (combine vals (dir n off u))) op) ->
  is_jacobian_on side op J n off d.
Proof.
  intros Ht Hok vals u Hv Hu Hs. apply jacobian_from_tangent; [apply Hok; auto | apply Ht; auto].
Qed.
Lemma tangent_is_jacobian_poly op J n off d :
  tangent_ok op J n off d -> forallb poly op = true -> is_jacobian op J n off d.
Proof. intros Ht Hp. apply tangent_is_jacobian; auto. intros. apply poly_all; auto. Qed.

Ltac tan_ring :=
  let vals := fresh "vals" in let u := fresh "u" in let Hv := fresh "Hv" in let Hu := fresh "Hu" in
  intros vals u Hv Hu; list_len vals Hv; list_len u Hu; ring_lists.

(* rows of a compact Jacobian *)
Definition rows_prefix (c : nat) (J Jc : list (list expr)) : Prop := Jc = firstn c J.
Definition shape (r c : nat) (J : list (list expr)) : Prop := length J = r /\ List.Forall (fun row => length row = c) J.

Ltac jac_poly :=
  let vals := fresh "vals" in let u := fresh "u" in let Hv := fresh "Hv" in let Hu := fresh "Hu" in
  intros vals u Hv Hu _; list_len vals Hv; list_len u Hu;
  apply jacobian_from_tangent; [apply poly_all; reflexivity | ring_lists].
