(* OptLoop.v -- hand-written executable model of Graph.optimize (graphslam/graph.py), the loop and the
   OptimizationResult bookkeeping only.  No proofs in this file.

   What is modelled (line numbers of graph.py at the time of writing):
     436-442  ret = OptimizationResult(); fix_first_pose / _fixed_gradient_indices      -> [prep]
     445      chi2_prev = -1.0                                                          -> [m1]
     452-505  for i in range(max_iter): append IterationResult; _calc_chi2_gradient_hessian;
              if i > 0: rel_diff, verbose line, fill entry [-2], stopping test, early return;
              else: initial_chi2, verbose line;  chi2_prev = chi2;  solve + update      -> [step]
     508-522  tail: calc_chi2(), rel_diff, verbose line, fill entry [-1] (IndexError when the
              list is empty, i.e. max_iter = 0), converged, num_iterations, final_chi2.
   The state type [St] stands for everything optimize reads from the graph (poses, fixed flags,
   edges); [chi2_of] is the chi^2 of a state (both _calc_chi2_gradient_hessian's and calc_chi2()'s
   value -- base_edge.py computes them with the same expression), [step] is one Gauss-Newton
   update (spsolve + boxplus on the non-fixed vertices), [prep] sets the fixed flag of the first
   vertex when fix_first_pose is True (the identity otherwise).

   The scalar type is abstract: the SAME definition is instantiated with T := R (theorems) and
   with T := PrimFloat.float (bit-exact correspondence with the implementation).  The comparisons
   are boolean so that IEEE behaviour (every comparison with NaN is false) is part of the instance.

   Formulation: iteration i of the Python loop fills entry i-1 of iteration_results; here the
   function [run] is entered at the point where iteration i (i >= 1) has appended its own entry and
   computed chi^2, and it returns the entries from index i-1 on.  [fuel] = number of loop
   iterations still to come (max_iter - i); [fuel = 0] is the code after the loop. *)
From Coq Require Import List.
Import ListNotations.

Record scalar (T : Type) : Type := {
  sub : T -> T -> T;
  div : T -> T -> T;
  add : T -> T -> T;
  neg : T -> T;
  leb : T -> T -> bool;      (* x <= y *)
  ltb : T -> T -> bool;      (* x <  y *)
  eps : T;                   (* np.finfo(float).eps *)
  m1  : T                    (* the initial chi2_prev = -1.0 *)
}.
Arguments sub {T}. Arguments div {T}. Arguments add {T}. Arguments neg {T}.
Arguments leb {T}. Arguments ltb {T}. Arguments eps {T}. Arguments m1 {T}.

Section OptLoop.
  Variable T : Type.
  Variable SC : scalar T.
  Variable St : Type.
  Variable chi2_of : St -> T.
  Variable step : St -> St.
  Variable prep : St -> St.

  (* IterationResult: chi2, rel_diff (None until written), is_complete_iteration() *)
  Record iter_result : Type := { it_chi2 : option T; it_rel_diff : option T; it_complete : bool }.

  (* OptimizationResult; [raised] = the call ended with IndexError (max_iter = 0) and no report
     object was returned: then the other fields are the values of a fresh OptimizationResult. *)
  Record report : Type := {
    initial_chi2 : option T;
    iters : list iter_result;
    converged : bool;
    num_iterations : option nat;
    final_chi2 : option T;
    raised : bool
  }.

  (* a printed progress line: print("{:9d} {:20.4f} {:18.6f}".format(i, chi2, -rel_diff)), or
     print("{:9d} {:20.4f}".format(0, chi2)) when the third component is None *)
  Definition line : Type := (nat * T * option T)%type.

  (* rel_diff = (chi2_prev - chi2) / (chi2_prev + eps) *)
  Definition rel_diff (prev c : T) : T := div SC (sub SC prev c) (add SC prev (eps SC)).
  (* chi2 <= chi2_prev and rel_diff < tol *)
  Definition stop_test (tol prev c : T) : bool := andb (leb SC c prev) (ltb SC (rel_diff prev c) tol).

  Definition filled (prev c : T) : iter_result :=
    {| it_chi2 := Some c; it_rel_diff := Some (neg SC (rel_diff prev c)); it_complete := true |}.
  Definition fresh : iter_result := {| it_chi2 := None; it_rel_diff := None; it_complete := false |}.
  Definition line_of (i : nat) (prev c : T) : line := (i, c, Some (neg SC (rel_diff prev c))).

  Record tail : Type := {
    t_iters : list iter_result;   (* entries i-1, i, ... of iteration_results *)
    t_conv : bool;
    t_num : nat;
    t_final : T;
    t_lines : list line
  }.

  Fixpoint run (tol : T) (fuel i : nat) (prev : T) (s : St) : St * tail :=
    let c := chi2_of s in
    match fuel with
    | O =>       (* after the loop: i = max_iter *)
        (s, {| t_iters := [filled prev c]; t_conv := stop_test tol prev c; t_num := i; t_final := c;
               t_lines := [line_of i prev c] |})
    | S f =>     (* loop iteration i, 1 <= i < max_iter *)
        if stop_test tol prev c
        then (s, {| t_iters := [filled prev c; fresh]; t_conv := true; t_num := i; t_final := c;
                    t_lines := [line_of i prev c] |})
        else let r := run tol f (S i) c (step s) in
             (fst r, {| t_iters := filled prev c :: t_iters (snd r); t_conv := t_conv (snd r);
                        t_num := t_num (snd r); t_final := t_final (snd r);
                        t_lines := line_of i prev c :: t_lines (snd r) |})
    end.

  (* optimize(tol, max_iter, fix_first_pose (through prep), verbose): returned state, report, stdout lines *)
  Definition optimize (tol : T) (max_iter : nat) (verbose : bool) (s : St) : St * report * list line :=
    let s0 := prep s in
    let c0 := chi2_of s0 in
    match max_iter with
    | O =>
        (s0, {| initial_chi2 := None; iters := []; converged := false; num_iterations := None;
                final_chi2 := None; raised := true |},
         if verbose then [line_of 0 (m1 SC) c0] else [])
    | S n =>
        let r := run tol n 1 c0 (step s0) in
        (fst r, {| initial_chi2 := Some c0; iters := t_iters (snd r); converged := t_conv (snd r);
                   num_iterations := Some (t_num (snd r)); final_chi2 := Some (t_final (snd r));
                   raised := false |},
         if verbose then (0, c0, None) :: t_lines (snd r) else [])
    end.

  Definition out_state (x : St * report * list line) : St := fst (fst x).
  Definition out_report (x : St * report * list line) : report := snd (fst x).
  Definition out_lines (x : St * report * list line) : list line := snd x.

  (* the lines as a function of the report alone *)
  Fixpoint written_lines (i : nat) (es : list iter_result) : list line :=
    match es with
    | [] => []
    | e :: r => match it_chi2 e with
                | Some c => (i, c, it_rel_diff e) :: written_lines (S i) r
                | None => []
                end
    end.
  Definition verbose_lines (r : report) : list line :=
    match initial_chi2 r with
    | Some c0 => (0, c0, None) :: written_lines 1 (iters r)
    | None => []
    end.

  (* ---- specification vocabulary (used by the statements in props/C12.v) ---- *)
  Fixpoint stepn (k : nat) (s : St) : St :=
    match k with O => s | S k' => stepn k' (step s) end.
  (* c_k: chi^2 after k updates of the prepared initial state *)
  Definition cseq (s : St) (k : nat) : T := chi2_of (stepn k (prep s)).
  (* the documented test between states k-1 and k *)
  Definition stops (tol : T) (s : St) (k : nat) : bool := stop_test tol (cseq s (pred k)) (cseq s k).
  Definition first_stop (tol : T) (s : St) (max_iter K : nat) : Prop :=
    1 <= K /\ K < max_iter /\ stops tol s K = true /\ forall k, 1 <= k -> k < K -> stops tol s k = false.
  Definition no_stop (tol : T) (s : St) (max_iter : nat) : Prop :=
    forall k, 1 <= k -> k < max_iter -> stops tol s k = false.
End OptLoop.

Arguments it_chi2 {T}. Arguments it_rel_diff {T}. Arguments it_complete {T}.
Arguments initial_chi2 {T}. Arguments iters {T}. Arguments converged {T}.
Arguments num_iterations {T}. Arguments final_chi2 {T}. Arguments raised {T}.
Arguments t_iters {T}. Arguments t_conv {T}. Arguments t_num {T}. Arguments t_final {T}. Arguments t_lines {T}.
Arguments out_state {T St}. Arguments out_report {T St}. Arguments out_lines {T St}.
Arguments verbose_lines {T}. Arguments written_lines {T}.
Arguments stepn {St}.
