(* ValidModel.v — executable model of graph construction (graphslam/graph.py Graph.__init__ /
   Graph._initialize) and of the validity predicates it asserts
     BaseEdge._is_valid          graphslam/edge/base_edge.py
     EdgeOdometry.is_valid       graphslam/edge/edge_odometry.py
     EdgeLandmark.is_valid       graphslam/edge/edge_landmark.py
     custom edges                tests/edge_types.py style: `_is_valid()` and then their own test
   Only the TYPES and SHAPES of the objects matter to this code, so an object is described by its
   shape: a vertex by (id, pose class), an edge by (class, vertex_ids, information.shape, type of
   the estimate, type of the offset).  Definitions only; proofs are in proofs/C18_*.v.

   Modelling decisions (restated in the evidence file):
   * every vertex carries one of the four pose classes (a vertex whose pose has no
     COMPACT_DIMENSIONALITY makes _initialize raise AttributeError before any edge is looked at);
   * ids are integers; the dict comprehension {v.id: i for i, v in enumerate(vertices)} is an
     association list updated in place (a later vertex with the same id overwrites the index);
   * information is an ndarray (has .shape); is_valid itself never raises;
   * `assert` is executed (python -O is outside the property's quantifier). *)
From Coq Require Import List ZArith Bool.
From GS Require Import PyBase.
Import ListNotations.

(* type of an estimate / offset attribute *)
Inductive okind :=
| OPose (k : pkind)        (* one of the four pose classes *)
| OArr (shape : list nat)  (* a plain numpy.ndarray *)
| OFloat                   (* a Python float *)
| ONone.                   (* None *)

Record vertex := mkvertex { v_id : Z; v_kind : pkind }.
Record edge := mkedge {
  e_class : eclass;
  e_ids : list Z;           (* vertex_ids *)
  e_info : list nat;        (* information.shape *)
  e_est : okind;            (* type of estimate *)
  e_off : okind             (* type of offset (EdgeLandmark only) *)
}.
(* a vertex after _initialize: gradient_index filled in *)
Record bvertex := mkbvertex { b_v : vertex; b_gi : nat }.
(* an edge with its `vertices` attribute (None until the graph is built) *)
Record bedge := mkbedge { be_e : edge; be_vs : option (list bvertex) }.

(* isinstance(x, K) for a pose class K *)
Definition isinstance (x : okind) (k : pkind) : bool :=
  match x with OPose k' => pkind_eqb k' k | _ => false end.

(* BaseEdge._is_valid *)
Definition base_is_valid (b : bedge) : bool :=
  match be_vs b with
  | None => false                                            (* self.vertices is None *)
  | Some vs =>
      if negb (Nat.eqb (length vs) (length (e_ids (be_e b)))) then false
      else forallb (fun p => Z.eqb (v_id (b_v (fst p))) (snd p)) (combine vs (e_ids (be_e b)))
  end.

Definition shape_is_square (s : list nat) (n : nat) : bool :=   (* information.shape == (n, n) *)
  match s with [r; c] => Nat.eqb r n && Nat.eqb c n | _ => false end.

(* EdgeOdometry.is_valid *)
Definition odometry_is_valid (b : bedge) : bool :=
  match be_vs b with
  | Some vs =>
      if negb (base_is_valid b) || negb (Nat.eqb (length vs) 2) then false
      else match vs with
           | v0 :: v1 :: _ =>
               let pose_type := v_kind (b_v v0) in
               if negb (pkind_eqb (v_kind (b_v v1)) pose_type) || negb (isinstance (e_est (be_e b)) pose_type) then false
               else shape_is_square (e_info (be_e b)) (pdim pose_type)
           | _ => false
           end
  | None => false
  end.

Definition landmark_pairs : list (pkind * pkind) := [(PSE2, PR2); (PSE3, PR3); (PR2, PR2); (PR3, PR3)].
Definition pair_in (p : pkind * pkind) (l : list (pkind * pkind)) : bool :=
  existsb (fun q => pkind_eqb (fst p) (fst q) && pkind_eqb (snd p) (snd q)) l.

(* EdgeLandmark.is_valid *)
Definition landmark_is_valid (b : bedge) : bool :=
  match be_vs b with
  | Some vs =>
      if negb (base_is_valid b) || negb (Nat.eqb (length vs) 2) then false
      else match vs with
           | v0 :: v1 :: _ =>
               let pose_type := v_kind (b_v v0) in
               let point_type := v_kind (b_v v1) in
               if negb (isinstance (e_off (be_e b)) pose_type) || negb (isinstance (e_est (be_e b)) point_type) then false
               else if negb (pair_in (pose_type, point_type) landmark_pairs) then false
               else shape_is_square (e_info (be_e b)) (pdim point_type)
           | _ => false
           end
  | None => false
  end.

Section Construct.
  (* the extra test of the n-th custom edge class (after `if not self._is_valid(): return False`) *)
  Variable custom_ok : nat -> edge -> list bvertex -> bool.

  Definition is_valid (b : bedge) : bool :=
    match e_class (be_e b) with
    | Odometry => odometry_is_valid b
    | Landmark => landmark_is_valid b
    | Custom n => base_is_valid b && match be_vs b with Some vs => custom_ok n (be_e b) vs | None => false end
    end.

  (* for v in vertices: v.gradient_index = gradient_index; gradient_index += v.pose.COMPACT_DIMENSIONALITY *)
  Fixpoint assign (gi : nat) (vs : list vertex) : list bvertex :=
    match vs with
    | [] => []
    | v :: r => mkbvertex v gi :: assign (gi + pdim (v_kind v)) r
    end.

  (* id_index_dict = {v.id: i for i, v in enumerate(vertices)} *)
  Definition dict := list (Z * nat).
  Fixpoint dict_set (d : dict) (k : Z) (i : nat) : dict :=
    match d with
    | [] => [(k, i)]
    | (k', j) :: r => if Z.eqb k' k then (k', i) :: r else (k', j) :: dict_set r k i
    end.
  Fixpoint dict_get (d : dict) (k : Z) : option nat :=
    match d with
    | [] => None
    | (k', j) :: r => if Z.eqb k' k then Some j else dict_get r k
    end.
  Fixpoint mkdict_from (i : nat) (vs : list vertex) (d : dict) : dict :=
    match vs with
    | [] => d
    | v :: r => mkdict_from (S i) r (dict_set d (v_id v) i)
    end.
  Definition mkdict (vs : list vertex) : dict := mkdict_from 0 vs [].

  (* [self._vertices[id_index_dict[v_id]] for v_id in e.vertex_ids] *)
  Fixpoint bind_ids (bvs : list bvertex) (d : dict) (ids : list Z) : result (list bvertex) :=
    match ids with
    | [] => Ok []
    | k :: r =>
        match dict_get d k with
        | None => Err KeyError
        | Some i =>
            match nth_error bvs i with
            | None => Err IndexError
            | Some v => match bind_ids bvs d r with Ok l => Ok (v :: l) | Err e => Err e end
            end
        end
    end.
  (* for e in self._edges: e.vertices = [...] *)
  Fixpoint bind_all (bvs : list bvertex) (d : dict) (es : list edge) : result (list bedge) :=
    match es with
    | [] => Ok []
    | e :: r =>
        match bind_ids bvs d (e_ids e) with
        | Err x => Err x
        | Ok vs => match bind_all bvs d r with Ok l => Ok (mkbedge e (Some vs) :: l) | Err x => Err x end
        end
    end.

  (* Graph(edges, vertices) *)
  Definition construct (es : list edge) (vs : list vertex) : result (list bedge * list bvertex) :=
    let bvs := assign 0 vs in
    let d := mkdict vs in
    match bind_all bvs d es with
    | Err x => Err x
    | Ok bes =>
        (* assert all(e.is_valid() for e in self._edges) *)
        if forallb is_valid bes then Ok (bes, bvs) else Err AssertionError
    end.
End Construct.

(* the custom edge classes used by the correspondence harness (tools/corr_eqvalid.py):
   class 0: tests/edge_types.py BaseEdgeForTests (no extra test);
   class 1: an edge on exactly one PoseR2 vertex with a (2, 2) information matrix *)
Definition custom_ok_harness (n : nat) (e : edge) (vs : list bvertex) : bool :=
  match n with
  | 1%nat => match vs with [v] => pkind_eqb (v_kind (b_v v)) PR2 && shape_is_square (e_info e) 2 | _ => false end
  | _ => true
  end.
