(* Meth.v — the shape of a translated pose method: for every control-flow path of the Python
   method body, the comparisons taken on that path and the value returned (a vector tagged with the
   class of the returned object, a matrix, a scalar, a raised exception), or [RUnsupported] when the
   translator refused the body.  Hand-written, stable. *)
From Coq Require Import List ZArith String.
From GS Require Import Expr.
Import ListNotations.

Inductive kind := KR2 | KR3 | KSE2 | KSE3 | KArr (n : nat) | KNone.
Inductive cmpop := CGt | CGe | CLt | CLe | CEq | CNe.
Record guard := mkguard { g_l : expr; g_op : cmpop; g_r : expr; g_taken : bool }.
Inductive result :=
| RVec (k : kind) (v : list expr)
| RMat (m : list (list expr))
| RScal (e : expr)
| RRaise (exn : string)
| RUnsupported (why : string).
Definition path := (list guard * result)%type.
Definition meth := list path.

(* accessors used by the proofs: they compute (cbv) to the literal lists *)
Definition vec_of_result (r : result) : list expr := match r with RVec _ v => v | _ => [] end.
Definition mat_of_result (r : result) : list (list expr) := match r with RMat m => m | _ => [] end.
Definition kind_of_result (r : result) : kind := match r with RVec k _ => k | _ => KNone end.
Definition nth_path (m : meth) (i : nat) : path := nth i m ([], RUnsupported "no such path").
Definition vec_of (m : meth) : list expr :=
  match m with [([], r)] => vec_of_result r | _ => [] end.
Definition mat_of (m : meth) : list (list expr) :=
  match m with [([], r)] => mat_of_result r | _ => [] end.
Definition kind_of (m : meth) : kind :=
  match m with [([], r)] => kind_of_result r | _ => KNone end.
Definition raises (m : meth) : option string :=
  match m with [([], RRaise s)] => Some s | _ => None end.
Definition path_vec (m : meth) (i : nat) : list expr := vec_of_result (snd (nth_path m i)).
Definition path_guards (m : meth) (i : nat) : list guard := fst (nth_path m i).

Definition supported_result (r : result) : bool := match r with RUnsupported _ => false | _ => true end.
Definition supported (m : meth) : bool := forallb (fun p => supported_result (snd p)) m.

Definition kind_eqb (a b : kind) : bool :=
  match a, b with
  | KR2, KR2 | KR3, KR3 | KSE2, KSE2 | KSE3, KSE3 | KNone, KNone => true
  | KArr n, KArr m => Nat.eqb n m
  | _, _ => false
  end.

(* exception names used in statements (so that proof files need not import String) *)
Definition NotImplementedError : string := "NotImplementedError"%string.
Definition ValueError : string := "ValueError"%string.
Definition IndexError : string := "IndexError"%string.
