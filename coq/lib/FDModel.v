(* FDModel.v — hand-written executable model of the numerical-differentiation fallback of
   graphslam/edge/base_edge.py (BaseEdge.calc_jacobians / BaseEdge._calc_jacobian):

     def calc_jacobians(self):
         err = self.calc_error()
         return [self._calc_jacobian(err, v.pose.COMPACT_DIMENSIONALITY, i) for i, v in enumerate(self.vertices)]

     def _calc_jacobian(self, err, dim, vertex_index):
         jacobian = np.zeros(err.shape + (dim,))
         p0 = self.vertices[vertex_index].pose.copy()
         for d in range(dim):
             delta_pose = np.zeros(dim); delta_pose[d] = self._NUMERICAL_DIFFERENTIATION_EPSILON
             self.vertices[vertex_index].pose += delta_pose          # BasePose.__iadd__ returns self + other: REBINDS
             jacobian[:, d] = (self.calc_error() - err) / self._NUMERICAL_DIFFERENTIATION_EPSILON
             self.vertices[vertex_index].pose = p0.copy()
         return jacobian

   The state is the list of the poses of the edge's vertices, in slot order, as VALUES: this is the
   meaning of the Python code as long as (a) `pose += delta` rebinds the vertex's attribute to a new
   object (so that vertices sharing one pose object are not perturbed together) and (b) the slots of
   an edge are distinct vertices.  The error function is any function of that list.
   Generic in the scalar type T (operations only, no laws) and in the pose type P: instantiated with
   PrimFloat in lib/FDModelF.v for the correspondence and with R for the theorems.  No proofs here. *)
From Coq Require Import List Arith Bool.
From GS Require Import GraphModel.
Import ListNotations.

Section FD.
Variables T P : Type.
Variable zero : T.
Variables sub div : T -> T -> T.
Variable h : T.                              (* _NUMERICAL_DIFFERENTIATION_EPSILON *)
Variable copy : P -> P.                      (* pose.copy() *)
Variable boxplus : P -> list T -> P.         (* pose + np.ndarray of the compact dimensionality *)
Variable err : list P -> list T.             (* calc_error() as a function of the poses of the edge's vertices *)
Variable dim : P -> nat.                     (* pose.COMPACT_DIMENSIONALITY *)

(* self.vertices[k].pose = x *)
Fixpoint set_nth (k : nat) (x : P) (l : list P) : list P :=
  match l, k with
  | [], _ => []
  | _ :: r, O => x :: r
  | y :: r, S k' => y :: set_nth k' x r
  end.

(* delta_pose = np.zeros(n); delta_pose[d] = t *)
Definition unit_vec (t : T) (n d : nat) : list T := map (fun i => if Nat.eqb i d then t else zero) (seq 0 n).

(* (self.calc_error() - err) / eps, componentwise *)
Definition fd_col (e1 e0 : list T) : list T := map (fun p => div (sub (fst p) (snd p)) h) (combine e1 e0).

(* one pass of the body of `for d in range(dim)`; the accumulator is (columns so far, poses) *)
Definition fd_step (k n : nat) (p0 : P) (err0 : list T) (acc : list (list T) * list P) (d : nat)
  : list (list T) * list P :=
  match nth_error (snd acc) k with
  | None => acc
  | Some cur =>
      let s1 := set_nth k (boxplus cur (unit_vec h n d)) (snd acc) in
      (fst acc ++ [fd_col (err s1) err0], set_nth k (copy p0) s1)
  end.

(* _calc_jacobian(err0, dim, k): the Jacobian as the list of its columns, and the poses it leaves behind *)
Definition calc_jacobian (err0 : list T) (s : list P) (k : nat) : list (list T) * list P :=
  match nth_error s k with
  | None => ([], s)
  | Some pk => let n := dim pk in fold_left (fd_step k n (copy pk) err0) (seq 0 n) ([], s)
  end.

(* calc_jacobians(): one column-list per vertex, each computed on the state left by the previous one *)
Definition calc_jacobians (s : list P) : list (list (list T)) * list P :=
  let err0 := err s in
  fold_left (fun acc k => let r := calc_jacobian err0 (snd acc) k in (fst acc ++ [fst r], snd r))
            (seq 0 (length s)) ([], s).

(* the Jacobian as a matrix of lib/GraphModel.v: rows = len(err), one column per compact coordinate *)
Definition jac_mat (m : nat) (cols : list (list T)) : mat T :=
  mkmat T m (length cols) (fun i j => nth i (nth j cols []) zero).
Definition jac_mats (s : list P) : list (mat T) :=
  map (jac_mat (length (err s))) (fst (calc_jacobians s)).
End FD.
