(* Spec.v — independently written specification of rigid motions, against which the translated pose
   code is compared (C09, C02): Hamilton product, rotation of a vector by a quaternion (q v conj q),
   homogeneous 4x4 / 3x3 matrices, SE(2) as (cos, sin, t).  Nothing here is derived from the code. *)
From Coq Require Import Reals List Lra.
From GS Require Import ExprR LinAlg.
Import ListNotations.
Open Scope R_scope.

(* quaternions are [x; y; z; w] *)
Definition qmul (a b : list R) : list R :=
  match a, b with
  | [ax; ay; az; aw], [bx; by_; bz; bw] =>
      [aw * bx + ax * bw + ay * bz - az * by_;
       aw * by_ - ax * bz + ay * bw + az * bx;
       aw * bz + ax * by_ - ay * bx + az * bw;
       aw * bw - ax * bx - ay * by_ - az * bz]
  | _, _ => []
  end.
Definition qconj (a : list R) : list R :=
  match a with [ax; ay; az; aw] => [- ax; - ay; - az; aw] | _ => [] end.
Definition qnorm2 (a : list R) : R := fold_right Rplus 0 (map (fun x => x * x) a).
(* rotation of the vector v by q:  vector part of  q (v,0) (conj q) *)
Definition qrot (q v : list R) : list R := firstn 3 (qmul (qmul q (v ++ [0])) (qconj q)).
Definition rotmat3 (q : list R) : list (list R) :=
  transpose [qrot q [1;0;0]; qrot q [0;1;0]; qrot q [0;0;1]].

(* a pose of SE(3) is [tx; ty; tz; qx; qy; qz; qw] *)
Definition trans3 (p : list R) := firstn 3 p.
Definition quat3 (p : list R) := skipn 3 p.
Definition hom3 (p : list R) : list (list R) :=
  match rotmat3 (quat3 p), trans3 p with
  | [r0; r1; r2], [t0; t1; t2] => [r0 ++ [t0]; r1 ++ [t1]; r2 ++ [t2]; [0; 0; 0; 1]]
  | _, _ => []
  end.
Definition spec_oplus3 (a b : list R) : list R := vadd (trans3 a) (qrot (quat3 a) (trans3 b)) ++ qmul (quat3 a) (quat3 b).
Definition spec_inv3 (a : list R) : list R := map Ropp (qrot (qconj (quat3 a)) (trans3 a)) ++ qconj (quat3 a).
Definition spec_act3 (a x : list R) : list R := vadd (trans3 a) (qrot (quat3 a) x).
Definition ident3 : list R := [0;0;0;0;0;0;1].

(* a pose of SE(2) is [x; y; theta] *)
Definition hom2 (p : list R) : list (list R) :=
  match p with
  | [x; y; th] => [[cos th; - sin th; x]; [sin th; cos th; y]; [0; 0; 1]]
  | _ => []
  end.
Definition spec_act2 (p v : list R) : list R :=
  match p, v with
  | [x; y; th], [a; b] => [x + cos th * a - sin th * b; y + sin th * a + cos th * b]
  | _, _ => []
  end.
Definition ident2 : list R := [0;0;0].
