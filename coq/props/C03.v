(* props/C03.v -- PROPERTY C03: one optimizer iteration is exactly the Gauss-Newton step (lib/GraphModel.v, the executable model of graph.py's assembly and update, equals the independently written normal equations lib/GNSpec.v)
   Only the statement, closed by [exact]; proofs are in proofs/C03_*.v. *)
From Coq Require Import Reals List Arith Bool Lia Lra.
From GS Require Import GraphModel GNSpec C03_sums C03_index C03_assembly C06_main C03_extra C03_all.
Import ListNotations.
Open Scope R_scope.

Theorem C03 :
  (* ---- the assembled gradient, Hessian and chi2 are the Gauss-Newton system of lib/GNSpec.v, for every
          well-formed graph: any number of edges, parallel edges, slots in either order, 1..n slots,
          mixed dimensions, any set of fixed vertices ---- *)
  assembly_statement /\
  (* ---- one iteration: every free vertex moves by boxplus of its own slice of dx, fixed ones stay ---- *)
  (forall (P : Type) (bp : nat -> P -> list R -> P) vs (poses : list P) dx k d, (k < length poses)%nat ->
     nth k (apply_update R bp vs poses dx) d =
     if fixed_at vs k then nth k poses d else bp k (nth k poses d) (dx_slice R vs dx k)) /\
  (forall (P : Type) (bp : nat -> P -> list R -> P) vs (poses : list P) dx, length (apply_update R bp vs poses dx) = length poses) /\
  (* ---- the hypothesis "slots distinct" cannot be dropped ---- *)
  (assemble_hessian R 0 1 Rplus Rmult selfloop_vs [selfloop_e] 0 0 = 7 /\ spec_H selfloop_vs [selfloop_e] 0 0 = 9) /\
  (* ---- and the hypotheses are satisfiable (mixed dims 2,3,2, a fixed vertex, slots in decreasing order) ---- *)
  wf_graph ex_vs [ex_e1; ex_e2].
Proof. exact C03_all. Qed.
Print Assumptions C03.
