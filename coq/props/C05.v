(* props/C05.v -- PROPERTY C05 (the part that is logic; PARTIAL): chi2 derivative of every SE(2)/SE(3) edge, the gradient assembled for whole SE(3) and SE(2) graphs is half the gradient of chi2 on the manifold (end to end through the assembly algorithm), stationarity <-> zero gradient, descent, consistent configurations, stopping rule.  The quantitative local-convergence claim (basin of attraction, double-precision Newton decrement) is NOT a theorem: it is the calibrated soak test of tools/props/c05.py.
   Only the statement, closed by [exact]; proofs are in proofs/C05_*.v. *)
From Coq Require Import Reals List Arith Bool.
From Coquelicot Require Import Coquelicot.
From GS Require Import ExprR LinAlg Chi2 Wrap GraphModel GNSpec LinearSpec OptLoopR C01_SE3 C01_SE2 C09_SE2 C09_SE3 C10_SE3_boxplus C05_main C05_chi2
  C03_accumulate C07_glue C07_inst C07_whole C05_grad C05_grad2 C05_assembled C05_all.
Import ListNotations.
Open Scope R_scope.

Theorem C05 :
 (  (* the chi2 of an edge along a boxplus perturbation of a vertex is differentiable and its derivative is built from the error and
     the code's Jacobian: (J u)^T Omega e + e^T Omega (J u)  (generic lemmas quad_derive / quad_derive_curve + C01), for the SE(3) and
     SE(2) edge kinds and both vertices; SE(2): base pose in range (every constructed pose, C11), odometry off the jump set of the error *)
  (forall om p1 p2 z u, length p1 = 7%nat -> length p2 = 7%nat -> length z = 7%nat -> length u = 6%nat ->
     let e0 := err_odo3 p1 p2 z in
     (let Ju := matvec (nth 0 (jac_odo3 p1 p2 z) []) u in
      is_derive (fun t => quad (err_odo3 (SE3_boxplus_fun p1 (vscale t u)) p2 z) om) 0 (dotR Ju (matvec om e0) + dotR e0 (matvec om Ju))) /\
     (let Ju := matvec (nth 1 (jac_odo3 p1 p2 z) []) u in
      is_derive (fun t => quad (err_odo3 p1 (SE3_boxplus_fun p2 (vscale t u)) z) om) 0 (dotR Ju (matvec om e0) + dotR e0 (matvec om Ju)))) /\
  (forall om p l z off u, length p = 7%nat -> length l = 3%nat -> length z = 3%nat -> length off = 7%nat -> length u = 6%nat ->
     let e0 := err_lmk3 p l z off in let Ju := matvec (nth 0 (jac_lmk3 p l z off) []) u in
     is_derive (fun t => quad (err_lmk3 (SE3_boxplus_fun p (vscale t u)) l z off) om) 0 (dotR Ju (matvec om e0) + dotR e0 (matvec om Ju))) /\
  (forall om p l z off u, length p = 7%nat -> length l = 3%nat -> length z = 3%nat -> length off = 7%nat -> length u = 3%nat ->
     let e0 := err_lmk3 p l z off in let Ju := matvec (nth 1 (jac_lmk3 p l z off) []) u in
     is_derive (fun t => quad (err_lmk3 p (R3_boxplus_fun l (vscale t u)) z off) om) 0 (dotR Ju (matvec om e0) + dotR e0 (matvec om Ju))) /\
  (forall om p1 p2 z u, length p1 = 3%nat -> length p2 = 3%nat -> length z = 3%nat -> length u = 3%nat ->
     not_at_wrap (nth 2 z 0 - (nth 2 p2 0 - nth 2 p1 0)) ->
     let e0 := err_odo2 p1 p2 z in
     (in_range p1 -> let Ju := matvec (nth 0 (jac_odo2 p1 p2 z) []) u in
        is_derive (fun t => quad (err_odo2 (SE2_boxplus_fun p1 (vscale t u)) p2 z) om) 0 (dotR Ju (matvec om e0) + dotR e0 (matvec om Ju))) /\
     (in_range p2 -> let Ju := matvec (nth 1 (jac_odo2 p1 p2 z) []) u in
        is_derive (fun t => quad (err_odo2 p1 (SE2_boxplus_fun p2 (vscale t u)) z) om) 0 (dotR Ju (matvec om e0) + dotR e0 (matvec om Ju)))) /\
  (forall om p l z off u, length p = 3%nat -> length l = 2%nat -> length z = 2%nat -> length off = 3%nat -> length u = 3%nat ->
     in_range p ->
     let e0 := err_lmk2 p l z off in let Ju := matvec (nth 0 (jac_lmk2 p l z off) []) u in
     is_derive (fun t => quad (err_lmk2 (SE2_boxplus_fun p (vscale t u)) l z off) om) 0 (dotR Ju (matvec om e0) + dotR e0 (matvec om Ju))) /\
  (forall (om : list (list R)) (F : R -> list R) (Ju : list R) (m : nat),
     (forall t, length (F t) = m) -> length Ju = m -> (forall i, is_derive (fun t => nth i (F t) 0) 0 (nth i Ju 0)) ->
     is_derive (fun t => quad (F t) om) 0 (dotR Ju (matvec om (F 0)) + dotR (F 0) (matvec om Ju))) /\
  (forall (om : list (list R)) (fs : list (R -> R)) (vs : list R) t0, Forall2 (fun f v => is_derive f t0 v) fs vs ->
     is_derive (fun t => quad (evalfs fs t) om) t0 (dotR vs (matvec om (evalfs fs t0)) + dotR (evalfs fs t0) (matvec om vs))) /\
  (* a state is first-order stationary (2 b.d = 0 for every direction keeping the fixed vertices) iff the assembled gradient vanishes,
     i.e. iff it is a fixed point of the iteration for an injective H *)
  (forall vs es, (forall d, zero_on_fixed vs d -> sumnR (glen vs) (fun r => spec_b vs es r * d r) = 0) <->
                 (forall r, (r < glen vs)%nat -> spec_b vs es r = 0)) /\
  (* the Gauss-Newton increment is a descent direction *)
  (forall vs es dx, solves (glen vs) (spec_H vs es) (spec_b vs es) dx ->
     sumnR (glen vs) (fun r => spec_b vs es r * dx r) = - sumnR (glen vs) (fun r => sumnR (glen vs) (fun c => dx r * spec_H vs es r c * dx c))) /\
  (* a consistent configuration (all errors zero) has chi2 = 0 and zero gradient *)
  (forall vs es, List.Forall zero_err es -> spec_chi2 es = 0 /\ (forall r, spec_b vs es r = 0)) /\
  (* the stopping rule never reports convergence on an increase ... *)
  (forall tol prev c, documented_stop tol prev c -> c <= prev) /\
  (* ... but "final chi2 <= initial chi2" is NOT a consequence of the stopping rule alone *)
  (exists c0 c1 c2 tol, documented_stop tol c1 c2 /\ ~ documented_stop tol c0 c1 /\ c0 < c2)) /\
  (* ---- THE GRADIENT OF WHOLE SE(3) GRAPHS (proofs/C05_grad.v).  A graph over one pose per vertex position ([poses]; 7 numbers for a pose, 3 for a
          landmark) with odometry and landmark edges that look their vertices up ([descr poses g]); [rec3] builds the lib/GraphModel.v record from what
          the regenerated error / Jacobian programs return.  For every such graph, every free vertex k and every tangent coordinate i, chi^2 of the
          graph is differentiable along  pose_k [+] t e_i  (the update the optimizer applies) and its derivative at 0 is TWICE the entry of the
          gradient vector of the normal equations (spec_b = what graph.py assembles, theorem C03).  chi^2 of the graph is spec_chi2 of the records. ---- *)
  (forall vs lm poses gs k i,
     length poses = length vs -> List.Forall (okg vs lm poses) gs -> (k < length vs)%nat -> (i < dim_at vs k)%nat -> fixed_at vs k = false ->
     is_derive (fun t => chi2_graph (upd poses k (bp3 (lm k) (nth k poses []) (vscale t (basis (dim_at vs k) i)))) gs) 0
               (2 * spec_b vs (map rec3 (map (descr poses) gs)) (gi vs k + i))) /\
  (forall vs lm poses gs, List.Forall (okg vs lm poses) gs -> chi2_graph poses gs = spec_chi2 (map rec3 (map (descr poses) gs))) /\
  (* the same for whole SE(2) graphs (proofs/C05_grad2.v), under the SE(2) side conditions of C01: stored angles in [-pi, pi) and no odometry edge on
     the jump set of its own error ([side2] inside [okg2]); premises met by a concrete three-vertex graph *)
  (forall vs lm poses gs k i,
     length poses = length vs -> List.Forall (okg2 vs lm poses) gs -> (k < length vs)%nat -> (i < dim_at vs k)%nat -> fixed_at vs k = false ->
     is_derive (fun t => chi2_graph2 (upd poses k (bp2 (lm k) (nth k poses []) (vscale t (basis (dim_at vs k) i)))) gs) 0
               (2 * spec_b vs (map rec2 (map (descr2 poses) gs)) (gi vs k + i))) /\
  (length ex2_poses = length ex2_vs /\ List.Forall (okg2 ex2_vs ex2_lm ex2_poses) ex2_gs /\
   (1 < length ex2_vs)%nat /\ (2 < dim_at ex2_vs 1)%nat /\ fixed_at ex2_vs 1 = false) /\
  (* END TO END (proofs/C05_assembled.v): what the ALGORITHM of graph.py (lib/GraphModel.v: contributions, dictionary accumulation, slice writes, fixed
     vertices zeroed -- tied to graph.py by the exact integer correspondence) assembles from the records of the regenerated programs is half the gradient
     of the graph's chi^2 along the update curve of every free vertex, and its chi^2 is the graph's chi^2 *)
  (forall vs lm poses gs k i,
     length poses = length vs -> List.Forall (fun v => (0 < v_dim v)%nat) vs -> List.Forall (okg vs lm poses) gs ->
     (k < length vs)%nat -> (i < dim_at vs k)%nat -> fixed_at vs k = false ->
     is_derive (fun t => chi2_graph (upd poses k (bp3 (lm k) (nth k poses []) (vscale t (basis (dim_at vs k) i)))) gs) 0
               (2 * assemble_gradient R 0 Rplus Rmult vs (map rec3 (map (descr poses) gs)) (gi vs k + i))
     /\ assemble_chi2 R 0 Rplus Rmult vs (map rec3 (map (descr poses) gs)) = chi2_graph poses gs) /\
  (forall vs lm poses gs k i,
     length poses = length vs -> List.Forall (fun v => (0 < v_dim v)%nat) vs -> List.Forall (okg2 vs lm poses) gs ->
     (k < length vs)%nat -> (i < dim_at vs k)%nat -> fixed_at vs k = false ->
     is_derive (fun t => chi2_graph2 (upd poses k (bp2 (lm k) (nth k poses []) (vscale t (basis (dim_at vs k) i)))) gs) 0
               (2 * assemble_gradient R 0 Rplus Rmult vs (map rec2 (map (descr2 poses) gs)) (gi vs k + i))) /\
  (* the premises are met by a concrete three-vertex graph (two poses, the first fixed, one landmark; one odometry edge, two observations) *)
  (length ex_poses = length ex_vs /\ List.Forall (okg ex_vs ex_lm ex_poses) ex_gs /\
   (1 < length ex_vs)%nat /\ (4 < dim_at ex_vs 1)%nat /\ fixed_at ex_vs 1 = false /\
   (2 < length ex_vs)%nat /\ (2 < dim_at ex_vs 2)%nat /\ fixed_at ex_vs 2 = false).
Proof. exact C05_all. Qed.
Print Assumptions C05.
