(* props/C18.v — PROPERTY C18: graph construction binds edges by vertex id and rejects ill-typed edges.
   Only statements, closed by [exact]; proofs in proofs/C18_construct.v, proofs/C18_sound.v.
   [construct custom_ok es vs] (lib/ValidModel.v) is the executable model of Graph(edges, vertices);
   [binds], [known], [all_known], [consistent], [admissible_landmark] (lib/ValidSpec.v) are the
   declarative specification; [odo_err], [lm_err], [*_jac_shapes], [odo_silent], [lm_silent]
   (lib/ValidTables.v) are computed from the pose model regenerated from graphslam/pose/*.py.
   [custom_ok n] is the is_valid test of the n-th user edge class (arbitrary). *)
From Coq Require Import List ZArith Bool Permutation.
From GS Require Import PyBase ValidModel ValidSpec ValidTables C18_construct C18_sound.
Import ListNotations.

(* every slot of every edge is bound to the vertex its id names: the LAST vertex of the list that
   carries this id, with gradient_index = sum of the dimensions of the vertices before it *)
Theorem C18_binding : forall custom_ok es vs bes bvs,
  construct custom_ok es vs = Ok (bes, bvs) ->
  bvs = assign 0 vs /\
  Forall2 (fun e b => be_e b = e /\ exists bl, be_vs b = Some bl /\ Forall2 (binds vs) (e_ids e) bl) es bes.
Proof. exact construct_binding. Qed.
Print Assumptions C18_binding.

(* the vertex an id is bound to does not depend on the order of the vertex list (ids distinct) *)
Theorem C18_binding_order_independent : forall vs vs' k b,
  NoDup (map v_id vs) -> Permutation vs vs' -> binds vs k b -> exists b', binds vs' k b' /\ b_v b' = b_v b.
Proof. exact binding_order_independent. Qed.
Print Assumptions C18_binding_order_independent.

(* with duplicate ids the last vertex wins (stated; a concrete witness) *)
Theorem C18_duplicates_last_wins :
  construct (fun _ _ _ => true) [mkedge (Custom 0) [7%Z] [1%nat; 1%nat] OFloat ONone]
            [mkvertex 7 PR2; mkvertex 7 PSE3] =
  Ok ([mkbedge (mkedge (Custom 0) [7%Z] [1%nat; 1%nat] OFloat ONone) (Some [mkbvertex (mkvertex 7 PSE3) 2])],
      [mkbvertex (mkvertex 7 PR2) 0; mkbvertex (mkvertex 7 PSE3) 2]).
Proof. exact duplicate_ids_last_wins. Qed.
Print Assumptions C18_duplicates_last_wins.

Theorem C18_unknown_id : forall custom_ok es vs,
  ~ all_known es vs -> construct custom_ok es vs = Err KeyError.
Proof. exact construct_unknown_id. Qed.
Print Assumptions C18_unknown_id.

(* every consistent graph is accepted, no inconsistent edge is ever accepted *)
Theorem C18_iff : forall custom_ok es vs,
  (exists g, construct custom_ok es vs = Ok g) <->
  (all_known es vs /\ forall e, In e es -> consistent custom_ok vs e).
Proof. exact construct_iff. Qed.
Print Assumptions C18_iff.

Theorem C18_inconsistent_rejected : forall custom_ok es vs e,
  all_known es vs -> In e es -> ~ consistent custom_ok vs e -> construct custom_ok es vs = Err AssertionError.
Proof. exact construct_inconsistent. Qed.
Print Assumptions C18_inconsistent_rejected.

(* [consistent] against the regenerated pose model: consistent edges compute, with conforming shapes *)
Theorem C18_consistent_sound_odometry : forall custom_ok vs e,
  e_class e = Odometry -> consistent custom_ok vs e ->
  exists K, e_est e = OPose K /\ e_info e = [pdim K; pdim K] /\
            odo_err K K K = Some K /\ pdim K = gen_compact K /\
            odo_jac_shapes K = [Some (pdim K, pdim K); Some (pdim K, pdim K)].
Proof. exact consistent_odometry_sound. Qed.
Print Assumptions C18_consistent_sound_odometry.

Theorem C18_consistent_sound_landmark : forall custom_ok vs e,
  e_class e = Landmark -> consistent custom_ok vs e ->
  exists K0 K1, admissible_landmark K0 K1 /\ e_off e = OPose K0 /\ e_est e = OPose K1 /\ e_info e = [pdim K1; pdim K1] /\
            lm_err K0 K0 K1 K1 = Some K1 /\ pdim K1 = gen_compact K1 /\
            lm_jac_shapes K0 K1 = [Some (pdim K1, pdim K0); Some (pdim K1, pdim K1)].
Proof. exact consistent_landmark_sound. Qed.
Print Assumptions C18_consistent_sound_landmark.

(* every other combination of classes: some operation raises, or it is one of the listed silent
   confusions (an R^3 / SE(2) / SE(3) operand read as a plain array of >= 3 numbers) *)
Theorem C18_inconsistent_classes_odometry : forall K0 K1 Ke,
  odo_err K0 K1 Ke = None \/ (K1 = K0 /\ Ke = K0) \/ In (K0, K1, Ke) odo_silent.
Proof. exact odo_classification. Qed.
Print Assumptions C18_inconsistent_classes_odometry.

Theorem C18_inconsistent_classes_landmark : forall K0 Ko K1 Ke,
  lm_err K0 Ko K1 Ke = None \/ (admissible_landmark K0 K1 /\ Ko = K0 /\ Ke = K1) \/ In (K0, Ko, K1, Ke) lm_silent.
Proof. exact lm_classification. Qed.
Print Assumptions C18_inconsistent_classes_landmark.

Theorem C18_silent_lists :
  odo_silent = [(PR3, PR3, PSE2); (PR3, PSE2, PR3); (PR3, PSE2, PSE2); (PSE2, PR3, PR3); (PSE2, PR3, PSE2);
                (PSE2, PSE2, PR3); (PSE3, PSE2, PR3); (PSE3, PSE2, PSE2); (PSE3, PSE3, PSE2)] /\
  List.length lm_silent = 33%nat.
Proof. exact (conj odo_silent_is lm_silent_count). Qed.
Print Assumptions C18_silent_lists.
