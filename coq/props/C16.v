(* props/C16.v — PROPERTY C16 (PARTIAL): custom edges with numerical Jacobians optimize like analytic ones.
   Only statements, each closed by [exact]; proofs are in proofs/C16_*.v.  Proved here = the logic:
     C16_fd_matrix        what the loop of BaseEdge.calc_jacobians (lib/FDModel.v) returns and leaves behind
     C16_fd_matrix_copy_id  the same when copy() is the identity on the poses (constructed poses, C11)
     C16_fd_error(_1e6)   Taylor-Lagrange bound of a forward difference
     C16_fd_entry_error   the two combined: every entry of the model's matrix is within M h / 2 of the
                          directional derivative of the error along boxplus
     C16_pairs            an n-slot edge contributes J_i^T Omega J_j exactly for the pairs i <= j < n
     C16_assembly_fd      hence (assembly theorem of C03, valid for ANY Jacobians, instantiated) the assembled
                          system of a graph whose edges carry the FD Jacobians is their Gauss-Newton system
     C16_zero_residual    zero errors => zero right-hand side and chi2 whatever the Jacobians; with an
                          injective H the only solution is dx = 0: numerical and analytic runs share this fixed point
   NOT proved (tested by tools/oracle_fd.py, labelled tests): the bound M for each member of the edge
   family, cancellation in doubles at h = 1e-6, equality of the optima of the two runs on noisy problems.
   [state_before P copy dim s k] = the poses when slot k is about to be differentiated (characterised by
   the conjunct on nth_error below). *)
From Coq Require Import Reals List Arith Bool Lia.
From Coquelicot Require Import Coquelicot.
From GS Require Import GraphModel GNSpec FDModel C03_assembly C16_fd C16_taylor C16_pairs C16_zero.
Import ListNotations.

Theorem C16_fd_matrix :
  forall (T P : Type) (zero : T) (sub div : T -> T -> T) (h : T) (copy : P -> P) (boxplus : P -> list T -> P)
         (err : list P -> list T) (dim : P -> nat) (s : list P) (k : nat) (pk : P),
  nth_error s k = Some pk ->
  let r := calc_jacobians T P zero sub div h copy boxplus err dim s in
  let pert d := set_nth P k (boxplus (if Nat.eqb d 0 then pk else copy (copy pk)) (unit_vec T zero h (dim pk) d))
                        (state_before P copy dim s k) in
  (* one Jacobian per slot *)
  length (fst r) = length s /\
  (exists Jk, nth_error (fst r) k = Some Jk /\ length Jk = dim pk /\
     forall d, (d < dim pk)%nat ->
       (* column d = (err(poses with slot k perturbed by h e_d) - err(poses at the start)) / h: the perturbation is
          applied to the CURRENT pose object (the original for d = 0, copy (copy p_k) afterwards) *)
       nth d Jk [] = fd_col T sub div h (err (pert d)) (err s) /\
       forall i z, (i < length (err s))%nat -> (i < length (err (pert d)))%nat ->
         nth i (nth d Jk []) z = div (sub (nth i (err (pert d)) z) (nth i (err s) z)) h) /\
  (* slots before k have been saved/restored, slots from k on are untouched *)
  (forall j, nth_error (state_before P copy dim s k) j =
             if Nat.ltb j k then option_map (fun p => if Nat.eqb (dim p) 0 then p else copy (copy p)) (nth_error s j)
             else nth_error s j) /\
  (* the poses left behind *)
  snd r = map (fun p => if Nat.eqb (dim p) 0 then p else copy (copy p)) s.
Proof. exact fd_matrix. Qed.
Print Assumptions C16_fd_matrix.

Theorem C16_fd_matrix_copy_id :
  forall (T P : Type) (zero : T) (sub div : T -> T -> T) (h : T) (copy : P -> P) (boxplus : P -> list T -> P)
         (err : list P -> list T) (dim : P -> nat) (s : list P) (k : nat) (pk : P),
  (forall p, copy p = p) ->
  nth_error s k = Some pk ->
  let r := calc_jacobians T P zero sub div h copy boxplus err dim s in
  let pert d := set_nth P k (boxplus pk (unit_vec T zero h (dim pk) d)) s in
  snd r = s /\
  exists Jk, nth_error (fst r) k = Some Jk /\ length Jk = dim pk /\
    forall d, (d < dim pk)%nat ->
      nth d Jk [] = fd_col T sub div h (err (pert d)) (err s) /\
      forall i z, (i < length (err s))%nat -> (i < length (err (pert d)))%nat ->
        nth i (nth d Jk []) z = div (sub (nth i (err (pert d)) z) (nth i (err s) z)) h.
Proof. exact fd_matrix_copy_id. Qed.
Print Assumptions C16_fd_matrix_copy_id.

Open Scope R_scope.

Theorem C16_fd_error :
  forall (phi : R -> R) (h M : R),
  0 < h ->
  (forall t, 0 <= t <= h -> forall k, (k <= 2)%nat -> ex_derive_n phi k t) ->
  (forall t, 0 < t < h -> Rabs (Derive_n phi 2 t) <= M) ->
  Rabs ((phi h - phi 0) / h - Derive phi 0) <= M * h / 2.
Proof. exact fd_error. Qed.
Print Assumptions C16_fd_error.

Theorem C16_fd_error_1e6 :
  forall (phi : R -> R) (M : R),
  (forall t, 0 <= t <= / 1000000 -> forall k, (k <= 2)%nat -> ex_derive_n phi k t) ->
  (forall t, 0 < t < / 1000000 -> Rabs (Derive_n phi 2 t) <= M) ->
  Rabs ((phi (/ 1000000) - phi 0) / (/ 1000000) - Derive phi 0) <= M / 2000000.
Proof. exact fd_error_1e6. Qed.
Print Assumptions C16_fd_error_1e6.

Theorem C16_fd_entry_error :
  forall (P : Type) (copy : P -> P) (boxplus : P -> list R -> P) (err : list P -> list R) (dim : P -> nat)
         (h M : R) (s : list P) (k : nat) (pk : P) (d i : nat),
  let phi t := nth i (err (set_nth P k (boxplus pk (unit_vec R 0 t (dim pk) d)) s)) 0 in
  0 < h ->
  (forall p, copy p = p) ->
  nth_error s k = Some pk -> (d < dim pk)%nat ->
  boxplus pk (unit_vec R 0 0 (dim pk) d) = pk ->
  (i < length (err s))%nat ->
  (i < length (err (set_nth P k (boxplus pk (unit_vec R 0%R h (dim pk) d)) s)))%nat ->
  (forall t, 0 <= t <= h -> forall n, (n <= 2)%nat -> ex_derive_n phi n t) ->
  (forall t, 0 < t < h -> Rabs (Derive_n phi 2 t) <= M) ->
  exists Jk, nth_error (fst (calc_jacobians R P 0 Rminus Rdiv h copy boxplus err dim s)) k = Some Jk /\
    Rabs (nth i (nth d Jk []) 0 - Derive phi 0) <= M * h / 2 /\
    snd (calc_jacobians R P 0 Rminus Rdiv h copy boxplus err dim s) = s.
Proof. exact fd_entry_error. Qed.
Print Assumptions C16_fd_entry_error.

Theorem C16_pairs :
  forall (T : Type) (zero : T) (add mul : T -> T -> T) (vs : list vertex) (e : edge T),
  let n := length (e_jac T e) in
  let entry ij := ((gi vs (slot_at T e (fst ij)), gi vs (slot_at T e (snd ij))),
                   mdot T zero add mul (mdot T zero add mul (mtr T (jac_at T zero e (fst ij))) (e_om T e)) (jac_at T zero e (snd ij))) in
  (* the contributions are the blocks J_i^T Omega J_j of the index pairs below, in this order *)
  hess_contribs T zero add mul vs e = map entry (upper_pairs n) /\
  (forall i j, In (i, j) (upper_pairs n) <-> (i <= j < n)%nat) /\
  NoDup (upper_pairs n) /\
  (2 * length (hess_contribs T zero add mul vs e) = n * (n + 1))%nat /\
  (forall i j, (i <= j < n)%nat -> In (entry (i, j)) (hess_contribs T zero add mul vs e)) /\
  (forall x, In x (hess_contribs T zero add mul vs e) -> exists i j, (i <= j < n)%nat /\ x = entry (i, j)).
Proof. exact pairs_statement. Qed.
Print Assumptions C16_pairs.

Theorem C16_assembly_fd :
  forall (P : Type) (h : R) (copy : P -> P) (boxplus : P -> list R -> P) (dim : P -> nat)
         (vs : list vertex) (poses : list P) (dflt : P) (descs : list (fd_desc P)),
  (* each edge: its slots, its error function of the poses of its slots, its information matrix; error and
     Jacobians as calc_chi2_gradient_hessian obtains them, the Jacobians from the differentiation loop *)
  let es := map (fun d => let s := map (fun k => nth k poses dflt) (d_slots P d) in
                          mkedge R (d_slots P d) (vec_of_list R 0 (d_err P d s)) (d_om P d)
                                 (jac_mats R P 0 Rminus Rdiv h copy boxplus (d_err P d) dim s)) descs in
  wf_graph vs es ->
  (forall r, (r < glen vs)%nat -> assemble_gradient R 0 Rplus Rmult vs es r = spec_b vs es r) /\
  (forall r c, (r < glen vs)%nat -> (c < glen vs)%nat -> assemble_hessian R 0 1 Rplus Rmult vs es r c = spec_H vs es r c) /\
  assemble_chi2 R 0 Rplus Rmult vs es = spec_chi2 es.
Proof. exact assembly_fd. Qed.
Print Assumptions C16_assembly_fd.

Theorem C16_zero_residual :
  (forall vs es, (forall e, In e es -> forall i, snd (e_err R e) i = 0) ->
     (forall r, spec_b vs es r = 0) /\ spec_chi2 es = 0) /\
  (forall vs es dx, (forall e, In e es -> forall i, snd (e_err R e) i = 0) ->
     (forall x, (forall r, (r < glen vs)%nat -> sumnR (glen vs) (fun c => spec_H vs es r c * x c) = 0) ->
                forall c, (c < glen vs)%nat -> x c = 0) ->
     solves (glen vs) (spec_H vs es) (spec_b vs es) dx ->
     forall c, (c < glen vs)%nat -> dx c = 0).
Proof.
  exact (conj (fun vs es Hz => conj (spec_b_zero vs es Hz) (spec_chi2_zero es Hz)) zero_residual_fixed_point).
Qed.
Print Assumptions C16_zero_residual.
