(* props/C06.v -- PROPERTY C06: fixed vertices never move and the free vertices solve the reduced problem (over lib/GraphModel.v / lib/GNSpec.v, with the assembly theorem)
   Only the statement, closed by [exact]; proofs are in proofs/C06_*.v. *)
From Coq Require Import Reals List Arith Bool Lia Lra.
From GS Require Import ExprR LinAlg Meth MethR GraphModel GNSpec C03_sums C03_index C03_assembly C06_main
  GenSE2 GenSE3 C10_SE3 C10_SE3_boxplus C10_SE2 C09_SE2 C01_SE3 C01_SE2 C06_zero C06_all.
Import ListNotations.
Open Scope R_scope.

Theorem C06 :
  (* ---- assembled system on a fixed vertex: zero gradient, identity row and column ---- *)
  (forall vs es r c, (r < glen vs)%nat -> (c < glen vs)%nat -> is_fixed_index vs r = true ->
     spec_b vs es r = 0 /\ spec_H vs es r c = ind (Nat.eqb r c) /\ spec_H vs es c r = ind (Nat.eqb c r)) /\
  (* ---- hence ANY solution of the normal equations leaves the fixed blocks at zero ---- *)
  (forall vs es dx r, (r < glen vs)%nat -> is_fixed_index vs r = true ->
     solves (glen vs) (spec_H vs es) (spec_b vs es) dx -> dx r = 0) /\
  (* ---- the update loop skips fixed vertices: they keep their pose for any number of iterations and ANY
          increments (singular / non-finite / diverging solves included) ---- *)
  (forall (P : Type) (bp : nat -> P -> list R -> P) vs (dxs : list (nat -> R)) (poses : list P) k d,
     (k < length poses)%nat -> fixed_at vs k = true ->
     nth k (fold_left (fun ps dx => apply_update R bp vs ps dx) dxs poses) d = nth k poses d) /\
  (* ---- a zero increment does not move a pose either ---- *)
  (forall s u, length s = 7%nat -> length u = 6%nat -> SE3_boxplus_fun s (vscale 0 u) = s) /\
  (forall p, length p = 3%nat -> in_range p -> SE2_boxplus_fun p (zeros 3) = p) /\
  (* ---- the free vertices solve the reduced problem ---- *)
  (forall vs es dx r, (r < glen vs)%nat -> is_fixed_index vs r = false ->
     solves (glen vs) (spec_H vs es) (spec_b vs es) dx ->
     sumnR (glen vs) (fun c => ind (negb (is_fixed_index vs c)) * (spec_H vs es r c * dx c)) = - spec_b vs es r) /\
  (* ---- fixing vertices keeps a well-posed problem well-posed ---- *)
  (forall vs es,
     (forall x, (forall r, (r < glen vs)%nat -> is_fixed_index vs r = false ->
                   sumnR (glen vs) (fun c => ind (negb (is_fixed_index vs c)) * (spec_H vs es r c * x c)) = 0) ->
                forall c, (c < glen vs)%nat -> is_fixed_index vs c = false -> x c = 0) ->
     forall x, (forall r, (r < glen vs)%nat -> sumnR (glen vs) (fun c => spec_H vs es r c * x c) = 0) ->
               forall c, (c < glen vs)%nat -> x c = 0) /\
  (* ---- fix_first_pose ---- *)
  (forall vs, vs <> [] ->
     fixed_at (prep_fixed true vs) 0 = true /\
     (forall k, (0 < k)%nat -> fixed_at (prep_fixed true vs) k = fixed_at vs k) /\
     (forall k, dim_at (prep_fixed true vs) k = dim_at vs k) /\
     prep_fixed false vs = vs).
Proof. exact C06_all. Qed.
Print Assumptions C06.
