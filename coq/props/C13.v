(* props/C13.v -- PROPERTY C13: .g2o export followed by import is lossless.
   Only statements, closed by [exact]; proofs in proofs/C13_*.v (and C14_*.v).  Model: lib/G2OModel.v
   ([export] = Graph.to_g2o, [import] = Graph.from_g2o, [render] = the text of a line, [canon] = what one
   cycle may change); vocabulary ([wf], [expressible], [good_tok], [symm], ...): lib/G2OSpec.v.

   TRUSTED ORACLE (Section hypotheses, each validated on every run by tools/corr_g2o.py, none proved):
     parse_print     float(str(x)) == x            (bitwise, every number written)
     parse_print_id  int(str(i)) == i
     print_good / print_id_good   str(x), str(i) are non-empty and contain no whitespace
     wrap_idem       neg_pi_to_pi(neg_pi_to_pi(a)) == neg_pi_to_pi(a)      (only C13_cycles)
     normq_length    len(normalize(q)) == len(q); eq0_zero  0.0 == 0.0    (only C13_cycles_n)
     normq_idem      normalize(normalize(q)) == normalize(q)               (only C13_cycles, C13_cycles_n; true of the real-number
                     model, true of the doubles only up to 1 ulp -- the harness measures it; see evidence) *)
From Coq Require Import List ZArith String Ascii Bool Arith.
From GS Require Import G2OModel G2OSpec C13_roundtrip C13_cycles.
Import ListNotations.
Open Scope string_scope.
Open Scope list_scope.
Open Scope nat_scope.

Section C13.
  Variable num : Type.
  Variable print : num -> string.
  Variable parse : string -> option num.
  Variable print_id : Z -> string.
  Variable parse_id : string -> option Z.
  Variable wrap : num -> num.
  Variable normq : list num -> list num.
  Variable zero : num.
  Variable eq0 : num -> bool.
  Variable eqn : num -> num -> bool.
  Notation export := (export num print print_id eq0 eqn).
  Notation import := (import num parse parse_id wrap normq zero).
  Notation canon := (canon num wrap normq zero eqn).
  Notation wf := (wf num).
  Notation expressible := (expressible num eq0 eqn).

  (* for ALL graphs Graph.__init__ accepts (wf: edges bound by id and valid, array lengths of the pose types,
     distinct parameter keys, SYMMETRIC information) that the format can express, with no custom edge that
     writes itself, and whatever custom types are registered for reading (cts_ok): the file is written, and
     reading it gives exactly canon g -- same ids, kinds, order, every number the very atom that was written
     (wrap on SE(2) angles, normq on EDGE_SE3:QUAT measurements only), information matrices identical,
     offsets resolved through their parameter ids -- and no warning *)
  Theorem C13_roundtrip :
    (forall x, parse (print x) = Some x) -> (forall z, parse_id (print_id z) = Some z) ->
    (forall x, good_tok (print x)) -> (forall z, good_tok (print_id z)) ->
    forall cts g, cts_ok cts -> wf g -> no_written_custom num g -> expressible g ->
    exists ls, export g = Ok ls /\ import cts (map render ls) = Ok (canon g, []).
  Proof. exact (roundtrip num print parse print_id parse_id wrap normq zero eq0 eqn). Qed.

  (* a second, third, ... cycle changes nothing more *)
  Theorem C13_cycles :
    (forall x, wrap (wrap x) = wrap x) -> (forall q, normq (normq q) = normq q) ->
    forall g, wf g -> expressible g -> canon (canon g) = canon g.
  Proof. exact (canon_idem num wrap normq zero eq0 eqn). Qed.

  (* the writer succeeds exactly on the expressible graphs; everything else is an exception, never a file *)
  Theorem C13_refuses :
    (forall g, wf g -> ~ expressible g -> exists e, export g = Error e) /\
    (forall g, wf g -> (expressible g <-> exists ls, export g = Ok ls)) /\
    (* the enumerated causes *)
    (forall g,
      (exists k i j est info, In (EOdo k i j est info) (g_edges g) /\ (k = KR2 \/ k = KR3)) \/
      (exists ko ke i j est info off oid, In (ELmk ko ke i j est info off oid) (g_edges g) /\ (ko = KR2 \/ ko = KR3)) \/
      (exists ke i j est info off oid, In (ELmk KSE2 ke i j est info off oid) (g_edges g) /\ is_ident_se2 num eq0 off = false) \/
      (exists ke i j est info off, In (ELmk KSE3 ke i j est info off None) (g_edges g)) \/
      (exists ke i j est info off o v, In (ELmk KSE3 ke i j est info off (Some o)) (g_edges g) /\
                                       plookup num (g_params g) (PSE3, o) = Some v /\ list_eqn num eqn v off = false) ->
      ~ expressible g).
  Proof.
    exact (conj (refuses num print print_id eq0 eqn)
          (conj (export_ok_iff num print print_id eq0 eqn) (not_expressible_cases num eq0 eqn))).
  Qed.
  (* any number n >= 1 of export/import cycles yields canon g.  Extra oracle hypotheses: normalize keeps the
     length 4, 0.0 == 0.0; extra hypothesis on the graph: x == x on the entries of every SE(3) offset parameter
     the writer emits (offs_refl: none of them is NaN -- np.array_equal would call a NaN offset "conflicting"). *)
  Theorem C13_cycles_n :
    (forall x, parse (print x) = Some x) -> (forall z, parse_id (print_id z) = Some z) ->
    (forall x, good_tok (print x)) -> (forall z, good_tok (print_id z)) ->
    (forall x, wrap (wrap x) = wrap x) -> (forall q, normq (normq q) = normq q) ->
    (forall q, List.length (normq q) = List.length q) -> eq0 zero = true ->
    forall cts g n, cts_ok cts -> wf g -> no_written_custom num g -> expressible g -> offs_refl num eqn g ->
    iter_cycle num print parse print_id parse_id wrap normq zero eq0 eqn cts (S n) g = Some (canon g).
  Proof. exact (cycles_n num print parse print_id parse_id wrap normq zero eq0 eqn). Qed.

  (* a refused export does not touch the disk (Graph.to_g2o formats every line before it opens the file);
     a successful one writes exactly the lines of [export] *)
  Theorem C13_refusal_leaves_no_file :
    (forall g, (exists e, export g = Error e) -> export_file num print print_id eq0 eqn g = None) /\
    (forall g ls, export g = Ok ls -> export_file num print print_id eq0 eqn g = Some ls).
  Proof.
    exact (conj (refusal_leaves_no_file num print print_id eq0 eqn) (success_writes_all num print print_id eq0 eqn)).
  Qed.
End C13.

(* information: the symmetric matrix survives packing to the upper triangle and back *)
Theorem C13_unpack_pack : forall (A : Type) (n : nat) (M : list (list A)), symm n M -> unpack n (pack M) = M.
Proof. exact (@C14_text.unpack_pack). Qed.

Print Assumptions C13_roundtrip.
Print Assumptions C13_cycles.
Print Assumptions C13_refuses.
Print Assumptions C13_unpack_pack.
Print Assumptions C13_cycles_n.
Print Assumptions C13_refusal_leaves_no_file.
