(* props/C10.v — PROPERTY C10: public pose Jacobian methods are exact derivatives.
   Only the statement, closed by [exact]; the proofs are in proofs/C10_*.v.
   [is_jacobian_on side op J n off d] (lib/Jac.v): for every environment of n reals satisfying
   [side] and every direction u of the d variables starting at off, each component of [op] is
   differentiable along the line at 0 with derivative (J . u).  The op/J terms are the ones
   regenerated from graphslam/pose/*.py by tools/tr_poses.py on every run. *)
From Coq Require Import Reals List.
From Coquelicot Require Import Coquelicot.
From GS Require Import ExprR LinAlg Jac Wrap Meth MethR GenR2 GenR3 GenSE2 GenSE3
  C10_SE3 C10_SE3_boxplus C10_SE2 C10_Rn C10_all.
Import ListNotations.
Open Scope R_scope.


Theorem C10 :
  (* ---- SE(3): all reals, no hypothesis on the quaternion (unit or not, w of any sign) ---- *)
  ( is_jacobian SE3_oplus (mat_of SE3_jacobian_self_oplus_other_wrt_self__SE3) 14 0 7 /\
    is_jacobian SE3_oplus (mat_of SE3_jacobian_self_oplus_other_wrt_other__SE3) 14 7 7 /\
    is_jacobian SE3_ominus (mat_of SE3_jacobian_self_ominus_other_wrt_self__SE3) 14 0 7 /\
    is_jacobian SE3_ominus (mat_of SE3_jacobian_self_ominus_other_wrt_other__SE3) 14 7 7 /\
    is_jacobian SE3_oplus_point (mat_of SE3_jacobian_self_oplus_point_wrt_self__R3) 10 0 7 /\
    is_jacobian SE3_oplus_point (mat_of SE3_jacobian_self_oplus_point_wrt_point__R3) 10 7 3 /\
    is_jacobian SE3_inv (mat_of SE3_jacobian_inverse) 7 0 7 /\
    (forall s u, length s = 7%nat -> length u = 6%nat ->
       Forall2 (fun i dv => is_derive (fun t => nth i (SE3_boxplus_fun s (vscale t u)) 0) 0 dv)
               (seq 0 7) (matvec (evm s (mat_of SE3_jacobian_boxplus)) u)) /\
    mat_of SE3_jacobian_self_oplus_other_wrt_self_compact__SE3 = firstn 6 (mat_of SE3_jacobian_self_oplus_other_wrt_self__SE3) /\
    mat_of SE3_jacobian_self_oplus_other_wrt_other_compact__SE3 = firstn 6 (mat_of SE3_jacobian_self_oplus_other_wrt_other__SE3) /\
    mat_of SE3_jacobian_self_ominus_other_wrt_self_compact__SE3 = firstn 6 (mat_of SE3_jacobian_self_ominus_other_wrt_self__SE3) /\
    mat_of SE3_jacobian_self_ominus_other_wrt_other_compact__SE3 = firstn 6 (mat_of SE3_jacobian_self_ominus_other_wrt_other__SE3) /\
    shape 7 7 (mat_of SE3_jacobian_self_oplus_other_wrt_self__SE3) /\ shape 7 7 (mat_of SE3_jacobian_self_oplus_other_wrt_other__SE3) /\
    shape 7 7 (mat_of SE3_jacobian_self_ominus_other_wrt_self__SE3) /\ shape 7 7 (mat_of SE3_jacobian_self_ominus_other_wrt_other__SE3) /\
    shape 7 6 (mat_of SE3_jacobian_boxplus) /\ shape 7 7 (mat_of SE3_jacobian_inverse) /\
    shape 3 7 (mat_of SE3_jacobian_self_oplus_point_wrt_self__R3) /\ shape 3 3 (mat_of SE3_jacobian_self_oplus_point_wrt_point__R3) ) /\
  (* ---- SE(2): wherever the resulting angle is not exactly at the wrap-around point ---- *)
  ( is_jacobian_on side_oplus SE2_oplus (mat_of SE2_jacobian_self_oplus_other_wrt_self__SE2) 6 0 3 /\
    is_jacobian_on side_oplus SE2_oplus (mat_of SE2_jacobian_self_oplus_other_wrt_other__SE2) 6 3 3 /\
    is_jacobian_on side_ominus SE2_ominus (mat_of SE2_jacobian_self_ominus_other_wrt_self__SE2) 6 0 3 /\
    is_jacobian_on side_ominus SE2_ominus (mat_of SE2_jacobian_self_ominus_other_wrt_other__SE2) 6 3 3 /\
    is_jacobian SE2_oplus_point (mat_of SE2_jacobian_self_oplus_point_wrt_self__R2) 5 0 3 /\
    is_jacobian SE2_oplus_point (mat_of SE2_jacobian_self_oplus_point_wrt_point__R2) 5 3 2 /\
    is_jacobian_on side_inv SE2_inv (mat_of SE2_jacobian_inverse) 3 0 3 /\
    is_jacobian_on side_boxplus SE2_boxplus (mat_of SE2_jacobian_boxplus) 6 3 3 /\
    mat_of SE2_jacobian_self_oplus_other_wrt_self_compact__SE2 = firstn 3 (mat_of SE2_jacobian_self_oplus_other_wrt_self__SE2) /\
    mat_of SE2_jacobian_self_oplus_other_wrt_other_compact__SE2 = firstn 3 (mat_of SE2_jacobian_self_oplus_other_wrt_other__SE2) /\
    mat_of SE2_jacobian_self_ominus_other_wrt_self_compact__SE2 = firstn 3 (mat_of SE2_jacobian_self_ominus_other_wrt_self__SE2) /\
    mat_of SE2_jacobian_self_ominus_other_wrt_other_compact__SE2 = firstn 3 (mat_of SE2_jacobian_self_ominus_other_wrt_other__SE2) /\
    shape 3 3 (mat_of SE2_jacobian_self_oplus_other_wrt_self__SE2) /\ shape 3 3 (mat_of SE2_jacobian_self_oplus_other_wrt_other__SE2) /\
    shape 3 3 (mat_of SE2_jacobian_self_ominus_other_wrt_self__SE2) /\ shape 3 3 (mat_of SE2_jacobian_self_ominus_other_wrt_other__SE2) /\
    shape 3 3 (mat_of SE2_jacobian_boxplus) /\ shape 3 3 (mat_of SE2_jacobian_inverse) /\
    shape 2 3 (mat_of SE2_jacobian_self_oplus_point_wrt_self__R2) /\ shape 2 2 (mat_of SE2_jacobian_self_oplus_point_wrt_point__R2) ) /\
  (* ---- R^2 and R^3 ---- *)
  ( is_jacobian R2_oplus (mat_of R2_jacobian_self_oplus_other_wrt_self__R2) 4 0 2 /\
    is_jacobian R2_oplus (mat_of R2_jacobian_self_oplus_other_wrt_other__R2) 4 2 2 /\
    is_jacobian R2_ominus (mat_of R2_jacobian_self_ominus_other_wrt_self__R2) 4 0 2 /\
    is_jacobian R2_ominus (mat_of R2_jacobian_self_ominus_other_wrt_other__R2) 4 2 2 /\
    is_jacobian R2_oplus (mat_of R2_jacobian_self_oplus_point_wrt_self__R2) 4 0 2 /\
    is_jacobian R2_oplus (mat_of R2_jacobian_self_oplus_point_wrt_point__R2) 4 2 2 /\
    is_jacobian R2_boxplus (mat_of R2_jacobian_boxplus) 4 2 2 /\
    is_jacobian R2_inv (mat_of R2_jacobian_inverse) 2 0 2 ) /\
  ( is_jacobian R3_oplus (mat_of R3_jacobian_self_oplus_other_wrt_self__R3) 6 0 3 /\
    is_jacobian R3_oplus (mat_of R3_jacobian_self_oplus_other_wrt_other__R3) 6 3 3 /\
    is_jacobian R3_ominus (mat_of R3_jacobian_self_ominus_other_wrt_self__R3) 6 0 3 /\
    is_jacobian R3_ominus (mat_of R3_jacobian_self_ominus_other_wrt_other__R3) 6 3 3 /\
    is_jacobian R3_oplus (mat_of R3_jacobian_self_oplus_point_wrt_self__R3) 6 0 3 /\
    is_jacobian R3_oplus (mat_of R3_jacobian_self_oplus_point_wrt_point__R3) 6 3 3 /\
    is_jacobian R3_boxplus (mat_of R3_jacobian_boxplus) 6 3 3 /\
    is_jacobian R3_inv (mat_of R3_jacobian_inverse) 3 0 3 ) /\
  ( mat_of R2_jacobian_self_oplus_other_wrt_self_compact__R2 = firstn 2 (mat_of R2_jacobian_self_oplus_other_wrt_self__R2) /\
    mat_of R2_jacobian_self_oplus_other_wrt_other_compact__R2 = firstn 2 (mat_of R2_jacobian_self_oplus_other_wrt_other__R2) /\
    mat_of R2_jacobian_self_ominus_other_wrt_self_compact__R2 = firstn 2 (mat_of R2_jacobian_self_ominus_other_wrt_self__R2) /\
    mat_of R2_jacobian_self_ominus_other_wrt_other_compact__R2 = firstn 2 (mat_of R2_jacobian_self_ominus_other_wrt_other__R2) /\
    mat_of R3_jacobian_self_oplus_other_wrt_self_compact__R3 = firstn 3 (mat_of R3_jacobian_self_oplus_other_wrt_self__R3) /\
    mat_of R3_jacobian_self_oplus_other_wrt_other_compact__R3 = firstn 3 (mat_of R3_jacobian_self_oplus_other_wrt_other__R3) /\
    mat_of R3_jacobian_self_ominus_other_wrt_self_compact__R3 = firstn 3 (mat_of R3_jacobian_self_ominus_other_wrt_self__R3) /\
    mat_of R3_jacobian_self_ominus_other_wrt_other_compact__R3 = firstn 3 (mat_of R3_jacobian_self_ominus_other_wrt_other__R3) ).
Proof. exact C10_all. Qed.
Print Assumptions C10.
