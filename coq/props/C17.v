(* props/C17.v — PROPERTY C17: equals is a sound, total tolerance comparison.
   Only statements, closed by [exact]; proofs in proofs/C17_struct.v, C17_num.v, C17_all.v.
   [equalsR_* tol] (lib/EqualsSpec.v) are the executable models of the equals methods
   (lib/EqualsModel.v) at the real numbers with np.linalg.norm = sqrt of the sum of squares.
   [wf_*]: well-formed (a pose stores as many numbers as its class says; a landmark edge has a pose
   as offset).  [*_rel P a b]: a and b have the same structure (ids, classes, lengths, shapes, order,
   edge class, offset_id) and every pair of corresponding number arrays satisfies P.
     closeR tol x y : norm(x-y)/max(norm x, tol) < tol        (the test of the code)
     nearR tol x y  : norm(x-y) < tol^2                        (far below the band)
     farR tol x y   : norm(x-y) >= tol*(max(norm x, norm y)+tol)   (far above the band)
     notfarR tol x y := ~ farR tol x y;   anyP x y := True       (structure only)
   A copy of an object is the same value in the model, so C17_refl is also C17_copy. *)
From Coq Require Import Reals List ZArith QArith Qreals.
From GS Require Import PyBase EqualsModel EqualsSpec C17_struct C17_num C17_all C17_bridge.
Import ListNotations.
Open Scope R_scope.

Theorem C17_total : forall tol : R,
  (forall a b, wf_pose a -> wf_pose b -> forall e, equalsR_pose tol a b <> VRaise e) /\
  (forall a b, wf_vertex a -> wf_vertex b -> forall e, equalsR_vertex tol a b <> VRaise e) /\
  (forall a b, wf_edge a -> wf_edge b -> forall e, equalsR_edge tol a b <> VRaise e) /\
  (forall a b, wf_graph a -> wf_graph b -> forall e, equalsR_graph tol a b <> VRaise e).
Proof. exact total_all. Qed.
Print Assumptions C17_total.

(* exact characterisation of the answer True *)
Theorem C17_iff : forall tol : R,
  (forall a b, wf_pose a -> wf_pose b -> (equalsR_pose tol a b = VTrue <-> pose_rel (closeR tol) a b)) /\
  (forall a b, wf_vertex a -> wf_vertex b -> (equalsR_vertex tol a b = VTrue <-> vertex_rel (closeR tol) a b)) /\
  (forall a b, wf_edge a -> wf_edge b -> (equalsR_edge tol a b = VTrue <-> edge_rel (closeR tol) a b)) /\
  (forall a b, wf_graph a -> wf_graph b -> (equalsR_graph tol a b = VTrue <-> graph_rel (closeR tol) a b)).
Proof. exact iff_all. Qed.
Print Assumptions C17_iff.

Theorem C17_refl : forall tol : R, 0 < tol ->
  (forall a, wf_pose a -> equalsR_pose tol a a = VTrue) /\
  (forall a, wf_vertex a -> equalsR_vertex tol a a = VTrue) /\
  (forall a, wf_edge a -> equalsR_edge tol a a = VTrue) /\
  (forall a, wf_graph a -> equalsR_graph tol a a = VTrue).
Proof. exact refl_all. Qed.
Print Assumptions C17_refl.

Theorem C17_near : forall tol : R, 0 < tol ->
  (forall a b, wf_pose a -> wf_pose b -> pose_rel (nearR tol) a b -> equalsR_pose tol a b = VTrue /\ equalsR_pose tol b a = VTrue) /\
  (forall a b, wf_vertex a -> wf_vertex b -> vertex_rel (nearR tol) a b -> equalsR_vertex tol a b = VTrue /\ equalsR_vertex tol b a = VTrue) /\
  (forall a b, wf_edge a -> wf_edge b -> edge_rel (nearR tol) a b -> equalsR_edge tol a b = VTrue /\ equalsR_edge tol b a = VTrue) /\
  (forall a b, wf_graph a -> wf_graph b -> graph_rel (nearR tol) a b -> equalsR_graph tol a b = VTrue /\ equalsR_graph tol b a = VTrue).
Proof. exact near_all. Qed.
Print Assumptions C17_near.

(* not (same structure and no component far apart)  =>  False, in both directions *)
Theorem C17_far : forall tol : R, 0 < tol ->
  (forall a b, wf_pose a -> wf_pose b -> ~ pose_rel (notfarR tol) a b -> equalsR_pose tol a b = VFalse /\ equalsR_pose tol b a = VFalse) /\
  (forall a b, wf_vertex a -> wf_vertex b -> ~ vertex_rel (notfarR tol) a b -> equalsR_vertex tol a b = VFalse /\ equalsR_vertex tol b a = VFalse) /\
  (forall a b, wf_edge a -> wf_edge b -> ~ edge_rel (notfarR tol) a b -> equalsR_edge tol a b = VFalse /\ equalsR_edge tol b a = VFalse) /\
  (forall a b, wf_graph a -> wf_graph b -> ~ graph_rel (notfarR tol) a b -> equalsR_graph tol a b = VFalse /\ equalsR_graph tol b a = VFalse).
Proof. exact far_all. Qed.
Print Assumptions C17_far.

(* any difference in ids / classes / lengths / shapes / order / edge class / offset_id => False,
   in both directions, for every tol and whatever the numbers *)
Theorem C17_structural : forall tol : R,
  (forall a b, wf_pose a -> wf_pose b -> ~ pose_rel anyP a b -> equalsR_pose tol a b = VFalse /\ equalsR_pose tol b a = VFalse) /\
  (forall a b, wf_vertex a -> wf_vertex b -> ~ vertex_rel anyP a b -> equalsR_vertex tol a b = VFalse /\ equalsR_vertex tol b a = VFalse) /\
  (forall a b, wf_edge a -> wf_edge b -> ~ edge_rel anyP a b -> equalsR_edge tol a b = VFalse /\ equalsR_edge tol b a = VFalse) /\
  (forall a b, wf_graph a -> wf_graph b -> ~ graph_rel anyP a b -> equalsR_graph tol a b = VFalse /\ equalsR_graph tol b a = VFalse).
Proof. exact structural_all. Qed.
Print Assumptions C17_structural.

(* what "same structure" means, component by component *)
Theorem C17_structure_meaning :
  (forall a b : pose R, pose_rel anyP a b <-> p_kind a = p_kind b /\ length (p_num a) = length (p_num b)) /\
  (forall a b : vertex R, vertex_rel anyP a b <-> v_id a = v_id b /\ p_kind (v_pose a) = p_kind (v_pose b) /\
                                               length (p_num (v_pose a)) = length (p_num (v_pose b))) /\
  (forall a b : edge R, edge_rel anyP a b ->
     e_class a = e_class b /\ e_ids a = e_ids b /\ a_shape (e_info a) = a_shape (e_info b) /\
     match e_est a, e_est b with
     | EPose p, EPose q => p_kind p = p_kind q
     | EArr x, EArr y => a_shape x = a_shape y
     | _, _ => False
     end /\
     (e_class a = Landmark -> e_offid a = e_offid b /\
        exists p q, e_off a = Some p /\ e_off b = Some q /\ p_kind p = p_kind q)) /\
  (forall a b : graph R, graph_rel anyP a b ->
     length (g_edges a) = length (g_edges b) /\ length (g_vertices a) = length (g_vertices b) /\
     (forall i ea eb, nth_error (g_edges a) i = Some ea -> nth_error (g_edges b) i = Some eb -> edge_rel anyP ea eb) /\
     (forall i va vb, nth_error (g_vertices a) i = Some va -> nth_error (g_vertices b) i = Some vb -> vertex_rel anyP va vb)).
Proof. exact structure_meaning. Qed.
Print Assumptions C17_structure_meaning.

(* the well-formedness hypothesis cannot be dropped: EdgeLandmark documents `offset : BasePose, None`,
   and two landmark edges whose offset is None make equals raise AttributeError *)
Theorem C17_total_refuted_offset_none :
  exists a : edge R, equalsR_edge 1 a a = VRaise AttributeError.
Proof. exact total_refuted_offset_none. Qed.
Print Assumptions C17_total_refuted_offset_none.

(* the rational, sqrt-free instance that the correspondence EXECUTES against the implementation
   (smallQ: sumsq(d) < tol^2 * max(sumsq(a), tol^2)) returns the verdict of the real instance above *)
Theorem C17_executed_model_is_real_model : forall tol : Q, (0 < tol)%Q ->
  (forall a b, pose_equals Qminus (smallQ tol) a b = equalsR_pose (Q2R tol) (map_pose Q2R a) (map_pose Q2R b)) /\
  (forall a b, vertex_equals Qminus (smallQ tol) a b = equalsR_vertex (Q2R tol) (map_vertex Q2R a) (map_vertex Q2R b)) /\
  (forall a b, edge_equals Qminus (smallQ tol) a b = equalsR_edge (Q2R tol) (map_edge Q2R a) (map_edge Q2R b)) /\
  (forall a b, graph_equals Qminus (smallQ tol) a b = equalsR_graph (Q2R tol) (map_graph Q2R a) (map_graph Q2R b)).
Proof. exact bridge_all. Qed.
Print Assumptions C17_executed_model_is_real_model.
