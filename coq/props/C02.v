(* props/C02.v -- PROPERTY C02: edge errors and chi^2 implement the documented measurement model (regenerated programs vs the independent homogeneous-matrix / Hamilton-product specification lib/Spec.v)
   Only the statement, closed by [exact]; proofs are in proofs/C02_*.v. *)
From Coq Require Import Reals List Permutation.
From GS Require Import ExprR LinAlg Meth MethR Prog Chain Wrap Spec Chi2 GenR2 GenR3 GenSE2 GenSE3 GenEdges GenChi2
  C10_SE3 C10_SE3_boxplus C10_SE2 C10_Rn C09_SE3 C09_SE2 C01_SE3 C01_Rn C01_SE2 C02_odo3 C02_model C02_chi2 C02_zero C02_all.
Import ListNotations.
Open Scope R_scope.

(* err_* : real meaning of the regenerated calc_error programs; hom3 / hom2 / spec_act* : the independent
   specification lib/Spec.v; edge_chi2 : the regenerated np.dot form of BaseEdge.calc_chi2;
   graph_chi2_edges : Graph.calc_chi2 (sum over the edge list). *)

Theorem C02 :
  (* ---- odometry: with D := p2 (-) p1 and E := z (-) D the error is compact(E) and, as rigid motions,
          M(p1) M(D) = M(p2) and M(D) M(E) = M(z), i.e. E = (p1^-1 p2)^-1 z ---- *)
  (forall p1 p2 z, length p1 = 7%nat -> length p2 = 7%nat -> length z = 7%nat -> unitq p1 -> unitq p2 -> unitq z ->
     let D := evl (p2 ++ p1) SE3_ominus in let E := evl (z ++ D) SE3_ominus in
     err_odo3 p1 p2 z = firstn 6 E /\ mmul (hom3 p1) (hom3 D) = hom3 p2 /\ mmul (hom3 D) (hom3 E) = hom3 z) /\
  (forall p1 p2 z, length p1 = 3%nat -> length p2 = 3%nat -> length z = 3%nat ->
     let D := evl (p2 ++ p1) SE2_ominus in let E := evl (z ++ D) SE2_ominus in
     err_odo2 p1 p2 z = E /\ mmul (hom2 p1) (hom2 D) = hom2 p2 /\ mmul (hom2 D) (hom2 E) = hom2 z) /\
  (* ---- landmark: with Q := p (+) offset, Q applied to (error + measurement) is the landmark ---- *)
  (forall p l z off, length p = 7%nat -> length l = 3%nat -> length z = 3%nat -> length off = 7%nat -> unitq p -> unitq off ->
     spec_act3 (evl (p ++ off) SE3_oplus) (vadd (err_lmk3 p l z off) z) = l) /\
  (forall p l z off, length p = 3%nat -> length l = 2%nat -> length z = 2%nat -> length off = 3%nat ->
     spec_act2 (evl (p ++ off) SE2_oplus) (vadd (err_lmk2 p l z off) z) = l) /\
  (* ---- R^n ---- *)
  ( (forall p1 p2 z, length p1 = 2%nat -> length p2 = 2%nat -> length z = 2%nat ->
       err_odoR2 p1 p2 z = [nth 0 z 0 - (nth 0 p2 0 - nth 0 p1 0); nth 1 z 0 - (nth 1 p2 0 - nth 1 p1 0)]) /\
    (forall p1 p2 z, length p1 = 3%nat -> length p2 = 3%nat -> length z = 3%nat ->
       err_odoR3 p1 p2 z = [nth 0 z 0 - (nth 0 p2 0 - nth 0 p1 0); nth 1 z 0 - (nth 1 p2 0 - nth 1 p1 0); nth 2 z 0 - (nth 2 p2 0 - nth 2 p1 0)]) /\
    (forall p l z off, length p = 2%nat -> length l = 2%nat -> length z = 2%nat -> length off = 2%nat ->
       err_lmkR2 p l z off = [nth 0 l 0 - (nth 0 p 0 + nth 0 off 0) - nth 0 z 0; nth 1 l 0 - (nth 1 p 0 + nth 1 off 0) - nth 1 z 0]) /\
    (forall p l z off, length p = 3%nat -> length l = 3%nat -> length z = 3%nat -> length off = 3%nat ->
       err_lmkR3 p l z off = [nth 0 l 0 - (nth 0 p 0 + nth 0 off 0) - nth 0 z 0; nth 1 l 0 - (nth 1 p 0 + nth 1 off 0) - nth 1 z 0;
                              nth 2 l 0 - (nth 2 p 0 + nth 2 off 0) - nth 2 z 0]) ) /\
  (* ---- chi^2 ---- *)
  (forall n e om, (0 < n)%nat -> square_mat n om -> edge_chi2 e om = quad e om) /\
  (forall es, List.Forall edge_ok es -> List.Forall (fun p => psd (length (fst p)) (snd p)) es -> 0 <= graph_chi2_edges es) /\
  (forall es, List.Forall edge_ok es -> List.Forall (fun p => pd (length (fst p)) (snd p)) es ->
     (graph_chi2_edges es = 0 <-> List.Forall (fun p => fst p = zeros (length (fst p))) es)) /\
  (forall n e a b c d, (0 < n)%nat -> square_mat n a -> square_mat n b -> square_mat n (madd (mscale c a) (mscale d b)) ->
     edge_chi2 e (madd (mscale c a) (mscale d b)) = c * edge_chi2 e a + d * edge_chi2 e b) /\
  (forall es es', Permutation es es' -> graph_chi2_edges es = graph_chi2_edges es') /\
  (* ---- a vanishing error means that the measurement agrees with the vertex estimates ---- *)
  (forall p1 p2 z, length p1 = 7%nat -> length p2 = 7%nat -> length z = 7%nat -> unitq p1 -> unitq p2 -> unitq z ->
     err_odo3 p1 p2 z = zeros 6 -> hom3 z = hom3 (evl (p2 ++ p1) SE3_ominus)) /\
  (forall p1 p2 z, length p1 = 7%nat -> length p2 = 7%nat -> unitq p1 -> unitq p2 ->
     (z = evl (p2 ++ p1) SE3_ominus \/ z = negq (evl (p2 ++ p1) SE3_ominus)) -> err_odo3 p1 p2 z = zeros 6) /\
  (forall p l z off, length p = 7%nat -> length l = 3%nat -> length z = 3%nat -> length off = 7%nat -> unitq p -> unitq off ->
     (err_lmk3 p l z off = zeros 3 <-> spec_act3 (evl (p ++ off) SE3_oplus) z = l)) /\
  (forall p1 p2 z, length p1 = 3%nat -> length p2 = 3%nat -> length z = 3%nat ->
     err_odo2 p1 p2 z = zeros 3 -> hom2 z = hom2 (evl (p2 ++ p1) SE2_ominus)) /\
  (forall p1 p2, length p1 = 3%nat -> length p2 = 3%nat -> err_odo2 p1 p2 (evl (p2 ++ p1) SE2_ominus) = zeros 3) /\
  (forall p l z off, length p = 3%nat -> length l = 2%nat -> length z = 2%nat -> length off = 3%nat ->
     err_lmk2 p l z off = zeros 2 -> spec_act2 (evl (p ++ off) SE2_oplus) z = l).
Proof. exact C02_all. Qed.
Print Assumptions C02.
