(* props/C12.v -- PROPERTY C12: the optimization report is faithful, the stopping rule is the documented
   one, verbose does not alter results, splitting a run reproduces the trajectory (no hidden state).
   Only statements, closed by [exact]; proofs in proofs/C12_OptLoop.v (any scalar type, any
   comparison -- hence also the IEEE instance that tools/corr_optloop.py compares bit for bit with
   graphslam/graph.py) and proofs/C12_R.v (the real-number reading).  Model: lib/OptLoop.v.

   Vocabulary (lib/OptLoop.v):  optimize T SC St chi2_of step prep tol max_iter verbose s  returns
   (state, report, printed lines);  stepn step k s = step^k s;  cseq .. s k = c_k = chi2_of (step^k (prep s));
   stops .. tol s k = the model's boolean test  "c_k <= c_(k-1) and (c_(k-1) - c_k)/(c_(k-1) + eps) < tol";
   first_stop .. tol s max_iter K : K is the least k in [1, max_iter) with stops k = true;
   no_stop .. tol s max_iter : stops k = false for every k in [1, max_iter).
   Over R (lib/OptLoopR.v): documented_stop tol prev c := c <= prev /\ (prev - c)/(prev + eps_R) < tol,
   first_stop_R / no_stop_R the same notions stated with that proposition. *)
From Coq Require Import Reals List.
From GS Require Import OptLoop OptLoopR C12_OptLoop C12_R.
Import ListNotations.
Close Scope R_scope.   (* Reals opens it; the statements below annotate real-number terms with %R *)

Theorem C12_initial :
  forall (T : Type) (SC : scalar T) (St : Type) (chi2_of : St -> T) (step prep : St -> St)
         (tol : T) (max_iter : nat) (vb : bool) (s : St),
    0 < max_iter ->
    initial_chi2 (out_report (optimize T SC St chi2_of step prep tol max_iter vb s))
      = Some (cseq T St chi2_of step prep s 0).
Proof. exact C12_initial_thm. Qed.
Print Assumptions C12_initial.

Theorem C12_iter_chi2 :
  forall (T : Type) (SC : scalar T) (St : Type) (chi2_of : St -> T) (step prep : St -> St)
         (tol : T) (max_iter : nat) (vb : bool) (s : St) (k : nat) (e : iter_result T),
    0 < max_iter ->
    nth_error (iters (out_report (optimize T SC St chi2_of step prep tol max_iter vb s))) k = Some e ->
    exists N, num_iterations (out_report (optimize T SC St chi2_of step prep tol max_iter vb s)) = Some N /\
      (k < N -> it_chi2 e = Some (cseq T St chi2_of step prep s (S k)) /\
                it_rel_diff e = Some (neg SC (div SC (sub SC (cseq T St chi2_of step prep s k) (cseq T St chi2_of step prep s (S k)))
                                                     (add SC (cseq T St chi2_of step prep s k) (eps SC)))) /\
                it_complete e = true) /\
      (N <= k -> it_chi2 e = None /\ it_rel_diff e = None /\ it_complete e = false).
Proof. exact C12_iter_chi2_thm. Qed.
Print Assumptions C12_iter_chi2.

Theorem C12_final :
  forall (T : Type) (SC : scalar T) (St : Type) (chi2_of : St -> T) (step prep : St -> St)
         (tol : T) (max_iter : nat) (vb : bool) (s : St),
    0 < max_iter ->
    final_chi2 (out_report (optimize T SC St chi2_of step prep tol max_iter vb s))
      = Some (chi2_of (out_state (optimize T SC St chi2_of step prep tol max_iter vb s))).
Proof. exact C12_final_thm. Qed.
Print Assumptions C12_final.

Theorem C12_stop :
  forall (T : Type) (SC : scalar T) (St : Type) (chi2_of : St -> T) (step prep : St -> St)
         (tol : T) (max_iter : nat) (vb : bool) (s : St),
    (forall K, first_stop T SC St chi2_of step prep tol s max_iter K ->
       converged (out_report (optimize T SC St chi2_of step prep tol max_iter vb s)) = true /\
       num_iterations (out_report (optimize T SC St chi2_of step prep tol max_iter vb s)) = Some K /\
       length (iters (out_report (optimize T SC St chi2_of step prep tol max_iter vb s))) = S K /\
       out_state (optimize T SC St chi2_of step prep tol max_iter vb s) = stepn step K (prep s) /\
       raised (out_report (optimize T SC St chi2_of step prep tol max_iter vb s)) = false) /\
    (0 < max_iter -> no_stop T SC St chi2_of step prep tol s max_iter ->
       converged (out_report (optimize T SC St chi2_of step prep tol max_iter vb s)) = stops T SC St chi2_of step prep tol s max_iter /\
       num_iterations (out_report (optimize T SC St chi2_of step prep tol max_iter vb s)) = Some max_iter /\
       length (iters (out_report (optimize T SC St chi2_of step prep tol max_iter vb s))) = max_iter /\
       out_state (optimize T SC St chi2_of step prep tol max_iter vb s) = stepn step max_iter (prep s) /\
       raised (out_report (optimize T SC St chi2_of step prep tol max_iter vb s)) = false) /\
    ((exists K, first_stop T SC St chi2_of step prep tol s max_iter K) \/ no_stop T SC St chi2_of step prep tol s max_iter) /\
    (max_iter = 0 ->
       raised (out_report (optimize T SC St chi2_of step prep tol max_iter vb s)) = true /\
       out_state (optimize T SC St chi2_of step prep tol max_iter vb s) = prep s /\
       iters (out_report (optimize T SC St chi2_of step prep tol max_iter vb s)) = [] /\
       num_iterations (out_report (optimize T SC St chi2_of step prep tol max_iter vb s)) = None).
Proof. exact C12_stop_thm. Qed.
Print Assumptions C12_stop.

(* the same over the reals, the test spelled out as the documented pair of inequalities *)
Theorem C12_stop_R :
  forall (St : Type) (chi2_of : St -> R) (step prep : St -> St) (tol : R) (max_iter : nat) (vb : bool) (s : St),
    (forall K, first_stop_R tol (cseq R St chi2_of step prep s) max_iter K ->
       converged (out_report (optimize R R_scalar St chi2_of step prep tol max_iter vb s)) = true /\
       num_iterations (out_report (optimize R R_scalar St chi2_of step prep tol max_iter vb s)) = Some K /\
       length (iters (out_report (optimize R R_scalar St chi2_of step prep tol max_iter vb s))) = S K /\
       out_state (optimize R R_scalar St chi2_of step prep tol max_iter vb s) = stepn step K (prep s)) /\
    (0 < max_iter -> no_stop_R tol (cseq R St chi2_of step prep s) max_iter ->
       (converged (out_report (optimize R R_scalar St chi2_of step prep tol max_iter vb s)) = true <->
          documented_stop tol (cseq R St chi2_of step prep s (max_iter - 1)) (cseq R St chi2_of step prep s max_iter)) /\
       num_iterations (out_report (optimize R R_scalar St chi2_of step prep tol max_iter vb s)) = Some max_iter /\
       length (iters (out_report (optimize R R_scalar St chi2_of step prep tol max_iter vb s))) = max_iter /\
       out_state (optimize R R_scalar St chi2_of step prep tol max_iter vb s) = stepn step max_iter (prep s)) /\
    ((exists K, first_stop_R tol (cseq R St chi2_of step prep s) max_iter K) \/
     no_stop_R tol (cseq R St chi2_of step prep s) max_iter).
Proof. exact C12_stop_R_thm. Qed.
Print Assumptions C12_stop_R.

Theorem C12_verbose :
  forall (T : Type) (SC : scalar T) (St : Type) (chi2_of : St -> T) (step prep : St -> St)
         (tol : T) (max_iter : nat) (s : St),
    out_state (optimize T SC St chi2_of step prep tol max_iter true s)
      = out_state (optimize T SC St chi2_of step prep tol max_iter false s) /\
    out_report (optimize T SC St chi2_of step prep tol max_iter true s)
      = out_report (optimize T SC St chi2_of step prep tol max_iter false s) /\
    out_lines (optimize T SC St chi2_of step prep tol max_iter false s) = [] /\
    (0 < max_iter ->
       out_lines (optimize T SC St chi2_of step prep tol max_iter true s)
         = verbose_lines (out_report (optimize T SC St chi2_of step prep tol max_iter true s))).
Proof. exact C12_verbose_thm. Qed.
Print Assumptions C12_verbose.

(* exact condition: no early stop anywhere in [1, k1+k2) -- this contains the cut k1 itself, where the
   single run tests and the split run does not (see C12_split_boundary_refuted) *)
Theorem C12_split :
  forall (T : Type) (SC : scalar T) (St : Type) (chi2_of : St -> T) (step prep : St -> St),
    (forall x, prep (prep x) = prep x) -> (forall x, prep (step (prep x)) = step (prep x)) ->
  forall (tol : T) (k1 k2 : nat) (vb : bool) (s : St),
    0 < k1 -> 0 < k2 -> no_stop T SC St chi2_of step prep tol s (k1 + k2) ->
    let A := optimize T SC St chi2_of step prep tol (k1 + k2) vb s in
    let B1 := optimize T SC St chi2_of step prep tol k1 vb s in
    let B2 := optimize T SC St chi2_of step prep tol k2 vb (out_state B1) in
    out_state A = out_state B2 /\
    iters (out_report A) = iters (out_report B1) ++ iters (out_report B2) /\
    initial_chi2 (out_report A) = initial_chi2 (out_report B1) /\
    final_chi2 (out_report B1) = initial_chi2 (out_report B2) /\
    final_chi2 (out_report A) = final_chi2 (out_report B2) /\
    converged (out_report A) = converged (out_report B2) /\
    num_iterations (out_report A) = Some (k1 + k2) /\
    num_iterations (out_report B1) = Some k1 /\ num_iterations (out_report B2) = Some k2.
Proof. exact C12_split_thm. Qed.
Print Assumptions C12_split.

(* over R with tol = 0 the condition holds whenever chi^2 is non-negative *)
Theorem C12_split_tol0_R :
  forall (St : Type) (chi2_of : St -> R) (step prep : St -> St) (k1 k2 : nat) (vb : bool) (s : St),
    (forall x, prep (prep x) = prep x) -> (forall x, prep (step (prep x)) = step (prep x)) ->
    0 < k1 -> 0 < k2 -> (forall k, (0 <= cseq R St chi2_of step prep s k)%R) ->
    let A := optimize R R_scalar St chi2_of step prep 0%R (k1 + k2) vb s in
    let B1 := optimize R R_scalar St chi2_of step prep 0%R k1 vb s in
    let B2 := optimize R R_scalar St chi2_of step prep 0%R k2 vb (out_state B1) in
    out_state A = out_state B2 /\
    iters (out_report A) = iters (out_report B1) ++ iters (out_report B2) /\
    initial_chi2 (out_report A) = initial_chi2 (out_report B1) /\
    final_chi2 (out_report B1) = initial_chi2 (out_report B2) /\
    final_chi2 (out_report A) = final_chi2 (out_report B2) /\
    converged (out_report A) = converged (out_report B2) /\
    num_iterations (out_report A) = Some (k1 + k2) /\
    num_iterations (out_report B1) = Some k1 /\ num_iterations (out_report B2) = Some k2.
Proof. exact C12_split_tol0_R_thm. Qed.
Print Assumptions C12_split_tol0_R.

(* without the condition at the cut the statement is false: the documented test may hold exactly at
   k1 (and nowhere inside either piece); then the single run stops there and the split run goes on *)
Theorem C12_split_boundary_refuted :
  exists (St : Type) (chi2_of : St -> R) (step prep : St -> St) (tol : R) (k1 k2 : nat) (s : St),
    (forall x, prep (prep x) = prep x) /\ (forall x, prep (step (prep x)) = step (prep x)) /\
    0 < k1 /\ 0 < k2 /\
    no_stop_R tol (cseq R St chi2_of step prep s) k1 /\
    no_stop_R tol (cseq R St chi2_of step prep (stepn step k1 (prep s))) k2 /\
    out_state (optimize R R_scalar St chi2_of step prep tol (k1 + k2) false s) <>
    out_state (optimize R R_scalar St chi2_of step prep tol k2 false
                 (out_state (optimize R R_scalar St chi2_of step prep tol k1 false s))).
Proof. exact C12_split_boundary_refuted_thm. Qed.
Print Assumptions C12_split_boundary_refuted.

(* no hidden state: (a) the returned state is exactly num_iterations applications of step to the
   prepared input state; (b) optimize observes the state only through chi2_of, step and prep: any two
   systems related by a chi^2-preserving simulation give equal reports, equal printed lines and
   related final states (so nothing outside St -- a cache, a history -- can influence the result) *)
Theorem C12_no_hidden_state :
  (forall (T : Type) (SC : scalar T) (St : Type) (chi2_of : St -> T) (step prep : St -> St)
          (tol : T) (max_iter : nat) (vb : bool) (s : St),
     exists N, N <= max_iter /\
       out_state (optimize T SC St chi2_of step prep tol max_iter vb s) = stepn step N (prep s) /\
       (0 < max_iter -> num_iterations (out_report (optimize T SC St chi2_of step prep tol max_iter vb s)) = Some N)) /\
  (forall (T : Type) (SC : scalar T) (St1 St2 : Type) (chi1 : St1 -> T) (chi2 : St2 -> T)
          (step1 prep1 : St1 -> St1) (step2 prep2 : St2 -> St2) (Rel : St1 -> St2 -> Prop),
     (forall a b, Rel a b -> chi1 a = chi2 b) ->
     (forall a b, Rel a b -> Rel (step1 a) (step2 b)) ->
     (forall a b, Rel a b -> Rel (prep1 a) (prep2 b)) ->
     forall (tol : T) (max_iter : nat) (vb : bool) (a : St1) (b : St2), Rel a b ->
       out_report (optimize T SC St1 chi1 step1 prep1 tol max_iter vb a)
         = out_report (optimize T SC St2 chi2 step2 prep2 tol max_iter vb b) /\
       out_lines (optimize T SC St1 chi1 step1 prep1 tol max_iter vb a)
         = out_lines (optimize T SC St2 chi2 step2 prep2 tol max_iter vb b) /\
       Rel (out_state (optimize T SC St1 chi1 step1 prep1 tol max_iter vb a))
           (out_state (optimize T SC St2 chi2 step2 prep2 tol max_iter vb b))).
Proof. exact (conj C12_state_thm C12_simulation_thm). Qed.
Print Assumptions C12_no_hidden_state.
