(* props/C04.v -- PROPERTY C04: linear (R^2/R^3) graphs are solved to the global weighted-least-squares optimum (affine edge programs regenerated from the source; Gauss-Newton algebra over lib/GNSpec.v)
   Only the statement, closed by [exact]; proofs are in proofs/C04_*.v. *)
From Coq Require Import Reals List Arith Bool.
From GS Require Import ExprR LinAlg GraphModel GNSpec LinearSpec C01_Rn C04_affine C04_linear C04_all.
Import ListNotations.
Open Scope R_scope.

Theorem C04 :
  (* the R^n edge programs regenerated from the source are affine with constant Jacobians *)
  (forall p1 p2 z d1 d2, length p1 = 2%nat -> length p2 = 2%nat -> length z = 2%nat -> length d1 = 2%nat -> length d2 = 2%nat ->
     err_odoR2 (R2_boxplus_fun p1 d1) (R2_boxplus_fun p2 d2) z =
     vadd (err_odoR2 p1 p2 z) (vadd (matvec (nth 0 (jac_odoR2 p1 p2 z) []) d1) (matvec (nth 1 (jac_odoR2 p1 p2 z) []) d2)) /\
     jac_odoR2 (R2_boxplus_fun p1 d1) (R2_boxplus_fun p2 d2) z = jac_odoR2 p1 p2 z) /\
  (forall p1 p2 z d1 d2, length p1 = 3%nat -> length p2 = 3%nat -> length z = 3%nat -> length d1 = 3%nat -> length d2 = 3%nat ->
     err_odoR3 (R3_boxplus_fun' p1 d1) (R3_boxplus_fun' p2 d2) z =
     vadd (err_odoR3 p1 p2 z) (vadd (matvec (nth 0 (jac_odoR3 p1 p2 z) []) d1) (matvec (nth 1 (jac_odoR3 p1 p2 z) []) d2)) /\
     jac_odoR3 (R3_boxplus_fun' p1 d1) (R3_boxplus_fun' p2 d2) z = jac_odoR3 p1 p2 z) /\
  (forall p l z off d1 d2, length p = 2%nat -> length l = 2%nat -> length z = 2%nat -> length off = 2%nat -> length d1 = 2%nat -> length d2 = 2%nat ->
     err_lmkR2 (R2_boxplus_fun p d1) (R2_boxplus_fun l d2) z off =
     vadd (err_lmkR2 p l z off) (vadd (matvec (nth 0 (jac_lmkR2 p l z off) []) d1) (matvec (nth 1 (jac_lmkR2 p l z off) []) d2)) /\
     jac_lmkR2 (R2_boxplus_fun p d1) (R2_boxplus_fun l d2) z off = jac_lmkR2 p l z off) /\
  (forall p l z off d1 d2, length p = 3%nat -> length l = 3%nat -> length z = 3%nat -> length off = 3%nat -> length d1 = 3%nat -> length d2 = 3%nat ->
     err_lmkR3 (R3_boxplus_fun' p d1) (R3_boxplus_fun' l d2) z off =
     vadd (err_lmkR3 p l z off) (vadd (matvec (nth 0 (jac_lmkR3 p l z off) []) d1) (matvec (nth 1 (jac_lmkR3 p l z off) []) d2)) /\
     jac_lmkR3 (R3_boxplus_fun' p d1) (R3_boxplus_fun' l d2) z off = jac_lmkR3 p l z off) /\
  (* for graphs of such edges (lib/LinearSpec.v): one Gauss-Newton step from ANY start reaches zero gradient; the
     Hessian does not depend on the state; a zero-gradient state stays; exact expansion of chi2; optimality for PSD
     information; uniqueness for an injective Hessian *)
  one_step_statement /\ hessian_constant_statement /\ stays_statement /\ expansion_statement /\ optimal_statement /\ unique_statement /\
  (* the hypotheses are satisfiable *)
  (wf_graph lin_vs [lin_e] /\ solves (glen lin_vs) (spec_H lin_vs [lin_e]) (spec_b lin_vs [lin_e]) lin_dx).
Proof. exact C04_all. Qed.
Print Assumptions C04.
