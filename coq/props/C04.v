(* props/C04.v -- PROPERTY C04: linear (R^2/R^3) graphs are solved to the global weighted-least-squares optimum (affine edge programs regenerated from the source; Gauss-Newton algebra over lib/GNSpec.v; both joined for whole graphs of the regenerated programs, also for the assembled system)
   Only the statement, closed by [exact]; proofs are in proofs/C04_*.v. *)
From Coq Require Import Reals List Arith Bool.
From GS Require Import ExprR LinAlg GraphModel GNSpec LinearSpec C01_Rn C04_affine C04_linear C07_ext C07_whole C07_wholeRn C05_grad C04_whole Assembled C04_all.
Import ListNotations.
Open Scope R_scope.

Theorem C04 :
 (  (* the R^n edge programs regenerated from the source are affine with constant Jacobians *)
  (forall p1 p2 z d1 d2, length p1 = 2%nat -> length p2 = 2%nat -> length z = 2%nat -> length d1 = 2%nat -> length d2 = 2%nat ->
     err_odoR2 (R2_boxplus_fun p1 d1) (R2_boxplus_fun p2 d2) z =
     vadd (err_odoR2 p1 p2 z) (vadd (matvec (nth 0 (jac_odoR2 p1 p2 z) []) d1) (matvec (nth 1 (jac_odoR2 p1 p2 z) []) d2)) /\
     jac_odoR2 (R2_boxplus_fun p1 d1) (R2_boxplus_fun p2 d2) z = jac_odoR2 p1 p2 z) /\
  (forall p1 p2 z d1 d2, length p1 = 3%nat -> length p2 = 3%nat -> length z = 3%nat -> length d1 = 3%nat -> length d2 = 3%nat ->
     err_odoR3 (R3_boxplus_fun' p1 d1) (R3_boxplus_fun' p2 d2) z =
     vadd (err_odoR3 p1 p2 z) (vadd (matvec (nth 0 (jac_odoR3 p1 p2 z) []) d1) (matvec (nth 1 (jac_odoR3 p1 p2 z) []) d2)) /\
     jac_odoR3 (R3_boxplus_fun' p1 d1) (R3_boxplus_fun' p2 d2) z = jac_odoR3 p1 p2 z) /\
  (forall p l z off d1 d2, length p = 2%nat -> length l = 2%nat -> length z = 2%nat -> length off = 2%nat -> length d1 = 2%nat -> length d2 = 2%nat ->
     err_lmkR2 (R2_boxplus_fun p d1) (R2_boxplus_fun l d2) z off =
     vadd (err_lmkR2 p l z off) (vadd (matvec (nth 0 (jac_lmkR2 p l z off) []) d1) (matvec (nth 1 (jac_lmkR2 p l z off) []) d2)) /\
     jac_lmkR2 (R2_boxplus_fun p d1) (R2_boxplus_fun l d2) z off = jac_lmkR2 p l z off) /\
  (forall p l z off d1 d2, length p = 3%nat -> length l = 3%nat -> length z = 3%nat -> length off = 3%nat -> length d1 = 3%nat -> length d2 = 3%nat ->
     err_lmkR3 (R3_boxplus_fun' p d1) (R3_boxplus_fun' l d2) z off =
     vadd (err_lmkR3 p l z off) (vadd (matvec (nth 0 (jac_lmkR3 p l z off) []) d1) (matvec (nth 1 (jac_lmkR3 p l z off) []) d2)) /\
     jac_lmkR3 (R3_boxplus_fun' p d1) (R3_boxplus_fun' l d2) z off = jac_lmkR3 p l z off) /\
  (* for graphs of such edges (lib/LinearSpec.v): one Gauss-Newton step from ANY start reaches zero gradient; the
     Hessian does not depend on the state; a zero-gradient state stays; exact expansion of chi2; optimality for PSD
     information; uniqueness for an injective Hessian *)
  one_step_statement /\ hessian_constant_statement /\ stays_statement /\ expansion_statement /\ optimal_statement /\ unique_statement /\
  (* the hypotheses are satisfiable *)
  (wf_graph lin_vs [lin_e] /\ solves (glen lin_vs) (spec_H lin_vs [lin_e]) (spec_b lin_vs [lin_e]) lin_dx)) /\
  (* ---- the two halves joined for WHOLE R^n graphs of the regenerated programs (proofs/C04_whole.v): a graph over one point per vertex position
          ([poses]) with R^2 / R^3 odometry and landmark edges that look their vertices up; [recsR poses gs] are the lib/GraphModel.v records built from
          what the regenerated error / Jacobian programs return at [poses]; [move_poses vs poses dx] moves every vertex by its slice of dx through the
          code's boxplus.  From ANY start and for ANY solution dx of the normal equations, the gradient assembled at the moved state is zero and the
          Hessian assembled there is the Hessian of the start (so the next step is zero for an injective Hessian, statements above). ---- *)
  (forall vs poses gs dx,
     length poses = length vs -> List.Forall (fun v => (0 < v_dim v)%nat) vs -> List.Forall (okgR vs poses) gs ->
     solves (glen vs) (spec_H vs (recsR poses gs)) (spec_b vs (recsR poses gs)) dx ->
     (forall r, (r < glen vs)%nat -> spec_b vs (recsR (move_poses vs poses dx) gs) r = 0) /\
     (forall r c, spec_H vs (recsR (move_poses vs poses dx) gs) r c = spec_H vs (recsR poses gs) r c)) /\
  (* ... and for the system produced by the ASSEMBLY ALGORITHM of lib/GraphModel.v (through assembly_correct of C03) *)
  (forall vs poses gs dx,
     length poses = length vs -> List.Forall (fun v => (0 < v_dim v)%nat) vs -> List.Forall (okgR vs poses) gs ->
     List.Forall (okgR vs (move_poses vs poses dx)) gs ->
     solves (glen vs) (assemble_hessian R 0 1 Rplus Rmult vs (recsR poses gs)) (assemble_gradient R 0 Rplus Rmult vs (recsR poses gs)) dx ->
     forall r, (r < glen vs)%nat -> assemble_gradient R 0 Rplus Rmult vs (recsR (move_poses vs poses dx) gs) r = 0) /\
  (length exR_poses = length exR_vs /\ List.Forall (fun v => (0 < v_dim v)%nat) exR_vs /\ List.Forall (okgR exR_vs exR_poses) exR_gs).
Proof. exact C04_all. Qed.
Print Assumptions C04.
