(* props/C09.v -- PROPERTY C09: pose composition is the rigid-motion group (translated pose code vs. the independent specification lib/Spec.v)
   Only the statement, closed by [exact]; proofs are in proofs/C09_*.v. *)
From Coq Require Import Reals List.
From GS Require Import ExprR LinAlg Meth MethR Wrap Spec GenR2 GenR3 GenSE2 GenSE3
  C10_SE3 C10_SE3_boxplus C10_SE2 C10_Rn C09_SE3 C09_SE2 C09_all.
Import ListNotations.
Open Scope R_scope.

Theorem C09 :
  (* ================= SE(3); poses are [tx;ty;tz;qx;qy;qz;qw]; unitq p := |q|^2 = 1 ================= *)
  ( (forall a, length a = 7%nat -> evm a (mat_of SE3_to_matrix) = hom3 a) /\
    (forall a b, length a = 7%nat -> length b = 7%nat -> unitq a -> evl (a ++ b) SE3_oplus = spec_oplus3 a b) /\
    (forall a b, length a = 7%nat -> length b = 7%nat -> skipn 3 (evl (a ++ b) SE3_oplus) = qmul (quat3 a) (quat3 b)) /\
    (forall a b, length a = 7%nat -> length b = 7%nat -> unitq a -> hom3 (evl (a ++ b) SE3_oplus) = mmul (hom3 a) (hom3 b)) /\
    (forall a b, length a = 7%nat -> length b = 7%nat -> evl (a ++ b) SE3_ominus = evl (evl b SE3_inv ++ a) SE3_oplus) /\
    (forall a, length a = 7%nat -> unitq a -> evl a SE3_inv = spec_inv3 a) /\
    (forall a, length a = 7%nat -> unitq a -> evl (a ++ evl a SE3_inv) SE3_oplus = ident3) /\
    (forall a, length a = 7%nat -> unitq a -> evl (evl a SE3_inv ++ a) SE3_oplus = ident3) /\
    evl [] (vec_of SE3_identity) = ident3 /\
    (forall a, length a = 7%nat -> evl (a ++ ident3) SE3_oplus = a) /\
    (forall a, length a = 7%nat -> evl (ident3 ++ a) SE3_oplus = a) /\
    (forall a b c, length a = 7%nat -> length b = 7%nat -> length c = 7%nat -> unitq a -> unitq b ->
       evl (evl (a ++ b) SE3_oplus ++ c) SE3_oplus = evl (a ++ evl (b ++ c) SE3_oplus) SE3_oplus) /\
    (forall a x, length a = 7%nat -> length x = 3%nat -> unitq a -> evl (a ++ x) SE3_oplus_point = spec_act3 a x) /\
    (forall s d, length s = 7%nat -> length d = 6%nat -> (nth 3 d 0)^2 + (nth 4 d 0)^2 + (nth 5 d 0)^2 <= 1 ->
       SE3_boxplus_fun s d = evl (s ++ from_compact3 d) SE3_oplus) /\
    (forall s d, length s = 7%nat -> length d = 6%nat -> 1 < (nth 3 d 0)^2 + (nth 4 d 0)^2 + (nth 5 d 0)^2 ->
       SE3_boxplus_fun s d = evl (s ++ (firstn 3 d ++ [0;0;0;1])) SE3_oplus) /\
    (SE3_iadd__SE3 = SE3_add__SE3 /\ SE3_iadd__arr6 = SE3_add__arr6 /\ SE3_iadd__R3 = SE3_add__R3) /\
    (kind_of (SE3_add KSE3) = KSE3 /\ kind_of (SE3_add KR3) = KR3 /\ kind_of (SE3_add (KArr 3)) = KR3 /\
     kind_of (SE3_sub KSE3) = KSE3 /\ kind_of SE3_inverse = KSE3 /\
     raises (SE3_add KR2) = Some NotImplementedError /\ raises (SE3_add (KArr 7)) = Some NotImplementedError) ) /\
  (* ================= SE(2); poses are [x;y;theta]; in_range p := -pi <= theta < pi ================= *)
  ( (forall a, length a = 3%nat -> evm a (mat_of SE2_to_matrix) = hom2 a) /\
    (forall a b, length a = 3%nat -> length b = 3%nat -> hom2 (evl (a ++ b) SE2_oplus) = mmul (hom2 a) (hom2 b)) /\
    (forall a b, length a = 3%nat -> length b = 3%nat -> nth 2 (evl (a ++ b) SE2_oplus) 0 = wrap (nth 2 a 0 + nth 2 b 0)) /\
    (forall a b, length a = 3%nat -> length b = 3%nat -> evl (a ++ b) SE2_ominus = evl (evl b SE2_inv ++ a) SE2_oplus) /\
    (forall a, length a = 3%nat -> evl (a ++ evl a SE2_inv) SE2_oplus = ident2) /\
    (forall a, length a = 3%nat -> evl (evl a SE2_inv ++ a) SE2_oplus = ident2) /\
    evl [] (vec_of SE2_identity) = ident2 /\
    (forall a, length a = 3%nat -> in_range a -> evl (a ++ ident2) SE2_oplus = a) /\
    (forall a, length a = 3%nat -> in_range a -> evl (ident2 ++ a) SE2_oplus = a) /\
    (forall a b c, length a = 3%nat -> length b = 3%nat -> length c = 3%nat ->
       evl (evl (a ++ b) SE2_oplus ++ c) SE2_oplus = evl (a ++ evl (b ++ c) SE2_oplus) SE2_oplus) /\
    (forall a v, length a = 3%nat -> length v = 2%nat -> evl (a ++ v) SE2_oplus_point = spec_act2 a v) /\
    (forall a b, length a = 3%nat -> length b = 3%nat ->
       in_range (evl (a ++ b) SE2_oplus) /\ in_range (evl (a ++ b) SE2_ominus) /\ in_range (evl a SE2_inv)) /\
    (SE2_add__arr3 = SE2_add__SE2 /\ SE2_iadd__SE2 = SE2_add__SE2 /\ SE2_iadd__arr3 = SE2_add__arr3 /\ SE2_iadd__R2 = SE2_add__R2) /\
    (kind_of (SE2_add KSE2) = KSE2 /\ kind_of (SE2_add KR2) = KR2 /\ kind_of (SE2_add (KArr 2)) = KR2 /\
     kind_of (SE2_add (KArr 3)) = KSE2 /\ kind_of (SE2_sub KSE2) = KSE2 /\ kind_of SE2_inverse = KSE2 /\
     raises (SE2_add KSE3) = Some NotImplementedError) ) /\
  (* ================= R^2, R^3 ================= *)
  ( forall a b c,
    (length a = 2%nat -> length b = 2%nat -> length c = 2%nat ->
       evl (a ++ b) R2_oplus = vadd a b /\
       evl (a ++ b) R2_ominus = evl (evl b R2_inv ++ a) R2_oplus /\
       evl (a ++ evl a R2_inv) R2_oplus = [0;0] /\ evl (evl a R2_inv ++ a) R2_oplus = [0;0] /\
       evl (a ++ [0;0]) R2_oplus = a /\ evl ([0;0] ++ a) R2_oplus = a /\
       evl (evl (a ++ b) R2_oplus ++ c) R2_oplus = evl (a ++ evl (b ++ c) R2_oplus) R2_oplus /\
       evl (a ++ b) R2_boxplus = evl (a ++ b) R2_oplus) /\
    (length a = 3%nat -> length b = 3%nat -> length c = 3%nat ->
       evl (a ++ b) R3_oplus = vadd a b /\
       evl (a ++ b) R3_ominus = evl (evl b R3_inv ++ a) R3_oplus /\
       evl (a ++ evl a R3_inv) R3_oplus = [0;0;0] /\ evl (evl a R3_inv ++ a) R3_oplus = [0;0;0] /\
       evl (a ++ [0;0;0]) R3_oplus = a /\ evl ([0;0;0] ++ a) R3_oplus = a /\
       evl (evl (a ++ b) R3_oplus ++ c) R3_oplus = evl (a ++ evl (b ++ c) R3_oplus) R3_oplus /\
       evl (a ++ b) R3_boxplus = evl (a ++ b) R3_oplus) ) /\
  ( evl [] (vec_of R2_identity) = [0;0] /\ evl [] (vec_of R3_identity) = [0;0;0] ).
Proof. exact C09_all. Qed.
Print Assumptions C09.
