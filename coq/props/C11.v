(* props/C11.v -- PROPERTY C11 (exact-arithmetic part): manifold invariants are preserved -- SE(2) angle range and congruence, SE(3) unit quaternions along any chain of operations / optimizer updates, normalize().  The size of floating-point drift is NOT a theorem; it is a soak test in tools/props/c11.py.
   Only the statement, closed by [exact]; proofs are in proofs/C11_*.v. *)
From Coq Require Import Reals List ZArith.
From GS Require Import ExprR LinAlg Meth MethR Wrap Spec GenSE2 GenSE3
  C10_SE3 C10_SE3_boxplus C10_SE2 C09_SE3 C09_SE2 C11_main C11_all.
Import ListNotations.
Open Scope R_scope.

Theorem C11 :
  (* ---- SE(2): the angle stored by the constructor and by every operation is wrap(exact angle),
          and wrap(x) lies in [-pi, pi) and differs from x by a multiple of 2 pi ---- *)
  (forall x y th, evl [x; y; th] (vec_of SE2_new) = [x; y; wrap th]) /\
  (forall a b, length a = 3%nat -> length b = 3%nat ->
     nth 2 (evl (a ++ b) SE2_oplus) 0 = wrap (nth 2 a 0 + nth 2 b 0) /\
     nth 2 (evl (a ++ b) SE2_ominus) 0 = wrap (nth 2 a 0 - nth 2 b 0) /\
     nth 2 (evl a SE2_inv) 0 = wrap (- nth 2 a 0) /\
     nth 2 (evl (a ++ b) SE2_boxplus) 0 = wrap (nth 2 a 0 + nth 2 b 0) /\
     nth 2 (evl a (vec_of SE2_copy)) 0 = wrap (nth 2 a 0)) /\
  (forall x, (- PI <= wrap x < PI) /\ exists k : Z, wrap x = x + 2 * PI * IZR k) /\
  (forall a, length a = 3%nat -> in_range a -> evl a (vec_of SE2_copy) = a) /\
  (* ---- SE(3): |q|^2 is multiplicative under (+), (-), preserved by inverse and by boxplus (both
          branches), hence preserved along ANY chain of operations and ANY number of optimizer updates ---- *)
  (forall a b, length a = 7%nat -> length b = 7%nat ->
     qn2 (evl (a ++ b) SE3_oplus) = qn2 a * qn2 b /\
     qn2 (evl (a ++ b) SE3_ominus) = qn2 a * qn2 b /\
     qn2 (evl a SE3_inv) = qn2 a) /\
  (forall s d, length s = 7%nat -> length d = 6%nat -> qn2 (SE3_boxplus_fun s d) = qn2 s) /\
  (forall (ops : list pose_op) x, length x = 7%nat -> qn2 x = 1 -> List.Forall op_ok ops ->
     length (fold_left apply_op ops x) = 7%nat /\ qn2 (fold_left apply_op ops x) = 1) /\
  (forall (ds : list (list R)) x, length x = 7%nat -> qn2 x = 1 -> List.Forall (fun d => length d = 6%nat) ds ->
     qn2 (fold_left SE3_boxplus_fun ds x) = 1) /\
  (* ---- normalize(): same translation, unit norm, non-negative scalar part, quaternion = q / c ---- *)
  (forall p, length p = 7%nat -> qn2 p <> 0 ->
     let r := SE3_normalize_fun p in
     length r = 7%nat /\ firstn 3 r = firstn 3 p /\ qn2 r = 1 /\ (0 <= nth 6 r 0) /\
     (exists c, c <> 0 /\ quat3 r = map (fun x => x / c) (quat3 p))) /\
  (forall c q v, length q = 4%nat -> length v = 3%nat ->
     qrot (map (fun x => c * x) q) v = map (fun x => c * c * x) (qrot q v)).
Proof. exact C11_all. Qed.
Print Assumptions C11.
