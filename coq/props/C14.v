(* props/C14.v -- PROPERTY C14: .g2o import is faithful to the file.
   Only statements, closed by [exact]; proofs in proofs/C14_*.v.  Model: lib/G2OModel.v (Graph.from_g2o as
   [import], one file = the list of strings readlines() returns); vocabulary: lib/G2OSpec.v.
   [parse]/[parse_id] are Python's float()/int() (None = ValueError) -- an ORACLE, nothing is assumed about
   them here; [wrap] = neg_pi_to_pi, [normq] = PoseSE3.normalize, [zero] = the entries of PoseSE2.identity(). *)
From Coq Require Import List ZArith String Ascii Bool Arith.
From GS Require Import G2OModel G2OSpec C14_text C14_all.
Import ListNotations.
Open Scope string_scope.
Open Scope list_scope.
Open Scope nat_scope.

Section C14.
  Variable num : Type.
  Variable parse : string -> option num.
  Variable parse_id : string -> option Z.
  Variable wrap : num -> num.
  Variable normq : list num -> list num.
  Variable zero : num.
  Notation import := (import num parse parse_id wrap normq zero).
  Notation trace := (trace num parse parse_id wrap normq zero).
  Notation parse_line := (parse_line num parse parse_id wrap normq zero).
  Notation unrecognised := (unrecognised num parse parse_id wrap normq zero).

  (* every line yields exactly one item (a vertex, an edge, a parameter, a warning, or nothing for a blank
     line), computed from that line alone and the parameter dictionary AS OF that line; the graph is these
     items in file order, nothing else *)
  Theorem C14_one_object_per_line : forall cts ls g ws,
    import cts ls = Ok (g, ws) ->
    exists its : list (item num),
      trace cts [] ls its (g_params g) /\
      List.length its = List.length ls /\
      g_params g = fold_left (step_params num) its [] /\
      g_verts g = flat_map (verts_of num) its /\
      g_edges g = flat_map (edges_of num) its /\
      ws = flat_map (warns_of num) (combine ls its).
  Proof. exact (one_object_per_line num parse parse_id wrap normq zero). Qed.

  (* per tag: which token is which field; triangular expansion; offset = the dictionary's value for that id *)
  Theorem C14_fields :
    (forall k it nts i xs, parse_id it = Some i -> map parse nts = map Some xs -> List.length xs = dimk k ->
       parse_vertex num parse parse_id wrap k (it :: nts) = Ok (IVert (mkV i k (post num wrap k xs)))) /\
    (forall p it nts i xs, parse_id it = Some i -> map parse nts = map Some xs ->
       List.length xs = (match p with PSE2 => 3 | PSE3 => 7 end) ->
       parse_param num parse parse_id wrap p (it :: nts)
       = Ok (IParam (p, i) (match p with PSE2 => wrap3 num wrap xs | PSE3 => xs end))) /\
    (forall a b ets its i j est tr, parse_id a = Some i -> parse_id b = Some j ->
       map parse ets = map Some est -> List.length est = 3 -> map parse its = map Some tr -> List.length tr = tri 3 ->
       parse_odo_se2 num parse parse_id wrap (a :: b :: ets ++ its)
       = Ok (IEdge (EOdo KSE2 i j (wrap3 num wrap est) (unpack 3 tr)))) /\
    (forall a b ets its i j est tr, parse_id a = Some i -> parse_id b = Some j ->
       map parse ets = map Some est -> List.length est = 7 -> map parse its = map Some tr -> List.length tr = tri 6 ->
       parse_odo_se3 num parse parse_id normq (a :: b :: ets ++ its)
       = Ok (IEdge (EOdo KSE3 i j (normq7 num normq est) (unpack 6 tr)))) /\
    (forall a b ets its i j est tr, parse_id a = Some i -> parse_id b = Some j ->
       map parse ets = map Some est -> List.length est = 2 -> map parse its = map Some tr -> List.length tr = tri 2 ->
       parse_lmk_se2 num parse parse_id zero (a :: b :: ets ++ its)
       = Ok (IEdge (ELmk KSE2 KR2 i j est (unpack 2 tr) (ident_se2 num zero) (Some 0%Z)))) /\
    (forall ps a b c ets its i j o est tr, parse_id a = Some i -> parse_id b = Some j -> parse_id c = Some o ->
       map parse ets = map Some est -> List.length est = 3 -> map parse its = map Some tr -> List.length tr = tri 3 ->
       parse_lmk_se3 num parse parse_id ps (a :: b :: c :: ets ++ its)
       = match plookup num ps (PSE3, o) with
         | Some off => Ok (IEdge (ELmk KSE3 KR3 i j est (unpack 3 tr) off (Some o)))
         | None => Error EKey
         end) /\
    (forall ct its ets tts ids est tr, map parse_id its = map Some ids -> List.length ids = ct_nids ct ->
       map parse ets = map Some est -> List.length est = ct_nest ct ->
       map parse tts = map Some tr -> List.length tr = tri (ct_dim ct) ->
       parse_custom num parse parse_id ct (its ++ ets ++ tts) = Ok (IEdge (ECus ct ids est (unpack (ct_dim ct) tr)))) /\
    (forall (d : num) n (l : list num) i j, List.length l = tri n -> i < n -> j < n ->
       nth j (nth i (unpack n l) []) d = full_entry d n l i j /\
       full_entry d n l i j = full_entry d n l j i) /\
    (forall nids nnum ts, List.length ts = nids + nnum ->
       (exists t, In t (skipn nids ts) /\ parse t = None) -> parse_fields num parse parse_id nids nnum ts = Error EValue).
  Proof. exact (fields_all num parse parse_id wrap normq zero). Qed.

  (* a blank line anywhere changes nothing; an unrecognised line anywhere adds exactly one warning (that line,
     at its place) and changes nothing else -- same graph, same error if any; and what "unrecognised" means *)
  Theorem C14_skip :
    (forall cts l1 l l2, blank l = true -> import cts (l1 ++ l :: l2) = import cts (l1 ++ l2)) /\
    (forall cts l1 l l2, unrecognised cts l ->
       match import cts (l1 ++ l2) with
       | Ok (g, ws) => exists w1 w2, ws = w1 ++ w2 /\ import cts (l1 ++ l :: l2) = Ok (g, w1 ++ l :: w2)
       | Error e => import cts (l1 ++ l :: l2) = Error e
       end) /\
    (forall cts l, blank l = false ->
       (forall t, In t builtin_tags -> starts_with (t ++ " ")%string l = false) ->
       Forall (fun ct => ct_reads ct = true -> starts_with (ct_tag ct ++ " ")%string l = false) cts ->
       unrecognised cts l).
  Proof. exact (skip_all num parse parse_id wrap normq zero). Qed.

  (* the ten tags with their trailing space are pairwise non-prefixes; so a line starting with one of them goes
     to that tag's parser whatever the order of the tests; vertices precede custom types, custom types precede
     the built-in edge and parameter parsers *)
  Theorem C14_prefix_disjoint :
    (forall a b s, In a builtin_tags -> In b builtin_tags ->
       starts_with (a ++ " ")%string s = true -> starts_with (b ++ " ")%string s = true -> a = b) /\
    (forall cts ps t f r, cts_ok cts -> builtin_parser num parse parse_id wrap normq zero ps t = Some f ->
       parse_line cts ps (t ++ " " ++ r)%string = f (split_ws r)) /\
    (forall cts ps k r, parse_line cts ps (vtag k ++ " " ++ r)%string = parse_vertex num parse parse_id wrap k (split_ws r)) /\
    (forall ct cts ps r, ct_reads ct = true -> nospace (ct_tag ct) = true -> ct_tag ct <> "" -> nows (ct_tag ct) = true ->
       (forall k, ct_tag ct <> vtag k) ->
       parse_line (ct :: cts) ps (ct_tag ct ++ " " ++ r)%string = parse_custom num parse parse_id ct (split_ws r)).
  Proof. exact (dispatch_all num parse parse_id wrap normq zero). Qed.
End C14.

(* str.split(): runs of whitespace (space, \t, \n, \v, \f, \r, 0x1c-0x1f) between fields, leading and
   trailing whitespace -- a trailing CR/LF included -- are ignored *)
Theorem C14_ws : forall (items : list (string * string)) (lead : string),
  blank lead = true -> seps_ok items -> split_ws (lead ++ glue items)%string = map fst items.
Proof. exact split_glue. Qed.

Print Assumptions C14_one_object_per_line.
Print Assumptions C14_fields.
Print Assumptions C14_skip.
Print Assumptions C14_prefix_disjoint.
Print Assumptions C14_ws.
